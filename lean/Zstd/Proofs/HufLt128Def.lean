import Zstd.Model.Fse
import Zstd.Model.Huffman
/-
What the generated modules `Zstd/Proofs/HufLt128/B??.lean` evaluate in the kernel: for one alphabet
size `n`, the value histogram of the shape, and for every number `z` of unused symbols and every
value `d` of the weight that is not transmitted the crude size bound of the FSE-compressed weight
description, computed from the NORMALISER only (no table is built, no encoder is run).
Imports only the models, so that the generated modules stay light.
-/
namespace Zstd.Proofs.HufLt128
open Zstd Zstd.Model

/-- `Σ countᵢ · (AL − ⌊log₂ pᵢ⌋)`: worst-case stream bits for the symbols -/
def costSum (al : Nat) : List Nat → List Int → Nat → Nat
  | c :: cs, p :: ps, acc => costSum al cs ps (acc + c * (al - Nat.log2 p.toNat))
  | _, _, acc => acc

/-- upper bound in BITS for `Enc.fseWeights` on a weight vector with value histogram `h`:
table description `4 + (AL+3)·#symbols + 7`, stream `Σ count·cost + 2·AL + 8` -/
def boundOf (h : List Nat) : Nat :=
  match Fse.normalize h 6 true with
  | .ok (probs, al) => 4 + (al + 3) * probs.length + 7 + costSum al h probs 0 + 2 * al + 8
  | .error _ => 100000

def trimRev : List Nat → List Nat
  | 0 :: r => trimRev r
  | l => l

/-- drop trailing zeros, but keep at least two entries: `counts[..=max_symbol.max(1)]` -/
def trim (l : List Nat) : List Nat :=
  match (trimRev l.reverse).reverse with
  | [] => [0, 0]
  | [a] => [a, 0]
  | l => l

def decAt (l : List Nat) (d : Nat) : List Nat := l.modify d (· - 1)

/-- all dropped values `d < k` that occur in the full histogram `f` -/
def checkD (f : List Nat) : Nat → Bool
  | 0 => true
  | d + 1 => (if f.getD d 0 ≥ 1 then decide (boundOf (trim (decAt f d)) ≤ 1023) else true) && checkD f d

/-- the full histogram: the shape's values plus `z` zeros -/
def withZeros (h : List Nat) (z : Nat) : List Nat := (h.headD 0 + z) :: h.tail

/-- all `z ≤ zmax` -/
def sweep (h : List Nat) : Nat → Bool
  | 0 => checkD (withZeros h 0) 12
  | z + 1 => checkD (withZeros h (z + 1)) 12 && sweep h z

/-- how often each value 0 … 11 occurs -/
def valueCounts (ws : List Nat) : List Nat := (List.range 12).map fun v => ws.count v

/-- `h` is the value histogram of `shape n` -/
def shapeHistIs (n : Nat) (h : List Nat) : Bool :=
  match Huf.shape n with
  | .ok ws => valueCounts ws == h
  | .error _ => false

/-- one generated block: (alphabet size, value histogram of its shape) -/
def blockOk (l : List (Nat × List Nat)) : Bool :=
  l.all fun p => shapeHistIs p.1 p.2 && sweep p.2 (256 - p.1)

end Zstd.Proofs.HufLt128
