import Zstd.Proofs.SeqSection
import Zstd.Proofs.SeqExec
import Zstd.Proofs.EncContracts
/-
The block-encoder contract `BlockEncCorrect` (Proofs/EncContracts.lean) for `compress_block` over
ANY literal coder that satisfies `LitCoderCorrect` and the REAL sequence coder
(`encodeSeqSectionReal`): the sequences half of the contract is discharged here, by
`SeqSection.encode_decode_sequences` (count, modes, three FSE table descriptions, interleaved
bitstream → strict `Spec.decodeSequences`) and `SeqExec.execParse_refines` (the matcher's parse =
`Spec.execSequences` of the sequences sent).  What remains for C16/C02 at full strength is the
literal coder's contract for the real Huffman coder (C13) and totality of the real coders.
-/
namespace Zstd.Proofs.SeqBlock
open Zstd Zstd.Spec Zstd.Model Zstd.Model.Enc Zstd.Proofs.Enc Zstd.Proofs.BitIO
open Zstd.Proofs.SeqSection Zstd.Proofs.SeqExec

/-- copy of `codes_in_range` (kept here so that `Props/C16.lean` can import this file) -/
theorem codes_in_range (w : Nat) (pre blk : List Byte) (p : Parse)
    (hv : validParse w pre blk p = true) (hblk : blk.length ≤ 131072)
    (hu32 : w + 3 < 2 ^ 32 ∨ (pre ++ blk).length + 3 < 2 ^ 32) :
    p.seqs.length ≤ 43690 ∧
    ∀ s ∈ p.seqs,
      toRSeq s = .ok ⟨s.lits.length, s.matchLen, s.offset + 3⟩ ∧
      (∃ c x b : Nat, encodeLL s.lits.length = .ok (c, x, b) ∧ c ≤ 35 ∧ x < 2 ^ b) ∧
      (∃ c x b : Nat, encodeML s.matchLen = .ok (c, x, b) ∧ c ≤ 52 ∧ x < 2 ^ b) ∧
      (∃ c x : Nat, encodeOffset (s.offset + 3) = .ok (c, x, c) ∧ c ≤ 31 ∧ x < 2 ^ c ∧ 2 ^ c + x = s.offset + 3) := by
  obtain ⟨seqs, tail⟩ := p
  obtain ⟨_, hall, hcount, _⟩ := validParse_bounds w pre blk seqs tail hv
  refine ⟨by simp only; omega, ?_⟩
  intro s hs
  obtain ⟨h3, ho1, how, hop, hlm⟩ := hall s hs
  have hoff : s.offset + 3 < 2 ^ 32 := by omega
  have hll : s.lits.length < 131072 := by omega
  have hml : s.matchLen < 131075 := by omega
  refine ⟨?_, ?_, ?_, ?_⟩
  · have n64 : ¬ s.offset + 3 ≥ 2 ^ 64 := by omega
    simp only [toRSeq, offsetAdd_eq, n64, ↓reduceIte]
    rw [Nat.mod_eq_of_lt (by omega : s.lits.length < 2 ^ 32), Nat.mod_eq_of_lt (by omega : s.matchLen < 2 ^ 32),
      Nat.mod_eq_of_lt hoff]
  · obtain ⟨c, x, b, h, hc, hx, _⟩ := encodeLL_ok _ hll
    exact ⟨c, x, b, h, hc, hx⟩
  · obtain ⟨c, x, b, h, hc, hx, _⟩ := encodeML_ok _ h3 hml
    exact ⟨c, x, b, h, hc, hx⟩
  · obtain ⟨c, x, h, hc, hx, he⟩ := encodeOffset_ok (s.offset + 3) (by omega) hoff
    exact ⟨c, x, h, hc, hx, he⟩

theorem litHuffGuard_eq (a b : Nat) : Gen.litHuffGuard a b = decide (a > b) := rfl
theorem litHuffThreshold_eq : Gen.litHuffThreshold = 1024 := rfl

theorem mapMExcept_eq_map {α β : Type} (f : α → Except Fault β) (g : α → β) :
    ∀ (l : List α), (∀ a ∈ l, f a = .ok (g a)) → mapMExcept f l = .ok (l.map g) := by
  intro l
  induction l with
  | nil => intro _; rfl
  | cons a as ih =>
    intro h
    simp only [mapMExcept, h a (List.mem_cons_self ..), ih (fun x hx => h x (List.mem_cons_of_mem _ hx)), List.map_cons]

/-- the Rust sequence of a matcher sequence (no cast loses anything) -/
def rOfM (s : MSeq) : RSeq := ⟨s.lits.length, s.matchLen, s.offset + 3⟩

theorem specSeq_rOfM (s : MSeq) : specSeq (rOfM s) = specOfM s := rfl

/-- a decoded literals section consumed at least its header byte -/
theorem decodeLiterals_used_pos {bytes : List Nat} {prev : Option Huffman.Table} {l : List Nat} {used : Nat}
    {t : Option Huffman.Table} (h : Spec.decodeLiterals bytes prev = some (l, used, t)) : 1 ≤ used := by
  unfold Spec.decodeLiterals at h
  split at h
  · cases h
  · rename_i hd hp
    have hpos : 1 ≤ hd.hdrLen := by
      unfold Spec.parseLitHeader at hp
      split at hp
      · cases hp
      · simp only at hp
        repeat' split at hp
        all_goals first | (cases hp) | (simp only [Option.some.injEq] at hp; subst hp; simp) | skip
        all_goals simp_all
        all_goals omega
    simp only at h
    repeat' split at h
    all_goals cases h
    all_goals omega

/-- the literals step of `compress_block`, decoded: whatever follows, the strict Spec reads exactly the
literals from exactly the bytes the step wrote, and `Tracks` is preserved -/
theorem litStep_decodes {H : Type} (R : H → Spec.Huffman.Table → Prop) (cd : Coders H)
    (hcd : LitCoderCorrect R cd) (lits : List Byte) (st st' : EncState H) (litBytes : List Byte)
    (e : Spec.Entropy) (hlen : lits.length < 2 ^ 20) (htr : Tracks R st e)
    (h : litStep cd lits st = .ok (litBytes, st')) (rest : List Byte) :
    ∃ d', Spec.decodeLiterals (litBytes ++ rest) e.huf = some (lits, litBytes.length, d') ∧
      Tracks R st' { e with huf := d' } := by
  simp only [litStep] at h
  split at h
  · split at h
    · cases h
    · rename_i lb t hc
      simp only [Except.ok.injEq, Prod.mk.injEq] at h
      obtain ⟨d', hdec, htr'⟩ := hcd _ _ _ _ e.huf rest hlen htr hc
      refine ⟨d', by rw [← h.1]; exact hdec, ?_⟩
      rw [← h.2]
      intro t' ht'
      simp only at ht'
      exact htr' t' (by rw [← ht']; rfl)
    · rename_i lb hc
      simp only [Except.ok.injEq, Prod.mk.injEq] at h
      obtain ⟨d', hdec, htr'⟩ := hcd _ _ _ _ e.huf rest hlen htr hc
      refine ⟨d', by rw [← h.1]; exact hdec, ?_⟩
      rw [← h.2]
      intro t' ht'
      exact htr' t' (by simpa using ht')
  · obtain ⟨hdr, hraw, hl3, hdec⟩ := rawLiterals_decodes lits rest e.huf hlen
    rw [hraw] at h
    simp only [Except.ok.injEq, Prod.mk.injEq] at h
    refine ⟨e.huf, ?_, by rw [← h.2]; exact htr⟩
    rw [← h.1]
    have : (hdr ++ lits).length = 3 + lits.length := by simp [hl3]
    rw [this]; exact hdec

theorem toArray_of_toList_beq {out : Array Byte} {l : List Byte} (h : (out.toList == l) = true) : out = l.toArray := by
  have : out.toList = l := by simpa using h
  rw [← this]

theorem blockMax_eq : Spec.blockMaxSize = Gen.maxBlockSize := by decide

/-- **the block-encoder contract, sequences half discharged.**  For every literal coder that satisfies its
contract, `compress_block` with the real sequence coder satisfies `BlockEncCorrect`, for every matcher
window `w` whose offsets survive the `(offset + 3) as u32` cast and every declared window `≥ w`. -/
theorem blockEncCorrect_of_litCoder {H : Type} (R : H → Spec.Huffman.Table → Prop) (cd : Coders H)
    (hcd : LitCoderCorrect R cd) (hseq : cd.encodeSeqSection = encodeSeqSectionReal)
    (w window : Nat) (hww : w ≤ window) (hw32 : w + 3 < 2 ^ 32) :
    BlockEncCorrect R w window (compressBlock cd) := by
  intro p st st' bytes e pre blk hv hblk htr henc hle
  have hblk' : blk.length ≤ 131072 := by
    have h1 := Nat.le_trans hblk (Nat.min_le_right _ _)
    rw [maxBlockSize_eq] at h1; exact h1
  obtain ⟨hcount, hall⟩ := codes_in_range w pre blk p hv hblk' (Or.inl hw32)
  obtain ⟨seqs, tail⟩ := p
  obtain ⟨hspan, hbounds, _, hlits⟩ := validParse_bounds w pre blk seqs tail hv
  -- what the parse regenerates
  have hexec : execParse w seqs tail pre.toArray = some (pre ++ blk).toArray := by
    simp only [validParse] at hv
    split at hv
    · rename_i out hex
      rw [hex, toArray_of_toList_beq hv]
    · cases hv
  have hr : mapMExcept toRSeq seqs = .ok (seqs.map rOfM) :=
    mapMExcept_eq_map toRSeq rOfM seqs (fun s hs => (hall s hs).1)
  have hlitlen : (parseLiterals ⟨seqs, tail⟩).length < 2 ^ 20 := by omega
  unfold compressBlock at henc
  simp only [hr] at henc
  split at henc
  · cases henc
  · rename_i litBytes st1 hlit
    have hsizeok : ¬ ((pre ++ blk).toArray.size - pre.toArray.size > min window Spec.blockMaxSize) := by
      rw [blockMax_eq]
      simp only [List.size_toArray, List.length_append]
      omega
    split at henc
    · -- no sequences
      rename_i hemp
      simp only [Except.ok.injEq, Prod.mk.injEq] at henc
      obtain ⟨hb, hst⟩ := henc
      subst hb; subst hst
      have hnil : seqs = [] := by
        cases seqs with
        | nil => rfl
        | cons _ _ => simp at hemp
      subst hnil
      obtain ⟨d', hdec, htr'⟩ := litStep_decodes R cd hcd _ st st1 litBytes e hlitlen htr hlit [0]
      have hused := decodeLiterals_used_pos hdec
      refine ⟨by simp; omega, { e with huf := d' }, ?_, htr'⟩
      simp only [execParse, Option.some.injEq] at hexec
      simp only [Spec.decodeCompressedBlock, hdec, List.drop_left, Spec.decodeSequences, Spec.parseSeqCount,
        if_true, List.length_cons, List.length_nil, Spec.execSequences, parseLiterals, List.flatMap_nil,
        List.nil_append, hexec, hsizeok, if_false]
    · -- at least one sequence
      rename_i hne
      have hne' : seqs.map rOfM ≠ [] := by
        intro h; rw [h] at hne; simp at hne
      have hin : ∀ r ∈ seqs.map rOfM, InRange r := by
        intro r hrm
        obtain ⟨s, hs, rfl⟩ := List.mem_map.mp hrm
        obtain ⟨h3, ho1, how, _, hlm⟩ := hbounds s hs
        simp only [InRange, rOfM]
        omega
      obtain ⟨lls, mls, ofs, cnt, body, LL, OF, ML, h1, h2, h3, hc, hbody, _, hdecS⟩ :=
        encode_decode_sequences (seqs.map rOfM) hne' (by simp only [List.length_map]; omega) hin
          { e with huf := (e.huf) }
      simp only [hc, h1, h2, h3, hseq, hbody] at henc
      simp only [Except.ok.injEq, Prod.mk.injEq] at henc
      obtain ⟨hb, hst⟩ := henc
      subst hb; subst hst
      obtain ⟨d', hdec, htr'⟩ := litStep_decodes R cd hcd _ st st1 litBytes e hlitlen htr hlit (cnt ++ body)
      have hused := decodeLiterals_used_pos hdec
      -- the sequences section, read with the entropy state after the literals
      obtain ⟨_, _, _, cnt', body', LL', OF', ML', g1, g2, g3, gc, gbody, _, gdec⟩ :=
        encode_decode_sequences (seqs.map rOfM) hne' (by simp only [List.length_map]; omega) hin
          { e with huf := d' }
      rw [h1] at g1; rw [h2] at g2; rw [h3] at g3
      cases g1; cases g2; cases g3
      rw [hc] at gc; cases gc
      rw [hbody] at gbody; cases gbody
      obtain ⟨h', hex⟩ := execParse_refines w window hww seqs tail pre.toArray _ e.hist hexec
      have hmap : (seqs.map rOfM).map specSeq = seqs.map specOfM := by
        simp [List.map_map, Function.comp_def, specSeq_rOfM]
      have hcnt1 : 1 ≤ cnt.length := by
        obtain ⟨bs, hbs, hl, _⟩ := encodeSeqnum_ok (seqs.map rOfM).length
          (by cases seqs with
              | nil => simp at hne'
              | cons _ _ => simp) (by simp only [List.length_map]; omega)
        rw [hc] at hbs; cases hbs; exact hl
      refine ⟨by simp only [List.length_append]; omega,
        { e with huf := d', ll := some LL', of := some OF', ml := some ML', hist := h' }, ?_, ?_⟩
      · simp only [Spec.decodeCompressedBlock, List.append_assoc, hdec, List.drop_left, gdec, hmap,
          parseLiterals] at hex ⊢
        simp only [hex, hsizeok, if_false]
      · intro t ht
        exact htr' t ht

end Zstd.Proofs.SeqBlock
