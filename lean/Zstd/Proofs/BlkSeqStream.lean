import Zstd.Proofs.BlkCoupled
import Zstd.Props.C14
/-
C01 (refinement Spec ⇒ Model), block level, the sequence BITSTREAM: whenever the RFC semantics
(`Spec.backwardStream`, three `Spec.Fse.initState`, `Spec.decodeSeqLoop`, nothing left over) accepts
the bitstream with tables coupled to the model's scratch (`ChanCoupled`), the faithful model
`Blk.decodeSeqStream` returns the same sequences.
-/
namespace Zstd.Proofs.Blk
open Zstd Zstd.Model Zstd.Model.BitIO Zstd.Model.Fse Zstd.Model.Blk Zstd.Proofs.BitIO

/-! ## strict Spec reads against the reversed reader -/

theorem readBE_some {k : Nat} {bits : List Bool} {v : Nat} {rest : List Bool}
    (h : Spec.readBE k bits = some (v, rest)) :
    k ≤ bits.length ∧ v = (Spec.readBEPad k bits).1 ∧ rest = bits.drop k := by
  unfold Spec.readBE at h
  simp only [] at h
  split at h
  · cases h
  · rename_i hlen
    simp only [Option.some.injEq, Prod.mk.injEq] at h
    rw [List.length_take] at hlen
    have hk : k ≤ bits.length := by omega
    refine ⟨hk, ?_, h.2.symm⟩
    rw [readBEPad_def, if_neg (by omega)]
    exact h.1.symm

/-- the model reader `br` stands at the Spec's remaining bit list `bits` -/
def RdRel (src : Array Nat) (br : BitReaderRev) (bits : List Bool) : Prop :=
  ∃ pos, RevInv src br pos ∧ pos ≤ 8 * src.size ∧ bits = (stream src).drop pos

theorem RdRel.bitsRemaining {src : Array Nat} {br : BitReaderRev} {bits : List Bool}
    (h : RdRel src br bits) : br.bitsRemaining = (bits.length : Int) := by
  obtain ⟨pos, hi, hp, rfl⟩ := h
  rw [RevInv_bitsRemaining hi, List.length_drop, length_stream]
  omega

theorem rd_read {src : Array Nat} {br : BitReaderRev} {bits : List Bool} {k v : Nat} {rest : List Bool}
    (h : RdRel src br bits) (hk : k ≤ 56) (hr : Spec.readBE k bits = some (v, rest)) :
    ∃ br', br.getBits k = .ok (v, br') ∧ v < 2 ^ k ∧ RdRel src br' rest := by
  obtain ⟨pos, hi, hp, rfl⟩ := h
  obtain ⟨hlen, rfl, rfl⟩ := readBE_some hr
  obtain ⟨br', e, hi'⟩ := bitReaderRev_refines hi hk
  rw [List.length_drop, length_stream] at hlen
  exact ⟨br', e, readBEPad_lt hi.bytes _ _, pos + k, hi', by omega, by rw [List.drop_drop]⟩

theorem rd_triple {src : Array Nat} {br : BitReaderRev} {bits b1 b2 b3 : List Bool}
    {n1 n2 n3 v1 v2 v3 : Nat} (h : RdRel src br bits)
    (h1 : n1 ≤ 56) (h2 : n2 ≤ 56) (h3 : n3 ≤ 56)
    (r1 : Spec.readBE n1 bits = some (v1, b1)) (r2 : Spec.readBE n2 b1 = some (v2, b2))
    (r3 : Spec.readBE n3 b2 = some (v3, b3)) :
    ∃ br', br.getBitsTriple n1 n2 n3 = .ok ((v1, v2, v3), br') ∧
      v1 < 2 ^ n1 ∧ v2 < 2 ^ n2 ∧ v3 < 2 ^ n3 ∧ RdRel src br' b3 := by
  obtain ⟨pos, hi, hp, rfl⟩ := h
  obtain ⟨l1, rfl, rfl⟩ := readBE_some r1
  obtain ⟨l2, rfl, rfl⟩ := readBE_some r2
  obtain ⟨l3, rfl, rfl⟩ := readBE_some r3
  obtain ⟨br', e, hi'⟩ := getBitsTriple_eq_three_gets hi h1 h2 h3
  simp only [List.drop_drop] at l2 l3 ⊢
  simp only [List.length_drop, length_stream] at l1 l2 l3
  exact ⟨br', e, readBEPad_lt hi.bytes _ _, readBEPad_lt hi.bytes _ _, readBEPad_lt hi.bytes _ _,
    pos + n1 + n2 + n3, hi', by omega, rfl⟩

/-! ## skipping the end mark leaves `Spec.backwardStream` -/

theorem fse_skipPadding_of_bitio {r' : BitReaderRev} :
    ∀ (fuel F skipped : Nat) (r : BitReaderRev), fuel ≤ F → skipped + fuel ≤ 8 →
      Zstd.Proofs.BitIO.skipPadding fuel r = .ok (some r') →
      Fse.skipPadding F skipped r = .ok (some r') := by
  intro fuel
  induction fuel with
  | zero => intro F skipped r _ _ h; cases h
  | succ fuel ih =>
    intro F skipped r hF hs h
    obtain ⟨F', rfl⟩ : ∃ F', F = F' + 1 := ⟨F - 1, by omega⟩
    rw [Zstd.Proofs.BitIO.skipPadding] at h
    rw [Fse.skipPadding]
    cases hg : r.getBits 1 with
    | error f => rw [hg] at h; cases h
    | ok p =>
      obtain ⟨v, r1⟩ := p
      rw [hg] at h
      simp only [] at h ⊢
      by_cases hv : v = 1
      · rw [if_pos hv] at h
        rw [if_pos (Or.inl hv), if_neg (by omega)]
        exact h
      · rw [if_neg hv] at h
        rw [if_neg (by omega)]
        exact ih F' (skipped + 1) r1 (by omega) (by omega) h

theorem skipEndMark_backwardStream {src : Array Nat} (hb : Bytes src.toList) {bits : List Bool}
    (h0 : Spec.backwardStream src.toList = some bits) :
    ∃ br, Fse.skipEndMark (BitReaderRev.new src) = .ok (some br) ∧ RdRel src br bits := by
  cases hl : src.toList.getLast? with
  | none => unfold Spec.backwardStream at h0; rw [hl] at h0; cases h0
  | some last =>
    have hnz : last ≠ 0 := by
      intro h
      unfold Spec.backwardStream at h0
      rw [hl] at h0
      simp only [h, if_true] at h0
      cases h0
    obtain ⟨r', k, hk, hs, hinv, hbs⟩ := skipPadding_backwardStream hb hl hnz
    rw [hbs] at h0
    simp only [Option.some.injEq] at h0
    have hsz : 1 ≤ src.size := by
      rcases Nat.eq_zero_or_pos src.size with h | h
      · have : src.toList = [] := by
          apply List.eq_nil_of_length_eq_zero; simpa using h
        rw [this] at hl; cases hl
      · exact h
    refine ⟨r', ?_, k, hinv, by omega, h0.symm⟩
    unfold Fse.skipEndMark
    exact fse_skipPadding_of_bitio 8 9 0 _ (by omega) (by omega) hs

/-! ## one channel: Spec state index against the model decoder's current entry -/

/-- Spec state `st` of a channel against the model decoder `d`: the RLE table has the single state 0;
otherwise `d` holds entry `st` of the table -/
def ChanState (t : DTable) (rle : Option Nat) (d : Fse.Decoder) (st : Nat) : Prop :=
  match rle with
  | some _ => st = 0
  | none => t.decode[st]? = some d.state

theorem chan_symbol {maxLog maxCode : Nat} {T : Spec.Fse.Table} {t : DTable} {rle : Option Nat}
    {d : Fse.Decoder} {st : Nat}
    (hc : ChanCoupled maxLog maxCode T t rle) (hs : ChanState t rle d st) :
    Spec.Fse.symbolOf T st = some (rle.getD d.decodeSymbol) ∧ rle.getD d.decodeSymbol ≤ maxCode := by
  cases rle with
  | some b =>
    obtain ⟨rfl, hb⟩ := hc
    have h0 : st = 0 := hs
    subst h0
    exact ⟨rfl, hb⟩
  | none =>
    obtain ⟨hb, hm, rfl⟩ := hc
    have hs' : t.decode[st]? = some d.state := hs
    refine ⟨?_, ?_⟩
    · simp only [Spec.Fse.symbolOf, specOf, Array.getElem?_map, hs', Option.map_some,
        FseDecTable.toSpecEntry, Option.getD_none, Decoder.decodeSymbol]
    · have := (hb.entries _ (mem_of_getElem? hs')).1
      simp only [Option.getD_none, Decoder.decodeSymbol]; omega

theorem readBE_zero {bits : List Bool} {v : Nat} {rest : List Bool}
    (h : Spec.readBE 0 bits = some (v, rest)) : v = 0 ∧ rest = bits := by
  obtain ⟨_, hv, hr⟩ := readBE_some h
  refine ⟨?_, by simpa using hr⟩
  rw [hv, readBEPad_def]
  simp [Spec.valBE]

theorem chan_init {maxLog maxCode : Nat} {T : Spec.Fse.Table} {t : DTable} {rle : Option Nat}
    (d : Fse.Decoder) (hml : maxLog ≤ 9) (hc : ChanCoupled maxLog maxCode T t rle)
    {src : Array Nat} {br : BitReaderRev} {bits rest : List Bool} {st : Nat}
    (hr : RdRel src br bits) (hi : Spec.Fse.initState T bits = some (st, rest)) :
    ∃ d' br', (if rle.isNone then Blk.liftFse (d.initState t br) else .ok (d, br)) = Except.ok (d', br') ∧
      RdRel src br' rest ∧ ChanState t rle d' st := by
  cases rle with
  | some b =>
    obtain ⟨rfl, _⟩ := hc
    have hi' : Spec.readBE 0 bits = some (st, rest) := hi
    obtain ⟨rfl, rfl⟩ := readBE_zero hi'
    exact ⟨d, br, rfl, hr, rfl⟩
  | none =>
    obtain ⟨hb, hm, rfl⟩ := hc
    have hi' : Spec.readBE t.accuracyLog bits = some (st, rest) := hi
    have hal := hb.al_le
    have hpos := hb.al_pos
    obtain ⟨br', e, hv, hr'⟩ := rd_read hr (by omega) hi'
    have hlt : st < t.decode.size := by rw [hb.size]; exact hv
    refine ⟨⟨t.decode[st]⟩, br', ?_, hr', Array.getElem?_eq_getElem hlt⟩
    simp only [Option.isNone_none, if_true]
    unfold Decoder.initState
    rw [if_neg (by omega), e]
    simp only []
    rw [Array.getElem?_eq_getElem hlt]
    rfl

theorem chan_upd {maxLog maxCode : Nat} {T : Spec.Fse.Table} {t : DTable} {rle : Option Nat}
    {d : Fse.Decoder} (hml : maxLog ≤ 9) (hc : ChanCoupled maxLog maxCode T t rle)
    {src : Array Nat} {br : BitReaderRev} {bits rest : List Bool} {st st' : Nat}
    (hs : ChanState t rle d st)
    (hr : RdRel src br bits) (hu : Spec.Fse.updateState T st bits = some (st', rest)) :
    ∃ d' br', (if rle.isNone then Blk.liftFse (d.updateState t br) else .ok (d, br)) = Except.ok (d', br') ∧
      RdRel src br' rest ∧ ChanState t rle d' st' := by
  cases rle with
  | some b =>
    obtain ⟨rfl, _⟩ := hc
    have h0 : st = 0 := hs
    subst h0
    have hu' : (match Spec.readBE 0 bits with
        | none => none
        | some (v, rest) => some (0 + v, rest)) = some (st', rest) := hu
    cases hrd : Spec.readBE 0 bits with
    | none => rw [hrd] at hu'; cases hu'
    | some p =>
      obtain ⟨v, rest'⟩ := p
      rw [hrd] at hu'
      simp only [Option.some.injEq, Prod.mk.injEq] at hu'
      obtain ⟨rfl, rfl⟩ := readBE_zero hrd
      obtain ⟨rfl, rfl⟩ := hu'
      exact ⟨d, br, rfl, hr, rfl⟩
  | none =>
    obtain ⟨hb, hm, rfl⟩ := hc
    have hs' : t.decode[st]? = some d.state := hs
    simp only [Spec.Fse.updateState, specOf, Array.getElem?_map, hs', Option.map_some,
      FseDecTable.toSpecEntry] at hu
    cases hrd : Spec.readBE d.state.numBits bits with
    | none => rw [hrd] at hu; cases hu
    | some p =>
      obtain ⟨v, rest'⟩ := p
      rw [hrd] at hu
      simp only [Option.some.injEq, Prod.mk.injEq] at hu
      obtain ⟨rfl, rfl⟩ := hu
      have hal := hb.al_le
      obtain ⟨_, hbl, hnb⟩ := hb.entries _ (mem_of_getElem? hs')
      obtain ⟨br', e, hv, hr'⟩ := rd_read hr (by omega) hrd
      have hlt : d.state.baseLine + v < 2 ^ t.accuracyLog := by omega
      have h9 : 2 ^ t.accuracyLog ≤ 2 ^ 9 := Nat.pow_le_pow_right (by omega) (by omega)
      have hlt' : d.state.baseLine + v < t.decode.size := by rw [hb.size]; exact hlt
      refine ⟨⟨t.decode[d.state.baseLine + v]⟩, br', ?_, hr', Array.getElem?_eq_getElem hlt'⟩
      simp only [Option.isNone_none, if_true]
      unfold Decoder.updateState
      rw [e]
      simp only []
      rw [if_neg (by omega), Array.getElem?_eq_getElem hlt']
      rfl

/-! ## code tables -/

theorem llCode_some : ∀ c, c < 36 →
    Spec.llCodeTable[c]? = some (Spec.llCodeTable.getD c (0, 0)) ∧ (Spec.llCodeTable.getD c (0, 0)).2 ≤ 16 := by
  decide

theorem mlCode_some : ∀ c, c < 53 →
    Spec.mlCodeTable[c]? = some (Spec.mlCodeTable.getD c (0, 0)) ∧ (Spec.mlCodeTable.getD c (0, 0)).2 ≤ 16 := by
  decide

theorem llCode_lookup {c : Nat} (h : c ≤ Gen.maxLiteralLengthCode) :
    ∃ base nb, Spec.llCodeTable[c]? = some (base, nb) ∧ lookupLL c = .ok (base, nb) ∧ nb ≤ 16 := by
  have hc : c < 36 := by simp only [Gen.maxLiteralLengthCode] at h; omega
  exact ⟨_, _, (llCode_some c hc).1, Zstd.Props.C14.ll_dec_eq_rfc c hc, (llCode_some c hc).2⟩

theorem mlCode_lookup {c : Nat} (h : c ≤ Gen.maxMatchLengthCode) :
    ∃ base nb, Spec.mlCodeTable[c]? = some (base, nb) ∧ lookupML c = .ok (base, nb) ∧ nb ≤ 16 := by
  have hc : c < 53 := by simp only [Gen.maxMatchLengthCode] at h; omega
  exact ⟨_, _, (mlCode_some c hc).1, Zstd.Props.C14.ml_dec_eq_rfc c hc, (mlCode_some c hc).2⟩

/-! ## the sequence loop -/

theorem seqLoop_refines {s : FseScratch} {llT ofT mlT : Spec.Fse.Table}
    (hll : ChanCoupled Gen.llMaxLog Gen.maxLiteralLengthCode llT s.literalLengths s.llRle)
    (hof : ChanCoupled Gen.ofMaxLog Gen.maxOffsetCode ofT s.offsets s.ofRle)
    (hml : ChanCoupled Gen.mlMaxLog Gen.maxMatchLengthCode mlT s.matchLengths s.mlRle)
    (total : Nat) {src : Array Nat} :
    ∀ (n sLL sOF sML : Nat) (bits : List Bool) (acc : List Spec.Seq)
      (llD mlD ofD : Fse.Decoder) (br : BitReaderRev) (seqs : List Spec.Seq) (left : List Bool),
      ChanState s.literalLengths s.llRle llD sLL →
      ChanState s.matchLengths s.mlRle mlD sML →
      ChanState s.offsets s.ofRle ofD sOF →
      RdRel src br bits → acc.length + n = total →
      Spec.decodeSeqLoop llT ofT mlT n sLL sOF sML bits acc = some (seqs, left) →
      ∃ br', seqLoop s total n llD mlD ofD br acc = .ok (seqs, br') ∧ RdRel src br' left := by
  intro n
  induction n with
  | zero =>
    intro sLL sOF sML bits acc llD mlD ofD br seqs left _ _ _ hr _ h
    rw [Spec.decodeSeqLoop] at h
    simp only [Option.some.injEq, Prod.mk.injEq] at h
    obtain ⟨rfl, rfl⟩ := h
    rw [seqLoop]
    exact ⟨br, rfl, hr⟩
  | succ n ih =>
    intro sLL sOF sML bits acc llD mlD ofD br seqs left cll cml cof hr hlen h
    obtain ⟨esLL, hllc⟩ := chan_symbol hll cll
    obtain ⟨esML, hmlc⟩ := chan_symbol hml cml
    obtain ⟨esOF, hofc⟩ := chan_symbol hof cof
    obtain ⟨llV, llB, etLL, ell, hllB⟩ := llCode_lookup hllc
    obtain ⟨mlV, mlB, etML, eml, hmlB⟩ := mlCode_lookup hmlc
    have hofc' : s.ofRle.getD ofD.decodeSymbol ≤ 31 := hofc
    rw [Spec.decodeSeqLoop] at h
    rw [esLL, esOF, esML] at h
    simp only [] at h
    rw [etLL, etML] at h
    simp only [] at h
    rw [if_neg (by omega)] at h
    cases hr1 : Spec.readBE (s.ofRle.getD ofD.decodeSymbol) bits with
    | none => rw [hr1] at h; cases h
    | some p1 =>
    obtain ⟨ofx, b1⟩ := p1
    rw [hr1] at h; simp only [] at h
    cases hr2 : Spec.readBE mlB b1 with
    | none => rw [hr2] at h; cases h
    | some p2 =>
    obtain ⟨mlx, b2⟩ := p2
    rw [hr2] at h; simp only [] at h
    cases hr3 : Spec.readBE llB b2 with
    | none => rw [hr3] at h; cases h
    | some p3 =>
    obtain ⟨llx, b3⟩ := p3
    rw [hr3] at h; simp only [] at h
    obtain ⟨br1, etr, hofx, hmlx, hllx, hrd1⟩ := rd_triple hr (by omega) (by omega) (by omega) hr1 hr2 hr3
    have hpow : 2 ^ (s.ofRle.getD ofD.decodeSymbol) ≤ 2 ^ 31 := Nat.pow_le_pow_right (by omega) hofc'
    have hpos : 0 < 2 ^ (s.ofRle.getD ofD.decodeSymbol) := Nat.two_pow_pos _
    have hp16l : 2 ^ llB ≤ 2 ^ 16 := Nat.pow_le_pow_right (by omega) hllB
    have hp16m : 2 ^ mlB ≤ 2 ^ 16 := Nat.pow_le_pow_right (by omega) hmlB
    have hmodo : ofx % 2 ^ 32 = ofx := Nat.mod_eq_of_lt (by omega)
    have hmodl : llx % 2 ^ 32 = llx := Nat.mod_eq_of_lt (by omega)
    have hmodm : mlx % 2 ^ 32 = mlx := Nat.mod_eq_of_lt (by omega)
    have hov : ofx + 2 ^ (s.ofRle.getD ofD.decodeSymbol) = Spec.offsetValue (s.ofRle.getD ofD.decodeSymbol) ofx := by
      unfold Spec.offsetValue; omega
    rw [seqLoop]
    simp only [ell, eml, Blk.liftFault]
    rw [if_neg (by simp only [Gen.maxOffsetCode]; omega), etr]
    simp only []
    rw [hmodo, hmodl, hmodm]
    rw [if_neg (by omega), if_neg (by omega)]
    rw [hov]
    by_cases hn0 : n = 0
    · subst hn0
      have hlt : ¬ (acc.length + 1 < total) := by omega
      simp only [if_true, Option.some.injEq, Prod.mk.injEq] at h
      obtain ⟨rfl, rfl⟩ := h
      simp only [List.length_cons, hlt, if_false]
      have hbr := hrd1.bitsRemaining
      rw [if_neg (by omega), seqLoop]
      exact ⟨br1, rfl, hrd1⟩
    · have hlt : acc.length + 1 < total := by omega
      rw [if_neg hn0] at h
      simp only [List.length_cons, hlt, if_true]
      cases hu1 : Spec.Fse.updateState llT sLL b3 with
      | none => rw [hu1] at h; cases h
      | some q1 =>
      obtain ⟨sLL', b4⟩ := q1
      rw [hu1] at h; simp only [] at h
      cases hu2 : Spec.Fse.updateState mlT sML b4 with
      | none => rw [hu2] at h; cases h
      | some q2 =>
      obtain ⟨sML', b5⟩ := q2
      rw [hu2] at h; simp only [] at h
      cases hu3 : Spec.Fse.updateState ofT sOF b5 with
      | none => rw [hu3] at h; cases h
      | some q3 =>
      obtain ⟨sOF', b6⟩ := q3
      rw [hu3] at h; simp only [] at h
      obtain ⟨llD', br2, e1, hrd2, cll'⟩ := chan_upd (by decide) hll cll hrd1 hu1
      rw [e1]; simp only []
      obtain ⟨mlD', br3, e2, hrd3, cml'⟩ := chan_upd (by decide) hml cml hrd2 hu2
      rw [e2]; simp only []
      obtain ⟨ofD', br4, e3, hrd4, cof'⟩ := chan_upd (by decide) hof cof hrd3 hu3
      rw [e3]; simp only []
      have hbr := hrd4.bitsRemaining
      rw [if_neg (by omega)]
      exact ih sLL' sOF' sML' b6 _ llD' mlD' ofD' br4 seqs left cll' cml' cof' hrd4
        (by simp only [List.length_cons]; omega) h

/-! ## the whole bitstream -/

/-- **Spec ⇒ Model for the sequence bitstream.**  If the RFC semantics decodes `n ≠ 0` sequences from
the byte string `src` (backward stream, initial states LL, OF, ML, the loop, no bit left over) with
tables coupled to the scratch, the model's `decode_sequences` bitstream part returns exactly these
sequences. -/
theorem decodeSeqStream_refines {s : FseScratch} {llT ofT mlT : Spec.Fse.Table}
    (hll : ChanCoupled Gen.llMaxLog Gen.maxLiteralLengthCode llT s.literalLengths s.llRle)
    (hof : ChanCoupled Gen.ofMaxLog Gen.maxOffsetCode ofT s.offsets s.ofRle)
    (hml : ChanCoupled Gen.mlMaxLog Gen.maxMatchLengthCode mlT s.matchLengths s.mlRle)
    {src : Array Nat} (hb : Bytes src.toList) {n : Nat} (hn : n ≠ 0)
    {bits b1 b2 b3 left : List Bool} {sLL sOF sML : Nat} {seqs : List Spec.Seq}
    (h0 : Spec.backwardStream src.toList = some bits)
    (h1 : Spec.Fse.initState llT bits = some (sLL, b1))
    (h2 : Spec.Fse.initState ofT b1 = some (sOF, b2))
    (h3 : Spec.Fse.initState mlT b2 = some (sML, b3))
    (h4 : Spec.decodeSeqLoop llT ofT mlT n sLL sOF sML b3 [] = some (seqs, left))
    (h5 : left.isEmpty = true) :
    decodeSeqStream n s src = .ok seqs := by
  have _ := hn   -- (not needed: for `n = 0` both sides return `[]` and require an empty stream)
  obtain ⟨br0, e0, hr0⟩ := skipEndMark_backwardStream hb h0
  unfold decodeSeqStream
  simp only []
  rw [e0]
  simp only []
  obtain ⟨llD, br1, e1, hr1, cll⟩ := chan_init (Fse.Decoder.new s.literalLengths) (by decide) hll hr0 h1
  rw [e1]; simp only []
  obtain ⟨ofD, br2, e2, hr2, cof⟩ := chan_init (Fse.Decoder.new s.offsets) (by decide) hof hr1 h2
  rw [e2]; simp only []
  obtain ⟨mlD, br3, e3, hr3, cml⟩ := chan_init (Fse.Decoder.new s.matchLengths) (by decide) hml hr2 h3
  rw [e3]; simp only []
  obtain ⟨brE, eL, hrE⟩ := seqLoop_refines hll hof hml n n sLL sOF sML b3 [] llD mlD ofD br3 seqs left
    cll cml cof hr3 (by simp) h4
  rw [eL]; simp only []
  have hbr := hrE.bitsRemaining
  have hl : left = [] := List.isEmpty_iff.mp h5
  subst hl
  rw [if_neg (by simp only [List.length_nil] at hbr; omega)]

/-- non-vacuity: three RLE channels (codes 0), one sequence, the stream is just the end mark -/
example : decodeSeqStream 1 { llRle := some 0, ofRle := some 0, mlRle := some 0 } #[1] = .ok [⟨0, 3, 1⟩] :=
  decodeSeqStream_refines (s := { llRle := some 0, ofRle := some 0, mlRle := some 0 })
    (llT := Spec.Fse.rleTable 0) (ofT := Spec.Fse.rleTable 0) (mlT := Spec.Fse.rleTable 0)
    (bits := []) (b1 := []) (b2 := []) (b3 := []) (left := []) (sLL := 0) (sOF := 0) (sML := 0)
    (show _ ∧ _ from ⟨rfl, by decide⟩) (show _ ∧ _ from ⟨rfl, by decide⟩) (show _ ∧ _ from ⟨rfl, by decide⟩)
    (by intro x hx; simp at hx; omega) (by decide)
    (by decide) (by decide) (by decide) (by decide) (by decide) rfl

end Zstd.Proofs.Blk
