import Zstd.Proofs.BlkWF
/-
Facts about the abstract reversed reader of the Huffman model (`Huf.Bits.RevReader`): the invariant
`left = bits.length`, the value bound of `getBits`, the bookkeeping of `bitsRemaining`.
Part A of `Proofs/BlkHuf`.
-/
namespace Zstd.Proofs.Blk
open Zstd Zstd.Model Zstd.Model.Huf Zstd.Model.Huf.Bits

/-! ### `valBE` -/

theorem valBE_acc (bs : List Bool) (acc : Nat) : valBE bs acc = acc * 2 ^ bs.length + valBE bs 0 := by
  induction bs generalizing acc with
  | nil => simp [valBE]
  | cons b bs ih =>
    rw [valBE, ih, valBE, ih (2 * 0 + _), List.length_cons, Nat.pow_succ]
    simp only [Nat.mul_zero, Nat.zero_add, Nat.add_mul]
    rw [Nat.mul_comm 2 acc, Nat.mul_assoc, Nat.mul_comm 2 (2 ^ bs.length)]
    omega

theorem valBE_lt (bs : List Bool) : valBE bs 0 < 2 ^ bs.length := by
  induction bs with
  | nil => simp [valBE]
  | cons b bs ih =>
    rw [valBE, valBE_acc, List.length_cons, Nat.pow_succ]
    have : (2 * 0 + if b = true then 1 else 0) ≤ 1 := by split <;> omega
    have := Nat.mul_le_mul_right (2 ^ bs.length) this
    omega

/-! ### the reader invariant -/

/-- `left` is the number of real bits not yet consumed -/
def RInv (r : RevReader) : Prop := r.left = r.bits.length

theorem revBitsAux_length (bytes : List Nat) (acc : List Bool) :
    (revBitsAux bytes acc).length = 8 * bytes.length + acc.length := by
  induction bytes generalizing acc with
  | nil => simp [revBitsAux]
  | cons b bs ih =>
    rw [revBitsAux, ih]
    simp [bitsBE]; omega

theorem RInv_new (src : List Nat) : RInv (RevReader.new src) := by
  simp [RInv, RevReader.new, revBits, revBitsAux_length]

theorem bitsRemaining_new (src : List Nat) : (RevReader.new src).bitsRemaining = 8 * src.length := by
  simp [RevReader.new, RevReader.bitsRemaining]

theorem RInv_getBits {r : RevReader} (h : RInv r) (n : Nat) : RInv (r.getBits n).2 := by
  unfold RInv at h ⊢
  unfold RevReader.getBits
  split
  · simp; omega
  · simp

theorem getBits_lt {r : RevReader} (h : RInv r) (n : Nat) : (r.getBits n).1 < 2 ^ n := by
  unfold RInv at h
  unfold RevReader.getBits
  split
  · rename_i hn
    have := valBE_lt (r.bits.take n)
    rw [List.length_take, ← h, Nat.min_eq_left hn] at this
    exact this
  · rename_i hn
    have h1 := valBE_lt r.bits
    rw [← h] at h1
    obtain ⟨k, rfl⟩ : ∃ k, n = r.left + k := ⟨n - r.left, by omega⟩
    show valBE r.bits 0 * 2 ^ (r.left + k - r.left) < 2 ^ (r.left + k)
    rw [Nat.add_sub_cancel_left, Nat.pow_add]
    exact Nat.mul_lt_mul_of_pos_right h1 (Nat.two_pow_pos k)

theorem bitsRemaining_getBits (r : RevReader) (n : Nat) :
    (r.getBits n).2.bitsRemaining = r.bitsRemaining - n := by
  unfold RevReader.getBits RevReader.bitsRemaining
  split
  · simp only; omega
  · simp only; omega

theorem skipPadding_inv : ∀ (fuel skipped : Nat) (r : RevReader), RInv r →
    RInv (skipPadding fuel skipped r).2 ∧ (skipPadding fuel skipped r).2.bitsRemaining ≤ r.bitsRemaining := by
  intro fuel
  induction fuel with
  | zero => intro skipped r h; exact ⟨h, Int.le_refl _⟩
  | succ fuel ih =>
    intro skipped r h
    have h1 := RInv_getBits h 1
    have h2 := bitsRemaining_getBits r 1
    simp only [skipPadding]
    split
    · exact ⟨h1, by show (r.getBits 1).2.bitsRemaining ≤ _; omega⟩
    · obtain ⟨i1, i2⟩ := ih (skipped + 1) (r.getBits 1).2 h1
      exact ⟨i1, by omega⟩

theorem RInv_skipPadding {r : RevReader} (h : RInv r) (fuel skipped : Nat) :
    RInv (skipPadding fuel skipped r).2 := (skipPadding_inv fuel skipped r h).1

theorem bitsRemaining_skipPadding {r : RevReader} (h : RInv r) (fuel skipped : Nat) :
    (skipPadding fuel skipped r).2.bitsRemaining ≤ r.bitsRemaining := (skipPadding_inv fuel skipped r h).2

end Zstd.Proofs.Blk
