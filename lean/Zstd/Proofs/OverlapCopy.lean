import Zstd.Proofs.RingSpec
/-
Pure list facts about `overlapCopy` (the format's byte-by-byte match copy).
-/
namespace Zstd.Model
open Zstd

theorem overlapCopy_length (l : List Byte) (off : Nat) : ∀ n, (overlapCopy l off n).length = l.length + n := by
  intro n
  induction n generalizing l with
  | zero => rfl
  | succ n ih => simp only [overlapCopy, ih, List.length_append, List.length_singleton]; omega

/-- copying `a + b` bytes is copying `a` and then `b` -/
theorem overlapCopy_add (l : List Byte) (off a b : Nat) :
    overlapCopy l off (a + b) = overlapCopy (overlapCopy l off a) off b := by
  induction a generalizing l with
  | zero => simp [overlapCopy]
  | succ a ih =>
    rw [show a + 1 + b = (a + b) + 1 by omega]
    simp only [overlapCopy]
    exact ih _

/-- a prefix that the offset cannot reach is irrelevant (the window suffices) -/
theorem overlapCopy_append_left (p l : List Byte) (off : Nat) (h : off ≤ l.length) :
    ∀ n, overlapCopy (p ++ l) off n = p ++ overlapCopy l off n := by
  intro n
  induction n generalizing l with
  | zero => rfl
  | succ n ih =>
    simp only [overlapCopy]
    have : (p ++ l).getD ((p ++ l).length - off) 0 = l.getD (l.length - off) 0 := by
      rw [List.getD_eq_getElem?_getD, List.getD_eq_getElem?_getD, List.length_append,
        List.getElem?_append_right (by omega)]
      congr 2; omega
    rw [this, List.append_assoc]
    exact ih _ (by simp; omega)

/-- a non-overlapping copy (`k ≤ offset`) is a plain range copy -/
theorem overlapCopy_le (l : List Byte) (off : Nat) (hoff : off ≤ l.length) :
    ∀ k, k ≤ off → overlapCopy l off k = Queue.copyWithin l (l.length - off) k := by
  intro k
  induction k with
  | zero => intro _; simp [overlapCopy, Queue.copyWithin]
  | succ k ih =>
    intro hk
    have ih' := ih (by omega)
    rw [overlapCopy_add l off k 1, ih']
    simp only [overlapCopy, Queue.copyWithin]
    have hlen : (l ++ ((l.drop (l.length - off)).take k)).length = l.length + k := by
      simp only [List.length_append, List.length_take, List.length_drop]; omega
    rw [hlen, List.take_add_one, ← List.append_assoc]
    congr 1
    have hidx : l.length - off + k < l.length := by omega
    rw [List.getD_eq_getElem?_getD, List.getElem?_append_left (by omega),
      show l.length + k - off = l.length - off + k by omega,
      List.getElem?_drop, List.getElem?_eq_getElem hidx]
    rfl

end Zstd.Model
