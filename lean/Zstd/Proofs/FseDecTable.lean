import Zstd.Proofs.FseDecTable.Defs
import Zstd.Proofs.FseDecTable.Model
import Zstd.Proofs.FseDecTable.Cells
import Zstd.Proofs.FseDecTable.Char
import Zstd.Proofs.FseDecTable.Spec
import Zstd.Proofs.FseDecTable.Partition
/-!
# The FSE decoding table of the model (`fse_decoder.rs: build_decoding_table`) is the RFC 8878 table

Subject: `Zstd.Model.Fse.buildDecodingTableCore` (mirror of `FSETable::build_decoding_table`) against
`Zstd.Spec.Fse.buildTable` (RFC 8878 §4.1.1), for every valid normalised distribution
(`ValidDist al probs`: `5 ≤ al ≤ 9`, at most 256 symbols, every probability `≥ -1`, mass `2^al`).

Main results (namespace `Zstd.Proofs.FseDecTable`; core Lean only; axioms `propext`, `Classical.choice`,
`Quot.sound`), all FULL (no extra hypotheses):

* `model_table`          (`Char.lean`)  the three loops succeed (no `Fault`), the spreading loop ends at
                          position 0, and every entry of the result is `finEntry al probs syms i`, `syms`
                          the symbols of the cells, with `syms.count s = nStates probs s`;
* `dec_table_char`       (`Char.lean`)  the characterisation in terms of the table itself: size, symbols,
                          cells per symbol, `(baseLine, numBits) = rfcEntry al (nStates …) (rank dec i)`,
                          and `rank dec i < nStates …`;
* `fse_build_refines`    (`Spec.lean`)  `buildDecodingTableCore` succeeds and `Spec.Fse.buildTable` returns
                          the same table, entry for entry;
* `dec_rank_bij`         (`Partition.lean`) ranks of the cells of a symbol are `0 … nStates − 1`, each once;
* `fse_ranges_partition` (`Partition.lean`) per symbol the intervals `[baseLine, baseLine + 2^numBits)`
                          are pairwise disjoint and cover `[0, 2^al)`.

Structure: `Defs` (definitions, slot lists and their counts), `Model` (one success+characterisation
lemma per loop: `placeNegatives_ok`, `spreadAll_walk`, `assignStates_ok`), `Cells` (loops 1+2 on a valid
distribution, using `FseFin.walk_perm`), `Char`, `Spec` (loop-by-loop simulation: `placeNegatives_sim`,
`skip_sim`, `spreadAll_sim`, `entFold`), `Partition`.
-/
