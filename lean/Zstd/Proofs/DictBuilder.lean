import Zstd.Model.DictBuilder
/- helper lemmas for C20 -/
namespace Zstd.Proofs.DictBuilder
open Zstd Zstd.Model.DictBuilder

theorem writeOut_total (segs : List Nat) (excess : Nat) :
    writeOut segs excess = segs.sum - min excess segs.sum := by
  induction segs generalizing excess with
  | nil => simp [writeOut]
  | cons x xs ih =>
    simp only [writeOut, ih, List.sum_cons]
    omega

theorem getD_le_sum (l : List Nat) (i : Nat) : l.getD i 0 ≤ l.sum := by
  induction l generalizing i with
  | nil => simp
  | cons x xs ih =>
    cases i with
    | zero => simp
    | succ i => simp only [List.getD_cons_succ, List.sum_cons]; have := ih i; omega

theorem sum_removeAt (l : List Nat) (i : Nat) : (removeAt l i).sum = l.sum - l.getD i 0 := by
  induction l generalizing i with
  | nil => simp [removeAt]
  | cons x xs ih =>
    cases i with
    | zero => simp [removeAt]
    | succ i =>
      simp only [removeAt, List.sum_cons, List.getD_cons_succ, ih]
      have := getD_le_sum xs i
      omega

theorem length_removeAt (l : List Nat) (i : Nat) (h : i < l.length) : (removeAt l i).length = l.length - 1 := by
  induction l generalizing i with
  | nil => simp at h
  | cons x xs ih =>
    cases i with
    | zero => simp [removeAt]
    | succ i =>
      simp only [removeAt, List.length_cons]
      have := ih i (by simpa using h)
      simp at h
      omega

/-- `trim` never faults or runs out of fuel when the counter is the sum and the fuel covers the pool;
it keeps "counter = sum" -/
theorem trim_ok (fuel : Nat) (pool : List Nat) (size dict : Nat) (heap : List Nat)
    (hs : size = pool.sum) (hf : pool.length < fuel) :
    ∃ segs size' heap', trim fuel pool size dict heap = .ok (segs, size', heap') ∧ size' = segs.sum ∧
      (size' ≤ size) ∧ (dict ≤ size → dict ≤ size') := by
  induction fuel generalizing pool size heap with
  | zero => omega
  | succ fuel ih =>
    cases pool with
    | nil => exact ⟨[], size, heap, by simp [trim], by simpa using hs, Nat.le_refl _, fun h => h⟩
    | cons p ps =>
      simp only [trim]
      have hi : heap.headD 0 % (p :: ps).length < (p :: ps).length := Nat.mod_lt _ (by simp)
      have hle := getD_le_sum (p :: ps) (heap.headD 0 % (p :: ps).length)
      rw [if_neg (by omega)]
      by_cases hb : size - (p :: ps).getD (heap.headD 0 % (p :: ps).length) 0 < dict
      · rw [if_pos hb]
        exact ⟨p :: ps, size, heap, rfl, hs, Nat.le_refl _, fun h => h⟩
      · rw [if_neg hb]
        have hsum := sum_removeAt (p :: ps) (heap.headD 0 % (p :: ps).length)
        have hlen := length_removeAt (p :: ps) _ hi
        obtain ⟨segs, size', heap', h1, h2, h3, h4⟩ := ih (removeAt (p :: ps) (heap.headD 0 % (p :: ps).length))
          (size - (p :: ps).getD (heap.headD 0 % (p :: ps).length) 0) heap.tail (by rw [hsum, hs])
          (by rw [hlen]; simp at hf ⊢; omega)
        refine ⟨segs, size', heap', h1, h2, by omega, fun h => h4 (by omega)⟩


/-! ### readers -/

theorem Src.read_avail (s : Src) (req : Nat) : (s.read req).2.remaining + (s.read req).1 = s.remaining := by
  unfold Src.read
  split <;> simp <;> omega

theorem Buf.read_avail (cap : Nat) (b : Buf) (req : Nat) : (b.read cap req).2.avail + (b.read cap req).1 = b.avail := by
  unfold Buf.read
  split
  · have := Src.read_avail b.inner req
    simp only [Buf.avail]
    omega
  · split
    · rename_i h0
      have := Src.read_avail b.inner cap
      simp only [Buf.avail, h0]
      omega
    · simp only [Buf.avail]; omega

theorem Src.read_zero (s : Src) : (s.read 0).1 = 0 := by
  unfold Src.read
  split <;> simp

theorem Buf.read_zero (cap : Nat) (b : Buf) : (b.read cap 0).1 = 0 := by
  unfold Buf.read
  split
  · exact Src.read_zero b.inner
  · simp

/-! ### the loops end, and end without a fault -/

theorem fill_ok (cap : Nat) (fuel : Nat) (b : Buf) (lake total : Nat)
    (hf : 2 * b.avail + (if lake = total then 0 else 1) + 1 ≤ fuel) :
    ∃ b' lake', fillLoop cap fuel b lake total = .ok (b', lake') ∧ b'.avail ≤ b.avail := by
  induction fuel generalizing b lake total with
  | zero => omega
  | succ fuel ih =>
    simp only [fillLoop]
    have hav := Buf.read_avail cap b lake
    cases hr : b.read cap lake with
    | mk n b' =>
      rw [hr] at hav
      simp only [] at hav ⊢
      by_cases h1 : total + n = lake
      · rw [if_pos h1]; exact ⟨b', lake, rfl, by omega⟩
      · rw [if_neg h1]
        by_cases h2 : n = 0
        · rw [if_pos h2]
          have hne : lake ≠ total := by intro h; apply h1; omega
          obtain ⟨b2, l2, e, hle⟩ := ih b' (total + n) (total + n) (by simp; simp [hne] at hf; omega)
          exact ⟨b2, l2, e, by omega⟩
        · rw [if_neg h2]
          obtain ⟨b2, l2, e, hle⟩ := ih b' lake (total + n) (by split at hf <;> split <;> omega)
          exact ⟨b2, l2, e, by omega⟩

theorem sample_ok (c : Cfg) (fuel : Nat) (b : Buf) (counter next endOfLake lake : Nat) (rng : List (Nat × Nat))
    (he : endOfLake ≠ 0) (hf : b.avail < fuel) :
    ∃ b', sampleLoop c fuel b counter next endOfLake lake rng = .ok b' ∧ b'.avail ≤ b.avail := by
  induction fuel generalizing b counter next rng with
  | zero => omega
  | succ fuel ih =>
    simp only [sampleLoop]
    by_cases hc : counter = next
    · rw [if_pos hc, if_neg he]
      cases hrng : rng.headD (0, 0) with
      | mk i skip =>
        simp only []
        have hav := Buf.read_avail c.bufCap b (chunkLen lake c.kmer (i % endOfLake))
        cases hr : b.read c.bufCap (chunkLen lake c.kmer (i % endOfLake)) with
        | mk n b' =>
          rw [hr] at hav
          simp only [] at hav ⊢
          by_cases hn : n = 0
          · rw [if_pos hn]; exact ⟨b', rfl, by omega⟩
          · rw [if_neg hn]
            obtain ⟨b2, e, hle⟩ := ih b' (counter + c.kmer) (next + (skip + 1) * c.kmer) rng.tail (by omega)
            exact ⟨b2, e, by omega⟩
    · rw [if_neg hc]
      have hz := Buf.read_zero c.bufCap b
      have hav := Buf.read_avail c.bufCap b 0
      cases hr : b.read c.bufCap 0 with
      | mk n b' =>
        rw [hr] at hz hav
        simp only [] at hz hav ⊢
        rw [if_pos hz]; exact ⟨b', rfl, by omega⟩

theorem epoch_ok (c : Cfg) (seg sample dict : Nat) (pick : Nat → Nat) (fuel e : Nat) (b : Buf) (pool : Pool) (heap : List Nat)
    (hseg : seg ≠ 0) (hsample : sample ≠ 0) (hinv : pool.size = pool.segs.sum) (hf : b.avail < fuel) :
    ∃ pool', epochLoop c seg sample dict pick fuel e b pool heap = .ok pool' ∧ pool'.size = pool'.segs.sum := by
  induction fuel generalizing e b pool heap with
  | zero => omega
  | succ fuel ih =>
    simp only [epochLoop]
    have hav := Buf.read_avail c.bufCap b c.epochBuf
    cases hr : b.read c.bufCap c.epochBuf with
    | mk n b' =>
      rw [hr] at hav
      simp only [] at hav ⊢
      by_cases hn : n = 0
      · rw [if_pos hn]; exact ⟨pool, rfl, hinv⟩
      · rw [if_neg hn, if_neg hseg, if_neg hsample]
        cases c.poolTrimmed with
        | false =>
          simp only [Bool.false_eq_true, if_false]
          exact ih (e + 1) b' _ heap (by simp [hinv]; omega) (by omega)
        | true =>
          simp only [if_true]
          obtain ⟨segs, size', heap', h1, h2, _, _⟩ := trim_ok ((chunkLen sample seg (pick e % numChunks sample seg) :: pool.segs).length + 1)
            (chunkLen sample seg (pick e % numChunks sample seg) :: pool.segs) (pool.size + chunkLen sample seg (pick e % numChunks sample seg)) dict heap
            (by simp [hinv]; omega) (by omega)
          rw [h1]
          exact ih (e + 1) b' ⟨segs, size'⟩ heap' h2 (by omega)


/-! ### parameters: every divisor is non-zero -/

/-- what the arithmetic needs of the constants and guards (evaluated on the source's values in `Props/C20.lean`) -/
def sane (c : Cfg) : Bool :=
  !c.segmentTruncatesU32 && decide (2 ≤ c.maxSegment) && decide (c.maxSegment < 2 ^ 32) && decide (2 ≤ c.smallLimit) &&
  decide (1 ≤ c.kmer) && decide (c.kmer ≤ c.smallLimit) && decide (1 ≤ c.sampleDivCap) && decide (1 ≤ c.minEpochSize) &&
  decide (c.reservoirMin ≤ c.minSample)

theorem checkedDiv_ok (site : String) (a b : Nat) (h : b ≠ 0) : checkedDiv site a b = .ok (a / b) := by
  simp [checkedDiv, h]

theorem params_ok (c : Cfg) (hs : sane c = true) (est dict : Nat) (he : c.smallLimit ≤ est) :
    ∃ p, params c est dict = .ok p ∧ p.seg ≠ 0 ∧ c.reservoirMin ≤ p.sampleSize := by
  simp only [sane, Bool.and_eq_true, Bool.not_eq_true', decide_eq_true_eq] at hs
  obtain ⟨⟨⟨⟨⟨⟨⟨⟨h1, h2⟩, h3⟩, h4⟩, h5⟩, h6⟩, h7⟩, h8⟩, h9⟩ := hs
  have hseg : min c.maxSegment est % 2 ^ 32 = min c.maxSegment est := Nat.mod_eq_of_lt (by omega)
  have hseg2 : 2 ≤ min c.maxSegment est := by omega
  have hsegle : min c.maxSegment est ≤ est := Nat.min_le_right _ _
  have hns : 1 ≤ est / min c.maxSegment est := Nat.div_pos hsegle (by omega)
  have hns2 : 2 * (est / min c.maxSegment est) ≤ est := by
    have := Nat.div_mul_le_self est (min c.maxSegment est)
    have : est / min c.maxSegment est * 2 ≤ est / min c.maxSegment est * min c.maxSegment est := Nat.mul_le_mul_left _ hseg2
    omega
  have hq : 1 ≤ est / (2 * (est / min c.maxSegment est)) := Nat.div_pos hns2 (by omega)
  have hk : 1 ≤ est / c.kmer := Nat.div_pos (by omega) (by omega)
  have hne : max 1 (dict / min c.maxSegment est) ≠ 0 := by omega
  simp only [params, h1, Bool.false_eq_true, if_false, hseg]
  rw [checkedDiv_ok _ _ _ (by omega)]
  simp only [bind, Except.bind]
  rw [checkedDiv_ok _ _ _ (by omega)]
  simp only []
  rw [checkedDiv_ok _ _ _ (by omega)]
  simp only []
  rw [checkedDiv_ok _ _ _ (by omega)]
  simp only []
  rw [checkedDiv_ok _ _ _ (by omega)]
  simp only []
  rw [checkedDiv_ok _ _ _ hne]
  simp only []
  by_cases hbig : est / c.kmer / max 1 (dict / min c.maxSegment est) ≥ c.minEpochSize
  · rw [if_pos hbig, if_pos (Nat.div_mul_le_self _ _)]
    simp only [pure, Except.pure]
    rw [checkedDiv_ok _ _ _ (by omega)]
    simp only []
    rw [checkedDiv_ok _ _ _ (by omega)]
    exact ⟨_, rfl, by simp; omega, by simp; omega⟩
  · rw [if_neg hbig]
    have hmin : min c.minEpochSize (est / c.kmer) ≠ 0 := by omega
    rw [checkedDiv_ok _ _ _ hmin]
    simp only [pure, Except.pure]
    rw [checkedDiv_ok _ _ _ hmin]
    simp only []
    rw [checkedDiv_ok _ _ _ (by omega)]
    exact ⟨_, rfl, by simp; omega, by simp; omega⟩


theorem numChunks_pos (len k : Nat) (hl : len ≠ 0) (hk : k ≠ 0) : numChunks len k ≠ 0 := by
  unfold numChunks
  have : 1 ≤ (len + k - 1) / k := Nat.div_pos (by omega) (by omega)
  omega

/-- the guards of the repaired code -/
def repaired (c : Cfg) : Bool :=
  c.emptyLakeReturns && c.emptySampleReturns && c.writeSkipsExcess && (c.smallPathTakesDictSize || c.smallPathTruncates)

/-- everything at once, for every source, estimate, dictionary size, RNG script, scoring and heap order -/
theorem run_ok (c : Cfg) (hs : sane c = true) (hr : repaired c = true) (src : Src) (est dict : Nat)
    (rng : List (Nat × Nat)) (pick : Nat → Nat) (heap : List Nat) :
    ∃ r, run c (fuelFor src) src est dict rng pick heap = .ok r ∧ r.written ≤ dict ∧
      (est < c.smallLimit → r.written = min src.remaining dict) ∧
      (c.smallLimit ≤ est → r.written = min r.poolBytes dict) := by
  have hs' := hs
  simp only [sane, Bool.and_eq_true, Bool.not_eq_true', decide_eq_true_eq] at hs'
  obtain ⟨⟨⟨⟨⟨⟨⟨⟨_, _⟩, _⟩, _⟩, hk1⟩, _⟩, _⟩, _⟩, _⟩ := hs'
  simp only [repaired, Bool.and_eq_true, Bool.or_eq_true] at hr
  obtain ⟨⟨⟨hr1, hr2⟩, hr3⟩, hr4⟩ := hr
  unfold run
  by_cases hsmall : est < c.smallLimit
  · rw [if_pos hsmall]
    refine ⟨_, rfl, ?_, ?_, ?_⟩
    · simp only []
      rcases hr4 with h | h <;> simp only [h, if_true] <;> split <;> omega
    · intro _
      simp only []
      rcases hr4 with h | h <;> simp only [h, if_true] <;> split <;> omega
    · intro h; omega
  · rw [if_neg hsmall]
    obtain ⟨p, hp, hseg, hres⟩ := params_ok c hs est dict (by omega)
    simp only [bind, Except.bind, hp]
    -- create_sample
    unfold createSample
    rw [if_neg (by omega)]
    obtain ⟨b1, lake, hfill, hav1⟩ := fill_ok c.bufCap (fuelFor src) ⟨0, src⟩ p.sampleSize 0
      (by simp only [fuelFor, Buf.avail]; split <;> omega)
    simp only [bind, Except.bind, hfill, hr1, Bool.true_and]
    by_cases hl : lake = 0
    · simp only [hl, decide_true, if_true, pure, Except.pure, hr2, Bool.true_and]
      exact ⟨_, rfl, by simp, fun h => by omega, fun _ => by simp⟩
    · simp only [hl, decide_false, Bool.false_eq_true, if_false]
      rw [if_neg (by omega)]
      have hav1' : b1.avail ≤ src.remaining := by simpa [Buf.avail] using hav1
      obtain ⟨b2, hsamp, hav2⟩ := sample_ok c (fuelFor src) b1 (numChunks lake c.kmer / c.kmer) lake (numChunks lake c.kmer) lake rng
        (numChunks_pos lake c.kmer hl (by omega)) (by simp only [fuelFor]; omega)
      simp only [hsamp, pure, Except.pure, hr2, Bool.true_and, hl, decide_false, Bool.false_eq_true, if_false]
      obtain ⟨pool, hep, hinv⟩ := epoch_ok c p.seg lake dict pick (fuelFor src) 0 b2 {} heap hseg hl rfl
        (by simp only [fuelFor]; omega)
      simp only [hep, hr3, if_true]
      refine ⟨_, rfl, ?_, fun h => by omega, fun _ => ?_⟩
      · simp only [writeOut_total, hinv]; omega
      · simp only [writeOut_total, hinv]; omega

end Zstd.Proofs.DictBuilder
