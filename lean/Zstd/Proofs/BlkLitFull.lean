import Zstd.Proofs.BlockRefines
import Zstd.Proofs.BlkHufStreamRefines
import Zstd.Proofs.BlkHufWeightsRefines
import Zstd.Proofs.BlkHufWeightsTable
import Zstd.Props.C13
/-
C01 at block level, Huffman-coded literals (Compressed and Treeless sections, one or four streams):
`decode_literals` refines `Spec.decodeLiterals`.  Composed from
  * `readWeights_refines` (`Proofs/BlkHufWeightsRefines`, table: `Proofs/BlkHufWeightsTable`)
  * `huf_table_eq_canonical` (C13) + `buildTableFromWeights_ok` (every cell written)
  * `decodeOneStream_refines` (`Proofs/BlkHufStreamRefines`)
and the jump-table arithmetic of the four-stream layout.  With `decodeLiterals_refines_raw_rle` this
gives `decodeLiterals_refines_full`, hence `decompressBlock_refines_full`.
-/
namespace Zstd.Proofs.Blk
open Zstd Zstd.Model Zstd.Model.Blk Zstd.Model.Huf Zstd.Proofs.BitIO

/-! ## the table -/

/-- weights the Spec accepts: the built table is coupled with the Spec's and well formed -/
theorem buildTable_coupled (t : DecTable) (T : Spec.Huffman.Table)
    (hspec : Spec.Huffman.tableOfWeights t.weights = some T) :
    ∃ t', buildTableFromWeights t = (t', .ok ()) ∧ HufCoupled (some T) t' := by
  obtain ⟨t', hb, hm, _, _, hcells⟩ := Zstd.Props.C13.huf_table_eq_canonical t T hspec
  have hlen : t.weights.length ≤ 257 := by
    unfold Spec.Huffman.tableOfWeights at hspec
    cases hc : Spec.Huffman.completeWeights t.weights with
    | none => rw [hc] at hspec; cases hspec
    | some p =>
      obtain ⟨m, all⟩ := p
      rw [hc] at hspec
      simp only at hspec
      obtain ⟨_, _, hall⟩ := (Zstd.Props.C13.spec_complete_iff _ _ _).mp hc
      by_cases hl : all.length > 256
      · rw [if_pos hl] at hspec; cases hspec
      · rw [hall] at hl; simp at hl; omega
  have hbuilt := buildTableFromWeights_ok hlen hb
  refine ⟨t', hb, Or.inr hbuilt, ?_⟩
  intro T' hT
  simp only [Option.some.injEq] at hT
  subst hT
  exact ⟨hbuilt, hm, hcells⟩

/-- `build_decoder` (tree description → table) refines `Spec.Huffman.readTable` -/
theorem hufBuildDecoder_refines {payload : List Nat} (hb : Bytes payload) {T : Spec.Huffman.Table} {used : Nat}
    (hs : Spec.Huffman.readTable payload = some (T, used)) (t : DecTable) :
    ∃ t', buildDecoder t payload = (t', .ok used) ∧ HufCoupled (some T) t' := by
  unfold Spec.Huffman.readTable at hs
  cases hw : Spec.Huffman.readWeights payload with
  | none => rw [hw] at hs; cases hs
  | some p =>
    obtain ⟨ws, u⟩ := p
    rw [hw] at hs
    simp only [] at hs
    cases hT : Spec.Huffman.tableOfWeights ws with
    | none => rw [hT] at hs; cases hs
    | some T0 =>
      rw [hT] at hs
      simp only [Option.some.injEq, Prod.mk.injEq] at hs
      obtain ⟨rfl, rfl⟩ := hs
      have hr := readWeights_refines weightsTableRefines hb hw { t with decode := #[] }
      obtain ⟨t', hbt, hc⟩ := buildTable_coupled { t with decode := #[], weights := ws } T0 hT
      refine ⟨t', ?_, hc⟩
      unfold buildDecoder
      simp only [hr, hbt]

/-! ## the streams -/

theorem leNat_two (a b : Nat) : leNat [a, b] = a + b * 256 := by
  simp [leNat]; omega

/-- one or four streams: the model's stream phase yields the Spec's literals -/
theorem litStreams_refines {t : DecTable} {T : Spec.Huffman.Table} (hc : HufCoupled (some T) t)
    {streams : List Nat} (hb : Bytes streams) {regen : Nat} {ls : List Nat} (ns bytesRead : Nat)
    (hns : ns = 1 ∨ ns = 4)
    (hs : (if ns = 1 then Spec.Huffman.decodeStream T streams regen else Spec.decodeFourStreams T streams regen) = some ls) :
    litStreams t ns bytesRead streams [] = .ok (ls, bytesRead + streams.length) ∧ ls.length = regen := by
  obtain ⟨hbuilt, hm, hcells⟩ := hc.2 T rfl
  rcases hns with rfl | rfl
  · rw [if_pos rfl] at hs
    obtain ⟨h1, h2⟩ := decodeOneStream_refines hbuilt hm hcells hb hs false []
    refine ⟨?_, h2⟩
    simp only [litStreams, show ¬ (1 = 4) by omega, if_false, show ¬ (1 ≠ 1) by omega, List.reverse_nil, h1,
      List.append_nil, List.reverse_reverse]
  · rw [if_neg (by omega)] at hs
    unfold Spec.decodeFourStreams at hs
    by_cases h6 : streams.length < 6
    · rw [if_pos h6] at hs; cases hs
    · rw [if_neg h6] at hs
      obtain ⟨b0, b1, b2, b3, b4, b5, src, rfl⟩ := six_of_length (by omega : 6 ≤ streams.length)
      simp only [List.take_succ_cons, List.take_zero, List.drop_succ_cons, List.drop_zero, leNat_two] at hs
      have hbsrc : Bytes src := fun x hx => hb x (by simp [hx])
      by_cases hfar : b0 + b1 * 256 + (b2 + b3 * 256) + (b4 + b5 * 256) > src.length
      · rw [if_pos hfar] at hs; cases hs
      · rw [if_neg hfar] at hs
        split at hs
        · cases hs
        · rename_i h3n
          split at hs
          · rename_i a b c d ha hb' hc' hd
            simp only [Option.some.injEq] at hs
            subst hs
            have hB : ∀ (l : List Nat), (∀ x ∈ l, x ∈ src) → Bytes l := fun l hl x hx => hbsrc x (hl x hx)
            obtain ⟨e1, l1⟩ := decodeOneStream_refines hbuilt hm hcells
              (hB _ (fun x hx => List.mem_of_mem_take hx)) ha true []
            obtain ⟨e2, l2⟩ := decodeOneStream_refines hbuilt hm hcells
              (hB _ (fun x hx => List.mem_of_mem_drop (List.mem_of_mem_take hx))) hb' true (a.reverse ++ [])
            obtain ⟨e3, l3⟩ := decodeOneStream_refines hbuilt hm hcells
              (hB _ (fun x hx => List.mem_of_mem_drop (List.mem_of_mem_take hx))) hc' true (b.reverse ++ (a.reverse ++ []))
            obtain ⟨e4, l4⟩ := decodeOneStream_refines hbuilt hm hcells
              (hB _ (fun x hx => List.mem_of_mem_drop hx)) hd true (c.reverse ++ (b.reverse ++ (a.reverse ++ [])))
            have hlen : (a ++ b ++ c ++ d).length = regen := by
              simp only [List.length_append, l1, l2, l3, l4]
              generalize (regen + 3) / 4 = q at h3n
              omega
            refine ⟨?_, hlen⟩
            have j2 : b0 + b1 * 256 + b2 + b3 * 256 - (b0 + b1 * 256) = b2 + b3 * 256 := by omega
            have j3 : b0 + b1 * 256 + b2 + b3 * 256 + b4 + b5 * 256 - (b0 + b1 * 256 + b2 + b3 * 256) = b4 + b5 * 256 := by omega
            have k2 : b0 + b1 * 256 + b2 + b3 * 256 = b0 + b1 * 256 + (b2 + b3 * 256) := by omega
            have k3 : b0 + b1 * 256 + b2 + b3 * 256 + b4 + b5 * 256 = b0 + b1 * 256 + (b2 + b3 * 256) + (b4 + b5 * 256) := by omega
            have hmiss : Gen.hufJumpHeaderMissing (b0 :: b1 :: b2 :: b3 :: b4 :: b5 :: src).length Gen.hufJumpHeaderLen = false := by
              simp only [Gen.hufJumpHeaderMissing, Gen.hufJumpHeaderLen, List.length_cons]
              exact decide_eq_false (by omega)
            have hfar' : Gen.hufJumpTooFar src.length (b0 + b1 * 256 + b2 + b3 * 256 + b4 + b5 * 256) = false := by
              simp only [Gen.hufJumpTooFar]
              exact decide_eq_false (by omega)
            simp only [litStreams, if_true, hmiss, Bool.false_eq_true, if_false, hfar', List.reverse_nil, j2, j3]
            rw [k3, k2, e1]
            simp only []
            rw [e2]
            simp only []
            rw [e3]
            simp only []
            rw [e4]
            simp only [List.reverse_append, List.reverse_reverse, List.append_nil, List.reverse_nil, List.nil_append,
              List.append_assoc, List.length_cons]
            congr 2
            omega
          all_goals cases hs

/-! ## Compressed and Treeless literals -/

/-- **Huffman-coded literals (Compressed / Treeless, one or four streams): the code refines the Spec** -/
theorem decodeLiterals_refines_huffman {bytes : List Nat} (hb : Bytes bytes) {prev huf' : Option Spec.Huffman.Table}
    {lits : List Nat} {used : Nat} {t : DecTable} (hc : HufCoupled prev t)
    (hs : Spec.decodeLiterals bytes prev = some (lits, used, huf'))
    (hty : ∀ H, Spec.parseLitHeader bytes = some H → ¬ H.ltype < 2) :
    LitStage bytes t lits used huf' := by
  unfold Spec.decodeLiterals at hs
  cases hH : Spec.parseLitHeader bytes with
  | none => rw [hH] at hs; cases hs
  | some H =>
    rw [hH] at hs
    simp only [] at hs
    have hge := hty H hH
    obtain ⟨sec, hp, hsty, hsreg, _, hcomp⟩ := parseLitHeader_refines hb hH
    obtain ⟨hsc, hss⟩ := hcomp hge
    have hns : H.streams = 1 ∨ H.streams = 4 := by
      rcases Zstd.Proofs.Blk.parseLitHeader_shape hp with ⟨_, hn⟩ | ⟨_, _, h14⟩
      · rw [hsc] at hn; cases hn
      · rw [hss] at h14
        rcases h14 with h | h <;> simp only [Option.some.injEq] at h
        · left; exact h
        · right; exact h
    rw [if_neg (by omega), if_neg (by omega)] at hs
    by_cases hshort : (bytes.drop H.hdrLen).length < H.comp
    · rw [if_pos hshort] at hs; cases hs
    · rw [if_neg hshort] at hs
      generalize hpay : (bytes.drop H.hdrLen).take H.comp = payload at hs
      have hpl : payload.length = H.comp := by rw [← hpay, List.length_take]; omega
      have hbp : Bytes payload := by
        rw [← hpay]; exact fun x hx => hb x (List.mem_of_mem_drop (List.mem_of_mem_take hx))
      -- phase 1: the table
      have step1 : ∀ T usedT, (if H.ltype = 2 then Spec.Huffman.readTable payload else prev.map (fun t => (t, 0))) = some (T, usedT) →
          ∃ t', litStep1 { lsType := litTypeOf sec.ty, regeneratedSize := sec.regen, compressedSize := some H.comp,
                           numStreams := some H.streams } t payload = (t', .ok usedT) ∧ HufCoupled (some T) t' := by
        intro T usedT h
        by_cases h2 : H.ltype = 2
        · rw [if_pos h2] at h
          obtain ⟨t', hbd, hct⟩ := hufBuildDecoder_refines hbp h t
          refine ⟨t', ?_, hct⟩
          have : litTypeOf sec.ty = .compressed := by simp [litTypeOf, hsty, h2]
          simp only [litStep1, this, hbd]
        · rw [if_neg h2] at h
          cases hprev : prev with
          | none => rw [hprev] at h; cases h
          | some T0 =>
            rw [hprev] at h
            simp only [Option.map_some, Option.some.injEq, Prod.mk.injEq] at h
            obtain ⟨rfl, rfl⟩ := h
            obtain ⟨hbuilt, _, _⟩ := hc.2 T0 hprev
            refine ⟨t, ?_, ⟨hc.1, fun T' hT' => by cases hT'; exact hc.2 T0 hprev⟩⟩
            have h0 : ¬ sec.ty = 0 := by omega
            have h1 : ¬ sec.ty = 1 := by omega
            have h2' : ¬ sec.ty = 2 := by omega
            have : litTypeOf sec.ty = .treeless := by simp [litTypeOf, h0, h1, h2']
            have hpos := hbuilt.pos
            simp only [litStep1, this]
            rw [if_neg (by omega)]
      cases htbl : (if H.ltype = 2 then Spec.Huffman.readTable payload else prev.map (fun t => (t, 0))) with
      | none => rw [htbl] at hs; cases hs
      | some p =>
        obtain ⟨T, usedT⟩ := p
        rw [htbl] at hs
        simp only [] at hs
        obtain ⟨t', hst1, hct⟩ := step1 T usedT htbl
        by_cases hover : usedT > payload.length
        · rw [if_pos hover] at hs; cases hs
        · rw [if_neg hover] at hs
          cases hl : (if H.streams = 1 then Spec.Huffman.decodeStream T (payload.drop usedT) H.regen
                      else Spec.decodeFourStreams T (payload.drop usedT) H.regen) with
          | none => rw [hl] at hs; cases hs
          | some ls =>
            rw [hl] at hs
            simp only [Option.some.injEq, Prod.mk.injEq] at hs
            obtain ⟨rfl, rfl, rfl⟩ := hs
            have hbs : Bytes (payload.drop usedT) := fun x hx => hbp x (List.mem_of_mem_drop hx)
            obtain ⟨hstr, hlen⟩ := litStreams_refines hct hbs H.streams usedT hns hl
            have hupper : upperLimit sec = .ok H.comp := by simp [upperLimit, hsc]
            refine ⟨sec, H.hdrLen, H.comp, t', hp, by rw [hsreg, hlen], hupper, by omega, rfl, ?_, hct⟩
            rw [hpay]
            have hne1 : litTypeOf sec.ty ≠ .raw := by
              simp only [litTypeOf]; split
              · omega
              · split
                · omega
                · split <;> simp
            have hne2 : litTypeOf sec.ty ≠ .rle := by
              simp only [litTypeOf]; split
              · omega
              · split
                · omega
                · split <;> simp
            have hdl : Huf.decodeLiterals { lsType := litTypeOf sec.ty, regeneratedSize := sec.regen, compressedSize := sec.comp, numStreams := sec.streams } t payload []
                = decompressLiterals { lsType := litTypeOf sec.ty, regeneratedSize := sec.regen, compressedSize := sec.comp, numStreams := sec.streams } t payload [] := by
              unfold Huf.decodeLiterals
              split
              · rename_i h; exact absurd h hne1
              · rename_i h; exact absurd h hne2
              · rfl
            rw [hdl, decompressLiterals_eq]
            simp only [hsc, hss]
            rw [if_neg (by omega)]
            have htk : payload.take H.comp = payload := List.take_of_length_le (by omega)
            rw [htk, hst1]
            simp only [hstr, litFinish, hsreg, hlen, ne_eq, not_true_eq_false, if_false, List.length_drop]
            congr 3
            omega

/-- **the literals stage, all four section types** -/
theorem decodeLiterals_refines_full_proved : decodeLiterals_refines_full := by
  intro bytes prev huf' lits used t hb hc hs
  by_cases h : ∀ H, Spec.parseLitHeader bytes = some H → H.ltype < 2
  · exact decodeLiterals_refines_raw_rle hb hc hs h
  · apply decodeLiterals_refines_huffman hb hc hs
    intro H hH hlt
    apply h
    intro H' hH'
    rw [hH] at hH'
    cases hH'
    exact hlt

/-- **`decompress_block` refines `Spec.decodeCompressedBlock`: every literals type, every sequence
mode, no hypothesis left** -/
theorem decompressBlock_refines_full_proved : decompressBlock_refines_full :=
  decompressBlock_refines_full_of_literals decodeLiterals_refines_full_proved

end Zstd.Proofs.Blk
