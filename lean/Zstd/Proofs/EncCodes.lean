import Zstd.Model.FrameCompressor
/-
C16 helper lemmas: every sequence a valid parse can contain maps to in-range (code, extra, bits), so
the `unreachable!()` arms of `encode_literal_length`, `encode_match_len` and `encode_seqnum` cannot
be reached.  The tables are `Zstd.Gen.EncTables` (source text); what is needed of them (rows
contiguous, `base = lo`, `hi - lo < 2^bits`, code bound) is decided on the whole table.
-/
namespace Zstd.Proofs.Enc
open Zstd Zstd.Model

/-- rows are contiguous from `start`, each `base = lo`, the span fits the extra bits, code ≤ maxCode -/
def rowsOk (maxCode : Nat) : List (Nat × Nat × Nat × Nat × Nat) → Nat → Bool
  | [], _ => true
  | (lo, hi, code, base, bits) :: rest, start =>
    lo == start && decide (lo ≤ hi) && base == lo && decide (hi - lo < 2 ^ bits) && decide (code ≤ maxCode) &&
      decide (bits ≤ 16) && rowsOk maxCode rest (hi + 1)

/-- one past the last value the rows cover -/
def rowsEnd : List (Nat × Nat × Nat × Nat × Nat) → Nat → Nat
  | [], start => start
  | (_, hi, _, _, _) :: rest, _ => rowsEnd rest (hi + 1)

theorem encRow_ok (maxCode : Nat) : ∀ (rows : List (Nat × Nat × Nat × Nat × Nat)) (start v : Nat),
    rowsOk maxCode rows start = true → start ≤ v → v < rowsEnd rows start →
    ∃ c x b : Nat, encRow rows v = some (.ok (c, x, b)) ∧ c ≤ maxCode ∧ x < 2 ^ b ∧ b ≤ 16 := by
  intro rows
  induction rows with
  | nil => intro start v _ h1 h2; simp [rowsEnd] at h2; omega
  | cons r rest ih =>
    intro start v hok h1 h2
    obtain ⟨lo, hi, code, base, bits⟩ := r
    simp only [rowsOk, Bool.and_eq_true, beq_iff_eq, decide_eq_true_eq] at hok
    obtain ⟨⟨⟨⟨⟨⟨hlo, hle⟩, hbase⟩, hspan⟩, hcode⟩, hbits⟩, hrest⟩ := hok
    simp only [encRow]
    by_cases hv : v ≤ hi
    · have hc : lo ≤ v ∧ v ≤ hi := ⟨by omega, hv⟩
      have hb : base ≤ v := by omega
      simp only [hc, and_self, ↓reduceIte, hb]
      exact ⟨code, v - base, bits, rfl, hcode, by omega, hbits⟩
    · have hc : ¬ (lo ≤ v ∧ v ≤ hi) := by omega
      simp only [hc, ↓reduceIte]
      exact ih (hi + 1) v hrest (by omega) (by simpa [rowsEnd] using h2)

theorem llRows_ok : rowsOk 35 Gen.llEncRows 16 = true := by decide
theorem llRows_end : rowsEnd Gen.llEncRows 16 = 131072 := by decide
theorem mlRows_ok : rowsOk 52 Gen.mlEncRows 35 = true := by decide
theorem mlRows_end : rowsEnd Gen.mlEncRows 35 = 131075 := by decide

/-- `encode_literal_length` is total on `0 ..= 131071`, with codes ≤ 35 and extra values that fit -/
theorem encodeLL_ok (v : Nat) (h : v < 131072) :
    ∃ c x b : Nat, encodeLL v = .ok (c, x, b) ∧ c ≤ 35 ∧ x < 2 ^ b ∧ b ≤ 16 := by
  unfold encodeLL encodeWith
  simp only [Gen.llEncMin, Gen.llEncIdentLo, Gen.llEncIdentHi, Gen.llEncIdentSub, Gen.llEncUpper]
  by_cases h15 : v ≤ 15
  · refine ⟨v % 256 - 0, 0, 0, ?_, ?_, by decide, by decide⟩
    · simp [h15]
    · omega
  · have hn : ¬ (0 ≤ v ∧ v ≤ 15) := by omega
    have hu : ¬ v ≥ 131072 := by omega
    have h0 : ¬ v < 0 := by omega
    simp only [h0, hn, hu, ↓reduceIte]
    obtain ⟨c, x, b, he, hc, hx, hb⟩ := encRow_ok 35 Gen.llEncRows 16 v llRows_ok (by omega) (by rw [llRows_end]; omega)
    exact ⟨c, x, b, by rw [he], hc, hx, hb⟩

/-- `encode_match_len` is total on `3 ..= 131074`, with codes ≤ 52 and extra values that fit -/
theorem encodeML_ok (v : Nat) (h3 : 3 ≤ v) (h : v < 131075) :
    ∃ c x b : Nat, encodeML v = .ok (c, x, b) ∧ c ≤ 52 ∧ x < 2 ^ b ∧ b ≤ 16 := by
  unfold encodeML encodeWith
  simp only [Gen.mlEncMin, Gen.mlEncIdentLo, Gen.mlEncIdentHi, Gen.mlEncIdentSub, Gen.mlEncUpper]
  have h0 : ¬ v < 3 := by omega
  by_cases h34 : v ≤ 34
  · have hm : v % 256 = v := Nat.mod_eq_of_lt (by omega)
    refine ⟨v % 256 - 3, 0, 0, ?_, ?_, by decide, by decide⟩
    · have : 3 ≤ v % 256 := by omega
      simp [h0, h3, h34, this]
    · omega
  · have hn : ¬ (3 ≤ v ∧ v ≤ 34) := by omega
    have hu : ¬ v ≥ 131075 := by omega
    simp only [h0, hn, hu, ↓reduceIte]
    obtain ⟨c, x, b, he, hc, hx, hb⟩ := encRow_ok 52 Gen.mlEncRows 35 v mlRows_ok (by omega) (by rw [mlRows_end]; omega)
    exact ⟨c, x, b, by rw [he], hc, hx, hb⟩

/-- `encode_offset` is total on `1 ..< 2^32`: code = ⌊log₂⌋ ≤ 31 = MAX_OFFSET_CODE, extra < 2^code -/
theorem encodeOffset_ok (v : Nat) (h1 : 1 ≤ v) (h : v < 2 ^ 32) :
    ∃ c x : Nat, encodeOffset v = .ok (c, x, c) ∧ c ≤ Gen.maxOffsetCode ∧ x < 2 ^ c ∧ 2 ^ c + x = v := by
  have hne : v ≠ 0 := by omega
  have hlog : Nat.log2 v < 32 := (Nat.log2_lt hne).2 h
  have hself : 2 ^ Nat.log2 v ≤ v := Nat.log2_self_le hne
  have hlt : v < 2 ^ (Nat.log2 v + 1) := Nat.lt_log2_self
  refine ⟨Nat.log2 v, v &&& (2 ^ Nat.log2 v - 1), ?_, ?_, ?_, ?_⟩
  · simp [encodeOffset, hne]
  · show Nat.log2 v ≤ 31; omega
  · rw [Nat.and_two_pow_sub_one_eq_mod]; exact Nat.mod_lt _ (Nat.two_pow_pos _)
  · rw [Nat.and_two_pow_sub_one_eq_mod]
    have hp : 2 ^ (Nat.log2 v + 1) = 2 * 2 ^ Nat.log2 v := by rw [Nat.pow_succ]; omega
    have hd : v / 2 ^ Nat.log2 v = 1 := by
      apply Nat.div_eq_of_lt_le <;> omega
    have := Nat.div_add_mod v (2 ^ Nat.log2 v)
    rw [hd] at this; omega

/-- `encode_seqnum` is total on `1 ..= 98047` (a block holds at most 43 690 sequences) -/
theorem encodeSeqnum_ok (n : Nat) (h1 : 1 ≤ n) (h : n ≤ 98047) : ∃ bs, encodeSeqnum n = .ok bs ∧ 1 ≤ bs.length ∧ bs.length ≤ 3 := by
  unfold encodeSeqnum
  simp only [Gen.seqnumArms, Gen.seqnumSub, Gen.seqnumLowFirst]
  by_cases a1 : n ≤ 127
  · exact ⟨[n % 256], by simp [h1, a1], by simp, by simp⟩
  · by_cases a2 : n ≤ 32511
    · have : ¬ (1 ≤ n ∧ n ≤ 127) := by omega
      have h2 : 128 ≤ n ∧ n ≤ 32511 := by omega
      exact ⟨[(n / 256 ||| 128) % 256, n % 256], by simp only [this, h2, and_self, ↓reduceIte], by simp, by simp⟩
    · have n1 : ¬ (1 ≤ n ∧ n ≤ 127) := by omega
      have n2 : ¬ (128 ≤ n ∧ n ≤ 32511) := by omega
      have h3 : 32512 ≤ n ∧ n ≤ 98047 := by omega
      have h4 : ¬ n < 32512 := by omega
      exact ⟨[255, (n - 32512) % 256, (n - 32512) / 256 % 256], by simp only [n1, n2, h3, h4, and_self, ↓reduceIte], by simp, by simp⟩

end Zstd.Proofs.Enc
