import Zstd.Model.Window
import Zstd.Proofs.Headers
/-
Helper lemmas for C11: closed form of `FrameDecoder::reset` once the header has been read.
-/
set_option linter.unusedSimpArgs false
set_option linter.unusedVariables false
namespace Zstd.Proofs.Window
open Zstd Zstd.Model Zstd.Model.Hdr

/-- the state and the allocation events of an ACCEPTED frame, per path -/
def acceptedState (d : FrameDecoder) (h : DecFrameHeader) (n w : Nat) : FDState × List AllocEvent :=
  match d.state with
  | none => ({ header := h, window := w, ringCap := 0, bytesRead := n, usingDict := none }, [.scratchNew w])
  | some s =>
    ({ header := h, window := w, ringCap := (ringReserve s.ringCap w).1, bytesRead := n, usingDict := none },
     .scratchReset w :: (ringReserve s.ringCap w).2)

theorem decoder_eta (d : FrameDecoder) : ({ d with state := d.state, log := d.log ++ [] } : FrameDecoder) = d := by
  cases d; simp

/-- `reset` after a readable header with a legal window: one comparison decides, and a rejection
returns the decoder untouched -/
theorem reset_eq (d : FrameDecoder) (src : List Nat) (h : DecFrameHeader) (n : Nat) (rest : List Nat) (w : Nat)
    (hsrc : readFrameHeader src = .ok (h, n, rest)) (hw : h.windowSize = .ok w) :
    d.reset src =
      if w > d.maxWindow then (d, .error (.windowSizeTooBig w d.maxWindow))
      else
        match h.dictId with
        | none => ({ d with state := some (acceptedState d h n w).1, log := d.log ++ (acceptedState d h n w).2 }, .ok ())
        | some id =>
          if id ∈ d.dicts then
            ({ d with state := some { (acceptedState d h n w).1 with usingDict := some id },
                      log := d.log ++ (acceptedState d h n w).2 }, .ok ())
          else ({ d with state := some (acceptedState d h n w).1, log := d.log ++ (acceptedState d h n w).2 },
                .error (.dictNotProvided id)) := by
  cases hst : d.state with
  | none =>
    simp only [FrameDecoder.reset, hst, stateNew, hsrc, hw, Gen.checkPresent_new, Gen.checkBeforeAlloc_new,
      Gen.resetPassesLimit_new, if_true, checkWindowSize, Gen.windowOverLimit, Gen.checkReportsRequestedAndMax,
      decide_eq_true_eq, acceptedState]
    by_cases hgt : w > d.maxWindow
    · simp only [hgt, if_true]
      congr 1
      rw [← hst]; exact decoder_eta d
    · simp only [hgt, if_false]
      cases h.dictId <;> rfl
  | some s =>
    simp only [FrameDecoder.reset, hst, stateReset, hsrc, hw, Gen.checkPresent_reset, Gen.checkBeforeAlloc_reset,
      Gen.checkBeforeMutate_reset, Gen.resetPassesLimit_reuse, if_true, checkWindowSize, Gen.windowOverLimit,
      Gen.checkReportsRequestedAndMax, decide_eq_true_eq, acceptedState, and_self]
    by_cases hgt : w > d.maxWindow
    · simp only [hgt, if_true]
      congr 1
      rw [← hst]; exact decoder_eta d
    · simp only [hgt, if_false]
      cases h.dictId <;> rfl

/-- `reset` when the header cannot be read or declares an illegal window: the decoder is untouched -/
theorem reset_header_error (d : FrameDecoder) (src : List Nat) (e : FrameHdrErr)
    (hsrc : readFrameHeader src = .error e) : d.reset src = (d, .error (.readHeader e)) := by
  cases hst : d.state with
  | none =>
    simp only [FrameDecoder.reset, hst, stateNew, hsrc]
    congr 1; rw [← hst]; exact decoder_eta d
  | some s =>
    simp only [FrameDecoder.reset, hst, stateReset, hsrc]
    congr 1; rw [← hst]; exact decoder_eta d

theorem reset_window_error (d : FrameDecoder) (src : List Nat) (h : DecFrameHeader) (n : Nat) (rest : List Nat)
    (e : WindowErr) (hsrc : readFrameHeader src = .ok (h, n, rest)) (hw : h.windowSize = .error e) :
    d.reset src = (d, .error (.headerErr e)) := by
  cases hst : d.state with
  | none =>
    simp only [FrameDecoder.reset, hst, stateNew, hsrc, hw]
    congr 1; rw [← hst]; exact decoder_eta d
  | some s =>
    simp only [FrameDecoder.reset, hst, stateReset, hsrc, hw]
    congr 1; rw [← hst]; exact decoder_eta d

end Zstd.Proofs.Window
