import Zstd.Proofs.EncContracts
import Zstd.Proofs.EncCodes
/-
C16 helper lemmas about `compress_block` above the entropy coders: what a valid parse implies for the
sequences, the raw-literals section decoded by the strict Spec, and the `last_huff_table` invariant
over an abstract literal coder.
-/
namespace Zstd.Proofs.Enc
open Zstd Zstd.Model Zstd.Model.Enc

/-- bytes a parse regenerates -/
def parseSpan : List MSeq → List Byte → Nat
  | [], tail => tail.length
  | s :: rest, tail => s.lits.length + s.matchLen + parseSpan rest tail

theorem copyMatch_size : ∀ (n off : Nat) (out out' : Array Byte), copyMatch n off out = some out' → out'.size = out.size + n := by
  intro n
  induction n with
  | zero => intro off out out' h; simp [copyMatch] at h; subst h; rfl
  | succ n ih =>
    intro off out out' h
    simp only [copyMatch] at h
    split at h
    · cases h
    · split at h
      · have := ih _ _ _ h
        simp at this; omega
      · cases h

/-- a parse that executes regenerates `parseSpan` bytes; every sequence has match length ≥ 3 and
`1 ≤ offset ≤ min w (output so far)` -/
theorem execParse_facts (w : Nat) : ∀ (seqs : List MSeq) (tail : List Byte) (out out' : Array Byte),
    execParse w seqs tail out = some out' →
    out'.size = out.size + parseSpan seqs tail ∧
    ∀ s ∈ seqs, 3 ≤ s.matchLen ∧ 1 ≤ s.offset ∧ s.offset ≤ w ∧ s.offset ≤ out'.size := by
  intro seqs
  induction seqs with
  | nil =>
    intro tail out out' h
    simp only [execParse, Option.some.injEq] at h
    subst h
    exact ⟨by simp [parseSpan], by simp⟩
  | cons s rest ih =>
    intro tail out out' h
    simp only [execParse] at h
    split at h
    · cases h
    · rename_i hc
      split at h
      · cases h
      · rename_i out2 hcm
        have hsz := copyMatch_size _ _ _ _ hcm
        obtain ⟨h1, h2⟩ := ih tail out2 out' h
        simp only [Array.size_append, List.size_toArray] at hsz hc
        refine ⟨by simp only [parseSpan]; omega, ?_⟩
        intro s' hs'
        simp only [List.mem_cons] at hs'
        rcases hs' with rfl | hs'
        · exact ⟨by omega, by omega, by omega, by omega⟩
        · exact h2 s' hs'

theorem parseSpan_mem : ∀ (seqs : List MSeq) (tail : List Byte) (s : MSeq), s ∈ seqs →
    s.lits.length + s.matchLen ≤ parseSpan seqs tail := by
  intro seqs
  induction seqs with
  | nil => intro tail s h; simp at h
  | cons a rest ih =>
    intro tail s h
    simp only [List.mem_cons] at h
    simp only [parseSpan]
    rcases h with rfl | h
    · omega
    · have := ih tail s h; omega

theorem parseSpan_count : ∀ (seqs : List MSeq) (tail : List Byte), (∀ s ∈ seqs, 3 ≤ s.matchLen) →
    3 * seqs.length ≤ parseSpan seqs tail := by
  intro seqs
  induction seqs with
  | nil => intro tail _; simp
  | cons a rest ih =>
    intro tail h
    have h1 := h a (by simp)
    have h2 := ih tail (fun s hs => h s (by simp [hs]))
    simp only [parseSpan, List.length_cons]; omega

theorem parseLiterals_le : ∀ (seqs : List MSeq) (tail : List Byte),
    (parseLiterals ⟨seqs, tail⟩).length ≤ parseSpan seqs tail := by
  intro seqs
  induction seqs with
  | nil => intro tail; simp [parseLiterals, parseSpan]
  | cons a rest ih =>
    intro tail
    have := ih tail
    simp only [parseLiterals, List.flatMap_cons, List.length_append, parseSpan] at this ⊢
    omega

/-- what a valid parse of a block implies for its sequences -/
theorem validParse_bounds (w : Nat) (pre blk : List Byte) (seqs : List MSeq) (tail : List Byte)
    (hv : validParse w pre blk ⟨seqs, tail⟩ = true) :
    parseSpan seqs tail = blk.length ∧
    (∀ s ∈ seqs, 3 ≤ s.matchLen ∧ 1 ≤ s.offset ∧ s.offset ≤ w ∧ s.offset ≤ (pre ++ blk).length ∧
      s.lits.length + s.matchLen ≤ blk.length) ∧
    3 * seqs.length ≤ blk.length ∧ (parseLiterals ⟨seqs, tail⟩).length ≤ blk.length := by
  simp only [validParse] at hv
  split at hv
  · rename_i out hex
    have hout : out.toList = pre ++ blk := by simpa using hv
    obtain ⟨hsz, hall⟩ := execParse_facts w seqs tail _ out hex
    have hlen : out.size = (pre ++ blk).length := by rw [← hout]; simp
    simp only [List.size_toArray, List.length_append] at hsz hlen
    have hspan : parseSpan seqs tail = blk.length := by omega
    refine ⟨hspan, ?_, ?_, ?_⟩
    · intro s hs
      obtain ⟨a, b, c, d⟩ := hall s hs
      have := parseSpan_mem seqs tail s hs
      exact ⟨a, b, c, by simp only [List.length_append]; omega, by omega⟩
    · have := parseSpan_count seqs tail (fun s hs => (hall s hs).1); omega
    · have := parseLiterals_le seqs tail
      omega
  · cases hv

theorem rawLitSizeBits_eq : Gen.rawLitSizeBits = 20 := rfl
theorem offsetAdd_eq : Gen.offsetAdd = 3 := rfl

/-- `raw_literals` for fewer than 2^20 literals: a 3-byte header then the literals, and the strict
Spec decodes that section (followed by anything) to exactly the literals, table unchanged -/
theorem rawLiterals_decodes (lits rest : List Byte) (prev : Option Spec.Huffman.Table) (h : lits.length < 2 ^ 20) :
    ∃ hdr, rawLiterals lits = .ok (hdr ++ lits) ∧ hdr.length = 3 ∧
      Spec.decodeLiterals (hdr ++ lits ++ rest) prev = some (lits, 3 + lits.length, prev) := by
  have hm : lits.length % 2 ^ 32 = lits.length := Nat.mod_eq_of_lt (by omega)
  have h1 : ¬ lits.length ≥ 2 ^ (20 + 1) := by omega
  have h2 : ¬ lits.length ≥ 2 ^ 20 := by omega
  refine ⟨leBytes 3 (0 + 3 * 4 + lits.length * 16), ?_, by simp, ?_⟩
  · simp only [rawLiterals, hm, rawLitSizeBits_eq, h1, h2, ↓reduceIte]
  · generalize hn : lits.length = n at *
    have hv : 0 + 3 * 4 + n * 16 < 2 ^ 24 := by omega
    have e : (0 + 3 * 4 + n * 16) % 256 + 256 * ((0 + 3 * 4 + n * 16) / 256 % 256 + 256 * ((0 + 3 * 4 + n * 16) / 256 / 256 % 256 + 256 * 0))
        = 0 + 3 * 4 + n * 16 := by omega
    simp only [leBytes, List.cons_append, List.nil_append, Spec.decodeLiterals, Spec.parseLitHeader]
    have t0 : (0 + 3 * 4 + n * 16) % 256 % 4 = 0 := by omega
    have t1 : (0 + 3 * 4 + n * 16) % 256 / 4 % 4 = 3 := by omega
    simp only [t0, t1, Nat.zero_lt_succ, ↓reduceIte, Nat.reduceMod, Nat.reduceEqDiff, List.length_cons,
      List.take_succ_cons, List.take_zero, leNat, e]
    have hd : (0 + 3 * 4 + n * 16) / 16 = n := by omega
    have h3 : ¬ (n + rest.length + 1 + 1 + 1 < 3) := by omega
    simp [hd, hn, h3]

/-- CONTRACT of the literal coder (`compress_literals`; C13 slice): whatever it writes, the strict
Spec decodes to the literals, and the table then in force is the one the coder returned, or — when
it returned none (raw literals, or treeless) — still the previous one.
The bound `lits.length < 2^20` (every caller has it: a block holds at most 128 Ki literals) is
NECESSARY for the real coder: `rle_literals` writes `len as u32` into a 20-bit field, so without the
bound the statement is false (`Props.C16.lit_coder_contract_unbounded_false`: 2^32 + 1 equal literals
are written as an RLE section of ONE literal). -/
def LitCoderCorrect {H : Type} (R : H → Spec.Huffman.Table → Prop) (cd : Coders H) : Prop :=
  ∀ (lits : List Byte) (prev : Option H) (bytes : List Byte) (t : Option H)
    (dprev : Option Spec.Huffman.Table) (rest : List Byte),
    lits.length < 2 ^ 20 →
    (∀ h, prev = some h → ∃ d, dprev = some d ∧ R h d) →
    cd.compressLiterals lits prev = .ok (bytes, t) →
    ∃ d', Spec.decodeLiterals (bytes ++ rest) dprev = some (lits, bytes.length, d') ∧
      (∀ h, (t <|> prev) = some h → ∃ d, d' = some d ∧ R h d)

theorem mapMExcept_ok {α β : Type} (f : α → Except Fault β) : ∀ (l : List α),
    (∀ a ∈ l, ∃ b, f a = .ok b) → ∃ bs, mapMExcept f l = .ok bs ∧ bs.length = l.length := by
  intro l
  induction l with
  | nil => intro _; exact ⟨[], rfl, rfl⟩
  | cons a as ih =>
    intro h
    obtain ⟨b, hb⟩ := h a (by simp)
    obtain ⟨bs, hbs, hl⟩ := ih (fun x hx => h x (by simp [hx]))
    exact ⟨b :: bs, by simp [mapMExcept, hb, hbs], by simp [hl]⟩

theorem mapMExcept_mem {α β : Type} (f : α → Except Fault β) : ∀ (l : List α) (bs : List β),
    mapMExcept f l = .ok bs → ∀ b ∈ bs, ∃ a ∈ l, f a = .ok b := by
  intro l
  induction l with
  | nil => intro bs h b hb; simp [mapMExcept] at h; subst h; simp at hb
  | cons a as ih =>
    intro bs h b hb
    simp only [mapMExcept] at h
    split at h
    · cases h
    · rename_i b0 hb0
      split at h
      · cases h
      · rename_i bs0 hbs0
        simp only [Except.ok.injEq] at h
        subst h
        simp only [List.mem_cons] at hb
        rcases hb with rfl | hb
        · exact ⟨a, by simp, hb0⟩
        · obtain ⟨a', ha', hf⟩ := ih bs0 hbs0 b hb
          exact ⟨a', by simp [ha'], hf⟩

end Zstd.Proofs.Enc

namespace Zstd.Proofs.Enc
open Zstd Zstd.Model Zstd.Model.Enc

/-- shape of a successful `compress_block`: the literals section (from `litStep`) followed by a
non-empty sequences section; the state is the one after the literals step -/
theorem compressBlock_shape {H : Type} (cd : Coders H) (p : Parse) (st st' : EncState H) (bytes : List Byte)
    (h : compressBlock cd p st = .ok (bytes, st')) :
    ∃ litBytes rest, litStep cd (parseLiterals p) st = .ok (litBytes, st') ∧ bytes = litBytes ++ rest ∧ rest ≠ [] := by
  unfold compressBlock at h
  simp only at h
  split at h
  · cases h
  · rename_i seqs _
    split at h
    · cases h
    · rename_i litBytes st1 hlit
      split at h
      · simp only [Except.ok.injEq, Prod.mk.injEq] at h
        exact ⟨litBytes, [0], by rw [hlit, h.2], h.1.symm, by simp⟩
      · split at h
        · cases h
        · rename_i cnt hcnt
          split at h
          · split at h
            · cases h
            · rename_i body _
              simp only [Except.ok.injEq, Prod.mk.injEq] at h
              refine ⟨litBytes, cnt ++ body, by rw [hlit, h.2], by rw [← h.1, List.append_assoc], ?_⟩
              intro hnil
              have hc : cnt = [] := (List.append_eq_nil_iff.mp hnil).1
              -- the count field is never empty
              unfold encodeSeqnum at hcnt
              simp only [Gen.seqnumArms, Gen.seqnumSub, Gen.seqnumLowFirst] at hcnt
              subst hc
              repeat' split at hcnt
              all_goals simp at hcnt
          · cases h
          · cases h
          · cases h

end Zstd.Proofs.Enc
