import Zstd.Proofs.RingReserve
/-
Helper lemmas for C04, layer 4b: operations that write new data into the free region
(`extend`, `push_back`, `extend_and_fill`, `extend_from_reader`).
-/
namespace Zstd.Model
open Zstd

theorem getD_take {l : List Byte} {k i : Nat} (h : i < k) : (l.take k).getD i 0 = l.getD i 0 := by
  simp [List.getD_eq_getElem?_getD, h]

theorem getD_drop {l : List Byte} {k i : Nat} : (l.drop k).getD i 0 = l.getD (k + i) 0 := by
  simp [List.getD_eq_getElem?_getD, List.getElem?_drop]

namespace RingBuffer

variable {r r' : RingBuffer}

/-- physical position of the `t`-th free cell after `tail` -/
theorem physT_cases (hI : r.Inv) (hc : 0 < r.cap) {t : Nat} (ht : t ≤ r.free) :
    (r.tail + t < r.cap ∧ r.phys (r.len + t) = r.tail + t) ∨
    (r.cap ≤ r.tail + t ∧ r.phys (r.len + t) = r.tail + t - r.cap) := by
  have := hI.head_lt hc; have := hI.tail_lt hc; have := hI.len_free hc
  have := len_cases r; have := phys_cases r (r.len + t)
  omega

/-- `Appended` from a description of the cells: occupied cells untouched, the `t`-th free cell
after `tail` (with wrap) holds `data[t]` -/
theorem Appended.of_cells (hI : r.Inv) (hc : 0 < r.cap) {data : List Byte} (hf : data.length ≤ r.free)
    (hcap : r'.cap = r.cap) (hhead : r'.head = r.head)
    (htail : r'.tail = (r.tail + data.length) % r.cap) (hsize : r'.mem.size = r.mem.size)
    (hold : ∀ j, r.occupied j → r'.mem.cell j = r.mem.cell j)
    (hnew : ∀ t, t < data.length →
      r'.mem.cell (if r.tail + t < r.cap then r.tail + t else r.tail + t - r.cap) = some (data.getD t 0)) :
    Appended r r' data := by
  refine ⟨hcap, hhead, htail, hsize, fun i hi => hold _ (occupied_phys hI hi), ?_⟩
  intro t ht
  have hp := physT_cases hI hc (t := t) (by omega)
  have := hnew t ht
  split at this
  · rwa [show r.phys (r.len + t) = r.tail + t by omega]
  · rwa [show r.phys (r.len + t) = r.tail + t - r.cap by omega]

/-- `Appended.of_cells` followed by `Appended.sound` -/
theorem appended_sound (hI : r.Inv) (hc : 0 < r.cap) {data : List Byte} (hf : data.length ≤ r.free)
    (hcap : r'.cap = r.cap) (hhead : r'.head = r.head)
    (htail : r'.tail = (r.tail + data.length) % r.cap) (hsize : r'.mem.size = r.mem.size)
    (hold : ∀ j, r.occupied j → r'.mem.cell j = r.mem.cell j)
    (hnew : ∀ t, t < data.length →
      r'.mem.cell (if r.tail + t < r.cap then r.tail + t else r.tail + t - r.cap) = some (data.getD t 0)) :
    r'.Inv ∧ r'.abs = r.abs ++ data ∧ r'.len = r.len + data.length :=
  (Appended.of_cells hI hc hf hcap hhead htail hsize hold hnew).sound hI hc hf

/-- writing `data` into the free region in (at most) two pieces — `[tail, tail+k)` and `[0, len-k)`
with `k = min len len_after_tail` — as `extend`, `extend_and_fill` and `extend_from_reader` do -/
theorem writeFree_ok (hI : r.Inv) (hc : 0 < r.cap) {data : List Byte} (hf : data.length ≤ r.free)
    (s1 s2 : String) {k : Nat}
    (hk : k = min data.length (if r.tail < r.head then r.head - r.tail else r.cap - r.tail)) :
    ∃ m1 m2, Mem.writeL s1 r.mem r.tail (data.take k) = .ok m1 ∧
      Mem.writeL s2 m1 0 (data.drop k) = .ok m2 ∧ m2.size = r.mem.size ∧
      (∀ j, r.occupied j → m2.cell j = r.mem.cell j) ∧
      (∀ t, t < data.length →
        m2.cell (if r.tail + t < r.cap then r.tail + t else r.tail + t - r.cap) = some (data.getD t 0)) := by
  have hh := hI.head_lt hc; have ht := hI.tail_lt hc; have hlf := hI.len_free hc
  have hfc := free_cases r
  have hkd : (r.tail < r.head ∧ k = data.length) ∨
      (r.head ≤ r.tail ∧ k = min data.length (r.cap - r.tail)) := by
    split at hk <;> omega
  have hl1 : (data.take k).length = k := by rw [List.length_take]; omega
  have hl2 : (data.drop k).length = data.length - k := by rw [List.length_drop]
  have hsz := hI.alloc
  obtain ⟨m1, hw1, hz1, hc1⟩ := Mem.writeL_ok (site := s1) (l := data.take k) (m := r.mem) (off := r.tail)
    (by rw [hl1]; omega)
  obtain ⟨m2, hw2, hz2, hc2⟩ := Mem.writeL_ok (site := s2) (l := data.drop k) (m := m1) (off := 0)
    (by rw [hl2]; omega)
  rw [hl1] at hc1; rw [hl2] at hc2
  refine ⟨m1, m2, hw1, hw2, by omega, ?_, ?_⟩
  · intro j hj
    rw [occupied_iff] at hj
    rw [hc2 j, hc1 j]
    have n2 : ¬ (0 ≤ j ∧ j < 0 + (data.length - k)) := by omega
    have n1 : ¬ (r.tail ≤ j ∧ j < r.tail + k) := by omega
    simp only [n1, n2, ↓reduceIte]
  · intro t htl
    split
    · rename_i hlt
      rw [hc2, hc1]
      have n2 : ¬ (0 ≤ r.tail + t ∧ r.tail + t < 0 + (data.length - k)) := by omega
      have y1 : r.tail ≤ r.tail + t ∧ r.tail + t < r.tail + k := by omega
      simp only [n2, y1, and_self, ↓reduceIte]
      rw [getD_take (by omega)]; congr 2; omega
    · rename_i hge
      rw [hc2]
      have y2 : 0 ≤ r.tail + t - r.cap ∧ r.tail + t - r.cap < 0 + (data.length - k) := by omega
      simp only [y2, and_self, ↓reduceIte]
      rw [getD_drop]; congr 2; omega

theorem writeL_nil (site : String) (m : Mem) (off : Nat) : Mem.writeL site m off [] = .ok m := rfl

theorem extend_ok (hI : r.Inv) (data : List Byte) :
    ∃ r', r.extend data = .ok r' ∧ r'.Inv ∧ r'.abs = r.abs ++ data ∧ r'.len = r.len + data.length ∧
      CapStep r r' data.length := by
  unfold extend
  simp only []
  by_cases hd : data.length = 0
  · simp only [hd, ↓reduceIte, pure_eq_ok]
    have : data = [] := List.eq_nil_of_length_eq_zero hd
    exact ⟨r, rfl, hI, by simp [this], by omega, CapStep.of_eq rfl _⟩
  · simp only [hd, ↓reduceIte]
    obtain ⟨r1, hres, hR⟩ := reserve_ok hI data.length
    rw [hres, ok_bind]
    have hI1 := hR.inv
    have hf1 := hR.free
    have hc1 : 0 < r1.cap := hI1.cap_pos_of_free (by omega)
    have hlf := hI1.len_free hc1
    rw [hI1.lenC_eq, ok_bind, check_ok (by omega), ok_bind, hI1.freeC_eq, ok_bind,
      check_ok (by omega), ok_bind, hI1.freeSliceLengths_eq, ok_bind]
    generalize hfs : (if r1.tail < r1.head then (0, r1.head - r1.tail) else (r1.head, r1.cap - r1.tail)) = fs
    have hfs2 : fs.2 = if r1.tail < r1.head then r1.head - r1.tail else r1.cap - r1.tail := by
      rw [← hfs]; split <;> rfl
    have hfs1 : fs.1 = if r1.tail < r1.head then 0 else r1.head := by
      rw [← hfs]; split <;> rfl
    have hsum : fs.2 + fs.1 = r1.free + 1 := by
      have := free_cases r1; have := hI1.head_lt hc1; have := hI1.tail_lt hc1
      rw [hfs1, hfs2]; split <;> omega
    rw [check_ok (by omega), ok_bind, check_ok (by omega), ok_bind]
    obtain ⟨m1, m2, hw1, hw2, hz, hold, hnew⟩ := writeFree_ok hI1 hc1 hf1
      "ringbuffer.rs:extend:write-f1" "ringbuffer.rs:extend:write-f2"
      (k := min data.length fs.2) (by rw [hfs2])
    have e1 : (if min data.length fs.2 > 0 then
          Mem.writeL "ringbuffer.rs:extend:write-f1" r1.mem r1.tail (data.take (min data.length fs.2))
        else pure r1.mem) = .ok m1 := by
      split
      · exact hw1
      · have : min data.length fs.2 = 0 := by omega
        rw [this] at hw1; exact hw1
    rw [e1, ok_bind]
    have e2 : (if data.length - min data.length fs.2 > 0 then
          Mem.writeL "ringbuffer.rs:extend:write-f2" m1 0 (data.drop (min data.length fs.2))
        else pure m1) = .ok m2 := by
      split
      · exact hw2
      · have : data.drop (min data.length fs.2) = [] := by
          apply List.drop_eq_nil_of_le; omega
        rw [this] at hw2; exact hw2
    rw [e2, ok_bind, umod_ok hc1, ok_bind, pure_eq_ok]
    refine ⟨_, rfl, ?_⟩
    rw [← hR.abs, ← hR.len]
    exact and_capStep (appended_sound hI1 hc1 hf1 rfl rfl rfl hz hold hnew) (hR.capStep.trans_eq rfl)

theorem pushBack_ok (hI : r.Inv) (b : Byte) :
    ∃ r', r.pushBack b = .ok r' ∧ r'.Inv ∧ r'.abs = r.abs ++ [b] ∧ r'.len = r.len + 1 ∧
      CapStep r r' 1 := by
  unfold pushBack
  obtain ⟨r1, hres, hR⟩ := reserve_ok hI 1
  rw [hres, ok_bind]
  have hI1 := hR.inv
  have hf1 := hR.free
  have hc1 : 0 < r1.cap := hI1.cap_pos_of_free (by omega)
  have ht1 := hI1.tail_lt hc1
  obtain ⟨m, hw, hz, hcm⟩ := Mem.wr_ok (m := r1.mem) (site := "ringbuffer.rs:push_back:write")
    (i := r1.tail) (b := b) (by rw [hI1.alloc]; exact ht1)
  rw [hw, ok_bind, umod_ok hc1, ok_bind, pure_eq_ok]
  refine ⟨_, rfl, ?_⟩
  rw [← hR.abs, ← hR.len]
  refine and_capStep (appended_sound (data := [b]) hI1 hc1 hf1 rfl rfl rfl hz ?_ ?_) (hR.capStep.trans_eq rfl)
  · intro j hj
    rw [occupied_iff] at hj
    have := free_cases r1
    show m.cell j = _
    rw [hcm j]
    have : ¬ j = r1.tail := by omega
    simp only [this, ↓reduceIte]
  · intro t ht
    simp only [List.length_cons, List.length_nil] at ht
    have : t = 0 := by omega
    subst this
    show m.cell _ = _
    simp only [Nat.add_zero, ht1, ↓reduceIte]
    rw [hcm]; simp

theorem extendAndFill_ok (hI : r.Inv) (b : Byte) (n : Nat) :
    ∃ r', r.extendAndFill b n = .ok r' ∧ r'.Inv ∧ r'.abs = r.abs ++ List.replicate n b ∧
      r'.len = r.len + n ∧ CapStep r r' n := by
  unfold extendAndFill
  by_cases hn : n = 0
  · subst hn
    simp only [↓reduceIte, pure_eq_ok]
    exact ⟨r, rfl, hI, by simp, by omega, CapStep.of_eq rfl _⟩
  · simp only [hn, ↓reduceIte]
    obtain ⟨r1, hres, hR⟩ := reserve_ok hI n
    rw [hres, ok_bind]
    have hI1 := hR.inv
    have hf1 := hR.free
    have hc1 : 0 < r1.cap := hI1.cap_pos_of_free (by omega)
    rw [hI1.freeSliceLengths_eq, ok_bind]
    generalize hfs : (if r1.tail < r1.head then (0, r1.head - r1.tail) else (r1.head, r1.cap - r1.tail)) = fs
    have hfs2 : fs.2 = if r1.tail < r1.head then r1.head - r1.tail else r1.cap - r1.tail := by
      rw [← hfs]; split <;> rfl
    have hfs1 : fs.1 = if r1.tail < r1.head then 0 else r1.head := by
      rw [← hfs]; split <;> rfl
    have hsum : fs.2 + fs.1 = r1.free + 1 := by
      have := free_cases r1; have := hI1.head_lt hc1; have := hI1.tail_lt hc1
      rw [hfs1, hfs2]; split <;> omega
    rw [check_ok (by omega), ok_bind]
    have hf1' : (List.replicate n b).length ≤ r1.free := by simpa using hf1
    obtain ⟨m1, m2, hw1, hw2, hz, hold, hnew⟩ := writeFree_ok hI1 hc1 hf1'
      "ringbuffer.rs:extend_and_fill:write1" "ringbuffer.rs:extend_and_fill:write2"
      (k := min fs.2 n) (by rw [hfs2, List.length_replicate, Nat.min_comm])
    rw [List.take_replicate, Nat.min_eq_left (Nat.min_le_right _ _)] at hw1
    rw [List.drop_replicate] at hw2
    rw [hw1, ok_bind]
    have e2 : (if min fs.2 n < n then
          Mem.writeL "ringbuffer.rs:extend_and_fill:write2" m1 0 (List.replicate (n - min fs.2 n) b)
        else pure m1) = .ok m2 := by
      split
      · exact hw2
      · have : n - min fs.2 n = 0 := by omega
        rw [this] at hw2; exact hw2
    rw [e2, ok_bind, umod_ok hc1, ok_bind, pure_eq_ok]
    refine ⟨_, rfl, ?_⟩
    rw [← hR.abs, ← hR.len]
    have := appended_sound (data := List.replicate n b) hI1 hc1 hf1'
      (r' := { r1 with mem := m2, tail := (r1.tail + n) % r1.cap, log := [Ev.w 0 (n - min fs.2 n), .w r1.tail (min fs.2 n)] ++ r1.log })
      rfl rfl (by simp) hz hold hnew
    simp only [List.length_replicate] at this
    exact and_capStep this (hR.capStep.trans_eq rfl)

end RingBuffer

end Zstd.Model
