import Zstd.Proofs.BitIO.Bridge
import Zstd.Proofs.BitIO.Writer
import Zstd.Proofs.BitIO.ChangeBits
import Zstd.Proofs.BitIO.Forward
import Zstd.Proofs.BitIO.Reverse
import Zstd.Proofs.BitIO.Backward
import Zstd.Proofs.BitIO.Inverse
/-
Refinement of the bit-level I/O model (`Zstd.Model.BitIO`, a mirror of
`ruzstd/src/bit_io/{bit_reader,bit_reader_reverse,bit_writer}.rs`) to the RFC-level bit order
specification (`Zstd.Spec.Bits`).  Namespace `Zstd.Proofs.BitIO`.  No Mathlib.

  Bridge      `Bytes`, `bitsOfLE`, `valLE`/`valBE`/`bitsLE`/`leNat` bridge lemmas, tactic `bb`
  Writer      `WInv`, `bitWriter_refines` (+ `_gen`, `_64`, `bitWriter_write64_empty_faults`), `WInv_index`,
              `WInv_misaligned`, `bitWriter_flush`, `bitWriter_dump`, `bitWriter_appendBytes`,
              `bitWriter_resetTo` (+ `_beyond`), `writeAll`, `bitWriter_writeAll`
  ChangeBits  `bitWriter_changeBits`
  Forward     `bitReader_refines`, `bitReader_getBits_zero_at_end_faults`, `bitReader_getBits_tooMany`,
              `bitReader_returnBits`, `bitReader_bitsLeft`, `runFwd_refines`
  Reverse     `stream`, `win`, `RevInv`, `RevInv_new`, `refill_ok`, `bitReaderRev_refines` (+ `_gen`),
              `bitReaderRev_getBits_64_faults`, `bitReaderRev_getBits_wide_faults`,
              `RevInv_bitsRemaining`, `getBitsTriple_eq_three_gets`, `runRev_refines`, `runRev_new`
  Backward    `skipPadding_backwardStream`
  Inverse     `reader_inverts_writer_fwd`, `revReader_reads_field`, `reader_inverts_writer_rev`
-/
