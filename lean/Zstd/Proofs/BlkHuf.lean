import Zstd.Proofs.BlkHufStream
import Zstd.Proofs.BlkHufTable
/-
C03, Huffman / literals part: `decode_literals` never panics and never hangs, and leaves the Huffman
table well formed (`HufWF`) on success.
-/
namespace Zstd.Proofs.Blk
open Zstd Zstd.Model Zstd.Model.Huf Zstd.Model.Huf.Bits
open Zstd.Proofs.BitIO (Bytes)

theorem six_of_length {l : List Nat} (h : 6 ≤ l.length) :
    ∃ b0 b1 b2 b3 b4 b5 rest, l = b0 :: b1 :: b2 :: b3 :: b4 :: b5 :: rest := by
  match l, h with
  | b0 :: b1 :: b2 :: b3 :: b4 :: b5 :: rest, _ => exact ⟨b0, b1, b2, b3, b4, b5, rest, rfl⟩

theorem Bytes_take {l : List Nat} (h : Bytes l) (n : Nat) : Bytes (l.take n) :=
  fun b hb => h b (List.mem_of_mem_take hb)

/-! ### `decompress_literals` cut into its three phases (definitional copies of the model's code) -/

/-- phase 1: the table (new table for `Compressed`, the previous one for `Treeless`) -/
def litStep1 (sec : LitSection) (t : DecTable) (source : List Nat) : DecTable × DRes LitErr Nat :=
  match sec.lsType with
  | .compressed =>
    match buildDecoder t source with
    | (t', .ok used) => (t', .ok used)
    | (t', .error (.err e)) => (t', .error (.err (.huf e)))
    | (t', .error (.fault f)) => (t', .error (.fault f))
  | .treeless => if t.maxNumBits = 0 then (t, .error (.err .uninitializedHuffmanTable)) else (t, .ok 0)
  | _ => (t, .ok 0)

/-- phase 2: one or four streams; `source` is what follows the table description -/
def litStreams (t : DecTable) (nstreams bytesRead : Nat) (source target : List Nat) : DRes LitErr (List Nat × Nat) :=
  if nstreams = 4 then
    if Gen.hufJumpHeaderMissing source.length Gen.hufJumpHeaderLen then
      .error (.err (.missingBytesForJumpHeader source.length))
    else
      match source with
      | b0 :: b1 :: b2 :: b3 :: b4 :: b5 :: src =>
        let jump1 := b0 + b1 * 256
        let jump2 := jump1 + b2 + b3 * 256
        let jump3 := jump2 + b4 + b5 * 256
        if Gen.hufJumpTooFar src.length jump3 then .error (.err (.missingBytesForLiterals src.length jump3))
        else
          let s1 := src.take jump1
          let s2 := (src.drop jump1).take (jump2 - jump1)
          let s3 := (src.drop jump2).take (jump3 - jump2)
          let s4 := src.drop jump3
          match decodeOneStream t s1 true target.reverse with
          | .error e => .error e
          | .ok o1 =>
            match decodeOneStream t s2 true o1 with
            | .error e => .error e
            | .ok o2 =>
              match decodeOneStream t s3 true o2 with
              | .error e => .error e
              | .ok o3 =>
                match decodeOneStream t s4 true o3 with
                | .error e => .error e
                | .ok o4 => .ok (o4.reverse, bytesRead + 6 + src.length)
      | _ => .error (.fault (.index "literals_section_decoder.rs:source[0..6]"))
  else if nstreams ≠ 1 then .error (.fault (.assert "literals_section_decoder.rs:num_streams==1"))
  else
    match decodeOneStream t source false target.reverse with
    | .error e => .error e
    | .ok o => .ok (o.reverse, bytesRead + source.length)

/-- phase 3: the length check -/
def litFinish (sec : LitSection) (t : DecTable) (res : DRes LitErr (List Nat × Nat)) :
    DecTable × DRes LitErr (List Nat × Nat) :=
  match res with
  | .error e => (t, .error e)
  | .ok (target', n) =>
    if target'.length ≠ sec.regeneratedSize then
      (t, .error (.err (.decodedLiteralCountMismatch target'.length sec.regeneratedSize)))
    else (t, .ok (target', n))

theorem decompressLiterals_eq (sec : LitSection) (t : DecTable) (source target : List Nat) :
    decompressLiterals sec t source target =
      match sec.compressedSize with
      | none => (t, .error (.err .missingCompressedSize))
      | some csize =>
        match sec.numStreams with
        | none => (t, .error (.err .missingNumStreams))
        | some nstreams =>
          if source.length < csize then (t, .error (.fault (.index "literals_section_decoder.rs:source[0..compressed_size]")))
          else
            match litStep1 sec t (source.take csize) with
            | (t, .error e) => (t, .error e)
            | (t, .ok bytesRead) =>
              litFinish sec t (litStreams t nstreams bytesRead ((source.take csize).drop bytesRead) target) := by
  rfl


theorem litStep1_spec (sec : LitSection) (t : DecTable) (src : List Nat)
    (hb : Bytes src) (hwf : HufWF t) (hty : sec.lsType = .compressed ∨ sec.lsType = .treeless) :
    (∀ f, (litStep1 sec t src).2 ≠ .error (.fault f)) ∧
    (∀ t1 br, litStep1 sec t src = (t1, .ok br) → HufBuilt t1 ∧ br ≤ src.length) := by
  unfold litStep1
  rcases hty with hty | hty
  · rw [hty]
    simp only
    have hnf := hufBuildDecoder_no_fault t src hb
    have hok := fun t' used => hufBuildDecoder_ok (t := t) (src := src) hb (t' := t') (used := used)
    generalize buildDecoder t src = bd at hnf hok
    obtain ⟨t1, r1⟩ := bd
    cases r1 with
    | ok used =>
      refine ⟨fun f h => by simp at h, fun t1' br h => ?_⟩
      simp only [Prod.mk.injEq, Except.ok.injEq] at h
      obtain ⟨h1, h2⟩ := h
      subst h1 h2
      exact hok t1 used rfl
    | error e =>
      cases e with
      | err e => exact ⟨fun f h => by simp at h, fun t1' br h => by simp at h⟩
      | fault f => exact absurd rfl (hnf f)
  · rw [hty]
    simp only
    split
    · exact ⟨fun f h => by simp at h, fun t1' br h => by simp at h⟩
    · rename_i hm
      refine ⟨fun f h => by simp at h, fun t1' br h => ?_⟩
      simp only [Prod.mk.injEq, Except.ok.injEq] at h
      obtain ⟨h1, h2⟩ := h
      subst h1 h2
      rcases hwf with h0 | hbuilt
      · exact absurd h0 hm
      · exact ⟨hbuilt, Nat.zero_le _⟩

theorem litStreams_spec {t : DecTable} (hb : HufBuilt t) {n : Nat} (hn : n = 1 ∨ n = 4) (br : Nat)
    (source target : List Nat) :
    (∀ f, litStreams t n br source target ≠ .error (.fault f)) ∧
    (∀ tg k, litStreams t n br source target = .ok (tg, k) → k = br + source.length) := by
  have E := fun stream check outRev f => decodeOneStream_no_fault hb stream check outRev f
  unfold litStreams
  rcases hn with hn | hn
  · subst hn
    simp only [show ¬ (1 = 4) by omega, if_false, ne_eq, not_true]
    cases h1 : decodeOneStream t source false target.reverse with
    | error e =>
      refine ⟨fun f h => ?_, fun tg k h => by simp at h⟩
      simp only [Except.error.injEq] at h
      subst h
      exact E _ _ _ _ h1
    | ok o =>
      refine ⟨fun f h => by simp at h, fun tg k h => ?_⟩
      simp only [Except.ok.injEq, Prod.mk.injEq] at h
      exact h.2.symm
  · subst hn
    simp only [if_true]
    split
    · exact ⟨fun f h => by simp at h, fun tg k h => by simp at h⟩
    · rename_i h6
      have h6' : ¬ (source.length < 6) := by
        intro hc; apply h6
        simp only [Gen.hufJumpHeaderMissing, Gen.hufJumpHeaderLen]
        exact decide_eq_true hc
      obtain ⟨b0, b1, b2, b3, b4, b5, rest, rfl⟩ := six_of_length (l := source) (by omega)
      simp only
      split
      · exact ⟨fun f h => by simp at h, fun tg k h => by simp at h⟩
      · split
        · rename_i e h1
          refine ⟨fun f h => ?_, fun tg k h => by simp at h⟩
          simp only [Except.error.injEq] at h
          subst h
          exact E _ _ _ _ h1
        · split
          · rename_i e h1
            refine ⟨fun f h => ?_, fun tg k h => by simp at h⟩
            simp only [Except.error.injEq] at h
            subst h
            exact E _ _ _ _ h1
          · split
            · rename_i e h1
              refine ⟨fun f h => ?_, fun tg k h => by simp at h⟩
              simp only [Except.error.injEq] at h
              subst h
              exact E _ _ _ _ h1
            · split
              · rename_i e h1
                refine ⟨fun f h => ?_, fun tg k h => by simp at h⟩
                simp only [Except.error.injEq] at h
                subst h
                exact E _ _ _ _ h1
              · refine ⟨fun f h => by simp at h, fun tg k h => ?_⟩
                simp only [Except.ok.injEq, Prod.mk.injEq] at h
                rw [← h.2]
                simp only [List.length_cons]
                omega

theorem litFinish_fault {sec : LitSection} {t : DecTable} {res : DRes LitErr (List Nat × Nat)} {f : Fault}
    (h : (litFinish sec t res).2 = .error (.fault f)) : res = .error (.fault f) := by
  unfold litFinish at h
  split at h
  · simpa using h
  · split at h <;> simp at h

theorem litFinish_ok {sec : LitSection} {t t' : DecTable} {res : DRes LitErr (List Nat × Nat)} {lits : List Nat}
    {used : Nat} (h : litFinish sec t res = (t', .ok (lits, used))) :
    t' = t ∧ res = .ok (lits, used) ∧ lits.length = sec.regeneratedSize := by
  unfold litFinish at h
  split at h
  · simp at h
  · split at h
    · simp at h
    · rename_i hl
      simp only [Prod.mk.injEq, Except.ok.injEq] at h
      obtain ⟨h1, h2, h3⟩ := h
      subst h1 h2 h3
      exact ⟨rfl, rfl, by omega⟩

theorem decompressLiterals_spec (sec : LitSection) (t : DecTable) (src : List Nat)
    (hb : Bytes src) (hwf : HufWF t) (hty : sec.lsType = .compressed ∨ sec.lsType = .treeless)
    (hcs : sec.compressedSize = some src.length)
    (hns : sec.numStreams = some 1 ∨ sec.numStreams = some 4) :
    (∀ f, (decompressLiterals sec t src []).2 ≠ .error (.fault f)) ∧
    (∀ t' lits used, decompressLiterals sec t src [] = (t', .ok (lits, used)) →
      HufWF t' ∧ lits.length = sec.regeneratedSize ∧ used = src.length) := by
  obtain ⟨n, hn, hn14⟩ : ∃ n, sec.numStreams = some n ∧ (n = 1 ∨ n = 4) := by
    rcases hns with h | h
    · exact ⟨1, h, Or.inl rfl⟩
    · exact ⟨4, h, Or.inr rfl⟩
  rw [decompressLiterals_eq]
  simp only [hcs, hn, Nat.lt_irrefl, if_false, List.take_length]
  obtain ⟨s1nf, s1ok⟩ := litStep1_spec sec t src hb hwf hty
  generalize litStep1 sec t src = st at s1nf s1ok
  obtain ⟨t1, r1⟩ := st
  cases r1 with
  | error e =>
    simp only
    exact ⟨fun f h => s1nf f (by simpa using h), fun t' lits used h => by simp at h⟩
  | ok br =>
    simp only
    obtain ⟨hbuilt, hbr⟩ := s1ok t1 br rfl
    obtain ⟨snf, sok⟩ := litStreams_spec hbuilt hn14 br (src.drop br) []
    refine ⟨fun f h => snf f (litFinish_fault h), fun t' lits used h => ?_⟩
    obtain ⟨h1, h2, h3⟩ := litFinish_ok h
    subst h1
    refine ⟨Or.inr hbuilt, h3, ?_⟩
    rw [sok lits used h2, List.length_drop]
    omega

/-- **F.** `decode_literals` on the slice handed over by `decompress_block`: no panic, no hang;
on success the table is well formed, exactly `regenerated_size` literals were produced and the
whole slice was consumed. -/
theorem decodeLiterals_spec (sec : LitSection) (t : DecTable) (src : List Nat)
    (hb : Bytes src) (hwf : HufWF t) (hpre : LitPre sec src) :
    (∀ f, (decodeLiterals sec t src []).2 ≠ .error (.fault f)) ∧
    (∀ t' lits used, decodeLiterals sec t src [] = (t', .ok (lits, used)) →
      HufWF t' ∧ lits.length = sec.regeneratedSize ∧ used = src.length) := by
  unfold decodeLiterals
  cases hty : sec.lsType with
  | raw =>
    have hl := hpre.raw hty
    simp only
    rw [if_neg (by omega)]
    refine ⟨fun f h => by simp at h, fun t' lits used h => ?_⟩
    simp only [Prod.mk.injEq, Except.ok.injEq] at h
    obtain ⟨h1, h2, h3⟩ := h
    subst h1 h2 h3
    refine ⟨hwf, ?_, hl.symm⟩
    simp [hl]
  | rle =>
    have hl := hpre.rle hty
    simp only
    match src, hl with
    | [b], _ =>
      simp only
      refine ⟨fun f h => by simp at h, fun t' lits used h => ?_⟩
      simp only [Prod.mk.injEq, Except.ok.injEq] at h
      obtain ⟨h1, h2, h3⟩ := h
      subst h1 h2 h3
      exact ⟨hwf, by simp, rfl⟩
  | compressed =>
    simp only
    obtain ⟨hcs, hns⟩ := hpre.comp (Or.inl hty)
    exact decompressLiterals_spec sec t src hb hwf (Or.inl hty) hcs hns
  | treeless =>
    simp only
    obtain ⟨hcs, hns⟩ := hpre.comp (Or.inr hty)
    exact decompressLiterals_spec sec t src hb hwf (Or.inr hty) hcs hns

theorem decodeLiterals_no_fault (sec : LitSection) (t : DecTable) (src : List Nat)
    (hb : Bytes src) (hwf : HufWF t) (hpre : LitPre sec src) (f : Fault) :
    (decodeLiterals sec t src []).2 ≠ .error (.fault f) :=
  (decodeLiterals_spec sec t src hb hwf hpre).1 f

theorem decodeLiterals_ok (sec : LitSection) (t : DecTable) (src : List Nat)
    (hb : Bytes src) (hwf : HufWF t) (hpre : LitPre sec src) {t' : DecTable} {lits : List Nat} {used : Nat}
    (h : decodeLiterals sec t src [] = (t', .ok (lits, used))) :
    HufWF t' ∧ lits.length = sec.regeneratedSize ∧ used = src.length :=
  (decodeLiterals_spec sec t src hb hwf hpre).2 t' lits used h

/-! ### non-vacuity: the hypotheses are satisfiable and the success case occurs -/

example : HufWF DecTable.empty := Or.inl rfl

example : Bytes [131, 0x21, 0x03, 0x1b] ∧
    LitPre { lsType := .compressed, regeneratedSize := 3, compressedSize := some 4, numStreams := some 1 }
      [131, 0x21, 0x03, 0x1b] ∧
    (decodeLiterals { lsType := .compressed, regeneratedSize := 3, compressedSize := some 4, numStreams := some 1 }
      DecTable.empty [131, 0x21, 0x03, 0x1b] []).2 = .ok ([3, 0, 3], 4) :=
  ⟨by unfold Bytes; decide, ⟨by simp, by simp, by simp⟩, by decide⟩

/-- a table accepted by `build_table_from_weights` (hence `HufBuilt`) exists -/
example : HufBuilt (buildTableFromWeights { DecTable.empty with weights := [2, 1, 0, 3] }).1 :=
  buildTableFromWeights_ok (t := { DecTable.empty with weights := [2, 1, 0, 3] }) (by decide)
    (Prod.ext rfl (by decide))

end Zstd.Proofs.Blk
