import Zstd.Model.Huffman
/-
Lemmas about the decoder-side table construction (`build_table_from_weights`): the rank indexes are
the prefix sums of the rank masses, the fill loop never leaves the table, and afterwards every
symbol owns exactly the cells `[pos s, pos s + 2^(m − bits s))`.
-/
namespace Zstd.Proofs.Huf
open Zstd Zstd.Model.Huf

/-! ### small facts -/

theorem firstTooBig_none {ws : List Nat} : firstTooBig ws = none ↔ ∀ w ∈ ws, w ≤ Gen.hufMaxNumBits := by
  induction ws with
  | nil => simp [firstTooBig]
  | cons w ws ih =>
    simp only [firstTooBig, Gen.hufWeightTooBig, decide_eq_true_eq, List.mem_cons, forall_eq_or_imp]
    split
    · constructor
      · intro h; cases h
      · intro ⟨h, _⟩; omega
    · rw [ih]; constructor
      · intro h; exact ⟨by omega, h⟩
      · intro ⟨_, h⟩; exact h

theorem firstTooBig_some {ws : List Nat} {w : Nat} (h : firstTooBig ws = some w) :
    w ∈ ws ∧ w > Gen.hufMaxNumBits := by
  induction ws with
  | nil => simp [firstTooBig] at h
  | cons x xs ih =>
    simp only [firstTooBig, Gen.hufWeightTooBig, decide_eq_true_eq] at h
    split at h
    · cases h; exact ⟨List.mem_cons_self, by assumption⟩
    · exact ⟨List.mem_cons_of_mem _ (ih h).1, (ih h).2⟩

theorem weightSum_le {ws : List Nat} {k : Nat} (h : ∀ w ∈ ws, w ≤ k) : weightSum ws ≤ ws.length * 2 ^ k := by
  induction ws with
  | nil => simp [weightSum]
  | cons w ws ih =>
    have h1 : w ≤ k := h w List.mem_cons_self
    have h2 := ih (fun x hx => h x (List.mem_cons_of_mem _ hx))
    simp only [weightSum, List.length_cons]
    have : (if w > 0 then 2 ^ (w - 1) else 0) ≤ 2 ^ k := by
      split
      · exact Nat.pow_le_pow_right (by omega) (by omega)
      · exact Nat.zero_le _
    rw [Nat.add_mul]; omega

theorem weightSum_append (a b : List Nat) : weightSum (a ++ b) = weightSum a + weightSum b := by
  induction a with
  | nil => simp [weightSum]
  | cons w ws ih => simp only [List.cons_append, weightSum, ih]; omega

theorem isPow2_iff {n : Nat} : isPow2 n = true ↔ n ≠ 0 ∧ 2 ^ Nat.log2 n = n := by
  simp [isPow2]

theorem countBits_append (b : Nat) (x y : List Nat) : countBits b (x ++ y) = countBits b x + countBits b y := by
  induction x with
  | nil => simp [countBits]
  | cons a x ih => simp only [List.cons_append, countBits, ih]; omega

/-! ### rank indexes -/

/-- `riSum m bits k = Σ_{j<k} (number of symbols with m − j bits) · 2^j`; `rank_indexes[b]` is
`riSum m bits (m − b)` -/
def riSum (m : Nat) (bits : List Nat) : Nat → Nat
  | 0 => 0
  | k + 1 => riSum m bits k + countBits (m - k) bits * 2 ^ k

theorem riSum_mono (m : Nat) (bits : List Nat) {a b : Nat} (h : a ≤ b) : riSum m bits a ≤ riSum m bits b := by
  induction b with
  | zero => have : a = 0 := by omega
            subst this; exact Nat.le_refl _
  | succ b ih =>
    by_cases hab : a = b + 1
    · subst hab; exact Nat.le_refl _
    · have := ih (by omega); simp only [riSum]; omega

theorem rankIndexesGo_eq (m : Nat) (bits : List Nat) : ∀ (b : Nat), b ≤ m →
    rankIndexesGo m bits b ((List.range' b (m + 1 - b)).map fun i => riSum m bits (m - i))
      = (List.range' 0 (m + 1)).map fun i => riSum m bits (m - i) := by
  intro b
  induction b with
  | zero => intro _; simp [rankIndexesGo]
  | succ b ih =>
    intro hb
    have hlen : m + 1 - (b + 1) = (m - (b + 1)) + 1 := by omega
    rw [hlen, List.range'_succ, List.map_cons]
    simp only [rankIndexesGo]
    have hk : m - b = (m - (b + 1)) + 1 := by omega
    have hval : riSum m bits (m - (b + 1)) + countBits (b + 1) bits * 2 ^ (m - (b + 1)) = riSum m bits (m - b) := by
      rw [hk, riSum]
      have : m - (m - (b + 1)) = b + 1 := by omega
      rw [this]
    rw [hval]
    have := ih (by omega)
    have hlen2 : m + 1 - b = (m - (b + 1) + 1) + 1 := by omega
    rw [hlen2, List.range'_succ, List.map_cons] at this
    rw [← this, List.range'_succ, List.map_cons]

theorem rankIndexes_eq (m : Nat) (bits : List Nat) :
    rankIndexes m bits = (List.range' 0 (m + 1)).map fun i => riSum m bits (m - i) := by
  have := rankIndexesGo_eq m bits m (Nat.le_refl _)
  have h1 : m + 1 - m = 1 := by omega
  rw [h1] at this
  simp only [List.range'_one, List.map_cons, List.map_nil, Nat.sub_self, riSum] at this
  simpa [rankIndexes] using this

theorem rankIndexes_get (m : Nat) (bits : List Nat) {b : Nat} (hb : b ≤ m) :
    (rankIndexes m bits)[b]? = some (riSum m bits (m - b)) := by
  rw [rankIndexes_eq]
  simp [Nat.lt_succ_of_le hb]

theorem rankIndexes_length (m : Nat) (bits : List Nat) : (rankIndexes m bits).length = m + 1 := by
  rw [rankIndexes_eq]; simp

/-- mass of a list of code lengths in a table of `2^m` cells -/
def bitMass (m : Nat) : List Nat → Nat
  | [] => 0
  | x :: xs => (if 1 ≤ x ∧ x ≤ m then 2 ^ (m - x) else 0) + bitMass m xs

theorem riSum_cons (m x : Nat) (xs : List Nat) : ∀ k, k ≤ m →
    riSum m (x :: xs) k = riSum m xs k + (if 1 ≤ x ∧ x ≤ m ∧ m - x < k then 2 ^ (m - x) else 0) := by
  intro k
  induction k with
  | zero => intro _; simp [riSum]
  | succ k ih =>
    intro hk
    rw [riSum, riSum, ih (by omega), countBits, Nat.add_mul]
    by_cases hx : x = m - k
    · have h1 : 1 ≤ x ∧ x ≤ m ∧ m - x < k + 1 := by omega
      have h2 : ¬ (1 ≤ x ∧ x ≤ m ∧ m - x < k) := by omega
      have h3 : m - x = k := by omega
      rw [if_pos h1, if_neg h2, if_pos hx, h3]
      omega
    · have h2 : (1 ≤ x ∧ x ≤ m ∧ m - x < k + 1) ↔ (1 ≤ x ∧ x ≤ m ∧ m - x < k) := by omega
      rw [if_neg hx]
      simp only [h2]
      omega

theorem riSum_total (m : Nat) (bits : List Nat) : riSum m bits m = bitMass m bits := by
  induction bits with
  | nil =>
    have : ∀ k, riSum m [] k = 0 := by
      intro k; induction k with
      | zero => rfl
      | succ k ih => simp [riSum, ih, countBits]
    simp [this, bitMass]
  | cons x xs ih =>
    rw [riSum_cons m x xs m (Nat.le_refl _), ih, bitMass]
    have : (1 ≤ x ∧ x ≤ m ∧ m - x < m) ↔ (1 ≤ x ∧ x ≤ m) := by omega
    simp only [this]; omega

/-- `rank_indexes[b − 1] = rank_indexes[b] + bit_ranks[b] · 2^(m − b)` -/
theorem riSum_step (m : Nat) (bits : List Nat) {b : Nat} (h1 : 1 ≤ b) (h2 : b ≤ m) :
    riSum m bits (m - (b - 1)) = riSum m bits (m - b) + countBits b bits * 2 ^ (m - b) := by
  have : m - (b - 1) = (m - b) + 1 := by omega
  rw [this, riSum]
  have : m - (m - b) = b := by omega
  rw [this]

/-! ### the fill loop -/

theorem fill_size (a : Array Entry) (base n : Nat) (e : Entry) : (fill a base n e).size = a.size := by
  induction n generalizing a with
  | zero => rfl
  | succ n ih => simp [fill, ih]

theorem fill_get (a : Array Entry) (base n : Nat) (e : Entry) (i : Nat) :
    (fill a base n e)[i]? = if base ≤ i ∧ i < base + n ∧ i < a.size then some e else a[i]? := by
  induction n generalizing a with
  | zero =>
    have : ¬ (base ≤ i ∧ i < base + 0 ∧ i < a.size) := by omega
    simp only [fill, if_neg this]
  | succ n ih =>
    rw [fill, ih, Array.size_setIfInBounds, Array.getElem?_setIfInBounds]
    by_cases h1 : base ≤ i ∧ i < base + n ∧ i < a.size
    · have h1' : base ≤ i ∧ i < base + (n + 1) ∧ i < a.size := by omega
      rw [if_pos h1, if_pos h1']
    · rw [if_neg h1]
      by_cases h2 : base + n = i
      · rw [if_pos h2]
        by_cases h3 : i < a.size
        · have h1' : base ≤ i ∧ i < base + (n + 1) ∧ i < a.size := by omega
          rw [if_pos h1', if_pos (by omega)]
        · have h1' : ¬ (base ≤ i ∧ i < base + (n + 1) ∧ i < a.size) := by omega
          rw [if_neg h1', if_neg (by omega)]
          exact (Array.getElem?_eq_none (by omega)).symm
      · have h1' : ¬ (base ≤ i ∧ i < base + (n + 1) ∧ i < a.size) := by omega
        rw [if_neg h2, if_neg h1']

/-- first cell of symbol number `pre.length` when the symbols before it have lengths `pre` -/
def cellPos (m : Nat) (all pre : List Nat) (b : Nat) : Nat :=
  riSum m all (m - b) + countBits b pre * 2 ^ (m - b)

/-- The invariant of the fill loop after the symbols with lengths `pre` have been placed. -/
structure FillInv (m : Nat) (all pre : List Nat) (ri : List Nat) (dec : Array Entry) : Prop where
  riLen : ri.length = m + 1
  riVal : ∀ b, 1 ≤ b → b ≤ m → ri[b]? = some (cellPos m all pre b)
  size : dec.size = 2 ^ m
  cells : ∀ s (hs : s < pre.length), pre[s] ≠ 0 → ∀ j, j < 2 ^ (m - pre[s]) →
    dec[cellPos m all (pre.take s) pre[s] + j]? = some { symbol := s % 256, numBits := pre[s] }

theorem countBits_take_lt {b : Nat} {pre : List Nat} {s : Nat} (hs : s < pre.length) (h : pre[s] = b) :
    countBits b (pre.take s) + 1 ≤ countBits b pre := by
  have h1 : pre = pre.take s ++ pre[s] :: pre.drop (s + 1) := by
    rw [List.getElem_cons_drop, List.take_append_drop]
  have h2 : countBits b pre = countBits b (pre.take s) + countBits b (pre[s] :: pre.drop (s + 1)) := by
    conv => lhs; rw [h1]
    exact countBits_append _ _ _
  rw [h2, countBits, h]; simp

theorem fillLoop_spec (m : Nat) (all : List Nat) (hall : ∀ b ∈ all, b ≤ m)
    (htotal : riSum m all m = 2 ^ m) :
    ∀ (rest pre : List Nat) (ri : List Nat) (dec : Array Entry), all = pre ++ rest →
      FillInv m all pre ri dec →
      ∃ ri' dec', fillLoop m rest pre.length ri dec = .ok (ri', dec') ∧ FillInv m all all ri' dec' := by
  intro rest
  induction rest with
  | nil =>
    intro pre ri dec hsplit inv
    simp only [List.append_nil] at hsplit
    subst hsplit
    exact ⟨ri, dec, rfl, inv⟩
  | cons b rest ih =>
    intro pre ri dec hsplit inv
    have hb_all : b ∈ all := by rw [hsplit]; simp
    have hbm : b ≤ m := hall b hb_all
    have hsplit' : all = (pre ++ [b]) ++ rest := by rw [hsplit]; simp
    have hlen' : (pre ++ [b]).length = pre.length + 1 := by simp
    by_cases hb0 : b = 0
    · -- symbol without a code: nothing is written
      subst hb0
      have inv' : FillInv m all (pre ++ [0]) ri dec := by
        refine ⟨inv.riLen, ?_, inv.size, ?_⟩
        · intro b h1 h2
          rw [inv.riVal b h1 h2]
          simp only [cellPos, countBits_append, countBits]
          have : ¬ (0 = b) := by omega
          simp [this]
        · intro s hs hne j hj
          rw [hlen'] at hs
          by_cases hs' : s < pre.length
          · have e1 : (pre ++ [0])[s] = pre[s] := List.getElem_append_left hs'
            rw [e1] at hne hj ⊢
            have e2 : (pre ++ [0]).take s = pre.take s := by
              rw [List.take_append_of_le_length (by omega)]
            rw [e2]
            exact inv.cells s hs' hne j hj
          · have : s = pre.length := by omega
            subst this
            simp at hne
      obtain ⟨ri', dec', h1, h2⟩ := ih (pre ++ [0]) ri dec hsplit' inv'
      refine ⟨ri', dec', ?_, h2⟩
      rw [hlen'] at h1
      simp only [fillLoop, if_true]
      exact h1
    · have hb1 : 1 ≤ b := by omega
      have hri : ri[b]? = some (cellPos m all pre b) := inv.riVal b hb1 hbm
      -- the block fits: it ends at or before the start of the next shorter rank
      have hcnt : countBits b all = countBits b pre + 1 + countBits b rest := by
        rw [hsplit, countBits_append, countBits]; simp; omega
      have hstep := riSum_step m all hb1 hbm
      have hmono : riSum m all (m - (b - 1)) ≤ riSum m all m := riSum_mono m all (by omega)
      have hfit : cellPos m all pre b + 2 ^ (m - b) ≤ riSum m all (m - (b - 1)) := by
        rw [hstep, hcnt]
        simp only [cellPos, Nat.add_mul, Nat.one_mul]
        omega
      have hfit2 : cellPos m all pre b + 2 ^ (m - b) ≤ dec.size := by
        rw [inv.size, ← htotal]; omega
      let e : Entry := { symbol := pre.length % 256, numBits := b }
      have inv' : FillInv m all (pre ++ [b]) (ri.set b (cellPos m all pre b + 2 ^ (m - b)))
          (fill dec (cellPos m all pre b) (2 ^ (m - b)) e) := by
        refine ⟨by simp [inv.riLen], ?_, by simp [fill_size, inv.size], ?_⟩
        · intro b' h1 h2
          rw [List.getElem?_set]
          by_cases hbb : b = b'
          · subst hbb
            simp only [if_true, inv.riLen]
            rw [if_pos (by omega)]
            simp only [cellPos, countBits_append, countBits]
            simp [Nat.add_mul]; omega
          · simp only [hbb, if_false]
            rw [inv.riVal b' h1 h2]
            simp only [cellPos, countBits_append, countBits]
            simp [hbb]
        · intro s hs hne j hj
          rw [hlen'] at hs
          rw [fill_get]
          by_cases hs' : s < pre.length
          · -- an older symbol: its cells are not touched by the new block
            have e1 : (pre ++ [b])[s] = pre[s] := List.getElem_append_left hs'
            have e2 : (pre ++ [b]).take s = pre.take s := by
              rw [List.take_append_of_le_length (by omega)]
            rw [e1] at hne hj ⊢
            rw [e2]
            have hold := inv.cells s hs' hne j hj
            have hb'all : pre[s] ∈ all := by
              rw [hsplit]; exact List.mem_append_left _ (List.getElem_mem _)
            have hb'm : pre[s] ≤ m := hall _ hb'all
            have hb'1 : 1 ≤ pre[s] := by omega
            have hdisj : ¬ (cellPos m all pre b ≤ cellPos m all (pre.take s) pre[s] + j ∧
                cellPos m all (pre.take s) pre[s] + j < cellPos m all pre b + 2 ^ (m - b) ∧
                cellPos m all (pre.take s) pre[s] + j < dec.size) := by
              intro ⟨c1, c2, _⟩
              by_cases hbb : pre[s] = b
              · -- same rank: the old block ends before the new one starts
                have := countBits_take_lt hs' hbb
                rw [hbb] at c1 hj
                simp only [cellPos] at c1
                have : (countBits b (pre.take s) + 1) * 2 ^ (m - b) ≤ countBits b pre * 2 ^ (m - b) :=
                  Nat.mul_le_mul_right _ this
                rw [Nat.add_mul] at this
                omega
              · by_cases hlt : pre[s] < b
                · -- shorter length = later region: new block ends before the old region starts
                  have h3 : riSum m all (m - (b - 1)) ≤ riSum m all (m - pre[s]) := riSum_mono m all (by omega)
                  simp only [cellPos] at c2 hfit
                  omega
                · -- longer length = earlier region: old block ends before the new region starts
                  have hgt : b < pre[s] := by omega
                  have hstep' := riSum_step m all hb'1 hb'm
                  have h3 : riSum m all (m - (pre[s] - 1)) ≤ riSum m all (m - b) := riSum_mono m all (by omega)
                  have hc := countBits_take_lt hs' rfl
                  have hcnt' : countBits pre[s] pre ≤ countBits pre[s] all := by
                    rw [hsplit, countBits_append]; omega
                  have : (countBits pre[s] (pre.take s) + 1) * 2 ^ (m - pre[s]) ≤ countBits pre[s] all * 2 ^ (m - pre[s]) :=
                    Nat.mul_le_mul_right _ (by omega)
                  rw [Nat.add_mul] at this
                  simp only [cellPos] at c1
                  omega
            rw [if_neg hdisj]
            exact hold
          · -- the new symbol
            have hs_eq : s = pre.length := by omega
            subst hs_eq
            have e1 : (pre ++ [b])[pre.length] = b := by simp
            have e2 : (pre ++ [b]).take pre.length = pre := by simp
            rw [e1] at hj ⊢
            rw [e2]
            rw [if_pos ⟨by omega, by omega, by omega⟩]
      obtain ⟨ri', dec', h1, h2⟩ := ih (pre ++ [b]) _ _ hsplit' inv'
      refine ⟨ri', dec', ?_, h2⟩
      rw [hlen'] at h1
      simp only [fillLoop, hb0, if_false, hri]
      rw [if_neg (by omega)]
      exact h1

/-! ### `build_table_from_weights` as a whole -/

theorem resizeDecode_size (a : Array Entry) (n : Nat) : (resizeDecode a n).size = n := by
  unfold resizeDecode
  split
  · simp; omega
  · simp; omega

theorem le_weightSum {ws : List Nat} {w : Nat} (hw : w ∈ ws) (h0 : w > 0) : 2 ^ (w - 1) ≤ weightSum ws := by
  induction ws with
  | nil => cases hw
  | cons x xs ih =>
    simp only [weightSum]
    rcases List.mem_cons.mp hw with h | h
    · subst h; simp [h0]
    · have := ih h; omega

/-- code lengths from weights: `bits[s] = w > 0 ? m + 1 − w : 0` -/
def bitsOf (m : Nat) (ws : List Nat) : List Nat := ws.map fun w => if w > 0 then m + 1 - w else 0

theorem bitMass_bitsOf (m : Nat) {ws : List Nat} (h : ∀ w ∈ ws, w ≤ m) : bitMass m (bitsOf m ws) = weightSum ws := by
  induction ws with
  | nil => rfl
  | cons w ws ih =>
    have hw : w ≤ m := h w List.mem_cons_self
    have := ih (fun x hx => h x (List.mem_cons_of_mem _ hx))
    simp only [bitsOf, List.map_cons, bitMass, weightSum] at this ⊢
    rw [this]
    by_cases h0 : w > 0
    · have h1 : 1 ≤ m + 1 - w ∧ m + 1 - w ≤ m := by omega
      have h2 : m - (m + 1 - w) = w - 1 := by omega
      simp only [h0, if_true, h1, and_self, h2]
    · have : ¬ (1 ≤ 0 ∧ 0 ≤ m) := by omega
      simp only [h0, if_false, this]

/-- what `build_table_from_weights` checks, as a proposition about the transmitted weights -/
structure GoodWeights (ws : List Nat) : Prop where
  le11 : ∀ w ∈ ws, w ≤ Gen.hufMaxNumBits
  pos : weightSum ws ≠ 0
  pow : isPow2 (2 ^ (Nat.log2 (weightSum ws) + 1) - weightSum ws) = true
  maxBits : Nat.log2 (weightSum ws) + 1 ≤ Gen.hufMaxNumBits

/-- Max_Number_of_Bits of a weight list -/
def maxBitsOf (ws : List Nat) : Nat := Nat.log2 (weightSum ws) + 1
/-- the weight of the last, not transmitted symbol -/
def lastWeightOf (ws : List Nat) : Nat := Nat.log2 (2 ^ maxBitsOf ws - weightSum ws) + 1
/-- all code lengths, including the inferred last one -/
def allBitsOf (ws : List Nat) : List Nat := bitsOf (maxBitsOf ws) (ws ++ [lastWeightOf ws])

theorem good_facts {ws : List Nat} (g : GoodWeights ws) :
    weightSum ws < 2 ^ maxBitsOf ws ∧ 2 ^ (maxBitsOf ws - 1) ≤ weightSum ws ∧
    1 ≤ lastWeightOf ws ∧ lastWeightOf ws ≤ maxBitsOf ws ∧
    weightSum (ws ++ [lastWeightOf ws]) = 2 ^ maxBitsOf ws ∧
    (∀ w ∈ ws ++ [lastWeightOf ws], w ≤ maxBitsOf ws) := by
  have hlt : weightSum ws < 2 ^ maxBitsOf ws := Nat.lt_log2_self
  have hge : 2 ^ (maxBitsOf ws - 1) ≤ weightSum ws := by
    have := Nat.log2_self_le g.pos
    simpa [maxBitsOf] using this
  have hp : 2 ^ maxBitsOf ws - weightSum ws ≠ 0 ∧
      2 ^ Nat.log2 (2 ^ maxBitsOf ws - weightSum ws) = 2 ^ maxBitsOf ws - weightSum ws := isPow2_iff.mp g.pow
  have hleft_le : 2 ^ maxBitsOf ws - weightSum ws ≤ 2 ^ (maxBitsOf ws - 1) := by
    have : 2 ^ maxBitsOf ws = 2 * 2 ^ (maxBitsOf ws - 1) := by
      have : maxBitsOf ws = (maxBitsOf ws - 1) + 1 := by simp [maxBitsOf]
      conv => lhs; rw [this, Nat.pow_succ]
      omega
    omega
  have hlw : lastWeightOf ws ≤ maxBitsOf ws := by
    have h1 : Nat.log2 (2 ^ maxBitsOf ws - weightSum ws) < maxBitsOf ws := by
      rw [Nat.log2_lt hp.1]
      omega
    simp only [lastWeightOf]; omega
  have hsum : weightSum (ws ++ [lastWeightOf ws]) = 2 ^ maxBitsOf ws := by
    rw [weightSum_append]
    simp only [weightSum, lastWeightOf, Nat.add_sub_cancel]
    have : Nat.log2 (2 ^ maxBitsOf ws - weightSum ws) + 1 > 0 := by omega
    simp only [this, if_true]
    have := hp.2
    omega
  refine ⟨hlt, hge, by simp [lastWeightOf], hlw, hsum, ?_⟩
  intro w hw
  rcases List.mem_append.mp hw with h | h
  · by_cases h0 : w > 0
    · have h1 := le_weightSum h h0
      have : 2 ^ (w - 1) < 2 ^ maxBitsOf ws := by omega
      have := (Nat.pow_lt_pow_iff_right (by omega : 1 < 2)).mp this
      omega
    · omega
  · simp at h; omega

theorem allBits_le {ws : List Nat} (g : GoodWeights ws) : ∀ b ∈ allBitsOf ws, b ≤ maxBitsOf ws := by
  intro b hb
  simp only [allBitsOf, bitsOf, List.mem_map] at hb
  obtain ⟨w, _, rfl⟩ := hb
  split <;> omega

/-- For good weights `build_table_from_weights` succeeds, never panics, and the resulting table
satisfies the cell invariant for all symbols. -/
theorem buildTable_good (t : DecTable) (hlen : t.weights.length ≤ 257) (g : GoodWeights t.weights) :
    ∃ ri dec, buildTableFromWeights t =
        ({ t with bits := allBitsOf t.weights, maxNumBits := maxBitsOf t.weights, decode := dec }, .ok ()) ∧
      FillInv (maxBitsOf t.weights) (allBitsOf t.weights) (allBitsOf t.weights) ri dec := by
  obtain ⟨hlt, hge, hlw1, hlw, hsum, hall⟩ := good_facts g
  have hsum32 : ¬ weightSum t.weights ≥ 2 ^ 32 := by
    have := weightSum_le g.le11
    have h11 : Gen.hufMaxNumBits = 11 := rfl
    rw [h11] at this
    have : t.weights.length * 2 ^ 11 ≤ 257 * 2 ^ 11 := Nat.mul_le_mul_right _ hlen
    omega
  have hbits : (t.weights.map fun w => if w > 0 then maxBitsOf t.weights + 1 - w else 0)
      ++ [maxBitsOf t.weights + 1 - lastWeightOf t.weights] = allBitsOf t.weights := by
    simp only [allBitsOf, bitsOf, List.map_append, List.map_cons, List.map_nil]
    have : lastWeightOf t.weights > 0 := by omega
    simp [this]
  have hany : (allBitsOf t.weights).any (fun x => decide (x > maxBitsOf t.weights)) = false := by
    rw [List.any_eq_false]
    intro b hb
    have := allBits_le g b hb
    simp; omega
  have hmb : Gen.hufMaxBitsTooHigh (maxBitsOf t.weights) Gen.hufMaxNumBits = false := by
    have := g.maxBits
    simp only [Gen.hufMaxBitsTooHigh, maxBitsOf]
    exact decide_eq_false (by omega)
  have htotal : riSum (maxBitsOf t.weights) (allBitsOf t.weights) (maxBitsOf t.weights) = 2 ^ maxBitsOf t.weights := by
    rw [riSum_total, allBitsOf, bitMass_bitsOf _ hall, hsum]
  have hri := rankIndexes_eq (maxBitsOf t.weights) (allBitsOf t.weights)
  have hri0 : rankIndexes (maxBitsOf t.weights) (allBitsOf t.weights) =
      riSum (maxBitsOf t.weights) (allBitsOf t.weights) (maxBitsOf t.weights) ::
        (List.range' 1 (maxBitsOf t.weights)).map fun i => riSum (maxBitsOf t.weights) (allBitsOf t.weights) (maxBitsOf t.weights - i) := by
    rw [hri, List.range'_succ, List.map_cons]; simp
  have inv0 : FillInv (maxBitsOf t.weights) (allBitsOf t.weights) []
      (rankIndexes (maxBitsOf t.weights) (allBitsOf t.weights))
      (resizeDecode t.decode (2 ^ maxBitsOf t.weights)) := by
    refine ⟨rankIndexes_length _ _, ?_, resizeDecode_size _ _, ?_⟩
    · intro b _ h2
      rw [rankIndexes_get _ _ h2]; simp [cellPos, countBits]
    · intro s hs; simp at hs
  obtain ⟨ri', dec', hfill, hinv⟩ := fillLoop_spec (maxBitsOf t.weights) (allBitsOf t.weights) (allBits_le g) htotal
    (allBitsOf t.weights) [] _ _ (by simp) inv0
  refine ⟨ri', dec', ?_, hinv⟩
  simp only [List.length_nil] at hfill
  unfold buildTableFromWeights
  simp only [firstTooBig_none.mpr g.le11]
  rw [if_neg hsum32, if_neg g.pos]
  have hpow : (!isPow2 (2 ^ (Nat.log2 (weightSum t.weights) + 1) - weightSum t.weights)) = false := by
    simp [g.pow]
  simp only [hpow, Bool.false_eq_true, if_false]
  have e1 : Nat.log2 (weightSum t.weights) + 1 = maxBitsOf t.weights := rfl
  have e2 : Nat.log2 (2 ^ maxBitsOf t.weights - weightSum t.weights) + 1 = lastWeightOf t.weights := rfl
  simp only [e1, e2, hbits, hmb, hany, Bool.false_eq_true, if_false]
  rw [hri0]
  simp only
  rw [if_neg (by rw [htotal, resizeDecode_size]; simp)]
  rw [← hri0, hfill]

/-- If the weights are not good, `build_table_from_weights` returns an error — the specific variant
is determined by the first check that fails — and never panics. -/
theorem buildTable_bad (t : DecTable) (hlen : t.weights.length ≤ 257) (hbad : ¬ GoodWeights t.weights) :
    ∃ e, (buildTableFromWeights t).2 = .error (.err e) ∧
      ((∃ w, e = .weightBiggerThanMaxNumBits w ∧ w ∈ t.weights ∧ w > Gen.hufMaxNumBits) ∨
       (e = .missingWeights ∧ weightSum t.weights = 0) ∨
       (e = .leftoverIsNotAPowerOf2 (2 ^ maxBitsOf t.weights - weightSum t.weights) ∧
          isPow2 (2 ^ maxBitsOf t.weights - weightSum t.weights) = false) ∨
       (e = .maxBitsTooHigh (maxBitsOf t.weights) ∧ maxBitsOf t.weights > Gen.hufMaxNumBits)) := by
  unfold buildTableFromWeights
  cases hft : firstTooBig t.weights with
  | some w =>
    have := firstTooBig_some hft
    simp only [hft]
    exact ⟨_, rfl, Or.inl ⟨w, rfl, this.1, this.2⟩⟩
  | none =>
    have hle := firstTooBig_none.mp hft
    have hsum32 : ¬ weightSum t.weights ≥ 2 ^ 32 := by
      have := weightSum_le hle
      have h11 : Gen.hufMaxNumBits = 11 := rfl
      rw [h11] at this
      have : t.weights.length * 2 ^ 11 ≤ 257 * 2 ^ 11 := Nat.mul_le_mul_right _ hlen
      omega
    simp only [hft]
    rw [if_neg hsum32]
    by_cases h0 : weightSum t.weights = 0
    · rw [if_pos h0]
      exact ⟨_, rfl, Or.inr (Or.inl ⟨rfl, h0⟩)⟩
    · rw [if_neg h0]
      by_cases hp : isPow2 (2 ^ (Nat.log2 (weightSum t.weights) + 1) - weightSum t.weights) = true
      · have hpow : (!isPow2 (2 ^ (Nat.log2 (weightSum t.weights) + 1) - weightSum t.weights)) = false := by
          simp [hp]
        simp only [hpow, Bool.false_eq_true, if_false]
        by_cases hm : Nat.log2 (weightSum t.weights) + 1 ≤ Gen.hufMaxNumBits
        · exact absurd ⟨hle, h0, hp, hm⟩ hbad
        · have : Gen.hufMaxBitsTooHigh (Nat.log2 (weightSum t.weights) + 1) Gen.hufMaxNumBits = true := by
            simp only [Gen.hufMaxBitsTooHigh]
            exact decide_eq_true (by omega)
          rw [if_pos this]
          exact ⟨_, rfl, Or.inr (Or.inr (Or.inr ⟨rfl, by simp only [maxBitsOf]; omega⟩))⟩
      · have hp' : isPow2 (2 ^ (Nat.log2 (weightSum t.weights) + 1) - weightSum t.weights) = false := by
          simpa using hp
        have hpow : (!isPow2 (2 ^ (Nat.log2 (weightSum t.weights) + 1) - weightSum t.weights)) = true := by
          simp [hp']
        simp only [hpow, if_true]
        exact ⟨_, rfl, Or.inr (Or.inr (Or.inl ⟨rfl, hp'⟩))⟩

end Zstd.Proofs.Huf
