import Zstd.Model.Huffman
/-
Bit-level lemmas for the Huffman streams: the byte packing of the encoder is inverted by the
reversed reader, the padding loop stops right after the marker bit, and the decoder's state window
(`init_state` / `next_state`) walks over the concatenated codes one symbol at a time.
-/
namespace Zstd.Proofs.Huf
open Zstd Zstd.Model.Huf Zstd.Model.Huf.Bits

/-! ### `valBE` / `bitsBE` -/

theorem valBE_acc (l : List Bool) (acc : Nat) : valBE l acc = acc * 2 ^ l.length + valBE l 0 := by
  induction l generalizing acc with
  | nil => simp [valBE]
  | cons b bs ih =>
    simp only [valBE, List.length_cons]
    rw [ih (2 * acc + _), ih (2 * 0 + _)]
    rw [Nat.pow_succ, Nat.add_mul]
    simp only [Nat.mul_zero, Nat.zero_add]
    have : 2 * acc * 2 ^ bs.length = acc * (2 ^ bs.length * 2) := by
      rw [Nat.mul_comm 2 acc, Nat.mul_assoc, Nat.mul_comm 2]
    omega

theorem valBE_append (a b : List Bool) : valBE (a ++ b) 0 = valBE a 0 * 2 ^ b.length + valBE b 0 := by
  induction a generalizing b with
  | nil => simp [valBE]
  | cons x xs ih =>
    simp only [List.cons_append, valBE]
    rw [valBE_acc, valBE_acc xs, ih, List.length_append, Nat.pow_add]
    simp only [Nat.mul_zero, Nat.zero_add]
    rw [Nat.add_mul, Nat.mul_assoc]
    omega

theorem valBE_lt (l : List Bool) : valBE l 0 < 2 ^ l.length := by
  induction l with
  | nil => simp [valBE]
  | cons b bs ih =>
    simp only [valBE, List.length_cons]
    rw [valBE_acc, Nat.pow_succ]
    have : (2 * 0 + if b = true then 1 else 0) ≤ 1 := by split <;> omega
    have h2 : (2 * 0 + if b = true then 1 else 0) * 2 ^ bs.length ≤ 1 * 2 ^ bs.length := Nat.mul_le_mul_right _ this
    omega

theorem valBE_replicate_false (k : Nat) : valBE (List.replicate k false) 0 = 0 := by
  induction k with
  | zero => rfl
  | succ k ih => simp [List.replicate_succ, valBE, ih]

theorem bitsBE_length (n v : Nat) : (bitsBE n v).length = n := by
  induction n with
  | zero => rfl
  | succ n ih => simp [bitsBE, ih]

theorem valBE_bitsBE (n v : Nat) : valBE (bitsBE n v) 0 = v % 2 ^ n := by
  induction n with
  | zero => simp [bitsBE, valBE, Nat.mod_one]
  | succ n ih =>
    simp only [bitsBE, valBE]
    rw [valBE_acc, ih, bitsBE_length, Nat.mod_pow_succ]
    have : (2 * 0 + if (v / 2 ^ n % 2 == 1) = true then 1 else 0) = v / 2 ^ n % 2 := by
      have h := Nat.mod_two_eq_zero_or_one (v / 2 ^ n)
      rcases h with h | h <;> simp [h]
    rw [this, Nat.mul_comm]; omega

/-- `n` bits requested from a bit list, with zero fill when it is shorter -/
def padVal (n : Nat) (X : List Bool) : Nat := valBE (X.take n) 0 * 2 ^ (n - X.length)

theorem padVal_lt (n : Nat) (X : List Bool) : padVal n X < 2 ^ n := by
  unfold padVal
  have h := valBE_lt (X.take n)
  rw [List.length_take] at h
  have hp := Nat.two_pow_pos (n - X.length)
  have : valBE (X.take n) 0 * 2 ^ (n - X.length) < 2 ^ (min n X.length) * 2 ^ (n - X.length) :=
    Nat.mul_lt_mul_of_pos_right h hp
  rw [← Nat.pow_add] at this
  have e : min n X.length + (n - X.length) = n := by omega
  rw [e] at this; exact this

/-- a code followed by more bits: the window starts with the code -/
theorem padVal_code (m nb c : Nat) (R : List Bool) (hnb : nb ≤ m) (hc : c < 2 ^ nb) :
    padVal m (bitsBE nb c ++ R) = c * 2 ^ (m - nb) + padVal (m - nb) R := by
  unfold padVal
  have ht : (bitsBE nb c ++ R).take m = bitsBE nb c ++ R.take (m - nb) := by
    rw [List.take_append, bitsBE_length]
    rw [List.take_of_length_le (by rw [bitsBE_length]; exact hnb)]
  rw [ht, valBE_append, valBE_bitsBE, Nat.mod_eq_of_lt hc, List.length_append, bitsBE_length,
    List.length_take, Nat.add_mul, Nat.mul_assoc, ← Nat.pow_add]
  congr 2
  · congr 1; omega
  · congr 1; omega

/-- the window after shifting out `nb` bits and shifting in the next `nb` -/
theorem padVal_shift (m nb : Nat) (R : List Bool) (hnb : nb ≤ m) :
    padVal m R = padVal (m - nb) R * 2 ^ nb + padVal nb (R.drop (m - nb)) := by
  unfold padVal
  rcases Nat.le_total R.length (m - nb) with hL | hL
  · rw [List.take_of_length_le (by omega : R.length ≤ m), List.take_of_length_le hL,
      List.drop_eq_nil_of_le hL]
    simp only [List.take_nil, valBE, Nat.zero_mul, Nat.add_zero]
    rw [Nat.mul_assoc, ← Nat.pow_add]
    congr 2; omega
  · have hm : m = (m - nb) + nb := by omega
    have ht : R.take m = R.take (m - nb) ++ (R.drop (m - nb)).take nb := by
      conv => lhs; rw [hm]
      exact List.take_add
    rw [ht, valBE_append, List.length_take, List.length_drop, Nat.add_mul, Nat.mul_assoc, ← Nat.pow_add]
    have e0 : m - nb - R.length = 0 := by omega
    have e1 : min nb (R.length - (m - nb)) + (m - R.length) = nb := by omega
    have e2 : m - R.length = nb - (R.length - (m - nb)) := by omega
    rw [e0, e1, Nat.pow_zero, Nat.mul_one, e2]

/-! ### the reader -/

/-- the reader's cached length is right -/
def ReaderOk (r : RevReader) : Prop := r.left = r.bits.length

theorem getBits_spec (r : RevReader) (h : ReaderOk r) (n : Nat) :
    r.getBits n = (padVal n r.bits,
      { bits := r.bits.drop n, left := (r.bits.drop n).length, over := r.over + (n - r.bits.length) }) := by
  unfold RevReader.getBits padVal
  unfold ReaderOk at h
  rw [h]
  by_cases hn : n ≤ r.bits.length
  · rw [if_pos hn]
    have e : n - r.bits.length = 0 := by omega
    simp only [e, Nat.pow_zero, Nat.mul_one, Nat.add_zero, List.length_drop]
  · rw [if_neg hn, List.take_of_length_le (by omega), List.drop_eq_nil_of_le (by omega)]
    simp

theorem getBits_ok (r : RevReader) (h : ReaderOk r) (n : Nat) : ReaderOk (r.getBits n).2 := by
  rw [getBits_spec r h]; rfl

/-! ### packing -/

theorem bitsBE8_valBE (b7 b6 b5 b4 b3 b2 b1 b0 : Bool) :
    bitsBE 8 (valBE [b7, b6, b5, b4, b3, b2, b1, b0] 0) = [b7, b6, b5, b4, b3, b2, b1, b0] := by
  cases b7 <;> cases b6 <;> cases b5 <;> cases b4 <;> cases b3 <;> cases b2 <;> cases b1 <;> cases b0 <;> rfl

theorem revBits_packRevAux : ∀ (r : List Bool) (acc : List Nat) (X : List Bool), r.length % 8 = 0 →
    revBitsAux (packRevAux r acc) X = revBitsAux acc (r ++ X)
  | [], _, _, _ => rfl
  | [_], _, _, h => by simp at h
  | [_, _], _, _, h => by simp at h
  | [_, _, _], _, _, h => by simp at h
  | [_, _, _, _], _, _, h => by simp at h
  | [_, _, _, _, _], _, _, h => by simp at h
  | [_, _, _, _, _, _], _, _, h => by simp at h
  | [_, _, _, _, _, _, _], _, _, h => by simp at h
  | b7 :: b6 :: b5 :: b4 :: b3 :: b2 :: b1 :: b0 :: rest, acc, X, h => by
    have h' : rest.length % 8 = 0 := by simp only [List.length_cons] at h; omega
    simp only [packRevAux]
    rw [revBits_packRevAux rest _ X h']
    simp only [revBitsAux, bitsBE8_valBE]
    simp

theorem packRevAux_length : ∀ (r : List Bool) (acc : List Nat), r.length % 8 = 0 →
    (packRevAux r acc).length = r.length / 8 + acc.length
  | [], _, _ => by simp [packRevAux]
  | [_], _, h => by simp at h
  | [_, _], _, h => by simp at h
  | [_, _, _], _, h => by simp at h
  | [_, _, _, _], _, h => by simp at h
  | [_, _, _, _, _], _, h => by simp at h
  | [_, _, _, _, _, _], _, h => by simp at h
  | [_, _, _, _, _, _, _], _, h => by simp at h
  | _ :: _ :: _ :: _ :: _ :: _ :: _ :: _ :: rest, acc, h => by
    have h' : rest.length % 8 = 0 := by simp only [List.length_cons] at h; omega
    simp only [packRevAux]
    rw [packRevAux_length rest _ h']
    simp only [List.length_cons]; omega

theorem revBits_packRev (r : List Bool) (h : r.length % 8 = 0) : revBits (packRev r) = r := by
  unfold revBits packRev
  rw [revBits_packRevAux r [] [] h]; simp [revBitsAux]

theorem packRev_length (r : List Bool) (h : r.length % 8 = 0) : 8 * (packRev r).length = r.length := by
  unfold packRev
  rw [packRevAux_length r [] h]; simp; omega

theorem finishStream_length (bits : List Bool) : (finishStream bits).length % 8 = 0 := by
  unfold finishStream
  simp only [List.length_append, List.length_replicate, List.length_cons]
  split <;> omega

/-- the reader over an encoded stream -/
theorem reader_of_stream (bits : List Bool) :
    RevReader.new (packRev (finishStream bits))
      = { bits := finishStream bits, left := (finishStream bits).length, over := 0 } := by
  unfold RevReader.new
  rw [revBits_packRev _ (finishStream_length bits), packRev_length _ (finishStream_length bits)]

/-- the padding loop: `k ≤ 7` zero bits, the marker, then the payload -/
theorem skipPadding_spec (S : List Bool) : ∀ (k fuel skipped : Nat), k + 1 ≤ fuel → skipped + k + 1 ≤ 8 →
    skipPadding fuel skipped
        { bits := List.replicate k false ++ true :: S, left := (List.replicate k false ++ true :: S).length, over := 0 }
      = (skipped + k + 1, { bits := S, left := S.length, over := 0 })
  | 0, fuel + 1, skipped, _, hs => by
    have hg := getBits_spec
      { bits := List.replicate 0 false ++ true :: S, left := (List.replicate 0 false ++ true :: S).length, over := 0 }
      rfl 1
    simp only [skipPadding, hg]
    simp [padVal, valBE]
  | k + 1, fuel + 1, skipped, hf, hs => by
    have hg := getBits_spec
      { bits := List.replicate (k + 1) false ++ true :: S,
        left := (List.replicate (k + 1) false ++ true :: S).length, over := 0 } rfl 1
    have hv : padVal 1 (List.replicate (k + 1) false ++ true :: S) = 0 := by
      simp [padVal, List.replicate_succ, valBE]
    simp only [skipPadding, hg, hv]
    have : ¬ (0 = 1 ∨ skipped + 1 > Gen.hufMaxSkip) := by
      simp only [Gen.hufMaxSkip]; omega
    rw [if_neg this]
    have h2 := skipPadding_spec S k fuel (skipped + 1) (by omega) (by omega)
    simp only [List.replicate_succ, List.cons_append, List.drop_succ_cons, List.drop_zero,
      List.length_cons, List.length_append, List.length_replicate, Nat.add_zero, Nat.zero_add] at h2 ⊢
    have e : 1 - (k + (S.length + 1) + 1) = 0 := by omega
    rw [e, h2]
    congr 1; omega
  | _, 0, _, hf, _ => by omega

/-! ### the state window -/

/-- The decoder table `tbl` decodes the code of the encoder table `t`: every cell whose index starts
with the code of `s` holds `(s, length of the code)`. -/
structure DecodesCode (tbl : DecTable) (t : EncTable) (m : Nat) : Prop where
  mb : tbl.maxNumBits = m
  size : tbl.decode.size = 2 ^ m
  m1 : 1 ≤ m
  m11 : m ≤ 11
  cells : ∀ (s c nb : Nat), t.codes[s]? = some (c, nb) → 0 < nb →
    nb ≤ m ∧ c < 2 ^ nb ∧ ∀ j, j < 2 ^ (m - nb) → tbl.decode[c * 2 ^ (m - nb) + j]? = some { symbol := s, numBits := nb }

/-- the decoder stands in front of the remaining code bits `R`: the state holds the next `m` bits
(zero filled), the reader is `m` bits ahead -/
structure Win (m : Nat) (R : List Bool) (state : Nat) (r : RevReader) : Prop where
  st : state = padVal m R
  bits : r.bits = R.drop m
  left : r.left = (R.drop m).length
  over : r.over = m - R.length

theorem Win.remaining {m : Nat} {R : List Bool} {state : Nat} {r : RevReader} (w : Win m R state r) :
    r.bitsRemaining = (R.length : Int) - (m : Int) := by
  unfold RevReader.bitsRemaining
  rw [w.left, w.over, List.length_drop]
  omega

/-- `init_state` on a reader positioned at the payload -/
theorem initState_win (tbl : DecTable) (m : Nat) (hm : tbl.maxNumBits = m) (S : List Bool) :
    Win m S (initState tbl { bits := S, left := S.length, over := 0 }).1
      (initState tbl { bits := S, left := S.length, over := 0 }).2 := by
  unfold initState
  have hg := getBits_spec { bits := S, left := S.length, over := 0 } (show ReaderOk _ from rfl) m
  rw [hm, hg]
  exact ⟨rfl, rfl, rfl, by simp⟩

/-- one symbol: the table entry under the state is the symbol whose code comes next, and
`next_state` moves the window behind that code -/
theorem step_win (tbl : DecTable) (t : EncTable) (m : Nat) (dc : DecodesCode tbl t m)
    (s c nb : Nat) (hcode : t.codes[s]? = some (c, nb)) (hnb : 0 < nb) (R : List Bool) (state : Nat) (r : RevReader)
    (w : Win m (bitsBE nb c ++ R) state r) :
    decodeSymbol tbl state = .ok s ∧
      ∃ state' r', nextState tbl state r = .ok (state', r') ∧ Win m R state' r' := by
  obtain ⟨hnbm, hc, hcells⟩ := dc.cells s c nb hcode hnb
  have hst : state = c * 2 ^ (m - nb) + padVal (m - nb) R := by rw [w.st, padVal_code m nb c R hnbm hc]
  have hq := padVal_lt (m - nb) R
  have hentry : entryAt tbl state = .ok { symbol := s, numBits := nb } := by
    unfold entryAt
    rw [hst, hcells _ hq]
  refine ⟨by unfold decodeSymbol; rw [hentry], ?_⟩
  have hrok : ReaderOk r := by unfold ReaderOk; rw [w.left, w.bits]
  have hdrop : (bitsBE nb c ++ R).drop m = R.drop (m - nb) := by
    rw [List.drop_append, bitsBE_length, List.drop_eq_nil_of_le (by rw [bitsBE_length]; exact hnbm)]
    rfl
  have hlen : (bitsBE nb c ++ R).length = nb + R.length := by rw [List.length_append, bitsBE_length]
  unfold nextState
  rw [hentry]
  simp only
  rw [if_neg (by have := dc.m11; omega), getBits_spec r hrok nb]
  refine ⟨_, _, rfl, ?_⟩
  have hbits : r.bits = R.drop (m - nb) := by rw [w.bits, hdrop]
  refine ⟨?_, ?_, ?_, ?_⟩
  · -- the new state value
    rw [dc.size, Nat.shiftLeft_eq, Nat.and_two_pow_sub_one_eq_mod,
      Nat.mod_mod_of_dvd _ (Nat.pow_dvd_pow 2 (by have := dc.m11; omega : m ≤ 64))]
    have hpow : 2 ^ m = 2 ^ (m - nb) * 2 ^ nb := by rw [← Nat.pow_add]; congr 1; omega
    have hx : state * 2 ^ nb % 2 ^ m = padVal (m - nb) R * 2 ^ nb := by
      rw [hst, Nat.add_mul, Nat.mul_assoc, ← hpow, Nat.add_comm, Nat.add_mul_mod_self_right]
      apply Nat.mod_eq_of_lt
      rw [hpow]; exact Nat.mul_lt_mul_of_pos_right hq (Nat.two_pow_pos nb)
    rw [hx, hbits, ← Nat.shiftLeft_eq, ← Nat.shiftLeft_add_eq_or_of_lt (padVal_lt nb _), Nat.shiftLeft_eq]
    exact (padVal_shift m nb R hnbm).symm
  · simp only; rw [hbits, List.drop_drop]; congr 1; omega
  · simp only; rw [hbits, List.drop_drop, List.length_drop, List.length_drop]; omega
  · simp only; rw [w.over, hbits, hlen, List.length_drop]; omega

/-! ### code bits and the loop -/

theorem codeBits_cons {t : EncTable} {s : Nat} {rest : List Nat} {bits : List Bool}
    (h : codeBits t (s :: rest) = .ok bits) :
    ∃ c nb bits', t.codes[s]? = some (c, nb) ∧ 0 < nb ∧ c < 2 ^ nb ∧ codeBits t rest = .ok bits' ∧
      bits = bitsBE nb c ++ bits' := by
  simp only [codeBits] at h
  cases hc : t.codes[s]? with
  | none => rw [hc] at h; cases h
  | some p =>
    obtain ⟨c, nb⟩ := p
    rw [hc] at h
    simp only at h
    by_cases h0 : nb = 0
    · rw [if_pos h0] at h; cases h
    · rw [if_neg h0] at h
      by_cases h1 : c ≥ 2 ^ nb
      · rw [if_pos h1] at h; cases h
      · rw [if_neg h1] at h
        cases hr : codeBits t rest with
        | error f => rw [hr] at h; cases h
        | ok bits' =>
          rw [hr] at h
          simp only [Except.ok.injEq] at h
          exact ⟨c, nb, bits', rfl, by omega, by omega, rfl, h.symm⟩

theorem codeBits_length_ge {t : EncTable} : ∀ {data : List Nat} {bits : List Bool},
    codeBits t data = .ok bits → data.length ≤ bits.length
  | [], _, _ => by simp
  | s :: rest, bits, h => by
    obtain ⟨c, nb, bits', _, hnb, _, hr, rfl⟩ := codeBits_cons h
    have := codeBits_length_ge hr
    rw [List.length_append, bitsBE_length, List.length_cons]; omega

/-- the decoding loop regenerates the symbols and stops with `bits_remaining = -max_num_bits` -/
theorem decodeLoop_spec (tbl : DecTable) (t : EncTable) (m : Nat) (dc : DecodesCode tbl t m) :
    ∀ (data : List Nat) (R : List Bool) (fuel state : Nat) (r : RevReader) (outRev : List Nat),
      codeBits t data = .ok R → data.length ≤ fuel → Win m R state r →
      ∃ r', decodeLoop tbl fuel state r outRev = .ok (r', data.reverse ++ outRev) ∧
        r'.bitsRemaining = -(m : Int)
  | [], R, fuel, state, r, outRev, hcb, _, w => by
    simp only [codeBits, Except.ok.injEq] at hcb
    subst hcb
    have hrem := w.remaining
    simp only [List.length_nil] at hrem
    refine ⟨r, ?_, by rw [hrem]; omega⟩
    cases fuel with
    | zero => simp only [decodeLoop, dc.mb]; rw [if_neg (by rw [hrem]; omega)]; simp
    | succ fuel => simp only [decodeLoop, dc.mb]; rw [if_neg (by rw [hrem]; omega)]; simp
  | s :: rest, R, fuel, state, r, outRev, hcb, hfuel, w => by
    obtain ⟨c, nb, bits', hcode, hnb, _, hr, rfl⟩ := codeBits_cons hcb
    cases fuel with
    | zero => simp at hfuel
    | succ fuel =>
      have hrem := w.remaining
      rw [List.length_append, bitsBE_length] at hrem
      obtain ⟨hsym, state', r', hnext, w'⟩ := step_win tbl t m dc s c nb hcode hnb bits' state r w
      obtain ⟨r'', hloop, hend⟩ := decodeLoop_spec tbl t m dc rest bits' fuel state' r' (s :: outRev) hr
        (by simpa using hfuel) w'
      refine ⟨r'', ?_, hend⟩
      simp only [decodeLoop, dc.mb]
      rw [if_pos (by rw [hrem]; omega), hsym]
      simp only [hnext, hloop]
      simp

/-- **One stream round trip**: whatever the stream variant (`check` = the 4-stream variant that
verifies `bits_remaining == -max_num_bits`), the decoder regenerates exactly the encoded symbols. -/
theorem decodeOneStream_encodeStream (tbl : DecTable) (t : EncTable) (m : Nat) (dc : DecodesCode tbl t m)
    (data : List Nat) (bytes : List Nat) (henc : encodeStream t data = .ok bytes) (check : Bool) (outRev : List Nat) :
    decodeOneStream tbl bytes check outRev = .ok (data.reverse ++ outRev) := by
  unfold encodeStream at henc
  cases hcb : codeBits t data with
  | error f => rw [hcb] at henc; cases henc
  | ok S =>
    rw [hcb] at henc
    simp only [Except.ok.injEq] at henc
    subst henc
    unfold decodeOneStream
    rw [reader_of_stream]
    -- the padding
    have hfin : finishStream S = List.replicate ((if S.length % 8 = 0 then 8 else 8 - S.length % 8) - 1) false ++ true :: S := rfl
    have hk : (if S.length % 8 = 0 then 8 else 8 - S.length % 8) - 1 + 1 ≤ 8 := by split <;> omega
    have hskip := skipPadding_spec S ((if S.length % 8 = 0 then 8 else 8 - S.length % 8) - 1) 9 0 (by omega) (by omega)
    rw [← hfin] at hskip
    simp only [hskip]
    rw [if_neg (by simp only [Gen.hufMaxSkip]; omega)]
    have w := initState_win tbl m dc.mb S
    obtain ⟨r', hloop, hend⟩ := decodeLoop_spec tbl t m dc data S
      (8 * (packRev (finishStream S)).length + tbl.maxNumBits + 1)
      (initState tbl { bits := S, left := S.length, over := 0 }).1
      (initState tbl { bits := S, left := S.length, over := 0 }).2 outRev hcb
      (by
        have h1 := codeBits_length_ge hcb
        rw [packRev_length _ (finishStream_length S), hfin]
        simp only [List.length_append, List.length_cons]; omega)
      w
    rw [dc.mb] at hloop
    simp only [dc.mb, hloop]
    rw [if_neg (by rw [hend]; simp)]

end Zstd.Proofs.Huf
