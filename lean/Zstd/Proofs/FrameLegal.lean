import Zstd.Proofs.DictParse
import Zstd.Proofs.FrameDecoderToVec
/-
C03 over the EXECUTABLE instance: the decoder states reachable by legal call sequences of the public
API (`Legal`), and the invariant they satisfy.

"Legal" = what the documentation allows: any calls in any order with any byte arguments, except
decoding on (`decode_blocks`, `decode_from_to`, `StreamingDecoder::read`) in a frame whose last decode
call ended in `err literals` / `err sequences` — after those the caller may drain, query, `reset`,
`decode_all`, register dictionaries.  The flag of `Legal d ok` says whether decoding on is allowed.
-/
set_option linter.unusedSectionVars false
namespace Zstd.Model
open Zstd Zstd.Proofs.DictCopy
open Zstd.Proofs.BitIO (Bytes)

/-- `Out.clean` as a Boolean -/
def Out.isClean {α : Type} : Out α → Bool
  | .err .literals => false
  | .err .sequences => false
  | _ => true

theorem Out.isClean_iff {α : Type} (o : Out α) : o.isClean = true ↔ o.clean := by
  cases o with
  | ok a => simp [Out.isClean, Out.clean]
  | fault f => simp [Out.isClean, Out.clean]
  | err e => cases e <;> simp [Out.isClean, Out.clean]

/-- decoder states reachable through the public API by legal call sequences (instance B = the
executable model).  `Legal d true`: decoding on is allowed; `Legal d false`: the current frame failed
with a poisoning error — drain / query / `reset` / `decode_all` / dictionary registration only. -/
inductive Legal : DecB → Bool → Prop
  | new : Legal {} true
  | setMax {d b} (w : Nat) : Legal d b → Legal (d.setMaxWindowSize w) b
  /-- `add_dict(Dictionary::decode_dict(raw)?)` with ANY bytes the parser accepts -/
  | addDict {d b} (raw : List Nat) (dict : Dict Blk.Scratch) : Legal d b → Bytes raw →
      Blk.decodeDict raw = .ok (some dict) → Legal (d.addDict dict) b
  | forceDict {d b} (id : Nat) : Legal d b → Legal (d.forceDict id).1 b
  | reset {d b} (s : Src) : Legal d b → Bytes s → Legal (d.reset s).1 (b || (d.reset s).2.isOk)
  | drain {d b} (op : DrainOp) : Legal d b → Legal (applyDrain d op).1 b
  | blocks {d} (s : Src) (strat : Strategy) : Legal d true → Bytes s →
      Legal (d.decodeBlocks s strat).1 (d.decodeBlocks s strat).2.isClean
  | fromTo {d} (s : Src) (n : Nat) : Legal d true → Bytes s →
      Legal (d.decodeFromTo s n).1 (d.decodeFromTo s n).2.isClean
  | sread {d} (s : Src) (n : Nat) : Legal d true → Bytes s →
      Legal (streamingRead d s n).1 (streamingRead d s n).2.isClean
  | all {d b} (s : Src) (room : Nat) : Legal d b → Bytes s →
      Legal (d.decodeAll s room).1 (b && (d.decodeAll s room).2.isClean)
  | allToVec {d b} (s : Src) (vec : Array Nat) (room : Nat) : Legal d b → Bytes s →
      Legal (d.decodeAllToVec s vec room).1 (b && (d.decodeAll s room).2.isClean)

theorem Decoder.forceDict_entWF (d : DecB) (id : Nat) :
    (d.dictsWF → (d.forceDict id).1.dictsWF) ∧ (d.entWF → (d.forceDict id).1.entWF) := by
  unfold Decoder.forceDict
  cases hst : d.state with
  | none => exact ⟨fun h => h, fun h => h⟩
  | some st =>
    simp only
    cases hf : d.dicts.find? (fun x => x.id = id) with
    | none => exact ⟨fun h => h, fun h => h⟩
    | some dict =>
      refine ⟨fun h => h, fun h => Decoder.entWF.setState h.2 _ ?_⟩
      exact h.2 dict (List.mem_of_find?_eq_some hf)

/-- **the invariant of every legally reachable decoder state**: the registered dictionaries are well
formed, and — unless the current frame failed with a poisoning error — so is the frame state -/
theorem Legal.inv {d : DecB} {b : Bool} (h : Legal d b) : d.dictsWF ∧ (b = true → d.entWF) := by
  induction h with
  | new => exact ⟨fun _ h => (nomatch h), fun _ => ⟨fun _ h => (nomatch h), fun _ h => (nomatch h)⟩⟩
  | setMax w _ ih => exact ⟨ih.1, fun hb => ⟨(ih.2 hb).1, ih.1⟩⟩
  | addDict raw dict _ hb hd ih =>
    exact ⟨Decoder.addDict_dictsWF _ dict ih.1 (decodeDict_wf hb hd),
      fun hbt => Decoder.addDict_entWF _ dict (ih.2 hbt) (decodeDict_wf hb hd)⟩
  | forceDict id _ ih => exact ⟨(Decoder.forceDict_entWF _ id).1 ih.1, fun hb => (Decoder.forceDict_entWF _ id).2 (ih.2 hb)⟩
  | @reset d b s _ hs ih =>
    have hr := Decoder.reset_noFault d s ih.1
    refine ⟨hr.1, fun hb => ?_⟩
    cases hbb : b with
    | true => exact hr.2.2.1 (ih.2 hbb)
    | false =>
      rw [hbb] at hb
      simp only [Bool.false_or] at hb
      cases ho : (d.reset s).2 with
      | ok rest => exact hr.2.2.2 rest ho
      | err e => rw [ho] at hb; cases hb
      | fault f => rw [ho] at hb; cases hb
  | drain op _ ih => exact ⟨applyDrain_dictsWF _ op ih.1, fun hb => applyDrain_entWF _ op (ih.2 hb)⟩
  | @blocks d s strat _ hs ih =>
    have h := Decoder.decodeBlocks_noFault d s strat (ih.2 rfl) hs
    exact ⟨h.2.1, fun hb => h.1 ((Out.isClean_iff _).mp hb)⟩
  | @fromTo d s n _ hs ih =>
    have h := Decoder.decodeFromTo_noFault d s n (ih.2 rfl) hs
    exact ⟨h.2.1, fun hb => h.1 ((Out.isClean_iff _).mp hb)⟩
  | @sread d s n _ hs ih =>
    have h := streamingRead_noFault d s n (ih.2 rfl) hs
    exact ⟨h.2.1, fun hb => h.1 ((Out.isClean_iff _).mp hb)⟩
  | @all d b s room _ hs ih =>
    have h := decodeAllLoop_noFault (s.length + 1) d s room #[] ih.1 hs
    refine ⟨h.1, fun hb => ?_⟩
    simp only [Bool.and_eq_true] at hb
    exact h.2.2 (ih.2 hb.1) ((Out.isClean_iff _).mp hb.2)
  | @allToVec d b s vec room _ hs ih =>
    have h := decodeAllLoop_noFault (s.length + 1) d s room #[] ih.1 hs
    have e : (d.decodeAllToVec s vec room).1 = (d.decodeAll s room).1 := by
      rw [Decoder.decodeAllToVec_eq]
      cases hd : d.decodeAll s room with
      | mk d' o => cases o <;> rfl
    rw [e]
    refine ⟨h.1, fun hb => ?_⟩
    simp only [Bool.and_eq_true] at hb
    exact h.2.2 (ih.2 hb.1) ((Out.isClean_iff _).mp hb.2)

end Zstd.Model
