import Zstd.Model.RingBuffer
/-
Helper lemmas for C04, layer 1: checked arithmetic, raw memory (`rd`/`wr`/`readN`/`writeL`),
`next_power_of_two`, and `copy_bytes_overshooting`.
-/
namespace Zstd.Model
open Zstd

theorem ok_bind {ε α β} (a : α) (f : α → Except ε β) : (Except.ok a >>= f) = f a := rfl
theorem error_bind {ε α β} (e : ε) (f : α → Except ε β) : (Except.error e >>= f) = Except.error e := rfl
theorem pure_eq_ok {ε α} (a : α) : (pure a : Except ε α) = Except.ok a := rfl

theorem usub_ok {site : String} {a b : Nat} (h : b ≤ a) : usub site a b = .ok (a - b) := by
  simp [usub, h]

theorem check_ok {c : Prop} [Decidable c] {site : String} (h : c) : check c site = .ok () := by
  simp [check, h]

theorem check_err {c : Prop} [Decidable c] {site : String} (h : ¬ c) : check c site = .error (.assert site) := by
  simp [check, h]

theorem umod_ok {site : String} {x cap : Nat} (h : 0 < cap) : umod site x cap = .ok (x % cap) := by
  have : cap ≠ 0 := by omega
  simp [umod, this]

theorem umod_zero {site : String} {x cap : Nat} (h : cap = 0) : umod site x cap = .error (.divZero site) := by
  simp [umod, h]

/-! ### the guard operators extracted from the source are the ones the proofs are about -/

theorem gen_cboOneChunkMin (a b : Nat) : (Gen.ringCboOneChunkMin a b = true) = (a ≥ b) := by
  simp [Gen.ringCboOneChunkMin]
theorem gen_cboOneChunkN (a b : Nat) : (Gen.ringCboOneChunkN a b = true) = (a ≤ b) := by
  simp [Gen.ringCboOneChunkN]
theorem gen_cboMultiMin (a b : Nat) : (Gen.ringCboMultiMin a b = true) = (a ≥ b) := by
  simp [Gen.ringCboMultiMin]
theorem gen_reserveEnough (a b : Nat) : (Gen.ringReserveEnough a b = true) = (a ≥ b) := by
  simp [Gen.ringReserveEnough]
theorem gen_efwuCase1 (a b : Nat) : (Gen.ringEfwuCase1 a b = true) = (a < b) := by
  simp [Gen.ringEfwuCase1]
theorem gen_efwuCase2 (a b : Nat) : (Gen.ringEfwuCase2 a b = true) = (a > b) := by
  simp [Gen.ringEfwuCase2]
theorem gen_efwuTailSplit (a b : Nat) : (Gen.ringEfwuTailSplit a b = true) = (a < b) := by
  simp [Gen.ringEfwuTailSplit]
theorem gen_efwuStartSplit (a b : Nat) : (Gen.ringEfwuStartSplit a b = true) = (a < b) := by
  simp [Gen.ringEfwuStartSplit]

/-- the one rewriting lemma for wrap-around: `(x + n) % cap` as the code computes it -/
theorem wrap_eq {x n cap : Nat} (hx : x < cap) (hn : n ≤ cap) :
    (x + n) % cap = if x + n < cap then x + n else x + n - cap := by
  split
  · exact Nat.mod_eq_of_lt ‹_›
  · rw [Nat.mod_eq_sub_mod (by omega), Nat.mod_eq_of_lt (by omega)]

/-! ### next_power_of_two -/

theorem npow2Go_ge (n : Nat) : ∀ fuel p, n ≤ p * 2 ^ fuel → n ≤ npow2Go n fuel p := by
  intro fuel
  induction fuel with
  | zero => intro p h; simpa [npow2Go] using h
  | succ f ih =>
    intro p h
    unfold npow2Go
    split
    · assumption
    · apply ih
      rw [Nat.pow_succ] at h
      calc n ≤ p * (2 ^ f * 2) := h
        _ = 2 * p * 2 ^ f := by rw [Nat.mul_comm (2 ^ f) 2, ← Nat.mul_assoc, Nat.mul_comm p 2]

theorem npow2Go_lt (n : Nat) : ∀ fuel p, 0 < p → (p = 1 ∨ p < 2 * n) → (npow2Go n fuel p = 1 ∨ npow2Go n fuel p < 2 * n) := by
  intro fuel
  induction fuel with
  | zero => intro p _ h; simpa [npow2Go] using h
  | succ f ih =>
    intro p hp h
    unfold npow2Go
    split
    · exact h
    · apply ih
      · omega
      · right; omega

theorem le_npow2 (n : Nat) : n ≤ npow2 n := by
  unfold npow2
  apply npow2Go_ge
  have : n < 2 ^ n := Nat.lt_two_pow_self
  omega

theorem npow2_lt (n : Nat) (h : 0 < n) : npow2 n < 2 * n := by
  unfold npow2
  rcases npow2Go_lt n n 1 (by omega) (Or.inl rfl) with h1 | h1 <;> omega

theorem npow2_pos (n : Nat) : 0 < npow2 n := by
  have := le_npow2 n
  rcases Nat.eq_zero_or_pos n with h | h
  · subst h; decide
  · omega

theorem nextMultipleOf_ge (n c : Nat) : n ≤ nextMultipleOf n c := by
  unfold nextMultipleOf; split <;> omega

theorem nextMultipleOf_dvd (n c : Nat) (hc : 0 < c) : nextMultipleOf n c % c = 0 := by
  unfold nextMultipleOf
  split
  · assumption
  · have h1 : n % c < c := Nat.mod_lt _ hc
    have : n + (c - n % c) = c * (n / c + 1) := by
      have := Nat.div_add_mod n c
      rw [Nat.mul_add, Nat.mul_one]; omega
    rw [this]; exact Nat.mul_mod_right _ _

/-! ### raw memory -/

namespace Mem

theorem cell_lt {m : Mem} {i : Nat} {b : Byte} (h : m.cell i = some b) : i < m.size := by
  unfold cell at h
  rw [Array.getD_eq_getD_getElem?] at h
  by_cases hi : i < m.size
  · exact hi
  · simp [Array.getElem?_eq_none (Nat.le_of_not_lt hi)] at h

theorem cell_of_ge {m : Mem} {i : Nat} (h : m.size ≤ i) : m.cell i = none := by
  unfold cell
  rw [Array.getD_eq_getD_getElem?, Array.getElem?_eq_none h]; rfl

theorem cell_eq_getElem {m : Mem} {i : Nat} (h : i < m.size) : m.cell i = m[i] := by
  unfold cell
  rw [Array.getD_eq_getD_getElem?, Array.getElem?_eq_getElem h]; rfl

theorem val_of_cell {m : Mem} {i : Nat} {b : Byte} (h : m.cell i = some b) : m.val i = b := by
  simp [val, h]

theorem cell_eq_some_val {m : Mem} {i : Nat} (h : (m.cell i).isSome) : m.cell i = some (m.val i) := by
  unfold val
  cases hc : m.cell i with
  | none => simp [hc] at h
  | some b => rfl

theorem cell_fresh (n i : Nat) : (fresh n).cell i = none := by
  unfold cell fresh
  rw [Array.getD_eq_getD_getElem?, Array.getElem?_replicate]; split <;> rfl

theorem size_fresh (n : Nat) : (fresh n).size = n := by simp [fresh]

theorem rd_ok {m : Mem} {site : String} {i : Nat} {b : Byte} (h : m.cell i = some b) :
    m.rd site i = .ok b := by
  have hi := cell_lt h
  rw [cell_eq_getElem hi] at h
  simp [rd, hi, h]

theorem wr_ok {m : Mem} {site : String} {i : Nat} {b : Byte} (h : i < m.size) :
    ∃ m', m.wr site i b = .ok m' ∧ m'.size = m.size ∧
      ∀ j, m'.cell j = if j = i then some b else m.cell j := by
  refine ⟨m.set i (some b) h, by simp [wr, h], by simp, ?_⟩
  intro j
  unfold cell
  rw [Array.getD_eq_getD_getElem?, Array.getD_eq_getD_getElem?, Array.getElem?_set]
  by_cases hji : j = i
  · subst hji; simp
  · have : ¬ i = j := fun h => hji h.symm
    simp [this, hji]

/-- the values of `n` cells from `off` on, as the specification sees them -/
def vals (m : Mem) (off n : Nat) : List Byte := (List.range n).map (fun i => m.val (off + i))

theorem vals_length (m : Mem) (off n : Nat) : (m.vals off n).length = n := by simp [vals]

theorem vals_succ (m : Mem) (off n : Nat) : m.vals off (n + 1) = m.val off :: m.vals (off + 1) n := by
  simp only [vals, List.range_succ_eq_map, List.map_cons, List.map_map, Nat.add_zero]
  congr 1
  apply List.map_congr_left
  intro i _
  simp only [Function.comp]
  congr 1; omega

theorem getElem_vals {m : Mem} {off n i : Nat} (h : i < (m.vals off n).length) :
    (m.vals off n)[i] = m.val (off + i) := by
  simp [vals]

theorem getD_vals {m : Mem} {off n i : Nat} (h : i < n) : (m.vals off n).getD i 0 = m.val (off + i) := by
  simp [vals, List.getD_eq_getElem?_getD, h]

/-- reading an initialised region inside the allocation succeeds and returns its values -/
theorem readN_ok {m : Mem} {site : String} : ∀ {n off : Nat},
    (∀ i, i < n → (m.cell (off + i)).isSome) → m.readN site off n = .ok (m.vals off n)
  | 0, off, _ => by simp [readN, vals]
  | n + 1, off, h => by
    have h0 := cell_eq_some_val (h 0 (by omega))
    rw [Nat.add_zero] at h0
    have ih := readN_ok (m := m) (site := site) (n := n) (off := off + 1)
      (fun i hi => by have := h (i + 1) (by omega); rwa [show off + (i + 1) = off + 1 + i by omega] at this)
    simp only [readN, rd_ok h0, ih, vals_succ]

/-- conversely a successful read only touched initialised cells inside the allocation -/
theorem readN_init {m : Mem} {site : String} : ∀ {n off : Nat} {bs : List Byte},
    m.readN site off n = .ok bs → ∀ i, i < n → (m.cell (off + i)).isSome
  | 0, _, _, _ => by intro i hi; omega
  | n + 1, off, bs, h => by
    intro i hi
    simp only [readN] at h
    split at h
    · cases h
    · rename_i b hb
      split at h
      · cases h
      · rename_i bs' hbs
        rcases Nat.eq_zero_or_pos i with h0 | h0
        · subst h0
          simp only [rd] at hb
          split at hb
          · rename_i hlt
            split at hb
            · rename_i b' hb'
              rw [Nat.add_zero, cell_eq_getElem hlt, hb']; rfl
            · cases hb
          · cases hb
        · have := readN_init hbs (i - 1) (by omega)
          rwa [show off + 1 + (i - 1) = off + i by omega] at this

/-- writing a list inside the allocation succeeds; cells outside the written range are unchanged -/
theorem writeL_ok {site : String} : ∀ {l : List Byte} {m : Mem} {off : Nat},
    off + l.length ≤ m.size →
    ∃ m', writeL site m off l = .ok m' ∧ m'.size = m.size ∧
      ∀ j, m'.cell j = if off ≤ j ∧ j < off + l.length then some (l.getD (j - off) 0) else m.cell j
  | [], m, off, _ => ⟨m, rfl, rfl, fun j => by simp; omega⟩
  | b :: bs, m, off, h => by
    simp only [List.length_cons] at h
    obtain ⟨m1, h1, hs1, hc1⟩ := wr_ok (m := m) (site := site) (i := off) (b := b) (by omega)
    obtain ⟨m2, h2, hs2, hc2⟩ := writeL_ok (site := site) (l := bs) (m := m1) (off := off + 1) (by omega)
    refine ⟨m2, by simp only [writeL, h1, h2], by omega, ?_⟩
    intro j
    rw [hc2 j, hc1 j]
    simp only [List.length_cons]
    by_cases hj : j = off
    · subst hj
      have : ¬ (j + 1 ≤ j ∧ j < j + 1 + bs.length) := by omega
      simp [this]
    · by_cases hr : off + 1 ≤ j ∧ j < off + 1 + bs.length
      · have hr' : off ≤ j ∧ j < off + (bs.length + 1) := by omega
        simp only [hr, hr', and_self, ↓reduceIte]
        have : j - off = (j - (off + 1)) + 1 := by omega
        rw [this, List.getD_cons_succ]
      · have hr' : ¬ (off ≤ j ∧ j < off + (bs.length + 1)) := by omega
        simp [hr, hr', hj]

/-- a write that succeeds stayed inside the allocation -/
theorem writeL_bound {site : String} : ∀ {l : List Byte} {m m' : Mem} {off : Nat},
    writeL site m off l = .ok m' → l = [] ∨ off + l.length ≤ m.size
  | [], _, _, _, _ => Or.inl rfl
  | b :: bs, m, m', off, h => by
    right
    simp only [writeL, wr] at h
    split at h
    · cases h
    · rename_i m1 h1
      split at h1
      · rename_i hlt
        cases h1
        rcases writeL_bound h with h' | h'
        · subst h'; simp; omega
        · simp at h' ⊢; omega
      · cases h1

end Mem

end Zstd.Model
