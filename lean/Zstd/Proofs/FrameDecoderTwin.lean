import Zstd.Proofs.FrameDecoderSched
/-
Schedule independence (C06): a decoder that has been drained in any way and its "never drained"
twin decode every block identically; lifted to `decode_blocks` and to driver programs.
-/
set_option linter.unusedSectionVars false
namespace Zstd.Model
open Zstd

variable {σ : Type} [BlockDec σ] [BlockContract σ]

theorem DBuf.twin_push (d x : Array Nat) (b : DBuf) (y : Array Nat) :
    (b.twin d x).push y = (b.push y).twin d x := by
  simp [DBuf.twin, DBuf.push, Array.append_assoc]

theorem DBuf.twin_repeat (d x : Array Nat) (b : DBuf) (off ml : Nat) (h : off ≤ b.content.size) :
    (b.twin d x).repeat off ml = .ok (DBuf.twin d x { b with content := copyWithin ml off b.content, totalOut := b.totalOut + ml }) ∧
    b.repeat off ml = .ok { b with content := copyWithin ml off b.content, totalOut := b.totalOut + ml } := by
  have h1 := DBuf.repeat_drop { b with hashed := x } d b.content off ml h
  have h2 := DBuf.repeat_drop b d b.content off ml h
  exact ⟨h1.1, by simpa using h2.2⟩

/-- `executeSequences_drop`, with the hasher field of the twin arbitrary -/
theorem executeSequences_twin (W : Nat) (d x : Array Nat) (seqs : List Spec.Seq) (lits : List Nat)
    (h : Nat × Nat × Nat) (q : Nat) (b : DBuf)
    (hW : W ≤ b.content.size) (hoff : ∀ o ∈ resolvedOffsets seqs h, o ≤ W) :
    executeSequences seqs lits h q (b.twin d x) =
      ((((executeSequences seqs lits h q b).1.1).twin d x, (executeSequences seqs lits h q b).1.2),
        (executeSequences seqs lits h q b).2) := by
  induction seqs generalizing lits h q b with
  | nil =>
    simp only [executeSequences]
    split
    · rfl
    · split
      · rfl
      · simp only [DBuf.twin_push]
  | cons s rest ih =>
    simp only [executeSequences]
    split
    · rfl
    · split
      · rfl
      · have hb1 : (if s.ll > 0 then (b.twin d x).push (lits.take s.ll).toArray else b.twin d x)
            = (if s.ll > 0 then b.push (lits.take s.ll).toArray else b).twin d x := by
          split
          · exact DBuf.twin_push _ _ _ _
          · rfl
        rw [hb1]
        generalize hb1' : (if s.ll > 0 then b.push (lits.take s.ll).toArray else b) = b1
        have hW1 : W ≤ b1.content.size := by
          rw [← hb1']; split
          · simp only [DBuf.push, Array.size_append]; omega
          · exact hW
        cases hdo : doOffsetHistory s.ov s.ll h with
        | error f => rfl
        | ok r =>
          obtain ⟨actual, h'⟩ := r
          simp only
          have hoff' : actual ≤ W ∧ ∀ o ∈ resolvedOffsets rest h', o ≤ W := by
            simp only [resolvedOffsets, hdo] at hoff
            exact ⟨hoff actual (List.mem_cons_self), fun o ho => hoff o (List.mem_cons_of_mem _ ho)⟩
          split
          · rfl
          · by_cases hml : s.ml > 0
            · simp only [hml, if_true]
              obtain ⟨e1, e2⟩ := DBuf.twin_repeat d x b1 actual s.ml (by omega)
              rw [e1, e2]
              exact ih _ _ _ _ (by simp only [copyWithin_size]; omega) hoff'.2
            · simp only [hml, if_false]
              exact ih _ _ _ _ hW1 hoff'.2

theorem decompressBlock_twin (W : Nat) (d x : Array Nat) (content : List Nat) (e : Spec.Entropy) (b : DBuf)
    (hW : W ≤ b.content.size) (hoff : ∀ o ∈ blockOffsets content e, o ≤ W) :
    decompressBlock content e (b.twin d x) =
      (((decompressBlock content e b).1.1.twin d x, (decompressBlock content e b).1.2), (decompressBlock content e b).2) := by
  unfold decompressBlock
  unfold blockOffsets at hoff
  cases hlit : decodeLiteralsM content e.huf with
  | error er => rfl
  | ok r =>
    obtain ⟨lits, used, huf, hdr⟩ := r
    simp only [hlit] at hoff ⊢
    cases hcnt : Spec.parseSeqCount (content.drop used) with
    | none => rfl
    | some r =>
      obtain ⟨n, u⟩ := r
      simp only [hcnt] at hoff ⊢
      by_cases hn : n = 0
      · simp only [hn, if_true]
        generalize (if (content.drop used).headD 0 = 0 then 1 else 2) = hdrn
        by_cases hx : (content.drop used).length > hdrn
        · simp only [hx, if_true]
        · simp only [hx, if_false, DBuf.twin_push]
      · simp only [hn, if_false] at hoff ⊢
        cases hseq : decodeSequencesM (content.drop used) { e with huf := huf } with
        | error er => rfl
        | ok r =>
          obtain ⟨seqs, e'⟩ := r
          simp only [hseq] at hoff ⊢
          rw [executeSequences_twin W d x seqs lits _ 0 b hW hoff]

def FState.twin (d x : Array Nat) (st : FState σ) : FState σ := { st with buf := st.buf.twin d x }

theorem blockBody_twin (W : Nat) (d x : Array Nat) (st : FState σ) (bh : BHeader) (body : List Nat)
    (hW : W ≤ st.buf.content.size) (hoff : bh.btype ≠ 1 → bh.btype ≠ 0 → ∀ o ∈ BlockDec.offsets body st.entropy, o ≤ W) :
    blockBody (st.twin d x) bh body = ((blockBody st bh body).1.twin d x, (blockBody st bh body).2) := by
  simp only [blockBody]
  split
  · simp [FState.twin, DBuf.twin, Array.append_assoc]
  · split
    · simp [FState.twin, DBuf.twin, Array.append_assoc]
    · rename_i h1 h0
      have := BlockContract.twin W d x body st.entropy st.buf hW (hoff h1 h0)
      simp only [FState.twin] at this ⊢
      rw [this]
      cases hd : BlockDec.run body st.entropy st.buf with
      | mk p o =>
        obtain ⟨buf, e⟩ := p
        cases o with
        | ok u => rfl
        | err er => rfl
        | fault f => rfl

/-- offsets of the block at the front of `s` ([] unless it is a complete compressed block) -/
def nextBlockOffsets (st : FState σ) (s : Src) : List Nat :=
  if s.length < 3 then []
  else match parseBlockHeader (s.getD 0 0) (s.getD 1 0) (s.getD 2 0) with
    | .error _ => []
    | .ok bh =>
      if s.length < 3 + bh.contentSize ∨ bh.btype = 1 ∨ bh.btype = 0 then []
      else BlockDec.offsets ((s.drop 3).take bh.contentSize) st.entropy

/-- `block_effect_local`: one block on the drained buffer and on its never-drained twin — same
outcome, same bytes appended, same entropy state, same counters — provided the block's offsets
stay within `W` and at least `W` bytes are retained -/
theorem decodeOneBlock_twin (W : Nat) (d x : Array Nat) (st : FState σ) (s : Src)
    (hW : W ≤ st.buf.content.size) (hoff : ∀ o ∈ nextBlockOffsets st s, o ≤ W) :
    decodeOneBlock (st.twin d x) s = ((decodeOneBlock st s).1.twin d x, (decodeOneBlock st s).2) := by
  rw [decodeOneBlock_eq, decodeOneBlock_eq]
  unfold nextBlockOffsets at hoff
  split
  · rfl
  · rename_i h3
    rw [if_neg h3] at hoff
    cases hp : parseBlockHeader (s.getD 0 0) (s.getD 1 0) (s.getD 2 0) with
    | error e => rfl
    | ok bh =>
      simp only [hp] at hoff ⊢
      split
      · rfl
      · rename_i hlen
        have := blockBody_twin W d x st bh ((s.drop 3).take bh.contentSize) hW (by
          intro h1 h0
          rw [if_neg (by simp [hlen, h1, h0])] at hoff
          exact hoff)
        rw [this]


/-- every block the loop decodes on this source keeps its offsets within `W` -/
def LoopOffsetsOk (W : Nat) (strat : Strategy) (a c : Nat) : Nat → FState σ → Src → Prop
  | 0, _, _ => True
  | fuel + 1, st, s =>
    (∀ o ∈ nextBlockOffsets st s, o ≤ W) ∧
    match decodeOneBlock st s with
    | (st1, .ok (bh, s1)) =>
      if bh.last then True else if stratStop strat a c st1 then True else LoopOffsetsOk W strat a c fuel st1 s1
    | _ => True

theorem stratStop_twin (strat : Strategy) (a c : Nat) (d x : Array Nat) (st1 : FState σ) :
    stratStop strat (a + d.size) c (st1.twin d x) = stratStop strat a c st1 := by
  cases strat with
  | all => rfl
  | uptoBlocks n => rfl
  | uptoBytes n =>
    simp only [stratStop, FState.twin, DBuf.twin, Array.size_append]
    congr 1
    apply propext
    omega

theorem decodeBlocksLoop_twin (W : Nat) (d x : Array Nat) (strat : Strategy) (a c fuel : Nat) (st : FState σ) (s : Src)
    (hW : W ≤ st.buf.content.size) (hok : LoopOffsetsOk W strat a c fuel st s) :
    decodeBlocksLoop strat (a + d.size) c fuel (st.twin d x) s =
      ((decodeBlocksLoop strat a c fuel st s).1.twin d x, (decodeBlocksLoop strat a c fuel st s).2) := by
  induction fuel generalizing st s with
  | zero => rfl
  | succ fuel ih =>
    simp only [LoopOffsetsOk] at hok
    rw [decodeBlocksLoop_succ, decodeBlocksLoop_succ, decodeOneBlock_twin W d x st s hW hok.1]
    have hb := decodeOneBlock_step st s
    cases hd : decodeOneBlock st s with
    | mk st1 o =>
      rw [hd] at hb
      cases o with
      | err e => rfl
      | fault f => rfl
      | ok p =>
        obtain ⟨bh, s1⟩ := p
        have hok2 := hok.2
        rw [hd] at hok2
        simp only at hok2 ⊢
        by_cases hl : bh.last
        · simp only [hl, if_true]
          show (if (st1.twin d x).header.checksumFlag = true then _ else _) = _
          have : (st1.twin d x).header = st1.header := rfl
          rw [this]
          split
          · split <;> rfl
          · rfl
        · simp only [hl, Bool.false_eq_true, if_false] at hok2 ⊢
          rw [stratStop_twin]
          by_cases hs : stratStop strat a c st1
          · simp only [hs, if_true]
          · simp only [hs, Bool.false_eq_true, if_false] at hok2 ⊢
            obtain ⟨y, hy, -⟩ := hb.appends
            exact ih st1 s1 (by rw [hy.size]; omega) hok2


/-- `dF` is the never-drained twin of `dD`: same decoder, but everything `dD` has handed out
(= `hashed`, by C08) is still in front of the buffer -/
def IsTwin (dD dF : Decoder σ) : Prop :=
  dF.dicts = dD.dicts ∧ dF.maxWindow = dD.maxWindow ∧
  ((dD.state = none ∧ dF.state = none) ∨
   ∃ st, dD.state = some st ∧ dF.state = some (st.twin st.buf.hashed #[]))

/-- the retention invariant: nothing was drained yet, or at least a window is still buffered -/
def Retains (d : Decoder σ) : Prop :=
  match d.state with
  | none => True
  | some st => st.buf.hashed = #[] ∨ st.buf.window ≤ st.buf.content.size

theorem FState.twin_take (st : FState σ) (k : Nat) :
    ({ st with buf := (st.buf.take k).2 } : FState σ).twin (st.buf.take k).2.hashed #[] = st.twin st.buf.hashed #[] := by
  simp only [FState.twin, DBuf.twin]
  congr 2
  rw [DBuf.take_hashed, Array.append_assoc, DBuf.take_partition]

/-- drains do not change the twin -/
theorem IsTwin.drain {dD dF : Decoder σ} (h : IsTwin dD dF) (op : DrainOp) : IsTwin (applyDrain dD op).1 dF := by
  rcases applyDrain_take dD op with ⟨hn, he⟩ | ⟨st, k, hs, hk, he⟩
  · rw [he]; exact h
  · rw [he]
    refine ⟨h.1, h.2.1, Or.inr ⟨_, rfl, ?_⟩⟩
    rcases h.2.2 with ⟨hn, -⟩ | ⟨st', hs', hf⟩
    · rw [hs] at hn; cases hn
    · rw [hs] at hs'; cases hs'
      rw [hf, FState.twin_take]

theorem Retains.drain {d : Decoder σ} (h : Retains d) (op : DrainOp) (hnd : d.blocksDone = false) :
    Retains (applyDrain d op).1 := by
  have hr := applyDrain_retains d op hnd
  rcases applyDrain_take d op with ⟨hn, he⟩ | ⟨st, k, hs, hk, he⟩
  · rw [he]; exact h
  · simp only [Retains, hs] at h
    rw [he] at hr ⊢
    simp only [Retains, Decoder.window, Decoder.content, hs, DBuf.take_window] at hr ⊢
    rcases h with h | h
    · by_cases hc : st.buf.window ≤ st.buf.content.size
      · right; omega
      · left
        have hts := DBuf.take_content_size st.buf k
        have : k = 0 := by omega
        subst this
        rw [DBuf.take_zero]; exact h
    · right; omega

theorem FState.twin_self (st : FState σ) (h : st.buf.hashed = #[]) : st.twin st.buf.hashed #[] = st := by
  obtain ⟨hd, fin, bc, br, cs, ud, en, ⟨c, di, w, t, hsh⟩⟩ := st
  simp only at h
  subst h
  simp [FState.twin, DBuf.twin]

/-- `decode_blocks` on the decoder and on its never-drained twin: same outcome (value, error and
remaining source), and the results are twins again — for every strategy, provided the retention
invariant holds and the offsets of the blocks decoded stay within the window -/
theorem IsTwin.decodeBlocks {dD dF : Decoder σ} (h : IsTwin dD dF) (hr : Retains dD) (s : Src) (strat : Strategy)
    (hoff : ∀ st, dD.state = some st →
      LoopOffsetsOk st.buf.window strat st.buf.content.size st.blockCounter (s.length + 1) st s) :
    (dF.decodeBlocks s strat).2 = (dD.decodeBlocks s strat).2 ∧
    IsTwin (dD.decodeBlocks s strat).1 (dF.decodeBlocks s strat).1 ∧ Retains (dD.decodeBlocks s strat).1 := by
  rcases h.2.2 with ⟨hn, hfn⟩ | ⟨st, hs, hf⟩
  · have e1 : dD.decodeBlocks s strat = (dD, .err .notInitialized) := by simp only [Decoder.decodeBlocks, hn]
    have e2 : dF.decodeBlocks s strat = (dF, .err .notInitialized) := by simp only [Decoder.decodeBlocks, hfn]
    rw [e1, e2]
    exact ⟨rfl, h, by simp [Retains, hn]⟩
  · rw [Decoder.decodeBlocks_some dD st s strat hs, Decoder.decodeBlocks_some dF _ s strat hf]
    simp only [Retains, hs] at hr
    have hstep := decodeBlocksLoop_step strat st.buf.content.size st.blockCounter (s.length + 1) st s
    obtain ⟨y, hy⟩ := hstep.appends
    have hret : Retains ({ dD with state := some (decodeBlocksLoop strat st.buf.content.size st.blockCounter (s.length + 1) st s).1 } : Decoder σ) := by
      simp only [Retains]
      rcases hr with hr | hr
      · left; rw [hy.hashed]; exact hr
      · right; rw [hy.window, hy.size]; omega
    rcases hr with hr | hr
    · -- nothing drained yet: the twin is the decoder itself
      rw [FState.twin_self st hr]
      refine ⟨rfl, ⟨h.1, h.2.1, Or.inr ⟨_, rfl, ?_⟩⟩, hret⟩
      rw [FState.twin_self _ (by rw [hy.hashed]; exact hr)]
    · have key := decodeBlocksLoop_twin st.buf.window st.buf.hashed #[] strat st.buf.content.size st.blockCounter
        (s.length + 1) st s hr (hoff st hs)
      have e1 : (st.twin st.buf.hashed #[]).buf.content.size = st.buf.content.size + st.buf.hashed.size := by
        simp only [FState.twin, DBuf.twin, Array.size_append]; omega
      have e2 : (st.twin st.buf.hashed #[]).blockCounter = st.blockCounter := rfl
      rw [e1, e2, key]
      refine ⟨rfl, ⟨h.1, h.2.1, Or.inr ⟨_, rfl, ?_⟩⟩, hret⟩
      simp only [hy.hashed]


/-! ### driver programs over one frame (source threaded through the decode calls) -/

inductive SOp where
  | drain (o : DrainOp)
  | blocks (strat : Strategy)

/-- run a program: `decode_blocks` calls continue where the previous one stopped; the run stops at
the first decode error.  Result: decoder, remaining source, bytes delivered (in order), and the
error that stopped the run, if any -/
def runSched (d : Decoder σ) (s : Src) : List SOp → Decoder σ × Src × Array Nat × Option DErr
  | [] => (d, s, #[], none)
  | .drain o :: ops =>
    let r := runSched (applyDrain d o).1 s ops
    (r.1, r.2.1, (applyDrain d o).2 ++ r.2.2.1, r.2.2.2)
  | .blocks strat :: ops =>
    match d.decodeBlocks s strat with
    | (d1, .ok (s1, _)) => runSched d1 s1 ops
    | (d1, .err e) => (d1, s, #[], some e)
    | (d1, .fault _) => (d1, s, #[], none)

/-- the same program with the drain calls removed -/
def blocksOnly : List SOp → List SOp
  | [] => []
  | .drain _ :: ops => blocksOnly ops
  | .blocks strat :: ops => .blocks strat :: blocksOnly ops

/-- the program is a documented use: `decode_blocks` is only called while the last block is not in,
and every block it decodes keeps its offsets within the frame's window -/
def SchedOk (d : Decoder σ) (s : Src) : List SOp → Prop
  | [] => True
  | .drain o :: ops => SchedOk (applyDrain d o).1 s ops
  | .blocks strat :: ops =>
    d.blocksDone = false ∧
    (∀ st, d.state = some st →
      LoopOffsetsOk st.buf.window strat st.buf.content.size st.blockCounter (s.length + 1) st s) ∧
    match d.decodeBlocks s strat with
    | (d1, .ok (s1, _)) => SchedOk d1 s1 ops
    | _ => True

theorem applyDrain_blocksDone (d : Decoder σ) (op : DrainOp) : (applyDrain d op).1.blocksDone = d.blocksDone := by
  rcases applyDrain_take d op with ⟨hn, he⟩ | ⟨st, k, hs, hk, he⟩
  · rw [he]
  · rw [he]; simp [Decoder.blocksDone, hs]

/-- `driver_prefix` / schedule independence: for every documented program, the run with drains and
the run of the same `decode_blocks` calls on the never-drained twin end in the same error (or
none), with the same source left, and as twins: what was delivered, followed by what is still
buffered, is exactly what the drain-free run has buffered -/
theorem runSched_twin (dD dF : Decoder σ) (s : Src) (ops : List SOp)
    (htw : IsTwin dD dF) (hret : Retains dD ∨ dD.blocksDone = true) (hok : SchedOk dD s ops) :
    IsTwin (runSched dD s ops).1 (runSched dF s (blocksOnly ops)).1 ∧
    (runSched dD s ops).2.1 = (runSched dF s (blocksOnly ops)).2.1 ∧
    (runSched dD s ops).2.2.2 = (runSched dF s (blocksOnly ops)).2.2.2 ∧
    (runSched dF s (blocksOnly ops)).2.2.1 = #[] := by
  induction ops generalizing dD dF s with
  | nil => exact ⟨htw, rfl, rfl, rfl⟩
  | cons op ops ih =>
    cases op with
    | drain o =>
      simp only [runSched, blocksOnly]
      simp only [SchedOk] at hok
      refine ih _ _ _ (htw.drain o) ?_ hok
      rcases hret with hret | hret
      · by_cases hb : dD.blocksDone = false
        · exact Or.inl (hret.drain o hb)
        · right; rw [applyDrain_blocksDone]; simpa using hb
      · right; rw [applyDrain_blocksDone]; exact hret
    | blocks strat =>
      simp only [SchedOk] at hok
      obtain ⟨hnd, hoff, hrest⟩ := hok
      have hr : Retains dD := by
        rcases hret with h | h
        · exact h
        · rw [hnd] at h; cases h
      obtain ⟨ho, htw', hret'⟩ := htw.decodeBlocks hr s strat hoff
      simp only [runSched, blocksOnly]
      cases hD : dD.decodeBlocks s strat with
      | mk d1 o =>
        cases hF : dF.decodeBlocks s strat with
        | mk f1 o' =>
          rw [hD, hF] at ho htw' 
          rw [hD] at hret' hrest
          simp only at ho htw' hret' hrest
          subst ho
          cases o' with
          | ok p => obtain ⟨s1, fin⟩ := p; exact ih _ _ _ htw' (Or.inl hret') hrest
          | err e => exact ⟨htw', rfl, rfl, rfl⟩
          | fault f => exact ⟨htw', rfl, rfl, rfl⟩

/-- corollary: the bytes any documented program has delivered, followed by what it still buffers,
are what the drain-free program has buffered (when the decoder started the frame freshly `reset`) -/
theorem delivered_prefix_of_undrained (d0 : Decoder σ) (s : Src) (ops : List SOp)
    (hfresh : d0.hashed = #[]) (hok : SchedOk d0 s ops) (st stF : FState σ)
    (hD : (runSched d0 s ops).1.state = some st) (hF : (runSched d0 s (blocksOnly ops)).1.state = some stF) :
    st.buf.hashed ++ st.buf.content = stF.buf.content := by
  have htw : IsTwin d0 d0 := by
    refine ⟨rfl, rfl, ?_⟩
    cases hs : d0.state with
    | none => exact Or.inl ⟨rfl, rfl⟩
    | some st0 =>
      right
      refine ⟨st0, rfl, ?_⟩
      rw [FState.twin_self st0 (by simpa [Decoder.hashed, hs] using hfresh)]
  have hret : Retains d0 := by
    simp only [Retains]
    cases hs : d0.state with
    | none => trivial
    | some st0 => exact Or.inl (by simpa [Decoder.hashed, hs] using hfresh)
  obtain ⟨h1, -, -, -⟩ := runSched_twin d0 d0 s ops htw (Or.inl hret) hok
  rcases h1.2.2 with ⟨hn, -⟩ | ⟨st', hs', hf'⟩
  · rw [hD] at hn; cases hn
  · rw [hD] at hs'; cases hs'
    rw [hF] at hf'; cases hf'
    rfl



/-! ### `StreamingDecoder::read` and `decode_from_to` -/

/-- `StreamingDecoder::read(buf)` (when it does not return 0 immediately) as a program of
`decode_blocks(UptoBytes(k))` calls followed by one `read(buf)` -/
def sreadProg : Nat → Decoder σ → Src → Nat → List SOp
  | 0, _, _, n => [.drain (.read n)]
  | fuel + 1, d, s, n =>
    if d.canCollect < n ∧ !d.isFinished then
      .blocks (.uptoBytes (n - d.canCollect)) ::
        (match d.decodeBlocks s (.uptoBytes (n - d.canCollect)) with
         | (d1, .ok (s1, _)) => sreadProg fuel d1 s1 n
         | _ => [])
    else [.drain (.read n)]

theorem sreadProg_run (fuel : Nat) (d : Decoder σ) (s : Src) (n : Nat) :
    ∃ sE, runSched d s (sreadProg fuel d s n) =
      match streamingFill fuel d s n with
      | (d1, .ok s1) => ((d1.read n).1, s1, (d1.read n).2, none)
      | (d1, .err e) => (d1, sE, #[], some e)
      | (d1, .fault _) => (d1, sE, #[], none) := by
  induction fuel generalizing d s with
  | zero => exact ⟨s, by simp [sreadProg, streamingFill, runSched, applyDrain]⟩
  | succ fuel ih =>
    simp only [sreadProg, streamingFill]
    split
    · simp only [runSched]
      cases hd : d.decodeBlocks s (.uptoBytes (n - d.canCollect)) with
      | mk d1 o =>
        cases o with
        | ok p => obtain ⟨s1, fin⟩ := p; exact ih d1 s1
        | err e => exact ⟨s, rfl⟩
        | fault f => exact ⟨s, rfl⟩
    · exact ⟨s, by simp [runSched, applyDrain]⟩

/-- `StreamingDecoder::read` is a driver program of `decode_blocks` and `read` calls: schedule
independence (`runSched_twin`) therefore covers it -/
theorem streamingRead_is_program (d : Decoder σ) (s : Src) (n : Nat) :
    ∃ prog sE, runSched d s prog =
      match streamingRead d s n with
      | (d1, .ok (s1, out)) => (d1, s1, out, none)
      | (d1, .err e) => (d1, sE, #[], some e)
      | (d1, .fault _) => (d1, sE, #[], none) := by
  simp only [streamingRead]
  by_cases hsc : d.isFinished = true ∧ d.canCollect = 0
  · rw [if_pos hsc]; exact ⟨[], s, rfl⟩
  · rw [if_neg hsc]
    obtain ⟨sE, h⟩ := sreadProg_run (s.length + 2) d s n
    refine ⟨sreadProg (s.length + 2) d s n, sE, ?_⟩
    rw [h]
    cases hf : streamingFill (s.length + 2) d s n with
    | mk d1 o =>
      cases o with
      | ok s1 => rfl
      | err e => rfl
      | fault f => rfl


/-- every block the `decode_from_to` loop decodes on this chunk keeps its offsets within `W` -/
def FromToOffsetsOk (W : Nat) : Nat → FState σ → Src → Prop
  | 0, _, _ => True
  | fuel + 1, st, s =>
    (∀ o ∈ nextBlockOffsets st s, o ≤ W) ∧
    match decodeOneBlock st s with
    | (st1, .ok (bh, s1)) => if bh.last then True else FromToOffsetsOk W fuel st1 s1
    | _ => True

theorem decodeFromToLoop_twin (W : Nat) (d x : Array Nat) (fuel : Nat) (st : FState σ) (s : Src)
    (hW : W ≤ st.buf.content.size) (hok : FromToOffsetsOk W fuel st s) :
    decodeFromToLoop fuel (st.twin d x) s =
      ((decodeFromToLoop fuel st s).1.twin d x, (decodeFromToLoop fuel st s).2) := by
  induction fuel generalizing st s with
  | zero => rfl
  | succ fuel ih =>
    simp only [FromToOffsetsOk] at hok
    rw [decodeFromToLoop_succ, decodeFromToLoop_succ]
    by_cases h3 : s.length < 3
    · rw [if_pos h3, if_pos h3]
    · rw [if_neg h3, if_neg h3]
      cases hp : parseBlockHeader (s.getD 0 0) (s.getD 1 0) (s.getD 2 0) with
      | error e => rfl
      | ok bh =>
        simp only
        by_cases hc : s.length < 3 + bh.contentSize
        · rw [if_pos hc, if_pos hc]
        · rw [if_neg hc, if_neg hc, decodeOneBlock_twin W d x st s hW hok.1]
          have hb := decodeOneBlock_step st s
          cases hd : decodeOneBlock st s with
          | mk st1 o =>
            rw [hd] at hb
            cases o with
            | err e => rfl
            | fault f => rfl
            | ok p =>
              obtain ⟨bh', s1⟩ := p
              have hok2 := hok.2
              rw [hd] at hok2
              have hbh : bh' = bh := by
                have := (decodeOneBlock_ok _ _ _ _ _ hd).2.2.1
                rw [hp] at this; cases this; rfl
              subst hbh
              simp only at hok2 ⊢
              by_cases hl : bh'.last
              · simp only [hl, if_true]
                have : (st1.twin d x).header = st1.header := rfl
                rw [this]
                split <;> rfl
              · simp only [hl, Bool.false_eq_true, if_false] at hok2 ⊢
                obtain ⟨y, hy, -⟩ := hb.appends
                exact ih st1 s1 (by rw [hy.size]; omega) hok2


theorem Decoder.read_zero (d : Decoder σ) : (d.read 0).1 = d := by
  cases hst : d.state with
  | none => simp [Decoder.read, hst]
  | some st =>
    simp only [Decoder.read, hst, Nat.min_zero, DBuf.take_zero]
    obtain ⟨s0, di, m⟩ := d
    simp only at hst
    subst hst
    rfl

/-- `decode_from_to(src, target)` on a drained decoder and `decode_from_to(src, &mut [])` on its
never-drained twin: same reported count or error, and the results are twins again -/
theorem IsTwin.decodeFromTo {dD dF : Decoder σ} (h : IsTwin dD dF) (hr : Retains dD) (s : Src) (n : Nat)
    (st : FState σ) (hst : dD.state = some st)
    (hoff : FromToOffsetsOk st.buf.window (s.length + 1) st s) :
    IsTwin (dD.decodeFromTo s n).1 (dF.decodeFromTo s 0).1 ∧
    (dD.decodeFromTo s n).2.mapOk (·.1) = (dF.decodeFromTo s 0).2.mapOk (·.1) := by
  rcases h.2.2 with ⟨hn, -⟩ | ⟨st', hs', hf⟩
  · rw [hst] at hn; cases hn
  · rw [hst] at hs'; cases hs'
    have hfin : dF.isFinished = dD.isFinished := by simp [Decoder.isFinished, hst, hf, FState.twin]
    rw [Decoder.decodeFromTo_some dD st s n hst, Decoder.decodeFromTo_some dF _ s 0 hf, hfin]
    by_cases hfd : dD.isFinished = true
    · rw [if_pos hfd, if_pos hfd, Decoder.read_zero]
      exact ⟨by simpa [applyDrain] using h.drain (.read n), rfl⟩
    · rw [if_neg hfd, if_neg hfd]
      simp only [fromToCore]
      have hhd : (st.twin st.buf.hashed #[]).header = st.header := rfl
      have hfi : (st.twin st.buf.hashed #[]).finished = st.finished := rfl
      have hck : (st.twin st.buf.hashed #[]).checksum = st.checksum := rfl
      have hbr : (st.twin st.buf.hashed #[]).bytesRead = st.bytesRead := rfl
      rw [hhd, hfi, hck]
      by_cases hc : st.header.checksumFlag = true ∧ st.finished = true ∧ st.checksum.isNone = true
      · rw [if_pos hc, if_pos hc]
        by_cases h4 : s.length ≥ 4
        · rw [if_pos h4, if_pos h4]
          exact ⟨⟨h.1, h.2.1, Or.inr ⟨_, rfl, rfl⟩⟩, rfl⟩
        · rw [if_neg h4, if_neg h4]
          exact ⟨h, rfl⟩
      · rw [if_neg hc, if_neg hc]
        -- the block loop on both sides
        have hloop : decodeFromToLoop (s.length + 1) (st.twin st.buf.hashed #[]) s =
            ((decodeFromToLoop (s.length + 1) st s).1.twin st.buf.hashed #[], (decodeFromToLoop (s.length + 1) st s).2) := by
          simp only [Retains, hst] at hr
          rcases hr with hr | hr
          · have hstep := (decodeFromToLoop_step (s.length + 1) st s).1
            obtain ⟨y, hy⟩ := hstep.appends
            have e : (decodeFromToLoop (s.length + 1) st s).1.twin st.buf.hashed #[] = (decodeFromToLoop (s.length + 1) st s).1 := by
              rw [← hy.hashed]; exact FState.twin_self _ (hy.hashed.trans hr)
            rw [e, FState.twin_self st hr]
          · exact decodeFromToLoop_twin st.buf.window st.buf.hashed #[] (s.length + 1) st s hr hoff
        rw [hloop]
        have hstep := (decodeFromToLoop_step (s.length + 1) st s).1
        obtain ⟨y, hy⟩ := hstep.appends
        cases hl : decodeFromToLoop (s.length + 1) st s with
        | mk st2 o =>
          rw [hl] at hy
          simp only at hy ⊢
          have htw2 : IsTwin { dD with state := some st2 } { dF with state := some (st2.twin st.buf.hashed #[]) } :=
            ⟨h.1, h.2.1, Or.inr ⟨st2, rfl, by rw [hy.hashed]⟩⟩
          cases o with
          | ok u =>
            simp only [Decoder.read_zero]
            refine ⟨by simpa [applyDrain] using htw2.drain (.read n), ?_⟩
            simp only [Out.mapOk, hbr]
            obtain ⟨k, -, -, hrd⟩ := Decoder.read_state { dD with state := some st2 } st2 n rfl
            rw [hrd]
            simp [Decoder.bytesRead, FState.twin]
          | err e => exact ⟨htw2, rfl⟩
          | fault f => exact ⟨htw2, rfl⟩


theorem Retains.drain_or_done {d : Decoder σ} (h : Retains d) (op : DrainOp) :
    Retains (applyDrain d op).1 ∨ (applyDrain d op).1.blocksDone = true := by
  by_cases hb : d.blocksDone = false
  · exact Or.inl (h.drain op hb)
  · right; rw [applyDrain_blocksDone]; simpa using hb

theorem Retains.decodeFromTo {d : Decoder σ} (h : Retains d) (s : Src) (n : Nat) (st : FState σ) (hst : d.state = some st) :
    Retains (d.decodeFromTo s n).1 ∨ (d.decodeFromTo s n).1.blocksDone = true := by
  rw [Decoder.decodeFromTo_some d st s n hst]
  split
  · simpa [applyDrain] using h.drain_or_done (.read n)
  · simp only [fromToCore]
    split
    · split
      · left; simpa [Retains, hst] using h
      · exact Or.inl h
    · have hstep := (decodeFromToLoop_step (s.length + 1) st s).1
      obtain ⟨y, hy⟩ := hstep.appends
      cases hl : decodeFromToLoop (s.length + 1) st s with
      | mk st2 o =>
        rw [hl] at hy
        simp only at hy
        have hr2 : Retains ({ d with state := some st2 } : Decoder σ) := by
          simp only [Retains, hst] at h ⊢
          rcases h with h | h
          · left; rw [hy.hashed]; exact h
          · right; rw [hy.window, hy.size]; omega
        cases o with
        | ok u => simpa [applyDrain] using hr2.drain_or_done (.read n)
        | err e => exact Or.inl hr2
        | fault f => exact Or.inl hr2


end Zstd.Model
