import Zstd.Proofs.HufDec
import Zstd.Spec.Huffman
/-
The table that the rank-index construction of `build_table_from_weights` produces is the canonical
table of RFC 8878 §4.2.1 (`Zstd.Spec.Huffman.buildTable`).  Both sides are characterised cell by
cell: the Spec table is a concatenation of blocks (flatMap), so every index lies in exactly one
block, and the model's fill loop puts the same symbol at the same offset (`FillInv.cells`).
-/
namespace Zstd.Proofs.Huf
open Zstd Zstd.Model.Huf

/-! ### generic list facts -/

theorem flatMap_index {κ β : Type} (f : κ → List β) : ∀ (l : List κ) (i : Nat), i < (l.flatMap f).length →
    ∃ l1 k l2 j, l = l1 ++ k :: l2 ∧ j < (f k).length ∧ i = (l1.flatMap f).length + j ∧
      (l.flatMap f)[i]? = (f k)[j]? := by
  intro l
  induction l with
  | nil => intro i h; simp at h
  | cons x xs ih =>
    intro i h
    rw [List.flatMap_cons] at h ⊢
    by_cases hi : i < (f x).length
    · exact ⟨[], x, xs, i, rfl, hi, by simp, by rw [List.getElem?_append_left hi]⟩
    · rw [List.length_append] at h
      obtain ⟨l1, k, l2, j, h1, h2, h3, h4⟩ := ih (i - (f x).length) (by omega)
      refine ⟨x :: l1, k, l2, j, by rw [h1]; rfl, h2, ?_, ?_⟩
      · rw [List.flatMap_cons, List.length_append]; omega
      · rw [List.getElem?_append_right (by omega), h4]

theorem foldl_append_toList {α β : Type} (F : β → List α) (g : Array α → β → Array α)
    (hg : ∀ acc x, (g acc x).toList = acc.toList ++ F x) (l : List β) (init : Array α) :
    (l.foldl g init).toList = init.toList ++ l.flatMap F := by
  induction l generalizing init with
  | nil => simp
  | cons x xs ih => rw [List.foldl_cons, ih, hg, List.flatMap_cons, List.append_assoc]

/-! ### the symbols of one weight -/

/-- symbols (numbered from `k`) whose weight is `w`, ascending -/
def symsOf (w : Nat) : List Nat → Nat → List Nat
  | [], _ => []
  | x :: xs, k => if x = w then k :: symsOf w xs (k + 1) else symsOf w xs (k + 1)

theorem symbolsOfWeight_eq (ws : List Nat) (w : Nat) : Spec.Huffman.symbolsOfWeight ws w = symsOf w ws 0 := by
  unfold Spec.Huffman.symbolsOfWeight
  have : ∀ k, ((ws.zipIdx k).filter (fun p => decide (p.1 = w))).map (·.2) = symsOf w ws k := by
    induction ws with
    | nil => intro k; rfl
    | cons x xs ih =>
      intro k
      rw [List.zipIdx_cons, List.filter_cons, symsOf]
      by_cases hx : x = w
      · simp only [hx, decide_true, if_true, List.map_cons]; rw [← ih (k + 1)]
      · simp only [hx, decide_false, if_false]; rw [← ih (k + 1)]; simp
  exact this 0

theorem symsOf_length (w : Nat) (ws : List Nat) (k : Nat) : (symsOf w ws k).length = countBits w ws := by
  induction ws generalizing k with
  | nil => rfl
  | cons x xs ih =>
    simp only [symsOf, countBits]
    split
    · simp [ih]; omega
    · simp [ih]

theorem symsOf_split (w : Nat) : ∀ (ws : List Nat) (k : Nat) (l1 : List Nat) (sym : Nat) (l2 : List Nat),
    symsOf w ws k = l1 ++ sym :: l2 →
    k ≤ sym ∧ ws[sym - k]? = some w ∧ l1.length = countBits w (ws.take (sym - k)) := by
  intro ws
  induction ws with
  | nil => intro k l1 sym l2 h; simp [symsOf] at h
  | cons x xs ih =>
    intro k l1 sym l2 h
    simp only [symsOf] at h
    by_cases hx : x = w
    · simp only [hx, if_true] at h
      cases l1 with
      | nil =>
        simp only [List.nil_append, List.cons.injEq] at h
        obtain ⟨h1, _⟩ := h
        subst h1
        simp [hx, countBits]
      | cons a l1' =>
        simp only [List.cons_append, List.cons.injEq] at h
        obtain ⟨_, h2⟩ := h
        obtain ⟨i1, i2, i3⟩ := ih (k + 1) l1' sym l2 h2
        have e : sym - k = (sym - (k + 1)) + 1 := by omega
        refine ⟨by omega, ?_, ?_⟩
        · rw [e, List.getElem?_cons_succ]; exact i2
        · rw [e, List.take_succ_cons, countBits, hx]; simp [i3]; omega
    · simp only [hx, if_false] at h
      obtain ⟨i1, i2, i3⟩ := ih (k + 1) l1 sym l2 h
      have e : sym - k = (sym - (k + 1)) + 1 := by omega
      refine ⟨by omega, ?_, ?_⟩
      · rw [e, List.getElem?_cons_succ]; exact i2
      · rw [e, List.take_succ_cons, countBits]; simp [hx, i3]

/-! ### the Spec table as a list of blocks -/

/-- cells of the canonical table: (symbol, number of bits) -/
def specInner (m : Nat) (all : List Nat) (w0 : Nat) : List (Nat × Nat) :=
  (symsOf (w0 + 1) all 0).flatMap fun sym => List.replicate (2 ^ w0) (sym, m - w0)

def specCells (m : Nat) (all : List Nat) : List (Nat × Nat) :=
  (List.range m).flatMap (specInner m all)

theorem spec_entries_eq (m : Nat) (all : List Nat) :
    (Spec.Huffman.buildTable m all).entries.toList.map (fun e => (e.symbol, e.nbBits)) = specCells m all := by
  unfold Spec.Huffman.buildTable
  simp only
  have inner : ∀ (acc : Array Spec.Huffman.Entry) (w0 : Nat),
      ((Spec.Huffman.symbolsOfWeight all (w0 + 1)).foldl
          (fun acc sym => acc ++ Array.replicate (2 ^ (w0 + 1 - 1))
            ({ symbol := sym, nbBits := m + 1 - (w0 + 1) } : Spec.Huffman.Entry)) acc).toList
        = acc.toList ++ (symsOf (w0 + 1) all 0).flatMap fun sym =>
            List.replicate (2 ^ w0) ({ symbol := sym, nbBits := m - w0 } : Spec.Huffman.Entry) := by
    intro acc w0
    rw [symbolsOfWeight_eq]
    apply foldl_append_toList
    intro acc x
    simp only [Array.toList_append, Array.toList_replicate, Nat.add_sub_cancel]
    have : m + 1 - (w0 + 1) = m - w0 := by omega
    rw [this]
  rw [foldl_append_toList _ _ inner]
  simp only [List.nil_append, specCells, specInner, List.map_flatMap, List.map_replicate, Array.toList_empty]
  rfl

/-- start of the region of weight `k + 1` in the canonical table -/
def specOff (all : List Nat) : Nat → Nat
  | 0 => 0
  | k + 1 => specOff all k + countBits (k + 1) all * 2 ^ k

theorem specInner_length (m : Nat) (all : List Nat) (w0 : Nat) :
    (specInner m all w0).length = countBits (w0 + 1) all * 2 ^ w0 := by
  unfold specInner
  have : ∀ l : List Nat, (l.flatMap fun sym => List.replicate (2 ^ w0) (sym, m - w0)).length = l.length * 2 ^ w0 := by
    intro l
    induction l with
    | nil => simp
    | cons x xs ih => rw [List.flatMap_cons, List.length_append, ih]; simp [Nat.add_mul]; omega
  rw [this, symsOf_length]

theorem specOff_eq (m : Nat) (all : List Nat) (k : Nat) :
    ((List.range k).flatMap (specInner m all)).length = specOff all k := by
  induction k with
  | zero => rfl
  | succ k ih =>
    rw [List.range_succ, List.flatMap_append, List.length_append, ih]
    simp [specInner_length, specOff]

theorem range_split {m : Nat} {l1 l2 : List Nat} {k : Nat} (h : List.range m = l1 ++ k :: l2) :
    l1 = List.range k ∧ k < m := by
  have hlen : (List.range m).length = l1.length + 1 + l2.length := by rw [h]; simp; omega
  rw [List.length_range] at hlen
  have hk : (List.range m)[l1.length]? = some k := by rw [h]; simp
  rw [List.getElem?_range (by omega)] at hk
  have hk' : l1.length = k := by simpa using hk
  constructor
  · have : l1 = (List.range m).take l1.length := by rw [h]; simp
    rw [this, hk', List.take_range]
    congr 1; omega
  · omega

/-- every cell of the canonical table: which symbol it belongs to and where that symbol's block starts -/
theorem specCells_index (m : Nat) (all : List Nat) (i : Nat) (hi : i < (specCells m all).length) :
    ∃ w0 sym j, w0 < m ∧ all[sym]? = some (w0 + 1) ∧ j < 2 ^ w0 ∧
      i = specOff all w0 + countBits (w0 + 1) (all.take sym) * 2 ^ w0 + j ∧
      (specCells m all)[i]? = some (sym, m - w0) := by
  obtain ⟨l1, w0, l2, j, h1, h2, h3, h4⟩ := flatMap_index (specInner m all) (List.range m) i hi
  obtain ⟨hl1, hw0⟩ := range_split h1
  subst hl1
  rw [specOff_eq] at h3
  obtain ⟨s1, sym, s2, j', g1, g2, g3, g4⟩ :=
    flatMap_index (fun sym => List.replicate (2 ^ w0) (sym, m - w0)) (symsOf (w0 + 1) all 0) j h2
  obtain ⟨_, q2, q3⟩ := symsOf_split (w0 + 1) all 0 s1 sym s2 g1
  simp only [Nat.sub_zero] at q2 q3
  have hs1 : (s1.flatMap fun sym => List.replicate (2 ^ w0) (sym, m - w0)).length = s1.length * 2 ^ w0 := by
    clear g1 g3 q3
    induction s1 with
    | nil => simp
    | cons x xs ih => rw [List.flatMap_cons, List.length_append, ih]; simp [Nat.add_mul]; omega
  simp only [List.length_replicate] at g2
  refine ⟨w0, sym, j', hw0, q2, g2, ?_, ?_⟩
  · rw [h3, g3, hs1, q3]; omega
  · unfold specCells
    rw [h4]
    show (specInner m all w0)[j]? = _
    unfold specInner
    rw [g4, List.getElem?_replicate]
    simp [g2]

theorem specCells_length (m : Nat) (all : List Nat) : (specCells m all).length = specOff all m := by
  unfold specCells; exact specOff_eq m all m

/-! ### linking the two position functions -/

theorem countBits_bitsOf (m : Nat) {ws : List Nat} (h : ∀ w ∈ ws, w ≤ m) {w : Nat} (h1 : 1 ≤ w) (h2 : w ≤ m) :
    countBits (m + 1 - w) (bitsOf m ws) = countBits w ws := by
  induction ws with
  | nil => rfl
  | cons x xs ih =>
    have hx : x ≤ m := h x List.mem_cons_self
    have := ih (fun y hy => h y (List.mem_cons_of_mem _ hy))
    simp only [bitsOf, List.map_cons, countBits] at this ⊢
    rw [this]
    by_cases h0 : x > 0
    · simp only [h0, if_true]
      by_cases hxw : x = w
      · simp [hxw]
      · have : ¬ (m + 1 - x = m + 1 - w) := by omega
        simp [hxw, this]
    · have hx0 : x = 0 := by omega
      subst hx0
      have : ¬ (0 = m + 1 - w) := by omega
      have h' : ¬ (0 = w) := by omega
      simp [this, h']

theorem riSum_eq_specOff (m : Nat) {all : List Nat} (h : ∀ w ∈ all, w ≤ m) : ∀ k, k ≤ m →
    riSum m (bitsOf m all) k = specOff all k := by
  intro k
  induction k with
  | zero => intro _; rfl
  | succ k ih =>
    intro hk
    rw [riSum, specOff, ih (by omega)]
    have e : m - k = m + 1 - (k + 1) := by omega
    rw [e, countBits_bitsOf m h (by omega) (by omega)]

theorem bitsOf_take (m : Nat) (ws : List Nat) (n : Nat) : (bitsOf m ws).take n = bitsOf m (ws.take n) := by
  simp [bitsOf, List.map_take]

/-- **The rank-index construction yields the canonical table.**  If the cells of `dec` satisfy the
invariant of the fill loop for the code lengths of `all` (≤ 256 symbols, all weights ≤ m, Kraft sum
`2^m`), then `dec` is, cell by cell, the canonical table of the RFC. -/
theorem table_eq_canonical (m : Nat) (all : List Nat) (hlen : all.length ≤ 256) (hall : ∀ w ∈ all, w ≤ m)
    (ri : List Nat) (dec : Array Entry)
    (inv : FillInv m (bitsOf m all) (bitsOf m all) ri dec)
    (htotal : specOff all m = 2 ^ m) :
    dec.toList.map (fun e => (e.symbol, e.numBits)) = specCells m all := by
  apply List.ext_getElem?
  intro i
  by_cases hi : i < (specCells m all).length
  · obtain ⟨w0, sym, j, hw0, hsym, hj, hpos, hval⟩ := specCells_index m all i hi
    rw [hval, List.getElem?_map]
    have hsymlt : sym < all.length := by
      rcases Nat.lt_or_ge sym all.length with h | h
      · exact h
      · rw [List.getElem?_eq_none h] at hsym; cases hsym
    have hsymlt' : sym < (bitsOf m all).length := by simpa [bitsOf] using hsymlt
    have hw : all[sym] = w0 + 1 := by
      rw [List.getElem?_eq_getElem hsymlt] at hsym; simpa using hsym
    have hb : (bitsOf m all)[sym] = m - w0 := by
      simp only [bitsOf, List.getElem_map, hw]
      simp
    have e1 : m - (m - w0) = w0 := by omega
    have hcell := inv.cells sym hsymlt' (by rw [hb]; omega) j (by rw [hb, e1]; exact hj)
    have hposeq : cellPos m (bitsOf m all) ((bitsOf m all).take sym) (bitsOf m all)[sym] + j = i := by
      rw [hb, hpos]
      simp only [cellPos]
      rw [e1, riSum_eq_specOff m hall w0 (by omega), bitsOf_take]
      have e2 : m - w0 = m + 1 - (w0 + 1) := by omega
      rw [e2, countBits_bitsOf m (fun w hw => hall w (List.mem_of_mem_take hw)) (by omega) (by omega)]
    rw [hposeq] at hcell
    have : dec.toList[i]? = dec[i]? := by simp
    rw [this, hcell, hb]
    simp
    omega
  · have h1 : (specCells m all)[i]? = none := List.getElem?_eq_none (by omega)
    rw [h1]
    apply List.getElem?_eq_none
    rw [List.length_map, Array.length_toList, inv.size, ← htotal, ← specCells_length m all]
    omega

end Zstd.Proofs.Huf
