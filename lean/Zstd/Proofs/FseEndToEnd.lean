import Zstd.Proofs.FseCoupled
import Zstd.Proofs.FseTableDesc
/-
End-to-end composition for the single-state FSE coder: `FSEEncoder::encode` (= `write_table` followed by
the stream and the end mark), dumped to bytes, is read back by `FSETable::build_decoder` (=
`read_probabilities` then `build_decoding_table`) followed by the single-state decode loop over the
remaining bytes.

Every link is proved elsewhere (`FseTableDesc.write_read_table`, `FseEncTable.enc_table_eq_dec_table`,
`FseCoupled.coupled_of_buildable`, `FseStream.encode_decode_stream`); this file only does the bookkeeping:
* `bitsLE_drop`, `toList_extract_to_size` : the bytes after the description carry exactly the stream bits;
* `carries_of_built` : the built encoder table `Carries` its distribution;
* `buildDecoder_of_read` : `DTable.buildDecoder`'s record updates;
* `stream_ne_nil` : the stream is never empty (it contains the end mark), which discharges the side
  condition of `write_read_table`;
* `encode_decode_single_full` : the composition.
-/
namespace Zstd.Proofs.FseEndToEnd
open Zstd Zstd.Spec Zstd.Model.Fse Zstd.Model.BitIO Zstd.Proofs.BitIO Zstd.Proofs.FseStream

/-! ### bits of a byte suffix -/

theorem bitsLE_drop (l : List Nat) (k : Nat) : bitsLE (l.drop k) = (bitsLE l).drop (8 * k) := by
  induction l generalizing k with
  | nil => simp [bitsLE]
  | cons b bs ih =>
    cases k with
    | zero => simp
    | succ k =>
      have h8 : (byteBitsLE b).length = 8 := rfl
      rw [List.drop_succ_cons, bitsLE, ih, List.drop_append, h8,
        List.drop_of_length_le (l := byteBitsLE b) (by rw [h8]; omega), List.nil_append]
      congr 1

theorem toList_extract_to_size (out : Array Nat) (used : Nat) :
    (out.extract used out.size).toList = out.toList.drop used := by
  rw [Array.toList_extract, List.extract_eq_take_drop]
  apply List.take_of_length_le
  simp

/-- the bytes after a `D.length / 8`-byte prefix of a source whose bits are `D ++ S` (`D` byte aligned)
are bytes and carry exactly `S` -/
theorem suffix_bits {out : Array Nat} {D S : List Bool} (hb : Bytes out.toList)
    (hbits : bitsLE out.toList = D ++ S) (hD : D.length % 8 = 0) :
    Bytes (out.extract (D.length / 8) out.size).toList ∧
      bitsLE (out.extract (D.length / 8) out.size).toList = S := by
  rw [toList_extract_to_size]
  refine ⟨Bytes_drop hb _, ?_⟩
  rw [bitsLE_drop, hbits, show 8 * (D.length / 8) = D.length by omega, List.drop_left]

/-! ### the built encoder table carries its distribution -/

theorem carries_of_built {al : Nat} {probs : List Int} {et : ETable}
    (hb : FseEncTable.EncBuildable al probs) (het : buildTableFromProbabilities probs al = .ok et) :
    FseTableDesc.Carries et al probs := by
  have hms : probs.length ≤ 255 + 1 := hb.1.2.2.1
  obtain ⟨et', _, _, het', _, hts, hsz, _, _, _, hprob, _⟩ := FseEncTable.enc_table_eq_dec_table hb hms
  rw [het] at het'; cases het'
  exact ⟨hts, hsz, fun i _ => hprob i⟩

/-! ### `build_decoder` = `read_probabilities` then `build_decoding_table` -/

theorem buildDecoder_of_read {t : DTable} {src : Array Nat} {maxLog al n : Nat} {probs : Array Int}
    {dec : Array DEntry} {ctr : Array Nat}
    (hrd : DTable.readProbabilities { t with accuracyLog := 0 } src maxLog
      = ({ ({ t with accuracyLog := 0 } : DTable) with probs := probs, accuracyLog := al }, .ok n))
    (hdec : buildDecodingTableCore al probs t.maxSymbol = .ok (dec, ctr)) :
    t.buildDecoder src maxLog
      = ({ maxSymbol := t.maxSymbol, decode := dec, accuracyLog := al, probs := probs, symbolCounter := ctr },
         .ok n) := by
  unfold DTable.buildDecoder
  simp only [hrd, DTable.buildDecodingTable, hdec]

/-! ### the stream is never empty -/

theorem skipEndMark_empty : skipEndMark (BitReaderRev.new #[]) = .ok none := by decide

/-- a bit string that the reversed reader accepts (it finds the end mark) is not empty -/
theorem stream_ne_nil {S : List Bool}
    (h : ∀ (src : Array Nat), Bytes src.toList → bitsLE src.toList = S →
      ∃ br, skipEndMark (BitReaderRev.new src) = .ok (some br)) : S ≠ [] := by
  intro hS
  obtain ⟨br, hbr⟩ := h #[] Bytes_nil (by rw [hS]; rfl)
  rw [skipEndMark_empty] at hbr
  cases hbr

/-! ### the composition -/

/-- **`encode_decode_single`, end to end**: for every encoder-buildable distribution (`5 ≤ al ≤ 9`, at most
256 symbols, mass `2^al`, fewer than `2^al` "less than one" symbols) whose last probability is not `0` (the
description cannot express trailing zeros), every `maxLog ≥ al`, every non-empty string over symbols with a
non-zero probability: `FSEEncoder::encode` into a fresh writer succeeds, `dump` yields bytes `out`;
`build_decoder` on `out` succeeds, returns the number of description bytes and leaves the table with the
decoder entries of `build_decoding_table`; the reversed reader over the remaining bytes finds the end mark
and the single-state loop returns exactly the input with `bits_remaining = 0`. -/
theorem encode_decode_single_full {al : Nat} {probs : List Int} {maxLog : Nat} {et : ETable}
    (hb : FseEncTable.EncBuildable al probs) (hml : al ≤ maxLog) (hlast : probs.getLast? ≠ some 0)
    (het : buildTableFromProbabilities probs al = .ok et)
    (data : List Nat) (hne : data ≠ []) (hu : ∀ x ∈ data, probs.getD x 0 ≠ 0) :
    ∃ w out, encode et BitWriter.new data = .ok w ∧ w.dump = .ok out ∧
      ∃ t used br br', (DTable.new 255).buildDecoder out maxLog = (t, .ok used) ∧
        skipEndMark (BitReaderRev.new (out.extract used out.size)) = .ok (some br) ∧
        decodeStream t data.length br = .ok (data, br') ∧ br'.bitsRemaining = 0 := by
  obtain ⟨hal5, hal9, hlen, hge, hmass⟩ := hb.1
  have hms : probs.length ≤ 255 + 1 := hlen
  -- the two tables
  obtain ⟨et', dec, ctr, het', hdec, _⟩ := FseEncTable.enc_table_eq_dec_table hb hms
  rw [het] at het'; cases het'
  -- the description
  obtain ⟨w1, D, hwt, hinv1, hD8, hread⟩ := FseTableDesc.write_read_table et al probs hal5 (by omega) hlen hge
    hmass hlast (carries_of_built hb het) WInv_new rfl
  -- the stream
  have hc : Coupled et
      ({ maxSymbol := 255, decode := dec, accuracyLog := al, probs := probs.toArray, symbolCounter := ctr } : DTable)
      al (FseCoupled.usableOf probs) :=
    FseCoupled.coupled_of_buildable hb hms het hdec rfl rfl
  obtain ⟨w2, S, henc, hinv2, hal8, hdecS⟩ := encode_decode_stream hc data hne hu hinv1
  simp only [List.nil_append] at hinv1 hinv2 hal8
  have hSne : S ≠ [] := stream_ne_nil (fun src hbs hbits => by
    obtain ⟨br, _, h, _⟩ := hdecS src hbs hbits
    exact ⟨br, h⟩)
  -- the bytes
  obtain ⟨out, hdump, hbits, hbytes⟩ := bitWriter_dump hinv2 (by rw [List.length_append]; omega)
  obtain ⟨hsb, hsbits⟩ := suffix_bits hbytes hbits hD8
  obtain ⟨br, br', hskip, hds, hrem⟩ := hdecS _ hsb hsbits
  refine ⟨w2, out, ?_, hdump, _, D.length / 8, br, br', ?_, hskip, hds, hrem⟩
  · simp only [encode, hwt, henc]
  · exact buildDecoder_of_read (t := DTable.new 255)
      (hread out S _ maxLog hbytes hbits hml hms (fun _ => hSne)) hdec

end Zstd.Proofs.FseEndToEnd
