import Zstd.Proofs.HufStream
import Zstd.Proofs.BlkHufStreamRefines
import Zstd.Proofs.SeqStream
import Zstd.Spec.Block
/-
C02 / C16, literal coder, part 1: ONE Huffman stream against the STRICT specification.

What `HuffmanEncoder::encode_stream` writes for `data` with the encoder table `t` is accepted by
`Spec.Huffman.decodeStream T · data.length` and regenerates exactly `data`, for every Spec table `T`
that `SpecDecodes` the code of `t` (every cell whose index starts with the code of `s` holds
`(s, length of the code)`).  Strictness discharged here: the last byte is not zero (the marker), the
stream is consumed exactly (`decodeSymbols … 0` demands an empty rest), every code is fully inside
the stream (`(bits.take nb).length < nb → none`).
-/
namespace Zstd.Proofs.LitCoder
open Zstd Zstd.Model Zstd.Model.Huf Zstd.Model.Huf.Bits
open Zstd.Proofs.Huf Zstd.Proofs.Blk

/-- The Spec table `T` decodes the code of the encoder table `t` (Spec-level twin of `Huf.DecodesCode`). -/
structure SpecDecodes (T : Spec.Huffman.Table) (t : EncTable) : Prop where
  cells : ∀ (s c nb : Nat), t.codes[s]? = some (c, nb) → 0 < nb → c < 2 ^ nb →
    nb ≤ T.maxBits ∧
      ∀ j, j < 2 ^ (T.maxBits - nb) → T.entries[c * 2 ^ (T.maxBits - nb) + j]? = some { symbol := s, nbBits := nb }

/-! ### the backward stream of an encoded stream -/

theorem finishStream_eq (S : List Bool) :
    ∃ k, k ≤ 7 ∧ finishStream S = List.replicate k false ++ true :: S := by
  refine ⟨(if S.length % 8 = 0 then 8 else 8 - S.length % 8) - 1, ?_, rfl⟩
  split <;> omega

/-- `Spec.backwardStream` of what `encode_stream` packed is exactly the code bits -/
theorem backwardStream_packRev (S : List Bool) :
    Spec.backwardStream (packRev (finishStream S)) = some S := by
  obtain ⟨k, hk, hfin⟩ := finishStream_eq S
  have hrev : (Spec.bitsLE (packRev (finishStream S))).reverse = List.replicate k false ++ true :: S := by
    rw [← revBits_eq_spec, revBits_packRev _ (finishStream_length S), hfin]
  have hbits : Spec.bitsLE (packRev (finishStream S)) = S.reverse ++ Zstd.Proofs.BitIO.bitsOfLE (k + 1) 1 := by
    have := congrArg List.reverse hrev
    rw [List.reverse_reverse] at this
    rw [this, Zstd.Proofs.FseStream.bitsOfLE_mark (k + 1) (by omega)]
    simp [List.reverse_append]
  have := Zstd.Proofs.SeqStream.backwardStream_of_mark (m := k + 1) (by omega) (by omega) hbits
  rw [this, List.reverse_reverse]

/-! ### the symbol loop -/

theorem readBEPad_code (m nb c : Nat) (R : List Bool) (hnb : nb ≤ m) (hc : c < 2 ^ nb) :
    (Spec.readBEPad m (bitsBE nb c ++ R)).1 = c * 2 ^ (m - nb) + padVal (m - nb) R := by
  rw [readBEPad_fst, padVal_code m nb c R hnb hc]

/-- the strict symbol loop regenerates the symbols and ends on an empty stream -/
theorem decodeSymbols_codeBits {T : Spec.Huffman.Table} {t : EncTable} (sd : SpecDecodes T t) :
    ∀ (data : List Nat) (R : List Bool) (acc : List Nat), codeBits t data = .ok R →
      Spec.Huffman.decodeSymbols T data.length R acc = some (acc.reverse ++ data)
  | [], R, acc, hcb => by
    simp only [codeBits, Except.ok.injEq] at hcb
    subst hcb
    simp [Spec.Huffman.decodeSymbols]
  | s :: rest, R, acc, hcb => by
    obtain ⟨c, nb, bits', hcode, hnb, hc, hr, rfl⟩ := codeBits_cons hcb
    obtain ⟨hnbm, hcells⟩ := sd.cells s c nb hcode hnb hc
    have hidx := readBEPad_code T.maxBits nb c bits' hnbm hc
    have hq := padVal_lt (T.maxBits - nb) bits'
    have hent := hcells _ hq
    rw [List.length_cons, Spec.Huffman.decodeSymbols]
    generalize hpad : Spec.readBEPad T.maxBits (bitsBE nb c ++ bits') = q at hidx
    obtain ⟨idx, r1, r2⟩ := q
    simp only at hidx
    subst hidx
    simp only [hent]
    have hlen : ((bitsBE nb c ++ bits').take nb).length = nb := by
      rw [List.length_take, List.length_append, bitsBE_length]; omega
    rw [if_neg (by rw [hlen]; omega)]
    have hdrop : (bitsBE nb c ++ bits').drop nb = bits' := List.drop_left' (bitsBE_length nb c)
    rw [hdrop, decodeSymbols_codeBits sd rest bits' (s :: acc) hr]
    simp

/-- **One stream, strict Spec.** -/
theorem decodeStream_encodeStream {T : Spec.Huffman.Table} {t : EncTable} (sd : SpecDecodes T t)
    (data stream : List Nat) (henc : encodeStream t data = .ok stream) :
    Spec.Huffman.decodeStream T stream data.length = some data := by
  unfold encodeStream at henc
  cases hcb : codeBits t data with
  | error f => rw [hcb] at henc; cases henc
  | ok S =>
    rw [hcb] at henc
    simp only [Except.ok.injEq] at henc
    subst henc
    unfold Spec.Huffman.decodeStream
    rw [backwardStream_packRev]
    simp only
    rw [decodeSymbols_codeBits sd data S [] hcb]
    simp

end Zstd.Proofs.LitCoder
