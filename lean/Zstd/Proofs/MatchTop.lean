import Zstd.Proofs.MatchDriver
/-
Helper lemmas for C17, part 8: the driver-level vocabulary of the property statements
(`windowBytes`, `block`, `retainedBefore`) in terms of the proof vocabulary (`flat`, `shape`, `total`),
and the facts every property theorem starts from.
-/
namespace Zstd.Proofs.MG
open Zstd Zstd.Model.MG

theorem windowBytes_eq (d : Driver) : d.windowBytes = flat (shape d.mg.window) := by
  simp [Driver.windowBytes, flat, shape, List.flatMap_map]

theorem shape_dropLast (w : List Entry) : (shape w).dropLast = shape w.dropLast := by
  simp [shape, List.map_dropLast]

theorem retainedBefore_eq (d : Driver) : d.retainedBefore = total (shape d.mg.window).dropLast := by
  rw [shape_dropLast]
  simp [Driver.retainedBefore, total, shape, List.map_map, Function.comp_def]

theorem block_eq (d : Driver) (last : Entry) (h : d.mg.window.getLast? = some last) : d.block = last.data.toList := by
  simp [Driver.block, h]

theorem shape_getLast? (w : List Entry) (last : Entry) (h : w.getLast? = some last) :
    (shape w).getLast? = some (last.data, last.baseOffset) := by
  simp [shape, List.getLast?_map, h]

theorem windowBytes_split (d : Driver) (last : Entry) (h : d.mg.window.getLast? = some last) :
    d.windowBytes = d.windowBytes.take d.retainedBefore ++ d.block ∧ d.retainedBefore + d.block.length = d.windowBytes.length := by
  rw [windowBytes_eq, retainedBefore_eq, block_eq d last h]
  have hl := shape_getLast? _ _ h
  have hw := eq_dropLast_append_of_getLast? _ _ hl
  have hf : flat (shape d.mg.window) = flat (shape d.mg.window).dropLast ++ last.data.toList := by
    conv => lhs; rw [hw]
    simp
  constructor
  · conv => lhs; rw [hf]
    congr 1
    rw [hf, List.take_append_of_le_length (by simp), List.take_of_length_le (by simp)]
  · have := total_dropLast_add_last _ _ hl
    simp only [flat_length, Array.length_toList]
    exact this

/-- everything the property theorems need to know about one `start_matching` call in an arbitrary
history (no assumption on the hash) -/
theorem start_core (key : KeyFn) (sl n : Nat) (d d' : Driver) (seqs : List Seq)
    (hr : Reachable key sl n d) (h : d.startMatching key = .ok (d', seqs)) :
    ∃ last, d.mg.window.getLast? = some last ∧ BaseOk (shape d.mg.window) ∧
      Parse last.data (shape d.mg.window) d.mg.suffixIdx seqs ∧ d.mg.suffixIdx ≤ last.data.size ∧
      total (shape d.mg.window) ≤ d.windowSize ∧ d.windowSize = n * sl ∧
      shape d'.mg.window = shape d.mg.window ∧
      (∃ last', d'.mg.window.getLast? = some last' ∧ last'.data = last.data) ∧
      d'.mg.suffixIdx = last.data.size := by
  obtain ⟨hwf, hmax⟩ := reachable_wf key sl n d hr
  unfold Driver.startMatching at h
  split at h
  · simp at h
  · rename_i g sq hg
    simp only [Except.ok.injEq, Prod.mk.injEq] at h
    obtain ⟨rfl, rfl⟩ := h
    obtain ⟨last, hl, hsh, hl', _, _, hend, hp⟩ := startMatching_spec key _ _ _ hwf hg
    refine ⟨last, hl, hwf.base, hp, hwf.idx_le last hl, ?_, hmax, hsh, hl', hend⟩
    rw [← hwf.size]
    exact hwf.le_max

end Zstd.Proofs.MG

namespace Zstd.Proofs.MG
open Zstd Zstd.Model.MG

/-! ### vector capacities under the documented protocol (spaces come from `get_next_space`) -/

/-- data and capacity of every entry -/
def caps (w : List Entry) : List (Array Byte × Nat) := w.map (fun e => (e.data, e.cap))

theorem caps_setLast (g : MatchGenerator) (last : Entry) (st : SuffixStore)
    (h : g.window.getLast? = some last) : caps (g.setLast last st) = caps g.window := by
  have hw := eq_dropLast_append_of_getLast? g.window last h
  simp only [MatchGenerator.setLast]
  conv => rhs; rw [hw]
  simp [caps]

theorem caps_nextSequence (key : KeyFn) (g g' : MatchGenerator) (r : Option Seq)
    (h : g.nextSequence key = .ok (g', r)) : caps g'.window = caps g.window := by
  unfold MatchGenerator.nextSequence at h
  split at h
  · simp at h
  · rename_i last hl
    split at h
    · simp at h
    · simp only [Except.ok.injEq, Prod.mk.injEq] at h
      obtain ⟨rfl, _⟩ := h
      exact caps_setLast g last _ hl

theorem caps_startLoop (key : KeyFn) : ∀ (fuel : Nat) (g g' : MatchGenerator) (seqs : List Seq),
    MatchGenerator.startLoop key fuel g = .ok (g', seqs) → caps g'.window = caps g.window := by
  intro fuel
  induction fuel with
  | zero => intro g g' seqs h; simp [MatchGenerator.startLoop] at h
  | succ fuel ih =>
    intro g g' seqs h
    unfold MatchGenerator.startLoop at h
    split at h
    · simp at h
    · rename_i g1 hns
      simp only [Except.ok.injEq, Prod.mk.injEq] at h
      obtain ⟨rfl, _⟩ := h
      exact caps_nextSequence key _ _ _ hns
    · rename_i g1 sq hns
      split at h
      · simp at h
      · rename_i g2 rest hrest
        simp only [Except.ok.injEq, Prod.mk.injEq] at h
        obtain ⟨rfl, _⟩ := h
        rw [ih _ _ _ hrest, caps_nextSequence key _ _ _ hns]

theorem caps_skipMatching (key : KeyFn) (g g' : MatchGenerator) (h : g.skipMatching key = .ok g') :
    caps g'.window = caps g.window := by
  unfold MatchGenerator.skipMatching at h
  split at h
  · simp at h
  · rename_i last hl
    simp only [] at h
    split at h
    · simp at h
    · simp only [Except.ok.injEq] at h
      subst h
      exact caps_setLast g last _ hl

/-- every vector the driver owns has the capacity `slice_size` (true as long as only spaces obtained
from `get_next_space` are committed) -/
def CapsOk (d : Driver) : Prop :=
  (∀ v ∈ d.vecPool, v.size = d.sliceSize) ∧ (∀ p ∈ caps d.mg.window, p.1.size ≤ p.2 ∧ p.2 = d.sliceSize)

theorem recycleVec_size (data : Array Byte) (cap : Nat) (h : data.size ≤ cap) : (recycleVec data cap).size = cap := by
  unfold recycleVec
  split
  · simp; omega
  · simp; omega

theorem capsOk_recycle (d : Driver) (released : List Entry) (hp : ∀ v ∈ d.vecPool, v.size = d.sliceSize)
    (hr : ∀ p ∈ caps released, p.1.size ≤ p.2 ∧ p.2 = d.sliceSize) :
    ∀ v ∈ (d.recycle released).vecPool, v.size = d.sliceSize := by
  intro v hv
  simp only [Driver.recycle, List.mem_append, List.mem_map] at hv
  rcases hv with hv | ⟨e, he, rfl⟩
  · exact hp v hv
  · obtain ⟨h1, h2⟩ := hr (e.data, e.cap) (by simp only [caps, List.mem_map]; exact ⟨e, he, rfl⟩)
    rw [recycleVec_size _ _ h1]; exact h2

end Zstd.Proofs.MG
