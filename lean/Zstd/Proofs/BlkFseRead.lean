import Zstd.Proofs.FseReadDesc
import Zstd.Proofs.BitIO
/-
`FSETable::read_probabilities` (model: `DTable.readProbabilities`) reaches no panic site on byte input:

  * `al = 5 + (4 bits) ≤ 20`, so the `u8` addition of `fse_decoder.rs:228` cannot overflow;
  * every `get_bits` request is for 4, 2 or `⌊log2(remaining+1)⌋ + 1 ∈ [2, 21]` bits with the reader
    position inside the source: the outcome is `Ok` or `NotEnoughRemainingBits`, never a panic
    (`getBits_cases'`, from `bitReader_refines`);
  * `return_bits(1)` follows a read of at least 2 bits (inside `model_readProbLoop_succ`);
  * the fuel of the two loops suffices: an iteration of the probability loop advances the reader by at
    least one bit, one of the zero-run loop by exactly two, and a read beyond the end is an `Err`.

Also: `read_probabilities` / `build_decoding_table` never change `max_symbol`, whatever the outcome.
-/
namespace Zstd.Proofs.Blk
open Zstd Zstd.Spec Zstd.Model.BitIO Zstd.Model.Fse Zstd.Proofs.BitIO
open Zstd.Proofs.FseReadDesc

/-- the two possible outcomes of a model `get_bits(n)` (`0 < n ≤ 64`) inside the source -/
theorem getBits_cases' {src : Array Nat} (hb : Bytes src.toList) {idx n : Nat}
    (hidx : idx ≤ 8 * src.size) (hn : n ≤ 64) (hpos : 0 < n) :
    (({ src := src, idx := idx } : BitReader).getBits n
        = .error (.notEnoughRemainingBits n (8 * src.size - idx))) ∨
    (∃ v, ({ src := src, idx := idx } : BitReader).getBits n = .ok (v, { src := src, idx := idx + n }) ∧
      idx + n ≤ 8 * src.size ∧ v < 2 ^ n) := by
  have h1 := bitReader_refines { src := src, idx := idx } n hb hidx hn (Or.inl hpos)
  cases hrd : readLE n ((bitsLE src.toList).drop idx) with
  | none =>
    left
    simp only [hrd] at h1
    exact h1
  | some q =>
    obtain ⟨v, rest⟩ := q
    right
    obtain ⟨hget, hle, _⟩ := getBits_of_readLE hb hidx hn hpos hrd
    exact ⟨v, hget, hle, (readLE_some hrd).2.2⟩

/-- the zero-run loop: no panic, and its fuel suffices -/
theorem readZeroRuns_no_fault {src : Array Nat} (hb : Bytes src.toList) :
    ∀ (mfuel idx : Nat) (probs : Array Int), idx ≤ 8 * src.size → 8 * src.size - idx < 2 * mfuel →
      ∀ f, (Model.Fse.readZeroRuns mfuel { src := src, idx := idx } probs).2 ≠ .error (.fault f) := by
  intro mfuel
  induction mfuel with
  | zero => intro idx probs _ h; omega
  | succ m ih =>
    intro idx probs hidx hfuel f
    rw [Model.Fse.readZeroRuns]
    rcases getBits_cases' hb hidx (by omega : 2 ≤ 64) (by omega) with he | ⟨r, hget, hle, _⟩
    · simp only [he, liftBit]
      simp
    · simp only [hget, liftBit]
      by_cases h3 : r = 3
      · rw [if_neg (by omega)]
        exact ih (idx + 2) _ hle (by omega) f
      · rw [if_pos h3]
        simp

/-- the probability loop: no panic, and its fuel suffices -/
theorem readProbLoop_no_fault {src : Array Nat} (hb : Bytes src.toList) (sum : Nat) (hsum : sum ≤ 2 ^ 20) :
    ∀ (mfuel idx counter : Nat) (probs : Array Int), idx ≤ 8 * src.size → 8 * src.size - idx < mfuel →
      ∀ f, (readProbLoop sum mfuel { src := src, idx := idx } counter probs).2 ≠ .error (.fault f) := by
  intro mfuel
  induction mfuel with
  | zero => intro idx counter probs _ h; omega
  | succ m ih =>
    intro idx counter probs hidx hfuel f
    by_cases hlt : counter < sum
    · have hrem : sum - counter ≠ 0 := by omega
      have hnb : Nat.log2 (sum - counter + 1) + 1 ≤ 64 := by
        have : Nat.log2 (sum - counter + 1) < 21 := by
          rw [Nat.log2_lt (by omega)]
          have : (2 : Nat) ^ 21 = 2 ^ 20 * 2 := by decide
          omega
        omega
      rcases getBits_cases' hb hidx hnb (by omega) with he | ⟨v, hget, hle, _⟩
      · rw [readProbLoop, if_neg (by omega)]
        simp only [he, liftBit]
        simp
      · rw [model_readProbLoop_succ sum m src idx counter probs hlt v hget]
        simp only []
        obtain ⟨hu1, hu2⟩ := decodeVal_used_pos hrem v
        generalize decodeVal (sum - counter) v = d at *
        have hidx2 : idx + d.2 ≤ 8 * src.size := by omega
        by_cases hp0 : (d.1 : Int) - 1 = 0
        · rw [if_neg (by omega)]
          have hz := readZeroRuns_no_fault hb (src.size * 4 + 2) (idx + d.2) (probs.push ((d.1 : Int) - 1))
            hidx2 (by omega) f
          cases hzr : Model.Fse.readZeroRuns (src.size * 4 + 2) { src := src, idx := idx + d.2 }
              (probs.push ((d.1 : Int) - 1)) with
          | mk p2 r2 =>
            rw [hzr] at hz
            cases r2 with
            | error e =>
              simp only []
              intro h
              apply hz
              simp only [Except.error.injEq] at h ⊢
              exact h
            | ok br2 =>
              simp only []
              obtain ⟨z, idxz, hbr2, hz1, hz2, _, _⟩ := readZeroRuns_complete hb _ _ _ _ _ hidx2 hzr
              subst hbr2
              exact ih idxz counter p2 hz2 (by omega) f
        · rw [if_pos hp0]
          by_cases hpp : (d.1 : Int) - 1 > 0
          · rw [if_pos hpp]
            exact ih (idx + d.2) _ _ hidx2 (by omega) f
          · rw [if_neg hpp]
            exact ih (idx + d.2) _ _ hidx2 (by omega) f
    · rw [readProbLoop, if_pos hlt]
      simp

/-- **`read_probabilities` never panics on byte input** (any table, any `max_log`) -/
theorem readProbabilities_no_fault (t : DTable) (src : Array Nat) (maxLog : Nat) (hb : Bytes src.toList)
    (f : Fault) : (t.readProbabilities src maxLog).2 ≠ .error (.fault f) := by
  unfold DTable.readProbabilities
  simp only [BitReader.new]
  rcases getBits_cases' hb (by omega : 0 ≤ 8 * src.size) (by omega : 4 ≤ 64) (by omega) with
    he | ⟨a, hget, hle, ha⟩
  · simp only [he, liftBit]
    simp
  · simp only [hget, liftBit, Gen.accLogOffset, Nat.one_shiftLeft]
    rw [if_neg (by omega)]
    by_cases hal : 5 + a > maxLog
    · rw [if_pos hal]; simp
    · rw [if_neg hal, if_neg (by omega)]
      have hsum : 2 ^ (5 + a) ≤ 2 ^ 20 := Nat.pow_le_pow_right (by omega) (by omega)
      have hl := readProbLoop_no_fault hb (2 ^ (5 + a)) hsum (src.size * 8 + 2) (0 + 4) 0 #[] hle (by omega) f
      cases hloop : readProbLoop (2 ^ (5 + a)) (src.size * 8 + 2) { src := src, idx := 0 + 4 } 0 #[] with
      | mk ps r =>
        rw [hloop] at hl
        cases r with
        | error e =>
          simp only []
          intro h
          apply hl
          simp only [Except.error.injEq] at h ⊢
          exact h
        | ok q =>
          obtain ⟨br, c⟩ := q
          simp only []
          split
          · simp
          · split <;> simp

/-- `read_probabilities` leaves `max_symbol` alone, whatever the outcome -/
theorem readProbabilities_maxSymbol (t : DTable) (src : Array Nat) (maxLog : Nat) :
    (t.readProbabilities src maxLog).1.maxSymbol = t.maxSymbol := by
  unfold DTable.readProbabilities
  simp only []
  repeat' split
  all_goals rfl

/-- `build_decoding_table` leaves `max_symbol` alone, whatever the outcome -/
theorem buildDecodingTable_maxSymbol (t : DTable) : (t.buildDecodingTable).1.maxSymbol = t.maxSymbol := by
  unfold DTable.buildDecodingTable
  split <;> rfl

end Zstd.Proofs.Blk
