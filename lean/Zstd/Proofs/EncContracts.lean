import Zstd.Proofs.EncRoundtrip
/-
The contracts between the frame/block layer and the layers below it (matcher: C17, block encoder:
C16 over the entropy coders C12/C13), and the proof that `emitBlock` satisfies `EmitDecodes` under
them.  RLE blocks, raw blocks (Uncompressed level and the raw fallback) and all the plumbing are
proved outright; only a block that is KEPT as a compressed block appeals to the contract.
-/
namespace Zstd.Proofs.Enc
open Zstd Zstd.Model.Enc

/-- what the two guards of the raw fallback guarantee when they do NOT fire.  Stated (and proved)
so that it holds for `>=` as well as for `>` in the source: the properties only need `≤`. -/
theorem rawFallbackVsBlock_false (a b : Nat) (h : Gen.rawFallbackVsBlock a b = false) : a ≤ b := by
  unfold Gen.rawFallbackVsBlock at h; simp at h; omega
theorem rawFallbackVsMax_false (a b : Nat) (h : Gen.rawFallbackVsMax a b = false) : a ≤ b := by
  unfold Gen.rawFallbackVsMax at h; simp at h; omega
theorem fastestRawFallbackPresent_eq : Gen.fastestRawFallbackPresent = true := rfl
theorem fastestRawForgetsHuff_eq : Gen.fastestRawForgetsHuff = true := rfl
theorem specBlockMax_eq : Spec.blockMaxSize = 131072 := by decide

/-- the invariant F5 broke: whenever the encoder remembers a Huffman table, the decoder (after the
bytes emitted so far) holds the table related to it by `R` -/
def Tracks {H : Type} (R : H → Spec.Huffman.Table → Prop) (st : EncState H) (e : Spec.Entropy) : Prop :=
  ∀ t, st.lastHuff = some t → ∃ d, e.huf = some d ∧ R t d

theorem tracks_none {H : Type} (R : H → Spec.Huffman.Table → Prop) (st : EncState H) (e : Spec.Entropy) :
    Tracks R { st with lastHuff := none } e := by
  intro t h; cases h

/-- what is known about a block at `Fastest`: it fits Block_Maximum_Size of the declared window, and
if it is not constant (so `start_matching` is called) the matcher's parse regenerates it -/
def FastPre (w window : Nat) (pre blk : List Byte) (p : Parse) : Prop :=
  blk.length ≤ min window Gen.maxBlockSize ∧ (isConstant blk = false → validParse w pre blk p = true)

/-- CONTRACT of the block encoder (`compress_block`), proved by the C16 slice over C12/C13:
for a valid parse of `blk` after `pre`, if the bytes it returns are kept as a compressed block
(not larger than the block), the strict block decoder regenerates exactly `blk` from them and
ends in a state that the encoder's state tracks. -/
def BlockEncCorrect {H : Type} (R : H → Spec.Huffman.Table → Prop) (w window : Nat) (enc : BlockEnc H) : Prop :=
  ∀ (p : Parse) (st st' : EncState H) (bytes : List Byte) (e : Spec.Entropy) (pre blk : List Byte),
    validParse w pre blk p = true → blk.length ≤ min window Gen.maxBlockSize →
    Tracks R st e → enc p st = .ok (bytes, st') → bytes.length ≤ blk.length →
    2 ≤ bytes.length ∧
    ∃ e', Spec.decodeCompressedBlock window #[] bytes e pre.toArray = some ((pre ++ blk).toArray, e') ∧
      Tracks R st' e'

/-- the Uncompressed level satisfies `EmitDecodes` for ANY invariant (the state is not touched) -/
theorem emit_uncompressed_decodes {H : Type} (window : Nat) (Inv : EncState H → Spec.Entropy → Prop)
    (enc : BlockEnc H) :
    EmitDecodes window Inv (fun _ blk _ => blk.length ≤ min window Gen.maxBlockSize)
      (emitBlock .uncompressed enc) := by
  intro last blk p st st' bytes e pre hne hpre hinv hem
  simp only [maxBlockSize_eq] at hpre
  have hlt : ¬ blk.length ≥ 2 ^ 32 := by omega
  simp only [emitBlock, hlt, ↓reduceIte, Except.ok.injEq, Prod.mk.injEq, blockTypeRaw_eq] at hem
  obtain ⟨hb, hst⟩ := hem
  subst hb; subst hst
  refine ⟨by simp [blockHeader_length] <;> omega, e, hinv, ?_⟩
  intro rest dfuel consumed
  rw [List.append_assoc, decodeBlocks_raw _ _ _ _ _ _ _ _ _ (by rw [specBlockMax_eq]; exact hpre)]
  simp [blockHeader_length, Nat.add_assoc]

theorem isConstant_cons (b : Byte) (t : List Byte) : isConstant (b :: t) = (b :: t).all (fun x => x == b) := rfl

/-- `Fastest` satisfies `EmitDecodes` with the invariant `Tracks`, given the block-encoder contract -/
theorem emit_fastest_decodes {H : Type} (R : H → Spec.Huffman.Table → Prop) (w window : Nat)
    (enc : BlockEnc H) (henc : BlockEncCorrect R w window enc) :
    EmitDecodes window (Tracks R) (FastPre w window) (emitBlock .fastest enc) := by
  intro last blk p st st' bytes e pre hne hpre hinv hem
  obtain ⟨hsz, hvalid⟩ := hpre
  have hsz' := hsz
  simp only [maxBlockSize_eq] at hsz'
  have hmod : blk.length % 2 ^ 32 = blk.length := Nat.mod_eq_of_lt (by omega)
  simp only [emitBlock, compressFastest, hmod] at hem
  cases blk with
  | nil => exact absurd rfl hne
  | cons b t =>
    simp only at hem
    by_cases hall : (b :: t).all (fun x => x == b) = true
    · -- RLE
      simp only [hall, ↓reduceIte, Except.ok.injEq, Prod.mk.injEq, blockTypeRle_eq] at hem
      obtain ⟨hb, hst⟩ := hem
      subst hb; subst hst
      refine ⟨by simp [blockHeader_length] <;> omega, e, hinv, ?_⟩
      intro rest dfuel consumed
      rw [List.append_assoc, decodeBlocks_rle _ _ _ _ _ _ _ _ _ _ (by rw [specBlockMax_eq]; exact hsz')]
      rw [← all_eq_replicate b (b :: t) hall]
      simp [blockHeader_length]
    · simp only [hall, Bool.false_eq_true, ↓reduceIte] at hem
      have hconst : isConstant (b :: t) = false := by
        rw [isConstant_cons]; simpa using hall
      have hv := hvalid hconst
      split at hem
      · cases hem
      · rename_i compressed st1 hencr
        simp only [fastestRawFallbackPresent_eq, fastestRawForgetsHuff_eq, Bool.true_and, ↓reduceIte] at hem
        by_cases hg : (Gen.rawFallbackVsBlock compressed.length (b :: t).length ||
            Gen.rawFallbackVsMax compressed.length Gen.maxBlockSize) = true
        · -- raw fallback; the remembered table is forgotten, so `Tracks` holds against the unchanged decoder
          simp only [hg, ↓reduceIte, Except.ok.injEq, Prod.mk.injEq, blockTypeRaw_eq] at hem
          obtain ⟨hb, hst⟩ := hem
          subst hb; subst hst
          refine ⟨by simp [blockHeader_length] <;> omega, e, tracks_none R st1 e, ?_⟩
          intro rest dfuel consumed
          rw [List.append_assoc, decodeBlocks_raw _ _ _ _ _ _ _ _ _ (by rw [specBlockMax_eq]; exact hsz')]
          simp [blockHeader_length, Nat.add_assoc]
        · -- kept as a compressed block: the contract
          simp only [hg, Bool.false_eq_true, ↓reduceIte, Except.ok.injEq, Prod.mk.injEq, blockTypeCompressed_eq] at hem
          obtain ⟨hb, hst⟩ := hem
          subst hb; subst hst
          simp only [Bool.or_eq_true, not_or, Bool.not_eq_true] at hg
          have hlt := rawFallbackVsBlock_false _ _ hg.1
          have hmax := rawFallbackVsMax_false _ _ hg.2
          rw [maxBlockSize_eq] at hmax
          obtain ⟨h2, e', hdec, htr⟩ := henc p st st1 compressed e pre (b :: t) hv hsz hinv hencr hlt
          have hcm : compressed.length % 2 ^ 32 = compressed.length := Nat.mod_eq_of_lt (by omega)
          refine ⟨by simp [blockHeader_length] <;> omega, e', htr, ?_⟩
          intro rest dfuel consumed
          rw [hcm, List.append_assoc,
            decodeBlocks_compressed _ _ _ _ _ _ _ _ _ _ _ h2 (by rw [specBlockMax_eq]; omega) hdec]
          simp [blockHeader_length, Nat.add_assoc]

end Zstd.Proofs.Enc
