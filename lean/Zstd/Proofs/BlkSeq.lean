import Zstd.Proofs.BlkWF
import Zstd.Proofs.BlkFse
import Zstd.Model.SeqCodes
/-
The sequence section decoder never faults on a well-formed scratch (C03, block level):
`maybe_update_fse_tables`, the three-state sequence loop, `decode_sequences`.

  * reader: every `get_bits(n)` / `get_bits_triple` request is `≤ 56` bits per field, so the C12 reader
    theorems apply (`RevInv`); values are `< 2^n`
  * `FSEDecoder::{init_state, update_state}` on a built table: index `< decode.len()`, no `u32` overflow
  * `lookup_ll_code` / `lookup_ml_code`: symbols are `≤` the alphabet maximum, the `unreachable!` arm is dead
  * `obits as u32 + (1 << of_code)` cannot overflow for `of_code ≤ 31`; the offset value is `≥ 1`
-/
namespace Zstd.Proofs.Blk
open Zstd Zstd.Model Zstd.Model.BitIO Zstd.Model.Fse Zstd.Model.Blk Zstd.Proofs.BitIO

/-! ## reversed reader -/

theorem readBEPad_lt {src : Array Nat} (hb : Bytes src.toList) (pos n : Nat) :
    (Spec.readBEPad n ((stream src).drop pos)).1 < 2 ^ n := by
  rw [readBEPad_stream hb]; exact win_lt _ _ _ _

theorem rev_getBits_ok {src : Array Nat} {r : BitReaderRev} {pos n : Nat}
    (h : RevInv src r pos) (hn : n ≤ 56) :
    ∃ v r', r.getBits n = .ok (v, r') ∧ v < 2 ^ n ∧ RevInv src r' (pos + n) := by
  obtain ⟨r', h1, h2⟩ := bitReaderRev_refines h hn
  exact ⟨_, r', h1, readBEPad_lt h.bytes _ _, h2⟩

theorem rev_getBitsTriple_ok {src : Array Nat} {r : BitReaderRev} {pos n1 n2 n3 : Nat}
    (h : RevInv src r pos) (h1 : n1 ≤ 56) (h2 : n2 ≤ 56) (h3 : n3 ≤ 56) :
    ∃ a b c r', r.getBitsTriple n1 n2 n3 = .ok ((a, b, c), r') ∧ a < 2 ^ n1 ∧ b < 2 ^ n2 ∧ c < 2 ^ n3 ∧
      RevInv src r' (pos + n1 + n2 + n3) := by
  obtain ⟨r', e, hi⟩ := getBitsTriple_eq_three_gets h h1 h2 h3
  exact ⟨_, _, _, r', e, readBEPad_lt h.bytes _ _, readBEPad_lt h.bytes _ _, readBEPad_lt h.bytes _ _, hi⟩

/-- some position: "a reachable reader state over `src`" -/
def RevOK (src : Array Nat) (r : BitReaderRev) : Prop := ∃ pos, RevInv src r pos

theorem RevOK_new {src : Array Nat} (hb : Bytes src.toList) : RevOK src (BitReaderRev.new src) :=
  ⟨0, RevInv_new hb⟩

/-- the padding loop (`skip_end_mark`): at most nine 1-bit reads, no fault -/
theorem skipPadding_ok {src : Array Nat} : ∀ (fuel skipped : Nat) (br : BitReaderRev), RevOK src br →
    (Fse.skipPadding fuel skipped br = .ok none) ∨
    (∃ br', Fse.skipPadding fuel skipped br = .ok (some br') ∧ RevOK src br') := by
  intro fuel
  induction fuel with
  | zero => intro skipped br _; left; rfl
  | succ n ih =>
    intro skipped br ⟨pos, h⟩
    obtain ⟨v, r', e, _, hi⟩ := rev_getBits_ok h (by omega : 1 ≤ 56)
    rw [Fse.skipPadding, e]
    simp only []
    split
    · split
      · left; rfl
      · right; exact ⟨r', rfl, _, hi⟩
    · exact ih _ _ ⟨_, hi⟩

/-! ## `FSEDecoder` on a built table -/

theorem mem_of_getElem? {α} {a : Array α} {i : Nat} {e : α} (h : a[i]? = some e) : e ∈ a.toList := by
  rw [Array.getElem?_eq_some_iff] at h
  obtain ⟨hi, rfl⟩ := h
  exact Array.mem_toList_iff.mpr (Array.getElem_mem hi)

theorem initState_built {maxLog : Nat} {t : DTable} (hb : FseBuilt maxLog t) (hml : maxLog ≤ 9)
    {src : Array Nat} {br : BitReaderRev} (hr : RevOK src br) (d : Fse.Decoder) :
    ∃ d' br', d.initState t br = .ok (d', br') ∧ RevOK src br' ∧ d'.state ∈ t.decode.toList := by
  obtain ⟨pos, h⟩ := hr
  have hal := hb.al_le
  have hpos := hb.al_pos
  obtain ⟨v, r', e, hv, hi⟩ := rev_getBits_ok h (by omega : t.accuracyLog ≤ 56)
  unfold Decoder.initState
  rw [if_neg (by omega), e]
  simp only []
  have hlt : v < t.decode.size := by rw [hb.size]; exact hv
  rw [Array.getElem?_eq_getElem hlt]
  exact ⟨_, r', rfl, ⟨_, hi⟩, Array.mem_toList_iff.mpr (Array.getElem_mem hlt)⟩

theorem updateState_built {maxLog : Nat} {t : DTable} (hb : FseBuilt maxLog t) (hml : maxLog ≤ 9)
    {src : Array Nat} {br : BitReaderRev} (hr : RevOK src br) (d : Fse.Decoder) (hd : d.state ∈ t.decode.toList) :
    ∃ d' br', d.updateState t br = .ok (d', br') ∧ RevOK src br' ∧ d'.state ∈ t.decode.toList := by
  obtain ⟨pos, h⟩ := hr
  have hal := hb.al_le
  obtain ⟨_, hbl, hnb⟩ := hb.entries _ hd
  obtain ⟨v, r', e, hv, hi⟩ := rev_getBits_ok h (by omega : d.state.numBits ≤ 56)
  unfold Decoder.updateState
  rw [e]
  simp only []
  have hlt : d.state.baseLine + v < 2 ^ t.accuracyLog := by omega
  have h9 : 2 ^ t.accuracyLog ≤ 2 ^ 9 := Nat.pow_le_pow_right (by omega) (by omega)
  rw [if_neg (by omega)]
  have hlt' : d.state.baseLine + v < t.decode.size := by rw [hb.size]; exact hlt
  rw [Array.getElem?_eq_getElem hlt']
  exact ⟨_, r', rfl, ⟨_, hi⟩, Array.mem_toList_iff.mpr (Array.getElem_mem hlt')⟩

/-! ## code tables -/

def okBits (r : Except Fault (Nat × Nat)) : Bool :=
  match r with
  | .ok (_, b) => decide (b ≤ 16)
  | .error _ => false

theorem okBits_elim {r : Except Fault (Nat × Nat)} (h : okBits r = true) : ∃ v b, r = .ok (v, b) ∧ b ≤ 16 := by
  unfold okBits at h
  split at h
  · exact ⟨_, _, rfl, of_decide_eq_true h⟩
  · cases h

theorem lookupLL_table : ∀ code, code < 36 → okBits (lookupLL code) = true := by decide
theorem lookupML_table : ∀ code, code < 53 → okBits (lookupML code) = true := by decide

/-- `lookup_ll_code`: the `unreachable!` arm is dead for codes `≤ MAX_LITERAL_LENGTH_CODE`, at most 16 extra bits -/
theorem lookupLL_ok {code : Nat} (h : code ≤ Gen.maxLiteralLengthCode) :
    ∃ v b, lookupLL code = .ok (v, b) ∧ b ≤ 16 :=
  okBits_elim (lookupLL_table code (by simp only [Gen.maxLiteralLengthCode] at h; omega))

/-- `lookup_ml_code`: the `unreachable!` arm is dead for codes `≤ MAX_MATCH_LENGTH_CODE`, at most 16 extra bits -/
theorem lookupML_ok {code : Nat} (h : code ≤ Gen.maxMatchLengthCode) :
    ∃ v b, lookupML code = .ok (v, b) ∧ b ≤ 16 :=
  okBits_elim (lookupML_table code (by simp only [Gen.maxMatchLengthCode] at h; omega))

/-! ## one of the three interleaved channels (LL / ML / OF) -/

/-- channel state the loop relies on: RLE symbol within the alphabet, or a built table with the
decoder's current entry taken from it -/
def ChanOK (maxLog maxCode : Nat) (t : DTable) (rle : Option Nat) (d : Fse.Decoder) : Prop :=
  match rle with
  | some b => b ≤ maxCode
  | none => FseBuilt maxLog t ∧ t.maxSymbol = maxCode ∧ d.state ∈ t.decode.toList

theorem ChanOK.code {maxLog maxCode : Nat} {t : DTable} {rle : Option Nat} {d : Fse.Decoder}
    (h : ChanOK maxLog maxCode t rle d) : rle.getD d.decodeSymbol ≤ maxCode := by
  cases rle with
  | some b => exact h
  | none =>
    obtain ⟨hb, hm, hd⟩ := h
    have := (hb.entries _ hd).1
    simp only [Option.getD, Decoder.decodeSymbol]; omega

/-- `if rle.is_none() { dec.update_state(br) }` -/
def chanUpd (isNone : Bool) (d : Fse.Decoder) (t : DTable) (br : BitReaderRev) :
    Except SeqErr (Fse.Decoder × BitReaderRev) :=
  if isNone then liftFse (d.updateState t br) else .ok (d, br)

/-- `if rle.is_none() { dec.init_state(br)? }` -/
def chanInit (isNone : Bool) (d : Fse.Decoder) (t : DTable) (br : BitReaderRev) :
    Except SeqErr (Fse.Decoder × BitReaderRev) :=
  if isNone then liftFse (d.initState t br) else .ok (d, br)

theorem chanUpd_ok {maxLog maxCode : Nat} {t : DTable} {rle : Option Nat} {d : Fse.Decoder} (hml : maxLog ≤ 9)
    (h : ChanOK maxLog maxCode t rle d) {src : Array Nat} {br : BitReaderRev} (hr : RevOK src br) :
    ∃ d' br', (if rle.isNone then Blk.liftFse (d.updateState t br) else .ok (d, br)) = Except.ok (d', br') ∧
      RevOK src br' ∧ ChanOK maxLog maxCode t rle d' := by
  cases rle with
  | some b => exact ⟨d, br, rfl, hr, h⟩
  | none =>
    obtain ⟨hb, hm, hd⟩ := h
    obtain ⟨d', br', e, hr', hd'⟩ := updateState_built hb hml hr d hd
    refine ⟨d', br', ?_, hr', hb, hm, hd'⟩
    simp only [Option.isNone_none, if_true, e, liftFse]

/-- a channel before `init_state`: RLE symbol within the alphabet, table uninitialised or built -/
def ChanPre (maxLog maxCode : Nat) (t : DTable) (rle : Option Nat) : Prop :=
  FseWF maxLog t ∧ t.maxSymbol = maxCode ∧ ∀ b, rle = some b → b ≤ maxCode

theorem chanInit_ok {maxLog maxCode : Nat} {t : DTable} {rle : Option Nat} (d : Fse.Decoder) (hml : maxLog ≤ 9)
    (h : ChanPre maxLog maxCode t rle) {src : Array Nat} {br : BitReaderRev} (hr : RevOK src br) :
    (if rle.isNone then Blk.liftFse (d.initState t br) else .ok (d, br))
        = Except.error (SeqErr.fseTable .tableIsUninitialized) ∨
    ∃ d' br', (if rle.isNone then Blk.liftFse (d.initState t br) else .ok (d, br)) = Except.ok (d', br') ∧
      RevOK src br' ∧ ChanOK maxLog maxCode t rle d' := by
  obtain ⟨hwf, hm, hrle⟩ := h
  cases rle with
  | some b => right; exact ⟨d, br, rfl, hr, hrle b rfl⟩
  | none =>
    rcases hwf with h0 | hb
    · left
      simp only [Option.isNone_none, if_true, Decoder.initState, h0, liftFse]
    · right
      obtain ⟨d', br', e, hr', hd'⟩ := initState_built hb hml hr d
      refine ⟨d', br', ?_, hr', hb, hm, hd'⟩
      simp only [Option.isNone_none, if_true, e, liftFse]

/-! ## the sequence loop -/

/-- **`decode_sequences_with(out)_rle` never panics and only yields offset values `≥ 1`**: with the
three channels in order (`ChanOK`) and a reachable reader state, every round finds its codes in the
tables (`lookup_*_code` not `unreachable!`), reads `of_code ≤ 31`, `≤ 16`, `≤ 16` extra bits without
fault, cannot overflow `obits as u32 + (1 << of_code)`, and the state updates stay inside the tables.
Termination is structural (`n` rounds). -/
theorem seqLoop_ok (s : FseScratch) (total : Nat) {src : Array Nat} :
    ∀ (n : Nat) (llD mlD ofD : Fse.Decoder) (br : BitReaderRev) (acc : List Spec.Seq),
      ChanOK Gen.llMaxLog Gen.maxLiteralLengthCode s.literalLengths s.llRle llD →
      ChanOK Gen.mlMaxLog Gen.maxMatchLengthCode s.matchLengths s.mlRle mlD →
      ChanOK Gen.ofMaxLog Gen.maxOffsetCode s.offsets s.ofRle ofD →
      RevOK src br → (∀ q ∈ acc, q.ov ≥ 1) →
      (∀ f, seqLoop s total n llD mlD ofD br acc ≠ .error (.fault f)) ∧
      (∀ seqs br', seqLoop s total n llD mlD ofD br acc = .ok (seqs, br') → ∀ q ∈ seqs, q.ov ≥ 1) := by
  intro n
  induction n with
  | zero =>
    intro llD mlD ofD br acc _ _ _ _ hacc
    rw [seqLoop]
    refine ⟨fun f h => (by cases h), ?_⟩
    intro seqs br' h q hq
    simp only [Except.ok.injEq, Prod.mk.injEq] at h
    rw [← h.1] at hq
    exact hacc q (List.mem_reverse.mp hq)
  | succ n ih =>
    intro llD mlD ofD br acc hll hml hof hr hacc
    obtain ⟨llV, llB, ell, hllB⟩ := lookupLL_ok hll.code
    obtain ⟨mlV, mlB, eml, hmlB⟩ := lookupML_ok hml.code
    have hofc := hof.code
    obtain ⟨pos, hri⟩ := hr
    have hofc' : s.ofRle.getD ofD.decodeSymbol ≤ 31 := hofc
    obtain ⟨ob, ma, la, br1, etr, hob, _, _, hri1⟩ :=
      rev_getBitsTriple_ok (n1 := s.ofRle.getD ofD.decodeSymbol) (n2 := mlB) (n3 := llB) hri
        (by omega) (by omega) (by omega)
    have hpow : 2 ^ (s.ofRle.getD ofD.decodeSymbol) ≤ 2 ^ 31 := Nat.pow_le_pow_right (by omega) hofc'
    have hpos : 0 < 2 ^ (s.ofRle.getD ofD.decodeSymbol) := Nat.two_pow_pos _
    have hmod : ob % 2 ^ 32 = ob := Nat.mod_eq_of_lt (by omega)
    rw [seqLoop]
    simp only [ell, eml, Blk.liftFault]
    rw [if_neg (by simp only [Gen.maxOffsetCode]; omega), etr]
    simp only []
    rw [if_neg (by omega), if_neg (by omega)]
    have hacc' : ∀ q ∈ (⟨llV + la % 2 ^ 32, mlV + ma % 2 ^ 32, ob % 2 ^ 32 + 2 ^ (s.ofRle.getD ofD.decodeSymbol)⟩ : Spec.Seq) :: acc,
        q.ov ≥ 1 := by
      intro q hq
      rcases List.mem_cons.mp hq with rfl | hq
      · simp only []; omega
      · exact hacc q hq
    by_cases hlen : (acc.length + 1) < total
    · simp only [List.length_cons, hlen, if_true]
      obtain ⟨llD', br2, e1, hr2, hll'⟩ := chanUpd_ok (by decide) hll ⟨_, hri1⟩
      rw [e1]; simp only []
      obtain ⟨mlD', br3, e2, hr3, hml'⟩ := chanUpd_ok (by decide) hml hr2
      rw [e2]; simp only []
      obtain ⟨ofD', br4, e3, hr4, hof'⟩ := chanUpd_ok (by decide) hof hr3
      rw [e3]; simp only []
      split
      · exact ⟨fun f h => (by cases h), fun _ _ h => (by cases h)⟩
      · exact ih llD' mlD' ofD' br4 _ hll' hml' hof' hr4 hacc'
    · simp only [List.length_cons, hlen, if_false]
      split
      · exact ⟨fun f h => (by cases h), fun _ _ h => (by cases h)⟩
      · exact ih llD mlD ofD br1 _ hll hml hof ⟨_, hri1⟩ hacc'

/-! ## `maybe_update_fse_tables` -/

theorem bytes_extract {src : Array Nat} (hb : Bytes src.toList) (a b : Nat) : Bytes (src.extract a b).toList := by
  intro x hx
  simp only [Array.toList_extract, List.extract_eq_take_drop] at hx
  exact hb x (List.mem_of_mem_drop (List.mem_of_mem_take hx))

/-- one arm (`updateOne`): never a fault; on success the channel is again `ChanPre` and the bytes
used are inside the source -/
theorem updateOne_ok {mode : Nat} {src : Array Nat} {t : DTable} {rle : Option Nat}
    {maxLog maxCode dfltLog : Nat} {dflt : List Int} {rleErr : SeqErr}
    (hb : Bytes src.toList) (hml : maxLog ≤ 9) (hmc : maxCode ≤ 255)
    (hpre : ChanPre maxLog maxCode t rle)
    (hd : ∃ t', t.buildFromProbabilities dfltLog dflt = (t', .ok ()) ∧ FseBuilt maxLog t' ∧ t'.maxSymbol = t.maxSymbol)
    (hre : ∀ f, rleErr ≠ .fault f) :
    (∀ f, (updateOne mode src t rle maxLog maxCode dfltLog dflt rleErr).2 ≠ .error (.fault f)) ∧
    (∀ t' r' n, updateOne mode src t rle maxLog maxCode dfltLog dflt rleErr = ((t', r'), .ok n) →
      ChanPre maxLog maxCode t' r' ∧ n ≤ src.size) := by
  obtain ⟨hwf, hms, hrle⟩ := hpre
  unfold updateOne
  by_cases h2 : mode = 2
  · rw [if_pos h2]
    have hnf := buildDecoder_no_fault t src maxLog hb hml (by omega)
    have hok := fun t1 n => buildDecoder_ok t t1 src maxLog n hb hml (by omega)
    cases hbd : t.buildDecoder src maxLog with
    | mk t1 r =>
      rw [hbd] at hnf
      cases r with
      | ok n =>
        obtain ⟨h1, h2, h3⟩ := hok t1 n hbd
        simp only []
        refine ⟨fun f h => (by cases h), ?_⟩
        intro t' r' n' h
        simp only [Prod.mk.injEq, Except.ok.injEq] at h
        obtain ⟨⟨rfl, rfl⟩, rfl⟩ := h
        exact ⟨⟨Or.inr h1, by omega, fun b hb => by cases hb⟩, h3⟩
      | error e =>
        cases e with
        | fault f => exact absurd rfl (hnf f)
        | _ => exact ⟨fun f h => (by cases h), fun _ _ _ h => (by cases h)⟩
  · rw [if_neg h2]
    by_cases h1 : mode = 1
    · rw [if_pos h1]
      cases hs : src[0]? with
      | none =>
        simp only []
        exact ⟨fun f h => (by simp only [Except.error.injEq] at h; exact hre f h), fun _ _ _ h => (by cases h)⟩
      | some b =>
        simp only []
        split
        · exact ⟨fun f h => (by cases h), fun _ _ _ h => (by cases h)⟩
        · rename_i hbm
          refine ⟨fun f h => (by cases h), ?_⟩
          intro t' r' n' h
          simp only [Prod.mk.injEq, Except.ok.injEq] at h
          obtain ⟨⟨rfl, rfl⟩, rfl⟩ := h
          have hsz : 0 < src.size := by
            rcases Nat.eq_zero_or_pos src.size with h0 | h0
            · rw [Array.getElem?_eq_none (by omega)] at hs; cases hs
            · exact h0
          refine ⟨⟨hwf, hms, ?_⟩, hsz⟩
          intro b' hb'
          simp only [Option.some.injEq] at hb'
          omega
    · rw [if_neg h1]
      by_cases h0 : mode = 0
      · rw [if_pos h0]
        obtain ⟨t1, e, hbt, hmt⟩ := hd
        rw [e]
        simp only []
        refine ⟨fun f h => (by cases h), ?_⟩
        intro t' r' n' h
        simp only [Prod.mk.injEq, Except.ok.injEq] at h
        obtain ⟨⟨rfl, rfl⟩, rfl⟩ := h
        exact ⟨⟨Or.inr hbt, by omega, fun b hb => by cases hb⟩, Nat.zero_le _⟩
      · rw [if_neg h0]
        refine ⟨fun f h => (by cases h), ?_⟩
        intro t' r' n' h
        simp only [Prod.mk.injEq, Except.ok.injEq] at h
        obtain ⟨⟨rfl, rfl⟩, rfl⟩ := h
        exact ⟨⟨hwf, hms, hrle⟩, Nat.zero_le _⟩

/-- the FSE part of the scratch: each of the three channels is `ChanPre` -/
structure FseScratchWF (s : FseScratch) : Prop where
  ll : ChanPre Gen.llMaxLog Gen.maxLiteralLengthCode s.literalLengths s.llRle
  of : ChanPre Gen.ofMaxLog Gen.maxOffsetCode s.offsets s.ofRle
  ml : ChanPre Gen.mlMaxLog Gen.maxMatchLengthCode s.matchLengths s.mlRle

theorem maybeUpdateFseTables_ok (modes : Option Nat) {src : Array Nat} (hb : Bytes src.toList)
    {s : FseScratch} (hs : FseScratchWF s) :
    (∀ f, (maybeUpdateFseTables modes src s).2 ≠ .error (.fault f)) ∧
    (∀ s' n, maybeUpdateFseTables modes src s = (s', .ok n) → FseScratchWF s' ∧ n ≤ src.size) := by
  unfold maybeUpdateFseTables
  cases modes with
  | none => exact ⟨fun f h => (by cases h), fun _ _ h => (by cases h)⟩
  | some m =>
    simp only []
    obtain ⟨nf1, ok1⟩ := updateOne_ok (mode := modeOf (m / 64 % 4)) (dfltLog := Gen.llDefaultAccLog)
      (dflt := Gen.llDistDec) (rleErr := .missingByteForRleLlTable) hb (by decide) (by decide) hs.ll
      (buildFromProbabilities_ll _ hs.ll.2.1) (fun f h => by cases h)
    cases h1 : updateOne (modeOf (m / 64 % 4)) src s.literalLengths s.llRle Gen.llMaxLog Gen.maxLiteralLengthCode
        Gen.llDefaultAccLog Gen.llDistDec .missingByteForRleLlTable with
    | mk p1 r1 =>
      obtain ⟨t1, rl1⟩ := p1
      rw [h1] at nf1
      cases r1 with
      | error e => exact ⟨nf1, fun _ _ h => (by cases h)⟩
      | ok n1 =>
        obtain ⟨c1, hn1⟩ := ok1 t1 rl1 n1 h1
        simp only []
        rw [if_neg (by omega)]
        have hb2 := bytes_extract hb n1 src.size
        obtain ⟨nf2, ok2⟩ := updateOne_ok (mode := modeOf (m / 16 % 4)) (dfltLog := Gen.ofDefaultAccLog)
          (dflt := Gen.ofDistDec) (rleErr := .missingByteForRleOfTable) hb2 (by decide) (by decide) hs.of
          (buildFromProbabilities_of _ hs.of.2.1) (fun f h => by cases h)
        cases h2 : updateOne (modeOf (m / 16 % 4)) (src.extract n1 src.size) s.offsets s.ofRle Gen.ofMaxLog Gen.maxOffsetCode
            Gen.ofDefaultAccLog Gen.ofDistDec .missingByteForRleOfTable with
        | mk p2 r2 =>
          obtain ⟨t2, rl2⟩ := p2
          rw [h2] at nf2
          cases r2 with
          | error e => exact ⟨nf2, fun _ _ h => (by cases h)⟩
          | ok n2 =>
            obtain ⟨c2, hn2⟩ := ok2 t2 rl2 n2 h2
            have hsz2 : (src.extract n1 src.size).size = src.size - n1 := by simp
            simp only []
            rw [if_neg (by omega)]
            have hb3 := bytes_extract hb (n1 + n2) src.size
            obtain ⟨nf3, ok3⟩ := updateOne_ok (mode := modeOf (m / 4 % 4)) (dfltLog := Gen.mlDefaultAccLog)
              (dflt := Gen.mlDistDec) (rleErr := .missingByteForRleMlTable) hb3 (by decide) (by decide) hs.ml
              (buildFromProbabilities_ml _ hs.ml.2.1) (fun f h => by cases h)
            cases h3 : updateOne (modeOf (m / 4 % 4)) (src.extract (n1 + n2) src.size) s.matchLengths s.mlRle Gen.mlMaxLog
                Gen.maxMatchLengthCode Gen.mlDefaultAccLog Gen.mlDistDec .missingByteForRleMlTable with
            | mk p3 r3 =>
              obtain ⟨t3, rl3⟩ := p3
              rw [h3] at nf3
              cases r3 with
              | error e => exact ⟨nf3, fun _ _ h => (by cases h)⟩
              | ok n3 =>
                obtain ⟨c3, hn3⟩ := ok3 t3 rl3 n3 h3
                have hsz3 : (src.extract (n1 + n2) src.size).size = src.size - (n1 + n2) := by simp
                simp only []
                refine ⟨fun f h => (by cases h), ?_⟩
                intro s' n' h
                simp only [Prod.mk.injEq, Except.ok.injEq] at h
                obtain ⟨rfl, rfl⟩ := h
                exact ⟨⟨c1, c2, c3⟩, by omega⟩

/-! ## `decode_sequences` -/

/-- the bitstream part: no fault; every offset value is `≥ 1` -/
theorem decodeSeqStream_ok (n : Nat) {src : Array Nat} (hb : Bytes src.toList) {s1 : FseScratch}
    (hs1 : FseScratchWF s1) :
    (∀ f, decodeSeqStream n s1 src ≠ .error (.fault f)) ∧
    (∀ seqs, decodeSeqStream n s1 src = .ok seqs → ∀ q ∈ seqs, q.ov ≥ 1) := by
  unfold decodeSeqStream
  simp only []
  rcases skipPadding_ok 9 0 _ (RevOK_new hb) with e | ⟨br0, e, hr0⟩
  · rw [skipEndMark, e]
    exact ⟨fun f h => (by cases h), fun _ h => (by cases h)⟩
  · rw [skipEndMark, e]
    simp only []
    rcases chanInit_ok (Fse.Decoder.new s1.literalLengths) (by decide) hs1.ll hr0 with e1 | ⟨llD, br1, e1, hr1, hll⟩
    · rw [e1]; exact ⟨fun f h => (by cases h), fun _ h => (by cases h)⟩
    · rw [e1]; simp only []
      rcases chanInit_ok (Fse.Decoder.new s1.offsets) (by decide) hs1.of hr1 with e2 | ⟨ofD, br2, e2, hr2, hof⟩
      · rw [e2]; exact ⟨fun f h => (by cases h), fun _ h => (by cases h)⟩
      · rw [e2]; simp only []
        rcases chanInit_ok (Fse.Decoder.new s1.matchLengths) (by decide) hs1.ml hr2 with e3 | ⟨mlD, br3, e3, hr3, hml⟩
        · rw [e3]; exact ⟨fun f h => (by cases h), fun _ h => (by cases h)⟩
        · rw [e3]; simp only []
          obtain ⟨nfL, okL⟩ := seqLoop_ok s1 n n llD mlD ofD br3 [] hll hml hof hr3 (fun q hq => by cases hq)
          cases hL : seqLoop s1 n n llD mlD ofD br3 [] with
          | error e =>
            rw [hL] at nfL
            simp only []
            exact ⟨fun f h => nfL f (by simp only [Except.error.injEq] at h; rw [h]), fun _ h => (by cases h)⟩
          | ok p =>
            obtain ⟨seqs, brE⟩ := p
            simp only []
            split
            · exact ⟨fun f h => (by cases h), fun _ h => (by cases h)⟩
            · refine ⟨fun f h => (by cases h), ?_⟩
              intro seqs' h
              simp only [Except.ok.injEq] at h
              subst h
              exact okL seqs brE hL

/-- **`decode_sequences` never panics on a well-formed scratch**, whatever the bytes, the mode byte and
the sequence count; on success the scratch is well formed again and every offset value is `≥ 1`
(what `execute_sequences` needs). -/
theorem decodeSequences_ok (n : Nat) (modes : Option Nat) {source : List Nat} (hb : Bytes source)
    {s : FseScratch} (hs : FseScratchWF s) :
    (∀ f, (decodeSequences n modes source s).2 ≠ .error (.fault f)) ∧
    (∀ s' seqs, decodeSequences n modes source s = (s', .ok seqs) → FseScratchWF s' ∧ ∀ q ∈ seqs, q.ov ≥ 1) := by
  have hb' : Bytes source.toArray.toList := by simpa using hb
  obtain ⟨nfU, okU⟩ := maybeUpdateFseTables_ok modes hb' hs
  unfold decodeSequences
  simp only []
  cases hU : maybeUpdateFseTables modes source.toArray s with
  | mk s1 r =>
    rw [hU] at nfU
    cases r with
    | error e =>
      simp only []
      exact ⟨fun f h => nfU f (by simpa using h), fun _ _ h => (by cases h)⟩
    | ok bytesRead =>
      obtain ⟨hs1, hbr⟩ := okU s1 bytesRead hU
      simp only []
      rw [if_neg (by omega)]
      have hb2 := bytes_extract hb' bytesRead source.toArray.size
      obtain ⟨nf, ok⟩ := decodeSeqStream_ok n hb2 hs1
      refine ⟨nf, ?_⟩
      intro s' seqs h
      simp only [Prod.mk.injEq] at h
      obtain ⟨rfl, h⟩ := h
      exact ⟨hs1, ok seqs h⟩

/-! ## the alphabets (`max_symbol`, set by `FSETable::new`) never change, whatever the outcome -/

theorem buildFromProbabilities_maxSymbol (t : DTable) (al : Nat) (probs : List Int) :
    (t.buildFromProbabilities al probs).1.maxSymbol = t.maxSymbol := by
  unfold DTable.buildFromProbabilities
  split
  · rfl
  · rw [buildDecodingTable_maxSymbol]

theorem updateOne_maxSymbol (mode : Nat) (src : Array Nat) (t : DTable) (rle : Option Nat)
    (maxLog maxCode dfltLog : Nat) (dflt : List Int) (rleErr : SeqErr) :
    (updateOne mode src t rle maxLog maxCode dfltLog dflt rleErr).1.1.maxSymbol = t.maxSymbol := by
  unfold updateOne
  split
  · have := buildDecoder_maxSymbol t src maxLog
    split <;> rename_i h <;> rw [h] at this <;> exact this
  · split
    · split
      · rfl
      · split <;> rfl
    · split
      · have := buildFromProbabilities_maxSymbol t dfltLog dflt
        split <;> rename_i h <;> rw [h] at this <;> exact this
      · rfl

/-- the three `max_symbol` fields -/
def FseAlphabets (s : FseScratch) : Prop :=
  s.literalLengths.maxSymbol = Gen.maxLiteralLengthCode ∧ s.offsets.maxSymbol = Gen.maxOffsetCode ∧
  s.matchLengths.maxSymbol = Gen.maxMatchLengthCode

theorem maybeUpdateFseTables_alphabets (modes : Option Nat) (src : Array Nat) {s : FseScratch}
    (h : FseAlphabets s) : FseAlphabets (maybeUpdateFseTables modes src s).1 := by
  obtain ⟨a1, a2, a3⟩ := h
  unfold maybeUpdateFseTables
  cases modes with
  | none => exact ⟨a1, a2, a3⟩
  | some m =>
    simp only []
    have m1 := updateOne_maxSymbol (modeOf (m / 64 % 4)) src s.literalLengths s.llRle Gen.llMaxLog
      Gen.maxLiteralLengthCode Gen.llDefaultAccLog Gen.llDistDec .missingByteForRleLlTable
    split
    · rename_i h1; rw [h1] at m1; exact ⟨by simpa [a1] using m1, a2, a3⟩
    · rename_i t1 r1 n1 h1
      rw [h1] at m1
      split
      · exact ⟨by simpa [a1] using m1, a2, a3⟩
      · have m2 := updateOne_maxSymbol (modeOf (m / 16 % 4)) (src.extract n1 src.size) s.offsets s.ofRle Gen.ofMaxLog
          Gen.maxOffsetCode Gen.ofDefaultAccLog Gen.ofDistDec .missingByteForRleOfTable
        split
        · rename_i h2; rw [h2] at m2; exact ⟨by simpa [a1] using m1, by simpa [a2] using m2, a3⟩
        · rename_i t2 r2 n2 h2
          rw [h2] at m2
          split
          · exact ⟨by simpa [a1] using m1, by simpa [a2] using m2, a3⟩
          · have m3 := updateOne_maxSymbol (modeOf (m / 4 % 4)) (src.extract (n1 + n2) src.size) s.matchLengths s.mlRle
              Gen.mlMaxLog Gen.maxMatchLengthCode Gen.mlDefaultAccLog Gen.mlDistDec .missingByteForRleMlTable
            split <;> rename_i h3 <;> rw [h3] at m3 <;>
              exact ⟨by simpa [a1] using m1, by simpa [a2] using m2, by simpa [a3] using m3⟩

theorem decodeSequences_alphabets (n : Nat) (modes : Option Nat) (source : List Nat) {s : FseScratch}
    (h : FseAlphabets s) : FseAlphabets (decodeSequences n modes source s).1 := by
  have hU := maybeUpdateFseTables_alphabets modes source.toArray h
  unfold decodeSequences
  simp only []
  split
  · rename_i h1; rw [h1] at hU; exact hU
  · rename_i s1 br h1
    rw [h1] at hU
    split <;> exact hU

end Zstd.Proofs.Blk
