import Zstd.Proofs.MatchInv
/-
Helper lemmas for C17, part 5: from the recursive index-level description `Parse` of the reported
sequences to statements per sequence index, and to the decoder's view (`execSeqs`).
-/
namespace Zstd.Proofs.MG
open Zstd Zstd.Model.MG

theorem lits_length (data : Array Byte) (a b : Nat) : (lits data a b).length = min b data.size - a := by
  simp [lits]; omega

theorem take_append_slice {α} (A B : List α) (pos e : Nat) (h : pos ≤ e) :
    (A ++ B).take (A.length + pos) ++ (B.drop pos).take (e - pos) = (A ++ B).take (A.length + e) := by
  have t1 : (A ++ B).take (A.length + pos) = A ++ B.take pos := by
    rw [List.take_append]
    have e1 : A.length + pos - A.length = pos := by omega
    rw [e1, List.take_of_length_le (by omega)]
  have t2 : (A ++ B).take (A.length + e) = A ++ B.take e := by
    rw [List.take_append]
    have e1 : A.length + e - A.length = e := by omega
    rw [e1, List.take_of_length_le (by omega)]
  rw [t1, t2, List.append_assoc]
  congr 1
  have e3 : e = pos + (e - pos) := by omega
  conv => rhs; rw [e3, List.take_add]

theorem lits_eq (data : Array Byte) (a b : Nat) : lits data a b = (data.toList.drop a).take (b - a) := by
  simp [lits, List.extract_eq_take_drop]

theorem startOf_zero (seqs : List Seq) : startOf seqs 0 = 0 := by simp [startOf]
theorem startOf_succ (sq : Seq) (seqs : List Seq) (i : Nat) :
    startOf (sq :: seqs) (i + 1) = sq.span + startOf seqs i := by simp [startOf]

/-- per-index reading of `Parse` -/
theorem parse_index (data : Array Byte) (w : Shape) : ∀ (seqs : List Seq) (pos : Nat), Parse data w pos seqs →
    pos + (seqs.map Seq.span).sum = data.size ∧
    ∀ i sq, seqs[i]? = some sq →
      sq.lits = lits data (pos + startOf seqs i) (pos + startOf seqs i + sq.lits.length) ∧
      pos + startOf seqs i + sq.span ≤ data.size ∧
      (∀ l off ml, sq = .triple l off ml → GoodIn data (pos + startOf seqs i + l.length) w (off, ml)) ∧
      (∀ l, sq = .literals l → i + 1 = seqs.length ∧ l ≠ []) := by
  intro seqs
  induction seqs with
  | nil => intro pos h; simp only [Parse] at h; simp [h]
  | cons sq rest ih =>
    intro pos h
    cases sq with
    | literals l =>
      simp only [Parse] at h
      obtain ⟨h1, h2, h3⟩ := h
      subst h3
      have hlen : l.length = data.size - pos := by rw [h1, lits_length]; omega
      refine ⟨by simp [Seq.span, Seq.lits, Seq.matchLen]; omega, ?_⟩
      intro i sq hi
      cases i with
      | zero =>
        simp only [List.getElem?_cons_zero, Option.some.injEq] at hi
        subst hi
        simp only [startOf_zero, Nat.add_zero, Seq.lits, Seq.span, Seq.matchLen]
        refine ⟨?_, ?_, ?_, ?_⟩
        · rw [hlen]
          have : pos + (data.size - pos) = data.size := by omega
          rw [this]; exact h1
        · omega
        · intro _ _ _ h; cases h
        · intro l' h'
          cases h'
          refine ⟨by simp, ?_⟩
          intro hnil
          rw [hnil] at hlen
          simp at hlen
          omega
      | succ i => simp at hi
    | triple l off ml =>
      simp only [Parse] at h
      obtain ⟨s', h1, h2, h3, h4, h5⟩ := h
      have hlen : l.length = s' - pos := by rw [h2, lits_length]; omega
      obtain ⟨ih1, ih2⟩ := ih (s' + ml) h5
      refine ⟨by simp [Seq.span, Seq.lits, Seq.matchLen]; omega, ?_⟩
      intro i sq hi
      cases i with
      | zero =>
        simp only [List.getElem?_cons_zero, Option.some.injEq] at hi
        subst hi
        simp only [startOf_zero, Nat.add_zero, Seq.lits, Seq.span, Seq.matchLen]
        have e : pos + l.length = s' := by omega
        refine ⟨by rw [e]; exact h2, by omega, ?_, by intro _ h; cases h⟩
        intro l' off' ml' h'
        cases h'
        rw [e]; exact h4
      | succ i =>
        simp only [List.getElem?_cons_succ] at hi
        obtain ⟨g1, g2, g3, g4⟩ := ih2 i sq hi
        rw [startOf_succ]
        simp only [Seq.span, Seq.lits, Seq.matchLen]
        have e : pos + (l.length + ml + startOf rest i) = s' + ml + startOf rest i := by omega
        rw [e]
        refine ⟨g1, g2, g3, ?_⟩
        intro l' h'
        obtain ⟨k1, k2⟩ := g4 l' h'
        exact ⟨by simp; omega, k2⟩

/-! ### the decoder's view -/

theorem copyMatch_spec (C : List Byte) (off : Nat) : ∀ (ml p : Nat), 1 ≤ off → off ≤ p → p + ml ≤ C.length →
    (∀ k, k < ml → C[p + k - off]? = C[p + k]?) →
    copyMatch (C.take p) off ml = some (C.take (p + ml)) := by
  intro ml
  induction ml with
  | zero => intro p _ _ _ _; simp [copyMatch]
  | succ ml ih =>
    intro p h1 h2 h3 h4
    unfold copyMatch
    have hlen : (C.take p).length = p := by simp; omega
    rw [hlen]
    have hcond : ¬ (off = 0 ∨ off > p) := by omega
    simp only [hcond, if_false]
    have hp : p < C.length := by omega
    have h0 := h4 0 (by omega)
    simp only [Nat.add_zero] at h0
    have hget : (C.take p)[p - off]? = some C[p] := by
      rw [List.getElem?_take_of_lt (by omega), h0]
      simp [hp]
    rw [hget]
    simp only []
    rw [List.take_append_getElem hp]
    have := ih (p + 1) h1 (by omega) (by omega) (by
      intro k hk
      have := h4 (k + 1) (by omega)
      have e1 : p + (k + 1) - off = p + 1 + k - off := by omega
      have e2 : p + (k + 1) = p + 1 + k := by omega
      rwa [e1, e2] at this)
    rw [this]
    congr 2
    omega

/-- Executing the reported sequences the way a decoder does, on top of the retained bytes and the
part of the block already reported, reproduces the block. -/
theorem parse_exec (w : Shape) (cur : Array Byte) (b : Nat) (hb : BaseOk w) (hlast : w.getLast? = some (cur, b)) :
    ∀ (seqs : List Seq) (pos : Nat), Parse cur w pos seqs →
      execSeqs ((flat w).take (total w.dropLast + pos)) seqs = some (flat w) := by
  have htot := total_dropLast_add_last w (cur, b) hlast
  have hflat : flat w = flat w.dropLast ++ cur.toList := by
    conv => lhs; rw [eq_dropLast_append_of_getLast? w (cur, b) hlast]
    simp
  simp only [] at htot
  intro seqs
  induction seqs with
  | nil =>
    intro pos h
    simp only [Parse] at h
    simp only [execSeqs]
    rw [List.take_of_length_le (by simp; omega)]
  | cons sq rest ih =>
    intro pos h
    -- literals from `pos` to `e` of the block are the bytes of the window at that place
    have hl : ∀ e, pos ≤ e → e ≤ cur.size →
        (flat w).take (total w.dropLast + pos) ++ lits cur pos e = (flat w).take (total w.dropLast + e) := by
      intro e h1 h2
      rw [lits_eq, hflat]
      have := take_append_slice (flat w.dropLast) cur.toList pos e h1
      simpa using this
    cases sq with
    | literals l =>
      simp only [Parse] at h
      obtain ⟨h1, h2, h3⟩ := h
      subst h3
      simp only [execSeqs]
      rw [h1, hl cur.size (by omega) (Nat.le_refl _), List.take_of_length_le (by simp; omega)]
    | triple l off ml =>
      simp only [Parse] at h
      obtain ⟨s', h1, h2, h3, h4, h5⟩ := h
      obtain ⟨g1, g2, g3, g4, g5⟩ := goodIn_bytes w cur b s' off ml hb hlast h4
      simp only [execSeqs]
      rw [h2, hl s' h1 (by omega)]
      have := copyMatch_spec (flat w) off ml (total w.dropLast + s')
        (by have := minMatchLen_pos; omega) g3 (by simp; omega) g5
      rw [this]
      simp only []
      have e : total w.dropLast + s' + ml = total w.dropLast + (s' + ml) := by omega
      rw [e]
      exact ih (s' + ml) h5

end Zstd.Proofs.MG
