import Zstd.Proofs.DecodeBufDrain
/-
Helper lemmas for C04, layer 6c: the public draining functions of `DecodeBuffer`
(`drain`, `read`, `read_all`, `drain_to_window_size`, `drain_to_writer`, `drain_to_window_size_writer`)
and `repeat` for every offset > 0.
-/
namespace Zstd.Model
open Zstd RingBuffer

namespace DecodeBuffer

variable {d : DecodeBuffer}

theorem vecClosure_all : AcceptsAll vecClosure := by
  intro s buf out h
  simp only [vecClosure, pure_eq_ok, Except.ok.injEq] at h
  subst h; exact ⟨rfl, rfl⟩

theorem targetClosure_all : AcceptsAll targetClosure := by
  intro s buf out h
  unfold targetClosure at h
  by_cases hc : s.2.length + buf.length ≤ s.1
  · rw [check_ok hc, ok_bind, pure_eq_ok] at h
    simp only [Except.ok.injEq] at h
    subst h; exact ⟨rfl, rfl⟩
  · rw [check_err hc, error_bind] at h; cases h

theorem canDrainToWindowSize_eq (hI : d.Inv) :
    d.canDrainToWindowSize =
      .ok (if d.abs.length > d.windowSize then some (d.abs.length - d.windowSize) else none) := by
  unfold canDrainToWindowSize
  rw [RingBuffer.Inv.lenC_eq hI, ok_bind, pure_eq_ok]
  show _ = Except.ok (if d.buffer.abs.length > _ then some (d.buffer.abs.length - _) else none)
  rw [abs_length]

theorem canDrain_eq (hI : d.Inv) : d.canDrain = .ok d.abs.length := by
  unfold canDrain
  rw [RingBuffer.Inv.lenC_eq hI]
  show _ = Except.ok d.buffer.abs.length
  rw [abs_length]

/-- `drain()`: everything is handed out and hashed, the buffer is empty afterwards -/
theorem drain_ok (hI : d.Inv) :
    ∃ d', d.drain = .ok (d', d.abs) ∧ d'.Inv ∧ d'.abs = [] ∧ d'.hash = d.hash ++ d.abs ∧
      d'.dict = d.dict ∧ d'.windowSize = d.windowSize ∧ d'.total = d.total ∧
      d'.buffer.cap = d.buffer.cap := by
  unfold drain
  obtain ⟨a, b, b0, eas, hab, _, c1, c2, c3, c4⟩ := asSlices_ok hI
  obtain ⟨hI0, _, _⟩ := same_fields hI c1 c2 c3 c4
  rw [eas, ok_bind, pure_eq_ok]
  have : d.abs = a ++ b := hab.symm
  refine ⟨{ d with buffer := b0.clear, hash := d.hash ++ a ++ b }, by rw [this],
    (clear_ok hI0).1, (clear_ok hI0).2.1, ?_, rfl, rfl, rfl, c1⟩
  show d.hash ++ a ++ b = _
  rw [this, List.append_assoc]

/-- `read` / `read_all` core: `drain_to(amount, copy-into-target)` with `amount ≤ target.len()` -/
theorem drainTo_target (hI : d.Inv) {amount T : Nat} (hT : amount ≤ T) (hl : amount ≤ d.abs.length) :
    ∃ d', d.drainTo amount targetClosure (T, []) = .ok (d', (T, d.abs.take amount), .ok amount) ∧
      d'.Inv ∧ d'.abs = d.abs.drop amount ∧ d'.hash = d.hash ++ d.abs.take amount ∧
      d'.dict = d.dict ∧ d'.windowSize = d.windowSize ∧ d'.total = d.total ∧
      d'.buffer.cap = d.buffer.cap := by
  obtain ⟨out, e⟩ := drainTo_noFault targetClosure_ok hI amount (T, ([] : List Byte))
    (by
      intro buf hb
      unfold targetClosure
      rw [check_ok (by simp only [List.length_nil]; omega), ok_bind, pure_eq_ok]
      exact ⟨_, rfl⟩)
    (by
      intro buf1 out1 buf2 hw1 _ hb
      unfold targetClosure at hw1
      rw [check_ok (by simp only [List.length_nil]; omega), ok_bind, pure_eq_ok] at hw1
      simp only [Except.ok.injEq] at hw1
      subst hw1
      unfold targetClosure
      rw [check_ok (by simp only [List.nil_append]; omega), ok_bind, pure_eq_ok]
      exact ⟨_, rfl⟩)
  obtain ⟨d', s', res⟩ := out
  obtain ⟨k, _, _, hdel, ha, hh, hI', _, hfull, hd, hw, ht, hcp⟩ := drainTo_exact targetClosure_ok hI e
  obtain ⟨hk, hres⟩ := hfull targetClosure_all
  have hk' : k = amount := by omega
  subst hk'
  -- the closure never changes the target length
  have hT' : s'.1 = T := by
    -- follows from the shape of the closure; recover it from the run
    have aux : ∀ {σs : Nat × List Byte} {buf : List Byte} {o : Nat × Option IoErr × (Nat × List Byte)},
        targetClosure σs buf = .ok o → o.2.2.1 = σs.1 := by
      intro σs buf o h
      unfold targetClosure at h
      by_cases hc : σs.2.length + buf.length ≤ σs.1
      · rw [check_ok hc, ok_bind, pure_eq_ok] at h
        simp only [Except.ok.injEq] at h
        subst h; rfl
      · rw [check_err hc, error_bind] at h; cases h
    -- walk the call
    unfold drainTo at e
    by_cases ha0 : k = 0
    · simp only [ha0, ↓reduceIte, pure_eq_ok, Except.ok.injEq, Prod.mk.injEq] at e
      rw [← e.2.1]
    · simp only [ha0, ↓reduceIte] at e
      obtain ⟨a, b, b0, eas, _⟩ := asSlices_ok hI
      rw [eas, ok_bind] at e
      by_cases hn1 : min a.length k ≠ 0
      · rw [if_pos hn1] at e
        cases hw1 : targetClosure (T, []) (a.take (min a.length k)) with
        | error f => rw [hw1, error_bind] at e; cases e
        | ok r1 =>
          have t1 := aux hw1
          have f1 := targetClosure_all _ _ _ hw1
          rw [hw1, ok_bind] at e
          cases hc1 : check (r1.1 ≤ a.length) "decode_buffer.rs:drain_to:&slice1[..written1]" with
          | error f => rw [hc1, error_bind] at e; cases e
          | ok u =>
            rw [hc1, ok_bind] at e
            simp only [f1.2] at e
            by_cases hseg : r1.1 = min a.length k ∧ min b.length (k - min a.length k) ≠ 0
            · rw [if_pos hseg] at e
              cases hw2 : targetClosure r1.2.2 (b.take (min b.length (k - min a.length k))) with
              | error f => rw [hw2, error_bind] at e; cases e
              | ok r2 =>
                have t2 := aux hw2
                have f2 := targetClosure_all _ _ _ hw2
                rw [hw2, ok_bind] at e
                cases hc2 : check (r2.1 ≤ b.length) "decode_buffer.rs:drain_to:&slice2[..written2]" with
                | error f => rw [hc2, error_bind] at e; cases e
                | ok u2 =>
                  rw [hc2, ok_bind] at e
                  cases hg : guardDrop b0 (r1.1 + r2.1) with
                  | error f => rw [hg, error_bind] at e; cases e
                  | ok b' =>
                    rw [hg, ok_bind] at e
                    simp only [f2.2, pure_eq_ok, Except.ok.injEq, Prod.mk.injEq] at e
                    rw [← e.2.1, t2, t1]
            · rw [if_neg hseg] at e
              cases hg : guardDrop b0 r1.1 with
              | error f => rw [hg, error_bind] at e; cases e
              | ok b' =>
                rw [hg, ok_bind, pure_eq_ok] at e
                simp only [Except.ok.injEq, Prod.mk.injEq] at e
                rw [← e.2.1, t1]
      · rw [if_neg hn1, pure_eq_ok] at e
        simp only [Except.ok.injEq, Prod.mk.injEq] at e
        rw [← e.2.1]
  have hs' : s' = (T, d.abs.take k) := by
    have : s'.2 = d.abs.take k := by simpa using hdel
    rw [← hT', ← this]
  refine ⟨d', ?_, hI', ha, hh, hd, hw, ht, hcp⟩
  rw [e, hs', hres]

/-- `<DecodeBuffer as Read>::read(target)`: exactly `min (len - window_size) target.len()` bytes are
handed out (the window is retained), dropped and hashed -/
theorem read_ok (hI : d.Inv) (T : Nat) :
    ∃ d', d.read T = .ok (d', d.abs.take (min (d.abs.length - d.windowSize) T),
        .ok (min (d.abs.length - d.windowSize) T)) ∧ d'.Inv ∧
      d'.abs = d.abs.drop (min (d.abs.length - d.windowSize) T) ∧
      d'.hash = d.hash ++ d.abs.take (min (d.abs.length - d.windowSize) T) ∧
      d'.dict = d.dict ∧ d'.windowSize = d.windowSize ∧ d'.total = d.total ∧
      d'.buffer.cap = d.buffer.cap := by
  unfold read
  rw [canDrainToWindowSize_eq hI, ok_bind]
  have hamt : (if d.abs.length > d.windowSize then some (d.abs.length - d.windowSize) else none).getD 0 =
      d.abs.length - d.windowSize := by
    split
    · rfl
    · simp only [Option.getD_none]; omega
  simp only [hamt]
  obtain ⟨d', e, hI', ha, hh, hd, hw, ht, hcp⟩ := drainTo_target hI (amount := min (d.abs.length - d.windowSize) T)
    (T := T) (Nat.min_le_right _ _) (by omega)
  rw [e, ok_bind, pure_eq_ok]
  exact ⟨d', rfl, hI', ha, hh, hd, hw, ht, hcp⟩

/-- `read_all(target)`: `min len target.len()` bytes -/
theorem readAll_ok (hI : d.Inv) (T : Nat) :
    ∃ d', d.readAll T = .ok (d', d.abs.take (min d.abs.length T), .ok (min d.abs.length T)) ∧ d'.Inv ∧
      d'.abs = d.abs.drop (min d.abs.length T) ∧
      d'.hash = d.hash ++ d.abs.take (min d.abs.length T) ∧
      d'.dict = d.dict ∧ d'.windowSize = d.windowSize ∧ d'.total = d.total ∧
      d'.buffer.cap = d.buffer.cap := by
  unfold readAll
  rw [RingBuffer.Inv.lenC_eq hI, ok_bind]
  have : d.buffer.len = d.abs.length := (abs_length (r := d.buffer)).symm
  simp only [this]
  obtain ⟨d', e, hI', ha, hh, hd, hw, ht, hcp⟩ := drainTo_target hI (amount := min d.abs.length T)
    (T := T) (Nat.min_le_right _ _) (Nat.min_le_left _ _)
  rw [e, ok_bind, pure_eq_ok]
  exact ⟨d', rfl, hI', ha, hh, hd, hw, ht, hcp⟩

/-- the two `*_writer` functions and `drain_to_window_size` share this: `drain_to` with a total closure -/
theorem drainTo_total {σ : Type} {wb : σ → List Byte → Except Fault (Nat × Option IoErr × σ)}
    {delivered : σ → List Byte} (hwb : ClosureOk wb delivered)
    (htot : ∀ s buf, ∃ out, wb s buf = .ok out) (hI : d.Inv) (amount : Nat) (s : σ) :
    ∃ d' s' res k, d.drainTo amount wb s = .ok (d', s', res) ∧ k ≤ amount ∧ k ≤ d.abs.length ∧
      delivered s' = delivered s ++ d.abs.take k ∧ d'.abs = d.abs.drop k ∧
      d'.hash = d.hash ++ d.abs.take k ∧ d'.Inv ∧ (∀ n, res = .ok n → n = k) ∧
      (AcceptsAll wb → k = min amount d.abs.length ∧ res = .ok k) ∧
      d'.dict = d.dict ∧ d'.windowSize = d.windowSize ∧ d'.total = d.total ∧
      d'.buffer.cap = d.buffer.cap := by
  obtain ⟨out, e⟩ := drainTo_noFault hwb hI amount s (fun buf _ => htot s buf)
    (fun _ out1 buf2 _ _ _ => htot out1.2.2 buf2)
  obtain ⟨d', s', res⟩ := out
  obtain ⟨k, h⟩ := drainTo_exact hwb hI e
  exact ⟨d', s', res, k, e, h⟩

/-- `drain_to_writer(sink)` for every sink script -/
theorem drainToWriter_ok (hI : d.Inv) (sink : Sink) :
    ∃ d' sink' res k, d.drainToWriter sink = .ok (d', sink', res) ∧ k ≤ d.abs.length ∧
      sink'.got = sink.got ++ d.abs.take k ∧ d'.abs = d.abs.drop k ∧
      d'.hash = d.hash ++ d.abs.take k ∧ d'.Inv ∧ (∀ n, res = .ok n → n = k) ∧
      d'.buffer.cap = d.buffer.cap := by
  unfold drainToWriter
  rw [RingBuffer.Inv.lenC_eq hI, ok_bind]
  obtain ⟨d', s', res, k, e, _, hk, hdel, ha, hh, hI', hr, _, _, _, _, hcp⟩ :=
    drainTo_total sinkClosure_ok (fun s buf => ⟨_, rfl⟩) hI d.buffer.len sink
  exact ⟨d', s', res, k, e, hk, hdel, ha, hh, hI', hr, hcp⟩

/-- `drain_to_window_size_writer(sink)` for every sink script: never more than `len - window_size` -/
theorem drainToWindowSizeWriter_ok (hI : d.Inv) (sink : Sink) :
    ∃ d' sink' res k, d.drainToWindowSizeWriter sink = .ok (d', sink', res) ∧
      k ≤ d.abs.length - d.windowSize ∧
      sink'.got = sink.got ++ d.abs.take k ∧ d'.abs = d.abs.drop k ∧
      d'.hash = d.hash ++ d.abs.take k ∧ d'.Inv ∧ (∀ n, res = .ok n → n = k) ∧
      d'.buffer.cap = d.buffer.cap := by
  unfold drainToWindowSizeWriter
  rw [canDrainToWindowSize_eq hI, ok_bind]
  split
  · rename_i c hc
    split at hc
    · cases hc
    · exact ⟨d, sink, .ok 0, 0, rfl, by omega, by simp, by simp, by simp, hI, (fun n hn => by cases hn; rfl), rfl⟩
  · rename_i c canDrain hc
    split at hc
    · simp only [Option.some.injEq] at hc
      subst hc
      obtain ⟨d', s', res, k, e, hka, hk, hdel, ha, hh, hI', hr, _, _, _, _, hcp⟩ :=
        drainTo_total sinkClosure_ok (fun s buf => ⟨_, rfl⟩) hI (d.abs.length - d.windowSize) sink
      exact ⟨d', s', res, k, e, hka, hdel, ha, hh, hI', hr, hcp⟩
    · cases hc

/-- `drain_to_window_size()`: `None` when nothing exceeds the window, else exactly the excess -/
theorem drainToWindowSize_ok (hI : d.Inv) :
    (d.abs.length ≤ d.windowSize → d.drainToWindowSize = .ok (d, none)) ∧
    (d.abs.length > d.windowSize → ∃ d', d.drainToWindowSize =
        .ok (d', some (d.abs.take (d.abs.length - d.windowSize))) ∧ d'.Inv ∧
      d'.abs = d.abs.drop (d.abs.length - d.windowSize) ∧
      d'.hash = d.hash ++ d.abs.take (d.abs.length - d.windowSize) ∧
      d'.buffer.cap = d.buffer.cap) := by
  constructor
  · intro h
    unfold drainToWindowSize
    rw [canDrainToWindowSize_eq hI, ok_bind]
    have : ¬ d.abs.length > d.windowSize := by omega
    simp only [this, ↓reduceIte, pure_eq_ok]
  · intro h
    unfold drainToWindowSize
    rw [canDrainToWindowSize_eq hI, ok_bind]
    simp only [h, ↓reduceIte]
    obtain ⟨d', s', res, k, e, hka, hk, hdel, ha, hh, hI', hr, hfull, _, _, _, hcp⟩ :=
      drainTo_total vecClosure_ok (fun s buf => ⟨_, rfl⟩) hI (d.abs.length - d.windowSize) ([] : List Byte)
    obtain ⟨hk', hres⟩ := hfull vecClosure_all
    have hk'' : k = d.abs.length - d.windowSize := by omega
    subst hk''
    rw [e, ok_bind, pure_eq_ok, hres]
    have : s' = d.abs.take (d.abs.length - d.windowSize) := by simpa using hdel
    rw [this]
    exact ⟨d', rfl, hI', ha, hh, hcp⟩

/-- `repeat` never panics for any `offset > 0` (what `execute_sequences` guarantees), any
`match_length`, any dictionary, window size and counter; the invariant is kept; a Rust `Err` leaves
the buffer untouched -/
theorem repeat_noFault {C : Nat} (hC : 0 < C) (hI : d.Inv) {offset : Nat} (ho : 0 < offset) (ml : Nat) :
    ∃ d' res, d.repeat C offset ml = .ok (d', res) ∧ d'.Inv ∧ (res ≠ .ok () → d' = d) ∧
      CapStep d.buffer d'.buffer ml := by
  by_cases hol : offset ≤ d.buffer.len
  · obtain ⟨d', e, hI', _, _, _, _, _, hcs⟩ := repeat_ok hC hI ho hol (ml := ml)
    exact ⟨d', .ok (), e, hI', fun h => absurd rfl h, hcs⟩
  · have hol' : offset > d.buffer.len := by omega
    by_cases ht : d.total ≤ d.windowSize
    · by_cases hb : offset - d.buffer.len ≤ d.dict.length
      · obtain ⟨d', e, hI', _, _, _, _, _, hcs⟩ := repeat_dict_ok hC hI hol' ht hb (ml := ml)
        exact ⟨d', .ok (), e, hI', fun h => absurd rfl h, hcs⟩
      · exact ⟨d, _, (repeat_dict_err (C := C) hI hol' (ml := ml)).2 ht (by omega), hI, fun _ => rfl,
          CapStep.of_eq rfl _⟩
    · exact ⟨d, _, (repeat_dict_err (C := C) hI hol' (ml := ml)).1 (by omega), hI, fun _ => rfl,
        CapStep.of_eq rfl _⟩

end DecodeBuffer

end Zstd.Model
