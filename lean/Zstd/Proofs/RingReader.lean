import Zstd.Proofs.RingOps
/-
Helper lemmas for C04, layer 4e: `extend_from_reader`.
-/
namespace Zstd.Model
open Zstd

namespace RingBuffer

variable {r : RingBuffer}

/-- memory changed only in free cells: invariant and content are unaffected -/
theorem free_cells_changed (hI : r.Inv) {r' : RingBuffer} (hcap : r'.cap = r.cap) (hhead : r'.head = r.head)
    (htail : r'.tail = r.tail) (hsize : r'.mem.size = r.mem.size)
    (hold : ∀ j, r.occupied j → r'.mem.cell j = r.mem.cell j) :
    r'.Inv ∧ r'.abs = r.abs ∧ r'.len = r.len ∧ r'.cap = r.cap := by
  have hlen : r'.len = r.len := by unfold len; rw [hcap, hhead, htail]
  have hocc : ∀ j, r'.occupied j ↔ r.occupied j := by
    intro j; unfold occupied; rw [hcap, hhead, htail]
  refine ⟨⟨by rw [hsize, hcap]; exact hI.alloc, ?_, by rw [hcap, hhead, htail]; exact hI.bounds⟩, ?_, hlen, hcap⟩
  · intro j hj
    rw [hold j ((hocc j).1 hj)]
    exact hI.init j ((hocc j).1 hj)
  · unfold abs
    rw [hlen]
    apply List.map_congr_left
    intro i hi
    have hi' : i < r.len := by simpa using hi
    have hp : r'.phys i = r.phys i := by unfold phys; rw [hcap, hhead]
    rw [hp]
    unfold Mem.val
    rw [hold _ (occupied_phys hI hi')]

theorem extendFromReader_ok (hI : r.Inv) (avail : List Byte) (n : Nat) :
    ∃ r' ok rest, r.extendFromReader avail n = .ok (r', ok, rest) ∧ r'.Inv ∧
      (n ≤ avail.length → ok = true ∧ r'.abs = r.abs ++ avail.take n ∧ rest = avail.drop n) ∧
      (avail.length < n → ok = false ∧ r'.abs = r.abs) ∧ CapStep r r' n := by
  unfold extendFromReader
  by_cases hn : n = 0
  · subst hn
    simp only [↓reduceIte, pure_eq_ok]
    exact ⟨r, true, avail, rfl, hI, fun _ => ⟨rfl, by simp, by simp⟩, fun h => by omega, CapStep.of_eq rfl _⟩
  · simp only [hn, ↓reduceIte]
    obtain ⟨r1, hres, hR⟩ := reserve_ok hI n
    rw [hres, ok_bind]
    have hI1 := hR.inv
    have hf1 := hR.free
    have hc1 : 0 < r1.cap := hI1.cap_pos_of_free (by omega)
    have hh := hI1.head_lt hc1; have ht := hI1.tail_lt hc1; have hlf := hI1.len_free hc1
    have hfc := free_cases r1
    have hsz := hI1.alloc
    rw [hI1.freeSliceLengths_eq, ok_bind]
    generalize hfs : (if r1.tail < r1.head then (0, r1.head - r1.tail) else (r1.head, r1.cap - r1.tail)) = fs
    have hfsd : (r1.tail < r1.head ∧ fs.1 = 0 ∧ fs.2 = r1.head - r1.tail) ∨
        (r1.head ≤ r1.tail ∧ fs.1 = r1.head ∧ fs.2 = r1.cap - r1.tail) := by
      rw [← hfs]; split
      · left; exact ⟨by omega, rfl, rfl⟩
      · right; exact ⟨by omega, rfl, rfl⟩
    rw [check_ok (by omega), ok_bind]
    generalize hk : min fs.2 n = k
    -- zero-fill of region 1
    obtain ⟨m1, hw1, hz1, hc1'⟩ := Mem.writeL_ok (site := "ringbuffer.rs:extend_from_reader:zero1")
      (l := List.replicate k 0) (m := r1.mem) (off := r1.tail) (by rw [List.length_replicate]; omega)
    rw [List.length_replicate] at hc1'
    rw [hw1, ok_bind]
    have hfree1 : ∀ j, r1.occupied j → ¬ (r1.tail ≤ j ∧ j < r1.tail + k) := by
      intro j hj; rw [occupied_iff] at hj; omega
    have hfree2 : ∀ j, r1.occupied j → ¬ (0 ≤ j ∧ j < 0 + (n - k)) := by
      intro j hj; rw [occupied_iff] at hj; omega
    by_cases hs1 : avail.length < k
    · -- the first read_exact fails
      simp only [hs1, ↓reduceIte]
      obtain ⟨m1', hw1', hz1', hc1''⟩ := Mem.writeL_ok (site := "ringbuffer.rs:extend_from_reader:read1")
        (l := avail) (m := m1) (off := r1.tail) (by omega)
      rw [hw1', ok_bind, pure_eq_ok]
      refine ⟨_, false, [], rfl, ?_, fun h => by omega, fun _ => ⟨rfl, ?_⟩, hR.capStep.trans_eq rfl⟩
      · exact (free_cells_changed hI1 (r' := { r1 with mem := m1', log := _ }) rfl rfl rfl (by show m1'.size = _; omega)
          (by
            intro j hj
            have := hfree1 j hj
            show m1'.cell j = _
            rw [hc1'' j, hc1' j]
            have n1 : ¬ (r1.tail ≤ j ∧ j < r1.tail + avail.length) := by omega
            simp only [n1, this, ↓reduceIte])).1
      · rw [← hR.abs]
        exact (free_cells_changed hI1 (r' := { r1 with mem := m1', log := _ }) rfl rfl rfl (by show m1'.size = _; omega)
          (by
            intro j hj
            have := hfree1 j hj
            show m1'.cell j = _
            rw [hc1'' j, hc1' j]
            have n1 : ¬ (r1.tail ≤ j ∧ j < r1.tail + avail.length) := by omega
            simp only [n1, this, ↓reduceIte])).2.1
    · simp only [hs1, ↓reduceIte]
      have hl1 : (avail.take k).length = k := by rw [List.length_take]; omega
      obtain ⟨m1', hw1', hz1', hc1''⟩ := Mem.writeL_ok (site := "ringbuffer.rs:extend_from_reader:read1")
        (l := avail.take k) (m := m1) (off := r1.tail) (by rw [hl1]; omega)
      rw [hl1] at hc1''
      rw [hw1', ok_bind]
      have hold1 : ∀ j, r1.occupied j → m1'.cell j = r1.mem.cell j := by
        intro j hj
        have := hfree1 j hj
        rw [hc1'' j, hc1' j]
        simp only [this, ↓reduceIte]
      by_cases hk2 : k < n
      · simp only [hk2, ↓reduceIte]
        obtain ⟨m2, hw2, hz2, hc2⟩ := Mem.writeL_ok (site := "ringbuffer.rs:extend_from_reader:zero2")
          (l := List.replicate (n - k) 0) (m := m1') (off := 0) (by rw [List.length_replicate]; omega)
        rw [List.length_replicate] at hc2
        rw [hw2, ok_bind]
        by_cases hs2 : (avail.drop k).length < n - k
        · -- the second read_exact fails
          simp only [hs2, ↓reduceIte]
          obtain ⟨m2', hw2', hz2', hc2'⟩ := Mem.writeL_ok (site := "ringbuffer.rs:extend_from_reader:read2")
            (l := avail.drop k) (m := m2) (off := 0) (by omega)
          rw [hw2', ok_bind, pure_eq_ok, ok_bind]
          simp only [Bool.false_eq_true, ↓reduceIte, pure_eq_ok]
          rw [List.length_drop] at hs2
          have hold2 : ∀ j, r1.occupied j → m2'.cell j = r1.mem.cell j := by
            intro j hj
            have := hfree2 j hj
            rw [hc2' j, hc2 j, hold1 j hj]
            have n1 : ¬ (0 ≤ j ∧ j < 0 + (avail.drop k).length) := by rw [List.length_drop]; omega
            simp only [n1, this, ↓reduceIte]
          have key := free_cells_changed hI1 (r' := { r1 with mem := m2', log := [Ev.w 0 (n - k), .w r1.tail k] ++ r1.log })
            rfl rfl rfl (by show m2'.size = _; omega) hold2
          refine ⟨_, false, [], rfl, key.1, fun h => by omega, fun _ => ⟨rfl, ?_⟩, hR.capStep.trans_eq rfl⟩
          rw [← hR.abs]; exact key.2.1
        · simp only [hs2, ↓reduceIte]
          rw [List.length_drop] at hs2
          have hl2 : ((avail.drop k).take (n - k)).length = n - k := by
            rw [List.length_take, List.length_drop]; omega
          obtain ⟨m2', hw2', hz2', hc2'⟩ := Mem.writeL_ok (site := "ringbuffer.rs:extend_from_reader:read2")
            (l := (avail.drop k).take (n - k)) (m := m2) (off := 0) (by rw [hl2]; omega)
          rw [hl2] at hc2'
          rw [hw2', ok_bind, pure_eq_ok, ok_bind]
          simp only [↓reduceIte]
          rw [umod_ok hc1, ok_bind, pure_eq_ok]
          have hdl : (avail.take n).length = n := by rw [List.length_take]; omega
          have key := appended_sound (r := r1)
            (r' := { r1 with mem := m2', tail := (r1.tail + n) % r1.cap, log := [Ev.w 0 (n - k), .w r1.tail k] ++ r1.log })
            (data := avail.take n) hI1 hc1 (by omega) rfl rfl (by rw [hdl]) (by show m2'.size = _; omega)
            (by
              intro j hj
              have := hfree2 j hj
              show m2'.cell j = _
              rw [hc2' j, hc2 j, hold1 j hj]
              simp only [this, ↓reduceIte])
            (by
              intro t ht'
              rw [hdl] at ht'
              show m2'.cell _ = _
              rw [getD_take ht']
              split
              · rename_i hlt
                rw [hc2', hc2, hc1'']
                have n2 : ¬ (0 ≤ r1.tail + t ∧ r1.tail + t < 0 + (n - k)) := by omega
                have y1 : r1.tail ≤ r1.tail + t ∧ r1.tail + t < r1.tail + k := by omega
                simp only [n2, y1, and_self, ↓reduceIte]
                rw [getD_take (by omega)]; congr 2; omega
              · rename_i hge
                rw [hc2']
                have y2 : 0 ≤ r1.tail + t - r1.cap ∧ r1.tail + t - r1.cap < 0 + (n - k) := by omega
                simp only [y2, and_self, ↓reduceIte]
                rw [getD_take (by omega), getD_drop]; congr 2; omega)
          rw [hdl] at key
          refine ⟨_, true, _, rfl, key.1, fun _ => ⟨rfl, ?_, ?_⟩, fun h => by omega, hR.capStep.trans_eq rfl⟩
          · rw [← hR.abs]; exact key.2.1
          · show (avail.drop k).drop (n - k) = _
            rw [List.drop_drop]; congr 1; omega
      · simp only [hk2, ↓reduceIte, pure_eq_ok, ok_bind]
        rw [umod_ok hc1, ok_bind]
        have hkn : k = n := by omega
        have hdl : (avail.take n).length = n := by rw [List.length_take]; omega
        have key := appended_sound (r := r1)
          (r' := { r1 with mem := m1', tail := (r1.tail + n) % r1.cap, log := [Ev.w 0 (n - k), .w r1.tail k] ++ r1.log })
          (data := avail.take n) hI1 hc1 (by omega) rfl rfl (by rw [hdl]) (by show m1'.size = _; omega)
          hold1
          (by
            intro t ht'
            rw [hdl] at ht'
            show m1'.cell _ = _
            have hlt : r1.tail + t < r1.cap := by omega
            simp only [hlt, ↓reduceIte]
            rw [hc1'']
            have y1 : r1.tail ≤ r1.tail + t ∧ r1.tail + t < r1.tail + k := by omega
            simp only [y1, and_self, ↓reduceIte]
            rw [hkn]; congr 2; omega)
        rw [hdl] at key
        refine ⟨_, true, _, rfl, key.1, fun _ => ⟨rfl, ?_, ?_⟩, fun h => by omega, hR.capStep.trans_eq rfl⟩
        · rw [← hR.abs]; exact key.2.1
        · show avail.drop k = _
          rw [hkn]

end RingBuffer

end Zstd.Model
