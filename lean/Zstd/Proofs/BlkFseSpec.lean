import Zstd.Proofs.BlkWF
import Zstd.Proofs.FseDecTable
import Zstd.Proofs.FseReadDesc
import Zstd.Proofs.FseFin
import Zstd.Proofs.BitIO
/-
FSE tables of the block decoder, part 1 (no reader involved):

  * `readDescription_valid`  everything `Spec.Fse.readDescription` returns is a valid normalised
                             distribution (accuracy log in `[5, maxLog]`, at most `maxSymbol + 1`
                             probabilities, all `≥ -1`, mass `2^al`) and the byte count is in range
  * `buildCore_entries`      the table `buildDecodingTableCore` returns for a valid distribution has
                             `2^al` entries and every entry is `EntryOK`
  * `specFseOK`              the hypothesis `SpecFseOK` of `Proofs/BlkHuf`
  * `buildFromProbabilities_{ll,of,ml}`  the three predefined tables
-/
namespace Zstd.Proofs.Blk
open Zstd Zstd.Model Zstd.Model.Fse
open Zstd.Proofs.FseDecTable (mass massF ValidDist toSpecEntry)
open Zstd.Proofs.FseReadDesc (decodeVal massOf spec_readProbs_succ readLE_some)

/-! ### `mass` as a sum -/

theorem mass_foldl_acc (l : List Int) : ∀ (a : Nat),
    l.foldl (fun (a : Nat) p => a + (if p = -1 then 1 else if p > 0 then p.toNat else 0)) a
      = a + mass l := by
  induction l with
  | nil => intro a; simp [mass]
  | cons p rest ih =>
    intro a
    simp only [mass, List.foldl_cons]
    rw [ih, ih (0 + _)]
    simp only [mass]
    omega

theorem mass_cons (p : Int) (l : List Int) : mass (p :: l) = massF p + mass l := by
  show List.foldl _ 0 (p :: l) = _
  rw [List.foldl_cons, mass_foldl_acc]
  simp only [massF]
  omega

theorem mass_nil : mass [] = 0 := rfl

theorem mass_append (a b : List Int) : mass (a ++ b) = mass a + mass b := by
  induction a with
  | nil => simp [mass_nil]
  | cons p rest ih => rw [List.cons_append, mass_cons, mass_cons, ih]; omega

theorem mass_reverse (l : List Int) : mass l.reverse = mass l := by
  induction l with
  | nil => rfl
  | cons p rest ih => rw [List.reverse_cons, mass_append, mass_cons, mass_cons, ih, mass_nil]; omega

theorem mass_replicate_zero (z : Nat) : mass (List.replicate z 0) = 0 := by
  induction z with
  | zero => rfl
  | succ z ih => rw [List.replicate_succ, mass_cons, ih]; simp [massF]

theorem massOf_eq_massF (val : Nat) : massOf val = massF ((val : Int) - 1) := by
  unfold massOf massF
  by_cases h1 : (val : Int) - 1 = -1
  · rw [if_pos h1, if_pos (by omega)]
  · rw [if_neg h1]
    by_cases h2 : (val : Int) - 1 > 0
    · rw [if_pos h2, if_neg (by omega)]
    · rw [if_neg h2, if_neg (by omega)]
      have : (val : Int) - 1 = 0 := by omega
      rw [this]; rfl

/-! ### 1. the Spec reader returns valid distributions -/

theorem spec_readZeroRuns_length : ∀ (fuel : Nat) (bits : List Bool) (z : Nat) (rest : List Bool),
    Spec.Fse.readZeroRuns fuel bits = some (z, rest) → rest.length ≤ bits.length := by
  intro fuel
  induction fuel with
  | zero => intro bits z rest h; simp [Spec.Fse.readZeroRuns] at h
  | succ fuel ih =>
    intro bits z rest h
    rw [Spec.Fse.readZeroRuns] at h
    cases hrd : Spec.readLE 2 bits with
    | none => rw [hrd] at h; cases h
    | some q =>
      obtain ⟨r, rest1⟩ := q
      rw [hrd] at h
      simp only [] at h
      obtain ⟨_, hrest, _⟩ := readLE_some hrd
      have hl : rest1.length ≤ bits.length := by rw [hrest, List.length_drop]; omega
      by_cases h3 : r = 3
      · rw [if_pos h3] at h
        cases hrec : Spec.Fse.readZeroRuns fuel rest1 with
        | none => rw [hrec] at h; cases h
        | some q2 =>
          obtain ⟨more, rest2⟩ := q2
          rw [hrec] at h
          cases h
          have := ih rest1 more rest hrec
          omega
      · rw [if_neg h3] at h
        cases h
        exact hl

/-- invariant of `Spec.Fse.readProbs`: the accumulated mass plus the remaining mass is constant, no
probability is below `-1`, the bit list only shrinks -/
theorem spec_readProbs_inv : ∀ (fuel maxSymbol remaining : Nat) (bits : List Bool) (acc res : List Int)
    (rest : List Bool),
    Spec.Fse.readProbs fuel maxSymbol remaining bits acc = some (res, rest) →
    (∀ p ∈ acc, -1 ≤ p) →
    (∀ p ∈ res, -1 ≤ p) ∧ mass res = mass acc + remaining ∧ rest.length ≤ bits.length := by
  intro fuel
  induction fuel with
  | zero => intro maxSymbol remaining bits acc res rest h; simp [Spec.Fse.readProbs] at h
  | succ fuel ih =>
    intro maxSymbol remaining bits acc res rest h hacc
    rw [spec_readProbs_succ] at h
    by_cases hrem : remaining = 0
    · rw [if_pos hrem] at h
      cases h
      refine ⟨?_, ?_, Nat.le_refl _⟩
      · intro p hp; exact hacc p (List.mem_reverse.mp hp)
      · rw [mass_reverse, hrem]; rfl
    · rw [if_neg hrem] at h
      by_cases hlen : acc.length > maxSymbol
      · rw [if_pos hlen] at h; cases h
      · rw [if_neg hlen] at h
        cases hrd : Spec.readLE (Nat.log2 (remaining + 1) + 1) bits with
        | none => rw [hrd] at h; cases h
        | some q =>
          obtain ⟨v, rest0⟩ := q
          rw [hrd] at h
          simp only [] at h
          generalize decodeVal remaining v = d at h
          by_cases hmass : massOf d.1 > remaining
          · rw [if_pos hmass] at h; cases h
          · rw [if_neg hmass] at h
            have hdrop : (bits.drop d.2).length ≤ bits.length := by rw [List.length_drop]; omega
            have hacc' : ∀ p ∈ ((d.1 : Int) - 1) :: acc, -1 ≤ p := by
              intro p hp
              rw [List.mem_cons] at hp
              rcases hp with rfl | hp
              · omega
              · exact hacc p hp
            have hm' : mass (((d.1 : Int) - 1) :: acc) = massOf d.1 + mass acc := by
              rw [mass_cons, massOf_eq_massF]
            by_cases hp0 : (d.1 : Int) - 1 = 0
            · rw [if_pos hp0] at h
              cases hz : Spec.Fse.readZeroRuns (maxSymbol + 2) (bits.drop d.2) with
              | none => rw [hz] at h; cases h
              | some qz =>
                obtain ⟨z, restz⟩ := qz
                rw [hz] at h
                simp only [] at h
                have hzl := spec_readZeroRuns_length _ _ _ _ hz
                obtain ⟨h1, h2, h3⟩ := ih maxSymbol _ restz _ res rest h (by
                  intro p hp
                  rw [List.mem_append] at hp
                  rcases hp with hp | hp
                  · rw [List.mem_replicate] at hp; omega
                  · exact hacc' p hp)
                refine ⟨h1, ?_, by omega⟩
                rw [h2, mass_append, mass_replicate_zero, hm']
                omega
            · rw [if_neg hp0] at h
              obtain ⟨h1, h2, h3⟩ := ih maxSymbol _ _ _ res rest h hacc'
              refine ⟨h1, ?_, by omega⟩
              rw [h2, hm']
              omega

/-- **1.** everything `Spec.Fse.readDescription` accepts is a valid normalised distribution -/
theorem readDescription_valid {bytes : List Nat} {maxLog maxSymbol al : Nat} {probs : List Int} {used : Nat}
    (h : Spec.Fse.readDescription bytes maxLog maxSymbol = some (al, probs, used)) :
    5 ≤ al ∧ al ≤ maxLog ∧ probs.length ≤ maxSymbol + 1 ∧ (∀ p ∈ probs, -1 ≤ p) ∧
      mass probs = 2 ^ al ∧ used ≤ bytes.length := by
  unfold Spec.Fse.readDescription at h
  simp only [] at h
  cases hrd : Spec.readLE 4 (Spec.bitsLE bytes) with
  | none => rw [hrd] at h; cases h
  | some q =>
    obtain ⟨a, rest⟩ := q
    rw [hrd] at h
    simp only [] at h
    obtain ⟨_, hrest, _⟩ := readLE_some hrd
    by_cases hal : a + 5 > maxLog
    · rw [if_pos hal] at h; cases h
    · rw [if_neg hal] at h
      cases hp : Spec.Fse.readProbs (maxSymbol + 3) maxSymbol (2 ^ (a + 5)) rest [] with
      | none => rw [hp] at h; cases h
      | some qp =>
        obtain ⟨ps, rest'⟩ := qp
        rw [hp] at h
        simp only [] at h
        by_cases hlen : ps.length > maxSymbol + 1
        · rw [if_pos hlen] at h; cases h
        · rw [if_neg hlen] at h
          simp only [Option.some.injEq, Prod.mk.injEq] at h
          obtain ⟨rfl, rfl, rfl⟩ := h
          obtain ⟨h1, h2, h3⟩ := spec_readProbs_inv _ _ _ _ _ _ _ hp (by intro p hp; cases hp)
          refine ⟨by omega, by omega, by omega, h1, ?_, ?_⟩
          · rw [h2, mass_nil]; omega
          · have : (Spec.bitsLE bytes).length = 8 * bytes.length := Zstd.Proofs.BitIO.length_bitsLE bytes
            omega

/-- with the parameters the format uses, that is `ValidDist` -/
theorem readDescription_validDist {bytes : List Nat} {maxLog maxSymbol al : Nat} {probs : List Int}
    {used : Nat} (hml : maxLog ≤ 9) (hms : maxSymbol ≤ 255)
    (h : Spec.Fse.readDescription bytes maxLog maxSymbol = some (al, probs, used)) :
    ValidDist al probs := by
  obtain ⟨h1, h2, h3, h4, h5, _⟩ := readDescription_valid h
  exact ⟨h1, by omega, by omega, h4, h5⟩

/-! ### 2. entries of a built table -/

/-- **2.** the table built from a valid distribution: `2^al` entries, each of them `EntryOK` -/
theorem buildCore_entries {al : Nat} {probs : List Int} {maxSymbol : Nat} {dec : Array DEntry}
    {ctr : Array Nat} (hv : ValidDist al probs) (hms : probs.length ≤ maxSymbol + 1)
    (hb : buildDecodingTableCore al probs.toArray maxSymbol = .ok (dec, ctr)) :
    dec.size = 2 ^ al ∧ ∀ e ∈ dec.toList, EntryOK al maxSymbol e := by
  obtain ⟨hsz, hsymb, _, _, _⟩ := Zstd.Proofs.FseDecTable.dec_table_char al probs maxSymbol hv hms dec ctr hb
  have hw := Zstd.Proofs.FseDecTable.dec_entry_within al probs maxSymbol hv hms dec ctr hb
  refine ⟨hsz, ?_⟩
  intro e he
  obtain ⟨i, hi, hget⟩ := List.mem_iff_getElem.mp he
  simp only [Array.length_toList] at hi
  have hgd : dec.getD i {} = e := by
    rw [Array.getD_eq_getD_getElem?, Array.getElem?_eq_getElem hi]
    simpa using hget
  have h1 := (hsymb i (by omega)).1
  have h2 := hw i (by omega)
  rw [hgd] at h1 h2
  exact ⟨by omega, h2.2, h2.1⟩

/-- the build never fails on a valid distribution, and the result is as in `buildCore_entries` -/
theorem buildCore_ok {al : Nat} {probs : List Int} {maxSymbol : Nat}
    (hv : ValidDist al probs) (hms : probs.length ≤ maxSymbol + 1) :
    ∃ dec ctr, buildDecodingTableCore al probs.toArray maxSymbol = .ok (dec, ctr) ∧
      Spec.Fse.buildTable al probs = some { accLog := al, entries := dec.map toSpecEntry } ∧
      dec.size = 2 ^ al ∧ ∀ e ∈ dec.toList, EntryOK al maxSymbol e := by
  obtain ⟨dec, ctr, h1, h2⟩ := Zstd.Proofs.FseDecTable.fse_build_refines al probs maxSymbol hv hms
  obtain ⟨h3, h4⟩ := buildCore_entries hv hms h1
  exact ⟨dec, ctr, h1, h2, h3, h4⟩

/-! ### 7. the Spec-level table of the Huffman weights reader -/

/-- **7.** -/
theorem specFseOK : SpecFseOK := by
  intro bytes al probs used ft hrd hbt
  have hv : ValidDist al probs :=
    readDescription_validDist (by decide : Gen.hufWeightsMaxLogDec ≤ 9) (by decide : Gen.hufFseMaxSymbol ≤ 255) hrd
  obtain ⟨h5, _, hlen, _, _, hused⟩ := readDescription_valid hrd
  obtain ⟨dec, ctr, _, hspec, hsz, hent⟩ := buildCore_ok (maxSymbol := Gen.hufFseMaxSymbol) hv hlen
  rw [hbt] at hspec
  cases hspec
  refine ⟨⟨by show 1 ≤ al; omega, by simpa using hsz, ?_⟩, hused⟩
  intro e he
  simp only [Array.toList_map, List.mem_map] at he
  obtain ⟨e', he', rfl⟩ := he
  exact (hent e' he').2.1

/-! ### 6. predefined tables -/

/-- `build_from_probabilities` on any valid distribution that fits the table's alphabet -/
theorem buildFromProbabilities_built (t : DTable) {al : Nat} {probs : List Int} (maxLog : Nat)
    (hv : ValidDist al probs) (hms : probs.length ≤ t.maxSymbol + 1) (hle : al ≤ maxLog) :
    ∃ t', t.buildFromProbabilities al probs = (t', .ok ()) ∧ FseBuilt maxLog t' ∧
      t'.maxSymbol = t.maxSymbol := by
  obtain ⟨dec, ctr, hb, _, hsz, hent⟩ := buildCore_ok hv hms
  have h5 : 5 ≤ al := hv.1
  refine ⟨{ t with probs := probs.toArray, accuracyLog := al, decode := dec, symbolCounter := ctr }, ?_, ?_, rfl⟩
  · unfold DTable.buildFromProbabilities
    rw [if_neg (by omega)]
    unfold DTable.buildDecodingTable
    simp only [hb]
  · exact ⟨by show 1 ≤ al; omega, hle, hsz, hent⟩

theorem validDist_ll : ValidDist Gen.llDefaultAccLog Gen.llDistDec :=
  ⟨by decide, by decide, by decide, by decide, by decide⟩

theorem validDist_of : ValidDist Gen.ofDefaultAccLog Gen.ofDistDec :=
  ⟨by decide, by decide, by decide, by decide, by decide⟩

theorem validDist_ml : ValidDist Gen.mlDefaultAccLog Gen.mlDistDec :=
  ⟨by decide, by decide, by decide, by decide, by decide⟩

/-- **6.** literal lengths -/
theorem buildFromProbabilities_ll (t : DTable) (h : t.maxSymbol = Gen.maxLiteralLengthCode) :
    ∃ t', t.buildFromProbabilities Gen.llDefaultAccLog Gen.llDistDec = (t', .ok ()) ∧
      FseBuilt Gen.llMaxLog t' ∧ t'.maxSymbol = t.maxSymbol :=
  buildFromProbabilities_built t Gen.llMaxLog validDist_ll (by rw [h]; decide) (by decide)

/-- **6.** offsets -/
theorem buildFromProbabilities_of (t : DTable) (h : t.maxSymbol = Gen.maxOffsetCode) :
    ∃ t', t.buildFromProbabilities Gen.ofDefaultAccLog Gen.ofDistDec = (t', .ok ()) ∧
      FseBuilt Gen.ofMaxLog t' ∧ t'.maxSymbol = t.maxSymbol :=
  buildFromProbabilities_built t Gen.ofMaxLog validDist_of (by rw [h]; decide) (by decide)

/-- **6.** match lengths -/
theorem buildFromProbabilities_ml (t : DTable) (h : t.maxSymbol = Gen.maxMatchLengthCode) :
    ∃ t', t.buildFromProbabilities Gen.mlDefaultAccLog Gen.mlDistDec = (t', .ok ()) ∧
      FseBuilt Gen.mlMaxLog t' ∧ t'.maxSymbol = t.maxSymbol :=
  buildFromProbabilities_built t Gen.mlMaxLog validDist_ml (by rw [h]; decide) (by decide)

end Zstd.Proofs.Blk
