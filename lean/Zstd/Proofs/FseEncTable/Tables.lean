import Zstd.Proofs.FseEncTable.Enc
import Zstd.Proofs.FseEncTable.Assign
import Zstd.Proofs.FseEncTable.DecAssign
import Zstd.Proofs.FseEncTable.DecSpread
namespace Zstd.Proofs.FseEncTable
open Zstd Zstd.Model.Fse Zstd.Proofs.FseFin

/-! ### generic list facts -/

/-- pigeonhole: a duplicate-free list of numbers below `n` has at most `n` elements, and if it has `n`
it contains every number below `n` -/
theorem nodup_bound : ∀ (n : Nat) (W : List Nat), W.Nodup → (∀ c ∈ W, c < n) →
    W.length ≤ n ∧ (W.length = n → ∀ c, c < n → c ∈ W) := by
  intro n
  induction n with
  | zero =>
    intro W _ hlt
    cases W with
    | nil => exact ⟨Nat.le_refl _, fun _ c hc => by omega⟩
    | cons a W => exact absurd (hlt a List.mem_cons_self) (by omega)
  | succ n ih =>
    intro W hnd hlt
    have hnd' : (W.erase n).Nodup := hnd.sublist List.erase_sublist
    have hlt' : ∀ c ∈ W.erase n, c < n := by
      intro c hc
      have h1 := (List.Nodup.mem_erase_iff hnd).1 hc
      have := hlt c h1.2
      omega
    obtain ⟨h1, h2⟩ := ih (W.erase n) hnd' hlt'
    have hlen := List.length_erase (a := n) (l := W)
    by_cases hn : n ∈ W
    · rw [if_pos hn] at hlen
      have hpos : 0 < W.length := List.length_pos_of_mem hn
      refine ⟨by omega, ?_⟩
      intro hW c hc
      by_cases hcn : c = n
      · subst hcn; exact hn
      · exact List.mem_of_mem_erase (h2 (by omega) c (by omega))
    · rw [if_neg hn] at hlen
      exact ⟨by omega, fun hW => by omega⟩

theorem nodup_surj {W : List Nat} {n : Nat} (hnd : W.Nodup) (hlt : ∀ c ∈ W, c < n) (hlen : W.length = n) :
    ∀ c, c < n → c ∈ W :=
  (nodup_bound n W hnd hlt).2 hlen

theorem filter_range_rank (P : Nat → Bool) : ∀ {n c : Nat}, c < n → P c = true →
    ((List.range n).filter P)[((List.range c).filter P).length]? = some c := by
  intro n
  induction n with
  | zero => intro c hc; omega
  | succ n ih =>
    intro c hc hP
    rw [List.range_succ, List.filter_append]
    by_cases h : c < n
    · have := ih h hP
      rw [List.getElem?_append_left]
      · exact this
      · exact (List.getElem?_eq_some_iff.1 this).1
    · have : c = n := by omega
      subst this
      rw [List.getElem?_append_right (Nat.le_refl _)]
      simp [hP]

/-- the cells of `s` in increasing order -/
def sortedCells (W sl : List Nat) (s : Nat) : List Nat :=
  (List.range W.length).filter (fun c => decide (c ∈ cellsOf W sl s))

theorem sortedCells_pairwise (W sl : List Nat) (s : Nat) : (sortedCells W sl s).Pairwise (· < ·) :=
  List.pairwise_lt_range.filter _

theorem sortedCells_nodup (W sl : List Nat) (s : Nat) : (sortedCells W sl s).Nodup :=
  (sortedCells_pairwise W sl s).imp (fun h => Nat.ne_of_lt h)

theorem mem_sortedCells {W sl : List Nat} {s c : Nat} (hlt : ∀ c ∈ W, c < W.length) (hlen : W.length ≤ sl.length) :
    c ∈ sortedCells W sl s ↔ c ∈ cellsOf W sl s := by
  unfold sortedCells
  simp only [List.mem_filter, List.mem_range, decide_eq_true_eq]
  constructor
  · exact fun h => h.2
  · intro h
    exact ⟨hlt c ((cellsOf_sublist hlen s).subset h), h⟩

theorem sortedCells_perm {W sl : List Nat} (s : Nat) (hnd : W.Nodup) (hlt : ∀ c ∈ W, c < W.length)
    (hlen : W.length ≤ sl.length) : (sortedCells W sl s).Perm (cellsOf W sl s) := by
  rw [List.perm_ext_iff_of_nodup (sortedCells_nodup W sl s) (hnd.sublist (cellsOf_sublist hlen s))]
  intro c
  exact mem_sortedCells hlt hlen

theorem sortedCells_length {W sl : List Nat} (s : Nat) (hnd : W.Nodup) (hlt : ∀ c ∈ W, c < W.length)
    (hlen : W.length = sl.length) : (sortedCells W sl s).length = sl.count s := by
  rw [(sortedCells_perm s hnd hlt (Nat.le_of_eq hlen)).length_eq, cellsOf_length hlen]

/-! ### the decoder table -/

theorem zipIdx_toArray (probs : List Int) : Zstd.Model.Fse.zipIdx probs.toArray = probs.zipIdx := by
  simp [Zstd.Model.Fse.zipIdx]

/-- facts about a symbol that owns a slot -/
theorem slot_sym_facts {al : Nat} {probs : List Int} (hv : ValidDist al probs) {s : Nat}
    (hs : s ∈ slots probs.zipIdx) :
    ∃ p : Int, probs[s]? = some p ∧ 0 < p ∧ (slots probs.zipIdx).count s = p.toNat ∧ p.toNat ≤ 2 ^ al := by
  obtain ⟨p, hmem, hp⟩ := mem_slots.1 hs
  have hc := count_slots (zipIdx_snd_nodup probs) hmem
  rw [if_pos hp] at hc
  refine ⟨p, mem_zipIdx.1 hmem, hp, hc, ?_⟩
  have h1 : (slots probs.zipIdx).count s ≤ (slots probs.zipIdx).length := List.count_le_length
  have h2 := mass_eq probs
  rw [hv.2.2.2.2] at h2
  omega

theorem dec_table_spec {al : Nat} {probs : List Int} {maxSymbol : Nat}
    (hv : ValidDist al probs) (hms : probs.length ≤ maxSymbol + 1) {W : List Nat}
    (hW : walk (2 ^ al) (2 ^ al - (negSyms probs.zipIdx).length) (2 ^ al - (negSyms probs.zipIdx).length) 0 = .ok (W, 0))
    (hnd : W.Nodup) (hlt : ∀ c ∈ W, c < 2 ^ al - (negSyms probs.zipIdx).length) :
    ∃ dec ctr, buildDecodingTableCore al probs.toArray maxSymbol = .ok (dec, ctr) ∧ dec.size = 2 ^ al ∧
      (∀ j (hj : j < (negSyms probs.zipIdx).length),
        dec.getD (2 ^ al - 1 - j) {} = { symbol := (negSyms probs.zipIdx)[j], baseLine := 0, numBits := al }) ∧
      (∀ c s, c < 2 ^ al - (negSyms probs.zipIdx).length →
        (symOf dec c = s ↔ c ∈ cellsOf W (slots probs.zipIdx) s)) ∧
      (∀ c, c < 2 ^ al - (negSyms probs.zipIdx).length →
        ((dec.getD c {}).baseLine, (dec.getD c {}).numBits)
           = rfcEntry al (probs.getD (symOf dec c) 0).toNat
               ((List.range c).filter
                  (fun c' => decide (c' ∈ cellsOf W (slots probs.zipIdx) (symOf dec c)))).length) := by
  have hmass := mass_eq probs
  rw [hv.2.2.2.2] at hmass
  have hWlen : W.length = 2 ^ al - (negSyms probs.zipIdx).length := walk_length hW
  have hWsl : W.length = (slots probs.zipIdx).length := by omega
  have hlt' : ∀ c ∈ W, c < W.length := by rw [hWlen]; exact hlt
  obtain ⟨dec1, dec2, e, hplace, hspread, hsz2, hneg2, hpos2⟩ := dec_spread_spec hv hW hnd hlt
  -- symbols of the free cells
  have hsym2 : ∀ c s, c < 2 ^ al - (negSyms probs.zipIdx).length →
      (symOf dec2 c = s ↔ c ∈ cellsOf W (slots probs.zipIdx) s) := by
    intro c s hc
    rw [mem_cellsOf, mem_zip_iff]
    constructor
    · intro h
      have hcW := nodup_surj hnd hlt hWlen c hc
      obtain ⟨t, ht, rfl⟩ := List.getElem_of_mem hcW
      have := hpos2 t ht (by omega)
      refine ⟨t, ht, by omega, rfl, ?_⟩
      rw [← h]; unfold symOf; rw [this]
    · rintro ⟨t, h1, h2, rfl, rfl⟩
      unfold symOf; rw [hpos2 t h1 h2]
  have hrank2 : ∀ s c, c ≤ W.length → rankOf dec2 s c
      = ((List.range c).filter (fun c' => decide (c' ∈ cellsOf W (slots probs.zipIdx) s))).length := by
    intro s c hc
    unfold rankOf
    congr 1
    apply List.filter_congr
    intro c' hc'
    rw [List.mem_range] at hc'
    have := hsym2 c' s (by omega)
    simp only [this]
  have hsymA : ∀ c, c < 2 ^ al - (negSyms probs.zipIdx).length →
      ∃ p : Int, probs.toArray[symOf dec2 c]? = some p ∧ 0 < p ∧ p.toNat ≤ 2 ^ al ∧
        rankOf dec2 (symOf dec2 c) (2 ^ al - (negSyms probs.zipIdx).length) ≤ p.toNat := by
    intro c hc
    have hmem := (hsym2 c _ hc).1 rfl
    have hs : symOf dec2 c ∈ slots probs.zipIdx := by
      rw [mem_cellsOf] at hmem
      exact (List.of_mem_zip hmem).2
    obtain ⟨p, hp1, hp2, hp3, hp4⟩ := slot_sym_facts hv hs
    refine ⟨p, by simpa using hp1, hp2, hp4, ?_⟩
    rw [← hWlen, hrank2 _ _ (Nat.le_refl _), ← hp3]
    exact Nat.le_of_eq (sortedCells_length _ hnd hlt' hWsl)
  obtain ⟨dec, ctr, hassign, hsz, hhigh, hlow⟩ :=
    assignStates_spec (probs := probs.toArray) (dec2 := dec2) hv.2.1 (by rw [hsz2]; omega) hsymA
  refine ⟨dec, ctr, ?_, by rw [hsz, hsz2], ?_, ?_, ?_⟩
  · unfold buildDecodingTableCore
    rw [if_neg (by simp only [List.size_toArray]; omega), if_neg (by have := hv.2.1; omega)]
    simp only [Nat.one_shiftLeft, zipIdx_toArray, hplace, hspread, hassign]
  · intro j hj
    rw [hhigh _ (by omega)]
    exact hneg2 j hj
  · intro c s hc
    rw [(hlow c hc).1]
    exact hsym2 c s hc
  · intro c hc
    rw [(hlow c hc).2, (hlow c hc).1, hrank2 _ _ (by omega)]
    simp

/-! ### the encoder table -/

theorem symbolStates_ext {a b : SymbolStates} (h1 : a.states.toList = b.states.toList)
    (h2 : a.probability = b.probability) : a = b := by
  cases a; cases b
  simp only [SymbolStates.mk.injEq]
  exact ⟨Array.toList_inj.1 h1, h2⟩

theorem getD_replicate_empty (n s : Nat) : (Array.replicate n ({} : SymbolStates)).getD s {} = {} := by
  simp only [Array.getD_eq_getD_getElem?, Array.getElem?_replicate]
  split <;> rfl

theorem sym_lt_256 {al : Nat} {probs : List Int} (hv : ValidDist al probs) :
    ∀ q ∈ probs.zipIdx, q.2 < 256 := by
  rintro ⟨p, s⟩ hq
  have := mem_zipIdx.1 hq
  have hs : s < probs.length := (List.getElem?_eq_some_iff.1 this).1
  have := hv.2.2.1
  simp only; omega

theorem enc_table_spec {al : Nat} {probs : List Int} (hb : EncBuildable al probs) {W : List Nat}
    (hW : walk (2 ^ al) (2 ^ al - (negSyms probs.zipIdx).length) (2 ^ al - (negSyms probs.zipIdx).length) 0 = .ok (W, 0))
    (hnd : W.Nodup) (hlt : ∀ c ∈ W, c < 2 ^ al - (negSyms probs.zipIdx).length) :
    ∃ et, buildTableFromProbabilities probs al = .ok et ∧ et.tableSize = 2 ^ al ∧ et.states.size = 256 ∧
      (∀ j (hj : j < (negSyms probs.zipIdx).length),
        et.states.getD (negSyms probs.zipIdx)[j] {}
          = { states := #[negState al (2 ^ al - 1 - j)], probability := -1 }) ∧
      (∀ p s, (p, s) ∈ probs.zipIdx → p > 0 →
        et.states.getD s {}
          = { states := ((orderedKs p.toNat).map (fun k => stateOf al p.toNat k
                ((sortedCells W (slots probs.zipIdx) s).getD k 0))).toArray, probability := p }) ∧
      (∀ s, (∀ p, (p, s) ∈ probs.zipIdx → p = 0) → et.states.getD s {} = {}) := by
  obtain ⟨hv, hnn⟩ := hb
  rw [← negSyms_length] at hnn
  have hmass := mass_eq probs
  rw [hv.2.2.2.2] at hmass
  have hWlen : W.length = 2 ^ al - (negSyms probs.zipIdx).length := walk_length hW
  have hWsl : W.length = (slots probs.zipIdx).length := by omega
  have hlt' : ∀ c ∈ W, c < W.length := by rw [hWlen]; exact hlt
  have h256 := sym_lt_256 hv
  have hndz := zipIdx_snd_nodup probs
  -- a symbol has exactly one probability
  have huniq : ∀ {p p' : Int} {s : Nat}, (p, s) ∈ probs.zipIdx → (p', s) ∈ probs.zipIdx → p = p' := by
    intro p p' s h1 h2
    have h1 := mem_zipIdx.1 h1
    have h2 := mem_zipIdx.1 h2
    rw [h1] at h2; exact Option.some.inj h2
  -- loop 1
  obtain ⟨st1, hst1, hsz1, hneg1, hoth1⟩ :=
    encPlaceNegatives_spec (al := al) probs.zipIdx (Array.replicate 256 {}) (2 ^ al - 1)
      (by simpa using h256) (by omega) hndz
  -- loop 2
  have hW' : walk (2 ^ al) (2 ^ al - (negSyms probs.zipIdx).length) (slots probs.zipIdx).length 0 = .ok (W, 0) := by
    rw [← hWsl, hWlen]; exact hW
  obtain ⟨st2, hst2, hsz2, hstates2, hprob02, hprob2⟩ :=
    encSpreadAll_spec (show 1 ≤ 2 ^ al - (negSyms probs.zipIdx).length by omega) probs.zipIdx st1 0 hW'
      (by rw [hsz1]; simpa using h256)
  -- cells of symbols without slots
  have hnoslot : ∀ s, s ∉ slots probs.zipIdx → cellsOf W (slots probs.zipIdx) s = [] := by
    intro s hs
    rw [List.eq_nil_iff_forall_not_mem]
    intro c hc
    rw [mem_cellsOf] at hc
    exact hs (List.of_mem_zip hc).2
  have hst2_noslot : ∀ s, s ∉ slots probs.zipIdx → st2.getD s {} = st1.getD s {} := by
    intro s hs
    apply symbolStates_ext
    · rw [hstates2 s, hnoslot s hs]; simp
    · apply hprob02
      intro p hp
      exact Int.not_lt.1 (fun hpp => hs (mem_slots.2 ⟨p, hp, hpp⟩))
  -- loop 3
  have hfin2 : ∀ p s, (p, s) ∈ probs.zipIdx → p > 0 →
      encFinishSymbol al p.toNat (st2.getD s {}).states
        = .ok ((orderedKs p.toNat).map (fun k => stateOf al p.toNat k
                ((sortedCells W (slots probs.zipIdx) s).getD k 0))).toArray := by
    intro p s hmem hp
    have hsn : s ∉ negSyms probs.zipIdx := by
      intro h
      have := huniq hmem (mem_negSyms.1 h)
      omega
    have hstates : (st2.getD s {}).states = ((cellsOf W (slots probs.zipIdx) s).map
        (fun c => ({ index := c } : EState))).toArray := by
      apply Array.toList_inj.1
      rw [hstates2 s, hoth1 s hsn, getD_replicate_empty]
      simp [mkSt]
    rw [hstates]
    obtain ⟨p', hp1, hp2, hp3, hp4⟩ := slot_sym_facts hv (mem_slots.2 ⟨p, hmem, hp⟩)
    have : p' = p := by
      have := mem_zipIdx.1 hmem
      rw [this] at hp1; exact (Option.some.inj hp1).symm
    subst this
    exact encFinishSymbol_spec hv.2.1 (by omega) hp4
      (by rw [cellsOf_length hWsl, hp3]) (sortedCells_pairwise _ _ _)
      (sortedCells_perm s hnd hlt' (Nat.le_of_eq hWsl))
  obtain ⟨st3, hst3, hsz3, hpos3, hoth3⟩ :=
    encFinishAll_spec (al := al) probs.zipIdx st2 (by rw [hsz2, hsz1]; simpa using h256) hndz
      (fun p s hmem hp => ⟨_, hfin2 p s hmem hp⟩)
  refine ⟨{ states := st3, tableSize := 2 ^ al }, ?_, rfl, ?_, ?_, ?_, ?_⟩
  · unfold buildTableFromProbabilities
    rw [if_neg (by have := hv.2.1; omega)]
    simp only [Nat.one_shiftLeft, hst1]
    rw [show 2 ^ al - 1 - (negSyms probs.zipIdx).length = 2 ^ al - (negSyms probs.zipIdx).length - 1 by omega]
    simp only [hst2, hst3]
  · simp only [hsz3, hsz2, hsz1, Array.size_replicate]
  · intro j hj
    simp only
    have hmem : (-1, (negSyms probs.zipIdx)[j]) ∈ probs.zipIdx := mem_negSyms.1 (List.getElem_mem hj)
    have hns : (negSyms probs.zipIdx)[j] ∉ slots probs.zipIdx := by
      intro h
      obtain ⟨p, hp1, hp2⟩ := mem_slots.1 h
      have := huniq hmem hp1
      omega
    rw [hoth3 _ (fun p hp => by have := huniq hmem hp; omega), hst2_noslot _ hns, hneg1 j hj,
      getD_replicate_empty]
    simp
  · intro p s hmem hp
    simp only
    obtain ⟨r, hr, hst⟩ := hpos3 p s hmem hp
    rw [hfin2 p s hmem hp] at hr
    rw [hst, ← Except.ok.inj hr]
    simp only [hprob2 hndz p s hmem hp]
  · intro s hall
    simp only
    have hns : s ∉ slots probs.zipIdx := by
      intro h
      obtain ⟨p, hp1, hp2⟩ := mem_slots.1 h
      have := hall p hp1
      omega
    have hnn' : s ∉ negSyms probs.zipIdx := by
      intro h
      have := hall _ (mem_negSyms.1 h)
      omega
    rw [hoth3 _ (fun p hp => by have := hall p hp; omega), hst2_noslot _ hns, hoth1 s hnn',
      getD_replicate_empty]

end Zstd.Proofs.FseEncTable
