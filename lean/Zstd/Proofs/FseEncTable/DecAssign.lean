import Zstd.Proofs.FseEncTable.Defs
/-
Third loop of `build_decoding_table` (`assignStates`): every cell `c < neg` keeps its symbol `s` and gets
the RFC entry `rfcEntry al probs[s] k`, where `k` = number of cells below `c` that carry `s`.
-/
namespace Zstd.Proofs.FseEncTable
open Zstd Zstd.Model.Fse Zstd.Proofs.FseFin

/-- symbol stored in cell `c` -/
def symOf (d : Array DEntry) (c : Nat) : Nat := (d.getD c {}).symbol

/-- number of cells below `c` that carry the symbol `s` = the value of `symbol_counter[s]` when the loop reaches `c` -/
def rankOf (d : Array DEntry) (s c : Nat) : Nat := ((List.range c).filter (fun c' => symOf d c' = s)).length

theorem rankOf_zero (d : Array DEntry) (s : Nat) : rankOf d s 0 = 0 := by
  simp [rankOf]

theorem rankOf_succ (d : Array DEntry) (s c : Nat) :
    rankOf d s (c + 1) = rankOf d s c + (if symOf d c = s then 1 else 0) := by
  unfold rankOf
  rw [List.range_succ, List.filter_append, List.length_append]
  by_cases h : symOf d c = s
  · simp [h]
  · simp [h]

theorem rankOf_mono (d : Array DEntry) (s : Nat) {a b : Nat} (h : a ≤ b) : rankOf d s a ≤ rankOf d s b := by
  induction h with
  | refl => exact Nat.le_refl _
  | step _ ih => rw [rankOf_succ]; omega

theorem rankOf_lt (d : Array DEntry) {s c n : Nat} (hs : symOf d c = s) (hc : c < n) :
    rankOf d s c < rankOf d s n := by
  have h1 := rankOf_mono d s (show c + 1 ≤ n from hc)
  rw [rankOf_succ, if_pos hs] at h1
  omega

theorem getD_set! (d : Array DEntry) (i c : Nat) (v : DEntry) (hi : i < d.size) :
    (d.set! i v).getD c {} = if i = c then v else d.getD c {} := by
  simp only [Array.set!_eq_setIfInBounds, Array.getD_eq_getD_getElem?, Array.getElem?_setIfInBounds]
  by_cases h : i = c
  · subst h; simp [hi]
  · simp [h]

theorem asU32_pos {p : Int} (hp : 0 < p) : asU32 p = p.toNat := by
  unfold asU32
  rw [if_neg (by omega)]

theorem rfcEntry_snd_le (al p k : Nat) : (rfcEntry al p k).2 ≤ al := by
  simp only [rfcEntry]
  exact Nat.sub_le _ _

theorem assignStates_aux {al neg : Nat} {probs : Array Int} {dec2 : Array DEntry}
    (hal : al ≤ 9) (hneg : neg ≤ dec2.size)
    (hsym : ∀ c, c < neg → ∃ p : Int, probs[symOf dec2 c]? = some p ∧ 0 < p ∧ p.toNat ≤ 2 ^ al ∧
        rankOf dec2 (symOf dec2 c) neg ≤ p.toNat) :
    ∀ (n idx : Nat) (dec : Array DEntry) (ctr : Array Nat),
      idx + n = neg →
      dec.size = dec2.size → ctr.size = probs.size →
      (∀ c, symOf dec c = symOf dec2 c) →
      (∀ c, idx ≤ c → dec.getD c {} = dec2.getD c {}) →
      (∀ s, s < probs.size → ctr[s]? = some (rankOf dec2 s idx)) →
      (∀ c, c < idx → ((dec.getD c {}).baseLine, (dec.getD c {}).numBits)
           = rfcEntry al (probs.getD (symOf dec2 c) 0).toNat (rankOf dec2 (symOf dec2 c) c)) →
      ∃ dec' ctr', assignStates al (2 ^ al) probs n idx dec ctr = .ok (dec', ctr') ∧
        dec'.size = dec2.size ∧
        (∀ c, neg ≤ c → dec'.getD c {} = dec2.getD c {}) ∧
        (∀ c, symOf dec' c = symOf dec2 c) ∧
        (∀ c, c < neg → ((dec'.getD c {}).baseLine, (dec'.getD c {}).numBits)
           = rfcEntry al (probs.getD (symOf dec2 c) 0).toNat (rankOf dec2 (symOf dec2 c) c)) := by
  intro n
  induction n with
  | zero =>
    intro idx dec ctr hn hsz _ hs hhi _ hlo
    have : idx = neg := by omega
    subst this
    exact ⟨dec, ctr, rfl, hsz, hhi, hs, hlo⟩
  | succ n ih =>
    intro idx dec ctr hn hsz hcsz hs hhi hctr hlo
    have hidx : idx < neg := by omega
    have hidxd : idx < dec.size := by omega
    obtain ⟨p, hp, hp0, hple, hrk⟩ := hsym idx hidx
    -- the entry read
    have he : dec[idx]? = some (dec.getD idx {}) := by
      rw [Array.getD_eq_getD_getElem?, Array.getElem?_eq_getElem hidxd]; rfl
    have hes : (dec.getD idx {}).symbol = symOf dec2 idx := hs idx
    have hslt : symOf dec2 idx < probs.size := by
      rcases Nat.lt_or_ge (symOf dec2 idx) probs.size with h | h
      · exact h
      · rw [Array.getElem?_eq_none h] at hp; cases hp
    have hc := hctr _ hslt
    have hk : rankOf dec2 (symOf dec2 idx) idx < p.toNat :=
      Nat.lt_of_lt_of_le (rankOf_lt dec2 rfl hidx) hrk
    have hcf := closedForm hal (show 1 ≤ p.toNat by omega) hple hk
    have hnb := rfcEntry_snd_le al p.toNat (rankOf dec2 (symOf dec2 idx) idx)
    have hpg : probs.getD (symOf dec2 idx) 0 = p := by
      rw [Array.getD_eq_getD_getElem?, hp]; rfl
    rw [assignStates]
    simp only [he, hes, hp, hc, asU32_pos hp0, hcf]
    rw [if_neg (by omega)]
    refine ih (idx + 1) _ _ (by omega) ?_ ?_ ?_ ?_ ?_ ?_
    · rw [Array.set!_eq_setIfInBounds, Array.size_setIfInBounds]; exact hsz
    · rw [Array.set!_eq_setIfInBounds, Array.size_setIfInBounds]; exact hcsz
    · intro c
      rw [symOf, getD_set! _ _ _ _ hidxd]
      by_cases h : idx = c
      · rw [if_pos h]; subst h; first | rfl | exact hes
      · rw [if_neg h]; exact hs c
    · intro c hc'
      rw [getD_set! _ _ _ _ hidxd, if_neg (by omega)]
      exact hhi c (by omega)
    · intro s hs'
      rw [Array.set!_eq_setIfInBounds, Array.getElem?_setIfInBounds, rankOf_succ]
      by_cases h : symOf dec2 idx = s
      · subst h
        rw [if_pos rfl, if_pos rfl, if_pos (by rw [hcsz]; exact hslt)]
      · rw [if_neg h, if_neg h]; exact hctr s hs'
    · intro c hc'
      rw [getD_set! _ _ _ _ hidxd]
      by_cases h : idx = c
      · rw [if_pos h]; subst h
        rw [hpg]
      · rw [if_neg h]; exact hlo c (by omega)

theorem assignStates_spec {al neg : Nat} {probs : Array Int} {dec2 : Array DEntry}
    (hal : al ≤ 9) (hneg : neg ≤ dec2.size)
    (hsym : ∀ c, c < neg → ∃ p : Int, probs[symOf dec2 c]? = some p ∧ 0 < p ∧ p.toNat ≤ 2 ^ al ∧
        rankOf dec2 (symOf dec2 c) neg ≤ p.toNat) :
    ∃ dec ctr, assignStates al (2 ^ al) probs neg 0 dec2 (Array.replicate probs.size 0) = .ok (dec, ctr) ∧
      dec.size = dec2.size ∧
      (∀ c, neg ≤ c → dec.getD c {} = dec2.getD c {}) ∧
      (∀ c, c < neg → symOf dec c = symOf dec2 c ∧
         ((dec.getD c {}).baseLine, (dec.getD c {}).numBits)
           = rfcEntry al (probs.getD (symOf dec2 c) 0).toNat (rankOf dec2 (symOf dec2 c) c)) := by
  obtain ⟨dec, ctr, h1, h2, h3, h4, h5⟩ :=
    assignStates_aux hal hneg hsym neg 0 dec2 (Array.replicate probs.size 0) (by omega) rfl
      (by simp) (fun _ => rfl) (fun _ _ => rfl)
      (by
        intro s hs
        rw [rankOf_zero, Array.getElem?_replicate, if_pos hs])
      (by intro c hc; omega)
  exact ⟨dec, ctr, h1, h2, h3, fun c hc => ⟨h4 c, h5 c hc⟩⟩

end Zstd.Proofs.FseEncTable
