import Zstd.Proofs.FseEncTable.Defs
/-
The first two loops of `fse_decoder.rs build_decoding_table` (`placeNegatives`, `spreadAll`) in closed form:
"less than one" symbols fill the table from the top cell downwards, slot `t` of the flattened distribution
(`slots`) lands in the `t`-th cell of the spreading walk (`FseFin.walk`).
-/
namespace Zstd.Proofs.FseEncTable
open Zstd Zstd.Model.Fse Zstd.Proofs.FseFin

/-! helper lemmas live in the sub-namespace `DecSpread` (sibling files define some of the same names) -/
namespace DecSpread

theorem negSyms_cons_neg (s : Nat) (rest : List (Int × Nat)) :
    negSyms ((-1, s) :: rest) = s :: negSyms rest := by
  simp [negSyms]

theorem negSyms_cons_ne {p : Int} (h : p ≠ -1) (s : Nat) (rest : List (Int × Nat)) :
    negSyms ((p, s) :: rest) = negSyms rest := by
  simp [negSyms, h]

theorem slots_cons_pos {p : Int} (h : p > 0) (s : Nat) (rest : List (Int × Nat)) :
    slots ((p, s) :: rest) = List.replicate p.toNat s ++ slots rest := by
  simp [slots, h]

theorem slots_cons_nonpos {p : Int} (h : p ≤ 0) (s : Nat) (rest : List (Int × Nat)) :
    slots ((p, s) :: rest) = slots rest := by
  have : ¬ p > 0 := by omega
  simp [slots, this]

theorem getD_set!_ne {α} (dec : Array α) {i c : Nat} (v d : α) (h : i ≠ c) :
    (dec.set! i v).getD c d = dec.getD c d := by
  simp only [Array.set!_eq_setIfInBounds, Array.getD_eq_getD_getElem?, Array.getElem?_setIfInBounds, h,
    if_false]

theorem getD_set!_eq {α} (dec : Array α) {i : Nat} (v d : α) (h : i < dec.size) :
    (dec.set! i v).getD i d = v := by
  simp only [Array.set!_eq_setIfInBounds, Array.getD_eq_getD_getElem?, Array.getElem?_setIfInBounds, h,
    if_true, Option.getD_some]

theorem size_set! {α} (dec : Array α) (i : Nat) (v : α) : (dec.set! i v).size = dec.size := by
  simp only [Array.set!_eq_setIfInBounds, Array.size_setIfInBounds]

theorem placeNegatives_spec (al : Nat) : ∀ (ps : List (Int × Nat)) (dec : Array DEntry) (neg : Nat),
    (negSyms ps).length ≤ neg → neg ≤ dec.size →
    ∃ dec', placeNegatives al ps dec neg = .ok (dec', neg - (negSyms ps).length) ∧ dec'.size = dec.size ∧
      (∀ j (hj : j < (negSyms ps).length),
        dec'.getD (neg - 1 - j) {} = { symbol := (negSyms ps)[j] % 256, baseLine := 0, numBits := al }) ∧
      (∀ c d, (c < neg - (negSyms ps).length ∨ neg ≤ c) → dec'.getD c d = dec.getD c d) := by
  intro ps
  induction ps with
  | nil =>
    intro dec neg _ _
    refine ⟨dec, ?_, rfl, ?_, ?_⟩
    · simp [placeNegatives, negSyms]
    · intro j hj; simp [negSyms] at hj
    · intro c d _; rfl
  | cons q rest ih =>
    obtain ⟨p, s⟩ := q
    intro dec neg h1 h2
    by_cases hp : p = -1
    · subst hp
      rw [negSyms_cons_neg] at h1 ⊢
      simp only [List.length_cons] at h1 ⊢
      have hn0 : neg ≠ 0 := by omega
      have hlt : neg - 1 < dec.size := by omega
      obtain ⟨dec', e1, e2, e3, e4⟩ := ih (dec.set! (neg - 1) { symbol := s % 256, baseLine := 0, numBits := al })
        (neg - 1) (by omega) (by rw [size_set!]; omega)
      refine ⟨dec', ?_, ?_, ?_, ?_⟩
      · simp only [placeNegatives, hn0, hlt, if_true, if_false, e1]
        rw [show neg - 1 - (negSyms rest).length = neg - ((negSyms rest).length + 1) by omega]
      · rw [e2, size_set!]
      · intro j hj
        cases j with
        | zero =>
          rw [Nat.sub_zero, e4 _ _ (Or.inr (Nat.le_refl _)), getD_set!_eq _ _ _ hlt]
          rfl
        | succ j =>
          have := e3 j (by simpa using hj)
          rw [show neg - 1 - (j + 1) = neg - 1 - 1 - j by omega, this]
          rfl
      · intro c d hc
        rw [e4 c d (by omega), getD_set!_ne _ _ _ (by omega)]
    · rw [negSyms_cons_ne hp] at h1 ⊢
      obtain ⟨dec', e1, e2, e3, e4⟩ := ih dec neg h1 h2
      refine ⟨dec', ?_, e2, e3, e4⟩
      simp only [placeNegatives, hp, if_false, e1]


theorem getD_of_lt (dec : Array DEntry) {c : Nat} (h : c < dec.size) (d : DEntry) : dec.getD c d = dec[c] := by
  simp [Array.getD_eq_getD_getElem?, h]

theorem spreadSymbol_spec {size neg sym : Nat} : ∀ (n : Nat) (dec : Array DEntry) (pos : Nat) {l : List Nat} {e : Nat},
    walk size neg n pos = .ok (l, e) → (∀ c ∈ l, c < dec.size) →
    ∃ dec', spreadSymbol size neg sym n dec pos = .ok (dec', e) ∧ dec'.size = dec.size ∧
      (∀ c ∈ l, dec'.getD c {} = { dec.getD c {} with symbol := sym }) ∧
      (∀ c, c ∉ l → dec'.getD c {} = dec.getD c {}) := by
  intro n
  induction n with
  | zero =>
    intro dec pos l e h _
    simp only [walk, Except.ok.injEq, Prod.mk.injEq] at h
    obtain ⟨rfl, rfl⟩ := h
    exact ⟨dec, rfl, rfl, fun c hc => by simp at hc, fun c _ => rfl⟩
  | succ n ih =>
    intro dec pos l e h hb
    simp only [walk] at h
    split at h
    · cases h
    · rename_i pos' hs
      split at h
      · cases h
      · rename_i l' e' h'
        simp only [Except.ok.injEq, Prod.mk.injEq] at h
        obtain ⟨rfl, rfl⟩ := h
        have hpos : pos < dec.size := hb pos (List.mem_cons_self)
        have hget : dec[pos]? = some dec[pos] := Array.getElem?_eq_getElem hpos
        obtain ⟨dec', e1, e2, e3, e4⟩ := ih (dec.set! pos { dec[pos] with symbol := sym }) pos' h'
          (fun c hc => by rw [size_set!]; exact hb c (List.mem_cons_of_mem _ hc))
        refine ⟨dec', ?_, ?_, ?_, ?_⟩
        · simp only [spreadSymbol, hget, hs, e1]
        · rw [e2, size_set!]
        · intro c hc
          by_cases hcl : c ∈ l'
          · rw [e3 c hcl]
            by_cases hcp : pos = c
            · subst hcp
              rw [getD_set!_eq _ _ _ hpos, getD_of_lt _ hpos]
            · rw [getD_set!_ne _ _ _ hcp]
          · rw [e4 c hcl]
            have hcp : c = pos := by
              rcases List.mem_cons.1 hc with h | h
              · exact h
              · exact absurd h hcl
            subst hcp
            rw [getD_set!_eq _ _ _ hpos, getD_of_lt _ hpos]
        · intro c hc
          have h1 : c ∉ l' := fun h => hc (List.mem_cons_of_mem _ h)
          have h2 : pos ≠ c := fun h => hc (h ▸ List.mem_cons_self)
          rw [e4 c h1, getD_set!_ne _ _ _ h2]


theorem spreadAll_spec {size neg : Nat} : ∀ (ps : List (Int × Nat)) (dec : Array DEntry) (pos : Nat)
    {W : List Nat} {e : Nat},
    walk size neg (slots ps).length pos = .ok (W, e) → W.Nodup → (∀ c ∈ W, c < dec.size) →
    ∃ dec', spreadAll size neg ps dec pos = .ok (dec', e) ∧ dec'.size = dec.size ∧
      (∀ c, c ∉ W → dec'.getD c {} = dec.getD c {}) ∧
      (∀ (t c sy : Nat), W[t]? = some c → (slots ps)[t]? = some sy →
        dec'.getD c {} = { dec.getD c {} with symbol := sy % 256 }) := by
  intro ps
  induction ps with
  | nil =>
    intro dec pos W e h _ _
    simp only [slots, List.flatMap_nil, List.length_nil, walk, Except.ok.injEq, Prod.mk.injEq] at h
    obtain ⟨rfl, rfl⟩ := h
    exact ⟨dec, rfl, rfl, fun c _ => rfl, fun t c sy h => by simp at h⟩
  | cons q rest ih =>
    obtain ⟨p, s⟩ := q
    intro dec pos W e h hnd hb
    by_cases hp : p ≤ 0
    · rw [slots_cons_nonpos hp] at h ⊢
      obtain ⟨dec', e1, e2, e3, e4⟩ := ih dec pos h hnd hb
      refine ⟨dec', ?_, e2, e3, e4⟩
      simp only [spreadAll, hp, if_true, e1]
    · have hp' : p > 0 := by omega
      rw [slots_cons_pos hp'] at h ⊢
      rw [List.length_append, List.length_replicate] at h
      obtain ⟨W1, W2, m, hw1, hw2, rfl⟩ := walk_append _ _ _ h
      have hl1 : W1.length = p.toNat := walk_length hw1
      rw [List.nodup_append] at hnd
      obtain ⟨hnd1, hnd2, hdis⟩ := hnd
      obtain ⟨dec1, a1, a2, a3, a4⟩ := spreadSymbol_spec (sym := s % 256) p.toNat dec pos hw1
        (fun c hc => hb c (List.mem_append_left _ hc))
      obtain ⟨dec', e1, e2, e3, e4⟩ := ih dec1 m hw2 hnd2
        (fun c hc => by rw [a2]; exact hb c (List.mem_append_right _ hc))
      refine ⟨dec', ?_, ?_, ?_, ?_⟩
      · simp only [spreadAll, hp, if_false, a1, e1]
      · rw [e2, a2]
      · intro c hc
        rw [List.mem_append, not_or] at hc
        rw [e3 c hc.2, a4 c hc.1]
      · intro t c sy hW hS
        by_cases ht : t < W1.length
        · rw [List.getElem?_append_left ht] at hW
          rw [List.getElem?_append_left (by rw [List.length_replicate]; omega)] at hS
          have hc1 : c ∈ W1 := List.mem_of_getElem? hW
          have hc2 : c ∉ W2 := fun h2 => hdis c hc1 c h2 rfl
          have hsy : sy = s := by
            rw [List.getElem?_replicate] at hS
            split at hS
            · exact (Option.some.inj hS).symm
            · cases hS
          rw [e3 c hc2, a3 c hc1, hsy]
        · rw [List.getElem?_append_right (by omega)] at hW
          rw [List.getElem?_append_right (by rw [List.length_replicate]; omega), List.length_replicate,
            ← hl1] at hS
          have hc2 : c ∈ W2 := List.mem_of_getElem? hW
          have hc1 : c ∉ W1 := fun h1 => hdis c h1 c hc2 rfl
          rw [e4 _ c sy hW hS, a4 c hc1]


theorem sym_lt_of_mem_zipIdx {probs : List Int} {p : Int} {s : Nat} (h : (p, s) ∈ probs.zipIdx) :
    s < probs.length := by
  rw [mem_zipIdx] at h
  exact (List.getElem?_eq_some_iff.1 h).1

theorem getD_replicate_default (n c : Nat) :
    (Array.replicate n ({} : DEntry)).getD c {} = {} := by
  rw [Array.getD_eq_getD_getElem?, Array.getElem?_replicate]
  split <;> rfl

end DecSpread
open DecSpread

/-- first two loops of `build_decoding_table`: the `j`-th "less than one" symbol sits in cell `2^al - 1 - j` with
baseline 0 and `al` bits, slot `t` of the flattened distribution sits in cell `W[t]` -/
theorem dec_spread_spec {al : Nat} {probs : List Int} (hv : ValidDist al probs) {W : List Nat}
    (hW : walk (2 ^ al) (2 ^ al - (negSyms probs.zipIdx).length) (2 ^ al - (negSyms probs.zipIdx).length) 0 = .ok (W, 0))
    (hnd : W.Nodup) (hlt : ∀ c ∈ W, c < 2 ^ al - (negSyms probs.zipIdx).length) :
    ∃ dec1 dec2 e,
      placeNegatives al probs.zipIdx (Array.replicate (2 ^ al) {}) (2 ^ al)
        = .ok (dec1, 2 ^ al - (negSyms probs.zipIdx).length) ∧
      spreadAll (2 ^ al) (2 ^ al - (negSyms probs.zipIdx).length) probs.zipIdx dec1 0 = .ok (dec2, e) ∧
      dec2.size = 2 ^ al ∧
      (∀ j (hj : j < (negSyms probs.zipIdx).length),
        dec2.getD (2 ^ al - 1 - j) {} = { symbol := (negSyms probs.zipIdx)[j], baseLine := 0, numBits := al }) ∧
      (∀ t (ht : t < W.length) (ht' : t < (slots probs.zipIdx).length),
        dec2.getD W[t] {} = { symbol := (slots probs.zipIdx)[t], baseLine := 0, numBits := 0 }) := by
  obtain ⟨_, _, hlen, _, hmass⟩ := hv
  have hsum : (negSyms probs.zipIdx).length + (slots probs.zipIdx).length = 2 ^ al := by
    rw [← mass_eq, hmass]
  have hS : (slots probs.zipIdx).length = 2 ^ al - (negSyms probs.zipIdx).length := by omega
  obtain ⟨dec1, p1, p2, p3, p4⟩ := placeNegatives_spec al probs.zipIdx (Array.replicate (2 ^ al) {}) (2 ^ al)
    (by omega) (by rw [Array.size_replicate]; exact Nat.le_refl _)
  rw [Array.size_replicate] at p2
  obtain ⟨dec2, s1, s2, s3, s4⟩ := spreadAll_spec (size := 2 ^ al)
    (neg := 2 ^ al - (negSyms probs.zipIdx).length) probs.zipIdx dec1 0 (W := W) (e := 0)
    (by rw [hS]; exact hW) hnd (fun c hc => by have := hlt c hc; omega)
  refine ⟨dec1, dec2, 0, p1, s1, by rw [s2, p2], ?_, ?_⟩
  · intro j hj
    have hnW : 2 ^ al - 1 - j ∉ W := fun h => by have := hlt _ h; omega
    rw [s3 _ hnW, p3 j hj]
    have hmem : (-1, (negSyms probs.zipIdx)[j]) ∈ probs.zipIdx := mem_negSyms.1 (List.getElem_mem hj)
    have := sym_lt_of_mem_zipIdx hmem
    rw [Nat.mod_eq_of_lt (by omega)]
  · intro t ht ht'
    have hc : W[t] < 2 ^ al - (negSyms probs.zipIdx).length := hlt _ (List.getElem_mem ht)
    rw [s4 t W[t] (slots probs.zipIdx)[t] (List.getElem?_eq_getElem ht) (List.getElem?_eq_getElem ht'),
      p4 _ _ (Or.inl hc)]
    obtain ⟨p, hmem, _⟩ := mem_slots.1 (List.getElem_mem ht')
    have := sym_lt_of_mem_zipIdx hmem
    rw [Nat.mod_eq_of_lt (by omega)]
    rw [getD_replicate_default]

end Zstd.Proofs.FseEncTable
