import Zstd.Proofs.FseEncTable.Tables
/-
The joint shape of the two tables: one statement from which the three theorems of
`Zstd/Proofs/FseEncTable.lean` follow without looking at the model again.
-/
namespace Zstd.Proofs.FseEncTable
open Zstd Zstd.Model.Fse Zstd.Proofs.FseFin

theorem getD_of_mem_zipIdx {probs : List Int} {s : Nat} {p : Int} (h : (p, s) ∈ probs.zipIdx) :
    probs.getD s 0 = p := by
  rw [List.getD_eq_getElem?_getD, mem_zipIdx.1 h]; rfl

theorem mem_zipIdx_of_getD {probs : List Int} {s : Nat} (h : probs.getD s 0 ≠ 0) :
    (probs.getD s 0, s) ∈ probs.zipIdx := by
  rw [mem_zipIdx]
  rw [List.getD_eq_getElem?_getD] at h ⊢
  cases hs : probs[s]? with
  | none => rw [hs] at h; exact absurd rfl h
  | some v => rfl

theorem negSyms_nodup (probs : List Int) : (negSyms probs.zipIdx).Nodup := by
  have h : (negSyms probs.zipIdx).Sublist (probs.zipIdx.map (·.2)) := by
    unfold negSyms
    exact List.Sublist.map _ List.filter_sublist
  exact (zipIdx_snd_nodup probs).sublist h

/-- the cells owned by symbol `s`, in increasing order -/
def cellsFn (al : Nat) (probs : List Int) (W : List Nat) (s : Nat) : List Nat :=
  if probs.getD s 0 = -1 then [2 ^ al - 1 - (negSyms probs.zipIdx).idxOf s]
  else sortedCells W (slots probs.zipIdx) s

theorem tables_shape {al : Nat} {probs : List Int} {maxSymbol : Nat}
    (hb : EncBuildable al probs) (hms : probs.length ≤ maxSymbol + 1) :
    ∃ (et : ETable) (dec : Array DEntry) (ctr : Array Nat) (cells : Nat → List Nat),
      buildTableFromProbabilities probs al = .ok et ∧
      buildDecodingTableCore al probs.toArray maxSymbol = .ok (dec, ctr) ∧
      et.tableSize = 2 ^ al ∧ et.states.size = 256 ∧ dec.size = 2 ^ al ∧
      (∀ s, probs.getD s 0 = -1 → ∃ c, c < 2 ^ al ∧ cells s = [c] ∧
        et.states.getD s {} = { states := #[negState al c], probability := -1 } ∧
        dec.getD c {} = { symbol := s, baseLine := 0, numBits := al }) ∧
      (∀ s, probs.getD s 0 > 0 →
        (probs.getD s 0).toNat ≤ 2 ^ al ∧
        (cells s).length = (probs.getD s 0).toNat ∧ (cells s).Nodup ∧
        et.states.getD s {}
          = { states := ((orderedKs (probs.getD s 0).toNat).map (fun k =>
                stateOf al (probs.getD s 0).toNat k ((cells s).getD k 0))).toArray,
              probability := probs.getD s 0 } ∧
        ∀ k (hk : k < (cells s).length), (cells s)[k] < 2 ^ al ∧
          dec.getD (cells s)[k] {}
            = { symbol := s, baseLine := (rfcEntry al (probs.getD s 0).toNat k).1,
                numBits := (rfcEntry al (probs.getD s 0).toNat k).2 }) ∧
      (∀ s, probs.getD s 0 = 0 → et.states.getD s {} = {}) ∧
      (∀ i, i < 2 ^ al → probs.getD (symOf dec i) 0 ≠ 0 ∧ i ∈ cells (symOf dec i)) := by
  have hv := hb.1
  have hnn := hb.2
  rw [← negSyms_length] at hnn
  have hmass := mass_eq probs
  rw [hv.2.2.2.2] at hmass
  obtain ⟨W, hW, hWlen, hnd, hlt⟩ :=
    walk_perm (al := al) (neg := 2 ^ al - (negSyms probs.zipIdx).length) hv.1 hv.2.1 (Nat.sub_le _ _)
  have hWsl : W.length = (slots probs.zipIdx).length := by omega
  have hlt' : ∀ c ∈ W, c < W.length := by rw [hWlen]; exact hlt
  obtain ⟨et, het, hts, hsz, heneg, hepos, hezero⟩ := enc_table_spec hb hW hnd hlt
  obtain ⟨dec, ctr, hdec, hdsz, hdneg, hdsym, hdval⟩ := dec_table_spec hv hms hW hnd hlt
  refine ⟨et, dec, ctr, cellsFn al probs W, het, hdec, hts, hsz, hdsz, ?_, ?_, ?_, ?_⟩
  · -- "less than one" symbols
    intro s hs
    have hmem : (-1, s) ∈ probs.zipIdx := by
      have := mem_zipIdx_of_getD (probs := probs) (s := s) (by omega)
      rwa [hs] at this
    have hj : (negSyms probs.zipIdx).idxOf s < (negSyms probs.zipIdx).length :=
      List.idxOf_lt_length_iff.2 (mem_negSyms.2 hmem)
    have hjs := List.getElem_idxOf hj
    refine ⟨2 ^ al - 1 - (negSyms probs.zipIdx).idxOf s, by omega, by simp only [cellsFn, if_pos hs], ?_, ?_⟩
    · have := heneg _ hj
      rwa [hjs] at this
    · have := hdneg _ hj
      rwa [hjs] at this
  · -- symbols with slots
    intro s hs
    have hmem : (probs.getD s 0, s) ∈ probs.zipIdx := mem_zipIdx_of_getD (by omega)
    have hcount := count_slots (zipIdx_snd_nodup probs) hmem
    rw [if_pos hs] at hcount
    have hcf : cellsFn al probs W s = sortedCells W (slots probs.zipIdx) s := by
      simp only [cellsFn, if_neg (show ¬ probs.getD s 0 = -1 by omega)]
    rw [hcf]
    have hple : (probs.getD s 0).toNat ≤ 2 ^ al := by
      have h1 : (slots probs.zipIdx).count s ≤ (slots probs.zipIdx).length := List.count_le_length
      omega
    refine ⟨hple, by rw [sortedCells_length s hnd hlt' hWsl, hcount], sortedCells_nodup _ _ _,
      hepos _ s hmem hs, ?_⟩
    intro k hk
    have hcmem : (sortedCells W (slots probs.zipIdx) s)[k] ∈ sortedCells W (slots probs.zipIdx) s :=
      List.getElem_mem hk
    generalize hc : (sortedCells W (slots probs.zipIdx) s)[k] = c at hcmem
    have hcell := (mem_sortedCells hlt' (Nat.le_of_eq hWsl)).1 hcmem
    have hcW : c < W.length := hlt' c ((cellsOf_sublist (Nat.le_of_eq hWsl) s).subset hcell)
    have hcneg : c < 2 ^ al - (negSyms probs.zipIdx).length := by omega
    have hsym : symOf dec c = s := (hdsym c s hcneg).2 hcell
    have hrank := filter_range_rank (fun c' => decide (c' ∈ cellsOf W (slots probs.zipIdx) s)) hcW
      (by simpa using hcell)
    have hk2 : (sortedCells W (slots probs.zipIdx) s)[k]? = some c := by
      rw [List.getElem?_eq_getElem hk, hc]
    have hkk : k = ((List.range c).filter
        (fun c' => decide (c' ∈ cellsOf W (slots probs.zipIdx) s))).length := by
      apply (List.getElem?_inj hk (sortedCells_nodup _ _ _)).1
      rw [hk2]; exact hrank.symm
    have hval := hdval c hcneg
    rw [hsym, ← hkk] at hval
    refine ⟨by omega, ?_⟩
    unfold symOf at hsym
    cases hd : dec.getD c {} with
    | mk bl nb sy =>
      rw [hd] at hval hsym
      simp only at hval hsym
      rw [← hval, hsym]
  · intro s hs
    exact hezero s (fun p hp => by rw [← getD_of_mem_zipIdx hp]; exact hs)
  · -- every cell is owned
    intro i hi
    by_cases hlow : i < 2 ^ al - (negSyms probs.zipIdx).length
    · have hcell := (hdsym i _ hlow).1 rfl
      have hs : symOf dec i ∈ slots probs.zipIdx := by
        rw [mem_cellsOf] at hcell
        exact (List.of_mem_zip hcell).2
      obtain ⟨p, hmem, hp⟩ := mem_slots.1 hs
      have hg := getD_of_mem_zipIdx hmem
      refine ⟨by omega, ?_⟩
      simp only [cellsFn, if_neg (show ¬ probs.getD (symOf dec i) 0 = -1 by omega)]
      exact (mem_sortedCells hlt' (Nat.le_of_eq hWsl)).2 hcell
    · have hj : 2 ^ al - 1 - i < (negSyms probs.zipIdx).length := by omega
      have hd := hdneg _ hj
      rw [show 2 ^ al - 1 - (2 ^ al - 1 - i) = i by omega] at hd
      have hsym : symOf dec i = (negSyms probs.zipIdx)[2 ^ al - 1 - i] := by
        unfold symOf; rw [hd]
      have hg := getD_of_mem_zipIdx (mem_negSyms.1 (List.getElem_mem hj))
      rw [hsym, hg]
      refine ⟨by omega, ?_⟩
      simp only [cellsFn, hg, ↓reduceIte, List.mem_singleton]
      have hj' : (negSyms probs.zipIdx).idxOf (negSyms probs.zipIdx)[2 ^ al - 1 - i]
          < (negSyms probs.zipIdx).length := List.idxOf_lt_length_iff.2 (List.getElem_mem hj)
      have h1 := List.getElem_idxOf hj'
      have h2 : (negSyms probs.zipIdx).idxOf (negSyms probs.zipIdx)[2 ^ al - 1 - i] = 2 ^ al - 1 - i := by
        apply (List.getElem?_inj hj' (negSyms_nodup probs)).1
        rw [List.getElem?_eq_getElem hj', List.getElem?_eq_getElem hj, h1]
      rw [h2]; omega

end Zstd.Proofs.FseEncTable
