import Zstd.Proofs.FseEncTable.Defs
/-
Encoder side of the table equivalence: what `build_table_from_probabilities` leaves in `states[s]` after
each of its three loops, in terms of the walk list `W` and the slot list `slots`.
-/
namespace Zstd.Proofs.FseEncTable
open Zstd Zstd.Model.Fse Zstd.Proofs.FseFin

/-! ### cells of a symbol: `W[t]` for the slots `t` with `sl[t] = s`, in walk order -/

def cellsOf (W sl : List Nat) (s : Nat) : List Nat := ((W.zip sl).filter (fun q => q.2 = s)).map (·.1)

theorem cellsOf_append {W1 W2 sl1 sl2 : List Nat} (h : W1.length = sl1.length) (s : Nat) :
    cellsOf (W1 ++ W2) (sl1 ++ sl2) s = cellsOf W1 sl1 s ++ cellsOf W2 sl2 s := by
  simp only [cellsOf, List.zip_append h, List.filter_append, List.map_append]

theorem cellsOf_replicate (W : List Nat) (s0 s : Nat) :
    cellsOf W (List.replicate W.length s0) s = if s0 = s then W else [] := by
  induction W with
  | nil => simp [cellsOf]
  | cons c W ih =>
    simp only [cellsOf, List.length_cons, List.replicate_succ, List.zip_cons_cons, List.filter_cons] at ih ⊢
    by_cases h : s0 = s
    · simp only [h, decide_true, ↓reduceIte, List.map_cons] at ih ⊢; rw [ih]
    · simp only [h, decide_false, ↓reduceIte] at ih ⊢; exact ih

theorem mem_cellsOf {W sl : List Nat} {s c : Nat} : c ∈ cellsOf W sl s ↔ (c, s) ∈ W.zip sl := by
  unfold cellsOf
  simp only [List.mem_map, List.mem_filter, decide_eq_true_eq]
  constructor
  · rintro ⟨⟨c', s'⟩, ⟨hq, hs⟩, hc⟩
    simp only at hs hc; subst hs; subst hc; exact hq
  · intro h; exact ⟨(c, s), ⟨h, rfl⟩, rfl⟩

theorem mem_zip_iff {W sl : List Nat} {s c : Nat} :
    (c, s) ∈ W.zip sl ↔ ∃ t, ∃ h1 : t < W.length, ∃ h2 : t < sl.length, W[t] = c ∧ sl[t] = s := by
  rw [List.mem_iff_getElem]
  constructor
  · rintro ⟨t, ht, h⟩
    simp only [List.length_zip] at ht
    rw [List.getElem_zip] at h
    simp only [Prod.mk.injEq] at h
    exact ⟨t, by omega, by omega, h.1, h.2⟩
  · rintro ⟨t, h1, h2, h3, h4⟩
    refine ⟨t, by simp only [List.length_zip]; omega, ?_⟩
    rw [List.getElem_zip, h3, h4]

theorem cellsOf_sublist {W sl : List Nat} (h : W.length ≤ sl.length) (s : Nat) : (cellsOf W sl s).Sublist W := by
  unfold cellsOf
  have h1 : ((W.zip sl).filter (fun q => q.2 = s)).Sublist (W.zip sl) := List.filter_sublist
  have h2 := h1.map (·.1)
  have h3 : (W.zip sl).map (·.1) = W := List.map_fst_zip h
  rw [h3] at h2
  exact h2

theorem cellsOf_length : ∀ {W sl : List Nat}, W.length = sl.length → ∀ (s : Nat),
    (cellsOf W sl s).length = sl.count s := by
  intro W
  induction W with
  | nil => intro sl h s; cases sl <;> simp_all [cellsOf]
  | cons c W ih =>
    intro sl h s
    cases sl with
    | nil => simp at h
    | cons x sl =>
      simp only [List.length_cons, Nat.add_right_cancel_iff] at h
      have := ih h s
      simp only [cellsOf, List.zip_cons_cons, List.filter_cons, List.length_map, List.count_cons] at this ⊢
      by_cases hx : x = s
      · simp [hx, this]
      · simp [hx, this]

/-! ### array helpers -/

theorem arr_getD_set! {α : Type} (a : Array α) (i j : Nat) (v d : α) :
    (a.set! i v).getD j d = if i = j ∧ i < a.size then v else a.getD j d := by
  simp only [Array.getD_eq_getD_getElem?, Array.set!_eq_setIfInBounds, Array.getElem?_setIfInBounds]
  by_cases h1 : i = j
  · subst h1
    by_cases h2 : i < a.size
    · simp [h2]
    · have : a[i]? = none := by simp; omega
      simp [h2]
  · simp [h1]

theorem getElem?_eq_some_getD {α : Type} {a : Array α} {i : Nat} (h : i < a.size) (d : α) :
    a[i]? = some (a.getD i d) := by
  simp [Array.getD_eq_getD_getElem?, Array.getElem?_eq_getElem h]

/-! ### the encoder walks like the decoder -/

def mkSt (c : Nat) : EState := { index := c }

theorem encSkipHigh_of_skipHigh {size neg : Nat} (hneg : 1 ≤ neg) : ∀ (fuel pos : Nat) {r : Nat},
    skipHigh size neg fuel pos = .ok r → encSkipHigh size (neg - 1) fuel pos = .ok r := by
  intro fuel
  induction fuel with
  | zero => intro pos r h; simp [skipHigh] at h
  | succ fuel ih =>
    intro pos r h
    simp only [skipHigh] at h
    simp only [encSkipHigh, nextPositionEnc_eq]
    by_cases hp : pos ≥ neg
    · rw [if_pos hp] at h
      rw [if_pos (by omega)]
      exact ih _ h
    · rw [if_neg hp] at h
      rw [if_neg (by omega)]
      exact h

theorem encSpreadSymbol_spec {size neg : Nat} (hneg : 1 ≤ neg) :
    ∀ (n : Nat) (sts : Array EState) (pos : Nat) {l : List Nat} {e : Nat},
    walk size neg n pos = .ok (l, e) →
    encSpreadSymbol size (neg - 1) n sts pos = .ok ((sts.toList ++ l.map mkSt).toArray, e) := by
  intro n
  induction n with
  | zero =>
    intro sts pos l e h
    simp only [walk, Except.ok.injEq, Prod.mk.injEq] at h
    obtain ⟨rfl, rfl⟩ := h
    simp [encSpreadSymbol]
  | succ n ih =>
    intro sts pos l e h
    simp only [walk] at h
    split at h
    · cases h
    · rename_i pos' hs
      split at h
      · cases h
      · rename_i l' e' h'
        simp only [Except.ok.injEq, Prod.mk.injEq] at h
        obtain ⟨rfl, rfl⟩ := h
        simp only [encSpreadSymbol, nextPositionEnc_eq, encSkipHigh_of_skipHigh hneg _ _ hs, ih _ _ h']
        simp [mkSt]

theorem slots_cons_pos {p : Int} {s : Nat} {rest : List (Int × Nat)} (hp : p > 0) :
    slots ((p, s) :: rest) = List.replicate p.toNat s ++ slots rest := by
  simp [slots, hp]

theorem slots_cons_nonpos {p : Int} {s : Nat} {rest : List (Int × Nat)} (hp : ¬ p > 0) :
    slots ((p, s) :: rest) = slots rest := by
  simp [slots, hp]

/-- second loop of `build_table_from_probabilities` -/
theorem encSpreadAll_spec {size neg : Nat} (hneg : 1 ≤ neg) :
    ∀ (ps : List (Int × Nat)) (st : Array SymbolStates) (pos : Nat) {W : List Nat} {e : Nat},
    walk size neg (slots ps).length pos = .ok (W, e) → (∀ q ∈ ps, q.2 < st.size) →
    ∃ st', encSpreadAll size (neg - 1) ps st pos = .ok (st', e) ∧ st'.size = st.size ∧
      (∀ s, (st'.getD s {}).states.toList
              = (st.getD s {}).states.toList ++ (cellsOf W (slots ps) s).map mkSt) ∧
      (∀ s, (∀ p, (p, s) ∈ ps → p ≤ 0) → (st'.getD s {}).probability = (st.getD s {}).probability) ∧
      ((ps.map (·.2)).Nodup → ∀ p s, (p, s) ∈ ps → p > 0 → (st'.getD s {}).probability = p) := by
  intro ps
  induction ps with
  | nil =>
    intro st pos W e h _
    simp only [slots, List.flatMap_nil, List.length_nil, walk, Except.ok.injEq, Prod.mk.injEq] at h
    obtain ⟨rfl, rfl⟩ := h
    refine ⟨st, by simp [encSpreadAll], rfl, ?_, ?_, ?_⟩
    · intro s; simp [cellsOf]
    · intro s _; rfl
    · intro _ p s h; simp at h
  | cons q rest ih =>
    obtain ⟨p, s0⟩ := q
    intro st pos W e h hlt
    by_cases hp : p > 0
    · rw [slots_cons_pos hp, List.length_append, List.length_replicate] at h
      obtain ⟨W1, W2, m, h1, h2, rfl⟩ := walk_append _ _ _ h
      have hl1 : W1.length = p.toNat := walk_length h1
      have hs0 : s0 < st.size := hlt (p, s0) List.mem_cons_self
      have hget := getElem?_eq_some_getD hs0 ({} : SymbolStates)
      have hss := encSpreadSymbol_spec hneg p.toNat (st.getD s0 {}).states pos h1
      obtain ⟨st', hst', hsz, hstates, hprob0, hprob⟩ :=
        ih (st.set! s0 { states := ((st.getD s0 {}).states.toList ++ W1.map mkSt).toArray, probability := p }) m h2
          (by intro q hq
              rw [Array.set!_eq_setIfInBounds, Array.size_setIfInBounds]
              exact hlt q (List.mem_cons_of_mem _ hq))
      refine ⟨st', ?_, ?_, ?_, ?_, ?_⟩
      · simp only [encSpreadAll, if_neg (show ¬ p ≤ 0 by omega), hget, hss]
        exact hst'
      · rw [hsz, Array.set!_eq_setIfInBounds, Array.size_setIfInBounds]
      · intro s
        rw [hstates s, arr_getD_set!, slots_cons_pos hp]
        have hc := cellsOf_append (W2 := W2) (sl2 := slots rest)
          (show W1.length = (List.replicate p.toNat s0).length by rw [List.length_replicate, hl1]) s
        rw [hc, ← hl1, cellsOf_replicate]
        by_cases hs : s0 = s
        · subst hs
          simp [hs0]
        · simp [hs]
      · intro s hall
        rw [hprob0 s (fun p' hp' => hall p' (List.mem_cons_of_mem _ hp')), arr_getD_set!]
        have hs : s0 ≠ s := by
          intro hs; subst hs
          have := hall p List.mem_cons_self
          omega
        simp [hs]
      · intro hnd p' s hmem hp'
        simp only [List.map_cons, List.nodup_cons, List.mem_map, not_exists, not_and] at hnd
        rw [List.mem_cons] at hmem
        rcases hmem with hmem | hmem
        · simp only [Prod.mk.injEq] at hmem
          obtain ⟨rfl, rfl⟩ := hmem
          rw [hprob0 s (fun p'' hp'' => absurd rfl (hnd.1 (p'', s) hp'')), arr_getD_set!]
          simp [hs0]
        · exact hprob hnd.2 p' s hmem hp'
    · rw [slots_cons_nonpos hp] at h
      obtain ⟨st', hst', hsz, hstates, hprob0, hprob⟩ :=
        ih st pos h (fun q hq => hlt q (List.mem_cons_of_mem _ hq))
      refine ⟨st', ?_, hsz, ?_, ?_, ?_⟩
      · simp only [encSpreadAll, if_pos (show p ≤ 0 by omega)]
        exact hst'
      · intro s; rw [hstates s, slots_cons_nonpos hp]
      · intro s hall
        exact hprob0 s (fun p' hp' => hall p' (List.mem_cons_of_mem _ hp'))
      · intro hnd p' s hmem hp'
        simp only [List.map_cons, List.nodup_cons] at hnd
        rw [List.mem_cons] at hmem
        rcases hmem with hmem | hmem
        · simp only [Prod.mk.injEq] at hmem
          obtain ⟨rfl, rfl⟩ := hmem
          exact absurd hp' hp
        · exact hprob hnd.2 p' s hmem hp'

/-! ### first loop: the "less than one" symbols -/

def negState (al idx : Nat) : EState := { numBits := al, baseline := 0, lastIndex := (1 <<< al) - 1, index := idx }

theorem negSyms_cons_neg {s : Nat} {rest : List (Int × Nat)} : negSyms ((-1, s) :: rest) = s :: negSyms rest := by
  simp [negSyms]

theorem negSyms_cons_other {p : Int} {s : Nat} {rest : List (Int × Nat)} (hp : p ≠ -1) :
    negSyms ((p, s) :: rest) = negSyms rest := by
  simp [negSyms, hp]

theorem encPlaceNegatives_spec {al : Nat} : ∀ (ps : List (Int × Nat)) (st : Array SymbolStates) (neg : Nat),
    (∀ q ∈ ps, q.2 < st.size) → (negSyms ps).length ≤ neg → (ps.map (·.2)).Nodup →
    ∃ st', encPlaceNegatives al ps st neg = .ok (st', neg - (negSyms ps).length) ∧ st'.size = st.size ∧
      (∀ j (hj : j < (negSyms ps).length), st'.getD (negSyms ps)[j] {} =
          { states := (st.getD (negSyms ps)[j] {}).states.push (negState al (neg - j)), probability := -1 }) ∧
      (∀ s, s ∉ negSyms ps → st'.getD s {} = st.getD s {}) := by
  intro ps
  induction ps with
  | nil =>
    intro st neg _ _ _
    exact ⟨st, by simp [encPlaceNegatives, negSyms], rfl, by intro j hj; simp [negSyms] at hj, fun _ _ => rfl⟩
  | cons q rest ih =>
    obtain ⟨p, s0⟩ := q
    intro st neg hlt hlen hnd
    simp only [List.map_cons, List.nodup_cons, List.mem_map, not_exists, not_and] at hnd
    by_cases hp : p = -1
    · subst hp
      rw [negSyms_cons_neg] at hlen ⊢
      simp only [List.length_cons] at hlen ⊢
      have hs0 : s0 < st.size := hlt (-1, s0) List.mem_cons_self
      have hget := getElem?_eq_some_getD hs0 ({} : SymbolStates)
      have hnot : s0 ∉ negSyms rest := by
        intro hm
        exact hnd.1 (-1, s0) (mem_negSyms.1 hm) rfl
      obtain ⟨st', hst', hsz, hneg, hoth⟩ :=
        ih (st.set! s0 { states := (st.getD s0 {}).states.push (negState al neg), probability := -1 }) (neg - 1)
          (by intro q hq
              rw [Array.set!_eq_setIfInBounds, Array.size_setIfInBounds]
              exact hlt q (List.mem_cons_of_mem _ hq))
          (by omega) hnd.2
      refine ⟨st', ?_, ?_, ?_, ?_⟩
      · simp only [encPlaceNegatives, ↓reduceIte, hget, if_neg (show ¬ neg = 0 by omega)]
        rw [show neg - ((negSyms rest).length + 1) = neg - 1 - (negSyms rest).length by omega]
        exact hst'
      · rw [hsz, Array.set!_eq_setIfInBounds, Array.size_setIfInBounds]
      · intro j hj
        cases j with
        | zero =>
          simp only [List.getElem_cons_zero, Nat.sub_zero]
          rw [hoth s0 hnot, arr_getD_set!]
          simp [hs0]
        | succ j =>
          simp only [List.getElem_cons_succ]
          have hj' : j < (negSyms rest).length := by simpa using hj
          have hne : s0 ≠ (negSyms rest)[j] := by
            intro h; apply hnot; rw [h]; exact List.getElem_mem hj'
          rw [hneg j hj', arr_getD_set!]
          simp only [hne, false_and, ↓reduceIte]
          rw [show neg - 1 - j = neg - (j + 1) by omega]
      · intro s hs
        simp only [List.mem_cons, not_or] at hs
        rw [hoth s hs.2, arr_getD_set!]
        simp [Ne.symm hs.1]
    · rw [negSyms_cons_other hp] at hlen ⊢
      obtain ⟨st', hst', hsz, hneg, hoth⟩ :=
        ih st neg (fun q hq => hlt q (List.mem_cons_of_mem _ hq)) hlen hnd.2
      refine ⟨st', ?_, hsz, hneg, hoth⟩
      simp only [encPlaceNegatives, if_neg hp]
      exact hst'

/-! ### third loop -/

theorem encFinishAll_spec {al : Nat} : ∀ (ps : List (Int × Nat)) (st : Array SymbolStates),
    (∀ q ∈ ps, q.2 < st.size) → (ps.map (·.2)).Nodup →
    (∀ p s, (p, s) ∈ ps → p > 0 → ∃ r, encFinishSymbol al p.toNat (st.getD s {}).states = .ok r) →
    ∃ st', encFinishAll al ps st = .ok st' ∧ st'.size = st.size ∧
      (∀ p s, (p, s) ∈ ps → p > 0 → ∃ r, encFinishSymbol al p.toNat (st.getD s {}).states = .ok r ∧
          st'.getD s {} = { st.getD s {} with states := r }) ∧
      (∀ s, (∀ p, (p, s) ∈ ps → p ≤ 0) → st'.getD s {} = st.getD s {}) := by
  intro ps
  induction ps with
  | nil =>
    intro st _ _ _
    exact ⟨st, by simp [encFinishAll], rfl, by intro p s h; simp at h, fun _ _ => rfl⟩
  | cons q rest ih =>
    obtain ⟨p, s0⟩ := q
    intro st hlt hnd hfin
    simp only [List.map_cons, List.nodup_cons, List.mem_map, not_exists, not_and] at hnd
    by_cases hp : p > 0
    · obtain ⟨r, hr⟩ := hfin p s0 List.mem_cons_self hp
      have hs0 : s0 < st.size := hlt (p, s0) List.mem_cons_self
      have hget := getElem?_eq_some_getD hs0 ({} : SymbolStates)
      have hother : ∀ s, s0 ≠ s → (st.set! s0 { st.getD s0 {} with states := r }).getD s {} = st.getD s {} := by
        intro s hs
        rw [arr_getD_set!]; simp [hs]
      obtain ⟨st', hst', hsz, hpos, hoth⟩ :=
        ih (st.set! s0 { st.getD s0 {} with states := r })
          (by intro q hq
              rw [Array.set!_eq_setIfInBounds, Array.size_setIfInBounds]
              exact hlt q (List.mem_cons_of_mem _ hq))
          hnd.2
          (by intro p' s hmem hp'
              have hne : s0 ≠ s := fun h => hnd.1 (p', s) hmem h.symm
              rw [hother s hne]
              exact hfin p' s (List.mem_cons_of_mem _ hmem) hp')
      refine ⟨st', ?_, ?_, ?_, ?_⟩
      · simp only [encFinishAll, if_neg (show ¬ p ≤ 0 by omega), hget, hr]
        exact hst'
      · rw [hsz, Array.set!_eq_setIfInBounds, Array.size_setIfInBounds]
      · intro p' s hmem hp'
        rw [List.mem_cons] at hmem
        rcases hmem with hmem | hmem
        · simp only [Prod.mk.injEq] at hmem
          obtain ⟨rfl, rfl⟩ := hmem
          refine ⟨r, hr, ?_⟩
          rw [hoth s (fun p'' hp'' => absurd rfl (hnd.1 (p'', s) hp'')), arr_getD_set!]
          simp [hs0]
        · have hne : s0 ≠ s := fun h => hnd.1 (p', s) hmem h.symm
          obtain ⟨r', hr', hst⟩ := hpos p' s hmem hp'
          rw [hother s hne] at hr' hst
          exact ⟨r', hr', hst⟩
      · intro s hall
        have hne : s0 ≠ s := by
          intro h; subst h
          have := hall p List.mem_cons_self
          omega
        rw [hoth s (fun p' hp' => hall p' (List.mem_cons_of_mem _ hp')), hother s hne]
    · obtain ⟨st', hst', hsz, hpos, hoth⟩ :=
        ih st (fun q hq => hlt q (List.mem_cons_of_mem _ hq)) hnd.2
          (fun p' s hmem hp' => hfin p' s (List.mem_cons_of_mem _ hmem) hp')
      refine ⟨st', ?_, hsz, ?_, ?_⟩
      · simp only [encFinishAll, if_pos (show p ≤ 0 by omega)]
        exact hst'
      · intro p' s hmem hp'
        rw [List.mem_cons] at hmem
        rcases hmem with hmem | hmem
        · simp only [Prod.mk.injEq] at hmem
          obtain ⟨rfl, rfl⟩ := hmem
          exact absurd hp' hp
        · exact hpos p' s hmem hp'
      · intro s hall
        exact hoth s (fun p' hp' => hall p' (List.mem_cons_of_mem _ hp'))

end Zstd.Proofs.FseEncTable
