import Zstd.Model.Fse
import Zstd.Proofs.FseFin
/-
Shared vocabulary of the proof that the FSE encoder table (`fse_encoder.rs build_table_from_probabilities`)
and the FSE decoder table (`fse_decoder.rs build_decoding_table`) describe the same automaton.
-/
namespace Zstd.Proofs.FseEncTable
open Zstd Zstd.Model.Fse Zstd.Proofs.FseFin

def mass (probs : List Int) : Nat :=
  probs.foldl (fun (a : Nat) p => a + (if p = -1 then 1 else if p > 0 then p.toNat else 0)) 0

def ValidDist (al : Nat) (probs : List Int) : Prop :=
  5 ≤ al ∧ al ≤ 9 ∧ probs.length ≤ 256 ∧ (∀ p ∈ probs, -1 ≤ p) ∧ mass probs = 2 ^ al

/-- the encoder-side builder additionally needs at least one cell that is not a "less than one" cell
(with 2^al entries equal to -1 the Rust code underflows `negative_idx -= 1` in a debug build) -/
def EncBuildable (al : Nat) (probs : List Int) : Prop :=
  ValidDist al probs ∧ (probs.filter (· = -1)).length < 2 ^ al

/-- the slots handed out by the spreading loop, in order: symbol `s` with probability `p > 0` occupies `p`
consecutive slots -/
def slots (ps : List (Int × Nat)) : List Nat :=
  ps.flatMap fun q => if q.1 > 0 then List.replicate q.1.toNat q.2 else []

/-- the "less than one" symbols, in order (the `j`-th one gets cell `size - 1 - j`) -/
def negSyms (ps : List (Int × Nat)) : List Nat := (ps.filter (fun q => q.1 = -1)).map (·.2)

/-- the encoder state of the cell `c` that has table-order rank `k` among the cells of a symbol with
probability `p` -/
def stateOf (al p k c : Nat) : EState :=
  { index := c, baseline := (rfcEntry al p k).1, numBits := (rfcEntry al p k).2,
    lastIndex := (rfcEntry al p k).1 + (2 ^ (rfcEntry al p k).2 - 1) }

/-- both `next_position` copies are the same function (the extracted constants agree) -/
theorem nextPositionEnc_eq : nextPositionEnc = nextPosition := rfl

/-! ### splitting the walk -/

theorem walk_append {size neg : Nat} : ∀ (a b pos : Nat) {l : List Nat} {e : Nat},
    walk size neg (a + b) pos = .ok (l, e) →
    ∃ l1 l2 m, walk size neg a pos = .ok (l1, m) ∧ walk size neg b m = .ok (l2, e) ∧ l = l1 ++ l2 := by
  intro a
  induction a with
  | zero =>
    intro b pos l e h
    rw [Nat.zero_add] at h
    exact ⟨[], l, pos, rfl, h, rfl⟩
  | succ a ih =>
    intro b pos l e h
    rw [show a + 1 + b = (a + b) + 1 by omega] at h
    simp only [walk] at h ⊢
    split at h
    · cases h
    · rename_i pos' hs
      split at h
      · cases h
      · rename_i l' e' h'
        simp only [Except.ok.injEq, Prod.mk.injEq] at h
        obtain ⟨l1, l2, m, h1, h2, h3⟩ := ih b pos' h'
        refine ⟨pos :: l1, l2, m, ?_, ?_, ?_⟩
        · simp only [h1]
        · rw [← h.2]; exact h2
        · rw [← h.1, h3]; rfl

/-! ### mass, slots, negatives -/

theorem mass_foldl_acc (l : List Int) (a : Nat) :
    l.foldl (fun (a : Nat) p => a + (if p = -1 then 1 else if p > 0 then p.toNat else 0)) a
      = a + mass l := by
  unfold mass
  induction l generalizing a with
  | nil => simp
  | cons x xs ih =>
    simp only [List.foldl_cons]
    rw [ih, ih (0 + _)]
    omega

theorem mass_cons (x : Int) (xs : List Int) :
    mass (x :: xs) = (if x = -1 then 1 else if x > 0 then x.toNat else 0) + mass xs := by
  conv => lhs; unfold mass
  simp only [List.foldl_cons]
  rw [mass_foldl_acc]; omega

theorem mass_eq_aux : ∀ (ps : List (Int × Nat)),
    mass (ps.map (·.1)) = (negSyms ps).length + (slots ps).length := by
  intro ps
  induction ps with
  | nil => simp [mass, negSyms, slots]
  | cons q rest ih =>
    obtain ⟨p, s⟩ := q
    simp only [List.map_cons, mass_cons, ih, negSyms, slots, List.flatMap_cons, List.length_append,
      List.filter_cons, List.length_map] at *
    by_cases h1 : p = -1
    · subst h1; simp; omega
    · by_cases h2 : p > 0
      · simp [h1, h2]; omega
      · simp [h1, h2]

theorem mass_eq (probs : List Int) :
    mass probs = (negSyms probs.zipIdx).length + (slots probs.zipIdx).length := by
  have := mass_eq_aux probs.zipIdx
  rwa [List.zipIdx_map_fst] at this

theorem negSyms_length (probs : List Int) :
    (negSyms probs.zipIdx).length = (probs.filter (· = -1)).length := by
  unfold negSyms
  rw [List.length_map]
  conv => rhs; rw [← List.zipIdx_map_fst 0 probs]
  rw [List.filter_map, List.length_map]
  rfl

/-- membership in `zipIdx` -/
theorem mem_zipIdx {probs : List Int} {p : Int} {s : Nat} :
    (p, s) ∈ probs.zipIdx ↔ probs[s]? = some p := List.mem_zipIdx_iff_getElem?

theorem zipIdx_snd_nodup (probs : List Int) : (probs.zipIdx.map (·.2)).Nodup := by
  rw [List.zipIdx_map_snd]
  exact List.nodup_range'

theorem mem_slots {ps : List (Int × Nat)} {s : Nat} :
    s ∈ slots ps ↔ ∃ p, (p, s) ∈ ps ∧ p > 0 := by
  unfold slots
  simp only [List.mem_flatMap]
  constructor
  · rintro ⟨⟨p, s'⟩, hq, hs⟩
    by_cases hp : p > 0
    · simp only [hp, ↓reduceIte, List.mem_replicate] at hs
      exact ⟨p, by rw [hs.2]; exact hq, hp⟩
    · simp [hp] at hs
  · rintro ⟨p, hq, hp⟩
    refine ⟨(p, s), hq, ?_⟩
    simp only [hp, ↓reduceIte, List.mem_replicate]
    refine ⟨by omega, ?_⟩
    trivial

theorem mem_negSyms {ps : List (Int × Nat)} {s : Nat} : s ∈ negSyms ps ↔ (-1, s) ∈ ps := by
  unfold negSyms
  simp only [List.mem_map, List.mem_filter, decide_eq_true_eq]
  constructor
  · rintro ⟨⟨p, s'⟩, ⟨hq, hp⟩, rfl⟩
    simp only at hp; subst hp; exact hq
  · intro h; exact ⟨(-1, s), ⟨h, rfl⟩, rfl⟩

/-- with pairwise distinct symbols, symbol `s` with probability `p > 0` occupies exactly `p` slots -/
theorem count_slots {ps : List (Int × Nat)} (hnd : (ps.map (·.2)).Nodup) {p : Int} {s : Nat}
    (hq : (p, s) ∈ ps) : (slots ps).count s = if p > 0 then p.toNat else 0 := by
  induction ps with
  | nil => simp at hq
  | cons q rest ih =>
    obtain ⟨p', s'⟩ := q
    simp only [List.map_cons, List.nodup_cons, List.mem_map, not_exists, not_and] at hnd
    have hsl : slots ((p', s') :: rest) = (if p' > 0 then List.replicate p'.toNat s' else []) ++ slots rest := by
      simp [slots]
    rw [hsl, List.count_append]
    rw [List.mem_cons] at hq
    rcases hq with hq | hq
    · simp only [Prod.mk.injEq] at hq
      obtain ⟨rfl, rfl⟩ := hq
      have h0 : (slots rest).count s = 0 := by
        rw [List.count_eq_zero]
        intro hm
        obtain ⟨p2, hm2, _⟩ := mem_slots.1 hm
        exact hnd.1 (p2, s) hm2 rfl
      rw [h0]
      by_cases hp : p > 0
      · simp [hp]
      · simp [hp]
    · have hne : s' ≠ s := by
        intro h; subst h
        exact hnd.1 (p, s') hq rfl
      rw [ih hnd.2 hq]
      by_cases hp' : p' > 0
      · simp [hp', List.count_replicate, hne]
      · simp [hp']

end Zstd.Proofs.FseEncTable
