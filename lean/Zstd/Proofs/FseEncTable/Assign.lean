import Zstd.Proofs.FseEncTable.Defs
/-
The third loop of `fse_encoder.rs build_table_from_probabilities` for one symbol (`encFinishSymbol`):
the stable sorts are characterised (`sortByKey_eq_of_strict`), the baselines handed out by `encAssign`
are the RFC values (`rfcEntry`), and the final sort by baseline lists the states in the order `orderedKs p`.
-/
namespace Zstd.Proofs.FseEncTable
open Zstd Zstd.Model.Fse Zstd.Proofs.FseFin

/-! ## 1. `sortByKey` is a sort -/

theorem insertByKey_perm {α} (key : α → Nat) (x : α) (l : List α) :
    (insertByKey key x l).Perm (x :: l) := by
  induction l with
  | nil => exact List.Perm.refl _
  | cons y ys ih =>
    simp only [insertByKey]
    split
    · exact List.Perm.refl _
    · exact (List.Perm.cons y ih).trans (List.Perm.swap x y ys)

theorem insertByKey_sorted {α} (key : α → Nat) (x : α) (l : List α)
    (h : l.Pairwise (fun a b => key a ≤ key b)) :
    (insertByKey key x l).Pairwise (fun a b => key a ≤ key b) := by
  induction l with
  | nil => simp [insertByKey]
  | cons y ys ih =>
    simp only [insertByKey]
    rw [List.pairwise_cons] at h
    split
    · rename_i hlt
      refine List.Pairwise.cons ?_ (List.Pairwise.cons h.1 h.2)
      intro b hb
      rw [List.mem_cons] at hb
      rcases hb with rfl | hb
      · omega
      · have := h.1 b hb; omega
    · rename_i hge
      refine List.Pairwise.cons ?_ (ih h.2)
      intro b hb
      have hb' := (insertByKey_perm key x ys).mem_iff.1 hb
      rw [List.mem_cons] at hb'
      rcases hb' with rfl | hb'
      · omega
      · exact h.1 b hb'

theorem foldl_insertByKey_perm {α} (key : α → Nat) (l acc : List α) :
    (l.foldl (fun acc x => insertByKey key x acc) acc).Perm (acc ++ l) := by
  induction l generalizing acc with
  | nil => simp
  | cons x xs ih =>
    simp only [List.foldl_cons]
    exact (ih _).trans (((insertByKey_perm key x acc).append_right xs).trans List.perm_middle.symm)

theorem foldl_insertByKey_sorted {α} (key : α → Nat) (l acc : List α)
    (h : acc.Pairwise (fun a b => key a ≤ key b)) :
    (l.foldl (fun acc x => insertByKey key x acc) acc).Pairwise (fun a b => key a ≤ key b) := by
  induction l generalizing acc with
  | nil => simpa using h
  | cons x xs ih =>
    simp only [List.foldl_cons]
    exact ih _ (insertByKey_sorted key x acc h)

theorem sortByKey_perm {α} (key : α → Nat) (l : List α) : (sortByKey key l).Perm l := by
  have := foldl_insertByKey_perm key l []
  simpa [sortByKey] using this

theorem sortByKey_sorted {α} (key : α → Nat) (l : List α) :
    (sortByKey key l).Pairwise (fun a b => key a ≤ key b) :=
  foldl_insertByKey_sorted key l [] List.Pairwise.nil

/-- in a list that is strictly sorted by `key`, the key determines the element -/
theorem key_inj_of_strict {α} (key : α → Nat) {r : List α}
    (hr : r.Pairwise (fun a b => key a < key b)) {a b : α} (ha : a ∈ r) (hb : b ∈ r)
    (h : key a = key b) : a = b := by
  induction r with
  | nil => simp at ha
  | cons c cs ih =>
    rw [List.pairwise_cons] at hr
    rw [List.mem_cons] at ha hb
    rcases ha with rfl | ha
    · rcases hb with rfl | hb
      · rfl
      · have := hr.1 b hb; omega
    · rcases hb with rfl | hb
      · have := hr.1 a ha; omega
      · exact ih hr.2 ha hb

/-- a strictly sorted permutation of the input IS the result of the sort -/
theorem sortByKey_eq_of_strict {α} (key : α → Nat) {l r : List α}
    (hr : r.Pairwise (fun a b => key a < key b)) (hp : r.Perm l) : sortByKey key l = r := by
  have hperm : (sortByKey key l).Perm r := (sortByKey_perm key l).trans hp.symm
  refine List.Perm.eq_of_pairwise (le := fun a b => key a ≤ key b) ?_ (sortByKey_sorted key l)
    (hr.imp (fun h => Nat.le_of_lt h)) hperm
  intro a b ha hb h1 h2
  exact key_inj_of_strict key hr (hperm.mem_iff.1 ha) hb (by omega)

/-! ## 2. the values handed out by `encAssign` are the RFC values -/

/-- `⌈log₂ p⌉` as computed by the encoder -/
def plog (p : Nat) : Nat := if 1 <<< Nat.log2 p = p then Nat.log2 p else Nat.log2 p + 1

theorem plog_spec {al p : Nat} (hp1 : 1 ≤ p) (hp : p ≤ 2 ^ al) :
    plog p ≤ al ∧ (if 1 <<< Nat.log2 p = p then p else 1 <<< (Nat.log2 p + 1)) = 2 ^ plog p ∧ p ≤ 2 ^ plog p := by
  have h1 : 2 ^ Nat.log2 p ≤ p := Nat.log2_self_le (by omega)
  have h2 : p < 2 ^ (Nat.log2 p + 1) := Nat.lt_log2_self
  have h3 : Nat.log2 p ≤ al := (Nat.pow_le_pow_iff_right (by omega : 1 < 2)).1 (Nat.le_trans h1 hp)
  unfold plog
  simp only [Nat.one_shiftLeft]
  split
  · rename_i he
    exact ⟨h3, he.symm, by omega⟩
  · rename_i hne
    refine ⟨?_, rfl, by omega⟩
    rcases Nat.lt_or_ge (Nat.log2 p) al with h | h
    · omega
    · have : Nat.log2 p = al := by omega
      rw [this] at h1 hne
      omega

theorem dblOf_eq (p : Nat) : dblOf p = 2 ^ plog p - p := by
  unfold dblOf plog
  simp only [Nat.one_shiftLeft]
  split
  · rename_i he; rw [he]
  · rfl

/-- baseline handed out by `encAssign` to the state at position `i` (in index order) -/
def baseOf (al p i : Nat) : Nat :=
  if i < dblOf p then (p - dblOf p) * 2 ^ (al - plog p) + i * 2 ^ (al - plog p) * 2
  else (i - dblOf p) * 2 ^ (al - plog p)

theorem rfcEntry_eq {al p k : Nat} (hal : al ≤ 9) (hp1 : 1 ≤ p) (hp : p ≤ 2 ^ al) (hk : k < p) :
    rfcEntry al p k = (baseOf al p k, if k < dblOf p then al - plog p + 1 else al - plog p) := by
  have h := closedForm hal hp1 hp hk
  obtain ⟨hle, hR, _⟩ := plog_spec hp1 hp
  have hw : 2 ^ al / 2 ^ plog p = 2 ^ (al - plog p) := Nat.pow_div hle (by omega)
  unfold calcBaselineAndNumbits at h
  simp only [Nat.add_sub_cancel] at h
  rw [if_neg (by omega)] at h
  split at h
  · cases h
  · simp only [hR, hw, Nat.log2_two_pow, ← dblOf_eq] at h
    unfold baseOf
    split at h
    · cases h
    · split at h
      · rename_i hkd
        split at h
        · cases h
        · simp only [Except.ok.injEq] at h
          rw [← h, if_pos hkd, if_pos hkd]
      · rename_i hkd
        split at h
        · cases h
        · simp only [Except.ok.injEq] at h
          rw [← h, if_neg hkd, if_neg hkd]

theorem total_eq {al p : Nat} (hal : al ≤ 9) (hp1 : 1 ≤ p) (hp : p ≤ 2 ^ al) :
    (p - dblOf p) * 2 ^ (al - plog p) + dblOf p * 2 ^ (al - plog p) * 2 = 2 ^ al := by
  obtain ⟨hle, _, hp2⟩ := plog_spec hp1 hp
  have hd := dblOf_le hal hp1 hp
  have hde := dblOf_eq p
  have h1 : (p - dblOf p) + dblOf p * 2 = 2 ^ plog p := by omega
  have h2 : 2 ^ plog p * 2 ^ (al - plog p) = 2 ^ al := by
    rw [← Nat.pow_add]; congr 1; omega
  rw [← h2, ← h1, Nat.add_mul, Nat.mul_right_comm (dblOf p) 2]

theorem baseOf_step_dbl {al p i : Nat} (hal : al ≤ 9) (hp1 : 1 ≤ p) (hp : p ≤ 2 ^ al) (hi : i < dblOf p) :
    (baseOf al p i + 1 <<< (al - plog p + 1)) % (1 <<< al) = baseOf al p (i + 1) := by
  have hT := total_eq hal hp1 hp
  have hw : 0 < 2 ^ (al - plog p) := Nat.two_pow_pos _
  unfold baseOf
  rw [if_pos hi]
  simp only [Nat.one_shiftLeft, Nat.pow_succ]
  have hs : (i + 1) * 2 ^ (al - plog p) = i * 2 ^ (al - plog p) + 2 ^ (al - plog p) := Nat.succ_mul _ _
  split
  · rename_i hi1
    have hm : (i + 2) * 2 ^ (al - plog p) ≤ dblOf p * 2 ^ (al - plog p) := Nat.mul_le_mul_right _ (by omega)
    have hs2 : (i + 2) * 2 ^ (al - plog p) = i * 2 ^ (al - plog p) + 2 * 2 ^ (al - plog p) := Nat.add_mul _ _ _
    rw [Nat.mod_eq_of_lt (by omega)]
    omega
  · have hid : i + 1 = dblOf p := by omega
    rw [hid, Nat.sub_self, Nat.zero_mul]
    rw [hid] at hs
    have : (p - dblOf p) * 2 ^ (al - plog p) + i * 2 ^ (al - plog p) * 2 + 2 ^ (al - plog p) * 2 = 2 ^ al := by
      omega
    rw [this, Nat.mod_self]

theorem baseOf_step_sgl {al p i : Nat} (hi : ¬ i < dblOf p) :
    baseOf al p i + 1 <<< (al - plog p) = baseOf al p (i + 1) := by
  unfold baseOf
  rw [if_neg hi, if_neg (by omega)]
  simp only [Nat.one_shiftLeft]
  rw [show i + 1 - dblOf p = (i - dblOf p) + 1 by omega, Nat.succ_mul]

theorem encAssign_spec {al p : Nat} (hal : al ≤ 9) (hp1 : 1 ≤ p) (hp : p ≤ 2 ^ al) :
    ∀ (cs : List Nat) (i : Nat), i + cs.length ≤ p →
      encAssign al (dblOf p) (al - plog p) (cs.map (fun c => ({ index := c } : EState))) i (baseOf al p i)
        = (cs.zipIdx i).map (fun cj => stateOf al p cj.2 cj.1) := by
  intro cs
  induction cs with
  | nil => intro i _; rfl
  | cons c cs ih =>
    intro i hi
    simp only [List.length_cons] at hi
    have hr := rfcEntry_eq hal hp1 hp (show i < p by omega)
    simp only [List.map_cons, List.zipIdx_cons, encAssign]
    split
    · rename_i hid
      rw [baseOf_step_dbl hal hp1 hp hid, ih (i+1) (by omega)]
      rw [if_pos hid] at hr
      simp only [stateOf, hr, Nat.one_shiftLeft]
    · rename_i hid
      rw [baseOf_step_sgl hid, ih (i+1) (by omega)]
      rw [if_neg hid] at hr
      simp only [stateOf, hr, Nat.one_shiftLeft]

theorem zipIdx_map_eq_range_map {β} (l : List Nat) (f : Nat → Nat → β) :
    (l.zipIdx 0).map (fun cj => f cj.2 cj.1) = (List.range l.length).map (fun k => f k (l.getD k 0)) := by
  apply List.ext_getElem
  · simp
  · intro n h1 h2
    simp only [List.length_map, List.length_zipIdx] at h1
    simp [List.getD_eq_getElem?_getD, h1]

theorem orderedKs_perm {p : Nat} (hd : dblOf p ≤ p) : (orderedKs p).Perm (List.range p) := by
  unfold orderedKs
  refine List.perm_append_comm.trans ?_
  rw [List.range_eq_range', List.range_eq_range']
  have := @List.range'_append 0 (dblOf p) (p - dblOf p) 1
  simp only [Nat.zero_add, Nat.one_mul] at this
  rw [this, show dblOf p + (p - dblOf p) = p by omega]

theorem orderedKs_strict {al p : Nat} (hal : al ≤ 9) (hp1 : 1 ≤ p) (hp : p ≤ 2 ^ al) :
    (orderedKs p).Pairwise (fun a b => (rfcEntry al p a).1 < (rfcEntry al p b).1) := by
  have h := tilesFrom_pairwise _ _ (tiles hal hp1 hp)
  rw [List.pairwise_map] at h
  refine h.imp ?_
  intro a b hab
  simp only [interval] at hab
  have := Nat.two_pow_pos (rfcEntry al p a).2
  omega

theorem encFinishSymbol_spec {al p : Nat} (hal : al ≤ 9) (hp1 : 1 ≤ p) (hp : p ≤ 2 ^ al)
    {cells sorted : List Nat} (hlen : cells.length = p)
    (hs : sorted.Pairwise (· < ·)) (hperm : sorted.Perm cells) :
    encFinishSymbol al p (cells.map (fun c => ({ index := c } : EState))).toArray
      = .ok ((orderedKs p).map (fun k => stateOf al p k (sorted.getD k 0))).toArray := by
  have hslen : sorted.length = p := by rw [hperm.length_eq, hlen]
  have hd := dblOf_le hal hp1 hp
  have hb : sortByKey (·.index) (cells.map (fun c => ({ index := c } : EState)))
      = sorted.map (fun c => ({ index := c } : EState)) :=
    sortByKey_eq_of_strict _ (by rw [List.pairwise_map]; exact hs) (hperm.map _)
  obtain ⟨hle, hR, hp2⟩ := plog_spec hp1 hp
  have hde := dblOf_eq p
  have hT := total_eq hal hp1 hp
  have hb0 : (p - dblOf p) * 2 ^ (al - plog p) % 2 ^ al = baseOf al p 0 := by
    unfold baseOf
    split
    · rename_i h0
      have : 1 * 2 ^ (al - plog p) ≤ dblOf p * 2 ^ (al - plog p) := Nat.mul_le_mul_right _ (by omega)
      have := Nat.two_pow_pos (al - plog p)
      rw [Nat.mod_eq_of_lt (by omega)]
      omega
    · rename_i h0
      have h0' : dblOf p = 0 := by omega
      rw [h0'] at hT ⊢
      simp only [Nat.zero_mul, Nat.add_zero] at hT
      rw [hT, Nat.mod_self, Nat.sub_self, Nat.zero_mul]
  have hpl : (if 1 <<< p.log2 = p then p.log2 else p.log2 + 1) = plog p := rfl
  unfold encFinishSymbol
  simp only [hb, hpl]
  simp only [Nat.one_shiftLeft, ← hde]
  rw [if_neg (by omega), hb0, encAssign_spec hal hp1 hp sorted 0 (by omega),
    zipIdx_map_eq_range_map sorted (fun k c => stateOf al p k c), hslen]
  congr 2
  refine sortByKey_eq_of_strict _ ?_ ((orderedKs_perm hd).map _)
  rw [List.pairwise_map]
  exact orderedKs_strict hal hp1 hp

end Zstd.Proofs.FseEncTable
