import Zstd.Model.MatchGenerator
/-
Helper lemmas for C17, part 1: soundness of the common-prefix computation (`mismatch_chunks`),
of the per-entry candidate (`candOf`) and of the candidate selection (`findCandidate`).
None of them depends on the hash function or on the content of the suffix stores.
-/
namespace Zstd.Proofs.MG
open Zstd Zstd.Model.MG

theorem minMatchLen_pos : 0 < minMatchLen := by decide

/-! ### common prefix -/

theorem cplAux_sound (a b : Array Byte) (ihi jhi : Nat) :
    ∀ (f i j acc : Nat), i ≤ ihi → j ≤ jhi →
      acc ≤ cplAux a b ihi jhi f i j acc ∧
      i + (cplAux a b ihi jhi f i j acc - acc) ≤ ihi ∧
      j + (cplAux a b ihi jhi f i j acc - acc) ≤ jhi ∧
      ∀ k, k < cplAux a b ihi jhi f i j acc - acc → a[i + k]? = b[j + k]? := by
  intro f
  induction f with
  | zero => intro i j acc hi hj; simp [cplAux]; omega
  | succ f ih =>
    intro i j acc hi hj
    unfold cplAux
    split
    · rename_i hlt
      split
      · rename_i x y hx hy
        split
        · rename_i hxy
          have := ih (i + 1) (j + 1) (acc + 1) (by omega) (by omega)
          obtain ⟨h1, h2, h3, h4⟩ := this
          refine ⟨by omega, by omega, by omega, ?_⟩
          intro k hk
          cases k with
          | zero => simp [hx, hy, hxy]
          | succ k =>
            have := h4 k (by omega)
            simpa [Nat.add_assoc, Nat.add_comm 1 k] using this
        · simp; omega
      · simp; omega
    · simp; omega

theorem commonPrefixLen_sound (a : Array Byte) (i ihi : Nat) (b : Array Byte) (j jhi : Nat)
    (hi : i ≤ ihi) (hj : j ≤ jhi) :
    i + commonPrefixLen a i ihi b j jhi ≤ ihi ∧ j + commonPrefixLen a i ihi b j jhi ≤ jhi ∧
    ∀ k, k < commonPrefixLen a i ihi b j jhi → a[i + k]? = b[j + k]? := by
  have := cplAux_sound a b ihi jhi (ihi - i) i j 0 hi hj
  simpa [commonPrefixLen] using this.2

theorem chunkEq_sound (a b : Array Byte) : ∀ (n i j : Nat), chunkEq a b n i j = true →
    ∀ k, k < n → a[i + k]? = b[j + k]? := by
  intro n
  induction n with
  | zero => intro i j _ k hk; omega
  | succ n ih =>
    intro i j h k hk
    unfold chunkEq at h
    split at h
    · rename_i x y hx hy
      simp only [Bool.and_eq_true, decide_eq_true_eq] at h
      cases k with
      | zero => simp [hx, hy, h.1]
      | succ k =>
        have := ih (i + 1) (j + 1) h.2 k (by omega)
        simpa [Nat.add_assoc, Nat.add_comm 1 k] using this
    · simp at h

theorem chunkPhase_sound (N : Nat) (a b : Array Byte) (ihi jhi : Nat) :
    ∀ (f i j cnt : Nat), i ≤ ihi → j ≤ jhi →
      cnt ≤ chunkPhase N a b ihi jhi f i j cnt ∧
      i + (chunkPhase N a b ihi jhi f i j cnt - cnt) * N ≤ ihi ∧
      j + (chunkPhase N a b ihi jhi f i j cnt - cnt) * N ≤ jhi ∧
      ∀ k, k < (chunkPhase N a b ihi jhi f i j cnt - cnt) * N → a[i + k]? = b[j + k]? := by
  intro f
  induction f with
  | zero => intro i j cnt hi hj; simp [chunkPhase]; omega
  | succ f ih =>
    intro i j cnt hi hj
    unfold chunkPhase
    split
    · rename_i hc
      obtain ⟨hc1, hc2, hc3⟩ := hc
      obtain ⟨h1, h2, h3, h4⟩ := ih (i + N) (j + N) (cnt + 1) hc1 hc2
      generalize chunkPhase N a b ihi jhi f (i + N) (j + N) (cnt + 1) = r at *
      have hr : (r - cnt) * N = N + (r - (cnt + 1)) * N := by
        have : r - cnt = (r - (cnt + 1)) + 1 := by omega
        rw [this, Nat.add_mul]; omega
      refine ⟨by omega, by omega, by omega, ?_⟩
      intro k hk
      by_cases hkN : k < N
      · exact chunkEq_sound a b N i j hc3 k hkN
      · have := h4 (k - N) (by omega)
        have e1 : i + N + (k - N) = i + k := by omega
        have e2 : j + N + (k - N) = j + k := by omega
        rwa [e1, e2] at this
    · simp; omega

theorem mismatchChunks_sound (N : Nat) (a : Array Byte) (i ihi : Nat) (b : Array Byte) (j jhi : Nat)
    (hi : i ≤ ihi) (hj : j ≤ jhi) :
    i + mismatchChunks N a i ihi b j jhi ≤ ihi ∧ j + mismatchChunks N a i ihi b j jhi ≤ jhi ∧
    ∀ k, k < mismatchChunks N a i ihi b j jhi → a[i + k]? = b[j + k]? := by
  obtain ⟨_, h2, h3, h4⟩ := chunkPhase_sound N a b ihi jhi (ihi - i) i j 0 hi hj
  simp only [Nat.sub_zero] at h2 h3 h4
  unfold mismatchChunks
  generalize chunkPhase N a b ihi jhi (ihi - i) i j 0 * N = off at *
  obtain ⟨g1, g2, g3⟩ := commonPrefixLen_sound a (i + off) ihi b (j + off) jhi h2 h3
  simp only []
  generalize commonPrefixLen a (i + off) ihi b (j + off) jhi = r at *
  refine ⟨by omega, by omega, ?_⟩
  intro k hk
  by_cases hko : k < off
  · exact h4 k hko
  · have := g3 (k - off) (by omega)
    have e1 : i + off + (k - off) = i + k := by omega
    have e2 : j + off + (k - off) = j + k := by omega
    rwa [e1, e2] at this

end Zstd.Proofs.MG

namespace Zstd.Proofs.MG
open Zstd Zstd.Model.MG

/-! ### candidates -/

/-- What a reported candidate `(offset, match_len)` for position `s` of the current block `cur`
means with respect to the window entry it was found in (`ed` = data, `eb` = base offset of that
entry, `isLast` = it is the current block itself): there is a source index `mi` in that entry -/
def GoodCand (cur : Array Byte) (s : Nat) (ed : Array Byte) (eb : Nat) (isLast : Bool) (c : Nat × Nat) : Prop :=
  ∃ mi, c.1 = eb + s - mi ∧ mi ≤ eb + s ∧ minMatchLen ≤ c.2 ∧
    mi + c.2 ≤ (if isLast then s else ed.size) ∧ (if isLast then s else ed.size) ≤ ed.size ∧
    s + c.2 ≤ cur.size ∧ ∀ k, k < c.2 → ed[mi + k]? = cur[s + k]?

theorem candOf_sound (key : KeyFn) (cur : Array Byte) (s : Nat) (kb : List Byte) (e : Entry) (isLast : Bool)
    (c : Nat × Nat) (hs : s ≤ cur.size) (h : candOf key cur s kb e isLast = .ok (some c)) :
    GoodCand cur s e.data e.baseOffset isLast c := by
  unfold candOf at h
  split at h
  · simp at h
  · simp at h
  · rename_i mi _
    simp only [] at h
    unfold GoodCand
    generalize (if isLast = true then s else e.data.size) = hi at h ⊢
    by_cases hsl : mi > hi ∨ hi > e.data.size
    · simp [hsl] at h
    · simp only [hsl, if_false] at h
      by_cases hlen : Zstd.Gen.mgCandLenOk (mismatchChunks 8 e.data mi hi cur s cur.size) minMatchLen = true
      · simp only [hlen, if_true] at h
        by_cases hov : e.baseOffset + s < mi
        · simp [hov] at h
        · simp only [hov, if_false, Except.ok.injEq, Option.some.injEq] at h
          subst h
          simp only [Zstd.Gen.mgCandLenOk, decide_eq_true_eq] at hlen
          obtain ⟨g1, g2, g3⟩ := mismatchChunks_sound 8 e.data mi hi cur s cur.size (by omega) hs
          exact ⟨mi, rfl, by omega, hlen, g1, by omega, g2, g3⟩
      · simp [hlen] at h

theorem better_cases (old : Option (Nat × Nat)) (new : Nat × Nat) :
    better old new = some new ∨ (better old new = old ∧ old ≠ none) := by
  unfold better
  split
  · simp
  · split
    · simp
    · simp

/-- data and base offset of every entry: all that the meaning of a candidate depends on -/
abbrev Shape := List (Array Byte × Nat)
def shape (w : List Entry) : Shape := w.map (fun e => (e.data, e.baseOffset))

@[simp] theorem shape_nil : shape [] = [] := rfl
@[simp] theorem shape_cons (e : Entry) (w : List Entry) : shape (e :: w) = (e.data, e.baseOffset) :: shape w := rfl
@[simp] theorem shape_append (a b : List Entry) : shape (a ++ b) = shape a ++ shape b := by simp [shape]
@[simp] theorem shape_length (w : List Entry) : (shape w).length = w.length := by simp [shape]

/-- a candidate that is good for some entry of the window `w` -/
def GoodIn (cur : Array Byte) (s : Nat) (w : Shape) (c : Nat × Nat) : Prop :=
  ∃ pre ed eb post, w = pre ++ (ed, eb) :: post ∧ GoodCand cur s ed eb post.isEmpty c

theorem findCandidate_sound (key : KeyFn) (cur : Array Byte) (s : Nat) (kb : List Byte) (hs : s ≤ cur.size) :
    ∀ (es : List Entry) (cand : Option (Nat × Nat)) (c : Nat × Nat),
      findCandidate key cur s kb es cand = .ok (some c) →
      cand = some c ∨ GoodIn cur s (shape es) c := by
  intro es
  induction es with
  | nil => intro cand c h; simp [findCandidate] at h; exact Or.inl h
  | cons e rest ih =>
    intro cand c h
    unfold findCandidate at h
    split at h
    · simp at h
    · rcases ih cand c h with h1 | ⟨pre, ed, eb, post, hw, hg⟩
      · exact Or.inl h1
      · exact Or.inr ⟨(e.data, e.baseOffset) :: pre, ed, eb, post, by simp [hw], hg⟩
    · rename_i c0 hc0
      have hgood := candOf_sound key cur s kb e _ c0 hs hc0
      rcases ih (better cand c0) c h with h1 | ⟨pre, ed, eb, post, hw, hg⟩
      · rcases better_cases cand c0 with hb | ⟨hb, _⟩
        · rw [hb] at h1
          cases h1
          refine Or.inr ⟨[], e.data, e.baseOffset, shape rest, by simp, ?_⟩
          simpa [shape] using hgood
        · rw [hb] at h1; exact Or.inl h1
      · exact Or.inr ⟨(e.data, e.baseOffset) :: pre, ed, eb, post, by simp [hw], hg⟩

end Zstd.Proofs.MG

namespace Zstd.Proofs.MG
open Zstd Zstd.Model.MG

/-! ### `mismatch_chunks` computes THE maximal common prefix -/

theorem cplAux_max (a b : Array Byte) (ihi jhi : Nat) (ha : ihi ≤ a.size) (hb : jhi ≤ b.size) :
    ∀ (f i j acc : Nat), ihi - i ≤ f → i ≤ ihi → j ≤ jhi →
      i + (cplAux a b ihi jhi f i j acc - acc) = ihi ∨ j + (cplAux a b ihi jhi f i j acc - acc) = jhi ∨
      a[i + (cplAux a b ihi jhi f i j acc - acc)]? ≠ b[j + (cplAux a b ihi jhi f i j acc - acc)]? := by
  intro f
  induction f with
  | zero => intro i j acc hf hi hj; simp [cplAux]; omega
  | succ f ih =>
    intro i j acc hf hi hj
    unfold cplAux
    split
    · rename_i hlt
      have hai : i < a.size := by omega
      have hbj : j < b.size := by omega
      have hx : a[i]? = some a[i] := by simp [hai]
      have hy : b[j]? = some b[j] := by simp [hbj]
      rw [hx, hy]
      simp only []
      split
      · rename_i hxy
        have hs := (cplAux_sound a b ihi jhi f (i + 1) (j + 1) (acc + 1) (by omega) (by omega)).1
        have := ih (i + 1) (j + 1) (acc + 1) (by omega) (by omega) (by omega)
        generalize cplAux a b ihi jhi f (i + 1) (j + 1) (acc + 1) = r at *
        have e : r - acc = (r - (acc + 1)) + 1 := by omega
        rw [e]
        have e1 : i + (r - (acc + 1) + 1) = i + 1 + (r - (acc + 1)) := by omega
        have e2 : j + (r - (acc + 1) + 1) = j + 1 + (r - (acc + 1)) := by omega
        rw [e1, e2]
        exact this
      · rename_i hxy
        right; right
        simp only [Nat.sub_self, Nat.add_zero, hx, hy]
        intro h
        exact hxy (Option.some.inj h)
    · simp only [Nat.sub_self, Nat.add_zero]
      omega

theorem commonPrefixLen_max (a : Array Byte) (i ihi : Nat) (b : Array Byte) (j jhi : Nat)
    (ha : ihi ≤ a.size) (hb : jhi ≤ b.size) (hi : i ≤ ihi) (hj : j ≤ jhi) :
    i + commonPrefixLen a i ihi b j jhi = ihi ∨ j + commonPrefixLen a i ihi b j jhi = jhi ∨
    a[i + commonPrefixLen a i ihi b j jhi]? ≠ b[j + commonPrefixLen a i ihi b j jhi]? := by
  have := cplAux_max a b ihi jhi ha hb (ihi - i) i j 0 (Nat.le_refl _) hi hj
  simpa [commonPrefixLen] using this

/-- a number `r` is the length of the maximal common prefix of `a[i..ihi]` and `b[j..jhi]` -/
def IsMaxCommonPrefix (a : Array Byte) (i ihi : Nat) (b : Array Byte) (j jhi : Nat) (r : Nat) : Prop :=
  i + r ≤ ihi ∧ j + r ≤ jhi ∧ (∀ k, k < r → a[i + k]? = b[j + k]?) ∧
  (i + r = ihi ∨ j + r = jhi ∨ a[i + r]? ≠ b[j + r]?)

theorem isMaxCommonPrefix_unique {a : Array Byte} {i ihi : Nat} {b : Array Byte} {j jhi r1 r2 : Nat}
    (h1 : IsMaxCommonPrefix a i ihi b j jhi r1) (h2 : IsMaxCommonPrefix a i ihi b j jhi r2) : r1 = r2 := by
  obtain ⟨a1, a2, a3, a4⟩ := h1
  obtain ⟨b1, b2, b3, b4⟩ := h2
  rcases Nat.lt_trichotomy r1 r2 with h | h | h
  · rcases a4 with h' | h' | h'
    · omega
    · omega
    · exact absurd (b3 r1 h) h'
  · exact h
  · rcases b4 with h' | h' | h'
    · omega
    · omega
    · exact absurd (a3 r2 h) h'

theorem commonPrefixLen_isMax (a : Array Byte) (i ihi : Nat) (b : Array Byte) (j jhi : Nat)
    (ha : ihi ≤ a.size) (hb : jhi ≤ b.size) (hi : i ≤ ihi) (hj : j ≤ jhi) :
    IsMaxCommonPrefix a i ihi b j jhi (commonPrefixLen a i ihi b j jhi) := by
  obtain ⟨h1, h2, h3⟩ := commonPrefixLen_sound a i ihi b j jhi hi hj
  exact ⟨h1, h2, h3, commonPrefixLen_max a i ihi b j jhi ha hb hi hj⟩

/-- `mismatch_chunks::<N>` (whole chunks first, then bytes) returns the maximal common prefix
length, for every chunk size `N` -/
theorem mismatchChunks_isMax (N : Nat) (a : Array Byte) (i ihi : Nat) (b : Array Byte) (j jhi : Nat)
    (ha : ihi ≤ a.size) (hb : jhi ≤ b.size) (hi : i ≤ ihi) (hj : j ≤ jhi) :
    IsMaxCommonPrefix a i ihi b j jhi (mismatchChunks N a i ihi b j jhi) := by
  obtain ⟨h1, h2, h3⟩ := mismatchChunks_sound N a i ihi b j jhi hi hj
  refine ⟨h1, h2, h3, ?_⟩
  obtain ⟨_, c2, c3, _⟩ := chunkPhase_sound N a b ihi jhi (ihi - i) i j 0 hi hj
  simp only [Nat.sub_zero] at c2 c3
  unfold mismatchChunks
  generalize chunkPhase N a b ihi jhi (ihi - i) i j 0 * N = off at *
  have := commonPrefixLen_max a (i + off) ihi b (j + off) jhi ha hb c2 c3
  simp only []
  generalize commonPrefixLen a (i + off) ihi b (j + off) jhi = r at *
  simpa [Nat.add_assoc] using this

theorem mismatchChunks_eq_commonPrefixLen (N : Nat) (a : Array Byte) (i ihi : Nat) (b : Array Byte) (j jhi : Nat)
    (ha : ihi ≤ a.size) (hb : jhi ≤ b.size) (hi : i ≤ ihi) (hj : j ≤ jhi) :
    mismatchChunks N a i ihi b j jhi = commonPrefixLen a i ihi b j jhi :=
  isMaxCommonPrefix_unique (mismatchChunks_isMax N a i ihi b j jhi ha hb hi hj)
    (commonPrefixLen_isMax a i ihi b j jhi ha hb hi hj)

end Zstd.Proofs.MG
