import Zstd.Proofs.BlkSeq
import Zstd.Proofs.BlkHuf
import Zstd.Props.C14
/-
C03 at block level: `BlockDecoder::decompress_block` (model `Blk.decompressBlock`) never faults on a
well-formed scratch, keeps it well formed on success, and `reset` re-establishes well-formedness after
any outcome.  Components: literals header (`parseLitHeader_shape` + C14), literals (`Proofs/BlkHuf`),
sequence section (`Proofs/BlkSeq`, FSE builders `Proofs/BlkFse`), sequence execution.
-/
namespace Zstd.Proofs.Blk
open Zstd Zstd.Model Zstd.Model.Blk Zstd.Proofs.BitIO

/-! ## literals header: what `parse_from_header` guarantees about the section -/

theorem litStreams_val {sf ns : Nat} (h : Hdr.lookupArm Gen.litStreams sf = some ns) : ns = 1 ∨ ns = 4 := by
  simp only [Gen.litStreams, Hdr.lookupArm] at h
  repeat' split at h
  all_goals (first | (simp only [Option.some.injEq] at h; omega) | cases h)

/-- Raw/RLE sections carry no compressed size; Compressed/Treeless sections carry one and 1 or 4 streams -/
theorem parseLitHeader_shape {self sec : Hdr.LitSection} {raw : List Nat} {n : Nat}
    (h : Hdr.parseLitHeader self raw = .ok (sec, n)) :
    ((sec.ty = 0 ∨ sec.ty = 1) ∧ sec.comp = none) ∨
    (¬ (sec.ty = 0 ∨ sec.ty = 1) ∧ (∃ c, sec.comp = some c) ∧ (sec.streams = some 1 ∨ sec.streams = some 4)) := by
  unfold Hdr.parseLitHeader at h
  cases raw with
  | nil => cases h
  | cons r0 tl =>
    simp only [] at h
    cases hty : Hdr.litSectionType (r0 % 4) with
    | error e => rw [hty] at h; cases h
    | ok ty =>
      rw [hty] at h; simp only [] at h
      cases hn : Hdr.litHeaderBytesNeeded r0 with
      | error e => rw [hn] at h; cases h
      | ok need =>
        rw [hn] at h; simp only [] at h
        by_cases hlen : (r0 :: tl).length < need
        · rw [if_pos hlen] at h; cases h
        · rw [if_neg hlen] at h
          by_cases ht : ty = 0 ∨ ty = 1
          · rw [if_pos ht] at h
            split at h
            · split at h
              · cases h
              · simp only [Except.ok.injEq, Prod.mk.injEq] at h
                obtain ⟨rfl, _⟩ := h
                left; exact ⟨ht, rfl⟩
            · cases h
          · rw [if_neg ht] at h
            cases hns : Hdr.lookupArm Gen.litStreams (r0 / 4 % 4) with
            | none => rw [hns] at h; cases h
            | some ns =>
              rw [hns] at h; simp only [] at h
              split at h
              · split at h
                · cases h
                · simp only [Except.ok.injEq, Prod.mk.injEq] at h
                  obtain ⟨rfl, _⟩ := h
                  right
                  refine ⟨ht, ⟨_, rfl⟩, ?_⟩
                  rcases litStreams_val hns with rfl | rfl
                  · left; rfl
                  · right; rfl
              · cases h

/-! ## sequence execution -/

/-- `execute_sequences` cannot panic when every offset value is `≥ 1` (same statement as
`Props.C03.executeSequences_no_fault`, which lives above this file in the import order) -/
theorem executeSequences_no_fault' (seqs : List Spec.Seq) (hov : ∀ s ∈ seqs, s.ov ≥ 1) :
    ∀ (lits : List Nat) (h : Nat × Nat × Nat) (seqSum : Nat) (b : DBuf) (f : Fault),
      (executeSequences seqs lits h seqSum b).2 ≠ .fault f := by
  induction seqs with
  | nil =>
    intro lits h seqSum b f
    unfold executeSequences
    split <;> (try split) <;> simp
  | cons s rest ih =>
    intro lits h seqSum b f
    unfold executeSequences
    have hs : s.ov ≥ 1 := hov s (List.mem_cons_self)
    have hrest : ∀ s' ∈ rest, s'.ov ≥ 1 := fun s' hm => hov s' (List.mem_cons_of_mem _ hm)
    split
    · simp
    · split
      · simp
      · have hr : ∃ r, doOffsetHistory s.ov s.ll h = .ok r := by
          unfold doOffsetHistory
          obtain ⟨a, b, c⟩ := h
          have : s.ov ≠ 0 := by omega
          simp [this]
        obtain ⟨r, hr⟩ := hr
        simp only [hr]
        obtain ⟨actual, h'⟩ := r
        simp only []
        split
        · simp
        · split
          · simp
          · exact ih hrest _ _ _ _ f

end Zstd.Proofs.Blk

/-! ## the invariant -/
namespace Zstd.Model.Blk
open Zstd Zstd.Model Zstd.Proofs.Blk Zstd.Proofs.BitIO

/-- **Well-formed entropy state** — what `DecoderScratch::new` / `reset` establish and every
successful `decompress_block` preserves:
* each of the three FSE tables (`ChanPre`) is uninitialised (`accuracy_log = 0`) or built
  (`FseBuilt`: `1 ≤ accuracy_log ≤ max_log`, `decode.len() = 2^accuracy_log`, every entry has
  `symbol ≤ max_symbol`, `base_line + 2^num_bits ≤ 2^accuracy_log`, `num_bits ≤ accuracy_log`), its
  `max_symbol` is the alphabet's (35 / 31 / 52), and the RLE symbol, if any, is within the alphabet;
* the Huffman table (`HufWF`) is empty (`max_num_bits = 0`) or built (`HufBuilt`: `1 ≤ max_num_bits ≤ 11`,
  `decode.len() = 2^max_num_bits`, every cell consumes between 1 and `max_num_bits` bits).
It is NOT preserved by a failed table build (`FSETable::build_decoder` stores the new
`accuracy_log` before validating the description; `HuffmanTable::build_decoder` clears `decode` and
may store `max_num_bits` before rejecting the weights) — see `continue_after_error_faults_*`. -/
structure WF (s : Scratch) : Prop where
  huf : HufWF s.huf
  fse : FseScratchWF s.fse

/-- the part that survives every outcome: the alphabets of the three tables (set by `FSETable::new`,
never written afterwards) -/
def Alphabets (s : Scratch) : Prop := FseAlphabets s.fse

theorem WF.alphabets {s : Scratch} (h : WF s) : Alphabets s := ⟨h.fse.ll.2.1, h.fse.of.2.1, h.fse.ml.2.1⟩

/-- a fresh scratch (`DecoderScratch::new`) is well formed -/
theorem WF_new : WF {} := by
  refine ⟨Or.inl rfl, ⟨⟨Or.inl rfl, rfl, ?_⟩, ⟨Or.inl rfl, rfl, ?_⟩, ⟨Or.inl rfl, rfl, ?_⟩⟩⟩ <;>
    (intro b hb; cases hb)

/-- `DecoderScratch::reset` re-establishes well-formedness from ANY state (in particular after any
decode error) -/
theorem WF_reset {s : Scratch} (h : Alphabets s) : WF s.reset := by
  obtain ⟨a1, a2, a3⟩ := h
  refine ⟨Or.inl rfl, ⟨⟨Or.inl rfl, a1, ?_⟩, ⟨Or.inl rfl, a2, ?_⟩, ⟨Or.inl rfl, a3, ?_⟩⟩⟩ <;>
    (intro b hb; cases hb)

theorem bytes_drop {l : List Nat} (h : Bytes l) (n : Nat) : Bytes (l.drop n) :=
  fun x hx => h x (List.mem_of_mem_drop hx)

theorem bytes_take {l : List Nat} (h : Bytes l) (n : Nat) : Bytes (l.take n) :=
  fun x hx => h x (List.mem_of_mem_take hx)

/-- the three-part conclusion used below -/
def Post (s' : Scratch) (o : BOut) : Prop :=
  (∀ f, o ≠ .fault f) ∧ (o = .ok → WF s') ∧
  (∀ e, o = .err e → (e ≠ .literals → HufWF s'.huf) ∧ (e ≠ .sequences → FseScratchWF s'.fse))

theorem post_err {s' : Scratch} {e : BlkErr} (h1 : e ≠ .literals → HufWF s'.huf)
    (h2 : e ≠ .sequences → FseScratchWF s'.fse) : Post s' (.err e) :=
  ⟨fun f h => (by cases h), fun h => (by cases h), fun e' he => (by cases he; exact ⟨h1, h2⟩)⟩

theorem post_ok {s' : Scratch} (h : WF s') : Post s' .ok :=
  ⟨fun f h => (by cases h), fun _ => h, fun e he => (by cases he)⟩

/-- the body of `decompress_block` (after the literals header and `upper_limit_for_literals`) -/
theorem decompressBody_spec {raw : List Nat} (hb : Bytes raw) {s : Scratch} (hwf : WF s) (b : DBuf)
    (sec : Hdr.LitSection) (upper : Nat)
    (hpreOf : ∀ src : List Nat, src.length = upper →
      LitPre { lsType := litTypeOf sec.ty, regeneratedSize := sec.regen, compressedSize := sec.comp,
               numStreams := sec.streams } src) :
    Post (decompressBody s b sec raw upper).1.1 (decompressBody s b sec raw upper).2 := by
  unfold decompressBody
  by_cases hshort : raw.length < upper
  · rw [if_pos hshort]
    exact post_err (fun _ => hwf.huf) (fun _ => hwf.fse)
  · rw [if_neg hshort]
    have hlen : (raw.take upper).length = upper := by rw [List.length_take]; omega
    have hpre := hpreOf _ hlen
    have hbsrc : Bytes (raw.take upper) := bytes_take hb _
    have hnf := decodeLiterals_no_fault _ s.huf _ hbsrc hwf.huf hpre
    simp only []
    cases hd : Huf.decodeLiterals { lsType := litTypeOf sec.ty, regeneratedSize := sec.regen, compressedSize := sec.comp, numStreams := sec.streams } s.huf (raw.take upper) [] with
    | mk huf r =>
      rw [hd] at hnf
      cases r with
      | error e =>
        cases e with
        | fault f => exact absurd rfl (hnf f)
        | err e' => exact post_err (fun h => absurd rfl h) (fun _ => hwf.fse)
      | ok q =>
        obtain ⟨lits, used⟩ := q
        obtain ⟨hhuf, hll, hused⟩ := decodeLiterals_ok _ s.huf _ hbsrc hwf.huf hpre hd
        simp only [] at hll
        simp only []
        rw [if_neg (by omega), if_neg (by omega)]
        cases hsh : parseSeqHeader (raw.drop upper) with
        | error e => exact post_err (fun _ => hhuf) (fun _ => hwf.fse)
        | ok q =>
          obtain ⟨n, modes, shLen⟩ := q
          simp only []
          by_cases hn : n ≠ 0
          · rw [if_pos hn]
            have hb3 : Bytes ((raw.drop upper).drop shLen) := bytes_drop (bytes_drop hb _) _
            obtain ⟨nfS, okS⟩ := decodeSequences_ok n modes hb3 hwf.fse
            cases hds : decodeSequences n modes ((raw.drop upper).drop shLen) s.fse with
            | mk fse r =>
              rw [hds] at nfS
              cases r with
              | error e =>
                cases e with
                | fault f => exact absurd rfl (nfS f)
                | _ => exact post_err (fun _ => hhuf) (fun h => absurd rfl h)
              | ok seqs =>
                obtain ⟨hfse, hov⟩ := okS fse seqs hds
                simp only []
                have hex := executeSequences_no_fault' seqs hov lits s.hist 0 b
                cases hx : executeSequences seqs lits s.hist 0 b with
                | mk p o1 =>
                  obtain ⟨b1, h1⟩ := p
                  rw [hx] at hex
                  cases o1 with
                  | ok u => exact post_ok ⟨hhuf, hfse⟩
                  | err e => exact post_err (fun _ => hhuf) (fun _ => hfse)
                  | fault f => exact absurd rfl (hex f)
          · rw [if_neg hn]
            split
            · exact post_err (fun _ => hhuf) (fun h => absurd rfl h)
            · exact post_ok ⟨hhuf, hwf.fse⟩

/-- `upper_limit_for_literals` cannot hit its `panic!("Bug in this library")` arm and, together with
the length check, yields the slice `decode_literals` expects -/
theorem upperLimit_ok {sec : Hdr.LitSection}
    (hshape : ((sec.ty = 0 ∨ sec.ty = 1) ∧ sec.comp = none) ∨
      (¬ (sec.ty = 0 ∨ sec.ty = 1) ∧ (∃ c, sec.comp = some c) ∧ (sec.streams = some 1 ∨ sec.streams = some 4))) :
    ∃ upper, upperLimit sec = .ok upper ∧
      ∀ src : List Nat, src.length = upper →
        LitPre { lsType := litTypeOf sec.ty, regeneratedSize := sec.regen, compressedSize := sec.comp,
                 numStreams := sec.streams } src := by
  unfold upperLimit
  rcases hshape with ⟨hty, hc⟩ | ⟨hty, ⟨c, hc⟩, hst⟩
  · rw [hc]
    rcases hty with h0 | h1
    · refine ⟨sec.regen, by simp [h0], ?_⟩
      intro src hl
      refine ⟨fun _ => hl, fun h => ?_, fun h => ?_⟩
      · simp [litTypeOf, h0] at h
      · simp [litTypeOf, h0] at h
    · refine ⟨1, by simp [h1], ?_⟩
      intro src hl
      refine ⟨fun h => ?_, fun _ => hl, fun h => ?_⟩
      · simp [litTypeOf, h1] at h
      · simp [litTypeOf, h1] at h
  · rw [hc]
    refine ⟨c, rfl, ?_⟩
    intro src hl
    have h0 : sec.ty ≠ 0 := fun h => hty (Or.inl h)
    have h1 : sec.ty ≠ 1 := fun h => hty (Or.inr h)
    refine ⟨fun h => ?_, fun h => ?_, fun _ => ⟨by rw [hl], hst⟩⟩
    · simp only [litTypeOf, h0, h1, if_false] at h; split at h <;> cases h
    · simp only [litTypeOf, h0, h1, if_false] at h; split at h <;> cases h

/-- everything about one `decompress_block` call on a well-formed scratch -/
theorem decompressBlock_spec {content : List Nat} (hb : Bytes content) {s : Scratch} (hwf : WF s) (b : DBuf) :
    Post (decompressBlock content s b).1.1 (decompressBlock content s b).2 := by
  unfold decompressBlock
  cases hp : Hdr.parseLitHeader Hdr.LitSection.new content with
  | error e =>
    cases e with
    | fault f => exact absurd hp (Zstd.Props.C14.literalsHeader_no_fault _ _ f hb)
    | _ => exact post_err (fun _ => hwf.huf) (fun _ => hwf.fse)
  | ok p =>
    obtain ⟨sec, hdrLen⟩ := p
    simp only []
    by_cases hbig : sec.regen > Gen.maxBlockSize
    · rw [if_pos hbig]
      exact post_err (fun _ => hwf.huf) (fun _ => hwf.fse)
    · rw [if_neg hbig]
      obtain ⟨upper, hupper, hpreOf⟩ := upperLimit_ok (parseLitHeader_shape hp)
      rw [hupper]
      exact decompressBody_spec (bytes_drop hb _) hwf b sec upper hpreOf

theorem decompressBody_alphabets (s : Scratch) (b : DBuf) (sec : Hdr.LitSection) (raw : List Nat) (upper : Nat)
    (h : Alphabets s) : Alphabets (decompressBody s b sec raw upper).1.1 := by
  unfold decompressBody
  split
  · exact h
  · simp only []
    split
    · exact h
    · exact h
    · split
      · exact h
      · split
        · exact h
        · split
          · exact h
          · rename_i n modes shLen _
            split
            · have := decodeSequences_alphabets n modes ((raw.drop upper).drop shLen) h
              split <;> rename_i hd <;> rw [hd] at this
              · exact this
              · exact this
              · split <;> exact this
            · split <;> exact h

/-- the alphabets survive every outcome of `decompress_block` (success, error, even a fault) -/
theorem decompressBlock_alphabets (content : List Nat) (s : Scratch) (b : DBuf) (h : Alphabets s) :
    Alphabets (decompressBlock content s b).1.1 := by
  unfold decompressBlock
  split
  · exact h
  · exact h
  · simp only []
    split
    · exact h
    · split
      · exact h
      · exact decompressBody_alphabets _ _ _ _ _ h

/-! ## chains of blocks -/

/-- decode the blocks of one frame in order, stopping at the first error (the legal use of the API:
"after a decode error the caller may drain, query and reset, but not continue that frame") -/
def decodeBlocks : List (List Nat) → Scratch → DBuf → (Scratch × DBuf) × BOut
  | [], s, b => ((s, b), .ok)
  | c :: cs, s, b =>
    match decompressBlock c s b with
    | ((s', b', _, _), .ok) => decodeBlocks cs s' b'
    | ((s', b', _, _), o) => ((s', b'), o)

theorem decodeBlocks_spec : ∀ (blocks : List (List Nat)) (s : Scratch) (b : DBuf),
    (∀ c ∈ blocks, Bytes c) → WF s →
    (∀ f, (decodeBlocks blocks s b).2 ≠ .fault f) ∧ ((decodeBlocks blocks s b).2 = .ok → WF (decodeBlocks blocks s b).1.1) ∧
    Alphabets (decodeBlocks blocks s b).1.1 := by
  intro blocks
  induction blocks with
  | nil => intro s b _ h; exact ⟨fun f h => (by cases h), fun _ => h, h.alphabets⟩
  | cons c cs ih =>
    intro s b hb hwf
    have hspec := decompressBlock_spec (hb c List.mem_cons_self) hwf b
    have halph := decompressBlock_alphabets c s b hwf.alphabets
    rw [decodeBlocks]
    cases hd : decompressBlock c s b with
    | mk p o =>
      obtain ⟨s', b', l, q⟩ := p
      rw [hd] at hspec halph
      obtain ⟨nf, hok, _⟩ := hspec
      cases o with
      | ok => exact ih s' b' (fun c' hc' => hb c' (List.mem_cons_of_mem _ hc')) (hok rfl)
      | err e => exact ⟨fun f h => (by cases h), fun h => (by cases h), halph⟩
      | fault f => exact absurd rfl (nf f)

/-- a legal history on one scratch: frame after frame, each started with `reset` (the buffer is reset
to the frame's window) and decoded block by block up to its first error -/
def runFrames : List (Nat × List (List Nat)) → Scratch → DBuf → List BOut
  | [], _, _ => []
  | (window, blocks) :: rest, s, b =>
    match decodeBlocks blocks s.reset (b.reset window) with
    | ((s', b'), o) => o :: runFrames rest s' b'

theorem runFrames_no_fault : ∀ (frames : List (Nat × List (List Nat))) (s : Scratch) (b : DBuf),
    (∀ fr ∈ frames, ∀ c ∈ fr.2, Bytes c) → Alphabets s →
    ∀ o ∈ runFrames frames s b, ∀ f, o ≠ .fault f := by
  intro frames
  induction frames with
  | nil => intro s b _ _ o ho; cases ho
  | cons fr rest ih =>
    intro s b hb ha o ho
    obtain ⟨window, blocks⟩ := fr
    have hspec := decodeBlocks_spec blocks s.reset (b.reset window) (hb _ List.mem_cons_self) (WF_reset ha)
    rw [runFrames] at ho
    cases hd : decodeBlocks blocks s.reset (b.reset window) with
    | mk p o1 =>
      obtain ⟨s', b'⟩ := p
      rw [hd] at ho hspec
      rcases List.mem_cons.mp ho with rfl | ho
      · exact hspec.1
      · exact ih s' b' (fun fr' hfr' => hb fr' (List.mem_cons_of_mem _ hfr')) hspec.2.2 o ho

end Zstd.Model.Blk
