import Zstd.Proofs.DecodeBufRun
/-
Helper lemmas for C04, layer 8: the read-confinement of `copy_bytes_overshooting` made explicit with a
poisoned memory, and the behaviour outside the decoder's contract (never-allocated buffer, offset 0).
-/
namespace Zstd.Model
open Zstd RingBuffer

/-- the memory with every cell outside `[lo, lo+len)` made uninitialised (same allocation size) -/
def Mem.eraseOutside (m : Mem) (lo len : Nat) : Mem :=
  m.mapIdx (fun i c => if lo ≤ i ∧ i < lo + len then c else none)

theorem Mem.size_eraseOutside (m : Mem) (lo len : Nat) : (m.eraseOutside lo len).size = m.size := by
  simp [Mem.eraseOutside]

theorem Mem.cell_eraseOutside (m : Mem) (lo len j : Nat) :
    (m.eraseOutside lo len).cell j = if lo ≤ j ∧ j < lo + len then m.cell j else none := by
  unfold Mem.eraseOutside Mem.cell
  rw [Array.getD_eq_getD_getElem?, Array.getD_eq_getD_getElem?, Array.getElem?_mapIdx]
  by_cases hj : j < m.size
  · rw [Array.getElem?_eq_getElem hj]
    simp only [Option.map_some, Option.getD_some]
  · rw [Array.getElem?_eq_none (by omega)]
    simp

/-- `copy_bytes_overshooting` succeeds on the memory in which everything except the first
`min srcLen dstLen` bytes of the source region has been made uninitialised: since a raw read of such
a cell is `Fault.uninit`, no path of the routine reads a single byte outside that part of the source
region, at any of the call sites (`CboPre`), over-copy included. -/
theorem cbo_reads_confined {C : Nat} (hC : 0 < C) {m : Mem} {c : CboCall} (h : CboPre m c) :
    ∃ m', cbo C (m.eraseOutside c.srcOff (min c.srcLen c.dstLen)) c = .ok m' := by
  have h' : CboPre (m.eraseOutside c.srcOff (min c.srcLen c.dstLen)) c := by
    refine ⟨?_, by rw [Mem.size_eraseOutside]; exact h.dstIn, h.disj, h.nSrc, h.nDst⟩
    intro i hi
    rw [Mem.cell_eraseOutside]
    have : c.srcOff ≤ c.srcOff + i ∧ c.srcOff + i < c.srcOff + min c.srcLen c.dstLen := by omega
    simp only [this, and_self, ↓reduceIte]
    exact h.srcInit i hi
  obtain ⟨m', k, e, _⟩ := cbo_ok hC h'
  exact ⟨m', e⟩

namespace RingBuffer

variable {r : RingBuffer}

/-- `drop_first_n` on a never-allocated buffer always panics (`% 0`, or the `debug_assert!` first) -/
theorem dropFirstN_unallocated (hI : r.Inv) (hc : r.cap = 0) (n : Nat) : ∃ f, r.dropFirstN n = .error f := by
  unfold dropFirstN
  rw [hI.lenC_eq, ok_bind]
  by_cases hn : n ≤ r.len
  · rw [check_ok hn, ok_bind, umod_zero hc, error_bind]; exact ⟨_, rfl⟩
  · rw [check_err hn, error_bind]; exact ⟨_, rfl⟩

/-- the unchecked copy on a never-allocated buffer always panics -/
theorem efwu_unallocated {C : Nat} (hI : r.Inv) (hc : r.cap = 0) (start len : Nat) :
    ∃ f, r.extendFromWithinUnchecked C start len = .error f := by
  cases h : r.extendFromWithinUnchecked C start len with
  | error f => exact ⟨f, rfl⟩
  | ok r' => have := efwu_cap_pos_of_ok hI h; omega

end RingBuffer

namespace DecodeBuffer

/-- with `offset = 0` the chunk loop makes no progress: every iteration copies 0 bytes (successfully) -/
theorem repeatInChunks_zero {C : Nat} (hC : 0 < C) : ∀ (fuel : Nat) {b : RingBuffer} {left startIdx : Nat},
    b.Inv → 0 < b.cap → 0 < left → startIdx ≤ b.len →
    repeatInChunks C fuel b 0 left startIdx = .error (hang "decode_buffer.rs:repeat_in_chunks")
  | 0, b, left, startIdx, _, _, hl, _ => by simp [repeatInChunks, hl]
  | fuel + 1, b, left, startIdx, hI, hc, hl, hs => by
    unfold repeatInChunks
    simp only [hl, ↓reduceIte, Nat.zero_min]
    obtain ⟨b1, e1, hI1, _, hl1, hc1, _⟩ := efwu_ok hC hI hc (start := startIdx) (len := 0) (by omega) (by omega)
    rw [e1, ok_bind]
    exact repeatInChunks_zero hC fuel hI1 (by omega) (by omega) (by omega)

/-- `repeat(0, n)` with `n > 0` never terminates in the Rust code (the model says so after `n` idle
iterations): this is why `execute_sequences` must reject a zero offset before calling it -/
theorem repeat_offset_zero_hangs {C : Nat} (hC : 0 < C) {d : DecodeBuffer} (hI : d.Inv) {ml : Nat}
    (hml : 0 < ml) : d.repeat C 0 ml = .error (hang "decode_buffer.rs:repeat_in_chunks") := by
  unfold DecodeBuffer.repeat repeatF
  rw [RingBuffer.Inv.lenC_eq hI, ok_bind]
  simp only [Nat.not_lt_zero, gt_iff_lt, ↓reduceIte, Nat.sub_zero]
  obtain ⟨b, eb, hR⟩ := reserve_ok hI ml
  rw [eb, ok_bind]
  have hc : 0 < b.cap := hR.inv.cap_pos_of_free (by have := hR.free; omega)
  have hgt : d.buffer.len < d.buffer.len + ml := by omega
  simp only [hgt, ↓reduceIte]
  rw [repeatInChunks_zero hC ml hR.inv hc hml (by rw [hR.len]; omega), error_bind]

end DecodeBuffer

end Zstd.Model
