import Zstd.Proofs.FrameDecoderConcat
/-
`decode_all_to_vec` (C10): the vector is unchanged on failure, its existing content is never touched,
and on success exactly the bytes `decode_all` reports are appended.
-/
set_option linter.unusedSectionVars false
namespace Zstd.Model
open Zstd

variable {σ : Type} [BlockDec σ] [BlockContract σ]

theorem Decoder.decodeAllToVec_room (vec : Array Nat) (room : Nat) :
    (vec ++ Array.replicate (vec.size + room - vec.size) 0).size - vec.size = room := by
  simp

/-- everything about one `decode_all_to_vec` call in terms of the `decode_all` call it makes -/
theorem Decoder.decodeAllToVec_eq (d : Decoder σ) (s : Src) (vec : Array Nat) (room : Nat) :
    d.decodeAllToVec s vec room =
      match d.decodeAll s room with
      | (d', .ok out) => (d', vec ++ out, .ok ())
      | (d', .err e) => (d', vec, .err e)
      | (d', .fault f) => (d', vec, .fault f) := by
  unfold Decoder.decodeAllToVec
  simp only [Decoder.decodeAllToVec_room]
  have hpre : (vec ++ Array.replicate (vec.size + room - vec.size) 0).extract 0 vec.size = vec := by
    simp [Array.extract_append]
  cases h : d.decodeAll s room with
  | mk d' o =>
    cases o with
    | err e => simp only [hpre]
    | fault f => simp only [hpre]
    | ok out =>
      have hle : out.size ≤ room := by
        obtain ⟨x, hx, hs⟩ := decodeAllLoop_ok _ _ _ _ _ _ _ h
        rw [hx]; simpa using hs
      simp only [hpre]
      congr 2
      have hmin : min (vec.size + out.size) (vec.size + room) = vec.size + out.size := by omega
      rw [hmin]
      apply Array.ext
      · simp
      · intro i h1 h2
        simp only [Array.size_append] at h2
        simp only [Array.getElem_extract, Nat.zero_add]
        by_cases hi : i < vec.size
        · rw [Array.getElem_append_left (by simp; omega)]
        · rw [Array.getElem_append_left (by simp; omega)]

end Zstd.Model
