import Zstd.Proofs.RingCbo
import Zstd.Proofs.RingSpec
/-
Helper lemmas for C04, layer 3: consequences of the invariant, the `Appended` relation
(what every appending operation establishes) and its soundness.
-/
namespace Zstd.Model
open Zstd

namespace RingBuffer

variable {r r' : RingBuffer}

/-! ### omega-friendly case forms of the definitions -/

theorem len_cases (r : RingBuffer) :
    (r.head ≤ r.tail ∧ r.len = r.tail - r.head) ∨ (r.tail < r.head ∧ r.len = r.cap - r.head + r.tail) := by
  unfold len; split <;> omega

theorem free_cases (r : RingBuffer) :
    (r.tail < r.head ∧ r.free = r.head - r.tail - 1) ∨
    (r.head ≤ r.tail ∧ r.free = r.cap - r.tail + r.head - 1) := by
  unfold free; split <;> omega

theorem phys_cases (r : RingBuffer) (i : Nat) :
    (r.head + i < r.cap ∧ r.phys i = r.head + i) ∨ (r.cap ≤ r.head + i ∧ r.phys i = r.head + i - r.cap) := by
  unfold phys; split <;> omega

theorem occupied_iff (r : RingBuffer) (j : Nat) :
    r.occupied j ↔ (r.head ≤ r.tail ∧ r.head ≤ j ∧ j < r.tail) ∨
      (r.tail < r.head ∧ ((r.head ≤ j ∧ j < r.cap) ∨ j < r.tail)) := by
  unfold occupied; split <;> omega

theorem Inv.head_le (h : r.Inv) : r.head ≤ r.cap := by
  rcases h.bounds with ⟨h0, h1, _⟩ | ⟨hh, _⟩ <;> omega

theorem Inv.tail_le (h : r.Inv) : r.tail ≤ r.cap := by
  rcases h.bounds with ⟨h0, _, h2⟩ | ⟨_, ht⟩ <;> omega

theorem Inv.head_lt (h : r.Inv) (hc : 0 < r.cap) : r.head < r.cap := by
  rcases h.bounds with ⟨h0, _, _⟩ | ⟨hh, _⟩ <;> omega

theorem Inv.tail_lt (h : r.Inv) (hc : 0 < r.cap) : r.tail < r.cap := by
  rcases h.bounds with ⟨h0, _, _⟩ | ⟨_, ht⟩ <;> omega

theorem Inv.len_zero_of_cap_zero (h : r.Inv) (hc : r.cap = 0) : r.len = 0 ∧ r.free = 0 := by
  rcases h.bounds with ⟨h0, h1, h2⟩ | ⟨hh, _⟩
  · simp [len, free, h0, h1, h2]
  · omega

/-- one cell always stays free -/
theorem Inv.len_free (h : r.Inv) (hc : 0 < r.cap) : r.len + r.free + 1 = r.cap := by
  have := h.head_lt hc; have := h.tail_lt hc
  unfold len free; split <;> split <;> omega

theorem Inv.len_lt (h : r.Inv) (hc : 0 < r.cap) : r.len < r.cap := by
  have := h.len_free hc; omega

theorem Inv.cap_pos_of_len (h : r.Inv) (hl : 0 < r.len) : 0 < r.cap := by
  rcases Nat.eq_zero_or_pos r.cap with h0 | h0
  · have := (h.len_zero_of_cap_zero h0).1; omega
  · exact h0

theorem Inv.cap_pos_of_free (h : r.Inv) (hl : 0 < r.free) : 0 < r.cap := by
  rcases Nat.eq_zero_or_pos r.cap with h0 | h0
  · have := (h.len_zero_of_cap_zero h0).2; omega
  · exact h0

theorem Inv.dataSliceLengths_eq (h : r.Inv) :
    r.dataSliceLengths = .ok (if r.tail ≥ r.head then (r.tail - r.head, 0) else (r.cap - r.head, r.tail)) := by
  unfold dataSliceLengths
  split
  · rfl
  · rw [usub_ok h.head_le]; rfl

theorem Inv.freeSliceLengths_eq (h : r.Inv) :
    r.freeSliceLengths = .ok (if r.tail < r.head then (0, r.head - r.tail) else (r.head, r.cap - r.tail)) := by
  unfold freeSliceLengths
  split
  · rfl
  · rw [usub_ok h.tail_le]; rfl

theorem Inv.lenC_eq (h : r.Inv) : r.lenC = .ok r.len := by
  unfold lenC len
  rw [h.dataSliceLengths_eq]
  split <;> simp [ok_bind, pure_eq_ok]

theorem Inv.freeC_eq (h : r.Inv) : r.freeC = .ok r.free := by
  unfold freeC free
  rw [h.freeSliceLengths_eq]
  split <;> simp [ok_bind, pure_eq_ok] <;> omega

/-! ### logical and physical positions -/

theorem phys_lt (h : r.Inv) {i : Nat} (hi : i < r.len) : r.phys i < r.cap := by
  have hc := h.cap_pos_of_len (by omega)
  have := h.head_lt hc; have := h.len_lt hc
  unfold phys; split <;> omega

theorem occupied_phys (h : r.Inv) {i : Nat} (hi : i < r.len) : r.occupied (r.phys i) := by
  have hc := h.cap_pos_of_len (by omega)
  have := h.head_lt hc; have := h.tail_lt hc
  unfold len at hi
  unfold occupied phys
  split <;> split <;> (split at hi) <;> omega

theorem occupied_exists (h : r.Inv) {j : Nat} (ho : r.occupied j) : ∃ i, i < r.len ∧ r.phys i = j := by
  unfold occupied at ho
  unfold len phys
  rcases h.bounds with ⟨h0, h1, h2⟩ | ⟨hh, ht⟩
  · simp [h1, h2] at ho
  · split at ho
    · refine ⟨j - r.head, ?_, ?_⟩
      · split <;> omega
      · split <;> omega
    · rcases ho with ho | ho
      · refine ⟨j - r.head, ?_, ?_⟩
        · split <;> omega
        · split <;> omega
      · refine ⟨r.cap - r.head + j, ?_, ?_⟩
        · split <;> omega
        · split <;> omega

theorem Inv.initL (h : r.Inv) {i : Nat} (hi : i < r.len) : (r.mem.cell (r.phys i)).isSome :=
  h.init _ (occupied_phys h hi)

theorem Inv.cellL (h : r.Inv) {i : Nat} (hi : i < r.len) : r.mem.cell (r.phys i) = some (r.mem.val (r.phys i)) :=
  Mem.cell_eq_some_val (h.initL hi)

theorem abs_length : r.abs.length = r.len := by simp [abs]

theorem getElem_abs {i : Nat} (hi : i < r.abs.length) : r.abs[i] = r.mem.val (r.phys i) := by
  simp [abs]

theorem getD_abs {i : Nat} (hi : i < r.len) : r.abs.getD i 0 = r.mem.val (r.phys i) := by
  simp [abs, List.getD_eq_getElem?_getD, hi]

/-! ### appending -/

/-- What every appending operation establishes: same allocation size, `head` unchanged, `tail`
advanced (with wrap) by `data.length`, the old logical cells untouched, the next `data.length`
logical cells hold `data`.  (Other free cells may have been overwritten — over-copy.) -/
structure Appended (r r' : RingBuffer) (data : List Byte) : Prop where
  cap : r'.cap = r.cap
  head : r'.head = r.head
  tail : r'.tail = (r.tail + data.length) % r.cap
  size : r'.mem.size = r.mem.size
  old : ∀ i, i < r.len → r'.mem.cell (r.phys i) = r.mem.cell (r.phys i)
  new : ∀ i, i < data.length → r'.mem.cell (r.phys (r.len + i)) = some (data.getD i 0)

theorem Appended.sound {data : List Byte} (hI : r.Inv) (hc : 0 < r.cap) (hf : data.length ≤ r.free)
    (h : Appended r r' data) : r'.Inv ∧ r'.abs = r.abs ++ data ∧ r'.len = r.len + data.length := by
  have hh := hI.head_lt hc; have ht := hI.tail_lt hc; have hlf := hI.len_free hc
  have hlen : r'.len = r.len + data.length := by
    have e1 := h.cap; have e2 := h.head; have e3 := h.tail
    rw [wrap_eq ht (by omega)] at e3
    unfold len at hlf ⊢
    rw [e1, e2, e3]
    split at hlf <;> split <;> split <;> omega
  have hphys : ∀ i, r'.phys i = r.phys i := by intro i; unfold phys; rw [h.cap, h.head]
  have hcell : ∀ i, i < r'.len → r'.mem.cell (r'.phys i) =
      if i < r.len then r.mem.cell (r.phys i) else some (data.getD (i - r.len) 0) := by
    intro i hi
    rw [hphys]
    split
    · exact h.old i ‹_›
    · have := h.new (i - r.len) (by omega)
      rwa [show r.len + (i - r.len) = i by omega] at this
  refine ⟨⟨?_, ?_, ?_⟩, ?_, hlen⟩
  · rw [h.size, h.cap]; exact hI.alloc
  · intro j hj
    have hb' : (r'.cap = 0 ∧ r'.head = 0 ∧ r'.tail = 0) ∨ (r'.head < r'.cap ∧ r'.tail < r'.cap) := by
      right; rw [h.cap, h.head, h.tail]; exact ⟨hh, Nat.mod_lt _ hc⟩
    -- logical form
    have hex : ∃ i, i < r'.len ∧ r'.phys i = j := by
      unfold occupied at hj
      unfold len phys
      rcases hb' with ⟨h0, _, _⟩ | ⟨hh', ht'⟩
      · rw [h.cap] at h0; omega
      · split at hj
        · refine ⟨j - r'.head, ?_, ?_⟩
          · split <;> omega
          · split <;> omega
        · rcases hj with hj | hj
          · refine ⟨j - r'.head, ?_, ?_⟩
            · split <;> omega
            · split <;> omega
          · refine ⟨r'.cap - r'.head + j, ?_, ?_⟩
            · split <;> omega
            · split <;> omega
    obtain ⟨i, hi, hij⟩ := hex
    rw [← hij, hcell i hi]
    split
    · exact hI.initL ‹_›
    · rfl
  · right; rw [h.cap, h.head, h.tail]; exact ⟨hh, Nat.mod_lt _ hc⟩
  · apply List.ext_getElem
    · simp [abs_length, hlen]
    · intro i h1 h2
      rw [getElem_abs]
      have hi : i < r'.len := by rwa [abs_length] at h1
      unfold Mem.val
      rw [hcell i hi]
      by_cases hil : i < r.len
      · simp only [hil, ↓reduceIte]
        rw [List.getElem_append_left (by rwa [abs_length])]
        rw [getElem_abs]; rfl
      · simp only [hil, ↓reduceIte]
        rw [List.getElem_append_right (by rw [abs_length]; omega)]
        simp only [abs_length, Option.getD_some]
        rw [List.getD_eq_getElem?_getD, List.getElem?_eq_getElem (by omega)]; rfl

end RingBuffer

end Zstd.Model
