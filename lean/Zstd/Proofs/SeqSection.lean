import Zstd.Proofs.SeqStream
import Zstd.Proofs.SeqTables
import Zstd.Proofs.EncCodes
import Zstd.Proofs.EncParse
import Zstd.Props.C14
import Zstd.Proofs.FseEndToEnd
/-
The sequences section of a compressed block, end to end against the STRICT specification:
the bytes `encode_seqnum` + `encodeSeqSectionReal` (modes byte, three table descriptions written by
`write_table` from tables built with `build_table_from_data(codes, 9/9/8, true)`, the interleaved
three-state bitstream of `encode_sequences`) are decoded by `Spec.decodeSequences` to exactly the
sequences, and the three tables become the tables in force.

Assembly of `SeqTables.seq_table_bridge` (tables and descriptions) and `SeqStream.seq_stream_decodes`
(the bitstream) plus the byte-level bookkeeping of `Spec.decodeSequences`.
-/
namespace Zstd.Proofs.SeqSection
open Zstd Zstd.Spec Zstd.Model Zstd.Model.Fse Zstd.Model.BitIO Zstd.Model.Enc
open Zstd.Proofs.BitIO Zstd.Proofs.SeqCoupled Zstd.Proofs.SeqStream Zstd.Proofs.SeqTables Zstd.Proofs.Enc
open Zstd.Proofs.FseEndToEnd (bitsLE_drop)

/-! ### bytes and bits -/

theorem length_byteBitsLE (b : Nat) : (byteBitsLE b).length = 8 := rfl

/-- cut a byte string at a byte boundary of its bit string -/
theorem bytes_split {l : List Nat} {A B : List Bool} (hb : Bytes l) (h : bitsLE l = A ++ B) {k : Nat}
    (hk : A.length = 8 * k) : Bytes (l.drop k) ∧ bitsLE (l.drop k) = B := by
  refine ⟨Bytes_drop hb k, ?_⟩
  rw [bitsLE_drop, h, ← hk, List.drop_left]

/-- the first byte of a byte string whose bit string starts with the 8 bits of `v` is `v` -/
theorem head_byte {l : List Nat} {B : List Bool} {v : Nat} (hb : Bytes l) (hv : v < 256)
    (h : bitsLE l = bitsOfLE 8 v ++ B) : ∃ rest, l = v :: rest ∧ Bytes rest ∧ bitsLE rest = B := by
  cases l with
  | nil =>
    have := congrArg List.length h
    simp [bitsLE] at this
    omega
  | cons b rest =>
    obtain ⟨hb0, hbr⟩ := Bytes_cons.mp hb
    simp only [bitsLE] at h
    have hsplit := List.append_inj h (by rw [length_byteBitsLE, length_bitsOfLE])
    have h1 : valLE (byteBitsLE b) = b := by
      have := valLE_bitsLE (l := [b]) (by intro x hx; simp at hx; omega)
      simpa [bitsLE, leNat] using this
    have h2 : valLE (bitsOfLE 8 v) = v := valLE_bitsOfLE (by omega)
    have : b = v := by rw [← h1, ← h2, hsplit.1]
    subst this
    exact ⟨rest, rfl, hbr, hsplit.2⟩

/-! ### the sequence count -/

/-- `parseSeqCount` only looks at the bytes it consumes -/
theorem parseSeqCount_append {l : List Nat} {n k : Nat} (h : parseSeqCount l = some (n, k)) (r : List Nat) :
    parseSeqCount (l ++ r) = some (n, k) := by
  cases l with
  | nil => simp [parseSeqCount] at h
  | cons b0 rest =>
    simp only [List.cons_append, parseSeqCount] at h ⊢
    split
    · simp_all
    · split
      · simp_all
      · split
        · rename_i h0 h1 h2
          simp only [h0, h1, h2, if_false, if_true] at h
          cases rest with
          | nil => simp at h
          | cons b1 t => simpa using h
        · rename_i h0 h1 h2
          simp only [h0, h1, h2, if_false] at h
          cases rest with
          | nil => simp at h
          | cons b1 t =>
            cases t with
            | nil => simp at h
            | cons b2 t' => simpa using h

/-! ### facts about one coded sequence -/

/-- what the C14 theorems give for a sequence with in-range values: `c` is the triple of
`(code, extra value, extra bits)` results and `s` the Spec sequence it stands for -/
structure CodedFacts (c : CodedSeq) (s : Spec.Seq) : Prop where
  llRow : ∃ base, Spec.llCodeTable[c.ll.1]? = some (base, c.ll.2.2) ∧ s.ll = base + c.ll.2.1
  mlRow : ∃ base, Spec.mlCodeTable[c.ml.1]? = some (base, c.ml.2.2) ∧ s.ml = base + c.ml.2.1
  ofRow : c.of.2.2 = c.of.1 ∧ c.of.1 ≤ 31 ∧ s.ov = Spec.offsetValue c.of.1 c.of.2.1
  llFit : c.ll.2.1 < 2 ^ c.ll.2.2 ∧ c.ll.2.2 ≤ 16
  mlFit : c.ml.2.1 < 2 ^ c.ml.2.2 ∧ c.ml.2.2 ≤ 16
  ofFit : c.of.2.1 < 2 ^ c.of.2.2

theorem llCodeTable_length : Spec.llCodeTable.length = 36 := by decide
theorem mlCodeTable_length : Spec.mlCodeTable.length = 53 := by decide

theorem CodedFacts.ll_le {c : CodedSeq} {s : Spec.Seq} (h : CodedFacts c s) : c.ll.1 ≤ 35 := by
  obtain ⟨base, hb, _⟩ := h.llRow
  have := (List.getElem?_eq_some_iff.mp hb).1
  rw [llCodeTable_length] at this; omega

theorem CodedFacts.ml_le {c : CodedSeq} {s : Spec.Seq} (h : CodedFacts c s) : c.ml.1 ≤ 52 := by
  obtain ⟨base, hb, _⟩ := h.mlRow
  have := (List.getElem?_eq_some_iff.mp hb).1
  rw [mlCodeTable_length] at this; omega

/-- the Spec sequence of a Rust sequence -/
def specSeq (r : RSeq) : Spec.Seq := ⟨r.ll, r.ml, r.of⟩

/-- in-range values: what `sequence_codes_in_range` (C16) establishes for every valid parse -/
def InRange (r : RSeq) : Prop := r.ll ≤ 131071 ∧ 3 ≤ r.ml ∧ r.ml ≤ 131074 ∧ 1 ≤ r.of ∧ r.of < 2 ^ 32

theorem codedFacts_of_inRange {r : RSeq} (hr : InRange r) {a b c : Nat × Nat × Nat}
    (ha : encodeLL r.ll = .ok a) (hb : encodeML r.ml = .ok b) (hc : encodeOffset r.of = .ok c) :
    CodedFacts ⟨a, b, c⟩ (specSeq r) := by
  obtain ⟨h1, h2, h3, h4, h5⟩ := hr
  obtain ⟨c1, e1, b1, base1, g1, gc1, gl1, gs1, ge1⟩ := Props.C14.ll_roundtrip r.ll h1
  obtain ⟨_, _, _, g1', _, _, gb1⟩ := encodeLL_ok r.ll (by omega)
  obtain ⟨c2, e2, b2, base2, g2, gc2, gl2, gs2, ge2⟩ := Props.C14.ml_roundtrip r.ml h2 h3
  obtain ⟨_, _, _, g2', _, _, gb2⟩ := encodeML_ok r.ml h2 (by omega)
  rw [g1] at ha g1'; rw [g2] at hb g2'
  cases ha; cases hb
  simp only [Except.ok.injEq, Prod.mk.injEq] at g1' g2'
  obtain ⟨cc, ee, bb⟩ := c
  obtain ⟨k1, k2, k3, k4, _, k6⟩ := Props.C14.of_roundtrip r.of cc ee bb h4 h5 hc
  have hll := Props.C14.ll_dec_eq_rfc c1 (by omega)
  have hml := Props.C14.ml_dec_eq_rfc c2 (by omega)
  rw [gl1] at hll; rw [gl2] at hml
  simp only [Except.ok.injEq] at hll hml
  have hget1 : Spec.llCodeTable[c1]? = some (base1, b1) := by
    rw [List.getElem?_eq_getElem (by rw [llCodeTable_length]; omega), hll]
    simp [List.getD, List.getElem?_eq_getElem (show c1 < Spec.llCodeTable.length by rw [llCodeTable_length]; omega)]
  have hget2 : Spec.mlCodeTable[c2]? = some (base2, b2) := by
    rw [List.getElem?_eq_getElem (by rw [mlCodeTable_length]; omega), hml]
    simp [List.getD, List.getElem?_eq_getElem (show c2 < Spec.mlCodeTable.length by rw [mlCodeTable_length]; omega)]
  refine ⟨⟨base1, hget1, by simp [specSeq]; omega⟩, ⟨base2, hget2, by simp [specSeq]; omega⟩,
    ⟨k4, k1, by simp [specSeq]; omega⟩, ⟨ge1, ?_⟩, ⟨ge2, ?_⟩, by simp only; rw [k4]; exact k3⟩
  · show b1 ≤ 16
    have := g1'.2.2; omega
  · show b2 ≤ 16
    have := g2'.2.2; omega

/-! ### the section -/

theorem modes_facts : (168 : Nat) % 4 = 0 ∧ 168 / 64 = 2 ∧ 168 / 16 % 4 = 2 ∧ 168 / 4 % 4 = 2 := by decide

/-- **`encode_decode_sequences`, coded form.**  For every non-empty list of coded sequences with the C14
facts: count, modes byte, the three table descriptions and the bitstream are written without a fault, and
the strict `Spec.decodeSequences` decodes them to exactly the sequences, installing the three tables. -/
theorem encode_decode_sequences_coded (ps : List (CodedSeq × Spec.Seq)) (hne : ps ≠ [])
    (hn : ps.length ≤ 0xFFFF + 0x7F00) (hf : ∀ p ∈ ps, CodedFacts p.1 p.2) (e : Spec.Entropy) :
    ∃ cnt body LL OF ML, encodeSeqnum ps.length = .ok cnt ∧
      encodeSeqSectionReal (ps.map (·.1)) = .ok body ∧ Bytes (cnt ++ body) ∧
      Spec.decodeSequences (cnt ++ body) e
        = some (ps.map (·.2), { e with ll := some LL, of := some OF, ml := some ML }) := by
  have hlen1 : 1 ≤ ps.length := by
    cases ps with
    | nil => exact absurd rfl hne
    | cons _ _ => simp
  obtain ⟨cnt, hcnt, hcb, _, hparse⟩ := Props.C14.seqnum_roundtrip ps.length 168 hlen1 hn
  -- the three tables
  have hcne : ∀ (f : CodedSeq → Nat), (ps.map (·.1)).map f ≠ [] := by
    intro f h
    simp at h
    exact hne h
  obtain ⟨llT, alL, prL, LL, hbl, hLL, hcL, hdL⟩ := seq_table_bridge ((ps.map (·.1)).map (·.ll.1)) 9 35
    (Or.inl ⟨rfl, rfl⟩) (hcne _) (by
      intro c hc
      simp only [List.mem_map] at hc
      obtain ⟨_, ⟨p, hp, rfl⟩, rfl⟩ := hc
      exact (hf p hp).ll_le)
  obtain ⟨mlT, alM, prM, ML, hbm, hML, hcM, hdM⟩ := seq_table_bridge ((ps.map (·.1)).map (·.ml.1)) 9 52
    (Or.inr (Or.inl ⟨rfl, rfl⟩)) (hcne _) (by
      intro c hc
      simp only [List.mem_map] at hc
      obtain ⟨_, ⟨p, hp, rfl⟩, rfl⟩ := hc
      exact (hf p hp).ml_le)
  obtain ⟨ofT, alO, prO, OF, hbo, hOF, hcO, hdO⟩ := seq_table_bridge ((ps.map (·.1)).map (·.of.1)) 8 31
    (Or.inr (Or.inr ⟨rfl, rfl⟩)) (hcne _) (by
      intro c hc
      simp only [List.mem_map] at hc
      obtain ⟨_, ⟨p, hp, rfl⟩, rfl⟩ := hc
      exact (hf p hp).ofRow.2.1)
  -- the writer chain
  obtain ⟨w0, hw0, hi0⟩ := bitWriter_refines (v := 168) (n := 8) WInv_new (by decide) (by decide)
  simp only [List.nil_append] at hi0
  obtain ⟨w1, D1, hw1, hi1, ha1, hr1⟩ := hdL hi0 (by simp)
  obtain ⟨w2, D2, hw2, hi2, ha2, hr2⟩ := hdO hi1 (by simp [List.length_append]; omega)
  obtain ⟨w3, D3, hw3, hi3, ha3, hr3⟩ := hdM hi2 (by simp [List.length_append]; omega)
  obtain ⟨w4, S, hw4, hi4, ha4, hSne, hdec⟩ := seq_stream_decodes hcL hcM hcO ps hne (by
    intro p hp
    have h := hf p hp
    exact ⟨List.mem_map.mpr ⟨p.1, List.mem_map.mpr ⟨p, hp, rfl⟩, rfl⟩,
           List.mem_map.mpr ⟨p.1, List.mem_map.mpr ⟨p, hp, rfl⟩, rfl⟩,
           List.mem_map.mpr ⟨p.1, List.mem_map.mpr ⟨p, hp, rfl⟩, rfl⟩,
           h.llRow, h.mlRow, h.ofRow, h.llFit, h.mlFit, h.ofFit⟩) hi3
  obtain ⟨out, hdump, hbits, hbytes⟩ := bitWriter_dump hi4 (by
    simp only [List.length_append, length_bitsOfLE] at ha4 ⊢; omega)
  -- the bytes
  have hbody : encodeSeqSectionReal (ps.map (·.1)) = .ok out.toList := by
    simp only [encodeSeqSectionReal, Gen.llEncMaxLog, Gen.mlEncMaxLog, Gen.ofEncMaxLog, Gen.seqEncAvoidZeroBits, hbl, hbm, hbo]
    show dumpBytes _ = _
    have h168 : (2 * 64 + 2 * 16 + 2 * 4 : Nat) = 168 := by decide
    simp only [h168, hw0, hw1, hw2, hw3, hw4, dumpBytes, hdump]
  obtain ⟨rest, hout, hbrest, hrestbits⟩ := head_byte (v := 168) (B := D1 ++ D2 ++ D3 ++ S) hbytes (by decide)
    (by simp only [hbits, List.append_assoc])
  -- the three descriptions, read by the Spec
  have hd1 := hr1 rest (D2 ++ D3 ++ S) hbrest (by simp only [hrestbits, List.append_assoc])
  obtain ⟨k1, hk1⟩ : ∃ k, D1.length = 8 * k := ⟨D1.length / 8, by omega⟩
  obtain ⟨k2, hk2⟩ : ∃ k, D2.length = 8 * k := ⟨D2.length / 8, by omega⟩
  obtain ⟨k3, hk3⟩ : ∃ k, D3.length = 8 * k := ⟨D3.length / 8, by omega⟩
  have hu1 : D1.length / 8 = k1 := by omega
  have hu2 : D2.length / 8 = k2 := by omega
  have hu3 : D3.length / 8 = k3 := by omega
  obtain ⟨hb1, hbits1⟩ := bytes_split (A := D1) (B := D2 ++ D3 ++ S) hbrest
    (by simp only [hrestbits, List.append_assoc]) hk1
  have hd2 := hr2 (rest.drop k1) (D3 ++ S) hb1 (by simp only [hbits1, List.append_assoc])
  obtain ⟨hb2, hbits2⟩ := bytes_split (A := D1 ++ D2) (B := D3 ++ S) hbrest
    (by simp only [hrestbits, List.append_assoc]) (k := k1 + k2) (by simp only [List.length_append]; omega)
  have hd3 := hr3 (rest.drop (k1 + k2)) S hb2 hbits2
  obtain ⟨hb3, hbits3⟩ := bytes_split (A := D1 ++ D2 ++ D3) (B := S) hbrest
    hrestbits (k := k1 + k2 + k3) (by simp only [List.length_append]; omega)
  obtain ⟨bits, sLL, b1, sOF, b2, sML, b3, hbw, hiL, hiO, hiM, hloop⟩ := hdec _ hb3 hbits3
  refine ⟨cnt, out.toList, LL, OF, ML, hcnt, hbody, ?_, ?_⟩
  · exact Bytes_append.mpr ⟨hcb, hbytes⟩
  · rw [hout]
    have hp : parseSeqCount (cnt ++ 168 :: rest) = some (ps.length, cnt.length) := by
      have := parseSeqCount_append hparse rest
      simpa [List.append_assoc] using this
    have hn0 : ps.length ≠ 0 := by omega
    obtain ⟨m1, m2, m3, m4⟩ := modes_facts
    simp only [Spec.decodeSequences, hp, hn0, if_false, List.drop_left, m1, m2, m3, m4,
      readSeqTable, ne_eq, not_true_eq_false, if_true,
      show ¬ ((2 : Nat) = 0) by decide, show ¬ ((2 : Nat) = 1) by decide,
      hd1, hLL, hu1, Option.map_some, hd2, hOF, hu2, hd3, hML, hu3, hbw, hiL, hiO, hiM, hloop,
      List.isEmpty_nil]

/-! ### from Rust sequences -/

/-- the coded list `compress_block` builds (three `mapMExcept`s, zipped) as a list of pairs -/
theorem coded_pairs : ∀ (rseqs : List RSeq) (lls mls ofs : List (Nat × Nat × Nat)),
    (∀ r ∈ rseqs, InRange r) →
    mapMExcept (fun s : RSeq => encodeLL s.ll) rseqs = .ok lls →
    mapMExcept (fun s : RSeq => encodeML s.ml) rseqs = .ok mls →
    mapMExcept (fun s : RSeq => encodeOffset s.of) rseqs = .ok ofs →
    ∃ ps : List (CodedSeq × Spec.Seq),
      ps.map (·.1) = (lls.zip (mls.zip ofs)).map (fun (a, b, c) => CodedSeq.mk a b c) ∧
      ps.map (·.2) = rseqs.map specSeq ∧ ps.length = rseqs.length ∧ ∀ p ∈ ps, CodedFacts p.1 p.2 := by
  intro rseqs
  induction rseqs with
  | nil =>
    intro lls mls ofs _ h1 h2 h3
    simp only [mapMExcept, Except.ok.injEq] at h1 h2 h3
    subst h1; subst h2; subst h3
    exact ⟨[], rfl, rfl, rfl, by simp⟩
  | cons r rest ih =>
    intro lls mls ofs hr h1 h2 h3
    simp only [mapMExcept] at h1 h2 h3
    split at h1
    · cases h1
    · rename_i a ha
      split at h1
      · cases h1
      · rename_i as has
        split at h2
        · cases h2
        · rename_i b hb
          split at h2
          · cases h2
          · rename_i bs hbs
            split at h3
            · cases h3
            · rename_i c hc
              split at h3
              · cases h3
              · rename_i cs hcs
                simp only [Except.ok.injEq] at h1 h2 h3
                subst h1; subst h2; subst h3
                obtain ⟨ps, p1, p2, p3, p4⟩ := ih as bs cs (fun x hx => hr x (List.mem_cons_of_mem _ hx)) has hbs hcs
                refine ⟨(⟨a, b, c⟩, specSeq r) :: ps, ?_, ?_, ?_, ?_⟩
                · simp [p1]
                · simp [p2]
                · simp [p3]
                · intro p hp
                  rw [List.mem_cons] at hp
                  rcases hp with rfl | hp
                  · exact codedFacts_of_inRange (hr r (List.mem_cons_self ..)) ha hb hc
                  · exact p4 p hp

/-- **`encode_decode_sequences`.**  For every non-empty list of Rust sequences with in-range values
(literal length ≤ 131071, 3 ≤ match length ≤ 131074, 1 ≤ offset value < 2^32; at most 98 047 of them):
the three code mappings succeed, and what `compress_block` appends after the literals section — the
sequence count, the modes byte, the LL/OF/ML table descriptions of the tables
`build_table_from_data(codes, 9/9/8, true)` and the `encode_sequences` bitstream — is decoded by the
strict `Spec.decodeSequences` to exactly those sequences (stream exactly consumed), with the three
tables as the tables now in force. -/
theorem encode_decode_sequences (rseqs : List RSeq) (hne : rseqs ≠ []) (hn : rseqs.length ≤ 0xFFFF + 0x7F00)
    (hr : ∀ r ∈ rseqs, InRange r) (e : Spec.Entropy) :
    ∃ lls mls ofs cnt body LL OF ML,
      mapMExcept (fun s : RSeq => encodeLL s.ll) rseqs = .ok lls ∧
      mapMExcept (fun s : RSeq => encodeML s.ml) rseqs = .ok mls ∧
      mapMExcept (fun s : RSeq => encodeOffset s.of) rseqs = .ok ofs ∧
      encodeSeqnum rseqs.length = .ok cnt ∧
      encodeSeqSectionReal ((lls.zip (mls.zip ofs)).map (fun (a, b, c) => CodedSeq.mk a b c)) = .ok body ∧
      Bytes (cnt ++ body) ∧
      Spec.decodeSequences (cnt ++ body) e
        = some (rseqs.map specSeq, { e with ll := some LL, of := some OF, ml := some ML }) := by
  obtain ⟨lls, h1, _⟩ := mapMExcept_ok (fun s : RSeq => encodeLL s.ll) rseqs (fun r hrm => by
    obtain ⟨c, x, b, h, _⟩ := encodeLL_ok r.ll (by have := (hr r hrm).1; omega)
    exact ⟨_, h⟩)
  obtain ⟨mls, h2, _⟩ := mapMExcept_ok (fun s : RSeq => encodeML s.ml) rseqs (fun r hrm => by
    obtain ⟨c, x, b, h, _⟩ := encodeML_ok r.ml (hr r hrm).2.1 (by have := (hr r hrm).2.2.1; omega)
    exact ⟨_, h⟩)
  obtain ⟨ofs, h3, _⟩ := mapMExcept_ok (fun s : RSeq => encodeOffset s.of) rseqs (fun r hrm => by
    obtain ⟨c, x, h, _⟩ := encodeOffset_ok r.of (hr r hrm).2.2.2.1 (hr r hrm).2.2.2.2
    exact ⟨_, h⟩)
  obtain ⟨ps, p1, p2, p3, p4⟩ := coded_pairs rseqs lls mls ofs hr h1 h2 h3
  have hpne : ps ≠ [] := by
    intro h; rw [h] at p3; simp at p3
    exact hne (List.eq_nil_of_length_eq_zero p3.symm)
  obtain ⟨cnt, body, LL, OF, ML, hc, hb, hby, hd⟩ := encode_decode_sequences_coded ps hpne (by omega) p4 e
  rw [p3] at hc; rw [p1] at hb; rw [p2] at hd
  exact ⟨lls, mls, ofs, cnt, body, LL, OF, ML, h1, h2, h3, hc, hb, hby, hd⟩

end Zstd.Proofs.SeqSection
