import Zstd.Proofs.FrameDecoderLoops
/-
Helper lemmas at the level of the public operations of `FrameDecoder`: the step relation `FStep` /
`DStep` (what any operation may do to the state), `decode_from_to`, `decode_all`, streaming read.
-/
set_option linter.unusedSectionVars false
namespace Zstd.Model
open Zstd

variable {σ : Type} [BlockDec σ] [BlockContract σ]

/-- One step of the frame state under ANY operation (decode or drain): `dl` are the bytes handed to
the caller.  The byte stream `hashed ++ content` only ever grows at the back; drains move bytes from
the front of `content` to the back of `hashed`. -/
structure FStep (st st' : FState σ) (dl : Array Nat) : Prop where
  header : st'.header = st.header
  usingDict : st'.usingDict = st.usingDict
  dict : st'.buf.dict = st.buf.dict
  window : st'.buf.window = st.buf.window
  hashed : st'.buf.hashed = st.buf.hashed ++ dl
  stream : ∃ x, dl ++ st'.buf.content = st.buf.content ++ x
  bytesRead_le : st.bytesRead ≤ st'.bytesRead
  blockCounter_le : st.blockCounter ≤ st'.blockCounter
  finished_mono : st.finished = true → st'.finished = true
  checksum_keep : st'.finished = false → st'.checksum = st.checksum

theorem FStep.refl (st : FState σ) : FStep st st #[] :=
  ⟨rfl, rfl, rfl, rfl, by simp, ⟨#[], by simp⟩, Nat.le_refl _, Nat.le_refl _, id, fun _ => rfl⟩

theorem FStep.trans {a b c : FState σ} {d1 d2 : Array Nat} (h1 : FStep a b d1) (h2 : FStep b c d2) :
    FStep a c (d1 ++ d2) := by
  obtain ⟨x, hx⟩ := h1.stream
  obtain ⟨y, hy⟩ := h2.stream
  refine ⟨h2.header.trans h1.header, h2.usingDict.trans h1.usingDict, h2.dict.trans h1.dict,
    h2.window.trans h1.window, by rw [h2.hashed, h1.hashed, Array.append_assoc],
    ⟨x ++ y, by rw [Array.append_assoc, hy, ← Array.append_assoc, hx, Array.append_assoc]⟩,
    Nat.le_trans h1.bytesRead_le h2.bytesRead_le, Nat.le_trans h1.blockCounter_le h2.blockCounter_le,
    fun h => h2.finished_mono (h1.finished_mono h), ?_⟩
  intro hf
  have hb : b.finished = false := by
    cases hbf : b.finished with
    | false => rfl
    | true => rw [h2.finished_mono hbf] at hf; cases hf
  rw [h2.checksum_keep hf, h1.checksum_keep hb]

theorem LoopStep.fstep {st st' : FState σ} (h : LoopStep st st') : FStep st st' #[] := by
  obtain ⟨x, hx⟩ := h.appends
  exact ⟨h.header, h.usingDict, hx.dict, hx.window, by simp [hx.hashed], ⟨x, by simp [hx.content]⟩,
    h.bytesRead_le, h.blockCounter_le, h.finished_mono, h.checksum_keep⟩

theorem FStep.take (st : FState σ) (k : Nat) :
    FStep st { st with buf := (st.buf.take k).2 } (st.buf.take k).1 :=
  ⟨rfl, rfl, rfl, rfl, rfl, ⟨#[], by rw [DBuf.take_partition]; simp⟩, Nat.le_refl _, Nat.le_refl _, id, fun _ => rfl⟩

theorem FStep.wf {st st' : FState σ} {dl : Array Nat} (h : FStep st st' dl) (hw : st.WF) : st'.WF := by
  intro hf
  have : st.finished = false := by
    cases hs : st.finished with
    | false => rfl
    | true => rw [h.finished_mono hs] at hf; cases hf
  rw [h.checksum_keep hf, hw this]

/-- the same, one level up: the whole decoder (dictionaries and limit never change) -/
def DStep (d d' : Decoder σ) (dl : Array Nat) : Prop :=
  d'.dicts = d.dicts ∧ d'.maxWindow = d.maxWindow ∧
  ((d.state = none ∧ d'.state = none ∧ dl = #[]) ∨
   ∃ st st', d.state = some st ∧ d'.state = some st' ∧ FStep st st' dl)

theorem DStep.refl (d : Decoder σ) : DStep d d #[] := by
  refine ⟨rfl, rfl, ?_⟩
  cases h : d.state with
  | none => exact Or.inl ⟨rfl, rfl, rfl⟩
  | some st => exact Or.inr ⟨st, st, rfl, rfl, FStep.refl st⟩

theorem DStep.trans {a b c : Decoder σ} {d1 d2 : Array Nat} (h1 : DStep a b d1) (h2 : DStep b c d2) :
    DStep a c (d1 ++ d2) := by
  refine ⟨h2.1.trans h1.1, h2.2.1.trans h1.2.1, ?_⟩
  rcases h1.2.2 with ⟨ha, hb, rfl⟩ | ⟨st, st', ha, hb, hs⟩
  · rcases h2.2.2 with ⟨_, hc, rfl⟩ | ⟨st2, _, hb2, _, _⟩
    · exact Or.inl ⟨ha, hc, by simp⟩
    · rw [hb] at hb2; cases hb2
  · rcases h2.2.2 with ⟨hb2, _, _⟩ | ⟨st2, st2', hb2, hc, hs2⟩
    · rw [hb] at hb2; cases hb2
    · rw [hb] at hb2; cases hb2
      exact Or.inr ⟨st, st2', ha, hc, hs.trans hs2⟩

theorem DStep.hashed {d d' : Decoder σ} {dl : Array Nat} (h : DStep d d' dl) : d'.hashed = d.hashed ++ dl := by
  rcases h.2.2 with ⟨ha, hb, rfl⟩ | ⟨st, st', ha, hb, hs⟩
  · simp [Decoder.hashed, ha, hb]
  · simp [Decoder.hashed, ha, hb, hs.hashed]

/-- every drain operation is a step delivering exactly the bytes it returns -/
theorem applyDrain_dstep (d : Decoder σ) (op : DrainOp) : DStep d (applyDrain d op).1 (applyDrain d op).2 := by
  rcases applyDrain_take d op with ⟨hn, he⟩ | ⟨st, k, hs, hk, he⟩
  · rw [he]; exact DStep.refl d
  · rw [he]; exact ⟨rfl, rfl, Or.inr ⟨st, _, hs, rfl, FStep.take st k⟩⟩

/-- `decode_blocks` through the loop -/
theorem Decoder.decodeBlocks_some (d : Decoder σ) (st : FState σ) (s : Src) (strat : Strategy) (h : d.state = some st) :
    d.decodeBlocks s strat =
      ({ d with state := some (decodeBlocksLoop strat st.buf.content.size st.blockCounter (s.length + 1) st s).1 },
        match (decodeBlocksLoop strat st.buf.content.size st.blockCounter (s.length + 1) st s).2 with
        | .ok s' => .ok (s', (decodeBlocksLoop strat st.buf.content.size st.blockCounter (s.length + 1) st s).1.finished)
        | .err e => .err e
        | .fault f => .fault f) := by
  simp only [Decoder.decodeBlocks, h]
  split <;> rename_i heq <;> simp [heq]

theorem Decoder.decodeBlocks_dstep (d : Decoder σ) (s : Src) (strat : Strategy) :
    DStep d (d.decodeBlocks s strat).1 #[] := by
  cases h : d.state with
  | none => simp only [Decoder.decodeBlocks, h]; exact DStep.refl d
  | some st =>
    rw [Decoder.decodeBlocks_some d st s strat h]
    exact ⟨rfl, rfl, Or.inr ⟨st, _, h, rfl, (decodeBlocksLoop_step _ _ _ _ _ _).fstep⟩⟩



theorem blockBody_bytesRead_upper (st : FState σ) (bh : BHeader) (body : List Nat)
    (h1 : bh.btype = 1 → bh.contentSize = 1) (h0 : bh.btype = 0 → bh.contentSize = bh.decompressedSize) :
    (blockBody st bh body).1.bytesRead ≤ st.bytesRead + (3 + bh.contentSize) := by
  simp only [blockBody]
  split
  · rename_i ht; simp [h1 ht]
  · split
    · rename_i ht; simp [h0 ht]; omega
    · split <;> simp <;> omega

/-- whatever happens, a block never counts more bytes than the source holds -/
theorem decodeOneBlock_bytesRead_upper (st : FState σ) (s : Src) :
    (decodeOneBlock st s).1.bytesRead ≤ st.bytesRead + s.length := by
  rw [decodeOneBlock_eq]
  split
  · simp
  · split
    · simp
    · rename_i bh hp
      have hpo := parseBlockHeader_ok _ _ _ _ hp
      split
      · simp; omega
      · have := blockBody_bytesRead_upper st bh ((s.drop 3).take bh.contentSize) hpo.2.2.1 hpo.2.2.2
        simp only
        omega

/-- one unfolding of the `decode_from_to` loop -/
theorem decodeFromToLoop_succ (fuel : Nat) (st : FState σ) (s : Src) :
    decodeFromToLoop (fuel + 1) st s =
      if s.length < 3 then (st, .ok ())
      else match parseBlockHeader (s.getD 0 0) (s.getD 1 0) (s.getD 2 0) with
        | .error e => (st, .err e)
        | .ok bh =>
          if s.length < 3 + bh.contentSize then (st, .ok ())
          else match decodeOneBlock st s with
            | (st1, .err e) => (st1, .err e)
            | (st1, .fault f) => (st1, .fault f)
            | (st1, .ok (_, s1)) =>
              if bh.last then
                if st1.header.checksumFlag ∧ 4 ≤ s1.length then
                  ({ st1 with finished := true, bytesRead := st1.bytesRead + 4, checksum := some (leNat (s1.take 4)) }, .ok ())
                else ({ st1 with finished := true }, .ok ())
              else decodeFromToLoop fuel st1 s1 := by
  rw [decodeFromToLoop]
  have e3 : ((s.take 3).length < 3) = (s.length < 3) := by rw [List.length_take]; apply propext; omega
  simp only [e3]
  by_cases h3 : s.length < 3
  · simp only [h3, if_true]
  · simp only [h3, if_false]
    cases hp : parseBlockHeader (s.getD 0 0) (s.getD 1 0) (s.getD 2 0) with
    | error e => rfl
    | ok bh =>
      have ec : (((s.drop 3).take bh.contentSize).length < bh.contentSize) = (s.length < 3 + bh.contentSize) := by
        rw [List.length_take, List.length_drop]; apply propext; omega
      simp only [ec]
      by_cases hc : s.length < 3 + bh.contentSize
      · simp only [hc, if_true]
      · simp only [hc, if_false]
        cases hd : decodeOneBlock st s with
        | mk st1 o =>
          cases o with
          | err e => rfl
          | fault f => rfl
          | ok p =>
            obtain ⟨bh', s1⟩ := p
            have e4 : ((s1.take 4).length ≥ 4) = (4 ≤ s1.length) := by
              rw [List.length_take]; apply propext; omega
            simp only [e4]

theorem decodeFromToLoop_step (fuel : Nat) (st : FState σ) (s : Src) :
    LoopStep st (decodeFromToLoop fuel st s).1 ∧
    (decodeFromToLoop fuel st s).1.bytesRead ≤ st.bytesRead + s.length := by
  induction fuel generalizing st s with
  | zero => exact ⟨LoopStep.refl st, Nat.le_add_right _ _⟩
  | succ fuel ih =>
    rw [decodeFromToLoop_succ]
    split
    · exact ⟨LoopStep.refl st, Nat.le_add_right _ _⟩
    · split
      · exact ⟨LoopStep.refl st, Nat.le_add_right _ _⟩
      · split
        · exact ⟨LoopStep.refl st, Nat.le_add_right _ _⟩
        · have hb := (decodeOneBlock_step st s).loopStep
          have hu := decodeOneBlock_bytesRead_upper st s
          split <;> rename_i heq <;> rw [heq] at hb hu
          · exact ⟨hb, hu⟩
          · exact ⟨hb, hu⟩
          · rename_i st1 bh' s1
            simp only at hb hu
            obtain ⟨hlen, hs1, -, -, hbr, -⟩ := decodeOneBlock_ok _ _ _ _ _ heq
            have hl1 : s1.length = s.length - (3 + bh'.contentSize) := by rw [hs1, List.length_drop]
            have hfin : ∀ st2 : FState σ, st2.header = st1.header → st2.usingDict = st1.usingDict →
                st2.buf = st1.buf → st1.bytesRead ≤ st2.bytesRead → st2.blockCounter = st1.blockCounter →
                st2.finished = true → LoopStep st st2 := by
              intro st2 h1 h2 h3 h4 h5 h6
              refine hb.trans ⟨h1, h2, ⟨#[], by rw [h3]; exact DBuf.Appends.refl _⟩, h4, by omega, fun _ => h6, ?_⟩
              intro h; rw [h6] at h; cases h
            split
            · split
              · rename_i hc
                exact ⟨hfin _ rfl rfl rfl (Nat.le_add_right _ _) rfl rfl, by simp only; omega⟩
              · exact ⟨hfin _ rfl rfl rfl (Nat.le_refl _) rfl rfl, hu⟩
            · have := ih st1 s1
              exact ⟨hb.trans this.1, by omega⟩

/-- `fuel_suffices` for the `decode_from_to` loop -/
theorem decodeFromToLoop_fuel (f1 f2 : Nat) (st : FState σ) (s : Src) (h1 : s.length < f1) (h2 : s.length < f2) :
    decodeFromToLoop f1 st s = decodeFromToLoop f2 st s := by
  induction f1 generalizing f2 st s with
  | zero => omega
  | succ f1 ih =>
    obtain ⟨f2, rfl⟩ : ∃ f, f2 = f + 1 := ⟨f2 - 1, by omega⟩
    rw [decodeFromToLoop_succ, decodeFromToLoop_succ]
    split
    · rfl
    · split
      · rfl
      · split
        · rfl
        · split
          · rfl
          · rfl
          · rename_i st1 bh' s1 heq
            obtain ⟨hlen, rfl, -⟩ := decodeOneBlock_ok _ _ _ _ _ heq
            split
            · rfl
            · exact ih _ _ _ (by rw [List.length_drop]; omega) (by rw [List.length_drop]; omega)



/-- the frame header reader consumes exactly the bytes it reports (at least 5), from the front -/
theorem readFrameHeader_ok (s : Src) (h : FHeader) (n : Nat) (rest : Src)
    (hr : readFrameHeader s = .ok (h, n, rest)) : 5 ≤ n ∧ n ≤ s.length ∧ rest = s.drop n := by
  simp only [readFrameHeader] at hr
  split at hr
  · cases hr
  · rename_i m s1 h4
    rw [readExact_eq_some] at h4
    obtain ⟨hl4, rfl, rfl⟩ := h4
    split at hr
    · split at hr <;> cases hr
    · split at hr
      · cases hr
      · split at hr
        · cases hr
        · rename_i d s2 h1
          rw [readExact_eq_some, List.length_drop] at h1
          obtain ⟨hl1, rfl, rfl⟩ := h1
          split at hr
          · cases hr
          · rename_i wd s3 hw
            split at hr
            · cases hr
            · rename_i db s4 hdid
              rw [readExact_eq_some] at hdid
              obtain ⟨hld, rfl, rfl⟩ := hdid
              split at hr
              · cases hr
              · rename_i fb s5 hf
                rw [readExact_eq_some] at hf
                obtain ⟨hlf, rfl, rfl⟩ := hf
                simp only [Except.ok.injEq, Prod.mk.injEq] at hr
                obtain ⟨-, rfl, rfl⟩ := hr
                split at hw
                · rename_i hsingle
                  simp only [Option.some.injEq, Prod.mk.injEq] at hw
                  obtain ⟨-, rfl⟩ := hw
                  simp only [List.length_drop, if_pos hsingle] at hld hlf ⊢
                  refine ⟨by omega, by omega, ?_⟩
                  simp only [List.drop_drop]
                · rename_i hsingle
                  rw [readExact_eq_some] at hw
                  obtain ⟨hlw, -, rfl⟩ := hw
                  simp only [List.length_drop, if_neg hsingle] at hld hlf hlw ⊢
                  refine ⟨by omega, by omega, ?_⟩
                  simp only [List.drop_drop]


/-- the state a successful (state-replacing) reset leaves -/
theorem resetCore_replace (dicts : List (Dict σ)) (mw : Nat) (s : Src) (st : FState σ) (o : Out Src)
    (h : resetCore dicts mw s = .replace st o) :
    st.finished = false ∧ st.checksum = none ∧ st.blockCounter = 0 ∧ st.buf.hashed = #[] ∧
    st.buf.content = #[] ∧ st.buf.totalOut = 0 ∧ 5 ≤ st.bytesRead ∧ st.bytesRead ≤ s.length ∧
    (∀ rest, o = .ok rest → rest = s.drop st.bytesRead) ∧ (∀ f, o ≠ .fault f) := by
  simp only [resetCore] at h
  split at h
  · cases h
  · rename_i hd n rest hr
    obtain ⟨h5, hn, hrest⟩ := readFrameHeader_ok _ _ _ _ hr
    split at h
    · cases h
    · split at h
      · cases h
      · simp only [applyDictChoice, freshState, FState.withDict] at h
        split at h
        · cases h
          exact ⟨rfl, rfl, rfl, rfl, rfl, rfl, h5, hn, fun r hr => (by cases hr; exact hrest), fun f hf => (nomatch hf)⟩
        · split at h
          · cases h
            exact ⟨rfl, rfl, rfl, rfl, rfl, rfl, h5, hn, fun r hr => (nomatch hr), fun f hf => (nomatch hf)⟩
          · cases h
            exact ⟨rfl, rfl, rfl, rfl, rfl, rfl, h5, hn, fun r hr => (by cases hr; exact hrest), fun f hf => (nomatch hf)⟩

/-- `reset` either leaves the decoder alone (header / window errors) or installs a fresh frame state -/
theorem Decoder.reset_cases (d : Decoder σ) (s : Src) :
    (∃ e, d.reset s = (d, .err e)) ∨
    (∃ st o, d.reset s = ({ d with state := some st }, o) ∧ resetCore d.dicts d.maxWindow s = .replace st o) := by
  simp only [Decoder.reset]
  cases h : resetCore d.dicts d.maxWindow s with
  | keep e => exact Or.inl ⟨e, rfl⟩
  | replace st o => exact Or.inr ⟨st, o, rfl, rfl⟩



/-- `decode_from_to` after the optional `init`, with the start value of the byte counter as a parameter -/
def fromToCore (d1 : Decoder σ) (st : FState σ) (s1 : Src) (startRead n : Nat) : Decoder σ × Out (Nat × Array Nat) :=
  if st.header.checksumFlag ∧ st.finished ∧ st.checksum.isNone then
    if s1.length ≥ 4 then
      ({ d1 with state := some { st with bytesRead := st.bytesRead + 4, checksum := some (leNat (s1.take 4)) } }, .ok (4, #[]))
    else (d1, .ok (0, #[]))
  else
    match decodeFromToLoop (s1.length + 1) st s1 with
    | (st', .ok ()) =>
      (({ d1 with state := some st' } : Decoder σ).read n |>.1,
        .ok ((({ d1 with state := some st' } : Decoder σ).read n).1.bytesRead - startRead,
             (({ d1 with state := some st' } : Decoder σ).read n).2))
    | (st', .err e) => ({ d1 with state := some st' }, .err e)
    | (st', .fault f) => ({ d1 with state := some st' }, .fault f)

theorem Decoder.read_state (d : Decoder σ) (st : FState σ) (n : Nat) (h : d.state = some st) :
    ∃ k, k ≤ n ∧ k ≤ st.buf.content.size ∧
      d.read n = ({ d with state := some { st with buf := (st.buf.take k).2 } }, (st.buf.take k).1) := by
  simp only [Decoder.read, h]
  refine ⟨_, Nat.min_le_right _ _, ?_, rfl⟩
  split
  · exact Nat.min_le_left _ _
  · simp only [DBuf.canDrainToWindow]; split <;> simp <;> omega

theorem Decoder.decodeFromTo_some (d : Decoder σ) (st : FState σ) (s : Src) (n : Nat) (h : d.state = some st) :
    d.decodeFromTo s n =
      if d.isFinished then ((d.read n).1, .ok (0, (d.read n).2))
      else fromToCore d st s st.bytesRead n := by
  obtain ⟨k, -, -, hread⟩ := Decoder.read_state d st n h
  simp only [Decoder.decodeFromTo, h, Option.isNone_some, Bool.false_eq_true, or_false, if_false]
  cases hf : d.isFinished
  · simp only [Bool.not_false, if_true, fromToCore, Bool.false_eq_true, if_false]
    split
    · rfl
    · cases hl : decodeFromToLoop (s.length + 1) st s with
      | mk st' o =>
        cases o with
        | ok u =>
          obtain ⟨k', -, -, hread'⟩ := Decoder.read_state { d with state := some st' } st' n rfl
          simp [hread', Decoder.bytesRead]
        | err e => rfl
        | fault f => rfl
  · simp [hread]

theorem Decoder.decodeFromTo_none (d : Decoder σ) (s : Src) (n : Nat) (h : d.state = none) :
    d.decodeFromTo s n =
      match resetCore d.dicts d.maxWindow s with
      | .keep e => (d, .err e)
      | .replace st (.ok s1) => fromToCore { d with state := some st } st s1 0 n
      | .replace st (.err e) => ({ d with state := some st }, .err e)
      | .replace st (.fault f) => ({ d with state := some st }, .fault f) := by
  simp only [Decoder.decodeFromTo, h, Option.isNone_none, or_true, if_true, Decoder.reset]
  cases hr : resetCore d.dicts d.maxWindow s with
  | keep e => rfl
  | replace st o =>
    cases o with
    | err e => rfl
    | fault f => rfl
    | ok s1 =>
      simp only [fromToCore]
      split
      · rfl
      · cases hl : decodeFromToLoop (s1.length + 1) st s1 with
        | mk st' o =>
          cases o with
          | ok u =>
            obtain ⟨k', -, -, hread'⟩ := Decoder.read_state { d with state := some st' } st' n rfl
            simp [hread', Decoder.bytesRead]
          | err e => rfl
          | fault f => rfl


/-- what `decode_from_to` (after the optional `init`) does: a step of the decoder delivering exactly
the bytes written to the target; the reported count is what the byte counter advanced by, and is
bounded by the source length.  `startRead` is the counter value sampled at the start of the call. -/
theorem fromToCore_spec (d1 : Decoder σ) (st : FState σ) (s1 : Src) (startRead n : Nat)
    (hs : d1.state = some st) (h1 : startRead ≤ st.bytesRead) (h2 : st.finished = true → startRead = st.bytesRead) :
    ∃ dl, DStep d1 (fromToCore d1 st s1 startRead n).1 dl ∧
      (match (fromToCore d1 st s1 startRead n).2 with
       | .ok (rd, out) => dl = out ∧ out.size ≤ n ∧
           (fromToCore d1 st s1 startRead n).1.bytesRead = startRead + rd ∧
           rd ≤ (st.bytesRead - startRead) + s1.length
       | .err _ => dl = #[]
       | .fault _ => dl = #[]) := by
  simp only [fromToCore]
  split
  · rename_i hc
    have hsr := h2 hc.2.1
    split
    · refine ⟨#[], ⟨rfl, rfl, Or.inr ⟨st, _, hs, rfl, ?_⟩⟩, rfl, Nat.zero_le _, by simp [Decoder.bytesRead]; omega, by omega⟩
      exact ⟨rfl, rfl, rfl, rfl, by simp, ⟨#[], by simp⟩, Nat.le_add_right _ _, Nat.le_refl _, id,
        fun hf => by simp only at hf; rw [hc.2.1] at hf; cases hf⟩
    · exact ⟨#[], DStep.refl d1, rfl, Nat.zero_le _, by simp [Decoder.bytesRead, hs]; omega, Nat.zero_le _⟩
  · have hl := decodeFromToLoop_step (s1.length + 1) st s1
    cases hloop : decodeFromToLoop (s1.length + 1) st s1 with
    | mk st' o =>
      rw [hloop] at hl
      simp only at hl
      have hd : DStep d1 { d1 with state := some st' } #[] := ⟨rfl, rfl, Or.inr ⟨st, st', hs, rfl, hl.1.fstep⟩⟩
      cases o with
      | ok u =>
        obtain ⟨k, hk1, hk2, hread⟩ := Decoder.read_state { d1 with state := some st' } st' n rfl
        simp only [hread]
        refine ⟨(st'.buf.take k).1, ?_, rfl, by rw [DBuf.take_fst_size]; omega, ?_, ?_⟩
        · have := hd.trans (⟨rfl, rfl, Or.inr ⟨st', _, rfl, rfl, FStep.take st' k⟩⟩ :
            DStep { d1 with state := some st' } { d1 with state := some { st' with buf := (st'.buf.take k).2 } } (st'.buf.take k).1)
          simpa using this
        · have := hl.1.bytesRead_le
          simp only [Decoder.bytesRead]; omega
        · have := hl.1.bytesRead_le
          simp only [Decoder.bytesRead]; omega
      | err e => exact ⟨#[], hd, rfl⟩
      | fault f => exact ⟨#[], hd, rfl⟩



theorem Decoder.read_dstep (d : Decoder σ) (n : Nat) : DStep d (d.read n).1 (d.read n).2 :=
  applyDrain_dstep d (.read n)

theorem streamingFill_dstep (fuel : Nat) (d : Decoder σ) (s : Src) (n : Nat) :
    DStep d (streamingFill fuel d s n).1 #[] := by
  induction fuel generalizing d s with
  | zero => exact DStep.refl d
  | succ fuel ih =>
    rw [streamingFill]
    split
    · have hb := Decoder.decodeBlocks_dstep d s (.uptoBytes (n - d.canCollect))
      split <;> rename_i heq <;> rw [heq] at hb
      · exact hb
      · exact hb
      · rename_i d1 s1 fin
        have := hb.trans (ih d1 s1)
        simpa using this
    · exact DStep.refl d

/-- delivered bytes of an outcome carrying an output buffer -/
def Out.delivered {α} (f : α → Array Nat) : Out α → Array Nat
  | .ok a => f a
  | _ => #[]

theorem streamingRead_dstep (d : Decoder σ) (s : Src) (n : Nat) :
    DStep d (streamingRead d s n).1 ((streamingRead d s n).2.delivered (·.2)) := by
  simp only [streamingRead]
  split
  · exact DStep.refl d
  · have hf := streamingFill_dstep (s.length + 2) d s n
    split <;> rename_i heq <;> rw [heq] at hf
    · exact hf
    · exact hf
    · have := hf.trans (Decoder.read_dstep _ n)
      simpa [Out.delivered] using this

theorem Decoder.decodeFromTo_dstep (d : Decoder σ) (s : Src) (n : Nat) :
    (d.state = none ∧ ∃ e, d.decodeFromTo s n = (d, .err e)) ∨
    (∃ d1, (d1 = d ∨ ∃ st, d.state = none ∧ d1 = { d with state := some st } ∧ st.buf.hashed = #[]) ∧
       DStep d1 (d.decodeFromTo s n).1 ((d.decodeFromTo s n).2.delivered (·.2))) := by
  cases hst : d.state with
  | some st =>
    right
    refine ⟨d, Or.inl rfl, ?_⟩
    rw [Decoder.decodeFromTo_some d st s n hst]
    split
    · exact Decoder.read_dstep d n
    · obtain ⟨dl, hd, hm⟩ := fromToCore_spec d st s st.bytesRead n hst (Nat.le_refl _) (fun _ => rfl)
      cases ho : (fromToCore d st s st.bytesRead n).2 with
      | ok p => rw [ho] at hm; obtain ⟨rd, out⟩ := p; simp only at hm; simp only [Out.delivered]; rw [← hm.1]; exact hd
      | err e => rw [ho] at hm; simp only at hm; simp only [Out.delivered]; rw [← hm]; exact hd
      | fault f => rw [ho] at hm; simp only at hm; simp only [Out.delivered]; rw [← hm]; exact hd
  | none =>
    rw [Decoder.decodeFromTo_none d s n hst]
    cases hr : resetCore d.dicts d.maxWindow s with
    | keep e => exact Or.inl ⟨rfl, e, rfl⟩
    | replace st o =>
      right
      have hrc := resetCore_replace _ _ _ _ _ hr
      refine ⟨{ d with state := some st }, Or.inr ⟨st, rfl, rfl, hrc.2.2.2.1⟩, ?_⟩
      cases o with
      | err e => exact DStep.refl _
      | fault f => exact DStep.refl _
      | ok s1 =>
        simp only
        obtain ⟨dl, hd, hm⟩ := fromToCore_spec { d with state := some st } st s1 0 n rfl (Nat.zero_le _)
          (fun hf => by rw [hrc.1] at hf; cases hf)
        cases ho : (fromToCore { d with state := some st } st s1 0 n).2 with
        | ok p => rw [ho] at hm; obtain ⟨rd, out⟩ := p; simp only at hm; simp only [Out.delivered]; rw [← hm.1]; exact hd
        | err e => rw [ho] at hm; simp only at hm; simp only [Out.delivered]; rw [← hm]; exact hd
        | fault f => rw [ho] at hm; simp only at hm; simp only [Out.delivered]; rw [← hm]; exact hd

/-- the hasher after `decode_from_to`: exactly the delivered bytes were added (the implicit `init` of a
fresh decoder starts from the empty hash) -/
theorem Decoder.decodeFromTo_hashed (d : Decoder σ) (s : Src) (n : Nat) :
    (d.decodeFromTo s n).1.hashed = d.hashed ++ (d.decodeFromTo s n).2.delivered (·.2) := by
  rcases Decoder.decodeFromTo_dstep d s n with ⟨hn, e, he⟩ | ⟨d1, hd1, hstep⟩
  · rw [he]; simp [Out.delivered]
  · rcases hd1 with rfl | ⟨st, hn, rfl, hh⟩
    · exact hstep.hashed
    · rw [hstep.hashed]; simp [Decoder.hashed, hn, hh]

/-! ### driver programs that stay inside one frame -/

inductive Op where
  | drain (o : DrainOp)
  | blocks (s : Src) (strat : Strategy)
  | fromTo (s : Src) (n : Nat)
  | sread (s : Src) (n : Nat)
  | setMax (w : Nat)

/-- run an operation with ANY source argument (not necessarily the continuation of the previous
one); second component: the bytes handed to the caller -/
def applyOp (d : Decoder σ) : Op → Decoder σ × Array Nat
  | .drain o => applyDrain d o
  | .blocks s strat => ((d.decodeBlocks s strat).1, #[])
  | .fromTo s n => ((d.decodeFromTo s n).1, (d.decodeFromTo s n).2.delivered (·.2))
  | .sread s n => ((streamingRead d s n).1, (streamingRead d s n).2.delivered (·.2))
  | .setMax w => (d.setMaxWindowSize w, #[])

def runOps (d : Decoder σ) : List Op → Decoder σ × Array Nat
  | [] => (d, #[])
  | op :: ops => ((runOps (applyOp d op).1 ops).1, (applyOp d op).2 ++ (runOps (applyOp d op).1 ops).2)

theorem applyOp_hashed (d : Decoder σ) (op : Op) : (applyOp d op).1.hashed = d.hashed ++ (applyOp d op).2 := by
  cases op with
  | drain o => exact (applyDrain_dstep d o).hashed
  | blocks s strat => exact (Decoder.decodeBlocks_dstep d s strat).hashed
  | fromTo s n => exact Decoder.decodeFromTo_hashed d s n
  | sread s n => exact (streamingRead_dstep d s n).hashed
  | setMax w => simp [applyOp, Decoder.setMaxWindowSize, Decoder.hashed]

theorem runOps_hashed (d : Decoder σ) (ops : List Op) : (runOps d ops).1.hashed = d.hashed ++ (runOps d ops).2 := by
  induction ops generalizing d with
  | nil => simp [runOps]
  | cons op ops ih => simp only [runOps]; rw [ih, applyOp_hashed, Array.append_assoc]



/-! ### memory bounds -/

theorem Decoder.decodeBlocks_window (d : Decoder σ) (s : Src) (strat : Strategy) :
    (d.decodeBlocks s strat).1.window = d.window := by
  have h := Decoder.decodeBlocks_dstep d s strat
  rcases h.2.2 with ⟨ha, hb, -⟩ | ⟨st, st', ha, hb, hs⟩
  · simp [Decoder.window, ha, hb]
  · simp [Decoder.window, ha, hb, hs.window]

theorem DStep.window {d d' : Decoder σ} {dl : Array Nat} (h : DStep d d' dl) : d'.window = d.window := by
  rcases h.2.2 with ⟨ha, hb, -⟩ | ⟨st, st', ha, hb, hs⟩
  · simp [Decoder.window, ha, hb]
  · simp [Decoder.window, ha, hb, hs.window]

/-- `decodeBlocks_bound` (bytes budget) -/
theorem Decoder.decodeBlocks_bound_bytes (d : Decoder σ) (s : Src) (n : Nat) :
    (d.decodeBlocks s (.uptoBytes n)).1.content.size ≤ d.content.size + n + Gen.maxBlockSize := by
  cases h : d.state with
  | none => simp [Decoder.decodeBlocks, h, Decoder.content]
  | some st =>
    rw [Decoder.decodeBlocks_some d st s _ h]
    simp only [Decoder.content, h]
    exact decodeBlocksLoop_bound_bytes n _ _ _ st s (Nat.le_add_right _ _)

/-- `decodeBlocks_bound` (block budget; the loop always decodes at least one block) -/
theorem Decoder.decodeBlocks_bound_blocks (d : Decoder σ) (s : Src) (k : Nat) :
    (d.decodeBlocks s (.uptoBlocks k)).1.content.size ≤ d.content.size + max k 1 * Gen.maxBlockSize := by
  cases h : d.state with
  | none => simp [Decoder.decodeBlocks, h, Decoder.content]
  | some st =>
    rw [Decoder.decodeBlocks_some d st s _ h]
    simp only [Decoder.content, h]
    have := decodeBlocksLoop_bound_blocks k st.buf.content.size st.blockCounter (s.length + 1) st s (Nat.le_refl _) (by omega)
    simpa using this

theorem Decoder.canCollect_eq (d : Decoder σ) :
    d.canCollect = if d.isFinished then d.content.size else d.content.size - d.window := by
  cases h : d.state with
  | none => simp [Decoder.canCollect, Decoder.content, h]
  | some st =>
    simp only [Decoder.canCollect, Decoder.content, Decoder.window, h, DBuf.canDrainToWindow]
    split
    · rfl
    · split <;> simp <;> omega

/-- peak buffer size during `StreamingDecoder::read`'s fill loop -/
theorem streamingFill_bound (fuel : Nat) (d : Decoder σ) (s : Src) (n : Nat) :
    (streamingFill fuel d s n).1.content.size ≤ max d.content.size (d.window + n + Gen.maxBlockSize) ∧
    (streamingFill fuel d s n).1.window = d.window := by
  induction fuel generalizing d s with
  | zero => simp [streamingFill]; omega
  | succ fuel ih =>
    rw [streamingFill]
    split
    · rename_i hc
      have hb := Decoder.decodeBlocks_bound_bytes d s (n - d.canCollect)
      have hw := Decoder.decodeBlocks_window d s (.uptoBytes (n - d.canCollect))
      have hcc := Decoder.canCollect_eq d
      have hnf : d.isFinished = false := by simpa using hc.2
      rw [hnf] at hcc
      simp only [Bool.false_eq_true, if_false] at hcc
      have hbound : (d.decodeBlocks s (.uptoBytes (n - d.canCollect))).1.content.size ≤ d.window + n + Gen.maxBlockSize := by
        have := hc.1
        omega
      split <;> rename_i heq <;> rw [heq] at hbound hw
      · simp only at hbound hw ⊢; exact ⟨by omega, hw⟩
      · simp only at hbound hw ⊢; exact ⟨by omega, hw⟩
      · rename_i d1 s1 fin
        simp only at hbound hw
        have := ih d1 s1
        rw [hw] at this
        exact ⟨by omega, this.2⟩
    · exact ⟨by simp only; omega, rfl⟩

theorem Decoder.read_content_le (d : Decoder σ) (n : Nat) : (d.read n).1.content.size ≤ d.content.size := by
  cases h : d.state with
  | none => simp [Decoder.read, h, Decoder.content]
  | some st =>
    obtain ⟨k, -, -, hr⟩ := Decoder.read_state d st n h
    rw [hr]; simp only [Decoder.content, h, DBuf.take_content_size]; omega

theorem streamingRead_bound (d : Decoder σ) (s : Src) (n : Nat) :
    (streamingRead d s n).1.content.size ≤ max d.content.size (d.window + n + Gen.maxBlockSize) := by
  simp only [streamingRead]
  split
  · simp only; omega
  · have hf := streamingFill_bound (s.length + 2) d s n
    split <;> rename_i heq <;> rw [heq] at hf
    · exact hf.1
    · exact hf.1
    · rename_i d1 s1
      simp only at hf ⊢
      have := Decoder.read_content_le d1 n
      omega

/-- `drain_bound`: `collect()` leaves at most `window_size` bytes buffered, in every state -/
theorem Decoder.collect_bound (d : Decoder σ) : (d.collect).1.content.size ≤ d.window := by
  cases h : d.state with
  | none => simp [Decoder.collect, h, Decoder.content]
  | some st =>
    simp only [Decoder.collect, h, Decoder.window]
    split
    · simp [Decoder.content, DBuf.take]
    · simp only [DBuf.canDrainToWindow]
      by_cases hgt : st.buf.content.size > st.buf.window
      · simp only [hgt, if_true, Decoder.content, DBuf.take_content_size]; omega
      · simp only [hgt, if_false, Decoder.content, h]; omega

/-- `read(buf)` removes `min(available, buf.len())` bytes, where available is everything above the
window (everything, once the last block is in) -/
theorem Decoder.read_bound (d : Decoder σ) (n : Nat) :
    (d.read n).1.content.size ≤ max (d.content.size - n) (if d.blocksDone then 0 else d.window) := by
  cases h : d.state with
  | none => simp [Decoder.read, h, Decoder.content]
  | some st =>
    simp only [Decoder.read, h, Decoder.content, Decoder.window, Decoder.blocksDone, DBuf.take_content_size,
      DBuf.canDrainToWindow]
    split
    · simp
    · split <;> simp <;> omega


end Zstd.Model
