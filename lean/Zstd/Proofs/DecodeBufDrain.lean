import Zstd.Proofs.DecodeBufRepeat
/-
Helper lemmas for C04, layer 6b: `DecodeBuffer::drain_to` with its `DrainGuard`, `write_all_bytes`,
and the public draining functions built on them.
-/
namespace Zstd.Model
open Zstd RingBuffer

/-! ### write_all_bytes under every sink script -/

theorem sinkWriteAllFrom_spec : ∀ (script : List SinkAns) (got buf : List Byte) (written : Nat),
    written ≤ buf.length →
    written ≤ (sinkWriteAllFrom script got buf written).1 ∧
    (sinkWriteAllFrom script got buf written).1 ≤ buf.length ∧
    (sinkWriteAllFrom script got buf written).2.2.got =
      got ++ (buf.drop written).take ((sinkWriteAllFrom script got buf written).1 - written)
  | [], got, buf, written, hw => by
    unfold sinkWriteAllFrom
    split
    · refine ⟨by simp only []; omega, Nat.le_refl _, ?_⟩
      simp only []
      rw [List.take_of_length_le (by rw [List.length_drop]; omega)]
    · exact ⟨Nat.le_refl _, hw, by simp⟩
  | s :: rest, got, buf, written, hw => by
    unfold sinkWriteAllFrom
    split
    · rename_i hlt
      cases s with
      | accept k =>
        simp only []
        split
        · exact ⟨Nat.le_refl _, hw, by simp⟩
        · rename_i hw0
          have ih := sinkWriteAllFrom_spec rest (got ++ (buf.drop written).take (min k (buf.length - written)))
            buf (written + min k (buf.length - written)) (by omega)
          refine ⟨by omega, ih.2.1, ?_⟩
          rw [ih.2.2, List.append_assoc]
          congr 1
          generalize (sinkWriteAllFrom rest _ buf _).1 = w1 at ih ⊢
          have : w1 - written = min k (buf.length - written) + (w1 - (written + min k (buf.length - written))) := by
            omega
          rw [this, List.take_add, List.drop_drop]
      | err e => exact ⟨Nat.le_refl _, hw, by simp⟩
    · exact ⟨Nat.le_refl _, hw, by simp⟩

/-- `write_all_bytes`: for every script the count is at most what was offered and the sink got
exactly that prefix -/
theorem sinkWriteAll_spec (sink : Sink) (buf : List Byte) :
    (sinkWriteAll sink buf).1 ≤ buf.length ∧
    (sinkWriteAll sink buf).2.2.got = sink.got ++ buf.take (sinkWriteAll sink buf).1 := by
  have := sinkWriteAllFrom_spec sink.script sink.got buf 0 (Nat.zero_le _)
  unfold sinkWriteAll
  refine ⟨this.2.1, ?_⟩
  rw [this.2.2]; simp

namespace DecodeBuffer

/-- what `drain_to` assumes of its closure (the `std::io` contract): it reports at most what it was
offered and has taken exactly that prefix -/
structure ClosureOk {σ : Type} (wb : σ → List Byte → Except Fault (Nat × Option IoErr × σ))
    (delivered : σ → List Byte) : Prop where
  spec : ∀ s buf out, wb s buf = .ok out →
    out.1 ≤ buf.length ∧ delivered out.2.2 = delivered s ++ buf.take out.1

/-- a closure that always takes everything it is offered and never fails (`read`, `read_all`,
`drain_to_window_size`) -/
def AcceptsAll {σ : Type} (wb : σ → List Byte → Except Fault (Nat × Option IoErr × σ)) : Prop :=
  ∀ s buf out, wb s buf = .ok out → out.1 = buf.length ∧ out.2.1 = none

theorem sinkClosure_ok : ClosureOk sinkClosure Sink.got := by
  constructor
  intro s buf out h
  simp only [sinkClosure, pure_eq_ok, Except.ok.injEq] at h
  subst h
  exact sinkWriteAll_spec s buf

theorem vecClosure_ok : ClosureOk vecClosure id := by
  constructor
  intro s buf out h
  simp only [vecClosure, pure_eq_ok, Except.ok.injEq] at h
  subst h
  simp

theorem targetClosure_ok : ClosureOk targetClosure (fun st => st.2) := by
  constructor
  intro s buf out h
  unfold targetClosure at h
  by_cases hc : s.2.length + buf.length ≤ s.1
  · rw [check_ok hc, ok_bind, pure_eq_ok] at h
    simp only [Except.ok.injEq] at h
    subst h
    simp
  · rw [check_err hc, error_bind] at h; cases h

variable {d : DecodeBuffer}

theorem same_fields {r r' : RingBuffer} (hI : r.Inv) (h1 : r'.cap = r.cap) (h2 : r'.head = r.head)
    (h3 : r'.tail = r.tail) (h4 : r'.mem = r.mem) : r'.Inv ∧ r'.abs = r.abs ∧ r'.len = r.len ∧ r'.cap = r.cap :=
  free_cells_changed hI h1 h2 h3 (by rw [h4]) (fun j _ => by rw [h4])

theorem guardDrop_ok {b : RingBuffer} (hI : b.Inv) {k : Nat} (hk : k ≤ b.len) :
    ∃ b', guardDrop b k = .ok b' ∧ b'.Inv ∧ b'.abs = b.abs.drop k ∧ b'.cap = b.cap := by
  unfold guardDrop
  by_cases h0 : k = 0
  · subst h0
    simp only [ne_eq, not_true_eq_false, ↓reduceIte, pure_eq_ok]
    exact ⟨b, rfl, hI, by simp, rfl⟩
  · simp only [ne_eq, h0, not_false_eq_true, ↓reduceIte]
    obtain ⟨b', e, hI', ha, _, hcap⟩ := dropFirstN_ok hI (hI.cap_pos_of_len (by omega)) hk
    exact ⟨b', e, hI', ha, hcap⟩

/-- `drain_to` for every amount, closure and closure state: if the closure honours the contract and the
call returns (no panic), then exactly the first `k` bytes were handed over, dropped and hashed,
whatever the sink did (partial acceptance of the first segment — then the second is not attempted —
`Ok(0)`, error after a partial write), and `Ok(n)` reports `n = k`. -/
theorem drainTo_exact {σ : Type} {wb : σ → List Byte → Except Fault (Nat × Option IoErr × σ)}
    {delivered : σ → List Byte} (hwb : ClosureOk wb delivered) (hI : d.Inv) {amount : Nat} {s s' : σ}
    {d' : DecodeBuffer} {res : Except IoErr Nat} (h : d.drainTo amount wb s = .ok (d', s', res)) :
    ∃ k, k ≤ amount ∧ k ≤ d.abs.length ∧ delivered s' = delivered s ++ d.abs.take k ∧
      d'.abs = d.abs.drop k ∧ d'.hash = d.hash ++ d.abs.take k ∧ d'.Inv ∧
      (∀ n, res = .ok n → n = k) ∧
      (AcceptsAll wb → k = min amount d.abs.length ∧ res = .ok k) ∧
      d'.dict = d.dict ∧ d'.windowSize = d.windowSize ∧ d'.total = d.total ∧
      d'.buffer.cap = d.buffer.cap := by
  unfold drainTo at h
  by_cases ha : amount = 0
  · simp only [ha, ↓reduceIte, pure_eq_ok, Except.ok.injEq, Prod.mk.injEq] at h
    obtain ⟨rfl, rfl, rfl⟩ := h
    exact ⟨0, by omega, by omega, by simp, by simp, by simp, hI, (fun n hn => by cases hn; rfl),
      (fun _ => ⟨by omega, rfl⟩), rfl, rfl, rfl, rfl⟩
  · simp only [ha, ↓reduceIte] at h
    obtain ⟨a, b, b0, eas, hab, hal, c1, c2, c3, c4⟩ := asSlices_ok hI
    rw [eas, ok_bind] at h
    obtain ⟨hI0, habs0, hlen0, _⟩ := same_fields hI c1 c2 c3 c4
    have hlen : d.abs.length = a.length + b.length := by
      show d.buffer.abs.length = _; rw [← hab, List.length_append]
    by_cases hn1 : min a.length amount ≠ 0
    · rw [if_pos hn1] at h
      cases hw1 : wb s (a.take (min a.length amount)) with
      | error e => rw [hw1, error_bind] at h; cases h
      | ok r1 =>
        rw [hw1, ok_bind] at h
        obtain ⟨hle1, hdel1⟩ := hwb.spec _ _ _ hw1
        rw [List.length_take, List.take_take] at *
        have hle1' : r1.1 ≤ a.length := by omega
        rw [check_ok hle1', ok_bind] at h
        have hmin1 : min r1.1 (min a.length amount) = r1.1 := by omega
        rw [hmin1] at hdel1
        have htake1 : d.abs.take r1.1 = a.take r1.1 := by
          show d.buffer.abs.take _ = _
          rw [← hab, List.take_append_of_le_length hle1']
        cases hr1 : r1.2.1 with
        | some e =>
          simp only [hr1] at h
          obtain ⟨b', eg, hI', habs', hcap'⟩ := guardDrop_ok hI0 (k := r1.1) (by rw [hlen0, ← abs_length]; show _ ≤ d.abs.length; omega)
          rw [eg, ok_bind, pure_eq_ok] at h
          simp only [Except.ok.injEq, Prod.mk.injEq] at h
          obtain ⟨rfl, rfl, rfl⟩ := h
          refine ⟨r1.1, by omega, by omega, by rw [hdel1, htake1], ?_, ?_, hI', (fun n hn => by cases hn),
            (fun hf => by have := (hf _ _ _ hw1).2; rw [hr1] at this; cases this), rfl, rfl, rfl,
            by show b'.cap = _; rw [hcap', c1]⟩
          · show b'.abs = _; rw [habs', habs0]; rfl
          · show d.hash ++ _ = _; rw [htake1]
        | none =>
          simp only [hr1] at h
          by_cases hseg : r1.1 = min a.length amount ∧ min b.length (amount - min a.length amount) ≠ 0
          · rw [if_pos hseg] at h
            cases hw2 : wb r1.2.2 (b.take (min b.length (amount - min a.length amount))) with
            | error e => rw [hw2, error_bind] at h; cases h
            | ok r2 =>
              rw [hw2, ok_bind] at h
              obtain ⟨hle2, hdel2⟩ := hwb.spec _ _ _ hw2
              rw [List.length_take, List.take_take] at *
              have hle2' : r2.1 ≤ b.length := by omega
              rw [check_ok hle2', ok_bind] at h
              have hmin2 : min r2.1 (min b.length (amount - min a.length amount)) = r2.1 := by omega
              rw [hmin2] at hdel2
              have hfull : r1.1 = a.length := by omega
              have htake2 : d.abs.take (r1.1 + r2.1) = a.take r1.1 ++ b.take r2.1 := by
                show d.buffer.abs.take _ = _
                rw [← hab, hfull, List.take_length_add_append, List.take_length]
              obtain ⟨b', eg, hI', habs', hcap'⟩ := guardDrop_ok hI0 (k := r1.1 + r2.1)
                (by rw [hlen0, ← abs_length]; show _ ≤ d.abs.length; omega)
              rw [eg, ok_bind] at h
              have common : ∀ (res0 : Except IoErr Nat), (∀ n, res0 = .ok n → n = r1.1 + r2.1) →
                  (AcceptsAll wb → r1.1 + r2.1 = min amount d.abs.length ∧ res0 = .ok (r1.1 + r2.1)) →
                  (d', s', res) = ({ d with buffer := b', hash := d.hash ++ a.take r1.1 ++ b.take r2.1 }, r2.2.2, res0) →
                  ∃ k, k ≤ amount ∧ k ≤ d.abs.length ∧ delivered s' = delivered s ++ d.abs.take k ∧
                    d'.abs = d.abs.drop k ∧ d'.hash = d.hash ++ d.abs.take k ∧ d'.Inv ∧
                    (∀ n, res = .ok n → n = k) ∧
                    (AcceptsAll wb → k = min amount d.abs.length ∧ res = .ok k) ∧
                    d'.dict = d.dict ∧ d'.windowSize = d.windowSize ∧ d'.total = d.total ∧
                    d'.buffer.cap = d.buffer.cap := by
                intro res0 hres0 hfull0 heq
                simp only [Prod.mk.injEq] at heq
                obtain ⟨rfl, rfl, rfl⟩ := heq
                refine ⟨r1.1 + r2.1, by omega, by omega, ?_, ?_, ?_, hI', hres0, hfull0, rfl, rfl, rfl,
                  by show b'.cap = _; rw [hcap', c1]⟩
                · rw [hdel2, hdel1, htake2, List.append_assoc]
                · show b'.abs = _; rw [habs', habs0]; rfl
                · show d.hash ++ _ ++ _ = _; rw [htake2, List.append_assoc]
              cases hr2 : r2.2.1 with
              | some e =>
                simp only [hr2, pure_eq_ok, Except.ok.injEq] at h
                exact common (.error e) (fun n hn => by cases hn)
                  (fun hf => by have := (hf _ _ _ hw2).2; rw [hr2] at this; cases this) h.symm
              | none =>
                simp only [hr2, pure_eq_ok, Except.ok.injEq] at h
                exact common (.ok (r1.1 + r2.1)) (fun n hn => by cases hn; rfl)
                  (fun hf => ⟨by
                    have := (hf _ _ _ hw2).1
                    rw [List.length_take] at this
                    omega, rfl⟩) h.symm
          · rw [if_neg hseg] at h
            obtain ⟨b', eg, hI', habs', hcap'⟩ := guardDrop_ok hI0 (k := r1.1) (by rw [hlen0, ← abs_length]; show _ ≤ d.abs.length; omega)
            rw [eg, ok_bind, pure_eq_ok] at h
            simp only [Except.ok.injEq, Prod.mk.injEq] at h
            obtain ⟨rfl, rfl, rfl⟩ := h
            refine ⟨r1.1, by omega, by omega, by rw [hdel1, htake1], ?_, ?_, hI', (fun n hn => by cases hn; rfl),
              (fun hf => ⟨by
                have := (hf _ _ _ hw1).1
                rw [List.length_take] at this
                omega, rfl⟩), rfl, rfl, rfl, by show b'.cap = _; rw [hcap', c1]⟩
            · show b'.abs = _; rw [habs', habs0]; rfl
            · show d.hash ++ _ = _; rw [htake1]
    · rw [if_neg hn1] at h
      simp only [pure_eq_ok, Except.ok.injEq, Prod.mk.injEq] at h
      obtain ⟨rfl, rfl, rfl⟩ := h
      have hempty : d.abs.length = 0 := by
        have hb := hI.bounds
        have hlc := len_cases d.buffer
        have : d.abs.length = d.buffer.len := abs_length
        split at hal <;> omega
      refine ⟨0, by omega, by omega, by simp, ?_, by simp, hI0, (fun n hn => by cases hn; rfl),
        (fun _ => ⟨by omega, rfl⟩), rfl, rfl, rfl, c1⟩
      show b0.abs = _; rw [habs0]; simp; rfl

/-- `drain_to` itself never panics: it is enough that the closure does not panic on the (at most two)
offers `drain_to` can make — a first one of at most `amount` bytes, and after that one was taken
completely a second one such that both together are at most `amount` bytes -/
theorem drainTo_noFault {σ : Type} {wb : σ → List Byte → Except Fault (Nat × Option IoErr × σ)}
    {delivered : σ → List Byte} (hwb : ClosureOk wb delivered) (hI : d.Inv) (amount : Nat) (s : σ)
    (h1 : ∀ buf, buf.length ≤ amount → ∃ out, wb s buf = .ok out)
    (h2 : ∀ buf1 out1 buf2, wb s buf1 = .ok out1 → out1.1 = buf1.length →
      buf1.length + buf2.length ≤ amount → ∃ out, wb out1.2.2 buf2 = .ok out) :
    ∃ out, d.drainTo amount wb s = .ok out := by
  unfold drainTo
  by_cases ha : amount = 0
  · simp only [ha, ↓reduceIte, pure_eq_ok]; exact ⟨_, rfl⟩
  · simp only [ha, ↓reduceIte]
    obtain ⟨a, b, b0, eas, hab, hal, c1, c2, c3, c4⟩ := asSlices_ok hI
    rw [eas, ok_bind]
    obtain ⟨hI0, habs0, hlen0, _⟩ := same_fields hI c1 c2 c3 c4
    have hlen : b0.len = a.length + b.length := by
      rw [hlen0, ← abs_length, ← hab, List.length_append]
    by_cases hn1 : min a.length amount ≠ 0
    · rw [if_pos hn1]
      obtain ⟨r1, hw1⟩ := h1 (a.take (min a.length amount)) (by rw [List.length_take]; omega)
      obtain ⟨hle1, _⟩ := hwb.spec _ _ _ hw1
      rw [List.length_take] at hle1
      have hle1' : r1.1 ≤ a.length := by omega
      rw [hw1, ok_bind, check_ok hle1', ok_bind]
      cases hr1 : r1.2.1 with
      | some e =>
        simp only []
        obtain ⟨b', eg, _⟩ := guardDrop_ok hI0 (k := r1.1) (by omega)
        rw [eg, ok_bind, pure_eq_ok]; exact ⟨_, rfl⟩
      | none =>
        simp only []
        by_cases hseg : r1.1 = min a.length amount ∧ min b.length (amount - min a.length amount) ≠ 0
        · rw [if_pos hseg]
          obtain ⟨r2, hw2⟩ := h2 _ _ (b.take (min b.length (amount - min a.length amount))) hw1
            (by rw [List.length_take]; omega) (by rw [List.length_take, List.length_take]; omega)
          obtain ⟨hle2, _⟩ := hwb.spec _ _ _ hw2
          rw [List.length_take] at hle2
          have hle2' : r2.1 ≤ b.length := by omega
          rw [hw2, ok_bind, check_ok hle2', ok_bind]
          obtain ⟨b', eg, _⟩ := guardDrop_ok hI0 (k := r1.1 + r2.1) (by omega)
          rw [eg, ok_bind]
          cases r2.2.1 <;> exact ⟨_, rfl⟩
        · rw [if_neg hseg]
          obtain ⟨b', eg, _⟩ := guardDrop_ok hI0 (k := r1.1) (by omega)
          rw [eg, ok_bind, pure_eq_ok]; exact ⟨_, rfl⟩
    · rw [if_neg hn1, pure_eq_ok]; exact ⟨_, rfl⟩

end DecodeBuffer

end Zstd.Model
