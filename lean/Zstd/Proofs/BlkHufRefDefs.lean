import Zstd.Proofs.BlkCoupled
/-
Shared statement for the refinement of `read_weights` (C01): the FSE table of the compressed weights.
The Spec reads the description from the `header` bytes of the tree description with the RFC's
alphabet bound (weights 0..12), the code reads it from everything that follows the header byte with
`max_symbol = 255` and checks the byte count afterwards.
-/
namespace Zstd.Proofs.Blk
open Zstd Zstd.Model

/-- proved in `Proofs/BlkHufWeightsTable` (`weightsTableRefines`), used in `Proofs/BlkHufWeightsRefines` -/
def WeightsTableRefines : Prop :=
  ∀ (rest : List Nat) (header al used : Nat) (probs : List Int) (T : Spec.Fse.Table),
    Zstd.Proofs.BitIO.Bytes rest →
    Spec.Fse.readDescription (rest.take header) 6 255 = some (al, probs, used) →
    Spec.Fse.buildTable al probs = some T →
    ∃ ft, (Fse.DTable.new Gen.hufFseMaxSymbol).buildDecoder rest.toArray Gen.hufWeightsMaxLogDec = (ft, .ok used) ∧
      FseBuilt 6 ft ∧ T = specOf ft

end Zstd.Proofs.Blk
