import Zstd.Proofs.MatchSeq
/-
Helper lemmas for C17, part 3: from the index-level meaning of a candidate (`GoodIn`) and the
base-offset invariant (`BaseOk`) to statements about the BYTES of the retained window
(`flat w` = concatenation of the data of all window entries, oldest first — the
`concat_window` of the debug build).
-/
namespace Zstd.Proofs.MG
open Zstd Zstd.Model.MG

/-- concatenation of the data of all window entries (`concat_window` of the debug build) -/
def flat (w : Shape) : List Byte := w.flatMap (fun e => e.1.toList)

@[simp] theorem flat_nil : flat [] = [] := rfl
@[simp] theorem flat_cons (e : Array Byte × Nat) (w : Shape) : flat (e :: w) = e.1.toList ++ flat w := by
  simp [flat]
@[simp] theorem flat_append (a b : Shape) : flat (a ++ b) = flat a ++ flat b := by
  simp [flat]
@[simp] theorem flat_length (w : Shape) : (flat w).length = total w := by
  induction w with
  | nil => rfl
  | cons e r ih => simp [ih]

theorem baseOk_at : ∀ (pre : Shape) (e : Array Byte × Nat) (post : Shape),
    BaseOk (pre ++ e :: post) → e.2 = total (e :: post).dropLast := by
  intro pre
  induction pre with
  | nil => intro e post h; exact h.1
  | cons p pre ih => intro e post h; exact ih e post h.2

theorem baseOk_tail : ∀ (pre post : Shape), BaseOk (pre ++ post) → BaseOk post := by
  intro pre
  induction pre with
  | nil => intro post h; exact h
  | cons p pre ih => intro post h; exact ih post h.2

theorem getElem?_mid {α} (A B C : List α) (i : Nat) (h : i < B.length) :
    (A ++ (B ++ C))[A.length + i]? = B[i]? := by
  rw [List.getElem?_append_right (by omega)]
  have : A.length + i - A.length = i := by omega
  rw [this, List.getElem?_append_left h]

theorem getElem?_end {α} (A B C : List α) (i : Nat) :
    (A ++ (B ++ C))[A.length + B.length + i]? = C[i]? := by
  rw [List.getElem?_append_right (by omega)]
  have : A.length + B.length + i - A.length = B.length + i := by omega
  rw [this, List.getElem?_append_right (by omega)]
  have : B.length + i - B.length = i := by omega
  rw [this]

/-- Byte-level meaning of a good candidate.  `w` is the window, its last entry is the current block
`cur`; `P = total w.dropLast` bytes are retained in front of the current block. -/
theorem goodIn_bytes (w : Shape) (cur : Array Byte) (b : Nat) (s off ml : Nat)
    (hb : BaseOk w) (hlast : w.getLast? = some (cur, b)) (hg : GoodIn cur s w (off, ml)) :
    minMatchLen ≤ ml ∧ ml ≤ off ∧ off ≤ total w.dropLast + s ∧ s + ml ≤ cur.size ∧
    ∀ k, k < ml → (flat w)[total w.dropLast + s + k - off]? = (flat w)[total w.dropLast + s + k]? := by
  obtain ⟨pre, ed, eb, post, hw, mi, h1, h2, h3, h4, h5, h6, h7⟩ := hg
  simp only [] at h1 h3 h4 h6 h7
  have hbase : eb = total ((ed, eb) :: post).dropLast := baseOk_at pre (ed, eb) post (hw ▸ hb)
  cases post with
  | nil =>
    -- the candidate comes from the current block itself
    simp only [List.isEmpty_nil, if_true] at h4 h5
    simp only [List.dropLast_singleton, total_nil] at hbase
    have hcur : ed = cur ∧ eb = b := by
      rw [hw] at hlast
      simpa using hlast
    obtain ⟨hc1, hc2⟩ := hcur
    subst hc1
    have hdl : w.dropLast = pre := by rw [hw]; simp
    rw [hdl]
    refine ⟨h3, by omega, by omega, h6, ?_⟩
    intro k hk
    have hflat : flat w = flat pre ++ (ed.toList ++ []) := by rw [hw]; simp
    rw [hflat]
    have e1 : total pre + s + k - off = (flat pre).length + (mi + k) := by simp; omega
    have e2 : total pre + s + k = (flat pre).length + (s + k) := by simp; omega
    rw [e1, e2, getElem?_mid _ _ _ _ (by simp; omega), getElem?_mid _ _ _ _ (by simp; omega),
      Array.getElem?_toList, Array.getElem?_toList]
    exact h7 k hk
  | cons p ps =>
    simp only [List.isEmpty_cons, Bool.false_eq_true, if_false] at h4 h5
    -- the last entry of `post` is the current block
    have hpl : (p :: ps).getLast? = some (cur, b) := by
      rw [hw] at hlast
      simpa [List.getLast?_append] using hlast
    have hpost := eq_dropLast_append_of_getLast? (p :: ps) (cur, b) hpl
    have hne : (p :: ps) ≠ [] := by simp
    generalize (p :: ps) = post at *
    have hdl : w.dropLast = pre ++ (ed, eb) :: post.dropLast := by
      rw [hw, List.dropLast_append_cons, List.dropLast_cons_of_ne_nil hne]
    have hb2 : eb = ed.size + total post.dropLast := by
      rw [List.dropLast_cons_of_ne_nil hne] at hbase
      simpa using hbase
    rw [hdl]
    simp only [total_append, total_cons]
    refine ⟨h3, by omega, by omega, h6, ?_⟩
    intro k hk
    have hflat : flat w = flat pre ++ (ed.toList ++ (flat post.dropLast ++ cur.toList)) := by
      rw [hw]
      conv => lhs; rw [hpost]
      simp
    rw [hflat]
    have e1 : total pre + (ed.size + total post.dropLast) + s + k - off = (flat pre).length + (mi + k) := by
      simp; omega
    have e2 : total pre + (ed.size + total post.dropLast) + s + k
        = ((flat pre).length + ed.toList.length) + (total post.dropLast + (s + k)) := by simp; omega
    rw [e1, e2, getElem?_mid _ _ _ _ (by simp; omega), getElem?_end,
      List.getElem?_append_right (by simp)]
    simp only [flat_length]
    have e4 : total post.dropLast + (s + k) - total post.dropLast = s + k := by omega
    rw [e4, Array.getElem?_toList, Array.getElem?_toList]
    exact h7 k hk

end Zstd.Proofs.MG
