import Zstd.Proofs.BitIO.Bridge
/-
B. The reversed reader `BitReaderRev` refines `Spec.readBEPad` on the reversed bit list.
-/
namespace Zstd.Proofs.BitIO
open Zstd Zstd.Spec Zstd.Model.BitIO

/-- the abstract stream of the reversed reader: it starts at the most significant bit of the last
byte and walks towards the first byte -/
def stream (src : Array Nat) : List Bool := (bitsLE src.toList).reverse

theorem length_stream (src : Array Nat) : (stream src).length = 8 * src.size := by
  simp [stream]

/-- Numeric window: the `m` bits at positions `[pos, pos+m)` of the reversed, zero-padded bit
string of the `T`-bit number `N`, as a big-endian number.  (One of the two exponents is 0.) -/
def win (N T pos m : Nat) : Nat := N * 2 ^ (pos + m - T) / 2 ^ (T - pos - m) % 2 ^ m

theorem win_lt (N T pos m : Nat) : win N T pos m < 2 ^ m := Nat.mod_lt _ (Nat.two_pow_pos m)

theorem win_zero (N T pos : Nat) : win N T pos 0 = 0 := by simp [win, Nat.mod_one]

/-- the first `n` bits of an `m`-bit window -/
theorem win_prefix (N T pos m n : Nat) (h : n ≤ m) :
    win N T pos m / 2 ^ (m - n) % 2 ^ n = win N T pos n := by
  unfold win; bb

/-- the last `m - n` bits of an `m`-bit window -/
theorem win_suffix (N T pos m n : Nat) (h : n ≤ m) :
    win N T pos m % 2 ^ (m - n) = win N T (pos + n) (m - n) := by
  unfold win; bb

/-! ### `readBEPad` numerically -/

theorem readBEPad_fst (n : Nat) (l : List Bool) :
    (readBEPad n l).1 = valLE l.reverse * 2 ^ (n - l.length) / 2 ^ (l.length - n) % 2 ^ n := by
  rw [readBEPad_def]
  split
  · rename_i hlt
    simp only []
    rw [← valBE_eq_valLE_reverse, show l.length - n = 0 by omega, Nat.pow_zero, Nat.div_one,
      Nat.mod_eq_of_lt]
    have h1 := valBE_lt l
    have h2 : 2 ^ n = 2 ^ l.length * 2 ^ (n - l.length) := by rw [← Nat.pow_add]; congr 1; omega
    rw [h2]
    exact (Nat.mul_lt_mul_right (Nat.two_pow_pos _)).2 h1
  · rename_i hge
    simp only []
    rw [show n - l.length = 0 by omega, Nat.pow_zero, Nat.mul_one, valBE_eq_valLE_reverse,
      List.reverse_take, valLE_drop, Nat.mod_eq_of_lt]
    rw [← valLE_drop]
    have := valLE_lt (l.reverse.drop (l.length - n))
    rw [List.length_drop, List.length_reverse] at this
    rwa [show l.length - (l.length - n) = n by omega] at this

/-- bridge: the padded big-endian read at abstract position `pos` is the numeric window -/
theorem readBEPad_stream {src : Array Nat} (hb : Bytes src.toList) (pos n : Nat) :
    (readBEPad n ((stream src).drop pos)).1 = win (leNat src.toList) (8 * src.size) pos n := by
  rw [readBEPad_fst, stream, List.reverse_drop, List.reverse_reverse, valLE_take, valLE_bitsLE hb,
    List.length_drop]
  simp only [List.length_reverse, length_bitsLE, Array.length_toList]
  unfold win; bb

/-! ### the invariant -/

/-- `r` is a state of the reversed reader over `src` that has consumed `pos` bits.
`content` says: the unread part of the container is the next `64 - bitsConsumed` bits of the
zero-padded stream. `shape` lists the three kinds of states: initial; window inside the source;
window at (or shifted beyond) the first byte. -/
structure RevInv (src : Array Nat) (r : BitReaderRev) (pos : Nat) : Prop where
  hsrc : r.src = src
  bytes : Bytes src.toList
  bc_le : r.bitsConsumed ≤ 64
  cont_lt : r.container < 2 ^ 64
  shape : (r.index = src.size ∧ r.bitsConsumed = 64 ∧ r.extraBits = 0)
        ∨ (r.index + 8 ≤ src.size ∧ r.extraBits = 0)
        ∨ r.index = 0
  pos_eq : (pos : Int) = 8 * (src.size : Int) - r.bitsRemaining
  content : r.container % 2 ^ (64 - r.bitsConsumed)
              = (readBEPad (64 - r.bitsConsumed) ((stream src).drop pos)).1

theorem RevInv.content' {src : Array Nat} {r : BitReaderRev} {pos : Nat} (h : RevInv src r pos) :
    r.container % 2 ^ (64 - r.bitsConsumed)
      = win (leNat src.toList) (8 * src.size) pos (64 - r.bitsConsumed) := by
  rw [h.content, readBEPad_stream h.bytes]

theorem RevInv.pos_eq' {src : Array Nat} {r : BitReaderRev} {pos : Nat} (h : RevInv src r pos) :
    pos + 8 * r.index + 64 = 8 * src.size + r.bitsConsumed + r.extraBits := by
  have := h.pos_eq
  have := h.bc_le
  unfold BitReaderRev.bitsRemaining at *
  omega

theorem RevInv_new {src : Array Nat} (hb : Bytes src.toList) : RevInv src (BitReaderRev.new src) 0 := by
  constructor
  · rfl
  · exact hb
  · simp [BitReaderRev.new]
  · simp [BitReaderRev.new]
  · left; simp [BitReaderRev.new]
  · simp only [BitReaderRev.new, BitReaderRev.bitsRemaining]; omega
  · simp [BitReaderRev.new, readBEPad_def, valBE]

/-- `bits_remaining()` is the (signed) distance to the beginning of the source -/
theorem RevInv_bitsRemaining {src : Array Nat} {r : BitReaderRev} {pos : Nat} (h : RevInv src r pos) :
    r.bitsRemaining = 8 * (src.size : Int) - pos := by
  have := h.pos_eq; omega

/-! ### `refill` -/

theorem le64At_eq {src : Array Nat} (hb : Bytes src.toList) {i : Nat} (hi : i + 8 ≤ src.size) :
    le64At src i = some (leNat src.toList / 2 ^ (8 * i) % 2 ^ 64) := by
  unfold le64At
  rw [if_pos hi]
  congr 1
  rw [Array.toList_extract, List.extract_eq_take_drop, leNat_take (Bytes_drop hb _), leNat_drop hb,
    show i + 8 - i = 8 by omega]

theorem first8_eq {src : Array Nat} (hb : Bytes src.toList) :
    (if src.size ≥ 8 then leNat ((src.extract 0 8).toList) else leNat src.toList)
      = leNat src.toList % 2 ^ 64 := by
  split
  · rw [Array.toList_extract, List.extract_eq_take_drop, List.drop_zero, leNat_take hb]
  · rename_i h
    have h1 := leNat_lt hb
    have h2 : 2 ^ (8 * src.toList.length) ≤ 2 ^ 64 :=
      Nat.pow_le_pow_right (by omega) (by simp only [Array.length_toList]; omega)
    rw [Nat.mod_eq_of_lt (by omega)]

theorem win_case1 (N T pos i b : Nat) (h : pos + 8 * i + 64 = T + b) (hb : b ≤ 64) :
    (N / 2 ^ (8 * i) % 2 ^ 64) % 2 ^ (64 - b) = win N T pos (64 - b) := by
  unfold win; bb

theorem win_case2 (N T pos b : Nat) (h : pos + 64 = T + b) :
    u64 ((N % 2 ^ 64) <<< b) % 2 ^ 64 = win N T pos 64 := by
  unfold win u64; bb

theorem shl_mod (c b : Nat) (hb : b ≤ 64) : u64 (c <<< b) = (c % 2 ^ (64 - b)) <<< b := by
  unfold u64; bb

theorem win_case3 (N T pos b e : Nat) (h : pos + 64 = T + b + e) (hb : b ≤ 64) :
    (win N T pos (64 - b)) <<< b = win N T pos 64 := by
  unfold win; bb

theorem win_case4 (N T pos e : Nat) (h : pos = T + e) : 0 = win N T pos 64 := by
  unfold win; bb

theorem u64_lt (x : Nat) : u64 x < 2 ^ 64 := Nat.mod_lt _ (by omega)

/-- `refill` never faults in a reachable state, keeps the abstract position, and leaves fewer than
8 consumed bits in the container (`bits_consumed & 7` in case 1, `0` in cases 2–4). -/
theorem refill_ok {src : Array Nat} {r : BitReaderRev} {pos : Nat} (h : RevInv src r pos) :
    ∃ r', r.refill = .ok r' ∧ RevInv src r' pos ∧
      r'.bitsConsumed = (if r.bitsConsumed / 8 ≤ r.index then r.bitsConsumed % 8 else 0) := by
  have hpos := h.pos_eq'
  have hcont := h.content'
  obtain ⟨hsrc, hb, hbc, hclt, hshape, hpe, hcontent⟩ := h
  obtain ⟨src', index, bc, ex, cont⟩ := r
  simp only at hsrc hbc hclt hshape hpos hcont hcontent ⊢
  subst hsrc
  generalize hN : leNat src'.toList = N at *
  unfold BitReaderRev.refill
  simp only []
  by_cases hz : bc / 8 = 0
  · -- nothing to do
    rw [if_pos hz]
    refine ⟨_, rfl, ⟨rfl, hb, hbc, hclt, hshape, hpe, hcontent⟩, ?_⟩
    simp only []; rw [if_pos (by omega)]; omega
  · rw [if_neg hz]
    by_cases h1 : index ≥ bc / 8
    · -- case 1
      rw [if_pos h1]
      have hex : ex = 0 := by omega
      have hsz : index - bc / 8 + 8 ≤ src'.size := by omega
      rw [le64At_eq hb hsz, hN]
      refine ⟨_, rfl, ?_, ?_⟩
      · have hc := win_case1 N (8 * src'.size) pos (index - bc / 8) (bc % 8) (by omega) (by omega)
        constructor
        · rfl
        · exact hb
        · simp only []; omega
        · exact Nat.mod_lt _ (by omega)
        · right; left; exact ⟨hsz, hex⟩
        · simp only [BitReaderRev.bitsRemaining]; omega
        · simp only []
          rw [readBEPad_stream hb, hN]; exact hc
      · simp only []; rw [if_pos (by omega)]
    · rw [if_neg h1]
      by_cases h2 : index > 0
      · -- case 2
        rw [if_pos h2, first8_eq hb, hN]
        have hex : ex = 0 := by omega
        rw [if_neg (by omega)]
        rw [if_neg (by omega)]
        refine ⟨_, rfl, ?_, ?_⟩
        · have hc := win_case2 N (8 * src'.size) pos (bc - 8 * index) (by omega)
          constructor
          · rfl
          · exact hb
          · simp only []; omega
          · exact u64_lt _
          · right; right; rfl
          · simp only [BitReaderRev.bitsRemaining]; omega
          · simp only []
            rw [readBEPad_stream hb, hN]; exact hc
        · simp only []; rw [if_neg (by omega)]
      · rw [if_neg h2]
        have hi0 : index = 0 := by omega
        subst hi0
        by_cases h3 : bc < 64
        · -- case 3
          rw [if_pos h3]
          refine ⟨_, rfl, ?_, ?_⟩
          · constructor
            · rfl
            · exact hb
            · simp only []; omega
            · exact u64_lt _
            · right; right; rfl
            · simp only [BitReaderRev.bitsRemaining]; omega
            · simp only []
              rw [readBEPad_stream hb, hN, Nat.mod_eq_of_lt (u64_lt _), shl_mod _ _ (by omega), hcont]
              exact win_case3 N (8 * src'.size) pos bc ex (by omega) (by omega)
          · simp only []; rw [if_neg (by omega)]
        · -- case 4
          rw [if_neg h3]
          refine ⟨_, rfl, ?_, ?_⟩
          · constructor
            · rfl
            · exact hb
            · simp only []; omega
            · simp only []; omega
            · right; right; rfl
            · simp only [BitReaderRev.bitsRemaining]; omega
            · simp only []
              rw [readBEPad_stream hb, hN, Nat.zero_mod]
              exact win_case4 N (8 * src'.size) pos ex (by omega)
          · simp only []; rw [if_neg (by omega)]

/-! ### `peek_bits` / `consume` / `get_bits` -/

theorem peek_num (c b n : Nat) (h : b + n ≤ 64) :
    (c >>> (64 - b - n)) &&& (2 ^ n - 1) = (c % 2 ^ (64 - b)) / 2 ^ (64 - b - n) % 2 ^ n := by
  bb

theorem consume_num (c b n : Nat) (h : b + n ≤ 64) :
    c % 2 ^ (64 - (b + n)) = (c % 2 ^ (64 - b)) % 2 ^ (64 - b - n) := by
  bb

theorem peekBits_ok {src : Array Nat} {r : BitReaderRev} {pos n : Nat} (h : RevInv src r pos)
    (hn : n ≤ 63) (hfit : r.bitsConsumed + n ≤ 64) :
    r.peekBits n = .ok (readBEPad n ((stream src).drop pos)).1 := by
  rw [readBEPad_stream h.bytes]
  unfold BitReaderRev.peekBits
  by_cases h0 : n = 0
  · subst h0; rw [if_pos rfl, win_zero]
  · rw [if_neg h0, if_neg (by omega), if_neg (by omega), peek_num _ _ _ hfit, h.content',
      win_prefix _ _ _ _ _ (by omega)]

theorem consume_ok {src : Array Nat} {r : BitReaderRev} {pos n : Nat} (h : RevInv src r pos)
    (hfit : r.bitsConsumed + n ≤ 64) :
    ∃ r', r.consume n = .ok r' ∧ RevInv src r' (pos + n) ∧ r'.bitsConsumed = r.bitsConsumed + n := by
  unfold BitReaderRev.consume
  rw [if_neg (by omega), if_neg (by omega)]
  refine ⟨_, rfl, ?_, rfl⟩
  have hc := h.content'
  have hp := h.pos_eq
  have hs := h.shape
  constructor
  · exact h.hsrc
  · exact h.bytes
  · exact hfit
  · exact h.cont_lt
  · simp only []; omega
  · simp only [BitReaderRev.bitsRemaining] at hp ⊢; omega
  · simp only []
    rw [readBEPad_stream h.bytes, consume_num _ _ _ hfit, hc, win_suffix _ _ _ _ _ (by omega)]
    congr 1; omega

/-- General form of the main theorem: `get_bits(n)` succeeds whenever the request fits into the
container before or after the refill.  `bcAfter` is what `refill` leaves in `bits_consumed`. -/
theorem bitReaderRev_refines_gen {src : Array Nat} {r : BitReaderRev} {pos n : Nat}
    (h : RevInv src r pos) (hn : n ≤ 63)
    (hfit : r.bitsConsumed + n ≤ 64 ∨
      (if r.bitsConsumed / 8 ≤ r.index then r.bitsConsumed % 8 else 0) + n ≤ 64) :
    ∃ r', r.getBits n = .ok ((readBEPad n ((stream src).drop pos)).1, r') ∧ RevInv src r' (pos + n) := by
  have hbc := h.bc_le
  unfold BitReaderRev.getBits
  rw [if_neg (by omega)]
  by_cases hre : r.bitsConsumed + n > 64
  · rw [if_pos hre]
    obtain ⟨r1, hr1, hinv1, hbc1⟩ := refill_ok h
    have hfit1 : r1.bitsConsumed + n ≤ 64 := by rw [hbc1]; omega
    obtain ⟨r2, hr2, hinv2, _⟩ := consume_ok hinv1 hfit1
    rw [hr1]
    simp only []
    rw [peekBits_ok hinv1 hn hfit1, hr2]
    exact ⟨r2, rfl, hinv2⟩
  · rw [if_neg hre]
    have hfit1 : r.bitsConsumed + n ≤ 64 := by omega
    obtain ⟨r2, hr2, hinv2, _⟩ := consume_ok h hfit1
    simp only []
    rw [peekBits_ok h hn hfit1, hr2]
    exact ⟨r2, rfl, hinv2⟩

/-- B, main theorem: every request of at most 56 bits is served without fault, returns the next
`n` bits of the zero-padded stream, and advances the abstract position by `n`. -/
theorem bitReaderRev_refines {src : Array Nat} {r : BitReaderRev} {pos n : Nat}
    (h : RevInv src r pos) (hn : n ≤ 56) :
    ∃ r', r.getBits n = .ok ((readBEPad n ((stream src).drop pos)).1, r') ∧ RevInv src r' (pos + n) := by
  apply bitReaderRev_refines_gen h (by omega)
  right
  split <;> omega

/-- `get_bits(64)` always panics (`1u64 << 64` in `peek_bits`) -/
theorem bitReaderRev_getBits_64_faults {src : Array Nat} {r : BitReaderRev} {pos : Nat}
    (h : RevInv src r pos) :
    r.getBits 64 = .error (.overflow "bit_reader_reverse.rs:243:peek_bits:1<<n") := by
  have hbc := h.bc_le
  unfold BitReaderRev.getBits
  rw [if_neg (by omega)]
  by_cases hre : r.bitsConsumed + 64 > 64
  · rw [if_pos hre]
    obtain ⟨r1, hr1, _, _⟩ := refill_ok h
    rw [hr1]
    simp only [BitReaderRev.peekBits]
    rw [if_neg (by omega), if_pos (by omega)]
  · rw [if_neg hre]
    simp only [BitReaderRev.peekBits]
    rw [if_neg (by omega), if_pos (by omega)]

/-- every request of 64 bits or more panics (u8 overflow of `bits_consumed + n`, or `1u64 << n`) -/
theorem bitReaderRev_getBits_ge64_faults {src : Array Nat} {r : BitReaderRev} {pos n : Nat}
    (h : RevInv src r pos) (hn : 64 ≤ n) : ∃ f, r.getBits n = .error f := by
  unfold BitReaderRev.getBits
  by_cases hov : r.bitsConsumed + n > 255
  · rw [if_pos hov]; exact ⟨_, rfl⟩
  · rw [if_neg hov]
    by_cases hre : r.bitsConsumed + n > 64
    · rw [if_pos hre]
      obtain ⟨r1, hr1, _, _⟩ := refill_ok h
      rw [hr1]
      simp only [BitReaderRev.peekBits]
      rw [if_neg (by omega), if_pos (by omega)]
      exact ⟨_, rfl⟩
    · rw [if_neg hre]
      simp only [BitReaderRev.peekBits]
      rw [if_neg (by omega), if_pos (by omega)]
      exact ⟨_, rfl⟩

/-- `57 ≤ n ≤ 63`: panics (`64 - bits_consumed - n` underflows in `peek_bits`) exactly when the
request does not fit even after the refill, i.e. when the window is still inside the source and
`bits_consumed % 8 + n > 64`. -/
theorem bitReaderRev_getBits_wide_faults {src : Array Nat} {r : BitReaderRev} {pos n : Nat}
    (h : RevInv src r pos) (hn : n ≤ 63)
    (hnofit : r.bitsConsumed + n > 64 ∧
      (if r.bitsConsumed / 8 ≤ r.index then r.bitsConsumed % 8 else 0) + n > 64) :
    r.getBits n = .error (.overflow "bit_reader_reverse.rs:244:peek_bits:shift_by") := by
  have hbc := h.bc_le
  unfold BitReaderRev.getBits
  rw [if_neg (by omega), if_pos hnofit.1]
  obtain ⟨r1, hr1, _, hbc1⟩ := refill_ok h
  rw [hr1]
  simp only [BitReaderRev.peekBits]
  rw [if_neg (by omega), if_neg (by omega), if_pos (by rw [hbc1]; omega)]

/-! ### `get_bits_triple` -/

theorem triple_num (c b n1 n2 n3 : Nat) (h : b + (n1 + n2 + n3) ≤ 64) :
    let all := c >>> (64 - b - (n1 + n2 + n3))
    let w := (c % 2 ^ (64 - b)) / 2 ^ (64 - b - (n1 + n2 + n3)) % 2 ^ (n1 + n2 + n3)
    (all >>> (n3 + n2)) &&& (2 ^ n1 - 1) = w / 2 ^ (n1 + n2 + n3 - n1) % 2 ^ n1 ∧
    (all >>> n3) &&& (2 ^ n2 - 1) = (w % 2 ^ (n1 + n2 + n3 - n1)) / 2 ^ (n1 + n2 + n3 - n1 - n2) % 2 ^ n2 ∧
    all &&& (2 ^ n3 - 1) = (w % 2 ^ (n1 + n2 + n3 - n1)) % 2 ^ (n1 + n2 + n3 - n1 - n2) := by
  refine ⟨?_, ?_, ?_⟩ <;> bb

/-- `get_bits_triple` equals three successive reads — fast path (one refill, one consume) and
slow path alike. -/
theorem getBitsTriple_eq_three_gets {src : Array Nat} {r : BitReaderRev} {pos n1 n2 n3 : Nat}
    (h : RevInv src r pos) (h1 : n1 ≤ 56) (h2 : n2 ≤ 56) (h3 : n3 ≤ 56) :
    ∃ r', r.getBitsTriple n1 n2 n3 =
        .ok (((readBEPad n1 ((stream src).drop pos)).1,
              (readBEPad n2 ((stream src).drop (pos + n1))).1,
              (readBEPad n3 ((stream src).drop (pos + n1 + n2))).1), r') ∧
      RevInv src r' (pos + n1 + n2 + n3) := by
  unfold BitReaderRev.getBitsTriple
  rw [if_neg (by omega)]
  simp only []
  by_cases hsum : n1 + n2 + n3 ≤ 56
  · -- fast path
    rw [if_pos hsum]
    obtain ⟨r1, hr1, hinv1, hbc1⟩ := refill_ok h
    have hbc8 : r1.bitsConsumed < 8 := by
      rw [hbc1]; have := h.bc_le; split <;> omega
    have hfit : r1.bitsConsumed + (n1 + n2 + n3) ≤ 64 := by omega
    obtain ⟨r2, hr2, hinv2, _⟩ := consume_ok hinv1 hfit
    rw [hr1]
    simp only []
    have hpeek : r1.peekBitsTriple (n1 + n2 + n3) n1 n2 n3 =
        .ok ((readBEPad n1 ((stream src).drop pos)).1,
              (readBEPad n2 ((stream src).drop (pos + n1))).1,
              (readBEPad n3 ((stream src).drop (pos + n1 + n2))).1) := by
      rw [readBEPad_stream h.bytes, readBEPad_stream h.bytes, readBEPad_stream h.bytes]
      unfold BitReaderRev.peekBitsTriple
      by_cases hs0 : n1 + n2 + n3 = 0
      · rw [if_pos hs0]
        have e1 : n1 = 0 := by omega
        have e2 : n2 = 0 := by omega
        have e3 : n3 = 0 := by omega
        subst e1 e2 e3
        simp only [win_zero]
      · rw [if_neg hs0, if_neg (by omega), if_neg (by omega)]
        simp only []
        obtain ⟨t1, t2, t3⟩ := triple_num r1.container r1.bitsConsumed n1 n2 n3 hfit
        rw [t1, t2, t3, hinv1.content', win_prefix _ _ _ _ _ (by omega : n1 + n2 + n3 ≤ 64 - r1.bitsConsumed),
          win_prefix _ _ _ _ _ (by omega : n1 ≤ n1 + n2 + n3),
          win_suffix _ _ _ _ _ (by omega : n1 ≤ n1 + n2 + n3),
          win_prefix _ _ _ _ _ (by omega : n2 ≤ n1 + n2 + n3 - n1),
          win_suffix _ _ _ _ _ (by omega : n2 ≤ n1 + n2 + n3 - n1),
          show n1 + n2 + n3 - n1 - n2 = n3 by omega]
    rw [hpeek]
    simp only []
    rw [hr2]
    refine ⟨r2, rfl, ?_⟩
    rw [show pos + n1 + n2 + n3 = pos + (n1 + n2 + n3) by omega]
    exact hinv2
  · -- slow path
    rw [if_neg hsum]
    obtain ⟨ra, hra, hinva⟩ := bitReaderRev_refines h h1
    obtain ⟨rb, hrb, hinvb⟩ := bitReaderRev_refines hinva h2
    obtain ⟨rc, hrc, hinvc⟩ := bitReaderRev_refines hinvb h3
    rw [hra]; simp only []
    rw [hrb]; simp only []
    rw [hrc]
    exact ⟨rc, rfl, hinvc⟩

/-! ### request sequences -/

/-- run a list of `get_bits` requests on the model -/
def runRev : BitReaderRev → List Nat → Except Fault (List Nat × BitReaderRev)
  | r, [] => .ok ([], r)
  | r, n :: ns =>
    match r.getBits n with
    | .error f => .error f
    | .ok (v, r') =>
      match runRev r' ns with
      | .error f => .error f
      | .ok (vs, r'') => .ok (v :: vs, r'')

/-- the successive `readBEPad` values from abstract position `pos` -/
def runRevSpec (s : List Bool) : Nat → List Nat → List Nat
  | _, [] => []
  | pos, n :: ns => (readBEPad n (s.drop pos)).1 :: runRevSpec s (pos + n) ns

theorem runRev_refines {src : Array Nat} {ns : List Nat} :
    ∀ {r : BitReaderRev} {pos : Nat}, RevInv src r pos → (∀ n ∈ ns, n ≤ 56) →
      ∃ r', runRev r ns = .ok (runRevSpec (stream src) pos ns, r') ∧ RevInv src r' (pos + ns.sum) ∧
        r'.bitsRemaining = 8 * (src.size : Int) - pos - ns.sum := by
  induction ns with
  | nil =>
    intro r pos h _
    refine ⟨r, rfl, by simpa using h, ?_⟩
    rw [RevInv_bitsRemaining h]; simp
  | cons n ns ih =>
    intro r pos h hn
    obtain ⟨r1, hr1, hinv1⟩ := bitReaderRev_refines h (hn n List.mem_cons_self)
    obtain ⟨r2, hr2, hinv2, hrem⟩ := ih hinv1 (fun m hm => hn m (List.mem_cons_of_mem _ hm))
    refine ⟨r2, ?_, ?_, ?_⟩
    · rw [runRev, hr1]; simp only []; rw [hr2]; rfl
    · rw [List.sum_cons, ← Nat.add_assoc]; exact hinv2
    · rw [hrem, List.sum_cons]; omega

/-- corollary from the initial state -/
theorem runRev_new {src : Array Nat} (hb : Bytes src.toList) {ns : List Nat} (hn : ∀ n ∈ ns, n ≤ 56) :
    ∃ r', runRev (BitReaderRev.new src) ns = .ok (runRevSpec (stream src) 0 ns, r') ∧
      r'.bitsRemaining = 8 * (src.size : Int) - ns.sum := by
  obtain ⟨r', h1, _, h3⟩ := runRev_refines (RevInv_new hb) hn
  exact ⟨r', h1, by rw [h3]; omega⟩

end Zstd.Proofs.BitIO
