import Zstd.Proofs.BitIO.Bridge
/-
C. `BitWriter` refines "append a little-endian field to a bit string".
-/
namespace Zstd.Proofs.BitIO
open Zstd Zstd.Spec Zstd.Model.BitIO

/-- the writer holds exactly the bit string `L` -/
structure WInv (w : BitWriter) (L : List Bool) : Prop where
  bits : bitsLE w.output.toList ++ bitsOfLE w.bitsInPartial w.partialBits = L
  bip_lt : w.bitsInPartial < 64
  partial_lt : w.partialBits < 2 ^ w.bitsInPartial
  bitIdx_eq : w.bitIdx = 8 * w.output.size
  bytes : Bytes w.output.toList

/-! ### helpers -/

theorem pushBytes_toList (out : Array Nat) (bs : List Nat) :
    (BitWriter.pushBytes out bs).toList = out.toList ++ bs := by
  induction bs generalizing out with
  | nil => simp [BitWriter.pushBytes]
  | cons b bs ih =>
    have := ih (out.push b)
    simp only [BitWriter.pushBytes, List.foldl_cons] at this ⊢
    rw [this]; simp

theorem pushBytes_size (out : Array Nat) (bs : List Nat) :
    (BitWriter.pushBytes out bs).size = out.size + bs.length := by
  rw [← Array.length_toList, pushBytes_toList]; simp

theorem pushBytes_cons (out : Array Nat) (b : Nat) (bs : List Nat) :
    BitWriter.pushBytes out (b :: bs) = BitWriter.pushBytes (out.push b) bs := rfl

theorem pushBytes_nil (out : Array Nat) : BitWriter.pushBytes out [] = out := rfl

theorem WInv.length {w : BitWriter} {L : List Bool} (h : WInv w L) :
    L.length = 8 * w.output.size + w.bitsInPartial := by
  rw [← h.bits]; simp

theorem or_u64_shiftLeft_lt {p b v n : Nat} (hp : p < 2 ^ b) (hv : v < 2 ^ n) :
    p ||| u64 (v <<< b) < 2 ^ (b + n) := by
  apply Nat.or_lt_two_pow
  · exact Nat.lt_of_lt_of_le hp (Nat.pow_le_pow_right (by omega) (by omega))
  · unfold u64
    apply Nat.lt_of_le_of_lt (Nat.mod_le _ _)
    rw [Nat.shiftLeft_eq, Nat.pow_add, Nat.mul_comm]
    exact (Nat.mul_lt_mul_left (Nat.two_pow_pos b)).2 hv

/-! ### constructors -/

theorem WInv_new : WInv BitWriter.new [] := by
  constructor <;> simp [BitWriter.new, bitsLE, bitsOfLE, Bytes]

theorem WInv_ofOutput {out : Array Nat} (h : Bytes out.toList) :
    WInv (BitWriter.ofOutput out) (bitsLE out.toList) := by
  constructor <;> simp [BitWriter.ofOutput, bitsOfLE, h] ; omega

/-- `index()` is the length of the abstract bit string -/
theorem WInv_index {w : BitWriter} {L : List Bool} (h : WInv w L) : w.index = L.length := by
  rw [h.length, BitWriter.index, h.bitIdx_eq]

theorem WInv_misaligned {w : BitWriter} {L : List Bool} (h : WInv w L) :
    w.misaligned = (8 - L.length % 8) % 8 := by
  rw [BitWriter.misaligned, WInv_index h]
  split <;> omega

/-! ### `write_bits` -/

/-- the `while num_bits / 8 > 0` loop pushes `nb / 8` little-endian bytes of `bits` -/
theorem coldBytes_eq (fuel : Nat) (out : Array Nat) (nb bits idx : Nat) (h : nb / 8 ≤ fuel) :
    BitWriter.coldBytes fuel out nb bits idx =
      (BitWriter.pushBytes out (leBytes (nb / 8) bits), nb % 8, bits >>> (8 * (nb / 8)), idx + 8 * (nb / 8)) := by
  induction fuel generalizing out nb bits idx with
  | zero =>
    have h0 : nb / 8 = 0 := by omega
    simp only [BitWriter.coldBytes, h0, leBytes, pushBytes_nil, Nat.mul_zero, Nat.shiftRight_zero, Nat.add_zero]
    rw [Nat.mod_eq_of_lt (by omega)]
  | succ fuel ih =>
    rw [BitWriter.coldBytes]
    split
    · rename_i hpos
      rw [ih _ _ _ _ (by omega)]
      have hq : nb / 8 = (nb - 8) / 8 + 1 := by omega
      rw [hq, leBytes, pushBytes_cons, ← Nat.shiftRight_add, Nat.shiftRight_eq_div_pow bits 8]
      have : (nb - 8) % 8 = nb % 8 := by omega
      rw [this]
      have : 8 + 8 * ((nb - 8) / 8) = 8 * ((nb - 8) / 8 + 1) := by omega
      rw [this]
      have : idx + 8 + 8 * ((nb - 8) / 8) = idx + 8 * ((nb - 8) / 8 + 1) := by omega
      rw [this]
    · rename_i hpos
      have h0 : nb / 8 = 0 := by omega
      simp only [h0, leBytes, pushBytes_nil, Nat.mul_zero, Nat.shiftRight_zero, Nat.add_zero]
      rw [Nat.mod_eq_of_lt (by omega)]

theorem writeBitsCold_ok {w : BitWriter} {L : List Bool} {v n : Nat} (h : WInv w L)
    (hn : n ≤ 64) (hcold : ¬ (n + w.bitsInPartial < 64)) (h64 : w.bitsInPartial ≠ 0) :
    ∃ w', w.writeBitsCold v n = .ok w' ∧ WInv w' (L ++ bitsOfLE n v) := by
  have hbip := h.bip_lt
  unfold BitWriter.writeBitsCold
  rw [if_neg (by omega)]
  simp only []
  rw [if_neg (by omega), if_neg (by omega)]
  rw [coldBytes_eq _ _ _ _ _ (by omega)]
  simp only []
  have hsub : 64 - (64 - w.bitsInPartial) = w.bitsInPartial := by omega
  rw [hsub]
  generalize hfree : 64 - w.bitsInPartial = free at *
  generalize hq : (n - free) / 8 = q
  generalize hr : (n - free) % 8 = r
  have hr8 : r < 8 := by omega
  -- the abstract string, split the way the cold path writes it
  have hL : L ++ bitsOfLE n v =
      bitsLE (w.output.toList ++ leBytes 8 (w.partialBits ||| u64 (v <<< w.bitsInPartial)) ++ leBytes q (v >>> free))
        ++ bitsOfLE r (v >>> free >>> (8 * q)) := by
    rw [bitsLE_append, bitsLE_append, bitsLE_leBytes, bitsLE_leBytes, List.append_assoc, List.append_assoc,
      ← bitsOfLE_split, ← h.bits, List.append_assoc]
    have hn' : n = free + (8 * q + r) := by omega
    rw [show bitsOfLE n v = bitsOfLE (free + (8 * q + r)) v by rw [← hn'], bitsOfLE_split free, ← List.append_assoc (bitsOfLE _ _),
      bitsOfLE_append_of_lt _ _ h.partial_lt]
    congr 2
    rw [show w.bitsInPartial + free = 8 * 8 by omega]
    apply bitsOfLE_congr
    intro i hi
    unfold u64; tb_simp; grind
  have hbytes : Bytes (w.output.toList ++ leBytes 8 (w.partialBits ||| u64 (v <<< w.bitsInPartial)) ++ leBytes q (v >>> free)) :=
    Bytes_append.2 ⟨Bytes_append.2 ⟨h.bytes, Bytes_leBytes _ _⟩, Bytes_leBytes _ _⟩
  split
  · rename_i hpos
    refine ⟨_, rfl, ?_⟩
    constructor
    · simp only [pushBytes_toList]
      rw [hL, Nat.and_two_pow_sub_one_eq_mod, bitsOfLE_mod]
    · simp only []; omega
    · simp only []; rw [Nat.and_two_pow_sub_one_eq_mod]; exact Nat.mod_lt _ (Nat.two_pow_pos _)
    · simp only [pushBytes_size, leBytes_length]; rw [h.bitIdx_eq]; omega
    · simp only [pushBytes_toList]; exact hbytes
  · rename_i hpos
    have hr0 : r = 0 := by omega
    refine ⟨_, rfl, ?_⟩
    constructor
    · simp only [pushBytes_toList]
      rw [hL, hr0, bitsOfLE_zero, bitsOfLE_zero]
    · simp only []; omega
    · simp only []; omega
    · simp only [pushBytes_size, leBytes_length]; rw [h.bitIdx_eq]; omega
    · simp only [pushBytes_toList]; exact hbytes

/-- General form: `n ≤ 64`, and `n = 64` needs a non-empty partial buffer. -/
theorem bitWriter_refines_gen {w : BitWriter} {L : List Bool} {v n : Nat} (h : WInv w L) (hv : v < 2 ^ n)
    (hn : n ≤ 64) (h64 : n = 64 → w.bitsInPartial ≠ 0) :
    ∃ w', w.writeBits v n = .ok w' ∧ WInv w' (L ++ bitsOfLE n v) := by
  unfold BitWriter.writeBits
  by_cases h0 : n = 0
  · subst h0
    rw [if_pos rfl, bitsOfLE_zero, List.append_nil]
    exact ⟨w, rfl, h⟩
  · rw [if_neg h0]
    have hlog : ¬ (v > 0 ∧ Nat.log2 v > n) := by
      rintro ⟨hpos, hl⟩
      have := (Nat.log2_lt (by omega : v ≠ 0)).2 hv
      omega
    rw [if_neg hlog]
    by_cases hfast : n + w.bitsInPartial < 64
    · rw [if_pos hfast]
      refine ⟨_, rfl, ?_⟩
      constructor
      · simp only []
        rw [← h.bits, List.append_assoc, bitsOfLE_append_of_lt _ _ h.partial_lt]
        congr 1
        apply bitsOfLE_congr
        intro i hi
        unfold u64; tb_simp; grind
      · simp only []; omega
      · exact or_u64_shiftLeft_lt h.partial_lt hv
      · exact h.bitIdx_eq
      · exact h.bytes
    · rw [if_neg hfast]
      have hbip := h.bip_lt
      exact writeBitsCold_ok h hn hfast (by
        intro hz
        exact h64 (by omega) hz)

/-- C, main theorem: `write_bits(v, n)` appends the `n` little-endian bits of `v`
(fast path and cold path), for every `n ≤ 63`. -/
theorem bitWriter_refines {w : BitWriter} {L : List Bool} {v n : Nat} (h : WInv w L) (hv : v < 2 ^ n)
    (hn : n ≤ 63) : ∃ w', w.writeBits v n = .ok w' ∧ WInv w' (L ++ bitsOfLE n v) :=
  bitWriter_refines_gen h hv (by omega) (by omega)

/-- `n = 64` works exactly when the partial buffer is not empty … -/
theorem bitWriter_refines_64 {w : BitWriter} {L : List Bool} {v : Nat} (h : WInv w L) (hv : v < 2 ^ 64)
    (hp : w.bitsInPartial ≠ 0) : ∃ w', w.writeBits v 64 = .ok w' ∧ WInv w' (L ++ bitsOfLE 64 v) :=
  bitWriter_refines_gen h hv (by omega) (fun _ => hp)

/-- … and panics (`bits >> 64`, bit_writer.rs:149) when it is empty, e.g. on a fresh writer or
right after `flush`.  (No hypothesis on `v` other than the `u64` range.) -/
theorem bitWriter_write64_empty_faults {w : BitWriter} {v : Nat} (hv : v < 2 ^ 64)
    (hp : w.bitsInPartial = 0) :
    w.writeBits v 64 = .error (.overflow "bit_writer.rs:149:write_bits_64_cold:shr") := by
  unfold BitWriter.writeBits
  rw [if_neg (by omega)]
  have hlog : ¬ (v > 0 ∧ Nat.log2 v > 64) := by
    rintro ⟨hpos, hl⟩
    have := (Nat.log2_lt (by omega : v ≠ 0)).2 hv
    omega
  rw [if_neg hlog, if_neg (by omega)]
  unfold BitWriter.writeBitsCold
  rw [if_neg (by omega)]
  simp only [hp]
  rw [if_neg (by omega), if_pos (by omega)]

/-- The `debug_assert!(bits.ilog2() <= num_bits)` of `write_bits_64` (bit_writer.rs:176) is weaker
than the documented precondition `bits < 2^num_bits`: it admits one extra bit.  `write_bits(2, 1)`
passes the assertion, and the stray bit is OR-ed into the following field (the abstract string
would be eight zero bits, i.e. the byte 0). -/
theorem writeBits_wide_value_corrupts :
    (do let w ← BitWriter.new.writeBits 2 1
        let w ← w.writeBits 0 7
        w.dump : Except Fault (Array Nat)) = .ok #[2] := by decide

/-! ### `flush`, `dump`, `append_bytes`, `reset_to` -/

theorem bitWriter_flush {w : BitWriter} {L : List Bool} (h : WInv w L) (hal : L.length % 8 = 0) :
    ∃ w', w.flush = .ok w' ∧ WInv w' L ∧ w'.bitsInPartial = 0 ∧ w'.partialBits = 0 ∧
      bitsLE w'.output.toList = L := by
  have hbip := h.bip_lt
  have hlen := h.length
  have hfull : w.bitsInPartial / 8 * 8 = w.bitsInPartial := by omega
  have hp0 : w.partialBits >>> w.bitsInPartial = 0 := by
    rw [Nat.shiftRight_eq_div_pow, Nat.div_eq_of_lt h.partial_lt]
  have hout : bitsLE (w.output.toList ++ (leBytes 8 w.partialBits).take (w.bitsInPartial / 8)) = L := by
    rw [take_leBytes, bitsLE_append, bitsLE_leBytes, Nat.min_eq_left (by omega),
      show 8 * (w.bitsInPartial / 8) = w.bitsInPartial by omega, h.bits]
  unfold BitWriter.flush
  rw [if_neg (by omega)]
  simp only []
  rw [if_neg (by omega), if_neg (by omega)]
  refine ⟨_, rfl, ?_, ?_, ?_, ?_⟩
  · constructor
    · simp only [pushBytes_toList, hfull, Nat.sub_self, bitsOfLE_zero, List.append_nil]
      exact hout
    · simp only []; omega
    · simp only [hfull, hp0, Nat.sub_self]; omega
    · simp only [pushBytes_size, List.length_take, leBytes_length]; rw [h.bitIdx_eq]; omega
    · simp only [pushBytes_toList]
      exact Bytes_append.2 ⟨h.bytes, Bytes_take (Bytes_leBytes _ _) _⟩
  · simp only []; omega
  · simp only [hfull, hp0]
  · simp only [pushBytes_toList]; exact hout

theorem bitWriter_dump {w : BitWriter} {L : List Bool} (h : WInv w L) (hal : L.length % 8 = 0) :
    ∃ out, w.dump = .ok out ∧ bitsLE out.toList = L ∧ Bytes out.toList := by
  obtain ⟨w', hf, hw', _, hp, hout⟩ := bitWriter_flush h hal
  unfold BitWriter.dump
  rw [WInv_misaligned h, if_neg (by omega), hf]
  simp only []
  rw [if_neg (by omega)]
  exact ⟨_, rfl, hout, hw'.bytes⟩

/-- a misaligned `dump` panics -/
theorem bitWriter_dump_misaligned_faults {w : BitWriter} {L : List Bool} (h : WInv w L)
    (hal : L.length % 8 ≠ 0) : w.dump = .error (.assert "bit_writer.rs:197:dump") := by
  unfold BitWriter.dump
  rw [WInv_misaligned h, if_pos (by omega)]

theorem bitWriter_appendBytes {w : BitWriter} {L : List Bool} {data : List Nat} (h : WInv w L)
    (hal : L.length % 8 = 0) (hd : Bytes data) :
    ∃ w', w.appendBytes data = .ok w' ∧ WInv w' (L ++ bitsLE data) := by
  obtain ⟨w', hf, hw', hb, hp, hout⟩ := bitWriter_flush h hal
  unfold BitWriter.appendBytes
  rw [WInv_misaligned h, if_neg (by omega), hf]
  refine ⟨_, rfl, ?_⟩
  constructor
  · simp only [pushBytes_toList, hb, bitsOfLE_zero, List.append_nil]
    rw [bitsLE_append, hout]
  · simp only []; rw [hb]; omega
  · simp only []; rw [hb, hp]; omega
  · simp only [pushBytes_size]; rw [hw'.bitIdx_eq]; omega
  · simp only [pushBytes_toList]; exact Bytes_append.2 ⟨hw'.bytes, hd⟩

theorem bitsLE_take (l : List Nat) (k : Nat) : bitsLE (l.take k) = (bitsLE l).take (8 * k) := by
  induction l generalizing k with
  | nil => simp [bitsLE]
  | cons b bs ih =>
    cases k with
    | zero => simp [bitsLE]
    | succ k =>
      rw [List.take_succ_cons, bitsLE, bitsLE, ih, List.take_append]
      have h8 : (byteBitsLE b).length = 8 := rfl
      rw [h8, List.take_of_length_le (l := byteBitsLE b) (by rw [h8]; omega)]
      congr 2 <;> omega

/-- `reset_to(index)` for a byte-aligned index inside the flushed output: truncation.
(If `index` lies beyond the flushed bytes the Rust code zero-fills and DROPS the pending partial
bits — see `bitWriter_resetTo_beyond`.) -/
theorem bitWriter_resetTo {w : BitWriter} {L : List Bool} {index : Nat} (h : WInv w L)
    (hal : index % 8 = 0) (hle : index ≤ 8 * w.output.size) :
    ∃ w', w.resetTo index = .ok w' ∧ WInv w' (L.take index) := by
  unfold BitWriter.resetTo
  rw [if_neg (by omega)]
  simp only []
  rw [if_pos (by omega)]
  refine ⟨_, rfl, ?_⟩
  have hlist : (w.output.extract 0 (index / 8)).toList = w.output.toList.take (index / 8) := by
    simp
  constructor
  · simp only [bitsOfLE_zero, List.append_nil]
    rw [hlist, bitsLE_take, ← h.bits, List.take_append_of_le_length (by simp; omega)]
    congr 1; omega
  · simp only []; omega
  · simp only []; omega
  · simp only [Array.size_extract]; omega
  · rw [hlist]; exact Bytes_take h.bytes _

theorem bitsLE_replicate_zero (k : Nat) : bitsLE (List.replicate k 0) = List.replicate (8 * k) false := by
  induction k with
  | zero => rfl
  | succ k ih =>
    rw [List.replicate_succ, bitsLE, ih, show 8 * (k + 1) = 8 + 8 * k by omega,
      ← List.replicate_append_replicate]
    rfl

/-- `reset_to(index)` beyond the flushed output: `Vec::resize` zero-fills, the partial buffer is
discarded, so pending (unflushed) bits are replaced by zeroes. -/
theorem bitWriter_resetTo_beyond {w : BitWriter} {L : List Bool} {index : Nat} (h : WInv w L)
    (hal : index % 8 = 0) (hgt : 8 * w.output.size < index) :
    ∃ w', w.resetTo index = .ok w' ∧
      WInv w' (bitsLE w.output.toList ++ List.replicate (index - 8 * w.output.size) false) := by
  unfold BitWriter.resetTo
  rw [if_neg (by omega)]
  simp only []
  rw [if_neg (by omega)]
  refine ⟨_, rfl, ?_⟩
  constructor
  · simp only [bitsOfLE_zero, List.append_nil, pushBytes_toList]
    rw [bitsLE_append, bitsLE_replicate_zero]
    congr 2; omega
  · simp only []; omega
  · simp only []; omega
  · simp only [pushBytes_size, List.length_replicate]; omega
  · simp only [pushBytes_toList]; exact Bytes_append.2 ⟨h.bytes, Bytes_replicate_zero _⟩

/-! ### a whole list of fields -/

/-- write the fields `(v, n)` in order -/
def writeAll : BitWriter → List (Nat × Nat) → Except Fault BitWriter
  | w, [] => .ok w
  | w, (v, n) :: fs =>
    match w.writeBits v n with
    | .error f => .error f
    | .ok w' => writeAll w' fs

/-- the abstract bit string of a list of fields -/
def fieldsBits : List (Nat × Nat) → List Bool
  | [] => []
  | (v, n) :: fs => bitsOfLE n v ++ fieldsBits fs

theorem length_fieldsBits (fs : List (Nat × Nat)) :
    (fieldsBits fs).length = (fs.map (·.2)).sum := by
  induction fs with
  | nil => rfl
  | cons f fs ih => obtain ⟨v, n⟩ := f; simp [fieldsBits, ih]

theorem bitWriter_writeAll {w : BitWriter} {L : List Bool} {fs : List (Nat × Nat)} (h : WInv w L)
    (hf : ∀ f ∈ fs, f.1 < 2 ^ f.2 ∧ f.2 ≤ 63) :
    ∃ w', writeAll w fs = .ok w' ∧ WInv w' (L ++ fieldsBits fs) := by
  induction fs generalizing w L with
  | nil => exact ⟨w, rfl, by simpa [fieldsBits] using h⟩
  | cons f fs ih =>
    obtain ⟨v, n⟩ := f
    have hvn := hf (v, n) (List.mem_cons_self)
    obtain ⟨w1, hw1, hinv1⟩ := bitWriter_refines h hvn.1 hvn.2
    obtain ⟨w2, hw2, hinv2⟩ := ih hinv1 (fun f hfm => hf f (List.mem_cons_of_mem _ hfm))
    refine ⟨w2, ?_, ?_⟩
    · rw [writeAll, hw1]; exact hw2
    · rw [fieldsBits, ← List.append_assoc]; exact hinv2

end Zstd.Proofs.BitIO
