import Zstd.Model.BitIO
import Zstd.Spec.Bits
/-
Bridge lemmas between the list-of-bits vocabulary of `Zstd.Spec.Bits`, the numeric vocabulary of
the model (`leNat`, shifts, masks) and `Nat.testBit`.

Method: every identity between shift/mask/or/div/mod expressions is proved by `bb`
(bit-blasting: `Nat.eq_of_testBit_eq`, push `testBit` through every operator, finish with `grind`).
No Mathlib import is needed.
-/
namespace Zstd.Proofs.BitIO
open Zstd Zstd.Spec

/-- simp set that pushes `Nat.testBit` through the operators used by the model -/
macro "tb_simp" : tactic => `(tactic|
  simp only [Nat.testBit_mod_two_pow, Nat.testBit_div_two_pow, Nat.testBit_mul_two_pow,
    Nat.testBit_shiftLeft, Nat.testBit_shiftRight, Nat.testBit_or, Nat.testBit_and,
    Nat.testBit_two_pow_sub_one, Nat.testBit_two_pow_mul, Nat.zero_testBit])

/-- bit-blast a `Nat` equation -/
macro "bb" : tactic => `(tactic|
  (apply Nat.eq_of_testBit_eq; intro i; tb_simp; grind))

/-- "is a byte string" -/
def Bytes (l : List Nat) : Prop := ∀ b ∈ l, b < 256

/-- `n` little-endian bits of `v` -/
def bitsOfLE (n v : Nat) : List Bool := (List.range n).map (fun i => v / 2 ^ i % 2 = 1)

theorem Bytes_nil : Bytes [] := by intro b hb; cases hb

theorem Bytes_cons {b : Nat} {l : List Nat} : Bytes (b :: l) ↔ b < 256 ∧ Bytes l := by
  simp [Bytes]

theorem Bytes_append {a b : List Nat} : Bytes (a ++ b) ↔ Bytes a ∧ Bytes b := by
  simp only [Bytes, List.mem_append]
  constructor
  · intro h; exact ⟨fun x hx => h x (Or.inl hx), fun x hx => h x (Or.inr hx)⟩
  · rintro ⟨h1, h2⟩ x (hx | hx)
    · exact h1 x hx
    · exact h2 x hx

theorem Bytes_take {l : List Nat} (h : Bytes l) (k : Nat) : Bytes (l.take k) :=
  fun b hb => h b (List.mem_of_mem_take hb)

theorem Bytes_drop {l : List Nat} (h : Bytes l) (k : Nat) : Bytes (l.drop k) :=
  fun b hb => h b (List.mem_of_mem_drop hb)

theorem Bytes_leBytes (n v : Nat) : Bytes (leBytes n v) := leBytes_lt n v

theorem Bytes_replicate_zero (n : Nat) : Bytes (List.replicate n 0) := by
  intro b hb; rw [List.mem_replicate] at hb; omega

theorem or_shiftLeft_eq_add {a n : Nat} (h : a < 2 ^ n) (b : Nat) : a ||| b <<< n = a + b * 2 ^ n := by
  rw [Nat.or_comm, ← Nat.shiftLeft_add_eq_or_of_lt h, Nat.shiftLeft_eq, Nat.add_comm]

/-! ### `bitsOfLE` -/

@[simp] theorem length_bitsOfLE (n v : Nat) : (bitsOfLE n v).length = n := by simp [bitsOfLE]

theorem getElem_bitsOfLE {n v i : Nat} (h : i < (bitsOfLE n v).length) :
    (bitsOfLE n v)[i] = v.testBit i := by
  simp [bitsOfLE, Nat.testBit_eq_decide_div_mod_eq]

theorem getElem?_bitsOfLE (n v i : Nat) :
    (bitsOfLE n v)[i]? = if i < n then some (v.testBit i) else none := by
  split
  · rename_i h
    rw [List.getElem?_eq_getElem (by simpa using h), getElem_bitsOfLE]
  · rename_i h
    exact List.getElem?_eq_none (by simpa using h)

theorem bitsOfLE_zero (v : Nat) : bitsOfLE 0 v = [] := rfl

theorem bitsOfLE_congr {n v w : Nat} (h : ∀ i, i < n → v.testBit i = w.testBit i) :
    bitsOfLE n v = bitsOfLE n w := by
  apply List.ext_getElem (by simp)
  intro i h1 h2
  rw [getElem_bitsOfLE, getElem_bitsOfLE]
  exact h i (by simpa using h1)

theorem bitsOfLE_mod (n v : Nat) : bitsOfLE n (v % 2 ^ n) = bitsOfLE n v :=
  bitsOfLE_congr (fun i hi => by tb_simp; simp [hi])

theorem bitsOfLE_mod' (n m v : Nat) (h : n ≤ m) : bitsOfLE n (v % 2 ^ m) = bitsOfLE n v :=
  bitsOfLE_congr (fun i hi => by tb_simp; grind)

/-- concatenation: the second field sits above the first -/
theorem bitsOfLE_append (n m a b : Nat) :
    bitsOfLE n a ++ bitsOfLE m b = bitsOfLE (n + m) (a % 2 ^ n ||| b <<< n) := by
  apply List.ext_getElem (by simp)
  intro i h1 h2
  rw [getElem_bitsOfLE, List.getElem_append]
  simp only [length_bitsOfLE, List.length_append] at h1 h2 ⊢
  split
  · rw [getElem_bitsOfLE]; tb_simp; grind
  · rw [getElem_bitsOfLE]; tb_simp; grind

theorem bitsOfLE_append_of_lt {n a : Nat} (m b : Nat) (h : a < 2 ^ n) :
    bitsOfLE n a ++ bitsOfLE m b = bitsOfLE (n + m) (a ||| b <<< n) := by
  rw [bitsOfLE_append, Nat.mod_eq_of_lt h]

/-- splitting a field -/
theorem bitsOfLE_split (a b v : Nat) :
    bitsOfLE (a + b) v = bitsOfLE a v ++ bitsOfLE b (v >>> a) := by
  rw [bitsOfLE_append]
  apply bitsOfLE_congr
  intro i hi; tb_simp; grind

theorem drop_bitsOfLE (n v i : Nat) : (bitsOfLE n v).drop i = bitsOfLE (n - i) (v >>> i) := by
  apply List.ext_getElem (by simp)
  intro j h1 h2
  rw [List.getElem_drop, getElem_bitsOfLE, getElem_bitsOfLE, Nat.testBit_shiftRight]

theorem take_bitsOfLE (n v k : Nat) : (bitsOfLE n v).take k = bitsOfLE (min k n) v := by
  apply List.ext_getElem (by simp)
  intro j h1 h2
  rw [List.getElem_take, getElem_bitsOfLE, getElem_bitsOfLE]

/-! ### `valLE` -/

theorem valLE_testBit (l : List Bool) (i : Nat) : (valLE l).testBit i = l[i]?.getD false := by
  induction l generalizing i with
  | nil => simp [valLE]
  | cons b bs ih =>
    cases i with
    | zero =>
      simp only [valLE, Nat.testBit_zero, List.getElem?_cons_zero, Option.getD_some]
      cases b <;> simp <;> omega
    | succ i =>
      simp only [valLE, Nat.testBit_succ, List.getElem?_cons_succ]
      rw [← ih]
      congr 1
      cases b <;> simp <;> omega

theorem valLE_lt (l : List Bool) : valLE l < 2 ^ l.length := by
  induction l with
  | nil => simp [valLE]
  | cons b bs ih =>
    simp only [valLE, List.length_cons, Nat.pow_succ]
    cases b <;> simp <;> omega

theorem valLE_bitsOfLE_mod (n v : Nat) : valLE (bitsOfLE n v) = v % 2 ^ n := by
  apply Nat.eq_of_testBit_eq
  intro i
  rw [valLE_testBit, getElem?_bitsOfLE, Nat.testBit_mod_two_pow]
  split <;> simp [*]

/-- D: `valLE` inverts `bitsOfLE` -/
theorem valLE_bitsOfLE {n v : Nat} (h : v < 2 ^ n) : valLE (bitsOfLE n v) = v := by
  rw [valLE_bitsOfLE_mod, Nat.mod_eq_of_lt h]

/-- every bit list is the `bitsOfLE` of its value -/
theorem bitsOfLE_valLE (l : List Bool) : bitsOfLE l.length (valLE l) = l := by
  apply List.ext_getElem (by simp)
  intro i h1 h2
  rw [getElem_bitsOfLE, valLE_testBit, List.getElem?_eq_getElem h2, Option.getD_some]

theorem valLE_inj {l1 l2 : List Bool} (hl : l1.length = l2.length) (hv : valLE l1 = valLE l2) :
    l1 = l2 := by
  rw [← bitsOfLE_valLE l1, ← bitsOfLE_valLE l2, hl, hv]

theorem valLE_append (a b : List Bool) : valLE (a ++ b) = valLE a + 2 ^ a.length * valLE b := by
  induction a with
  | nil => simp [valLE]
  | cons x xs ih =>
    simp only [List.cons_append, valLE, ih, List.length_cons, Nat.pow_succ]
    rw [Nat.mul_add, Nat.mul_comm (2 ^ xs.length) 2, Nat.mul_assoc, Nat.add_assoc]

theorem valLE_drop (l : List Bool) (i : Nat) : valLE (l.drop i) = valLE l / 2 ^ i := by
  apply Nat.eq_of_testBit_eq
  intro j
  rw [valLE_testBit, Nat.testBit_div_two_pow, valLE_testBit, List.getElem?_drop, Nat.add_comm]

theorem valLE_take (l : List Bool) (k : Nat) : valLE (l.take k) = valLE l % 2 ^ k := by
  apply Nat.eq_of_testBit_eq
  intro j
  rw [valLE_testBit, Nat.testBit_mod_two_pow, valLE_testBit, List.getElem?_take]
  split <;> simp [*]

/-- the bridge lemma suggested in the task statement (no side condition is needed) -/
theorem valLE_take_drop (l : List Bool) (i n : Nat) :
    valLE ((l.drop i).take n) = valLE l / 2 ^ i % 2 ^ n := by
  rw [valLE_take, valLE_drop]

/-! ### `valBE` -/

theorem valBE_append_singleton (l : List Bool) (b : Bool) :
    valBE (l ++ [b]) = 2 * valBE l + (if b then 1 else 0) := by
  simp [valBE, List.foldl_append]

theorem valLE_eq_valBE_reverse (l : List Bool) : valLE l = valBE l.reverse := by
  induction l with
  | nil => rfl
  | cons b bs ih =>
    rw [List.reverse_cons, valBE_append_singleton, ← ih, valLE, Nat.add_comm]

theorem valBE_eq_valLE_reverse (l : List Bool) : valBE l = valLE l.reverse := by
  rw [valLE_eq_valBE_reverse, List.reverse_reverse]

/-- D: `valBE` of the reversed field -/
theorem valBE_reverse_bitsOfLE {n v : Nat} (h : v < 2 ^ n) : valBE (bitsOfLE n v).reverse = v := by
  rw [← valLE_eq_valBE_reverse, valLE_bitsOfLE h]

theorem valBE_lt (l : List Bool) : valBE l < 2 ^ l.length := by
  rw [valBE_eq_valLE_reverse]
  simpa using valLE_lt l.reverse

/-! ### `bitsLE` and `leNat` -/

theorem byteBitsLE_eq (b : Nat) : byteBitsLE b = bitsOfLE 8 b := by
  simp [byteBitsLE, bitsOfLE, List.range_succ]

theorem bitsLE_append (a b : List Nat) : bitsLE (a ++ b) = bitsLE a ++ bitsLE b := by
  induction a with
  | nil => rfl
  | cons x xs ih => simp [bitsLE, ih]

@[simp] theorem length_bitsLE (l : List Nat) : (bitsLE l).length = 8 * l.length := by
  induction l with
  | nil => rfl
  | cons x xs ih => simp [bitsLE, byteBitsLE, ih]; omega

theorem leNat_lt {l : List Nat} (h : Bytes l) : leNat l < 2 ^ (8 * l.length) := by
  induction l with
  | nil => simp [leNat]
  | cons b bs ih =>
    have hb := (Bytes_cons.1 h).1
    have := ih (Bytes_cons.1 h).2
    simp only [leNat, List.length_cons]
    rw [show 8 * (bs.length + 1) = 8 * bs.length + 8 by omega, Nat.pow_add]
    omega

/-- bridge lemma: the bits of a byte string are the bits of its little-endian value -/
theorem bitsLE_eq {l : List Nat} (h : Bytes l) : bitsLE l = bitsOfLE (8 * l.length) (leNat l) := by
  induction l with
  | nil => rfl
  | cons b bs ih =>
    have hb := (Bytes_cons.1 h).1
    rw [bitsLE, ih (Bytes_cons.1 h).2, byteBitsLE_eq, bitsOfLE_append_of_lt _ _ (by omega : b < 2 ^ 8)]
    simp only [leNat, List.length_cons]
    rw [show 8 * (bs.length + 1) = 8 + 8 * bs.length by omega]
    congr 1
    rw [or_shiftLeft_eq_add (by omega : b < 2 ^ 8)]
    omega

/-- bridge lemma of the task statement -/
theorem valLE_bitsLE {l : List Nat} (h : Bytes l) : valLE (bitsLE l) = leNat l := by
  rw [bitsLE_eq h, valLE_bitsOfLE (leNat_lt h)]

theorem leNat_append {a b : List Nat} (ha : Bytes a) (hb : Bytes b) :
    leNat (a ++ b) = leNat a + 2 ^ (8 * a.length) * leNat b := by
  rw [← valLE_bitsLE (Bytes_append.2 ⟨ha, hb⟩), bitsLE_append, valLE_append, valLE_bitsLE ha,
    valLE_bitsLE hb, length_bitsLE]

theorem leNat_drop {l : List Nat} (h : Bytes l) (i : Nat) :
    leNat (l.drop i) = leNat l / 2 ^ (8 * i) := by
  by_cases hi : i ≤ l.length
  · have h1 := leNat_append (Bytes_take h i) (Bytes_drop h i)
    rw [List.take_append_drop, List.length_take, Nat.min_eq_left hi] at h1
    have h2 := leNat_lt (Bytes_take h i)
    rw [List.length_take, Nat.min_eq_left hi] at h2
    rw [h1, Nat.add_comm, Nat.mul_add_div (Nat.two_pow_pos _), Nat.div_eq_of_lt h2, Nat.add_zero]
  · rw [List.drop_eq_nil_of_le (by omega), leNat]
    have := leNat_lt h
    have : 2 ^ (8 * l.length) ≤ 2 ^ (8 * i) := Nat.pow_le_pow_right (by omega) (by omega)
    rw [Nat.div_eq_of_lt (by omega)]

theorem leNat_take {l : List Nat} (h : Bytes l) (k : Nat) :
    leNat (l.take k) = leNat l % 2 ^ (8 * k) := by
  by_cases hk : k ≤ l.length
  · have h1 := leNat_append (Bytes_take h k) (Bytes_drop h k)
    rw [List.take_append_drop, List.length_take, Nat.min_eq_left hk] at h1
    have h2 := leNat_lt (Bytes_take h k)
    rw [List.length_take, Nat.min_eq_left hk] at h2
    rw [h1, Nat.add_mul_mod_self_left, Nat.mod_eq_of_lt h2]
  · rw [List.take_of_length_le (by omega)]
    have := leNat_lt h
    have : 2 ^ (8 * l.length) ≤ 2 ^ (8 * k) := Nat.pow_le_pow_right (by omega) (by omega)
    rw [Nat.mod_eq_of_lt (by omega)]

theorem getElem_eq_leNat {l : List Nat} (h : Bytes l) {i : Nat} (hi : i < l.length) :
    l[i] = leNat l / 2 ^ (8 * i) % 256 := by
  rw [← leNat_drop h, List.drop_eq_getElem_cons hi, leNat]
  have := h l[i] (List.getElem_mem hi)
  omega

theorem bitsLE_leBytes (k x : Nat) : bitsLE (leBytes k x) = bitsOfLE (8 * k) x := by
  rw [bitsLE_eq (Bytes_leBytes k x), leBytes_length, leNat_leBytes,
    show (256 : Nat) ^ k = 2 ^ (8 * k) by rw [Nat.pow_mul], bitsOfLE_mod]

theorem take_leBytes (n v k : Nat) : (leBytes n v).take k = leBytes (min k n) v := by
  induction n generalizing v k with
  | zero => simp [leBytes]
  | succ n ih =>
    cases k with
    | zero => simp [leBytes]
    | succ k =>
      rw [show min (k + 1) (n + 1) = min k n + 1 by omega]
      simp [leBytes, ih]


/-! ### the Spec readers in "whole length" form

`Spec.readLE`/`readBE`/`readBEPad` test the length of the `n`-bit prefix (`(bits.take n).length < n`,
which keeps reads O(n)); the proofs use the equivalent test on the whole remaining stream.  Every proof
below goes through these three lemmas, never through `unfold`. -/

theorem readLE_def (n : Nat) (bits : List Bool) :
    readLE n bits = if bits.length < n then none else some (valLE (bits.take n), bits.drop n) := by
  unfold readLE
  by_cases h : bits.length < n
  · have h1 : (bits.take n).length < n := by rw [List.length_take]; omega
    simp only [h1, h, if_true]
  · have h1 : ¬ (bits.take n).length < n := by rw [List.length_take]; omega
    simp only [h1, h, if_false]

theorem readBE_def (n : Nat) (bits : List Bool) :
    readBE n bits = if bits.length < n then none else some (valBE (bits.take n), bits.drop n) := by
  unfold readBE
  by_cases h : bits.length < n
  · have h1 : (bits.take n).length < n := by rw [List.length_take]; omega
    simp only [h1, h, if_true]
  · have h1 : ¬ (bits.take n).length < n := by rw [List.length_take]; omega
    simp only [h1, h, if_false]

theorem readBEPad_def (n : Nat) (bits : List Bool) :
    readBEPad n bits = if bits.length < n then (valBE bits * 2 ^ (n - bits.length), [], n - bits.length)
      else (valBE (bits.take n), bits.drop n, 0) := by
  unfold readBEPad
  by_cases h : bits.length < n
  · have h1 : (bits.take n).length < n := by rw [List.length_take]; omega
    have h2 : bits.take n = bits := List.take_of_length_le (by omega)
    simp only [h1, h, if_true, h2]
  · have h1 : ¬ (bits.take n).length < n := by rw [List.length_take]; omega
    simp only [h1, h, if_false]

end Zstd.Proofs.BitIO
