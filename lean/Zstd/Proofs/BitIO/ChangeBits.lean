import Zstd.Proofs.BitIO.Writer
/-
C (last item). `change_bits(idx, v, n)` overwrites bits `[idx, idx+n)` of the written bit string.
-/
namespace Zstd.Proofs.BitIO
open Zstd Zstd.Spec Zstd.Model.BitIO

/-- bit `i` of a byte array (false beyond the end) -/
def bitAt (out : Array Nat) (i : Nat) : Bool := (out[i / 8]?.getD 0).testBit (i % 8)

theorem getElem_bitsLE (l : List Nat) : ∀ (i : Nat) (h : i < (bitsLE l).length),
    (bitsLE l)[i] = (l[i / 8]?.getD 0).testBit (i % 8) := by
  induction l with
  | nil => intro i h; simp [bitsLE] at h
  | cons b bs ih =>
    intro i h
    simp only [bitsLE]
    rw [List.getElem_append]
    split
    · rename_i hlt
      have hi : i < 8 := by simpa [byteBitsLE] using hlt
      have h1 : i / 8 = 0 := by omega
      have h2 : i % 8 = i := by omega
      simp only [byteBitsLE_eq, getElem_bitsOfLE, h1, h2, List.getElem?_cons_zero, Option.getD_some]
    · rename_i hge
      have h8 : (byteBitsLE b).length = 8 := rfl
      have hi : 8 ≤ i := by rw [h8] at hge; omega
      simp only [h8]
      rw [ih (i - 8) (by simp only [bitsLE, List.length_append, h8] at h; omega)]
      have h1 : i / 8 = (i - 8) / 8 + 1 := by omega
      have h2 : (i - 8) % 8 = i % 8 := by omega
      rw [h1, h2, List.getElem?_cons_succ]

theorem getElem_bitsLE_toList (out : Array Nat) (i : Nat) (h : i < (bitsLE out.toList).length) :
    (bitsLE out.toList)[i] = bitAt out i := by
  rw [getElem_bitsLE, bitAt, Array.getElem?_toList]

/-- `out` is `out0` with bits `[idx, cur)` replaced by the low bits of `v` -/
structure Patched (out0 out : Array Nat) (idx cur v : Nat) : Prop where
  size_eq : out.size = out0.size
  bytes : Bytes out.toList
  bit : ∀ i, bitAt out i = if idx ≤ i ∧ i < cur then v.testBit (i - idx) else bitAt out0 i

theorem Patched_refl {out0 : Array Nat} (hb : Bytes out0.toList) (idx v : Nat) :
    Patched out0 out0 idx idx v :=
  ⟨rfl, hb, fun i => by rw [if_neg (by omega)]⟩

theorem Bytes_set {l : List Nat} (h : Bytes l) (k x : Nat) (hx : x < 256) : Bytes (l.set k x) := by
  intro b hb
  rcases List.mem_or_eq_of_mem_set hb with hm | rfl
  · exact h b hm
  · exact hx

/-- overwrite one byte -/
theorem Patched_set {out0 out : Array Nat} {idx cur v : Nat} (h : Patched out0 out idx cur v)
    (k : Nat) (hk : k < out.size) (x : Nat) (hx : x < 256) (cur' : Nat)
    (hbits : ∀ j, j < 8 → x.testBit j =
      if idx ≤ 8 * k + j ∧ 8 * k + j < cur' then v.testBit (8 * k + j - idx) else bitAt out0 (8 * k + j))
    (hother : ∀ i, i / 8 ≠ k → ((idx ≤ i ∧ i < cur') ↔ (idx ≤ i ∧ i < cur))) :
    Patched out0 (out.set! k x) idx cur' v := by
  rw [Array.set!_eq_setIfInBounds]
  refine ⟨by rw [Array.size_setIfInBounds, h.size_eq], ?_, ?_⟩
  · rw [Array.toList_setIfInBounds]; exact Bytes_set h.bytes k x hx
  · intro i
    by_cases hik : i / 8 = k
    · have h1 := hbits (i % 8) (by omega)
      have h2 : 8 * k + i % 8 = i := by omega
      rw [h2] at h1
      rw [bitAt, Array.getElem?_setIfInBounds, if_pos hik.symm, if_pos hk, Option.getD_some, h1]
    · have h1 := h.bit i
      rw [bitAt] at h1
      rw [bitAt, Array.getElem?_setIfInBounds, if_neg (fun e => hik e.symm), h1]
      by_cases hc : idx ≤ i ∧ i < cur
      · rw [if_pos hc, if_pos ((hother i hik).2 hc)]
      · rw [if_neg hc, if_neg (fun hc' => hc ((hother i hik).1 hc'))]

/-- the current byte, bit by bit -/
theorem Patched.byte {out0 out : Array Nat} {idx cur v : Nat} (h : Patched out0 out idx cur v)
    {k b : Nat} (hb : out[k]? = some b) (j : Nat) (hj : j < 8) :
    b.testBit j = if idx ≤ 8 * k + j ∧ 8 * k + j < cur then v.testBit (8 * k + j - idx)
                  else bitAt out0 (8 * k + j) := by
  have h1 := h.bit (8 * k + j)
  rw [bitAt, show (8 * k + j) / 8 = k by omega, show (8 * k + j) % 8 = j by omega, hb] at h1
  exact h1

theorem getElem?_lt256 {out : Array Nat} (hb : Bytes out.toList) {k b : Nat} (h : out[k]? = some b) :
    b < 256 := by
  apply hb
  rw [Array.mem_toList_iff]
  exact Array.mem_of_getElem? h

/-- the `while num_bits >= 8` loop -/
theorem changeFull_ok {out0 : Array Nat} {idx v : Nat} :
    ∀ (fuel : Nat) (out : Array Nat) (k bits nb cur : Nat), Patched out0 out idx cur v →
      cur = 8 * k → idx ≤ cur → bits = v >>> (cur - idx) → cur + nb ≤ 8 * out0.size → nb / 8 ≤ fuel →
      ∃ out', BitWriter.changeFull fuel out k bits nb
          = .ok (out', k + nb / 8, v >>> (cur + 8 * (nb / 8) - idx), nb % 8) ∧
        Patched out0 out' idx (cur + 8 * (nb / 8)) v := by
  intro fuel
  induction fuel with
  | zero =>
    intro out k bits nb cur h hcur hidx hbits hsz hfuel
    have h0 : nb / 8 = 0 := by omega
    refine ⟨out, ?_, by rw [h0]; exact h⟩
    rw [BitWriter.changeFull, h0, hbits, Nat.mod_eq_of_lt (by omega)]; rfl
  | succ fuel ih =>
    intro out k bits nb cur h hcur hidx hbits hsz hfuel
    rw [BitWriter.changeFull]
    by_cases h8 : nb ≥ 8
    · rw [if_pos h8]
      have hk : k < out.size := by rw [h.size_eq]; omega
      rw [if_pos hk]
      have hp : Patched out0 (out.set! k (bits % 256)) idx (cur + 8) v := by
        apply Patched_set h k hk _ (Nat.mod_lt _ (by omega)) (cur + 8)
        · intro j hj
          rw [if_pos (by omega), hbits, show (256 : Nat) = 2 ^ 8 by rfl]
          tb_simp
          rw [show cur - idx + j = 8 * k + j - idx by omega]
          simp [hj]
        · intro i hi; omega
      obtain ⟨out', ho, hp'⟩ := ih (out.set! k (bits % 256)) (k + 1) (bits >>> 8) (nb - 8) (cur + 8) hp
        (by omega) (by omega) (by rw [hbits, ← Nat.shiftRight_add]; congr 1; omega) (by omega) (by omega)
      refine ⟨out', ?_, ?_⟩
      · rw [ho]
        have e1 : k + 1 + (nb - 8) / 8 = k + nb / 8 := by omega
        have e2 : cur + 8 + 8 * ((nb - 8) / 8) = cur + 8 * (nb / 8) := by omega
        have e3 : (nb - 8) % 8 = nb % 8 := by omega
        rw [e1, e2, e3]
      · have e2 : cur + 8 + 8 * ((nb - 8) / 8) = cur + 8 * (nb / 8) := by omega
        rw [← e2]; exact hp'
    · rw [if_neg h8]
      have h0 : nb / 8 = 0 := by omega
      refine ⟨out, ?_, by rw [h0]; exact h⟩
      rw [h0, hbits, Nat.mod_eq_of_lt (by omega)]; rfl

/-- a list that agrees with `L` outside `[idx, idx+n)` and with `v` inside -/
theorem patch_list (L L' : List Bool) (idx n v : Nat) (hlen : L'.length = L.length)
    (hle : idx + n ≤ L.length)
    (hbit : ∀ i (h : i < L.length), L'[i]'(by omega) =
      if idx ≤ i ∧ i < idx + n then v.testBit (i - idx) else L[i]) :
    L' = L.take idx ++ bitsOfLE n v ++ L.drop (idx + n) := by
  apply List.ext_getElem
  · simp; omega
  · intro i h1 h2
    rw [hbit i (by omega)]
    by_cases ha : i < idx
    · rw [if_neg (by omega), List.getElem_append_left (by simp; omega),
        List.getElem_append_left (by simp; omega), List.getElem_take]
    · by_cases hb : i < idx + n
      · rw [if_pos (by omega), List.getElem_append_left (by simp; omega),
          List.getElem_append_right (by simp; omega), getElem_bitsOfLE]
        congr 1; simp; omega
      · rw [if_neg (by omega), List.getElem_append_right (by simp; omega), List.getElem_drop]
        congr 1; simp; omega

theorem head_byte (b v c j : Nat) (hc : c < 8) (hj : j < 8) :
    ((b &&& ((2 ^ 8 - 1) >>> (8 - c))) ||| (u64 (v <<< (8 - (8 - c))) % 2 ^ 8)).testBit j
      = if c ≤ j then v.testBit (j - c) else b.testBit j := by
  unfold u64; tb_simp; grind

theorem tail_byte (b bits nb j : Nat) (hnb : nb < 8) (hj : j < 8)
    (hbits : ∀ t, nb ≤ t → bits.testBit t = false) :
    ((b &&& (((2 ^ 8 - 1) <<< nb) % 2 ^ 8)) ||| (bits % 2 ^ 8)).testBit j
      = if j < nb then bits.testBit j else b.testBit j := by
  have := hbits j
  tb_simp; grind

/-- C: `change_bits(idx, v, n)` under its asserted preconditions (aligned writer, range strictly
inside the written bits, and — when `idx` is not byte aligned — the field reaches at least the
next byte boundary). -/
theorem bitWriter_changeBits {w : BitWriter} {L : List Bool} {idx v n : Nat} (h : WInv w L)
    (hal : L.length % 8 = 0) (hv : v < 2 ^ n) (hlt : idx + n < L.length)
    (hmid : idx % 8 = 0 ∨ 8 - idx % 8 ≤ n) :
    ∃ w', w.changeBits idx v n = .ok w' ∧
      WInv w' (L.take idx ++ bitsOfLE n v ++ L.drop (idx + n)) := by
  obtain ⟨wf, hf, hinv, hbip, hpart, hout⟩ := bitWriter_flush h hal
  have hLlen : L.length = 8 * wf.output.size := by rw [← hout]; simp
  have hvbit : ∀ t, n ≤ t → v.testBit t = false := fun t ht =>
    Nat.testBit_lt_two_pow (Nat.lt_of_lt_of_le hv (Nat.pow_le_pow_right (by omega) ht))
  -- what remains to be shown once the patched output is known
  have hfinal : ∀ out', Patched wf.output out' idx (idx + n) v →
      WInv { wf with output := out' } (L.take idx ++ bitsOfLE n v ++ L.drop (idx + n)) := by
    intro out' hp
    constructor
    · simp only [hbip, bitsOfLE_zero, List.append_nil]
      apply patch_list L _ idx n v (by rw [hLlen]; simp [hp.size_eq]) (by omega)
      intro i hi
      rw [getElem_bitsLE_toList, hp.bit i]
      simp only [← hout, getElem_bitsLE_toList]
    · simp only [hbip]; omega
    · simp only [hbip, hpart]; omega
    · simp only []; rw [hinv.bitIdx_eq, hp.size_eq]
    · exact hp.bytes
  unfold BitWriter.changeBits
  rw [hf]
  simp only []
  have hindex : wf.index = L.length := WInv_index hinv
  rw [if_neg (by rw [hindex]; omega), if_neg (by rw [hindex, hbip]; omega)]
  -- tail + conclusion, shared by both head cases
  have hrest : ∀ (out1 : Array Nat) (cur : Nat), Patched wf.output out1 idx cur v → cur % 8 = 0 →
      idx ≤ cur → cur ≤ idx + n →
      ∃ w', (match BitWriter.changeFull ((idx + n - cur) / 8 + 1) out1 (cur / 8) (v >>> (cur - idx)) (idx + n - cur) with
        | .error f => .error f
        | .ok (out, bidx, bits, nb) =>
          if nb > 0 then
            match out[bidx]? with
            | none => .error (.index "bit_writer.rs:99:change_bits_64")
            | some b => .ok { wf with output := out.set! bidx ((b &&& ((255 <<< nb) % 256)) ||| (bits % 256)) }
          else .ok { wf with output := out }) = Except.ok w' ∧
        WInv w' (L.take idx ++ bitsOfLE n v ++ L.drop (idx + n)) := by
    intro out1 cur hp hc8 hic hcn
    obtain ⟨out2, ho2, hp2⟩ := changeFull_ok ((idx + n - cur) / 8 + 1) out1 (cur / 8) (v >>> (cur - idx))
      (idx + n - cur) cur hp (by omega) hic rfl (by omega) (by omega)
    rw [ho2]
    simp only []
    generalize hcur2 : cur + 8 * ((idx + n - cur) / 8) = cur2 at *
    generalize hnb : (idx + n - cur) % 8 = nb at *
    have hk2 : cur / 8 + (idx + n - cur) / 8 = cur2 / 8 := by omega
    rw [hk2]
    by_cases hpos : nb > 0
    · rw [if_pos hpos]
      have hklt : cur2 / 8 < out2.size := by rw [hp2.size_eq]; omega
      obtain ⟨b, hb⟩ : ∃ b, out2[cur2 / 8]? = some b := ⟨out2[cur2 / 8], Array.getElem?_eq_getElem hklt⟩
      rw [hb]
      refine ⟨_, rfl, hfinal _ ?_⟩
      have hb256 := getElem?_lt256 hp2.bytes hb
      have hset := Patched_set hp2 (cur2 / 8) hklt
        ((b &&& ((255 <<< nb) % 256)) ||| (v >>> (cur2 - idx) % 256)) ?_ (idx + n) ?_ ?_
      · exact hset
      · apply Nat.or_lt_two_pow (n := 8)
        · exact Nat.lt_of_le_of_lt Nat.and_le_left hb256
        · exact Nat.mod_lt _ (by omega)
      · intro j hj
        have hbj := hp2.byte hb j hj
        rw [show (255 : Nat) = 2 ^ 8 - 1 by rfl, show (256 : Nat) = 2 ^ 8 by rfl,
          tail_byte b _ nb j (by omega) hj (by
            intro t ht; rw [Nat.testBit_shiftRight]; exact hvbit _ (by omega)),
          Nat.testBit_shiftRight, hbj]
        have e : 8 * (cur2 / 8) = cur2 := by omega
        rw [e]
        by_cases hjn : j < nb
        · rw [if_pos hjn, if_pos (by omega)]; congr 1; omega
        · rw [if_neg hjn, if_neg (by omega), if_neg (by omega)]
      · intro i hi; omega
    · rw [if_neg hpos]
      refine ⟨_, rfl, hfinal _ ?_⟩
      rw [show idx + n = cur2 by omega]
      exact hp2
  by_cases ha : idx % 8 = 0
  · -- aligned start
    rw [if_neg (by omega)]
    simp only []
    have := hrest wf.output idx (Patched_refl hinv.bytes idx v) ha (by omega) (by omega)
    rw [show idx + n - idx = n by omega, Nat.sub_self, Nat.shiftRight_zero] at this
    exact this
  · -- unaligned head
    rw [if_pos ha]
    rw [if_neg (by omega)]
    have hklt : idx / 8 < wf.output.size := by omega
    obtain ⟨b, hb⟩ : ∃ b, wf.output[idx / 8]? = some b :=
      ⟨wf.output[idx / 8], Array.getElem?_eq_getElem hklt⟩
    rw [hb]
    simp only []
    generalize hc : idx % 8 = c at *
    have hb256 := getElem?_lt256 hinv.bytes hb
    have hp0 := Patched_refl hinv.bytes idx v
    have hp1 : Patched wf.output
        (wf.output.set! (idx / 8) ((b &&& (255 >>> (8 - c))) ||| (u64 (v <<< (8 - (8 - c))) % 256)))
        idx (idx + (8 - c)) v := by
      apply Patched_set hp0 (idx / 8) hklt _ ?_ (idx + (8 - c)) ?_ ?_
      · apply Nat.or_lt_two_pow (n := 8)
        · exact Nat.lt_of_le_of_lt Nat.and_le_left hb256
        · exact Nat.mod_lt _ (by omega)
      · intro j hj
        have hbj := hp0.byte hb j hj
        rw [if_neg (by omega)] at hbj
        rw [show (255 : Nat) = 2 ^ 8 - 1 by rfl, show (256 : Nat) = 2 ^ 8 by rfl,
          head_byte b v c j (by omega) hj]
        by_cases hcj : c ≤ j
        · rw [if_pos hcj, if_pos (by omega)]; congr 1; omega
        · rw [if_neg hcj, if_neg (by omega), hbj]
      · intro i hi; omega
    have := hrest _ (idx + (8 - c)) hp1 (by omega) (by omega) (by omega)
    rw [show idx + n - (idx + (8 - c)) = n - (8 - c) by omega,
      show idx + (8 - c) - idx = 8 - c by omega] at this
    exact this

end Zstd.Proofs.BitIO
