import Zstd.Proofs.BitIO.Reverse
/-
B (last item). Skipping the padding and the marker bit with single-bit reads leaves exactly
`Spec.backwardStream`.
-/
namespace Zstd.Proofs.BitIO
open Zstd Zstd.Spec Zstd.Model.BitIO

/-- `loop { let v = br.get_bits(1); if v == 1 { break } }` with a bound on the number of reads;
`none` when no `1` was seen within `fuel` reads -/
def skipPadding : Nat → BitReaderRev → Except Fault (Option BitReaderRev)
  | 0, _ => .ok none
  | fuel + 1, r =>
    match r.getBits 1 with
    | .error f => .error f
    | .ok (v, r') => if v = 1 then .ok (some r') else skipPadding fuel r'

theorem readBEPad_one_cons (b : Bool) (rest : List Bool) :
    (readBEPad 1 (b :: rest)).1 = if b then 1 else 0 := by
  simp [readBEPad_def, valBE]

theorem skipPadding_generic {src : Array Nat} :
    ∀ (fuel pos : Nat) (r : BitReaderRev), RevInv src r pos →
      (∃ j, j < fuel ∧ (stream src)[pos + j]? = some true) →
      ∃ r' k, k ≤ pos + fuel ∧ skipPadding fuel r = .ok (some r') ∧ RevInv src r' k ∧
        (((stream src).drop pos).dropWhile (fun b => !b)).drop 1 = (stream src).drop k := by
  intro fuel
  induction fuel with
  | zero => intro pos r _ ⟨j, hj, _⟩; omega
  | succ fuel ih =>
    intro pos r h ⟨j, hj, hget⟩
    have hlt : pos < (stream src).length := by
      have := (List.getElem?_eq_some_iff.1 hget).1; omega
    obtain ⟨r1, hr1, hinv1⟩ := bitReaderRev_refines h (by omega : 1 ≤ 56)
    rw [List.drop_eq_getElem_cons hlt] at hr1 ⊢
    rw [readBEPad_one_cons] at hr1
    rw [skipPadding, hr1]
    simp only []
    cases hb : (stream src)[pos] with
    | true =>
      refine ⟨r1, pos + 1, by omega, by simp, hinv1, ?_⟩
      simp
    | false =>
      have hj0 : j ≠ 0 := by
        intro h0; subst h0
        rw [Nat.add_zero, List.getElem?_eq_getElem hlt, hb] at hget
        cases hget
      obtain ⟨r', k, hk, hs, hinv, hdrop⟩ := ih (pos + 1) r1 hinv1
        ⟨j - 1, by omega, by rw [show pos + 1 + (j - 1) = pos + j by omega]; exact hget⟩
      refine ⟨r', k, by omega, ?_, hinv, ?_⟩
      · simpa using hs
      · simpa [List.dropWhile_cons] using hdrop

set_option maxRecDepth 100000 in
theorem last_byte_has_marker : ∀ last, last < 256 → last ≠ 0 →
    ∃ j, j < 8 ∧ (byteBitsLE last).reverse[j]? = some true := by
  decide

/-- If the last byte is non-zero, at most 8 single-bit reads find the marker, and what is left of
the abstract stream is `Spec.backwardStream`. -/
theorem skipPadding_backwardStream {src : Array Nat} (hb : Bytes src.toList) {last : Nat}
    (hlast : src.toList.getLast? = some last) (hnz : last ≠ 0) :
    ∃ r' k, k ≤ 8 ∧ skipPadding 8 (BitReaderRev.new src) = .ok (some r') ∧ RevInv src r' k ∧
      backwardStream src.toList = some ((stream src).drop k) := by
  obtain ⟨ys, hys⟩ := List.getLast?_eq_some_iff.1 hlast
  have hl256 : last < 256 := hb last (by rw [hys]; simp)
  obtain ⟨j, hj, hget⟩ := last_byte_has_marker last hl256 hnz
  have hstream : stream src = (byteBitsLE last).reverse ++ (bitsLE ys).reverse := by
    rw [stream, hys, bitsLE_append, bitsLE, bitsLE, List.append_nil, List.reverse_append]
  have hget' : (stream src)[0 + j]? = some true := by
    rw [hstream, Nat.zero_add, List.getElem?_append_left (by simpa [byteBitsLE] using hj)]
    exact hget
  obtain ⟨r', k, hk, hs, hinv, hdrop⟩ := skipPadding_generic 8 0 _ (RevInv_new hb) ⟨j, hj, hget'⟩
  refine ⟨r', k, by omega, hs, hinv, ?_⟩
  unfold backwardStream
  rw [hlast]
  simp only []
  rw [if_neg hnz]
  rw [List.drop_zero] at hdrop
  exact congrArg some hdrop

end Zstd.Proofs.BitIO
