import Zstd.Proofs.BitIO.Writer
import Zstd.Proofs.BitIO.Forward
import Zstd.Proofs.BitIO.Reverse
/-
D. The readers invert the writer.
-/
namespace Zstd.Proofs.BitIO
open Zstd Zstd.Spec Zstd.Model.BitIO

/-! ### forward -/

theorem readLE_bitsOfLE_append {n v : Nat} (hv : v < 2 ^ n) (rest : List Bool) :
    readLE n (bitsOfLE n v ++ rest) = some (v, rest) := by
  rw [readLE_def]
  rw [if_neg (by simp)]
  rw [List.take_left' (length_bitsOfLE n v), List.drop_left' (length_bitsOfLE n v), valLE_bitsOfLE hv]

/-- abstract level: reading the widths of `fs` from a bit string that contains `fieldsBits fs` at
position `pre.length` returns the values of `fs` -/
theorem runFwdSpec_fields (fs : List (Nat × Nat)) :
    ∀ (pre post : List Bool), (∀ f ∈ fs, f.1 < 2 ^ f.2 ∧ 0 < f.2 ∧ f.2 ≤ 64) →
      runFwdSpec (pre ++ fieldsBits fs ++ post) pre.length (fs.map (fun f => FwdOp.get f.2))
        = .ok (fs.map (·.1), pre.length + (fieldsBits fs).length) := by
  induction fs with
  | nil => intro pre post _; simp [runFwdSpec, fieldsBits]
  | cons f fs ih =>
    intro pre post hf
    obtain ⟨v, n⟩ := f
    obtain ⟨hv, hpos, hn⟩ := hf (v, n) List.mem_cons_self
    simp only at hv hpos hn
    rw [List.map_cons, runFwdSpec, if_neg (by omega), if_neg (by omega)]
    have hdrop : (pre ++ fieldsBits ((v, n) :: fs) ++ post).drop pre.length
        = bitsOfLE n v ++ (fieldsBits fs ++ post) := by
      rw [List.append_assoc, List.drop_left' rfl, fieldsBits, List.append_assoc]
    rw [hdrop, readLE_bitsOfLE_append hv]
    simp only []
    have := ih (pre ++ bitsOfLE n v) post (fun f hfm => hf f (List.mem_cons_of_mem _ hfm))
    rw [List.length_append, length_bitsOfLE] at this
    rw [show pre ++ fieldsBits ((v, n) :: fs) ++ post = pre ++ bitsOfLE n v ++ fieldsBits fs ++ post by
      simp [fieldsBits], this]
    simp only [List.map_cons, fieldsBits, List.length_append, length_bitsOfLE]
    rw [Nat.add_assoc]

/-- what `writeAll` + `dump` produce -/
theorem writeAll_dump {fs : List (Nat × Nat)} {w' : BitWriter} {out : Array Nat}
    (hf : ∀ f ∈ fs, f.1 < 2 ^ f.2 ∧ f.2 ≤ 63)
    (hw : writeAll BitWriter.new fs = .ok w') (hd : w'.dump = .ok out) :
    bitsLE out.toList = fieldsBits fs ∧ Bytes out.toList := by
  obtain ⟨w1, hw1, hinv⟩ := bitWriter_writeAll WInv_new hf
  rw [hw] at hw1
  cases hw1
  rw [List.nil_append] at hinv
  by_cases hal : (fieldsBits fs).length % 8 = 0
  · obtain ⟨out', ho, hbits, hbytes⟩ := bitWriter_dump hinv hal
    rw [hd] at ho
    cases ho
    exact ⟨hbits, hbytes⟩
  · rw [bitWriter_dump_misaligned_faults hinv hal] at hd
    cases hd

/-- D: a forward reader over the dumped output reads the fields back, in order.
Every width must be positive: `get_bits(0)` at the very end of the source panics
(`bitReader_getBits_zero_at_end_faults`), so a trailing zero-width field is not readable. -/
theorem reader_inverts_writer_fwd {fs : List (Nat × Nat)} {w' : BitWriter} {out : Array Nat}
    (hf : ∀ f ∈ fs, f.1 < 2 ^ f.2 ∧ 0 < f.2 ∧ f.2 ≤ 63)
    (hw : writeAll BitWriter.new fs = .ok w') (hd : w'.dump = .ok out) :
    runFwd (BitReader.new out) (fs.map (fun f => FwdOp.get f.2))
      = .ok (fs.map (·.1), { src := out, idx := 8 * out.size }) := by
  obtain ⟨hbits, hbytes⟩ := writeAll_dump (fun f hfm => ⟨(hf f hfm).1, (hf f hfm).2.2⟩) hw hd
  rw [BitReader.new, runFwd_refines out hbytes _ 0 (by omega), hbits]
  have := runFwdSpec_fields fs [] [] (fun f hfm => ⟨(hf f hfm).1, (hf f hfm).2.1, by have := (hf f hfm).2.2; omega⟩)
  rw [List.nil_append, List.append_nil, List.length_nil, Nat.zero_add] at this
  rw [this]
  simp only []
  rw [← hbits, length_bitsLE, Array.length_toList]

/-! ### reversed -/

/-- D, reusable single step: if the field `(v, n)` sits just before the part of the bit string
that has already been consumed, `get_bits(n)` returns `v`. -/
theorem revReader_reads_field {out : Array Nat} {r : BitReaderRev} {pre post : List Bool} {n v : Nat}
    (hbits : bitsLE out.toList = pre ++ bitsOfLE n v ++ post) (hv : v < 2 ^ n) (hn : n ≤ 56)
    (h : RevInv out r post.length) :
    ∃ r', r.getBits n = .ok (v, r') ∧ RevInv out r' (post.length + n) := by
  obtain ⟨r', hr', hinv⟩ := bitReaderRev_refines h hn
  refine ⟨r', ?_, hinv⟩
  rw [hr']
  congr 2
  have hdrop : (stream out).drop post.length = (bitsOfLE n v).reverse ++ pre.reverse := by
    rw [stream, hbits, List.reverse_append, List.reverse_append,
      List.drop_left' (List.length_reverse)]
  rw [hdrop]
  rw [readBEPad_def]
  rw [if_neg (by simp)]
  simp only []
  rw [List.take_left' (by simp), valBE_reverse_bitsOfLE hv]

theorem runRev_append (a b : List Nat) :
    ∀ (r : BitReaderRev), runRev r (a ++ b) =
      (match runRev r a with
       | .error f => .error f
       | .ok (va, r1) =>
         match runRev r1 b with
         | .error f => .error f
         | .ok (vb, r2) => .ok (va ++ vb, r2)) := by
  induction a with
  | nil =>
    intro r
    simp only [List.nil_append, runRev]
    cases runRev r b with
    | error f => rfl
    | ok p => rfl
  | cons n ns ih =>
    intro r
    rw [List.cons_append, runRev, runRev]
    cases r.getBits n with
    | error f => rfl
    | ok p =>
      obtain ⟨v, r1⟩ := p
      simp only []
      rw [ih r1]
      cases runRev r1 ns with
      | error f => rfl
      | ok q =>
        obtain ⟨va, r2⟩ := q
        simp only []
        cases runRev r2 b with
        | error f => rfl
        | ok q2 => rfl

/-- reading the widths of `fs` in reverse order returns the values in reverse order -/
theorem runRev_fields {out : Array Nat} (fs : List (Nat × Nat)) :
    ∀ (pre post : List Bool) (r : BitReaderRev),
      (∀ f ∈ fs, f.1 < 2 ^ f.2 ∧ f.2 ≤ 56) →
      bitsLE out.toList = pre ++ fieldsBits fs ++ post → RevInv out r post.length →
      ∃ r', runRev r (fs.reverse.map (·.2)) = .ok (fs.reverse.map (·.1), r') ∧
        RevInv out r' (post.length + (fieldsBits fs).length) := by
  induction fs with
  | nil => intro pre post r _ _ h; exact ⟨r, rfl, by simpa [fieldsBits] using h⟩
  | cons f fs ih =>
    intro pre post r hf hbits h
    obtain ⟨v, n⟩ := f
    obtain ⟨hv, hn⟩ := hf (v, n) List.mem_cons_self
    simp only at hv hn
    have hbits1 : bitsLE out.toList = (pre ++ bitsOfLE n v) ++ fieldsBits fs ++ post := by
      rw [hbits, fieldsBits]; simp
    obtain ⟨r1, hr1, hinv1⟩ := ih (pre ++ bitsOfLE n v) post r
      (fun f hfm => hf f (List.mem_cons_of_mem _ hfm)) hbits1 h
    have hbits2 : bitsLE out.toList = pre ++ bitsOfLE n v ++ (fieldsBits fs ++ post) := by
      rw [hbits, fieldsBits]; simp
    rw [show post.length + (fieldsBits fs).length = (fieldsBits fs ++ post).length by
      rw [List.length_append]; omega] at hinv1
    obtain ⟨r2, hr2, hinv2⟩ := revReader_reads_field hbits2 hv hn hinv1
    refine ⟨r2, ?_, ?_⟩
    · rw [List.reverse_cons, List.map_append, List.map_append, runRev_append, hr1]
      simp only [List.map_cons, List.map_nil, runRev]
      rw [hr2]
    · rw [fieldsBits, List.length_append, length_bitsOfLE]
      rw [List.length_append] at hinv2
      rw [show post.length + (n + (fieldsBits fs).length) = (fieldsBits fs).length + post.length + n by omega]
      exact hinv2

/-- D: a reversed reader over the dumped output reads the fields back in reverse order and ends
exactly at the beginning of the buffer. -/
theorem reader_inverts_writer_rev {fs : List (Nat × Nat)} {w' : BitWriter} {out : Array Nat}
    (hf : ∀ f ∈ fs, f.1 < 2 ^ f.2 ∧ f.2 ≤ 56)
    (hw : writeAll BitWriter.new fs = .ok w') (hd : w'.dump = .ok out) :
    ∃ r', runRev (BitReaderRev.new out) (fs.reverse.map (·.2)) = .ok (fs.reverse.map (·.1), r') ∧
      r'.bitsRemaining = 0 := by
  obtain ⟨hbits, hbytes⟩ := writeAll_dump (fun f hfm => ⟨(hf f hfm).1, by have := (hf f hfm).2; omega⟩) hw hd
  obtain ⟨r', hr', hinv⟩ := runRev_fields (out := out) fs [] [] (BitReaderRev.new out) hf
    (by rw [hbits]; simp) (RevInv_new hbytes)
  refine ⟨r', hr', ?_⟩
  rw [RevInv_bitsRemaining hinv, ← hbits, length_bitsLE, Array.length_toList]
  simp

end Zstd.Proofs.BitIO
