import Zstd.Proofs.BitIO.Bridge
/-
A. The forward `BitReader` refines `Spec.readLE` on `Spec.bitsLE`.
-/
namespace Zstd.Proofs.BitIO
open Zstd Zstd.Spec Zstd.Model.BitIO

theorem getElem?_eq_leNat {src : Array Nat} (h : Bytes src.toList) {k : Nat} (hk : k < src.size) :
    src[k]? = some (leNat src.toList / 2 ^ (8 * k) % 2 ^ 8) := by
  rw [Array.getElem?_eq_getElem hk, ← Array.getElem_toList (h := by simpa using hk),
    getElem_eq_leNat h (by simpa using hk)]

/-- one more field on top of what has been collected -/
theorem or_step (N idx s k : Nat) (h : s + k ≤ 64) :
    (N / 2 ^ idx) % 2 ^ s ||| u64 ((N / 2 ^ (idx + s) % 2 ^ k) <<< s) = (N / 2 ^ idx) % 2 ^ (s + k) := by
  unfold u64; bb

/-- the `for _ in 0..full_bytes_needed` loop -/
theorem collectFull_eq {src : Array Nat} (hb : Bytes src.toList) (idx : Nat) :
    ∀ (k byteIdx shift value : Nat), value = leNat src.toList / 2 ^ idx % 2 ^ shift →
      8 * byteIdx = idx + shift → shift + 8 * k ≤ 64 → byteIdx + k ≤ src.size →
      BitReader.collectFull src k byteIdx shift value =
        .ok (leNat src.toList / 2 ^ idx % 2 ^ (shift + 8 * k), byteIdx + k, shift + 8 * k) := by
  intro k
  induction k with
  | zero => intro byteIdx shift value hv _ _ _; rw [BitReader.collectFull, hv]; rfl
  | succ k ih =>
    intro byteIdx shift value hv h8 hs hsz
    rw [BitReader.collectFull, getElem?_eq_leNat hb (by omega : byteIdx < src.size)]
    simp only []
    rw [ih (byteIdx + 1) (shift + 8) _ _ (by omega) (by omega) (by omega)]
    · rw [show shift + 8 + 8 * k = shift + 8 * (k + 1) by omega,
        show byteIdx + 1 + k = byteIdx + (k + 1) by omega]
    · rw [hv, h8, or_step _ _ _ _ (by omega)]

theorem first_byte (N a c n : Nat) (hc : c < 8) (hn : n ≤ 8 - c) :
    ((N / 2 ^ (8 * a) % 2 ^ 8) >>> c) &&& (2 ^ n - 1) = N / 2 ^ (8 * a + c) % 2 ^ n := by
  bb

theorem first_byte' (N a c : Nat) (hc : c < 8) :
    (N / 2 ^ (8 * a) % 2 ^ 8) >>> c = N / 2 ^ (8 * a + c) % 2 ^ (8 - c) := by
  bb

theorem last_byte (N idx s last : Nat) (h : s + last ≤ 64) (hl : last ≤ 8) :
    (N / 2 ^ idx) % 2 ^ s ||| u64 (((N / 2 ^ (idx + s) % 2 ^ 8) &&& (2 ^ last - 1)) <<< s)
      = (N / 2 ^ idx) % 2 ^ (s + last) := by
  unfold u64; bb

/-- numeric form: a successful `get_bits(n)` returns bits `[idx, idx+n)` of the little-endian
value of the source -/
theorem bitReader_getBits_ok (r : BitReader) (n : Nat) (hb : Bytes r.src.toList) (hn : n ≤ 64)
    (hle : r.idx + n ≤ 8 * r.src.size) (h0 : 0 < n ∨ r.idx < 8 * r.src.size) :
    r.getBits n = .ok (leNat r.src.toList / 2 ^ r.idx % 2 ^ n, { r with idx := r.idx + n }) := by
  obtain ⟨src, idx⟩ := r
  simp only at hb hle h0 ⊢
  have hidx : idx < 8 * src.size := by omega
  generalize hN : leNat src.toList = N at *
  unfold BitReader.getBits BitReader.bitsLeft
  simp only []
  rw [if_neg (by omega), if_neg (by omega)]
  simp only []
  rw [if_neg (by omega), getElem?_eq_leNat hb (by omega : idx / 8 < src.size), hN]
  simp only []
  obtain ⟨a, c, hc, rfl⟩ : ∃ a c, c < 8 ∧ idx = 8 * a + c := ⟨idx / 8, idx % 8, by omega, by omega⟩
  have h1 : (8 * a + c) / 8 = a := by omega
  have h2 : (8 * a + c) % 8 = c := by omega
  have h3 : 8 - (8 - c) = c := by omega
  rw [h1, h2, h3]
  split
  · rename_i hin
    rw [first_byte N a c n hc (by omega)]
  · rename_i hin
    generalize hfull : (n - (8 - c)) / 8 = full
    have h4 : (8 * a + c + (8 - c)) / 8 = a + 1 := by omega
    rw [h4, first_byte' N a c hc]
    rw [collectFull_eq hb (8 * a + c) full (a + 1) (8 - c) _ (by rw [hN]) (by omega) (by omega) (by omega)]
    simp only [hN]
    split
    · rename_i hlast
      rw [getElem?_eq_leNat hb (by omega : a + 1 + full < src.size), hN]
      simp only []
      rw [show 8 * (a + 1 + full) = 8 * a + c + (8 - c + 8 * full) by omega,
        last_byte N _ _ _ (by omega) (by omega),
        show 8 - c + 8 * full + (n - (8 - c) - full * 8) = n by omega]
    · rename_i hlast
      rw [show 8 - c + 8 * full = n by omega]

theorem bitReader_getBits_tooMany (r : BitReader) (n : Nat) (hn : n > 64) :
    r.getBits n = .error (.tooManyBits n 64) := by
  unfold BitReader.getBits
  rw [if_pos hn]

theorem bitReader_getBits_notEnough (r : BitReader) (n : Nat) (hn : n ≤ 64)
    (hidx : r.idx ≤ 8 * r.src.size) (hlt : 8 * r.src.size - r.idx < n) :
    r.getBits n = .error (.notEnoughRemainingBits n (8 * r.src.size - r.idx)) := by
  unfold BitReader.getBits BitReader.bitsLeft
  rw [if_neg (by omega), if_neg (by omega)]
  simp only []
  rw [Nat.mul_comm, if_pos hlt]

/-- `get_bits(0)` when all bits have been read: `self.source[self.idx / 8]` is out of bounds
(bit_reader.rs:48) — a panic, not an `Err`. -/
theorem bitReader_getBits_zero_at_end_faults (r : BitReader) (hidx : r.idx = 8 * r.src.size) :
    r.getBits 0 = .error (.fault (.index "bit_reader.rs:48:get_bits")) := by
  unfold BitReader.getBits BitReader.bitsLeft
  rw [if_neg (by omega), if_neg (by omega)]
  simp only []
  rw [if_neg (by omega), Array.getElem?_eq_none (by omega)]

/-- `idx` beyond the end (not reachable through the API) makes `bits_left` underflow -/
theorem bitReader_getBits_idx_beyond_faults (r : BitReader) (n : Nat) (hn : n ≤ 64)
    (hidx : r.idx > 8 * r.src.size) :
    r.getBits n = .error (.fault (.overflow "bit_reader.rs:14:bits_left")) := by
  unfold BitReader.getBits BitReader.bitsLeft
  rw [if_neg (by omega), if_pos (by omega)]

/-- A, main theorem -/
theorem bitReader_refines (r : BitReader) (n : Nat) (hb : Bytes r.src.toList)
    (hidx : r.idx ≤ 8 * r.src.size) (hn : n ≤ 64) (h0 : 0 < n ∨ r.idx < 8 * r.src.size) :
    r.getBits n =
      (match readLE n ((bitsLE r.src.toList).drop r.idx) with
       | some (v, _) => .ok (v, { r with idx := r.idx + n })
       | none => .error (.notEnoughRemainingBits n (8 * r.src.size - r.idx))) := by
  rw [readLE_def]
  have hlen : ((bitsLE r.src.toList).drop r.idx).length = 8 * r.src.size - r.idx := by simp
  rw [hlen]
  by_cases hlt : 8 * r.src.size - r.idx < n
  · rw [if_pos hlt]
    exact bitReader_getBits_notEnough r n hn hidx hlt
  · rw [if_neg hlt]
    simp only []
    rw [bitReader_getBits_ok r n hb hn (by omega) h0, valLE_take_drop, valLE_bitsLE hb]

theorem bitReader_returnBits (r : BitReader) (n : Nat) (h : n ≤ r.idx) :
    r.returnBits n = .ok { r with idx := r.idx - n } := by
  unfold BitReader.returnBits
  rw [if_neg (by omega)]

theorem bitReader_returnBits_faults (r : BitReader) (n : Nat) (h : n > r.idx) :
    r.returnBits n = .error (.assert "bit_reader.rs:23:return_bits") := by
  unfold BitReader.returnBits
  rw [if_pos h]

theorem bitReader_bitsLeft (r : BitReader) (h : r.idx ≤ 8 * r.src.size) :
    r.bitsLeft = .ok (((bitsLE r.src.toList).drop r.idx).length) := by
  unfold BitReader.bitsLeft
  rw [if_neg (by omega)]
  simp; omega

theorem bitReader_bitsRead (r : BitReader) : r.bitsRead = r.idx := rfl

/-! ### request sequences -/

inductive FwdOp where
  | get (n : Nat)
  | ret (n : Nat)
  deriving Repr, DecidableEq

/-- run a list of requests on the model; collects the values of the `get`s -/
def runFwd : BitReader → List FwdOp → Except BitErr (List Nat × BitReader)
  | r, [] => .ok ([], r)
  | r, .get n :: ops =>
    match r.getBits n with
    | .error e => .error e
    | .ok (v, r') =>
      match runFwd r' ops with
      | .error e => .error e
      | .ok (vs, r'') => .ok (v :: vs, r'')
  | r, .ret n :: ops =>
    match r.returnBits n with
    | .error f => .error (.fault f)
    | .ok r' => runFwd r' ops

/-- the same requests on the abstract position `pos` in a bit list.  The only wart is the
out-of-bounds index of `get_bits(0)` at the very end. -/
def runFwdSpec (bits : List Bool) : Nat → List FwdOp → Except BitErr (List Nat × Nat)
  | pos, [] => .ok ([], pos)
  | pos, .get n :: ops =>
    if n > 64 then .error (.tooManyBits n 64)
    else if n = 0 ∧ pos = bits.length then .error (.fault (.index "bit_reader.rs:48:get_bits"))
    else
      match readLE n (bits.drop pos) with
      | none => .error (.notEnoughRemainingBits n (bits.length - pos))
      | some (v, _) =>
        match runFwdSpec bits (pos + n) ops with
        | .error e => .error e
        | .ok (vs, pos') => .ok (v :: vs, pos')
  | pos, .ret n :: ops =>
    if n > pos then .error (.fault (.assert "bit_reader.rs:23:return_bits"))
    else runFwdSpec bits (pos - n) ops

theorem runFwd_refines (src : Array Nat) (hb : Bytes src.toList) (ops : List FwdOp) :
    ∀ (idx : Nat), idx ≤ 8 * src.size →
      runFwd { src := src, idx := idx } ops =
        (match runFwdSpec (bitsLE src.toList) idx ops with
         | .error e => .error e
         | .ok (vs, pos) => .ok (vs, { src := src, idx := pos })) := by
  induction ops with
  | nil => intro idx _; rfl
  | cons op ops ih =>
    intro idx hidx
    cases op with
    | get n =>
      rw [runFwd, runFwdSpec]
      by_cases hn : n > 64
      · rw [bitReader_getBits_tooMany _ _ hn, if_pos hn]
      · rw [if_neg hn]
        by_cases hz : n = 0 ∧ idx = (bitsLE src.toList).length
        · rw [if_pos hz]
          obtain ⟨rfl, hz⟩ := hz
          rw [bitReader_getBits_zero_at_end_faults _ (by simpa using hz)]
        · rw [if_neg hz]
          have hz' : 0 < n ∨ idx < 8 * src.size := by
            simp only [length_bitsLE, Array.length_toList] at hz; omega
          rw [bitReader_refines _ n hb hidx (by omega) hz']
          simp only [length_bitsLE, Array.length_toList]
          cases hrd : readLE n ((bitsLE src.toList).drop idx) with
          | none => rfl
          | some p =>
            obtain ⟨v, rest⟩ := p
            simp only []
            have hle : idx + n ≤ 8 * src.size := by
              rw [readLE_def] at hrd
              split at hrd
              · cases hrd
              · rename_i h; simp at h; omega
            rw [ih (idx + n) hle]
            cases runFwdSpec (bitsLE src.toList) (idx + n) ops with
            | error e => rfl
            | ok q => rfl
    | ret n =>
      rw [runFwd, runFwdSpec]
      by_cases hn : n > idx
      · rw [bitReader_returnBits_faults _ _ hn, if_pos hn]
      · rw [bitReader_returnBits _ _ (by simpa using hn), if_neg hn]
        simp only []
        exact ih (idx - n) (by omega)

end Zstd.Proofs.BitIO
