import Zstd.Proofs.EncBlocks
/-
Helper lemmas for C02 / C15 / C16: the frame header `compress` writes, parsed by the strict Spec;
the block loop decoded by `Spec.decodeBlocks`; the whole frame decoded by `Spec.decodeFrame`.
-/
namespace Zstd.Proofs.Enc
open Zstd Zstd.Model.Enc

theorem windowLogGuard_eq (a b : Nat) : Gen.windowLogGuard a b = decide (a > b) := rfl
theorem windowLogK_eq : Gen.windowLogK = 10 := rfl
theorem windowLogSub_eq : Gen.windowLogSub = 10 := rfl
theorem windowLogElse_eq : Gen.windowLogElse = 1 := rfl
theorem windowExpShift_eq : Gen.windowExpShift = 3 := rfl

/-- C14 (local copy): for every window the one-byte descriptor can express, `serialize` writes
exponent `e` (1..31), mantissa 0, and the declared window `2^(10+e)` covers the matcher's window -/
theorem windowDescriptor_spec (w : Nat) (hw : w ≤ 2 ^ 41) :
    ∃ e : Nat, 1 ≤ e ∧ e ≤ 31 ∧ windowDescriptor w = .ok (e * 8) ∧ w ≤ 2 ^ (10 + e) := by
  unfold windowDescriptor nextPowerOfTwo
  by_cases h1 : w ≤ 1
  · have hl1 : Nat.log2 1 = 0 := by decide
    refine ⟨1, Nat.le_refl 1, by decide, ?_, ?_⟩
    · simp [h1, hl1, windowLogGuard_eq, windowLogK_eq, windowLogElse_eq, windowExpShift_eq]
    · omega
  · simp only [h1, ↓reduceIte]
    have hne : w - 1 ≠ 0 := by omega
    have hk : Nat.log2 (w - 1) < 41 := (Nat.log2_lt hne).2 (by omega)
    have hself : w - 1 < 2 ^ (Nat.log2 (w - 1) + 1) := Nat.lt_log2_self
    generalize Nat.log2 (w - 1) = k at hk hself
    have hp : 2 ^ (k + 1) ≤ 2 ^ 41 := Nat.pow_le_pow_right (by omega) (by omega)
    have hnot : ¬ (2 ^ (k + 1) ≥ 2 ^ 64) := by omega
    simp only [hnot, ↓reduceIte, Nat.log2_two_pow, windowLogGuard_eq, windowLogK_eq, windowLogSub_eq,
      windowLogElse_eq, windowExpShift_eq]
    by_cases hg : k + 1 > 10
    · refine ⟨k + 1 - 10, ?_, ?_, ?_, ?_⟩
      · omega
      · omega
      · simp only [hg, decide_true, ↓reduceIte]
        rw [if_neg (by omega)]
        congr 1
        rw [Nat.shiftLeft_eq]
        show ((k + 1 - 10) % 256 * 2 ^ 3 % 256 : Nat) = (k + 1 - 10) * 8
        omega
      · have : 10 + (k + 1 - 10) = k + 1 := by omega
        rw [this]; omega
    · refine ⟨1, Nat.le_refl 1, by decide, ?_, ?_⟩
      · simp [hg]
      · have : 2 ^ (k + 1) ≤ 2 ^ 11 := Nat.pow_le_pow_right (by omega) (by omega)
        omega

theorem frameDeclaresAtLeastMaxBlock_eq : Gen.frameDeclaresAtLeastMaxBlock = true := rfl

/-- the header `compress` writes (repaired code): exponent `e`, and the declared window `2^(10+e)`
covers the matcher's window AND the largest block (128 KiB) -/
theorem headerDescriptor_spec (w : Nat) (hw : w ≤ 2 ^ 41) :
    ∃ e : Nat, 1 ≤ e ∧ e ≤ 31 ∧ windowDescriptor (headerWindow w) = .ok (e * 8) ∧ w ≤ 2 ^ (10 + e) ∧
      131072 ≤ 2 ^ (10 + e) := by
  have hh : headerWindow w = max w 131072 := by
    simp [headerWindow, frameDeclaresAtLeastMaxBlock_eq]; rfl
  obtain ⟨e, h1, h2, h3, h4⟩ := windowDescriptor_spec (headerWindow w) (by rw [hh]; omega)
  rw [hh] at h4
  exact ⟨e, h1, h2, h3, by omega, by omega⟩

theorem declaredWindow_of (w e : Nat) (h : windowDescriptor (headerWindow w) = .ok (e * 8)) : declaredWindow w = 2 ^ (10 + e) := by
  simp [declaredWindow, h]

/-- the declared window is never below Block_Maximum_Size's cap: blocks are limited by 128 KiB only -/
theorem declaredWindow_ge_block (w : Nat) (hw : w ≤ 2 ^ 41) : Gen.maxBlockSize ≤ declaredWindow w := by
  obtain ⟨e, _, _, hwd, _, hb⟩ := headerDescriptor_spec w hw
  rw [declaredWindow_of w e hwd]; exact hb

theorem min_declared_block (w : Nat) (hw : w ≤ 2 ^ 41) : min (declaredWindow w) Gen.maxBlockSize = Gen.maxBlockSize :=
  Nat.min_eq_right (declaredWindow_ge_block w hw)

theorem magic_bytes : leBytes 4 Gen.magicNum = [40, 181, 47, 253] := by decide

/-- the header `compress` writes, read back by the strict Spec -/
theorem parseFrameHeader_ours (hash : Bool) (e : Nat) (he1 : 1 ≤ e) (he : e ≤ 31) (rest : List Byte) :
    Spec.parseFrameHeader (leBytes 4 Gen.magicNum ++ [frameDescriptor hash, e * 8] ++ rest) =
      some { desc := ⟨0, false, hash, 0⟩, window := 2 ^ (10 + e), dictId := none, contentSize := none, hdrLen := 6 } := by
  have hlo : 1024 ≤ 2 ^ (10 + e) := by
    have : 2 ^ 10 ≤ 2 ^ (10 + e) := Nat.pow_le_pow_right (by omega) (by omega)
    omega
  have hhi : 2 ^ (10 + e) ≤ 2 ^ 41 := Nat.pow_le_pow_right (by omega) (by omega)
  have hws : Spec.windowSize (e * 8) = 2 ^ (10 + e) := by
    simp [Spec.windowSize]
  rw [magic_bytes]
  cases hash
  · simp [Spec.parseFrameHeader, leNat, Spec.magic, frameDescriptor, Spec.parseFrameDesc, Spec.fcsFieldSize,
      Spec.didFieldSize, hws, Spec.windowMin, Spec.windowMax]
    omega
  · simp [Spec.parseFrameHeader, leNat, Spec.magic, frameDescriptor, Spec.parseFrameDesc, Spec.fcsFieldSize,
      Spec.didFieldSize, hws, Spec.windowMin, Spec.windowMax]
    omega

/-- what the per-block emitter must satisfy for the frame to decode: each emitted block, put in front
of anything, makes the strict block decoder produce exactly the block and continue (or stop, if
flagged last), with the encoder/decoder invariant `Inv` preserved.  `Pre pre blk p` = what is known
about a block `blk` that follows `pre` in the input, and the matcher's parse `p` of it. -/
def EmitDecodes {H : Type} (window : Nat) (Inv : EncState H → Spec.Entropy → Prop)
    (Pre : List Byte → List Byte → Parse → Prop) (emit : Emit H) : Prop :=
  ∀ (last : Bool) (blk : List Byte) (p : Parse) (st st' : EncState H) (bytes : List Byte)
    (e : Spec.Entropy) (pre : List Byte),
    blk ≠ [] → Pre pre blk p → Inv st e → emit last blk p st = .ok (bytes, st') →
    0 < bytes.length ∧ ∃ e', Inv st' e' ∧ ∀ (rest : List Byte) (dfuel consumed : Nat),
      Spec.decodeBlocks window #[] (dfuel + 1) (bytes ++ rest) e pre.toArray consumed =
        if last then some ((pre ++ blk).toArray, consumed + bytes.length)
        else Spec.decodeBlocks window #[] dfuel rest e' (pre ++ blk).toArray (consumed + bytes.length)

/-- block `i` of `full` under `script` -/
def blockAt (script : Nat → MBlock) (full : List Byte) (i : Nat) : List Byte :=
  (full.drop (blockStart script i)).take (script i).space

theorem empty_block_bytes : blockHeader true Gen.blockTypeRaw 0 = [1, 0, 0] := by decide

/-- the block loop, decoded by the strict block decoder: exactly the data, exactly the bytes -/
theorem compressLoop_decodes {H : Type} (window : Nat) (Inv : EncState H → Spec.Entropy → Prop)
    (Pre : List Byte → List Byte → Parse → Prop) (emit : Emit H) (script : Nat → MBlock)
    (hspace : ∀ i, 0 < (script i).space) (hemit : EmitDecodes window Inv Pre emit)
    (full : List Byte)
    (hpre : ∀ i, blockAt script full i ≠ [] → Pre (full.take (blockStart script i)) (blockAt script full i) (script i).parse) :
    ∀ fuel idx st hashed data frags r, data.length < fuel →
      compressLoop emit script fuel idx st hashed data frags = .ok r →
      blockStart script idx ≤ full.length → data = full.drop (blockStart script idx) →
      r.hashed = hashed ++ data ∧
      ∀ e, Inv st e → ∀ (tail : List Byte) (dfuel consumed : Nat), r.bytes.length ≤ dfuel →
        Spec.decodeBlocks window #[] dfuel (r.bytes ++ tail) e (full.take (blockStart script idx)).toArray consumed =
          some (full.toArray, consumed + r.bytes.length) := by
  apply compressLoop_induct emit script hspace
    (fun idx st hashed data r =>
      blockStart script idx ≤ full.length → data = full.drop (blockStart script idx) →
      r.hashed = hashed ++ data ∧
      ∀ e, Inv st e → ∀ (tail : List Byte) (dfuel consumed : Nat), r.bytes.length ≤ dfuel →
        Spec.decodeBlocks window #[] dfuel (r.bytes ++ tail) e (full.take (blockStart script idx)).toArray consumed =
          some (full.toArray, consumed + r.bytes.length))
  · -- no data left: the empty last block
    intro idx st hashed hle hdata
    refine ⟨by simp, ?_⟩
    intro e _ tail dfuel consumed hfuel
    have hs : full.length ≤ blockStart script idx := by
      have := congrArg List.length hdata
      simp at this; omega
    have htake : full.take (blockStart script idx) = full := List.take_of_length_le hs
    simp only [empty_block_bytes, List.length_cons, List.length_nil] at hfuel ⊢
    obtain ⟨d, rfl⟩ : ∃ d, dfuel = d + 1 := ⟨dfuel - 1, by omega⟩
    simp [Spec.decodeBlocks, Spec.parseBlockHeader, htake]
  · -- final partial block
    intro idx st hashed data bytes st' hne hlt hem hle hdata
    refine ⟨rfl, ?_⟩
    intro e hinv tail dfuel consumed hfuel
    have hblk : blockAt script full idx = data := by
      unfold blockAt; rw [← hdata]; exact List.take_of_length_le (by omega)
    have hP := hpre idx (by rw [hblk]; exact hne)
    rw [hblk] at hP
    obtain ⟨hpos, e', _, hdec⟩ := hemit true data (script idx).parse st st' bytes e _ hne hP hinv hem
    simp only at hfuel
    obtain ⟨d, rfl⟩ : ∃ d, dfuel = d + 1 := ⟨dfuel - 1, by omega⟩
    rw [hdec tail d consumed]
    simp [hdata]
  · -- a full block, then the rest
    intro idx st hashed data bytes st' r hge hem ih hle hdata
    have hstart : blockStart script (idx + 1) = blockStart script idx + (script idx).space := rfl
    have hlen : data.length = full.length - blockStart script idx := by rw [hdata]; simp
    have hle' : blockStart script (idx + 1) ≤ full.length := by omega
    have hdata' : data.drop (script idx).space = full.drop (blockStart script (idx + 1)) := by
      rw [hdata, List.drop_drop, hstart]
    obtain ⟨hh, ihd⟩ := ih hle' hdata'
    refine ⟨?_, ?_⟩
    · simp only [hh, List.append_assoc, List.take_append_drop]
    · intro e hinv tail dfuel consumed hfuel
      have hblk : blockAt script full idx = data.take (script idx).space := by
        unfold blockAt; rw [← hdata]
      have hne : data.take (script idx).space ≠ [] := by
        intro h
        have h0 : (data.take (script idx).space).length = 0 := by rw [h]; rfl
        have hsp := hspace idx
        rw [List.length_take] at h0; omega
      have hP := hpre idx (by rw [hblk]; exact hne)
      rw [hblk] at hP
      obtain ⟨hpos, e', hinv', hdec⟩ := hemit false _ (script idx).parse st st' bytes e _ hne hP hinv hem
      simp only [List.length_append] at hfuel
      obtain ⟨d, rfl⟩ : ∃ d, dfuel = d + 1 := ⟨dfuel - 1, by omega⟩
      simp only [List.append_assoc]
      rw [hdec (r.bytes ++ tail) d consumed]
      simp only [Bool.false_eq_true, ↓reduceIte]
      have hout : full.take (blockStart script idx) ++ data.take (script idx).space
          = full.take (blockStart script (idx + 1)) := by
        rw [hstart, List.take_add, hdata]
      rw [hout, ihd e' hinv' tail d (consumed + bytes.length) (by omega)]
      simp only [List.length_append]
      congr 2
      omega

end Zstd.Proofs.Enc
