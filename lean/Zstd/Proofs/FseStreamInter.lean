import Zstd.Proofs.FseStream
/-
Round trip of the two-state ("interleaved") FSE coder: `FSEEncoder::encode_interleaved`
(`fse_encoder.rs:53-113`) against the two-state loop of the Huffman weight reader
(`huff0_decoder.rs:184-234`), from the abstract coupling of `Zstd.Proofs.FseStream` plus zero-bit
avoidance for the start states (`Coupled2`).
-/
namespace Zstd.Proofs.FseStreamInter
open Zstd Zstd.Spec Zstd.Model.Fse Zstd.Model.BitIO Zstd.Proofs.BitIO Zstd.Proofs.FseStream

/-- `Coupled` plus what the end detection of the two-state decoder needs: the decoder over-reads with
the last state (always a start state), so that state must read at least one bit (zero-bit avoidance,
every probability ≤ 2^(al-1)), and the entry it jumps to (`baseline + 0`) must exist. -/
structure Coupled2 (et : ETable) (dt : DTable) (al : Nat) (usable : Nat → Prop) : Prop
    extends Coupled et dt al usable where
  decSize : dt.decode.size = 2 ^ al
  startBits : ∀ s st, usable s → et.startState s = .ok st → 1 ≤ st.numBits ∧ st.baseline < 2 ^ al

variable {et : ETable} {dt : DTable} {al : Nat} {usable : Nat → Prop}

/-! ### the alternating machines -/

/-- the two-state encoder as an alternating machine: `a` is the state that acts next, `b` the one that
acted most recently -/
def encAlt (t : ETable) : List Nat → BitWriter → EState → EState → Except Fault (BitWriter × EState × EState)
  | [], w, a, b => .ok (w, a, b)
  | x :: xs, w, a, b =>
    match encStep t w a x with
    | .error f => .error f
    | .ok (w, a') => encAlt t xs w b a'

/-- symbols of the two states after `encAlt` -/
def symAlt : List Nat → Nat → Nat → Nat × Nat
  | [], ca, cb => (ca, cb)
  | x :: xs, _, cb => symAlt xs cb x

/-- the two-state decoder as an alternating machine (one symbol per step, no `TooManyWeights` test);
`d1` emits and is updated next -/
def decAlt (t : DTable) : Nat → Decoder → Decoder → BitReaderRev → List Nat → Except Err (Option (List Nat) × BitReaderRev)
  | 0, _, _, br, _ => .ok (none, br)
  | fuel + 1, d1, d2, br, acc =>
    match d1.updateState t br with
    | .error e => .error e
    | .ok (d1', br) =>
      if br.bitsRemaining ≤ -1 then .ok (some ((d2.decodeSymbol :: d1.decodeSymbol :: acc).reverse), br)
      else decAlt t fuel d2 d1' br (d1.decodeSymbol :: acc)

/-- decoder that sits on the entry of state `st` of symbol `c` -/
abbrev D (c : Nat) (st : EState) : Decoder := Decoder.mk (entryOf c st)

theorem encAlt_append (t : ETable) : ∀ (xs ys : List Nat) (w : BitWriter) (a b : EState),
    encAlt t (xs ++ ys) w a b =
      match encAlt t xs w a b with
      | .error f => .error f
      | .ok (w', a', b') => encAlt t ys w' a' b' := by
  intro xs
  induction xs with
  | nil => intro ys w a b; rfl
  | cons x xs ih =>
    intro ys w a b
    simp only [List.cons_append, encAlt]
    cases encStep t w a x with
    | error f => rfl
    | ok p => obtain ⟨w1, a1⟩ := p; exact ih ys w1 b a1

/-! ### the heart: the alternating decoder undoes the alternating encoder -/

theorem enc_dec_alt (hc : Coupled et dt al usable) :
    ∀ (xs : List Nat) (ca cb : Nat) (a b : EState) (w : BitWriter) (L : List Bool),
      WInv w L → Good dt al ca a → Good dt al cb b → (∀ x ∈ xs, usable x) →
      ∃ w' a' b' F, encAlt et xs w a b = .ok (w', a', b') ∧ WInv w' (L ++ F) ∧
        Good dt al (symAlt xs ca cb).1 a' ∧ Good dt al (symAlt xs ca cb).2 b' ∧
        ∀ (src : Array Nat) (r : BitReaderRev) (pre post : List Bool) (m : Nat) (acc : List Nat),
          bitsLE src.toList = pre ++ F ++ post → RevInv src r post.length →
          ∃ r', decAlt dt (xs.length + m) (D (symAlt xs ca cb).2 b') (D (symAlt xs ca cb).1 a') r acc
                  = decAlt dt m (D cb b) (D ca a) r' (xs ++ acc) ∧
                RevInv src r' (post.length + F.length) := by
  intro xs
  induction xs with
  | nil =>
    intro ca cb a b w L hw ha hb _
    refine ⟨w, a, b, [], rfl, by simpa using hw, ha, hb, ?_⟩
    intro src r pre post m acc _ hr
    exact ⟨r, by simp [symAlt], by simpa using hr⟩
  | cons x xs ih =>
    intro ca cb a b w L hw ha hb hu
    have hux : usable x := hu x (List.mem_cons_self ..)
    obtain ⟨nx, hnx, hb1, hb2, hgn⟩ := hc.next x a.index hux ha.1
    have hnb : nx.numBits ≤ 63 := by have := hgn.2.2; have := hc.al_le; omega
    obtain ⟨w1, hw1, hinv1⟩ := bitWriter_refines (v := a.index - nx.baseline) hw (by omega) hnb
    obtain ⟨w', a', b', F', henc, hw', hga', hgb', hdec⟩ :=
      ih cb x b nx w1 (L ++ bitsOfLE nx.numBits (a.index - nx.baseline)) hinv1 hb hgn
        (fun y hy => hu y (List.mem_cons_of_mem _ hy))
    refine ⟨w', a', b', bitsOfLE nx.numBits (a.index - nx.baseline) ++ F', ?_, ?_, hga', hgb', ?_⟩
    · simp only [encAlt, encStep, hnx, if_neg (show ¬ a.index < nx.baseline by omega), hw1, henc]
    · simpa [List.append_assoc] using hw'
    · intro src r pre post m acc hbits hr
      obtain ⟨r1, hd1, hr1⟩ := hdec src r (pre ++ bitsOfLE nx.numBits (a.index - nx.baseline)) post (m + 1) acc
        (by simpa [List.append_assoc] using hbits) hr
      obtain ⟨r2, hup, hr2⟩ := update_reads (dt := dt) (s := x) (c := ca) hc.al_le ha hgn hb1 hb2
        (pre := pre) (post := F' ++ post) (src := src) (r := r1)
        (by simpa [List.append_assoc] using hbits)
        (by simpa [List.length_append, Nat.add_comm] using hr1)
      have hrem : ¬ r2.bitsRemaining ≤ -1 := by
        have h1 := RevInv_bitsRemaining hr2
        have hsz := congrArg List.length hbits
        simp only [length_bitsLE, List.length_append, length_bitsOfLE, Array.length_toList] at hsz
        simp only [List.length_append] at h1
        omega
      refine ⟨r2, ?_, ?_⟩
      · show decAlt dt ((x :: xs).length + m) (D (symAlt xs cb x).2 b') (D (symAlt xs cb x).1 a') r acc = _
        rw [show (x :: xs).length + m = xs.length + (m + 1) by simp only [List.length_cons]; omega, hd1]
        simp only [decAlt, D, Decoder.decodeSymbol, entryOf, List.cons_append]
        simp only [entryOf] at hup
        rw [hup]
        simp only [if_neg hrem]
      · simpa [List.length_append, Nat.add_assoc, Nat.add_comm, Nat.add_left_comm] using hr2

/-! ### termination: the over-read of the last state -/

theorem readBEPad_nil (n : Nat) : (readBEPad n []).1 = 0 := by
  rw [Zstd.Proofs.BitIO.readBEPad_def]
  split <;> simp [valBE]

/-- When every bit of the source has been consumed, the next `update_state` of a start state reads its
`numBits ≥ 1` bits past the beginning (zero fill), lands on the entry `baseline + 0`, and the loop
stops: it pushes the other decoder's symbol. -/
theorem decAlt_final (hc : Coupled2 et dt al usable) {src : Array Nat} {r : BitReaderRev} {c : Nat} {st : EState}
    (hu : usable c) (hst : et.startState c = .ok st) (hg : Good dt al c st)
    (hr : RevInv src r (8 * src.size)) (m : Nat) (d2 : Decoder) (acc : List Nat) :
    ∃ r', decAlt dt (m + 1) (D c st) d2 r acc = .ok (some ((d2.decodeSymbol :: c :: acc).reverse), r') ∧
      r'.bitsRemaining = -(st.numBits : Int) ∧ 1 ≤ st.numBits := by
  obtain ⟨hnb1, hbase⟩ := hc.startBits c st hu hst
  have hnb : st.numBits ≤ 56 := by have := hg.2.2; have := hc.al_le; omega
  obtain ⟨r', hget, hinv⟩ := bitReaderRev_refines hr hnb
  have hdrop : (stream src).drop (8 * src.size) = [] :=
    List.drop_of_length_le (by rw [length_stream]; omega)
  rw [hdrop, readBEPad_nil] at hget
  have hlt : st.baseline < 2 ^ 32 := by
    have : 2 ^ al ≤ 2 ^ 31 := Nat.pow_le_pow_right (by omega) hc.al_le
    omega
  have hnot : ¬ st.baseline ≥ 2 ^ 32 := by omega
  have hsz : st.baseline < dt.decode.size := by rw [hc.decSize]; exact hbase
  have hrem : r'.bitsRemaining = -(st.numBits : Int) := by
    have := RevInv_bitsRemaining hinv
    omega
  have hle : r'.bitsRemaining ≤ -1 := by omega
  refine ⟨r', ?_, hrem, hnb1⟩
  simp only [decAlt, Decoder.updateState, entryOf, hget, Nat.add_zero, if_neg hnot,
    Array.getElem?_eq_getElem hsz, if_pos hle, Decoder.decodeSymbol]

/-! ### the real loop follows the alternating machine -/

theorem decAlt_length (t : DTable) : ∀ (k : Nat) (d1 d2 : Decoder) (br : BitReaderRev) (acc out : List Nat) (br' : BitReaderRev),
    decAlt t k d1 d2 br acc = .ok (some out, br') → acc.length + 2 ≤ out.length := by
  intro k
  induction k with
  | zero => intro d1 d2 br acc out br' h; simp [decAlt] at h
  | succ k ih =>
    intro d1 d2 br acc out br' h
    unfold decAlt at h
    split at h
    · cases h
    · split at h
      · cases h; simp
      · have := ih _ _ _ _ _ _ h
        simp only [List.length_cons] at this
        omega

/-- If the alternating machine stops within `2 * fuel` steps with at most 257 symbols, the loop of
`huff0_decoder.rs` returns the same: neither the fuel nor the `weights.len() > 255` test interferes. -/
theorem decodeInterLoop_of_decAlt (t : DTable) : ∀ (f k : Nat) (d1 d2 : Decoder) (br : BitReaderRev) (acc out : List Nat)
    (br' : BitReaderRev), decAlt t k d1 d2 br acc = .ok (some out, br') → k ≤ 2 * f → out.length ≤ 257 →
    decodeInterLoop t f d1 d2 br acc = .ok (some out, br') := by
  intro f
  induction f with
  | zero =>
    intro k d1 d2 br acc out br' h hk _
    obtain rfl : k = 0 := by omega
    simp [decAlt] at h
  | succ f ih =>
    intro k d1 d2 br acc out br' h hk hlen
    cases k with
    | zero => simp [decAlt] at h
    | succ k =>
      unfold decAlt at h
      unfold decodeInterLoop
      simp only []
      split at h
      · cases h
      · rename_i d1' br1 hup1
        rw [hup1]
        simp only []
        split at h
        · rename_i hrem1
          rw [if_pos hrem1]
          exact h
        · rename_i hrem1
          rw [if_neg hrem1]
          cases k with
          | zero => simp [decAlt] at h
          | succ k =>
            unfold decAlt at h
            split at h
            · cases h
            · rename_i d2' br2 hup2
              rw [hup2]
              simp only []
              split at h
              · rename_i hrem2
                rw [if_pos hrem2]
                exact h
              · rename_i hrem2
                rw [if_neg hrem2]
                have hl := decAlt_length _ _ _ _ _ _ _ _ h
                simp only [List.length_cons] at hl
                rw [if_neg (by simp only [List.length_cons]; omega)]
                exact ih k _ _ _ _ _ _ h (by omega) hlen

/-- Conversely, if the alternating machine produces 258 or more symbols, the loop of `huff0_decoder.rs`
reports `TooManyWeights`: the `weights.len() > 255` test fires after the 256th symbol. -/
theorem decodeInterLoop_tooMany (t : DTable) : ∀ (f k : Nat) (d1 d2 : Decoder) (br : BitReaderRev) (acc out : List Nat)
    (br' : BitReaderRev), decAlt t k d1 d2 br acc = .ok (some out, br') → 258 ≤ out.length →
    acc.length % 2 = 0 → acc.length ≤ 254 →
    ∃ br'', decodeInterLoop t f d1 d2 br acc = .ok (none, br'') := by
  intro f
  induction f with
  | zero => intro k d1 d2 br acc out br' _ _ _ _; exact ⟨br, rfl⟩
  | succ f ih =>
    intro k d1 d2 br acc out br' h hout hev hacc
    cases k with
    | zero => simp [decAlt] at h
    | succ k =>
      unfold decAlt at h
      unfold decodeInterLoop
      simp only []
      split at h
      · cases h
      · rename_i d1' br1 hup1
        rw [hup1]
        simp only []
        split at h
        · cases h
          simp only [List.length_reverse, List.length_cons] at hout
          omega
        · rename_i hrem1
          rw [if_neg hrem1]
          cases k with
          | zero => simp [decAlt] at h
          | succ k =>
            unfold decAlt at h
            split at h
            · cases h
            · rename_i d2' br2 hup2
              rw [hup2]
              simp only []
              split at h
              · cases h
                simp only [List.length_reverse, List.length_cons] at hout
                omega
              · rename_i hrem2
                rw [if_neg hrem2]
                by_cases hl : (d2.decodeSymbol :: d1.decodeSymbol :: acc).length > 255
                · rw [if_pos hl]; exact ⟨br2, rfl⟩
                · rw [if_neg hl]
                  simp only [List.length_cons] at hl
                  exact ih k _ _ _ _ _ _ h hout (by simp only [List.length_cons]; omega)
                    (by simp only [List.length_cons]; omega)

/-! ### the index-based encoder loop is the alternating machine -/

theorem lookup0 (Q tail : List Nat) (y0 y1 : Nat) :
    (Q.reverse ++ (y1 :: y0 :: tail)).toArray[Q.length]? = some y1 := by
  simp

theorem lookup1 (Q tail : List Nat) (y0 y1 : Nat) :
    (Q.reverse ++ (y1 :: y0 :: tail)).toArray[Q.length + 1]? = some y0 := by
  simp

/-- one iteration of the loop, on a source whose part `… idx+1` is `Q.reverse ++ [y1, y0]` -/
theorem encInterLoop_step (t : ETable) (Q tail : List Nat) (y0 y1 : Nat) (f : Nat) (w : BitWriter) (s1 s2 : EState) :
    encInterLoop t (Q.reverse ++ (y1 :: y0 :: tail)).toArray (f + 1) Q.length w s1 s2 =
      match encStep t w s1 y0 with
      | .error e => .error e
      | .ok (w, s1) =>
        match encStep t w s2 y1 with
        | .error e => .error e
        | .ok (w, s2) =>
          if Q.length < 2 then .ok (w, s1, s2, Q.length)
          else encInterLoop t (Q.reverse ++ (y1 :: y0 :: tail)).toArray f (Q.length - 2) w s1 s2 := by
  rw [encInterLoop, lookup1, lookup0]
  rfl

/-- **(c)** Going down through the source, the loop of `encode_interleaved` feeds the symbols alternately to
`state_1` and `state_2`: on a source `(rest ++ last).reverse ++ tail` (so `rest` lists the symbols in the
order in which they are absorbed) with `rest` of even length ≥ 2 and at most one left-over symbol `last`,
it is `encAlt` over `rest`, and it stops with `idx = last.length`. -/
theorem encInterLoop_eq (t : ETable) : ∀ (k : Nat) (rest last tail : List Nat) (fuel : Nat) (w : BitWriter) (s1 s2 : EState),
    rest.length = 2 * k + 2 → last.length < 2 → k + 1 ≤ fuel →
    encInterLoop t ((rest ++ last).reverse ++ tail).toArray fuel (rest.length + last.length - 2) w s1 s2 =
      match encAlt t rest w s1 s2 with
      | .error f => .error f
      | .ok (w', a, b) => .ok (w', a, b, last.length) := by
  intro k
  induction k with
  | zero =>
    intro rest last tail fuel w s1 s2 hlen hlast hfuel
    obtain ⟨y0, y1, rfl⟩ : ∃ y0 y1, rest = [y0, y1] := by
      match rest, hlen with
      | [y0, y1], _ => exact ⟨y0, y1, rfl⟩
    obtain ⟨f, rfl⟩ : ∃ f, fuel = f + 1 := ⟨fuel - 1, by omega⟩
    have harr : ([y0, y1] ++ last).reverse ++ tail = last.reverse ++ (y1 :: y0 :: tail) := by simp
    have hidx : [y0, y1].length + last.length - 2 = last.length := by simp
    rw [harr, hidx, encInterLoop_step]
    simp only [encAlt]
    cases encStep t w s1 y0 with
    | error f => rfl
    | ok p =>
      obtain ⟨w1, a1⟩ := p
      simp only []
      cases encStep t w1 s2 y1 with
      | error f => rfl
      | ok q => obtain ⟨w2, a2⟩ := q; simp only [if_pos hlast]
  | succ k ih =>
    intro rest last tail fuel w s1 s2 hlen hlast hfuel
    obtain ⟨y0, y1, R, rfl⟩ : ∃ y0 y1 R, rest = y0 :: y1 :: R := by
      match rest, hlen with
      | y0 :: y1 :: R, _ => exact ⟨y0, y1, R, rfl⟩
    have hR : R.length = 2 * k + 2 := by simp only [List.length_cons] at hlen; omega
    obtain ⟨f, rfl⟩ : ∃ f, fuel = f + 1 := ⟨fuel - 1, by omega⟩
    have harr : (y0 :: y1 :: R ++ last).reverse ++ tail = (R ++ last).reverse ++ (y1 :: y0 :: tail) := by simp
    have hidx : (y0 :: y1 :: R).length + last.length - 2 = (R ++ last).length := by
      simp only [List.length_cons, List.length_append]; omega
    rw [harr, hidx, encInterLoop_step]
    simp only [encAlt]
    cases encStep t w s1 y0 with
    | error f => rfl
    | ok p =>
      obtain ⟨w1, a1⟩ := p
      simp only []
      cases encStep t w1 s2 y1 with
      | error f => rfl
      | ok q =>
        obtain ⟨w2, a2⟩ := q
        simp only []
        have hge : ¬ (R ++ last).length < 2 := by simp only [List.length_append]; omega
        rw [if_neg hge, show (R ++ last).length - 2 = R.length + last.length - 2 by simp only [List.length_append]]
        exact ih R last (y1 :: y0 :: tail) f w2 a1 a2 hR hlast (by omega)

/-! ### the whole encoder as an alternating machine -/

/-- `encode_interleaved` (stream part) on the source `ys.reverse ++ [c2, c1]`, written with `encAlt`:
start states for the last two symbols, the remaining symbols from the back, alternately; then the index
of the state that would act next, then the index of the state that acted last, then the end mark -/
def encodeInterAlt (t : ETable) (w : BitWriter) (ys : List Nat) (c2 c1 : Nat) : Except Fault BitWriter :=
  match t.startState c1, t.startState c2, t.accLog with
  | .ok s1, .ok s2, .ok al =>
    match encAlt t ys w s1 s2 with
    | .error f => .error f
    | .ok (w, a, b) =>
      match w.writeBits a.index al with
      | .error f => .error f
      | .ok w =>
        match w.writeBits b.index al with
        | .error f => .error f
        | .ok w => writeEndMark w
  | .error f, _, _ => .error f
  | _, .error f, _ => .error f
  | _, _, .error f => .error f

theorem split_even (ys : List Nat) (h2 : 2 ≤ ys.length) :
    ∃ k rest last, ys = rest ++ last ∧ rest.length = 2 * k + 2 ∧ last.length < 2 := by
  refine ⟨ys.length / 2 - 1, ys.take (2 * (ys.length / 2)), ys.drop (2 * (ys.length / 2)),
    (List.take_append_drop _ _).symm, ?_, ?_⟩
  · rw [List.length_take]; omega
  · rw [List.length_drop]; omega

theorem encodeInterleavedStream_eq (t : ETable) (w : BitWriter) (ys : List Nat) (c2 c1 : Nat) (h2 : 2 ≤ ys.length) :
    encodeInterleavedStream t w (ys.reverse ++ [c2, c1]) = encodeInterAlt t w ys c2 c1 := by
  have hn : (ys.reverse ++ [c2, c1]).length = ys.length + 2 := by simp
  have hg1 : (ys.reverse ++ [c2, c1]).toArray.getD (ys.length + 2 - 1) 0 = c1 := by
    rw [show ys.length + 2 - 1 = ys.length + 1 by omega, Array.getD_eq_getD_getElem?, lookup1]; rfl
  have hg2 : (ys.reverse ++ [c2, c1]).toArray.getD (ys.length + 2 - 2) 0 = c2 := by
    rw [show ys.length + 2 - 2 = ys.length by omega, Array.getD_eq_getD_getElem?, lookup0]; rfl
  unfold encodeInterleavedStream encodeInterAlt
  simp only [hn, if_neg (show ¬ ys.length + 2 < 4 by omega), hg1, hg2]
  cases hs1 : t.startState c1 with
  | error f => rfl
  | ok s1 =>
    cases hs2 : t.startState c2 with
    | error f => rfl
    | ok s2 =>
      cases hal : t.accLog with
      | error f => rfl
      | ok al =>
        simp only []
        obtain ⟨k, rest, last, rfl, hrest, hlast⟩ := split_even ys h2
        have hloop := encInterLoop_eq t k rest last [c2, c1] (((rest ++ last).length + 2) / 2 + 1) w s1 s2 hrest hlast
          (by simp only [List.length_append]; omega)
        rw [show (rest ++ last).length + 2 - 4 = rest.length + last.length - 2 by
          simp only [List.length_append]; omega, hloop, encAlt_append]
        cases encAlt t rest w s1 s2 with
        | error f => rfl
        | ok p =>
          obtain ⟨w', a, b⟩ := p
          simp only []
          match last, hlast with
          | [], _ => simp [encAlt]; rfl
          | [z], _ =>
            simp only [List.length_singleton, if_pos, encAlt]
            have hz : (((rest ++ [z]).reverse ++ [c2, c1]).toArray.getD 0 0) = z := by simp
            rw [hz]
            cases encStep t w' a z with
            | error f => rfl
            | ok q => obtain ⟨w'', a'⟩ := q; rfl

/-! ### two-state stream -/

theorem split_last2 (data : List Nat) (h : 2 ≤ data.length) :
    ∃ (ys : List Nat) (c2 c1 : Nat), data = ys.reverse ++ [c2, c1] := by
  have hr : data.reverse.length = data.length := List.length_reverse
  match hd : data.reverse, hr with
  | c1 :: c2 :: ys, _ => exact ⟨ys, c2, c1, by rw [← List.reverse_reverse (as := data), hd]; simp⟩
  | [], h' => simp at h'; omega
  | [_], h' => simp at h'; omega

/-- The round trip against the alternating decoder, for every length ≥ 4: the two `init_state`s read the
two final state indices, then `data.length - 1` steps of `decAlt` emit exactly `data`; the last of these
steps is the over-read of the start state of the last but one symbol (`bits_remaining = -numBits ≤ -1`),
all earlier ones keep `bits_remaining ≥ 0`. -/
theorem encode_decode_interleaved_alt (hc : Coupled2 et dt al usable) (data : List Nat)
    (h4 : 4 ≤ data.length) (hu : ∀ x ∈ data, usable x)
    {w : BitWriter} {L : List Bool} (hw : WInv w L) :
    ∃ w' S, encodeInterleavedStream et w data = .ok w' ∧ WInv w' (L ++ S) ∧ (L.length + S.length) % 8 = 0 ∧
      ∀ (src : Array Nat), Bytes src.toList → bitsLE src.toList = S →
        ∃ br d1 br1 d2 br2 br' st, skipEndMark (BitReaderRev.new src) = .ok (some br) ∧
          (Decoder.new dt).initState dt br = .ok (d1, br1) ∧ (Decoder.new dt).initState dt br1 = .ok (d2, br2) ∧
          decAlt dt (data.length - 1) d1 d2 br2 [] = .ok (some data, br') ∧
          et.startState (data.getD (data.length - 2) 0) = .ok st ∧ 1 ≤ st.numBits ∧
          br'.bitsRemaining = -(st.numBits : Int) := by
  obtain ⟨ys, c2, c1, rfl⟩ := split_last2 data (by omega)
  have hn : (ys.reverse ++ [c2, c1]).length = ys.length + 2 := by simp
  rw [hn] at h4
  have hu1 : usable c1 := hu c1 (by simp)
  have hu2 : usable c2 := hu c2 (by simp)
  have huy : ∀ y ∈ ys, usable y := fun y hy => hu y (by simp [hy])
  obtain ⟨s1, hs1, hg1⟩ := hc.start c1 hu1
  obtain ⟨s2, hs2, hg2⟩ := hc.start c2 hu2
  obtain ⟨w1, a, b, F, henc, hw1, hga, hgb, hdec⟩ := enc_dec_alt hc.toCoupled ys c1 c2 s1 s2 w L hw hg1 hg2 huy
  have hal63 : al ≤ 63 := by have := hc.al_le; omega
  obtain ⟨w2, hw2, hinv2⟩ := bitWriter_refines (v := a.index) (n := al) hw1 hga.1 hal63
  obtain ⟨w3, hw3, hinv3⟩ := bitWriter_refines (v := b.index) (n := al) hinv2 hgb.1 hal63
  obtain ⟨w4, m, hw4, hm1, hm8, hinv4, hal4⟩ := writeEndMark_ok hinv3
  refine ⟨w4, F ++ bitsOfLE al a.index ++ bitsOfLE al b.index ++ bitsOfLE m 1, ?_,
    by simpa [List.append_assoc] using hinv4, ?_, ?_⟩
  · rw [encodeInterleavedStream_eq et w ys c2 c1 (by omega)]
    simp only [encodeInterAlt, hs1, hs2, hc.encLog, henc, hw2, hw3, hw4]
  · simp only [List.length_append, length_bitsOfLE] at hal4 ⊢; omega
  · intro src hb hbits
    have hsz : 8 * src.size = F.length + al + al + m := by
      have := congrArg List.length hbits
      simp only [length_bitsLE, List.length_append, length_bitsOfLE, Array.length_toList] at this
      omega
    obtain ⟨br, hskip, hr0⟩ := skipEndMark_ok (P := F ++ bitsOfLE al a.index ++ bitsOfLE al b.index) hm1 hm8 hb
      (by rw [hbits])
    have hal56 : al ≤ 56 := by have := hc.al_le; omega
    -- dec1.init_state reads the index written last, dec2.init_state the one before
    obtain ⟨br1, hget1, hr1⟩ := revReader_reads_field (out := src) (pre := F ++ bitsOfLE al a.index)
      (post := bitsOfLE m 1) (n := al) (v := b.index) (by rw [hbits]) hgb.1 hal56 (by simpa using hr0)
    obtain ⟨br2, hget2, hr2⟩ := revReader_reads_field (out := src) (pre := F)
      (post := bitsOfLE al b.index ++ bitsOfLE m 1) (n := al) (v := a.index)
      (by rw [hbits]; simp [List.append_assoc]) hga.1 hal56
      (by simpa [List.length_append, Nat.add_comm] using hr1)
    obtain ⟨br3, hd, hr3⟩ := hdec src br2 [] (bitsOfLE al a.index ++ bitsOfLE al b.index ++ bitsOfLE m 1) 1 []
      (by rw [hbits]; simp [List.append_assoc])
      (by simpa [List.length_append, Nat.add_comm, Nat.add_assoc, Nat.add_left_comm] using hr2)
    have hr3' : RevInv src br3 (8 * src.size) := by
      have : (bitsOfLE al a.index ++ bitsOfLE al b.index ++ bitsOfLE m 1).length + F.length = 8 * src.size := by
        simp only [List.length_append, length_bitsOfLE]; omega
      rw [← this]; exact hr3
    obtain ⟨br4, hfin, hrem, hnb1⟩ := decAlt_final hc hu2 hs2 hg2 hr3' 0 (D c1 s1) (ys ++ [])
    have hout : ((D c1 s1).decodeSymbol :: c2 :: (ys ++ [])).reverse = ys.reverse ++ [c2, c1] := by
      simp [Decoder.decodeSymbol, entryOf]
    rw [hout] at hfin
    rw [hfin] at hd
    have hal0 : ¬ al = 0 := by have := hc.al_pos; omega
    refine ⟨br, D (symAlt ys c1 c2).2 b, br1, D (symAlt ys c1 c2).1 a, br2, br4, s2, hskip, ?_, ?_, ?_, ?_, hnb1, hrem⟩
    · simp only [Decoder.initState, hc.decLog, if_neg hal0, hget1, hgb.2.1]
    · simp only [Decoder.initState, hc.decLog, if_neg hal0, hget2, hga.2.1]
    · rw [hn, show ys.length + 2 - 1 = ys.length + 1 by omega]; exact hd
    · rw [hn, show ys.length + 2 - 2 = ys.length by omega]
      have : (ys.reverse ++ [c2, c1]).getD ys.length 0 = c2 := by simp [List.getD]
      rw [this]; exact hs2

/-- **`encode_decode_interleaved`, stream part** (with the exact over-read).  For coupled tables with zero-bit
avoidance, every symbol string of length 4 … 257 over usable symbols: the two-state encoder's stream
(written after any byte-aligned prefix `L`) is decoded by the two-state loop of the Huffman weight reader
to exactly that string; the reader stops having over-read by the `numBits ≥ 1` of the start state of
the last but one symbol, i.e. exactly all bits of the stream were consumed before the terminating read.
(257 is what the `weights.len() > 255` test allows: it is only evaluated after an even number
`2j ≤ n - 2` of symbols; see `encode_decode_interleaved_stream_tooMany` for `n ≥ 258`.) -/
theorem encode_decode_interleaved_stream_exact (hc : Coupled2 et dt al usable) (data : List Nat)
    (h4 : 4 ≤ data.length) (hlen : data.length ≤ 257) (hu : ∀ x ∈ data, usable x)
    {w : BitWriter} {L : List Bool} (hw : WInv w L) :
    ∃ w' S, encodeInterleavedStream et w data = .ok w' ∧ WInv w' (L ++ S) ∧ (L.length + S.length) % 8 = 0 ∧
      ∀ (src : Array Nat), Bytes src.toList → bitsLE src.toList = S →
        ∃ br br' st, skipEndMark (BitReaderRev.new src) = .ok (some br) ∧
          decodeInterleavedStream dt br = .ok (some data, br') ∧
          et.startState (data.getD (data.length - 2) 0) = .ok st ∧ 1 ≤ st.numBits ∧
          br'.bitsRemaining = -(st.numBits : Int) := by
  obtain ⟨w', S, h1, h2, h3, h⟩ := encode_decode_interleaved_alt hc data h4 hu hw
  refine ⟨w', S, h1, h2, h3, ?_⟩
  intro src hb hbits
  obtain ⟨br, d1, br1, d2, br2, br', st, hs, hi1, hi2, hd, hst, hnb, hrem⟩ := h src hb hbits
  refine ⟨br, br', st, hs, ?_, hst, hnb, hrem⟩
  simp only [decodeInterleavedStream, hi1, hi2]
  exact decodeInterLoop_of_decAlt dt 130 (data.length - 1) _ _ _ _ _ _ hd (by omega) hlen

/-- **`encode_decode_interleaved`, stream part.** -/
theorem encode_decode_interleaved_stream (hc : Coupled2 et dt al usable) (data : List Nat)
    (h4 : 4 ≤ data.length) (hlen : data.length ≤ 257) (hu : ∀ x ∈ data, usable x)
    {w : BitWriter} {L : List Bool} (hw : WInv w L) :
    ∃ w' S, encodeInterleavedStream et w data = .ok w' ∧ WInv w' (L ++ S) ∧ (L.length + S.length) % 8 = 0 ∧
      ∀ (src : Array Nat), Bytes src.toList → bitsLE src.toList = S →
        ∃ br br', skipEndMark (BitReaderRev.new src) = .ok (some br) ∧
          decodeInterleavedStream dt br = .ok (some data, br') ∧ br'.bitsRemaining ≤ -1 := by
  obtain ⟨w', S, h1, h2, h3, h⟩ := encode_decode_interleaved_stream_exact hc data h4 hlen hu hw
  refine ⟨w', S, h1, h2, h3, ?_⟩
  intro src hb hbits
  obtain ⟨br, br', st, hs, hd, _, hnb, hrem⟩ := h src hb hbits
  exact ⟨br, br', hs, hd, by omega⟩

/-- The bound 257 is exact: the encoder accepts longer inputs (nothing in `encode_interleaved` limits the
length), but the weight reader answers `TooManyWeights` (`none`) to every stream of 258 or more symbols. -/
theorem encode_decode_interleaved_stream_tooMany (hc : Coupled2 et dt al usable) (data : List Nat)
    (hlen : 258 ≤ data.length) (hu : ∀ x ∈ data, usable x)
    {w : BitWriter} {L : List Bool} (hw : WInv w L) :
    ∃ w' S, encodeInterleavedStream et w data = .ok w' ∧ WInv w' (L ++ S) ∧ (L.length + S.length) % 8 = 0 ∧
      ∀ (src : Array Nat), Bytes src.toList → bitsLE src.toList = S →
        ∃ br br', skipEndMark (BitReaderRev.new src) = .ok (some br) ∧
          decodeInterleavedStream dt br = .ok (none, br') := by
  obtain ⟨w', S, h1, h2, h3, h⟩ := encode_decode_interleaved_alt hc data (by omega) hu hw
  refine ⟨w', S, h1, h2, h3, ?_⟩
  intro src hb hbits
  obtain ⟨br, d1, br1, d2, br2, br', st, hs, hi1, hi2, hd, _, _, _⟩ := h src hb hbits
  obtain ⟨br'', hnone⟩ := decodeInterLoop_tooMany dt 130 (data.length - 1) _ _ _ _ _ _ hd hlen (by simp) (by simp)
  refine ⟨br, br'', hs, ?_⟩
  simp only [decodeInterleavedStream, hi1, hi2]
  exact hnone

end Zstd.Proofs.FseStreamInter
