import Zstd.Model.EncCoders
import Zstd.Proofs.BitIO
import Zstd.Proofs.FseNormalize
import Zstd.Proofs.FseEncTable
import Zstd.Proofs.FseTableDesc
import Zstd.Proofs.FseStreamInter
import Zstd.Proofs.FseCoupled
import Zstd.Proofs.HufFseHist
/-
The FSE coder of the Huffman weights, end to end: what `HuffmanEncoder::write_table` writes through
`FSEEncoder::new(build_table_from_data(ws, 6, true), w).encode_interleaved(ws)` (`Enc.fseWeights`,
production parameters) is read back by the FSE branch of `read_weights` as exactly `ws`.
Composition of the C12 theorems: `normalize_valid_partial`, `enc_table_eq_dec_table`,
`write_read_table`, `coupled2_of_buildable`, `encode_decode_interleaved_stream`, `bitWriter_dump`.
-/
namespace Zstd.Proofs.Huf
open Zstd Zstd.Spec Zstd.Model Zstd.Model.BitIO Zstd.Model.Fse Zstd.Model.Huf Zstd.Proofs.BitIO

/-! ### small bridges -/

theorem mass_of_nonneg (l : List Int) (h : ∀ p ∈ l, 0 ≤ p) :
    ((FseTableDesc.mass l : Nat) : Int) = l.foldl (· + ·) 0 := by
  unfold FseTableDesc.mass
  have : ∀ (a : Nat) (b : Int), (a : Int) = b → (∀ p ∈ l, 0 ≤ p) →
      ((l.foldl (fun (a : Nat) p => a + (if p = -1 then 1 else if p > 0 then p.toNat else 0)) a : Nat) : Int)
        = l.foldl (· + ·) b := by
    induction l with
    | nil => intro a b hab _; simpa using hab
    | cons p ps ih =>
      intro a b hab hp
      simp only [List.foldl_cons]
      apply ih (fun q hq => h q (List.mem_cons_of_mem _ hq)) _ _ ?_ (fun q hq => hp q (List.mem_cons_of_mem _ hq))
      have h0 := hp p List.mem_cons_self
      have hne : ¬ p = -1 := by omega
      rw [if_neg hne]
      by_cases hpos : p > 0
      · rw [if_pos hpos]; push_cast; rw [Int.toNat_of_nonneg h0]; omega
      · rw [if_neg hpos]; have : p = 0 := by omega
        subst this; simpa using hab
  exact this 0 0 rfl h

theorem bitsLE_drop (l : List Nat) (k : Nat) : bitsLE (l.drop k) = (bitsLE l).drop (8 * k) := by
  rcases Nat.le_total l.length k with h | h
  · rw [List.drop_eq_nil_of_le h, List.drop_eq_nil_of_le (by rw [length_bitsLE]; omega)]; rfl
  · have h1 : bitsLE l = bitsLE (l.take k) ++ bitsLE (l.drop k) := by
      rw [← bitsLE_append, List.take_append_drop]
    rw [h1, List.drop_left' (by rw [length_bitsLE, List.length_take]; omega)]

theorem fseStreamEnd_iff (br : BitReaderRev) : fseStreamEnd br = decide (br.bitsRemaining ≤ -1) := by
  unfold fseStreamEnd Gen.hufFseStreamEnd Gen.hufFseStreamEndK
  by_cases h : br.bitsRemaining ≤ -1
  · rw [decide_eq_true h]; exact decide_eq_true (by omega)
  · rw [decide_eq_false h]; exact decide_eq_false (by omega)

/-- the model's loop (which keeps the weights on TooManyWeights) agrees with the shared loop -/
theorem fseWeightsLoop_of_decodeInterLoop (t : DTable) : ∀ (fuel : Nat) (d1 d2 : Decoder) (br : BitReaderRev)
    (acc ws : List Nat) (br' : BitReaderRev),
    decodeInterLoop t fuel d1 d2 br acc = .ok (some ws, br') →
    fseWeightsLoop t fuel d1 d2 br acc = .ok (.ok ws) := by
  intro fuel
  induction fuel with
  | zero => intro d1 d2 br acc ws br' h; simp [decodeInterLoop] at h
  | succ fuel ih =>
    intro d1 d2 br acc ws br' h
    simp only [decodeInterLoop] at h
    simp only [fseWeightsLoop]
    cases hu1 : d1.updateState t br with
    | error e => rw [hu1] at h; cases h
    | ok p1 =>
      obtain ⟨d1', br1⟩ := p1
      rw [hu1] at h
      simp only at h ⊢
      rw [fseStreamEnd_iff]
      by_cases he1 : br1.bitsRemaining ≤ -1
      · rw [if_pos he1] at h
        simp only [Except.ok.injEq, Prod.mk.injEq, Option.some.injEq] at h
        simp [he1, h.1]
      · rw [if_neg he1] at h
        simp only [he1, decide_false, Bool.false_eq_true, if_false]
        cases hu2 : d2.updateState t br1 with
        | error e => rw [hu2] at h; cases h
        | ok p2 =>
          obtain ⟨d2', br2⟩ := p2
          rw [hu2] at h
          simp only at h ⊢
          rw [fseStreamEnd_iff]
          by_cases he2 : br2.bitsRemaining ≤ -1
          · rw [if_pos he2] at h
            simp only [Except.ok.injEq, Prod.mk.injEq, Option.some.injEq] at h
            simp [he2, h.1]
          · rw [if_neg he2] at h
            simp only [he2, decide_false, Bool.false_eq_true, if_false]
            by_cases hmany : (d2.decodeSymbol :: d1.decodeSymbol :: acc).length > 255
            · rw [if_pos hmany] at h; simp at h
            · rw [if_neg hmany] at h
              have : Gen.hufTooManyWeights (d2.decodeSymbol :: d1.decodeSymbol :: acc).length Gen.hufTooManyWeightsBound = false := by
                simp only [Gen.hufTooManyWeights, Gen.hufTooManyWeightsBound]; exact decide_eq_false hmany
              rw [this]
              simp only [Bool.false_eq_true, if_false]
              exact ih _ _ _ _ _ _ h

/-! ### the composition -/

/-- **The FSE contract of the Huffman weights, discharged.**  For every weight vector with 4 … 257
entries, all `≤ 11`, at least one `≥ 1` (what `write_table` passes on in the FSE form has 17 … 255):
`Enc.fseWeights` (normaliser with max log 6 and zero-bit avoidance, `write_table`,
`encode_interleaved`) does not panic, and whenever its output is shorter than 128 bytes the FSE
branch of `read_weights` — from any table state, with any bytes after the description — returns
exactly these weights and consumes size byte and payload. -/
theorem fseWeights_roundtrip (ws : List Nat) (h4 : 4 ≤ ws.length) (h257 : ws.length ≤ 257)
    (hle : ∀ w ∈ ws, w ≤ 11) (hpos : ∃ w ∈ ws, 1 ≤ w) :
    ∃ bytes, Enc.fseWeights ws = .ok bytes ∧ Bytes bytes ∧
      (bytes.length < 128 → ∀ (st : DecTable) (tail : List Nat), Bytes tail →
        readWeights st (bytes.length :: (bytes ++ tail)) = ({ st with weights := ws }, .ok (1 + bytes.length))) := by
  obtain ⟨hh2, hh12, hhget, hhmem, hhlast⟩ := histogram_weights ws hle hpos
  -- the normaliser
  obtain ⟨probs, al, hnorm, hal5, hal6, hplen, hpge, hpsum, hpocc, hpav⟩ :=
    FseNormalize.normalize_valid_partial (Fse.histogram ws) 6 true (by decide) hh2 (by omega)
      (by have : (2 : Nat) ^ 6 = 64 := by decide
          omega) (by
        obtain ⟨w0, hw0, _⟩ := hpos
        have hlt := hhmem w0 hw0
        refine ⟨(Fse.histogram ws).getD w0 0, ?_, ?_⟩
        · rw [List.getD_eq_getElem?_getD, List.getElem?_eq_getElem hlt]; exact List.getElem_mem _
        · rw [hhget w0 hlt]; exact List.count_pos_iff.mpr hw0)
  have hn5 : Gen.normLogMin = 5 := rfl
  have hmass : FseTableDesc.mass probs = 2 ^ al := by
    have := mass_of_nonneg probs hpge
    rw [hpsum] at this
    exact_mod_cast this
  have hvalid : FseEncTable.ValidDist al probs :=
    ⟨by omega, by omega, by omega, fun p hp => by have := hpge p hp; omega, hmass⟩
  have hbuildable : FseEncTable.EncBuildable al probs := by
    refine ⟨hvalid, ?_⟩
    have : probs.filter (· = -1) = [] := by
      rw [List.filter_eq_nil_iff]
      intro p hp; have := hpge p hp; simp; omega
    rw [this]; exact Nat.two_pow_pos al
  have hms : probs.length ≤ 255 + 1 := by omega
  obtain ⟨et, dec, ctr, het, hdec, hsz, hst256, _, _, _, hprob, _⟩ :=
    FseEncTable.enc_table_eq_dec_table hbuildable hms
  have hcar : FseTableDesc.Carries et al probs := ⟨hsz, hst256, fun i _ => hprob i⟩
  -- occurring symbols have a probability
  have husable : ∀ x ∈ ws, probs.getD x 0 ≠ 0 := by
    intro x hx
    have hlt := hhmem x hx
    have := hpocc x (by rw [hhget x hlt]; exact List.count_pos_iff.mpr hx)
    omega
  have hlast : probs.getLast? ≠ some 0 := by
    intro h0
    rw [List.getLast?_eq_getElem?] at h0
    have hc := hhlast ((Fse.histogram ws).getD ((Fse.histogram ws).length - 1) 0) (by
      rw [List.getLast?_eq_getElem?, List.getD_eq_getElem?_getD, List.getElem?_eq_getElem (by omega)]; rfl)
    have := hpocc _ hc
    rw [List.getD_eq_getElem?_getD, ← hplen, h0] at this
    simp at this
  -- the description
  obtain ⟨w1, D, hwt, hw1, hD8, hread⟩ := FseTableDesc.write_read_table et al probs (by omega) (by omega) (by omega)
    (fun p hp => by have := hpge p hp; omega) hmass hlast hcar WInv_new (by simp)
  simp only [List.nil_append] at hw1
  -- the stream
  let dt : DTable := { maxSymbol := 255, decode := dec, accuracyLog := al, probs := probs.toArray, symbolCounter := ctr }
  have hc2 : FseStreamInter.Coupled2 et dt al (FseCoupled.usableOf probs) :=
    FseCoupled.coupled2_of_buildable hbuildable hms (fun p hp => hpav rfl p hp) het hdec rfl rfl
  obtain ⟨w2, S, henc, hw2, hDS8, hstream⟩ :=
    FseStreamInter.encode_decode_interleaved_stream hc2 ws h4 h257 husable hw1
  obtain ⟨out, hdump, hbits, hbytes⟩ := bitWriter_dump hw2 (by rw [List.length_append]; exact hDS8)
  have hfse : Enc.fseWeights ws = .ok out.toList := by
    unfold Enc.fseWeights Fse.buildTableFromData Fse.buildTableFromCounts
    rw [hnorm]
    simp only [het]
    unfold Fse.encodeInterleaved Enc.dumpBytes
    rw [hwt]
    simp only [henc, hdump]
  have hlenout : 8 * out.toList.length = D.length + S.length := by
    have := congrArg List.length hbits
    rw [length_bitsLE, List.length_append] at this; exact this
  refine ⟨out.toList, hfse, hbytes, ?_⟩
  intro hsmall st tail htail
  -- the decoder
  have hrestB : Bytes (out.toList ++ tail) := Bytes_append.mpr ⟨hbytes, htail⟩
  have hrp := hread (out.toList ++ tail).toArray (S ++ bitsLE tail)
    { (DTable.new Gen.hufFseMaxSymbol) with accuracyLog := 0 } 6 (by simpa using hrestB)
    (by simp only [List.toList_toArray]; rw [bitsLE_append, hbits, List.append_assoc]) hal6
    (by simp only [DTable.new, Gen.hufFseMaxSymbol]; omega)
    (fun hneg => by
      exfalso
      have := hpge (-1) (List.mem_of_getLast? hneg); omega)
  have hk : 8 * (D.length / 8) = D.length := by omega
  have hbd : (DTable.new Gen.hufFseMaxSymbol).buildDecoder (out.toList ++ tail).toArray Gen.hufWeightsMaxLogDec
      = (dt, .ok (D.length / 8)) := by
    unfold DTable.buildDecoder
    simp only [Gen.hufWeightsMaxLogDec]
    rw [hrp]
    simp only [DTable.buildDecodingTable, DTable.new, Gen.hufFseMaxSymbol, hdec]
    rfl
  have hcw : ((out.toList ++ tail).drop (D.length / 8)).take (out.toList.length - D.length / 8)
      = out.toList.drop (D.length / 8) := by
    rw [List.drop_append_of_le_length (by omega)]
    exact List.take_left' (by rw [List.length_drop])
  have hSbits : bitsLE (out.toList.drop (D.length / 8)) = S := by
    rw [bitsLE_drop, hbits, hk]; exact List.drop_left' rfl
  obtain ⟨br, br', hskip, hdecode, _⟩ := hstream (out.toList.drop (D.length / 8)).toArray
    (by simpa using Bytes_drop hbytes _) (by simpa using hSbits)
  unfold readWeights
  simp only
  rw [if_pos (by simp only [Gen.hufFseHeaderMax]; omega), if_neg (by simp), hbd]
  simp only
  rw [if_neg (by omega), if_neg (by simp only [List.length_drop, List.length_append]; omega), hcw, hskip]
  simp only
  -- the two initial states and the loop
  simp only [decodeInterleavedStream] at hdecode
  cases hi1 : (Decoder.new dt).initState dt br with
  | error e => rw [hi1] at hdecode; cases hdecode
  | ok p1 =>
    obtain ⟨d1, br1⟩ := p1
    rw [hi1] at hdecode
    simp only at hdecode ⊢
    cases hi2 : (Decoder.new dt).initState dt br1 with
    | error e => rw [hi2] at hdecode; cases hdecode
    | ok p2 =>
      obtain ⟨d2, br2⟩ := p2
      rw [hi2] at hdecode
      simp only at hdecode ⊢
      rw [fseWeightsLoop_of_decodeInterLoop dt 130 d1 d2 br2 [] ws br' hdecode]

end Zstd.Proofs.Huf
