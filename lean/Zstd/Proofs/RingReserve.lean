import Zstd.Proofs.RingInv
/-
Helper lemmas for C04, layer 4a: `reserve` / `reserve_amortized`.
-/
namespace Zstd.Model
open Zstd

namespace RingBuffer

variable {r : RingBuffer}

/-- how the capacity can change in an operation that reserves room for `n` more bytes: it never
shrinks, and when it grows the new capacity is at most `2·(len + n) + 2` -/
structure CapStep (r r' : RingBuffer) (n : Nat) : Prop where
  mono : r.cap ≤ r'.cap
  bound : r'.cap = r.cap ∨ r'.cap ≤ 2 * (r.len + n) + 2

theorem CapStep.of_eq {r r' : RingBuffer} (h : r'.cap = r.cap) (n : Nat) : CapStep r r' n :=
  ⟨by omega, Or.inl h⟩

/-- everything later proofs need to know about `reserve` -/
structure Reserved (r r' : RingBuffer) (n : Nat) : Prop where
  inv : r'.Inv
  abs : r'.abs = r.abs
  len : r'.len = r.len
  free : n ≤ r'.free
  capMono : r.cap ≤ r'.cap
  /-- either nothing was allocated, or the new capacity is at most `2·(len + requested) + 2` -/
  capBound : r'.cap = r.cap ∨ r'.cap ≤ 2 * (r.len + n) + 2

/-- a buffer whose content was moved to the front of a bigger block -/
theorem linearised (hI : r.Inv) {r' : RingBuffer} (hcap : r.cap < r'.cap)
    (hhead : r'.head = 0) (htail : r'.tail = r.len) (hsize : r'.mem.size = r'.cap)
    (hcell : ∀ j, j < r.len → r'.mem.cell j = r.mem.cell (r.phys j)) :
    r'.Inv ∧ r'.abs = r.abs ∧ r'.len = r.len := by
  have hlen : r'.len = r.len := by
    have := len_cases r'; omega
  have hlt : r.len ≤ r.cap := by
    rcases Nat.eq_zero_or_pos r.cap with h0 | h0
    · have := hI.len_zero_of_cap_zero h0; omega
    · have := hI.len_lt h0; omega
  have hphys : ∀ i, i < r.len → r'.phys i = i := by
    intro i hi; have := phys_cases r' i; omega
  refine ⟨⟨hsize, ?_, ?_⟩, ?_, hlen⟩
  · intro j hj
    rw [occupied_iff] at hj
    rw [hcell j (by omega)]
    exact hI.initL (by omega)
  · right; omega
  · unfold abs
    rw [hlen]
    apply List.map_congr_left
    intro i hi
    have hi' : i < r.len := by simpa using hi
    rw [hphys i hi']
    simp only [Mem.val]
    rw [hcell i hi']

theorem reserveAmortized_ok (hI : r.Inv) {a : Nat} (ha : 0 < a) :
    ∃ r', r.reserveAmortized a = .ok r' ∧
      r'.cap = max (npow2 r.cap) (npow2 (r.cap + a)) + 1 ∧
      (r'.Inv ∧ r'.abs = r.abs ∧ r'.len = r.len) := by
  unfold reserveAmortized
  simp only []
  have hp1 := le_npow2 r.cap
  have hp2 := le_npow2 (r.cap + a)
  generalize hN : max (npow2 r.cap) (npow2 (r.cap + a)) + 1 = newCap
  have hNc : r.cap + a < newCap := by omega
  by_cases hc : 0 < r.cap
  · simp only [hc, ↓reduceIte]
    have hh := hI.head_lt hc; have ht := hI.tail_lt hc; have hlf := hI.len_free hc
    rw [hI.dataSliceLengths_eq, ok_bind]
    generalize hs : (if r.tail ≥ r.head then (r.tail - r.head, 0) else (r.cap - r.head, r.tail)) = s
    have hsd : (r.head ≤ r.tail ∧ s.1 = r.tail - r.head ∧ s.2 = 0) ∨
        (r.tail < r.head ∧ s.1 = r.cap - r.head ∧ s.2 = r.tail) := by
      rw [← hs]; split
      · left; exact ⟨by omega, rfl, rfl⟩
      · right; exact ⟨by omega, rfl, rfl⟩
    have hlc := len_cases r
    have hlen : r.len = s.1 + s.2 := by omega
    -- first read
    have hr1 : ∀ i, i < s.1 → (r.mem.cell (r.head + i)).isSome := by
      intro i hi
      apply hI.init
      rw [occupied_iff]; omega
    rw [Mem.readN_ok hr1, ok_bind]
    obtain ⟨m1, hw1, hz1, hc1⟩ := Mem.writeL_ok (site := "ringbuffer.rs:reserve_amortized:write-s1")
      (l := r.mem.vals r.head s.1) (m := Mem.fresh newCap) (off := 0)
      (by rw [Mem.vals_length, Mem.size_fresh]; omega)
    rw [hw1, ok_bind]
    -- second read
    have hr2 : ∀ i, i < s.2 → (r.mem.cell (0 + i)).isSome := by
      intro i hi
      apply hI.init
      rw [occupied_iff]; omega
    rw [Mem.readN_ok hr2, ok_bind]
    obtain ⟨m2, hw2, hz2, hc2⟩ := Mem.writeL_ok (site := "ringbuffer.rs:reserve_amortized:write-s2")
      (l := r.mem.vals 0 s.2) (m := m1) (off := s.1)
      (by rw [Mem.vals_length, hz1, Mem.size_fresh]; omega)
    rw [hw2, ok_bind, pure_eq_ok]
    rw [Mem.vals_length] at hc1 hc2
    -- the cells of the new block
    have hcell : ∀ j, j < r.len → m2.cell j = r.mem.cell (r.phys j) := by
      intro j hj
      have hpc := phys_cases r j
      rw [hc2 j]
      by_cases h2 : s.1 ≤ j ∧ j < s.1 + s.2
      · simp only [h2, and_self, ↓reduceIte]
        rw [Mem.getD_vals (by omega)]
        have hp : r.phys j = 0 + (j - s.1) := by omega
        rw [hp]
        exact (Mem.cell_eq_some_val (hr2 _ (by omega))).symm
      · simp only [h2, ↓reduceIte]
        rw [hc1 j]
        have h1 : 0 ≤ j ∧ j < 0 + s.1 := by omega
        simp only [h1, and_self, ↓reduceIte, Nat.sub_zero]
        rw [Mem.getD_vals (by omega)]
        have hp : r.phys j = r.head + j := by omega
        rw [hp]
        exact (Mem.cell_eq_some_val (hr1 _ (by omega))).symm
    refine ⟨_, rfl, rfl, linearised hI ?_ rfl ?_ ?_ hcell⟩
    · show r.cap < newCap; omega
    · show s.1 + s.2 = r.len; omega
    · show m2.size = newCap; rw [hz2, hz1, Mem.size_fresh]
  · have hc0 : r.cap = 0 := by omega
    simp only [hc, ↓reduceIte, pure_eq_ok]
    rcases hI.bounds with ⟨_, h1, h2⟩ | ⟨hh, _⟩
    · have hl0 := (hI.len_zero_of_cap_zero hc0).1
      refine ⟨_, rfl, rfl, linearised hI ?_ h1 ?_ ?_ ?_⟩
      · show r.cap < newCap; omega
      · show r.tail = r.len; omega
      · show (Mem.fresh newCap).size = newCap; exact Mem.size_fresh _
      · intro j hj; omega
    · omega

theorem reserve_ok (hI : r.Inv) (n : Nat) : ∃ r', r.reserve n = .ok r' ∧ Reserved r r' n := by
  unfold reserve
  rw [hI.freeC_eq, ok_bind]
  simp only [gen_reserveEnough]
  by_cases hf : r.free ≥ n
  · simp only [hf, ↓reduceIte, pure_eq_ok]
    exact ⟨r, rfl, hI, rfl, rfl, hf, Nat.le_refl _, Or.inl rfl⟩
  · simp only [hf, ↓reduceIte]
    obtain ⟨r', h1, hcap, hI', habs, hlen⟩ := reserveAmortized_ok hI (a := n - r.free) (by omega)
    refine ⟨r', h1, hI', habs, hlen, ?_, ?_, ?_⟩
    · -- free after growing
      have hp2 := le_npow2 (r.cap + (n - r.free))
      have hc' : 0 < r'.cap := by omega
      have := hI'.len_free hc'
      rcases Nat.eq_zero_or_pos r.cap with h0 | h0
      · have := hI.len_zero_of_cap_zero h0; omega
      · have := hI.len_free h0; omega
    · have hp1 := le_npow2 r.cap; omega
    · right
      have hpos : 0 < r.cap + (n - r.free) := by omega
      have hp2 := npow2_lt (r.cap + (n - r.free)) hpos
      have hmono : npow2 r.cap < 2 * (r.cap + (n - r.free)) := by
        rcases Nat.eq_zero_or_pos r.cap with h0 | h0
        · rw [h0]; have : npow2 0 = 1 := by decide
          omega
        · have := npow2_lt r.cap h0; omega
      rcases Nat.eq_zero_or_pos r.cap with h0 | h0
      · have := hI.len_zero_of_cap_zero h0; omega
      · have := hI.len_free h0; omega

theorem Reserved.capStep {r r' : RingBuffer} {n : Nat} (h : Reserved r r' n) : CapStep r r' n :=
  ⟨h.capMono, h.capBound⟩

theorem and_capStep {P Q R : Prop} {r r' : RingBuffer} {n : Nat} (h : P ∧ Q ∧ R) (hc : CapStep r r' n) :
    P ∧ Q ∧ R ∧ CapStep r r' n := ⟨h.1, h.2.1, h.2.2, hc⟩

/-- a reservation followed by something that keeps the capacity -/
theorem CapStep.trans_eq {r r1 r' : RingBuffer} {n : Nat} (h : CapStep r r1 n) (he : r'.cap = r1.cap) :
    CapStep r r' n := ⟨by rw [he]; exact h.mono, by rw [he]; exact h.bound⟩

end RingBuffer

end Zstd.Model
