import Zstd.Proofs.BitIO
import Zstd.Proofs.FseTableDesc
/-
Size of an FSE table description (`FSETable::write_table`): a crude bound from the loop structure —
4 bits of accuracy log, at most `AL + 1` bits per transmitted value, 2 bits per zero-run flag, at most
7 bits of padding: `|D| ≤ 4 + (AL + 3) · #symbols + 7`.
-/
namespace Zstd.Proofs.Huf
open Zstd Zstd.Model.BitIO Zstd.Model.Fse Zstd.Proofs.BitIO Zstd.Proofs.FseTableDesc

/-- `write_bits` on a writer that holds `L`: the result holds `L ++ bits`, whatever name it has -/
theorem writeBits_inv {w w' : BitWriter} {L : List Bool} {v n : Nat} (h : WInv w L) (hv : v < 2 ^ n) (hn : n ≤ 63)
    (hw : w.writeBits v n = .ok w') : WInv w' (L ++ bitsOfLE n v) := by
  obtain ⟨w'', h1, h2⟩ := bitWriter_refines h hv hn
  rw [hw] at h1
  simp only [Except.ok.injEq] at h1
  subst h1; exact h2

/-- the zero-run loop writes at most 2 bits per skipped symbol plus the final 2 bits -/
theorem writeZeroRun_len (t : ETable) : ∀ (fuel : Nat) (w : BitWriter) (L : List Bool) (probIdx zeros : Nat)
    (w' : BitWriter) (idx' : Nat), WInv w L → zeros < 3 →
    writeZeroRun t fuel w probIdx zeros = .ok (w', idx') →
    ∃ F, WInv w' (L ++ F) ∧ probIdx ≤ idx' ∧ F.length ≤ 2 * (idx' - probIdx) + 2 := by
  intro fuel
  induction fuel with
  | zero => intro w L probIdx zeros w' idx' _ _ h; simp [writeZeroRun] at h
  | succ fuel ih =>
    intro w L probIdx zeros w' idx' hw hz h
    simp only [writeZeroRun] at h
    cases hp : t.prob probIdx with
    | error f => rw [hp] at h; cases h
    | ok p =>
      rw [hp] at h
      simp only at h
      by_cases hp0 : p = 0
      · rw [if_pos hp0] at h
        by_cases h3 : zeros + 1 = 3
        · rw [if_pos h3] at h
          cases hwb : w.writeBits 3 2 with
          | error f => rw [hwb] at h; cases h
          | ok w1 =>
            rw [hwb] at h
            simp only at h
            have hinv1 := writeBits_inv hw (by omega : 3 < 2 ^ 2) (by omega) hwb
            obtain ⟨F, hF, hle, hlen⟩ := ih w1 _ (probIdx + 1) 0 w' idx' hinv1 (by omega) h
            refine ⟨bitsOfLE 2 3 ++ F, by simpa [List.append_assoc] using hF, by omega, ?_⟩
            simp only [List.length_append, length_bitsOfLE]; omega
        · rw [if_neg h3] at h
          obtain ⟨F, hF, hle, hlen⟩ := ih w L (probIdx + 1) (zeros + 1) w' idx' hw (by omega) h
          exact ⟨F, hF, by omega, by omega⟩
      · rw [if_neg hp0] at h
        cases hwb : w.writeBits zeros 2 with
        | error f => rw [hwb] at h; cases h
        | ok w1 =>
          rw [hwb] at h
          simp only [Except.ok.injEq, Prod.mk.injEq] at h
          obtain ⟨rfl, rfl⟩ := h
          have hinv1 := writeBits_inv hw (by omega : zeros < 2 ^ 2) (by omega) hwb
          exact ⟨bitsOfLE 2 zeros, hinv1, Nat.le_refl _, by simp⟩

theorem fieldOf_width_le {M v : Nat} (al : Nat) (hM2 : 2 ≤ M) (hM : M ≤ 2 ^ al + 1) (hal : 1 ≤ al) :
    (fieldOf M v).2 ≤ al + 1 := by
  have hlog : Nat.log2 M ≤ al := by
    have h0 : M ≠ 0 := by omega
    have : Nat.log2 M < al + 1 := (Nat.log2_lt h0).2 (by
      rw [Nat.pow_succ]
      have : 2 ≤ 2 ^ al := by
        have := Nat.pow_le_pow_right (by omega : 1 ≤ 2) hal
        simpa using this
      omega)
    omega
  unfold fieldOf
  split
  · simp only; omega
  · split <;> (simp only; omega)

/-- **the probability loop**: what is written for the symbols `ps` (after `pre`) takes at most
`(AL + 3) · |ps|` bits -/
theorem prob_loop_len {et : ETable} {al : Nat} {probs : List Int} (hc : Carries et al probs)
    (hlen : probs.length ≤ 256) (hal1 : 1 ≤ al) (hal : al ≤ 20) :
    ∀ (n : Nat) (pre ps : List Int), ps.length = n → probs = pre ++ ps → ps.getLast? ≠ some 0 →
      (∀ p ∈ ps, -1 ≤ p) → mass pre + mass ps = 2 ^ al →
      ∀ (w : BitWriter) (L : List Bool) (fuelW : Nat) (w' : BitWriter), WInv w L → ps.length + 1 ≤ fuelW →
      writeProbLoop et (2 ^ al) fuelW w (mass pre) pre.length = .ok w' →
      ∃ F, WInv w' (L ++ F) ∧ F.length ≤ (al + 3) * ps.length := by
  intro n
  induction n using Nat.strongRecOn with
  | _ n ih =>
  intro pre ps hn hp hl hge hm w L fuelW w' hw hf hrun
  obtain ⟨f, rfl⟩ : ∃ f, fuelW = f + 1 := ⟨fuelW - 1, by omega⟩
  have hS20 : 2 ^ al ≤ 2 ^ 20 := Nat.pow_le_pow_right (by omega) hal
  cases ps with
  | nil =>
    rw [mass_nil, Nat.add_zero] at hm
    rw [writeProbLoop_succ, if_pos (by omega)] at hrun
    simp only [Except.ok.injEq] at hrun
    subst hrun
    exact ⟨[], by simpa using hw, by simp⟩
  | cons p ps' =>
    have hpge : -1 ≤ p := hge p (by simp)
    have hge' : ∀ x ∈ ps', -1 ≤ x := fun x hx => hge x (List.mem_cons_of_mem _ hx)
    have hmp := mass_pos (p :: ps') (by simp) hl hge
    have hmc := mass_cons p ps'
    have hlt : mass pre < 2 ^ al := by omega
    have hprob := prob_at hc hp hlen
    generalize hM : 2 ^ al - mass pre + 1 = M at *
    have hM2 : 2 ≤ M := by omega
    have hM20 : M ≤ 2 ^ 20 + 1 := by omega
    have hv : (p + 1).toNat ≤ M := by have := toNat_succ_le_wt hpge; omega
    obtain ⟨hf1, hf2, hf3⟩ := fieldOf_spec hM2 hM20 hv
    have hwid := fieldOf_width_le (v := (p + 1).toNat) al hM2 (by omega) hal1
    obtain ⟨w1, hw1, hinv1⟩ := bitWriter_refines hw hf1 (by omega)
    have hwr : wrStep w M (asU32 (p + 1)) = .ok w1 := by
      rw [asU32_succ hpge, wrStep_eq w hM2 hM20 hv, hw1]
    have hlenp := congrArg List.length hp
    simp only [List.length_append, List.length_cons] at hlenp hn hf
    rw [writeProbLoop_succ, if_neg (by omega), hprob] at hrun
    simp only [hM, hwr] at hrun
    by_cases hp0 : p = 0
    · subst hp0
      have hps' : ps' ≠ [] := by
        intro h; subst h; simp at hl
      have hl' : ps'.getLast? ≠ some 0 := by
        intro h; exact hl (getLast?_tail_of h)
      obtain ⟨z, q, ps'', hps, hq⟩ := zeros_then_nonzero ps' hps' hl'
      subst hps
      simp only [List.length_append, List.length_replicate, List.length_cons] at hlenp hn hf
      have hp1 : probs = (pre ++ [0]) ++ List.replicate z 0 ++ q :: ps'' := by rw [hp]; simp
      obtain ⟨w2, Fz, hzr, hinv2, _, _⟩ := zero_run hc hlen z 0 (pre ++ [0]) q ps'' hp1 hq (by omega)
        w1 _ 257 hinv1 (by omega)
      rw [List.length_append, List.length_singleton] at hzr
      obtain ⟨Fz', hinvz', _, hFz'⟩ := writeZeroRun_len et 257 w1 _ (pre.length + 1) 0 w2 (pre.length + 1 + z)
        hinv1 (by omega) hzr
      -- both describe the same writer, so the flags have the same length
      have hFzlen : Fz.length ≤ 2 * z + 2 := by
        have e1 := WInv_index hinv2
        have e2 := WInv_index hinvz'
        rw [e1] at e2
        simp only [List.length_append] at e2
        have : pre.length + 1 + z - (pre.length + 1) = z := by omega
        rw [this] at hFz'
        omega
      rw [if_neg (by omega), if_neg (by omega)] at hrun
      simp only [hzr] at hrun
      have hp2 : probs = (pre ++ [0] ++ List.replicate z 0) ++ q :: ps'' := by rw [hp]; simp
      have hmass2 : mass (pre ++ [0] ++ List.replicate z 0) = mass pre := by
        rw [mass_append, mass_append, mass_replicate_zero, mass_cons]; simp [wt]
      have hlen2 : (pre ++ [0] ++ List.replicate z 0).length = pre.length + 1 + z := by simp; omega
      have hmq : mass (List.replicate z 0 ++ q :: ps'') = mass (q :: ps'') := by
        rw [mass_append, mass_replicate_zero, Nat.zero_add]
      have hlq : (q :: ps'').getLast? = ((0 : Int) :: (List.replicate z 0 ++ q :: ps'')).getLast? := by
        rw [← getLast?_append_cons ((0 : Int) :: List.replicate z 0) q ps'']; rfl
      rw [← hmass2, ← hlen2] at hrun
      obtain ⟨F3, hinv3, hF3⟩ := ih (q :: ps'').length (by simp only [List.length_cons]; omega)
        (pre ++ [0] ++ List.replicate z 0) (q :: ps'') rfl hp2 (by rw [hlq]; exact hl)
        (fun x hx => hge' x (by simp at hx ⊢; exact Or.inr hx))
        (by rw [hmass2]; rw [hmc, hmq] at hm; simpa [wt] using hm)
        w2 _ f w' hinv2 (by simp only [List.length_cons]; omega) hrun
      refine ⟨bitsOfLE (fieldOf M (0 + 1 : Int).toNat).2 (fieldOf M (0 + 1 : Int).toNat).1 ++ Fz ++ F3,
        by simpa [List.append_assoc] using hinv3, ?_⟩
      simp only [List.length_append, length_bitsOfLE, List.length_cons, List.length_replicate] at hF3 ⊢
      have e : (al + 3) * (z + (ps''.length + 1) + 1) = (al + 3) * (ps''.length + 1) + (al + 3) * (z + 1) := by
        rw [← Nat.mul_add]; congr 1; omega
      rw [e, Nat.mul_add (al + 3) z 1]
      have : 2 * z ≤ (al + 3) * z := Nat.mul_le_mul_right z (by omega)
      omega
    · have hmass1 : mass (pre ++ [p]) = mass pre + wt p := by
        rw [mass_append, mass_cons, mass_nil, Nat.add_zero]
      have hwtp : 1 ≤ wt p := by
        unfold wt; split
        · omega
        · split <;> omega
      have hl' : ps'.getLast? ≠ some 0 := by
        intro h; exact hl (getLast?_tail_of h)
      have hrun' : writeProbLoop et (2 ^ al) f w1 (mass (pre ++ [p])) (pre ++ [p]).length = .ok w' := by
        rw [hmass1, List.length_append, List.length_singleton]
        by_cases hm1 : p = -1
        · rw [if_pos hm1] at hrun
          have : wt p = 1 := by simp [wt, hm1]
          rw [this]; exact hrun
        · have hpos : p > 0 := by omega
          rw [if_neg hm1, if_pos hpos] at hrun
          have : wt p = p.toNat := by simp [wt, hm1, hpos]
          rw [this]; exact hrun
      obtain ⟨F2, hinv2, hF2⟩ := ih ps'.length (by omega) (pre ++ [p]) ps' rfl
        (by rw [hp]; simp) hl' hge' (by rw [hmass1]; omega) w1 _ f w' hinv1 (by omega) hrun'
      refine ⟨bitsOfLE (fieldOf M (p + 1).toNat).2 (fieldOf M (p + 1).toNat).1 ++ F2,
        by simpa [List.append_assoc] using hinv2, ?_⟩
      simp only [List.length_append, length_bitsOfLE, List.length_cons]
      rw [Nat.mul_succ]; omega

/-- **size of the table description**: `write_table` on a byte-aligned writer appends at most
`4 + (AL + 3) · #symbols + 7` bits -/
theorem writeTable_len (et : ETable) (al : Nat) (probs : List Int)
    (hal5 : 5 ≤ al) (hal : al ≤ 20)
    (hlen : probs.length ≤ 256) (hge : ∀ p ∈ probs, -1 ≤ p) (hmass : mass probs = 2 ^ al)
    (hlast : probs.getLast? ≠ some 0) (hc : Carries et al probs)
    {w w' : BitWriter} {L D : List Bool} (hw : WInv w L) (hrun : et.writeTable w = .ok w')
    (hw' : WInv w' (L ++ D)) : D.length ≤ 4 + (al + 3) * probs.length + 7 := by
  have hacc : et.accLog = .ok al := by
    unfold ETable.accLog
    rw [hc.1, if_neg (by have := Nat.two_pow_pos al; omega), Nat.log2_two_pow]
  obtain ⟨w1, hw1, hinv1⟩ := bitWriter_refines (v := al - 5) (n := 4) hw (by omega) (by omega)
  simp only [ETable.writeTable, hacc, if_neg (show ¬ al < 5 by omega), hw1, Nat.one_shiftLeft] at hrun
  cases hpl : writeProbLoop et (2 ^ al) 258 w1 0 0 with
  | error f => rw [hpl] at hrun; cases hrun
  | ok w2 =>
    rw [hpl] at hrun
    simp only at hrun
    obtain ⟨F, hinv2, hF⟩ := prob_loop_len hc hlen (by omega) hal probs.length [] probs rfl (by simp) hlast hge
      (by simpa using hmass) w1 _ 258 w2 hinv1 (by omega) (by simpa using hpl)
    have hmis := WInv_misaligned hinv2
    have hm7 : w2.misaligned ≤ 7 := by rw [hmis]; omega
    have hinv3 := writeBits_inv hinv2 (Nat.two_pow_pos _) (by omega) hrun
    have e1 := WInv_index hinv3
    have e2 := WInv_index hw'
    rw [e1] at e2
    simp only [List.length_append, length_bitsOfLE] at e2
    omega

end Zstd.Proofs.Huf
