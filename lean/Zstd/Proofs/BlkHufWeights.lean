import Zstd.Proofs.BlkHufBits
/-
Part B of `Proofs/BlkHuf`: `read_weights` never panics (and its FSE loop never runs out of fuel);
on success it leaves at most 257 weights and reports at most `source.len()` bytes.
-/
namespace Zstd.Proofs.Blk
open Zstd Zstd.Model Zstd.Model.Huf Zstd.Model.Huf.Bits
open Zstd.Proofs.BitIO (Bytes)

/-! ### the direct form -/

theorem nibbles_ok : ∀ (n : Nat) (l : List Nat), (n + 1) / 2 ≤ l.length →
    ∃ ws, nibbles n l = .ok ws ∧ ws.length = n := by
  intro n l
  induction l generalizing n with
  | nil =>
    intro h
    have : n = 0 := by simp at h; omega
    subst this; exact ⟨_, rfl, rfl⟩
  | cons b bs ih =>
    intro h
    match n with
    | 0 => exact ⟨_, rfl, rfl⟩
    | 1 => exact ⟨_, rfl, rfl⟩
    | n + 2 =>
      simp only [List.length_cons] at h
      obtain ⟨r, hr, hl⟩ := ih n (by omega)
      simp only [nibbles, hr]
      refine ⟨_, rfl, ?_⟩
      split <;> simp [hl]

/-! ### the FSE form -/

theorem fseEntry_ok {ft : Spec.Fse.Table} {s : Nat} (h : s < ft.entries.size) :
    ∃ e, fseEntry ft s = .ok e ∧ e ∈ ft.entries.toList := by
  unfold fseEntry
  rw [Array.getElem?_eq_getElem h]
  exact ⟨_, rfl, Array.getElem_mem_toList h⟩

theorem fseUpdate_ok {ft : Spec.Fse.Table} (hft : SpecTableOK ft) {e : FseEntry} (he : e ∈ ft.entries.toList)
    {br : RevReader} (hr : RInv br) :
    ∃ e' br', fseUpdate ft e br = .ok (e', br') ∧ e' ∈ ft.entries.toList ∧ RInv br' := by
  have h1 := hft.entries e he
  have h2 := getBits_lt hr e.nbBits
  obtain ⟨e', he', hm⟩ := fseEntry_ok (ft := ft) (s := e.baseline + (br.getBits e.nbBits).1) (by rw [hft.size]; omega)
  unfold fseUpdate
  simp only [he']
  exact ⟨_, _, rfl, hm, RInv_getBits hr _⟩

theorem fseWeightsLoop_ok {ft : Spec.Fse.Table} (hft : SpecTableOK ft) :
    ∀ (fuel : Nat) (d1 d2 : FseEntry) (br : RevReader) (wsRev : List Nat) (k : Nat),
      d1 ∈ ft.entries.toList → d2 ∈ ft.entries.toList → RInv br →
      wsRev.length = 2 * k → k ≤ 127 → 128 ≤ k + fuel →
      ∃ r, fseWeightsLoop ft fuel d1 d2 br wsRev = .ok r ∧ ∀ ws, r = .ok ws → ws.length ≤ 257 := by
  intro fuel
  induction fuel with
  | zero => intro d1 d2 br wsRev k _ _ _ _ h1 h2; omega
  | succ fuel ih =>
    intro d1 d2 br wsRev k hd1 hd2 hr hlen hk hfuel
    obtain ⟨d1', br1, hu1, hd1', hr1⟩ := fseUpdate_ok hft hd1 hr
    obtain ⟨d2', br2, hu2, hd2', hr2⟩ := fseUpdate_ok hft hd2 hr1
    unfold fseWeightsLoop
    simp only [hu1]
    split
    · refine ⟨_, rfl, ?_⟩
      intro ws h
      simp only [Except.ok.injEq] at h
      subst h
      simp; omega
    · simp only [hu2]
      split
      · refine ⟨_, rfl, ?_⟩
        intro ws h
        simp only [Except.ok.injEq] at h
        subst h
        simp; omega
      · split
        · refine ⟨_, rfl, ?_⟩
          intro ws h; cases h
        · rename_i hnot
          simp only [Gen.hufTooManyWeights, Gen.hufTooManyWeightsBound, List.length_cons] at hnot
          have hnot' : ¬ (wsRev.length + 1 + 1 > 255) := by simpa using hnot
          exact ih d1' d2' br2 _ (k + 1) hd1' hd2' hr2 (by simp; omega) (by omega) (by omega)


/-! ### `read_weights` -/

theorem readWeights_spec (H : SpecFseOK) (t : DecTable) (src : List Nat) :
    (∀ f, (readWeights t src).2 ≠ .error (.fault f)) ∧
    (Bytes src → ∀ t' used, readWeights t src = (t', .ok used) →
      t'.weights.length ≤ 257 ∧ used ≤ src.length ∧ t'.maxNumBits = t.maxNumBits ∧ t'.decode = t.decode) := by
  unfold readWeights
  split
  · refine ⟨fun f h => ?_, fun _ t' used h => ?_⟩ <;> simp at h
  · rename_i header rest
    split
    · -- FSE-compressed weights
      split
      · refine ⟨fun f h => ?_, fun _ t' used h => ?_⟩ <;> simp at h
      · rename_i hhdr
        split
        · refine ⟨fun f h => ?_, fun _ t' used h => ?_⟩ <;> simp at h
        · rename_i al probs used hdesc
          split
          · refine ⟨fun f h => ?_, fun _ t' used h => ?_⟩ <;> simp at h
          · rename_i ft hbuild
            obtain ⟨hft, hused⟩ := H rest al probs used ft hdesc hbuild
            split
            · refine ⟨fun f h => ?_, fun _ t' used h => ?_⟩ <;> simp at h
            · simp only []
              split
              · refine ⟨fun f h => ?_, fun _ t' used h => ?_⟩ <;> simp at h
              · have hr1 := RInv_skipPadding (RInv_new (List.take (header - used) (List.drop used rest))) 9 0
                generalize skipPadding 9 0 (RevReader.new (List.take (header - used) (List.drop used rest))) = sp at hr1 ⊢
                split
                · refine ⟨fun f h => ?_, fun _ t' used h => ?_⟩ <;> simp at h
                · split
                  · refine ⟨fun f h => ?_, fun _ t' used h => ?_⟩ <;> simp at h
                  · have hr2 := RInv_getBits hr1 ft.accLog
                    have hr3 := RInv_getBits hr2 ft.accLog
                    have hs1 := getBits_lt hr1 ft.accLog
                    have hs2 := getBits_lt hr2 ft.accLog
                    rw [← hft.size] at hs1 hs2
                    obtain ⟨d1, hd1, hm1⟩ := fseEntry_ok hs1
                    obtain ⟨d2, hd2, hm2⟩ := fseEntry_ok hs2
                    obtain ⟨r, hloop, hlen⟩ := fseWeightsLoop_ok hft 200 d1 d2 _ [] 0 hm1 hm2 hr3 rfl (by omega) (by omega)
                    simp only [hd1, hd2, hloop]
                    cases r with
                    | error ws => refine ⟨fun f h => ?_, fun _ t' used h => ?_⟩ <;> simp at h
                    | ok ws =>
                      refine ⟨fun f h => by simp at h, fun _ t' used' h => ?_⟩
                      simp only [Prod.mk.injEq, Except.ok.injEq] at h
                      obtain ⟨h1, h2⟩ := h
                      subst h1 h2
                      refine ⟨hlen ws rfl, ?_, rfl, rfl⟩
                      simp only [List.length_cons]; omega
    · -- direct form
      rename_i hhdr
      simp only []
      generalize hnum : header - Gen.hufDirectHeaderSubDec = num
      by_cases hneed : rest.length < (if num % 2 = 0 then num / 2 else num / 2 + 1)
      · rw [if_pos hneed]
        refine ⟨fun f h => ?_, fun _ t' used h => ?_⟩ <;> simp at h
      · rw [if_neg hneed]
        obtain ⟨ws, hws, hlen⟩ := nibbles_ok num rest (by split at hneed <;> omega)
        simp only [hws]
        refine ⟨fun f h => by simp at h, fun hb t' used' h => ?_⟩
        simp only [Prod.mk.injEq, Except.ok.injEq] at h
        obtain ⟨h1, h2⟩ := h
        subst h1 h2
        have hh : header < 256 := hb header List.mem_cons_self
        simp only [Gen.hufDirectHeaderSubDec] at hnum
        refine ⟨by simp only [hlen]; omega, ?_, rfl, rfl⟩
        simp only [List.length_cons]
        split at hneed <;> split <;> omega

theorem readWeights_no_fault (H : SpecFseOK) (t : DecTable) (src : List Nat) (f : Fault) :
    (readWeights t src).2 ≠ .error (.fault f) := (readWeights_spec H t src).1 f

theorem readWeights_ok (H : SpecFseOK) {t : DecTable} {src : List Nat} (hb : Bytes src) {t' : DecTable} {used : Nat}
    (h : readWeights t src = (t', .ok used)) :
    t'.weights.length ≤ 257 ∧ used ≤ src.length ∧ t'.maxNumBits = t.maxNumBits ∧ t'.decode = t.decode :=
  (readWeights_spec H t src).2 hb t' used h

end Zstd.Proofs.Blk
