import Zstd.Proofs.BlkHufBits
import Zstd.Proofs.BlkSeq
/-
Part B of `Proofs/BlkHuf`: `read_weights` never panics (and its FSE loop never runs out of fuel);
on success it leaves at most 257 weights and reports at most `source.len()` bytes.
-/
namespace Zstd.Proofs.Blk
open Zstd Zstd.Model Zstd.Model.Huf Zstd.Model.Huf.Bits
open Zstd.Proofs.BitIO (Bytes)

/-! ### the direct form -/

theorem nibbles_ok : ∀ (n : Nat) (l : List Nat), (n + 1) / 2 ≤ l.length →
    ∃ ws, nibbles n l = .ok ws ∧ ws.length = n := by
  intro n l
  induction l generalizing n with
  | nil =>
    intro h
    have : n = 0 := by simp at h; omega
    subst this; exact ⟨_, rfl, rfl⟩
  | cons b bs ih =>
    intro h
    match n with
    | 0 => exact ⟨_, rfl, rfl⟩
    | 1 => exact ⟨_, rfl, rfl⟩
    | n + 2 =>
      simp only [List.length_cons] at h
      obtain ⟨r, hr, hl⟩ := ih n (by omega)
      simp only [nibbles, hr]
      refine ⟨_, rfl, ?_⟩
      split <;> simp [hl]

/-! ### the FSE form (shared FSE model: `Fse.DTable.buildDecoder`, `Fse.Decoder`, `BitReaderRev`) -/

theorem fseErr_not_fault {e : Fse.Err} (h : ∀ f, e ≠ .fault f) : ∀ f, fseErr e ≠ .fault f := by
  intro f
  cases e with
  | fault f' => exact absurd rfl (h f')
  | _ => intro h'; cases h'

/-- the two-decoder loop on a built table: no fault, the fuel 130 is never exhausted (the weight count
grows by two per round and the loop stops with TooManyWeights above 255), at most 257 weights -/
theorem fseWeightsLoop_ok {ft : Fse.DTable} (hft : FseBuilt 6 ft) {src : Array Nat} :
    ∀ (fuel : Nat) (d1 d2 : Fse.Decoder) (br : BitIO.BitReaderRev) (acc : List Nat) (k : Nat),
      d1.state ∈ ft.decode.toList → d2.state ∈ ft.decode.toList → RevOK src br →
      acc.length = 2 * k → k ≤ 127 → 128 ≤ k + fuel →
      ∃ r, fseWeightsLoop ft fuel d1 d2 br acc = .ok r ∧ ∀ ws, r = .ok ws → ws.length ≤ 257 := by
  intro fuel
  induction fuel with
  | zero => intro d1 d2 br acc k _ _ _ _ h1 h2; omega
  | succ fuel ih =>
    intro d1 d2 br acc k hd1 hd2 hr hlen hk hfuel
    obtain ⟨d1', br1, hu1, hr1, hd1'⟩ := updateState_built hft (by decide) hr d1 hd1
    obtain ⟨d2', br2, hu2, hr2, hd2'⟩ := updateState_built hft (by decide) hr1 d2 hd2
    unfold fseWeightsLoop
    simp only [hu1]
    split
    · refine ⟨_, rfl, ?_⟩
      intro ws h
      simp only [Except.ok.injEq] at h
      subst h
      simp; omega
    · simp only [hu2]
      split
      · refine ⟨_, rfl, ?_⟩
        intro ws h
        simp only [Except.ok.injEq] at h
        subst h
        simp; omega
      · split
        · refine ⟨_, rfl, ?_⟩
          intro ws h; cases h
        · rename_i hnot
          simp only [Gen.hufTooManyWeights, Gen.hufTooManyWeightsBound, List.length_cons] at hnot
          have hnot' : ¬ (acc.length + 1 + 1 > 255) := by simpa using hnot
          exact ih d1' d2' br2 _ (k + 1) hd1' hd2' hr2 (by simp; omega) (by omega) (by omega)

/-! ### `read_weights` -/

theorem readWeights_spec (t : DecTable) (src : List Nat) (hb : Bytes src) :
    (∀ f, (readWeights t src).2 ≠ .error (.fault f)) ∧
    (∀ t' used, readWeights t src = (t', .ok used) →
      t'.weights.length ≤ 257 ∧ used ≤ src.length ∧ t'.maxNumBits = t.maxNumBits ∧ t'.decode = t.decode) := by
  unfold readWeights
  split
  · refine ⟨fun f h => ?_, fun t' used h => ?_⟩ <;> simp at h
  · rename_i header rest
    have hbr : Bytes rest := fun x hx => hb x (List.mem_cons_of_mem _ hx)
    split
    · -- FSE-compressed weights
      split
      · refine ⟨fun f h => ?_, fun t' used h => ?_⟩ <;> simp at h
      · rename_i hhdr
        have hbra : Bytes rest.toArray.toList := by simpa using hbr
        have hnf := buildDecoder_no_fault (Fse.DTable.new Gen.hufFseMaxSymbol) rest.toArray Gen.hufWeightsMaxLogDec hbra
          (by decide) (by decide)
        have hok := fun ft n => buildDecoder_ok (Fse.DTable.new Gen.hufFseMaxSymbol) ft rest.toArray
          Gen.hufWeightsMaxLogDec n hbra (by decide) (by decide)
        cases hbd : (Fse.DTable.new Gen.hufFseMaxSymbol).buildDecoder rest.toArray Gen.hufWeightsMaxLogDec with
        | mk ft r =>
          rw [hbd] at hnf
          cases r with
          | error e =>
            simp only []
            refine ⟨fun f h => ?_, fun t' used h => (by cases h)⟩
            simp only [Except.error.injEq] at h
            exact fseErr_not_fault (fun f' he => hnf f' (by rw [he])) f h
          | ok used =>
            obtain ⟨hft, _, hused⟩ := hok ft used hbd
            have hft6 : FseBuilt 6 ft := hft
            simp only []
            split
            · refine ⟨fun f h => ?_, fun t' used h => ?_⟩ <;> simp at h
            · split
              · refine ⟨fun f h => ?_, fun t' used h => ?_⟩ <;> simp at h
              · have hbs : Bytes ((rest.drop used).take (header - used)).toArray.toList := by
                  exact fun x hx => hbr x (List.mem_of_mem_drop (List.mem_of_mem_take hx))
                rcases skipPadding_ok 9 0 _ (RevOK_new hbs) with e | ⟨br0, e, hr0⟩
                · rw [Fse.skipEndMark, e]
                  refine ⟨fun f h => ?_, fun t' used h => ?_⟩ <;> simp at h
                · rw [Fse.skipEndMark, e]
                  simp only []
                  obtain ⟨d1, br1, e1, hr1, hd1⟩ := initState_built hft6 (by decide) hr0 (Fse.Decoder.new ft)
                  rw [e1]; simp only []
                  obtain ⟨d2, br2, e2, hr2, hd2⟩ := initState_built hft6 (by decide) hr1 (Fse.Decoder.new ft)
                  rw [e2]; simp only []
                  obtain ⟨r, hloop, hlen⟩ := fseWeightsLoop_ok hft6 130 d1 d2 br2 [] 0 hd1 hd2 hr2 rfl (by omega) (by omega)
                  rw [hloop]
                  cases r with
                  | error ws => refine ⟨fun f h => ?_, fun t' used h => ?_⟩ <;> simp at h
                  | ok ws =>
                    refine ⟨fun f h => by simp at h, fun t' used' h => ?_⟩
                    simp only [Prod.mk.injEq, Except.ok.injEq] at h
                    obtain ⟨h1, h2⟩ := h
                    subst h1 h2
                    refine ⟨hlen ws rfl, ?_, rfl, rfl⟩
                    simp only [List.length_cons]; omega
    · -- direct form
      rename_i hhdr
      simp only []
      generalize hnum : header - Gen.hufDirectHeaderSubDec = num
      by_cases hneed : rest.length < (if num % 2 = 0 then num / 2 else num / 2 + 1)
      · rw [if_pos hneed]
        refine ⟨fun f h => ?_, fun t' used h => ?_⟩ <;> simp at h
      · rw [if_neg hneed]
        obtain ⟨ws, hws, hlen⟩ := nibbles_ok num rest (by split at hneed <;> omega)
        simp only [hws]
        refine ⟨fun f h => by simp at h, fun t' used' h => ?_⟩
        simp only [Prod.mk.injEq, Except.ok.injEq] at h
        obtain ⟨h1, h2⟩ := h
        subst h1 h2
        have hh : header < 256 := hb header List.mem_cons_self
        simp only [Gen.hufDirectHeaderSubDec] at hnum
        refine ⟨by simp only [hlen]; omega, ?_, rfl, rfl⟩
        simp only [List.length_cons]
        split at hneed <;> split <;> omega

theorem readWeights_no_fault (t : DecTable) (src : List Nat) (hb : Bytes src) (f : Fault) :
    (readWeights t src).2 ≠ .error (.fault f) := (readWeights_spec t src hb).1 f

theorem readWeights_ok {t : DecTable} {src : List Nat} (hb : Bytes src) {t' : DecTable} {used : Nat}
    (h : readWeights t src = (t', .ok used)) :
    t'.weights.length ≤ 257 ∧ used ≤ src.length ∧ t'.maxNumBits = t.maxNumBits ∧ t'.decode = t.decode :=
  (readWeights_spec t src hb).2 t' used h

end Zstd.Proofs.Blk
