import Zstd.Model.Fse
/-
Facts about `Fse.histogram` (the `counts[..=max_symbol.max(1)]` of `build_table_from_data`) for the
weight vectors `write_table` hands to the FSE coder.
-/
namespace Zstd.Proofs.Huf
open Zstd Zstd.Model

theorem foldl_modify_getD (ws : List Nat) : ∀ (acc : Array Nat) (i : Nat),
    (ws.foldl (fun (c : Array Nat) x => c.modify x (· + 1)) acc).size = acc.size ∧
    (i < acc.size → (ws.foldl (fun (c : Array Nat) x => c.modify x (· + 1)) acc).getD i 0 = acc.getD i 0 + ws.count i) := by
  induction ws with
  | nil => intro acc i; simp
  | cons x xs ih =>
    intro acc i
    rw [List.foldl_cons]
    obtain ⟨h1, h2⟩ := ih (acc.modify x (· + 1)) i
    refine ⟨by rw [h1, Array.size_modify], ?_⟩
    intro hi
    rw [h2 (by rw [Array.size_modify]; exact hi), List.count_cons]
    have hm : (acc.modify x (· + 1)).getD i 0 = acc.getD i 0 + if x = i then 1 else 0 := by
      simp only [Array.getD_eq_getD_getElem?, Array.getElem?_modify]
      by_cases hx : x = i
      · subst hx; simp [Array.getElem?_eq_getElem hi]
      · simp [hx]
    rw [hm]
    by_cases hx : x = i
    · subst hx; simp; omega
    · have : (x == i) = false := by simpa using hx
      simp [hx, this]

/-- the largest index below `n` with a non-zero count (0 if there is none) -/
theorem maxSym_spec (counts : Array Nat) : ∀ n,
    let r := (List.range n).foldl (fun m i => if counts.getD i 0 > 0 then i else m) 0
    (r = 0 ∨ (r < n ∧ counts.getD r 0 > 0)) ∧ ∀ i, i < n → counts.getD i 0 > 0 → i ≤ r := by
  intro n
  induction n with
  | zero => simp
  | succ n ih =>
    simp only [List.range_succ, List.foldl_append, List.foldl_cons, List.foldl_nil]
    obtain ⟨h1, h2⟩ := ih
    by_cases hc : counts.getD n 0 > 0
    · rw [if_pos hc]
      exact ⟨Or.inr ⟨by omega, hc⟩, fun i hi _ => by omega⟩
    · rw [if_neg hc]
      refine ⟨?_, ?_⟩
      · rcases h1 with h | ⟨h, h'⟩
        · exact Or.inl h
        · exact Or.inr ⟨by omega, h'⟩
      · intro i hi hci
        by_cases hin : i = n
        · subst hin; exact absurd hci hc
        · exact h2 i (by omega) hci

/-- What the FSE coder of the weights sees: for weights `≤ 11` with at least one weight `≥ 1`, the
histogram has 2 … 12 entries, entry `x` is the number of occurrences of `x`, and the last entry is
not zero. -/
theorem histogram_weights (ws : List Nat) (hle : ∀ w ∈ ws, w ≤ 11) (hpos : ∃ w ∈ ws, 1 ≤ w) :
    let h := Fse.histogram ws
    2 ≤ h.length ∧ h.length ≤ 12 ∧ (∀ i, i < h.length → h.getD i 0 = ws.count i) ∧
      (∀ x ∈ ws, x < h.length) ∧ (∀ c, h.getLast? = some c → c > 0) := by
  intro h
  let counts := ws.foldl (fun (c : Array Nat) x => c.modify x (· + 1)) (Array.replicate 256 0)
  have hsz : counts.size = 256 := by
    have := (foldl_modify_getD ws (Array.replicate 256 0) 0).1
    simpa [counts] using this
  have hget : ∀ i, i < 256 → counts.getD i 0 = ws.count i := by
    intro i hi
    have := (foldl_modify_getD ws (Array.replicate 256 0) i).2 (by simpa using hi)
    simpa [counts, hi] using this
  let M := (List.range 256).foldl (fun m i => if counts.getD i 0 > 0 then i else m) 0
  obtain ⟨m1, m2⟩ := maxSym_spec counts 256
  have hM : h = (counts.extract 0 (max M 1 + 1)).toList := rfl
  obtain ⟨w0, hw0, hw01⟩ := hpos
  have hw0c : counts.getD w0 0 > 0 := by
    rw [hget w0 (by have := hle w0 hw0; omega)]
    exact List.count_pos_iff.mpr hw0
  have hM1 : 1 ≤ M := by
    have := m2 w0 (by have := hle w0 hw0; omega) hw0c
    show 1 ≤ M
    omega
  have hMc : counts.getD M 0 > 0 ∧ M < 256 := by
    rcases m1 with h0 | ⟨h1, h2⟩
    · exfalso; have : M = 0 := h0; omega
    · exact ⟨h2, h1⟩
  have hM11 : M ≤ 11 := by
    have : ws.count M > 0 := by rw [← hget M hMc.2]; exact hMc.1
    exact hle M (List.count_pos_iff.mp this)
  have hmax : max M 1 = M := by omega
  have hlen : h.length = M + 1 := by
    rw [hM, Array.length_toList, Array.size_extract, hsz, hmax]; omega
  have hgetD : ∀ i, i < h.length → h.getD i 0 = ws.count i := by
    intro i hi
    rw [hlen] at hi
    rw [← hget i (by omega)]
    have hi' : i < (counts.extract 0 (max M 1 + 1)).size := by rw [Array.size_extract, hsz, hmax]; omega
    rw [hM, List.getD_eq_getElem?_getD, Array.getElem?_toList, Array.getElem?_eq_getElem hi',
      Array.getElem_extract]
    simp [Array.getD, hsz]
    omega
  refine ⟨by omega, by omega, hgetD, ?_, ?_⟩
  · intro x hx
    have hx11 := hle x hx
    have : counts.getD x 0 > 0 := by rw [hget x (by omega)]; exact List.count_pos_iff.mpr hx
    have := m2 x (by omega) this
    rw [hlen]; show x < M + 1; omega
  · intro c hc
    rw [List.getLast?_eq_getElem?, hlen] at hc
    have := hgetD M (by omega)
    rw [List.getD_eq_getElem?_getD] at this
    simp only [Nat.add_sub_cancel] at hc
    rw [hc] at this
    simp only [Option.getD_some] at this
    rw [this, ← hget M hMc.2]; exact hMc.1

end Zstd.Proofs.Huf
