import Zstd.Props.C01
import Zstd.Proofs.FrameDecoderNoFault
/-
C03 — no input can make decoding panic, corrupt memory or hang.

Every Rust panic site the frame-level model can reach is a `Fault`; the theorems say no `Fault` is
ever returned and that the fuel given to each loop suffices (= the Rust loop terminates).  Memory
safety of the raw-pointer window is C04; the entropy stages have their own no-fault theorems in
C12/C13.  This file: sequence execution and the frame level.  `C03_full` is the composed statement.
-/
namespace Zstd.Props.C03
open Zstd Zstd.Model

/-- the full statement for the block-decoding entry point: whatever the source bytes and the
decoder state, `decode_blocks` returns a value or an error, never a fault -/
def C03_full : Prop :=
  ∀ (d : Decoder) (s : Src) (strat : Strategy) (f : Fault), (d.decodeBlocks s strat).2 ≠ .fault f

/-- `execute_sequences` cannot panic: its only panic site (the `offset_value - 3` underflow) needs
an offset value of 0, which no sequence carries -/
theorem executeSequences_no_fault (seqs : List Spec.Seq) (hov : ∀ s ∈ seqs, s.ov ≥ 1) :
    ∀ (lits : List Nat) (h : Nat × Nat × Nat) (seqSum : Nat) (b : DBuf) (f : Fault),
      (executeSequences seqs lits h seqSum b).2 ≠ .fault f := by
  induction seqs with
  | nil =>
    intro lits h seqSum b f
    unfold executeSequences
    split <;> (try split) <;> simp
  | cons s rest ih =>
    intro lits h seqSum b f
    unfold executeSequences
    have hs : s.ov ≥ 1 := hov s (List.mem_cons_self)
    have hrest : ∀ s' ∈ rest, s'.ov ≥ 1 := fun s' hm => hov s' (List.mem_cons_of_mem _ hm)
    split
    · simp
    · split
      · simp
      · obtain ⟨r, hr⟩ := C01.doOffsetHistory_no_fault s.ov s.ll h hs
        simp only [hr]
        obtain ⟨actual, h'⟩ := r
        simp only []
        split
        · simp
        · split
          · simp
          · exact ih hrest _ _ _ _ f

/-- every sequence the Spec's sequence decoder yields has an offset value ≥ 1 -/
theorem decodeSeqLoop_ov_pos (llT ofT mlT : Spec.Fse.Table) :
    ∀ (n sLL sOF sML : Nat) (bits : List Bool) (acc : List Spec.Seq) (seqs : List Spec.Seq) (rest : List Bool),
      (∀ s ∈ acc, s.ov ≥ 1) →
      Spec.decodeSeqLoop llT ofT mlT n sLL sOF sML bits acc = some (seqs, rest) →
      ∀ s ∈ seqs, s.ov ≥ 1 := by
  intro n
  induction n with
  | zero =>
    intro sLL sOF sML bits acc seqs rest hacc h
    unfold Spec.decodeSeqLoop at h
    injection h with h; injection h with h1 h2; subst h1
    intro s hs; exact hacc s (List.mem_reverse.mp hs)
  | succ n ih =>
    intro sLL sOF sML bits acc seqs rest hacc h
    unfold Spec.decodeSeqLoop at h
    split at h
    · split at h
      · split at h
        · cases h
        · split at h
          · cases h
          · split at h
            · cases h
            · split at h
              · cases h
              · have cons_ok : ∀ (x : Spec.Seq), x.ov ≥ 1 → ∀ s ∈ x :: acc, s.ov ≥ 1 := by
                  intro x hx s hs
                  rcases List.mem_cons.mp hs with rfl | hs
                  · exact hx
                  · exact hacc s hs
                split at h
                · injection h with h; injection h with h1 h2; subst h1
                  intro s hs
                  exact cons_ok _ (C01.offsetValue_pos _ _) s (List.mem_reverse.mp hs)
                · split at h
                  · cases h
                  · split at h
                    · cases h
                    · split at h
                      · cases h
                      · exact ih _ _ _ _ _ _ _ (cons_ok _ (C01.offsetValue_pos _ _)) h
      · cases h
    · cases h

/-! ### the frame level (agentH): no operation of the public API ever returns a `Fault` -/

/-- one block never faults, whatever the state and the source: the sequences handed to
`execute_sequences` come from the sequence decoder, whose offset values are `2^code + extra ≥ 1` -/
theorem decodeOneBlock_no_fault (st : FState) (s : Src) (f : Fault) : (decodeOneBlock st s).2 ≠ .fault f :=
  decodeOneBlock_noFault st s f

/-- `C03_full` holds: `decode_blocks` returns a value or an error, never a fault — every state (also
states left behind by earlier errors), every source, every strategy -/
theorem decodeBlocks_no_fault : C03_full :=
  fun d s strat f => Decoder.decodeBlocks_noFault d s strat f

/-- `reset`/`init` never faults -/
theorem reset_no_fault (d : Decoder) (s : Src) (f : Fault) : (d.reset s).2 ≠ .fault f :=
  Decoder.reset_noFault d s f

/-- `decode_from_to` never faults: no block fault, and its two `panic!("Bug in library")` arms are
unreachable (after a successful `init` the state is `Some`) -/
theorem decodeFromTo_no_fault (d : Decoder) (s : Src) (n : Nat) (f : Fault) : (d.decodeFromTo s n).2 ≠ .fault f :=
  Decoder.decodeFromTo_noFault d s n f

/-- `decode_all` never faults -/
theorem decodeAll_no_fault (d : Decoder) (s : Src) (room : Nat) (f : Fault) : (d.decodeAll s room).2 ≠ .fault f :=
  decodeAllLoop_noFault _ d s room #[] f

/-- `StreamingDecoder::read` never faults -/
theorem streamingRead_no_fault (d : Decoder) (s : Src) (n : Nat) (f : Fault) : (streamingRead d s n).2 ≠ .fault f :=
  streamingRead_noFault d s n f

/-- the `assert!(seq_sum as usize == diff)` at the end of `execute_sequences` (not a `Fault` site of
the model) cannot fire: on `Ok` the buffer grew by exactly the final `seq_sum`, and `seq_sum` never
exceeds 131072, so the `u32` additions cannot overflow either -/
theorem seq_sum_assert_never_fires (seqs : List Spec.Seq) (lits : List Nat) (h : Nat × Nat × Nat) (b : DBuf)
    (hok : (executeSequences seqs lits h 0 b).2 = .ok ()) :
    (executeSequences seqs lits h 0 b).1.1.content.size = b.content.size + finalSeqSum seqs lits 0 ∧
    finalSeqSum seqs lits 0 ≤ 131072 := by
  obtain ⟨x, hx, hs, hf⟩ := executeSequences_appends seqs lits h 0 b (Nat.zero_le _)
  have := hf hok
  have e : Gen.maxBlockSize = 131072 := by decide
  rw [hx.size]; omega

/-- `copyWithin` (the model of `repeat`'s copy loop) reads inside the buffer whenever
`0 < offset ≤ len`: the `getD` default in its definition is never used on the paths the decoder
takes (offset 0 is rejected as `ZeroOffset` before, larger offsets go to the dictionary path) -/
theorem copyWithin_reads_in_bounds (n off : Nat) (c : Array Nat) (h0 : 0 < off) (h : off ≤ c.size) :
    c.size - off < c.size ∧ (copyWithin n off c).size = c.size + n :=
  ⟨by omega, copyWithin_size n off c⟩

/-- every loop of the frame level terminates: more fuel than the source is long never changes a
result (each iteration consumes ≥ 3 source bytes or returns) -/
theorem frame_loops_terminate (strat : Strategy) (a c f : Nat) (st : FState) (d : Decoder) (s : Src)
    (room n : Nat) (out : Array Nat) (h : s.length < f) :
    decodeBlocksLoop strat a c f st s = decodeBlocksLoop strat a c (s.length + 1) st s ∧
    decodeFromToLoop f st s = decodeFromToLoop (s.length + 1) st s ∧
    streamingFill f d s n = streamingFill (s.length + 2) d s n ∧
    decodeAllFrame f d s room out = decodeAllFrame (s.length + 2) d s room out ∧
    decodeAllLoop f d s room out = decodeAllLoop (s.length + 1) d s room out :=
  ⟨decodeBlocksLoop_fuel strat a c f _ st s h (Nat.lt_succ_self _),
   decodeFromToLoop_fuel f _ st s h (Nat.lt_succ_self _),
   streamingFill_fuel f _ d s n h (by omega),
   decodeAllFrame_fuel f _ d s room out h (by omega),
   decodeAllLoop_fuel f _ d s room out h (Nat.lt_succ_self _)⟩

/-- non-vacuity: a sequence with offset value 4 on a buffer holding one byte executes without fault -/
example : (executeSequences [⟨0, 3, 4⟩] [] (1, 4, 8) 0 { content := #[7] }).2.isOk = true := by decide

end Zstd.Props.C03
