import Zstd.Props.C01
/-
C03 — no input can make decoding panic, corrupt memory or hang.

Every Rust panic site the frame-level model can reach is a `Fault`; the theorems say no `Fault` is
ever returned and that the fuel given to each loop suffices (= the Rust loop terminates).  Memory
safety of the raw-pointer window is C04; the entropy stages have their own no-fault theorems in
C12/C13.  This file: sequence execution and the frame level.  `C03_full` is the composed statement.
-/
namespace Zstd.Props.C03
open Zstd Zstd.Model

/-- the full statement for the block-decoding entry point: whatever the source bytes and the
decoder state, `decode_blocks` returns a value or an error, never a fault -/
def C03_full : Prop :=
  ∀ (d : Decoder) (s : Src) (strat : Strategy) (f : Fault), (d.decodeBlocks s strat).2 ≠ .fault f

/-- `execute_sequences` cannot panic: its only panic site (the `offset_value - 3` underflow) needs
an offset value of 0, which no sequence carries -/
theorem executeSequences_no_fault (seqs : List Spec.Seq) (hov : ∀ s ∈ seqs, s.ov ≥ 1) :
    ∀ (lits : List Nat) (h : Nat × Nat × Nat) (seqSum : Nat) (b : DBuf) (f : Fault),
      (executeSequences seqs lits h seqSum b).2 ≠ .fault f := by
  induction seqs with
  | nil =>
    intro lits h seqSum b f
    unfold executeSequences
    split <;> (try split) <;> simp
  | cons s rest ih =>
    intro lits h seqSum b f
    unfold executeSequences
    have hs : s.ov ≥ 1 := hov s (List.mem_cons_self)
    have hrest : ∀ s' ∈ rest, s'.ov ≥ 1 := fun s' hm => hov s' (List.mem_cons_of_mem _ hm)
    split
    · simp
    · split
      · simp
      · obtain ⟨r, hr⟩ := C01.doOffsetHistory_no_fault s.ov s.ll h hs
        simp only [hr]
        obtain ⟨actual, h'⟩ := r
        simp only []
        split
        · simp
        · split
          · simp
          · exact ih hrest _ _ _ _ f

/-- every sequence the Spec's sequence decoder yields has an offset value ≥ 1 -/
theorem decodeSeqLoop_ov_pos (llT ofT mlT : Spec.Fse.Table) :
    ∀ (n sLL sOF sML : Nat) (bits : List Bool) (acc : List Spec.Seq) (seqs : List Spec.Seq) (rest : List Bool),
      (∀ s ∈ acc, s.ov ≥ 1) →
      Spec.decodeSeqLoop llT ofT mlT n sLL sOF sML bits acc = some (seqs, rest) →
      ∀ s ∈ seqs, s.ov ≥ 1 := by
  intro n
  induction n with
  | zero =>
    intro sLL sOF sML bits acc seqs rest hacc h
    unfold Spec.decodeSeqLoop at h
    injection h with h; injection h with h1 h2; subst h1
    intro s hs; exact hacc s (List.mem_reverse.mp hs)
  | succ n ih =>
    intro sLL sOF sML bits acc seqs rest hacc h
    unfold Spec.decodeSeqLoop at h
    split at h
    · split at h
      · split at h
        · cases h
        · split at h
          · cases h
          · split at h
            · cases h
            · split at h
              · cases h
              · have cons_ok : ∀ (x : Spec.Seq), x.ov ≥ 1 → ∀ s ∈ x :: acc, s.ov ≥ 1 := by
                  intro x hx s hs
                  rcases List.mem_cons.mp hs with rfl | hs
                  · exact hx
                  · exact hacc s hs
                split at h
                · injection h with h; injection h with h1 h2; subst h1
                  intro s hs
                  exact cons_ok _ (C01.offsetValue_pos _ _) s (List.mem_reverse.mp hs)
                · split at h
                  · cases h
                  · split at h
                    · cases h
                    · split at h
                      · cases h
                      · exact ih _ _ _ _ _ _ _ (cons_ok _ (C01.offsetValue_pos _ _)) h
      · cases h
    · cases h

/-- non-vacuity: a sequence with offset value 4 on a buffer holding one byte executes without fault -/
example : (executeSequences [⟨0, 3, 4⟩] [] (1, 4, 8) 0 { content := #[7] }).2.isOk = true := by decide

end Zstd.Props.C03
