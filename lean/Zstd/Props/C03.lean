import Zstd.Props.C01
import Zstd.Proofs.FrameDecoderStandIn
import Zstd.Proofs.FrameFaithful
import Zstd.Proofs.FrameLegal
import Zstd.Proofs.BlockNoFault
/-
C03 — no input can make decoding panic, corrupt memory or hang.

Every Rust panic site the frame-level model can reach is a `Fault`; the theorems say no `Fault` is
ever returned and that the fuel given to each loop suffices (= the Rust loop terminates).  Memory
safety of the raw-pointer window is C04; the entropy stages have their own no-fault theorems in
C12/C13.  This file: sequence execution and the frame level.  `C03_full` is the composed statement.
-/
namespace Zstd.Props.C03
open Zstd Zstd.Model

/-- the statement over the Spec stand-in (instance A), as it was worded before the executable model
became the faithful one: whatever the source bytes and the decoder state, `decode_blocks` returns a
value or an error, never a fault (`decodeBlocks_no_fault`) -/
def C03_full_standIn : Prop :=
  ∀ (d : DecA) (s : Src) (strat : Strategy) (f : Fault), (d.decodeBlocks s strat).2 ≠ .fault f

/-- **the full statement, over the EXECUTABLE model** (`DecB`: the frame-level model with the faithful
block decoder, the one engines `dec` / `hostile` compare with the real code): from every decoder state
reachable by a legal call sequence of the public API (`Legal`, Proofs/FrameLegal.lean: `new`,
`set_max_window_size`, `add_dict` of ANY bytes `decode_dict` accepts, `force_dict`, `reset` / `init`,
every drain, `decode_blocks`, `decode_from_to`, `StreamingDecoder::read`, `decode_all`,
`decode_all_to_vec`, on ANY byte arguments) no entry point ever panics:
* the dictionary parser, `reset`, `decode_all` and `decode_all_to_vec` from EVERY reachable state,
* `decode_blocks`, `decode_from_to` and `StreamingDecoder::read` from every reachable state in which
  decoding on is allowed — i.e. unless the current frame's last decode call ended in `err literals` /
  `err sequences` (after which the caller may drain, query, `reset`, `decode_all`, but the documentation
  does not allow decoding on; `continue_after_error_faults_*` below show that restriction is necessary).
Proved: `no_fault_from_legal_states`. -/
def C03_full : Prop :=
  ∀ (d : DecB) (ok : Bool), Legal d ok → ∀ (s : Src), (∀ x ∈ s, x < 256) → ∀ (f : Fault),
    Blk.decodeDict s ≠ .error f ∧
    (∀ room vec, (d.reset s).2 ≠ .fault f ∧ (d.decodeAll s room).2 ≠ .fault f ∧
      (d.decodeAllToVec s vec room).2.2 ≠ .fault f) ∧
    (ok = true → ∀ strat n, (d.decodeBlocks s strat).2 ≠ .fault f ∧ (d.decodeFromTo s n).2 ≠ .fault f ∧
      (streamingRead d s n).2 ≠ .fault f)

/-- `execute_sequences` cannot panic: its only panic site (the `offset_value - 3` underflow) needs
an offset value of 0, which no sequence carries -/
theorem executeSequences_no_fault (seqs : List Spec.Seq) (hov : ∀ s ∈ seqs, s.ov ≥ 1) :
    ∀ (lits : List Nat) (h : Nat × Nat × Nat) (seqSum : Nat) (b : DBuf) (f : Fault),
      (executeSequences seqs lits h seqSum b).2 ≠ .fault f := by
  induction seqs with
  | nil =>
    intro lits h seqSum b f
    unfold executeSequences
    split <;> (try split) <;> simp
  | cons s rest ih =>
    intro lits h seqSum b f
    unfold executeSequences
    have hs : s.ov ≥ 1 := hov s (List.mem_cons_self)
    have hrest : ∀ s' ∈ rest, s'.ov ≥ 1 := fun s' hm => hov s' (List.mem_cons_of_mem _ hm)
    split
    · simp
    · split
      · simp
      · obtain ⟨r, hr⟩ := C01.doOffsetHistory_no_fault s.ov s.ll h hs
        simp only [hr]
        obtain ⟨actual, h'⟩ := r
        simp only []
        split
        · simp
        · split
          · simp
          · exact ih hrest _ _ _ _ f

/-- every sequence the Spec's sequence decoder yields has an offset value ≥ 1 -/
theorem decodeSeqLoop_ov_pos (llT ofT mlT : Spec.Fse.Table) :
    ∀ (n sLL sOF sML : Nat) (bits : List Bool) (acc : List Spec.Seq) (seqs : List Spec.Seq) (rest : List Bool),
      (∀ s ∈ acc, s.ov ≥ 1) →
      Spec.decodeSeqLoop llT ofT mlT n sLL sOF sML bits acc = some (seqs, rest) →
      ∀ s ∈ seqs, s.ov ≥ 1 := by
  intro n
  induction n with
  | zero =>
    intro sLL sOF sML bits acc seqs rest hacc h
    unfold Spec.decodeSeqLoop at h
    injection h with h; injection h with h1 h2; subst h1
    intro s hs; exact hacc s (List.mem_reverse.mp hs)
  | succ n ih =>
    intro sLL sOF sML bits acc seqs rest hacc h
    unfold Spec.decodeSeqLoop at h
    split at h
    · split at h
      · split at h
        · cases h
        · split at h
          · cases h
          · split at h
            · cases h
            · split at h
              · cases h
              · have cons_ok : ∀ (x : Spec.Seq), x.ov ≥ 1 → ∀ s ∈ x :: acc, s.ov ≥ 1 := by
                  intro x hx s hs
                  rcases List.mem_cons.mp hs with rfl | hs
                  · exact hx
                  · exact hacc s hs
                split at h
                · injection h with h; injection h with h1 h2; subst h1
                  intro s hs
                  exact cons_ok _ (C01.offsetValue_pos _ _) s (List.mem_reverse.mp hs)
                · split at h
                  · cases h
                  · split at h
                    · cases h
                    · split at h
                      · cases h
                      · exact ih _ _ _ _ _ _ _ (cons_ok _ (C01.offsetValue_pos _ _)) h
      · cases h
    · cases h

/-! ### the frame level (agentH): no operation of the public API ever returns a `Fault`

Proved for EVERY block decoder with a `NoFaultContract` (`*_of_contract`: the decoder's entropy state
and its dictionaries are well formed — `Decoder.entWF`, established by `new` and preserved by every
operation — and the source satisfies the contract's input predicate, "is a list of bytes" for the
faithful decoder).  The theorems under the old names are the instances for the Spec stand-in, whose
contract has no preconditions. -/

section generic
variable {σ : Type} [BlockDec σ] [BlockContract σ] [NoFaultContract σ]

/-! The invariant is `Decoder.entWF` (frame state and dictionaries well formed).  It is established by
`new` and by every `reset` that returns `Ok`, kept by draining, and kept by every decode operation
whose result is `Out.clean`: anything but `err literals` / `err sequences`, the two errors after
which the real scratch can hold a half-built table.  After those two the caller may still drain,
query and `reset` (or call `decode_all`, which resets) — `Decoder.dictsWF` is kept by everything
and is all `reset` needs — but must not decode on in the failed frame. -/

/-- a new decoder (no frame state) with well-formed dictionaries satisfies the invariant -/
theorem new_entWF (dicts : List (Dict σ)) (mw : Nat) (h : ∀ dict ∈ dicts, NoFaultContract.wf dict.entropy) :
    ({ state := none, dicts := dicts, maxWindow := mw } : Decoder σ).entWF :=
  ⟨fun _ hst => (nomatch hst), h⟩

theorem decodeOneBlock_no_fault_of_contract (st : FState σ) (s : Src) (hw : st.entWF) (hi : NoFaultContract.inp σ s) :
    ((decodeOneBlock st s).2.clean → (decodeOneBlock st s).1.entWF) ∧ ∀ f, (decodeOneBlock st s).2 ≠ .fault f :=
  decodeOneBlock_noFault st s hw hi

theorem decodeBlocks_no_fault_of_contract (d : Decoder σ) (s : Src) (strat : Strategy) (hw : d.entWF)
    (hi : NoFaultContract.inp σ s) :
    ((d.decodeBlocks s strat).2.clean → (d.decodeBlocks s strat).1.entWF) ∧ (d.decodeBlocks s strat).1.dictsWF ∧
    (∀ f, (d.decodeBlocks s strat).2 ≠ .fault f) ∧
    (∀ s' fin, (d.decodeBlocks s strat).2 = .ok (s', fin) → NoFaultContract.inp σ s') :=
  Decoder.decodeBlocks_noFault d s strat hw hi

/-- `reset` never faults, from ANY decoder state (also the debris of a failed frame) as long as the
registered dictionaries are well formed; when it returns `Ok` the full invariant holds again -/
theorem reset_no_fault_of_contract (d : Decoder σ) (s : Src) (hd : d.dictsWF) :
    (d.reset s).1.dictsWF ∧ (∀ f, (d.reset s).2 ≠ .fault f) ∧
    (d.entWF → (d.reset s).1.entWF) ∧ (∀ rest, (d.reset s).2 = .ok rest → (d.reset s).1.entWF) :=
  Decoder.reset_noFault d s hd

theorem drain_keeps_entWF (d : Decoder σ) (op : DrainOp) (hw : d.entWF) : (applyDrain d op).1.entWF :=
  applyDrain_entWF d op hw

theorem drain_keeps_dictsWF (d : Decoder σ) (op : DrainOp) (hw : d.dictsWF) : (applyDrain d op).1.dictsWF :=
  applyDrain_dictsWF d op hw

theorem decodeFromTo_no_fault_of_contract (d : Decoder σ) (s : Src) (n : Nat) (hw : d.entWF)
    (hi : NoFaultContract.inp σ s) :
    ((d.decodeFromTo s n).2.clean → (d.decodeFromTo s n).1.entWF) ∧ (d.decodeFromTo s n).1.dictsWF ∧
    ∀ f, (d.decodeFromTo s n).2 ≠ .fault f :=
  Decoder.decodeFromTo_noFault d s n hw hi

/-- `decode_all` (which starts every frame with `reset`) never faults, from any decoder state with
well-formed dictionaries -/
theorem decodeAll_no_fault_of_contract (d : Decoder σ) (s : Src) (room : Nat) (hd : d.dictsWF)
    (hi : NoFaultContract.inp σ s) :
    (d.decodeAll s room).1.dictsWF ∧ (∀ f, (d.decodeAll s room).2 ≠ .fault f) ∧
    (d.entWF → (d.decodeAll s room).2.clean → (d.decodeAll s room).1.entWF) :=
  decodeAllLoop_noFault _ d s room #[] hd hi

theorem streamingRead_no_fault_of_contract (d : Decoder σ) (s : Src) (n : Nat) (hw : d.entWF)
    (hi : NoFaultContract.inp σ s) :
    ((streamingRead d s n).2.clean → (streamingRead d s n).1.entWF) ∧ (streamingRead d s n).1.dictsWF ∧
    ∀ f, (streamingRead d s n).2 ≠ .fault f :=
  streamingRead_noFault d s n hw hi

end generic

/-- one block never faults, whatever the state and the source: the sequences handed to
`execute_sequences` come from the sequence decoder, whose offset values are `2^code + extra ≥ 1`
(stand-in instance) -/
theorem decodeOneBlock_no_fault (st : FState Spec.Entropy) (s : Src) (f : Fault) : (decodeOneBlock st s).2 ≠ .fault f :=
  (decodeOneBlock_noFault st s trivial trivial).2 f

/-- `C03_full_standIn` holds: `decode_blocks` returns a value or an error, never a fault — every state (also
states left behind by earlier errors), every source, every strategy (stand-in instance) -/
theorem decodeBlocks_no_fault : C03_full_standIn :=
  fun d s strat f => (Decoder.decodeBlocks_noFault d s strat (entWF_standIn d) trivial).2.2.1 f

/-- `reset`/`init` never faults -/
theorem reset_no_fault (d : DecA) (s : Src) (f : Fault) : (d.reset s).2 ≠ .fault f :=
  (Decoder.reset_noFault d s (entWF_standIn d).2).2.1 f

/-- `decode_from_to` never faults: no block fault, and its two `panic!("Bug in library")` arms are
unreachable (after a successful `init` the state is `Some`) -/
theorem decodeFromTo_no_fault (d : DecA) (s : Src) (n : Nat) (f : Fault) : (d.decodeFromTo s n).2 ≠ .fault f :=
  (Decoder.decodeFromTo_noFault d s n (entWF_standIn d) trivial).2.2 f

/-- `decode_all` never faults -/
theorem decodeAll_no_fault (d : DecA) (s : Src) (room : Nat) (f : Fault) : (d.decodeAll s room).2 ≠ .fault f :=
  (decodeAllLoop_noFault _ d s room #[] (entWF_standIn d).2 trivial).2.1 f

/-- `StreamingDecoder::read` never faults -/
theorem streamingRead_no_fault (d : DecA) (s : Src) (n : Nat) (f : Fault) : (streamingRead d s n).2 ≠ .fault f :=
  (streamingRead_noFault d s n (entWF_standIn d) trivial).2.2 f

/-- the `assert!(seq_sum as usize == diff)` at the end of `execute_sequences` (not a `Fault` site of
the model) cannot fire: on `Ok` the buffer grew by exactly the final `seq_sum`, and `seq_sum` never
exceeds 131072, so the `u32` additions cannot overflow either -/
theorem seq_sum_assert_never_fires (seqs : List Spec.Seq) (lits : List Nat) (h : Nat × Nat × Nat) (b : DBuf)
    (hok : (executeSequences seqs lits h 0 b).2 = .ok ()) :
    (executeSequences seqs lits h 0 b).1.1.content.size = b.content.size + finalSeqSum seqs lits 0 ∧
    finalSeqSum seqs lits 0 ≤ 131072 := by
  obtain ⟨x, hx, hs, hf⟩ := executeSequences_appends seqs lits h 0 b (Nat.zero_le _)
  have := hf hok
  have e : Gen.maxBlockSize = 131072 := by decide
  rw [hx.size]; omega

/-- `copyWithin` (the model of `repeat`'s copy loop) reads inside the buffer whenever
`0 < offset ≤ len`: the `getD` default in its definition is never used on the paths the decoder
takes (offset 0 is rejected as `ZeroOffset` before, larger offsets go to the dictionary path) -/
theorem copyWithin_reads_in_bounds (n off : Nat) (c : Array Nat) (h0 : 0 < off) (h : off ≤ c.size) :
    c.size - off < c.size ∧ (copyWithin n off c).size = c.size + n :=
  ⟨by omega, copyWithin_size n off c⟩

/-- every loop of the frame level terminates: more fuel than the source is long never changes a
result (each iteration consumes ≥ 3 source bytes or returns) -/
theorem frame_loops_terminate {σ : Type} [BlockDec σ] [BlockContract σ] (strat : Strategy) (a c f : Nat) (st : FState σ) (d : Decoder σ) (s : Src)
    (room n : Nat) (out : Array Nat) (h : s.length < f) :
    decodeBlocksLoop strat a c f st s = decodeBlocksLoop strat a c (s.length + 1) st s ∧
    decodeFromToLoop f st s = decodeFromToLoop (s.length + 1) st s ∧
    streamingFill f d s n = streamingFill (s.length + 2) d s n ∧
    decodeAllFrame f d s room out = decodeAllFrame (s.length + 2) d s room out ∧
    decodeAllLoop f d s room out = decodeAllLoop (s.length + 1) d s room out :=
  ⟨decodeBlocksLoop_fuel strat a c f _ st s h (Nat.lt_succ_self _),
   decodeFromToLoop_fuel f _ st s h (Nat.lt_succ_self _),
   streamingFill_fuel f _ d s n h (by omega),
   decodeAllFrame_fuel f _ d s room out h (by omega),
   decodeAllLoop_fuel f _ d s room out h (Nat.lt_succ_self _)⟩

/-- non-vacuity: a sequence with offset value 4 on a buffer holding one byte executes without fault -/
example : (executeSequences [⟨0, 3, 4⟩] [] (1, 4, 8) 0 { content := #[7] }).2.isOk = true := by decide


/-! ## block level: `BlockDecoder::decompress_block` on the faithful model (`Zstd.Model.Blk`)

`Blk.decompressBlock` mirrors `decompress_block`, `decode_literals`, `decode_sequences`,
`maybe_update_fse_tables` and both sequence loops statement by statement (engine `blk`: compared with
the real code block by block, also on blocks broken on purpose); every Rust panic site it can reach is a
`Fault`, every `loop`/`while` takes fuel and running out of fuel is a `Fault` too.  The invariant is
`Blk.WF` (`Proofs/BlockNoFault.lean`; FSE tables uninitialised or built, RLE symbols within the
alphabets, Huffman table empty or built).  Helper lemmas: `Proofs/BlkFse*.lean` (FSE builders),
`Proofs/BlkHuf*.lean` (Huffman table, literals streams, fuel), `Proofs/BlkSeq.lean` (sequence section),
`Proofs/BlockNoFault.lean` (composition). -/

open Zstd.Model.Blk Zstd.Proofs.BitIO in
/-- **`decompress_block` never panics and never hangs**: for EVERY block content (any byte string),
every well-formed entropy state and every decode buffer, the outcome is a value or an error, never a
`Fault` (no index out of range, no `unwrap`/`assert!`/`unreachable!`/arithmetic overflow, no loop that
runs out of fuel).  (`Bytes content`: the elements of the list are bytes.) -/
theorem decompressBlock_no_fault {s : Blk.Scratch} (hwf : Blk.WF s) (content : List Nat) (hb : Bytes content)
    (b : DBuf) (f : Fault) : (Blk.decompressBlock content s b).2 ≠ .fault f :=
  (decompressBlock_spec hb hwf b).1 f

open Zstd.Model.Blk Zstd.Proofs.BitIO in
/-- a successful `decompress_block` leaves the entropy state well formed (so the next block of the
frame can be decoded: Repeat modes, Treeless literals) -/
theorem decompressBlock_keeps_WF {s : Blk.Scratch} (hwf : Blk.WF s) (content : List Nat) (hb : Bytes content)
    (b : DBuf) : (Blk.decompressBlock content s b).2 = .ok → Blk.WF (Blk.decompressBlock content s b).1.1 :=
  (decompressBlock_spec hb hwf b).2.1

open Zstd.Model.Blk Zstd.Proofs.BitIO Zstd.Proofs.Blk in
/-- what still holds after an ERROR: only a failed literals section can leave the Huffman table in a
stale state, only a failed sequence section can leave an FSE table in a stale state; every other error
(`literalsHeader`, `literalsTooLarge`, `malformedSection`, `seqHeader`, `exec _`) leaves the whole
state well formed -/
theorem decompressBlock_err_state {s : Blk.Scratch} (hwf : Blk.WF s) (content : List Nat) (hb : Bytes content)
    (b : DBuf) (e : Blk.BlkErr) (he : (Blk.decompressBlock content s b).2 = .err e) :
    (e ≠ .literals → HufWF (Blk.decompressBlock content s b).1.1.huf) ∧
    (e ≠ .sequences → FseScratchWF (Blk.decompressBlock content s b).1.1.fse) :=
  (decompressBlock_spec hb hwf b).2.2 e he

/-- `DecoderScratch::new` is well formed -/
theorem scratch_new_WF : Blk.WF {} := Blk.WF_new

/-- whatever happened before — success, decode error, even a stale table — the three alphabets
(`max_symbol`, written only by `FSETable::new`) are intact … -/
theorem decompressBlock_keeps_alphabets (content : List Nat) (s : Blk.Scratch) (b : DBuf)
    (h : Blk.Alphabets s) : Blk.Alphabets (Blk.decompressBlock content s b).1.1 :=
  Blk.decompressBlock_alphabets content s b h

/-- … and therefore **`reset` re-establishes `WF` from any state reachable from a fresh scratch**
("after an error the same decoder can be reset and used again") -/
theorem reset_reestablishes_WF {s : Blk.Scratch} (h : Blk.Alphabets s) : Blk.WF s.reset := Blk.WF_reset h

open Zstd.Proofs.BitIO in
/-- **a frame's blocks, decoded in order up to the first error, never fault** (termination of the
chain is structural) -/
theorem blockChain_no_fault (blocks : List (List Nat)) (hb : ∀ c ∈ blocks, Bytes c) {s : Blk.Scratch}
    (hwf : Blk.WF s) (b : DBuf) (f : Fault) : (Blk.decodeBlocks blocks s b).2 ≠ .fault f :=
  (Blk.decodeBlocks_spec blocks s b hb hwf).1 f

open Zstd.Proofs.BitIO in
/-- **every legal history on one scratch is fault free**: any number of frames, each started with
`reset` and decoded block by block up to its first error (any byte strings as block contents, any
window sizes), starting from a fresh scratch -/
theorem legal_history_no_fault (frames : List (Nat × List (List Nat)))
    (hb : ∀ fr ∈ frames, ∀ c ∈ fr.2, Bytes c) (b : DBuf) :
    ∀ o ∈ Blk.runFrames frames {} b, ∀ f, o ≠ .fault f :=
  Blk.runFrames_no_fault frames {} b hb Blk.WF_new.alphabets

/-! ### the statement without the "stop at the first error" clause is FALSE

`FSETable::build_decoder` stores the new `accuracy_log` before it has validated (or even read) the
table description and returns early on an error, keeping the old `decode` vector
(fse_decoder.rs:116-122, 228); `HuffmanTable::build_decoder` clears `decode`, and
`build_table_from_weights` stores `max_num_bits` before rejecting it (huff0_decoder.rs:117-122,
303-311).  `FrameDecoder::decode_blocks` does not poison the decoder after an `Err`, so a caller who
ignores the error and calls `decode_blocks` again continues with the next block on the stale table:
a Repeat-mode sequence section / a Treeless literals section then indexes the table out of range.
Both witnesses were run through the real `FrameDecoder` (public API, frames
`28b52ffd0000 240000 00018000 250000 0001c0ff` and `28b52ffd0000 2c0000 12800081bb 250000 134000ff`):
first call `Err(..)`, second call panics at `fse_decoder.rs:37:39` ("index out of bounds: the len is 0
but the index is 31") resp. `huff0_decoder.rs:26:26` ("the len is 0 but the index is 4064"); after
`reset` the same decoder decodes a valid frame correctly.  Not a violation of C03 as worded (the
continuation is not a legal call sequence), reported as an observation. -/

/-- the unrestricted statement: any two blocks in a row on a fresh scratch, whatever the outcome of
the first -/
def decompressBlock_no_fault_any_history : Prop :=
  ∀ (c1 c2 : List Nat), Zstd.Proofs.BitIO.Bytes c1 → Zstd.Proofs.BitIO.Bytes c2 → ∀ f,
    (Blk.decompressBlock c2 (Blk.decompressBlock c1 {} {}).1.1 (Blk.decompressBlock c1 {} {}).1.2.1).2 ≠ .fault f

def isIndexFault (o : Blk.BOut) (site : String) : Bool :=
  match o with
  | .fault (.index s) => s == site
  | _ => false

def isErr (o : Blk.BOut) : Bool :=
  match o with
  | .err _ => true
  | _ => false

/-- witness 1 (FSE): block 1 = no literals, 1 sequence, literal-length table FSE-compressed with a
truncated description → `Err`, `accuracy_log = 5` with an empty table; block 2 = literal-length mode
Repeat → `decode[new_state]` out of range in `init_state` -/
theorem continue_after_error_faults_fse :
    isErr (Blk.decompressBlock [0x00, 0x01, 0x80, 0x00] {} {}).2 = true ∧
    isIndexFault (Blk.decompressBlock [0x00, 0x01, 0xC0, 0xFF]
        (Blk.decompressBlock [0x00, 0x01, 0x80, 0x00] {} {}).1.1
        (Blk.decompressBlock [0x00, 0x01, 0x80, 0x00] {} {}).1.2.1).2 "fse_decoder.rs:37:init_state" = true := by
  decide +kernel

/-- witness 2 (Huffman): block 1 = Compressed literals with direct weights `[11, 11]`
(`max_num_bits = 12 > 11` → `Err` after `max_num_bits` was stored and `decode` cleared); block 2 =
Treeless literals → `decode[state]` out of range -/
theorem continue_after_error_faults_huf :
    isErr (Blk.decompressBlock [0x12, 0x80, 0x00, 0x81, 0xBB] {} {}).2 = true ∧
    isIndexFault (Blk.decompressBlock [0x13, 0x40, 0x00, 0xFF]
        (Blk.decompressBlock [0x12, 0x80, 0x00, 0x81, 0xBB] {} {}).1.1
        (Blk.decompressBlock [0x12, 0x80, 0x00, 0x81, 0xBB] {} {}).1.2.1).2 "huff0_decoder.rs:decode[state]" = true := by
  decide +kernel

theorem decompressBlock_no_fault_any_history_false : ¬ decompressBlock_no_fault_any_history := by
  intro h
  have h2 := continue_after_error_faults_fse.2
  have := h [0x00, 0x01, 0x80, 0x00] [0x00, 0x01, 0xC0, 0xFF] (by intro x hx; simp at hx; omega) (by intro x hx; simp at hx; omega)
  generalize (Blk.decompressBlock [0x00, 0x01, 0xC0, 0xFF] (Blk.decompressBlock [0x00, 0x01, 0x80, 0x00] {} {}).1.1
        (Blk.decompressBlock [0x00, 0x01, 0x80, 0x00] {} {}).1.2.1).2 = o at h2 this
  unfold isIndexFault at h2
  split at h2
  · exact this _ rfl
  · cases h2

def isOk (o : Blk.BOut) : Bool :=
  match o with
  | .ok => true
  | _ => false

/-- non-vacuity of the positive theorems: a fresh scratch is well formed, and a compressed block
(4 raw literals `abcd`, one sequence in RLE modes: literal length 4, match length 3, offset 1) decodes
successfully on it -/
example : Blk.WF {} ∧ Zstd.Proofs.BitIO.Bytes [0x20, 0x61, 0x62, 0x63, 0x64, 0x01, 0x54, 0x04, 0x02, 0x00, 0x04] ∧
    isOk (Blk.decompressBlock [0x20, 0x61, 0x62, 0x63, 0x64, 0x01, 0x54, 0x04, 0x02, 0x00, 0x04] {} {}).2 = true := by
  refine ⟨Blk.WF_new, by intro x hx; simp at hx; omega, by decide +kernel⟩

/-! ### instance B: the decoder the drivers run

For `DecB` — the frame-level model over the FAITHFUL block decoder, the one engine `dec` compares with
the real code on valid and malformed frames — no-fault at the frame level follows from the block-level
theorem (`Blk.decompressBlock_spec`, Proofs/BlockNoFault.lean) through `NoFaultObligation` /
`instNoFaultFaithful` (Proofs/FrameFaithful.lean); no hypothesis is left.  Unlike the stand-in, the real
scratch CAN be left ill-formed by a failed table build, so the statement is the honest one: no fault
from any state reached by `new`, successful `reset`s, drains and decode operations that did not end in
`err literals` / `err sequences` (`Out.clean`); after those two, draining and querying stay safe and
`reset` / `decode_all` (which never fault, from ANY state) restore the invariant — decoding on in the
failed frame is the one thing not covered (and can indeed panic: `continue_after_error_faults_*`,
Props/C03 block level). -/

section faithful

/-- a new decoder without dictionaries satisfies the invariant -/
theorem new_entWF_faithful (mw : Nat) : ({ state := none, dicts := [], maxWindow := mw } : DecB).entWF :=
  new_entWF [] mw (fun _ h => nomatch h)

/-- **`decode_blocks` on the faithful model never faults**: every byte source, every strategy, every
decoder state satisfying the invariant -/
theorem decodeBlocks_no_fault_faithful (d : DecB) (s : Src) (strat : Strategy) (hw : d.entWF)
    (hi : ∀ x ∈ s, x < 256) :
    ((d.decodeBlocks s strat).2.clean → (d.decodeBlocks s strat).1.entWF) ∧
      (d.decodeBlocks s strat).1.dictsWF ∧ ∀ f, (d.decodeBlocks s strat).2 ≠ .fault f := by
  have := decodeBlocks_no_fault_of_contract d s strat hw hi
  exact ⟨this.1, this.2.1, this.2.2.1⟩

/-- **`reset` never faults, from any state**, and a successful `reset` re-establishes the invariant -/
theorem reset_no_fault_faithful (d : DecB) (s : Src) (hd : d.dictsWF) :
    (d.reset s).1.dictsWF ∧ (∀ f, (d.reset s).2 ≠ .fault f) ∧
      (∀ rest, (d.reset s).2 = .ok rest → (d.reset s).1.entWF) := by
  have := reset_no_fault_of_contract d s hd
  exact ⟨this.1, this.2.1, this.2.2.2⟩

/-- **`decode_all` never faults, from any state** (it resets before every frame) -/
theorem decodeAll_no_fault_faithful (d : DecB) (s : Src) (room : Nat) (hd : d.dictsWF) (hi : ∀ x ∈ s, x < 256) :
    (d.decodeAll s room).1.dictsWF ∧ ∀ f, (d.decodeAll s room).2 ≠ .fault f := by
  have := decodeAll_no_fault_of_contract d s room hd hi
  exact ⟨this.1, this.2.1⟩

theorem decodeFromTo_no_fault_faithful (d : DecB) (s : Src) (n : Nat) (hw : d.entWF) (hi : ∀ x ∈ s, x < 256) :
    ((d.decodeFromTo s n).2.clean → (d.decodeFromTo s n).1.entWF) ∧ ∀ f, (d.decodeFromTo s n).2 ≠ .fault f := by
  have := decodeFromTo_no_fault_of_contract d s n hw hi
  exact ⟨this.1, this.2.2⟩

theorem streamingRead_no_fault_faithful (d : DecB) (s : Src) (n : Nat) (hw : d.entWF) (hi : ∀ x ∈ s, x < 256) :
    ((streamingRead d s n).2.clean → (streamingRead d s n).1.entWF) ∧ ∀ f, (streamingRead d s n).2 ≠ .fault f := by
  have := streamingRead_no_fault_of_contract d s n hw hi
  exact ⟨this.1, this.2.2⟩

/-- a decoder without dictionaries: `decode_all` on ANY bytes, from ANY state, never faults -/
theorem decodeAll_no_fault_faithful_nodict (d : DecB) (hnd : d.dicts = []) (s : Src) (room : Nat)
    (hi : ∀ x ∈ s, x < 256) (f : Fault) : (d.decodeAll s room).2 ≠ .fault f :=
  (decodeAll_no_fault_faithful d s room (by intro dict h; rw [hnd] at h; cases h) hi).2 f

/-- non-vacuity, and the error CLASS of the faithful model on malformed block content: a compressed
block whose sequences section is a lone count byte is `SequencesHeaderParseError` (`err seqHeader`), a
zero count followed by a stray byte is `DecodeSequenceError` (`err sequences`) — as the code reports
them (engine `dec` compares these lines with the real decoder) -/
def loneCountByte : List Nat := [0x28, 0xB5, 0x2F, 0xFD, 0x20, 0x00, 0x15, 0x00, 0x00, 0x00, 0x01]
def strayByteAfterZeroCount : List Nat := [0x28, 0xB5, 0x2F, 0xFD, 0x20, 0x00, 0x1D, 0x00, 0x00, 0x00, 0x00, 0xAA]

example : (match ((({} : DecB).reset loneCountByte).1.decodeBlocks (loneCountByte.drop 6) .all).2 with
  | .err .seqHeader => true | _ => false) = true := by decide +kernel

example : (match ((({} : DecB).reset strayByteAfterZeroCount).1.decodeBlocks (strayByteAfterZeroCount.drop 6) .all).2 with
  | .err .sequences => true | _ => false) = true := by decide +kernel

/-- **`C03_full` holds.** -/
theorem no_fault_from_legal_states : C03_full := by
  intro d ok hl s hs f
  obtain ⟨hd, hw⟩ := hl.inv
  refine ⟨decodeDict_no_fault hs f, fun room vec => ⟨(Decoder.reset_noFault d s hd).2.1 f, ?_, ?_⟩, fun hok strat n => ?_⟩
  · exact (decodeAllLoop_noFault _ d s room #[] hd hs).2.1 f
  · rw [Decoder.decodeAllToVec_eq]
    have := (decodeAllLoop_noFault (s.length + 1) d s room #[] hd hs).2.1
    cases hda : d.decodeAll s room with
    | mk d' o =>
      cases o with
      | ok out => simp
      | err e => simp
      | fault f' => exact absurd (by rw [Decoder.decodeAll] at hda; rw [hda]) (this f')
  · exact ⟨(Decoder.decodeBlocks_noFault d s strat (hw hok) hs).2.2.1 f,
      (Decoder.decodeFromTo_noFault d s n (hw hok) hs).2.2 f, (streamingRead_noFault d s n (hw hok) hs).2.2 f⟩

/-- the offset history a hostile dictionary installs may contain 0 (`decode_dict` copies the three
values unchecked): `do_offset_history` never faults on ANY history for offset values ≥ 1 (the
`rep[0] − 1` arm saturates), and a resulting offset 0 is rejected by `execute_sequences` as `ZeroOffset`
before any copy — so `Legal` needs no condition on the dictionary's offsets -/
theorem zero_history_is_harmless (ov ll : Nat) (h : Nat × Nat × Nat) (hov : ov ≥ 1) :
    ∃ r, doOffsetHistory ov ll h = .ok r :=
  C01.doOffsetHistory_no_fault ov ll h hov

example : (match (executeSequences [⟨0, 3, 3⟩] [] (0, 0, 0) 0 {}).2, (executeSequences [⟨1, 3, 1⟩] [7] (0, 0, 0) 0 {}).2 with
    | .err .execZeroOffset, .err .execZeroOffset => true | _, _ => false) = true := by decide

end faithful

/-- the zero-offset guard of `execute_sequences` in the SOURCE (operator extracted on every run, anchored to the whole
condition) is the one the model uses (`if actual = 0 then err ZeroOffset`): without it `repeat(0, n)` never ends -/
theorem zero_offset_guard_is_the_models (a : Nat) : Gen.execZeroOffset a 0 = decide (a = 0) := rfl

end Zstd.Props.C03
