import Zstd.Proofs.HufShape
import Zstd.Proofs.HufCanon
import Zstd.Proofs.HufDesc
import Zstd.Proofs.HufCounts
/-
C13 — Huffman tables are valid and literal coding round-trips for every distribution.

Property theorems only; helper lemmas live in `Zstd/Proofs/Huf*.lean`, the finite shape table in
`Zstd/Proofs/HufShape/B??.lean` (kernel evaluation, one module per block of alphabet sizes).
-/
namespace Zstd.Props.C13
open Zstd Zstd.Model.Huf Zstd.Proofs.Huf Zstd.Proofs.HufShape

/-! ## the weight shapes the compressor uses -/

/-- For every number `n` of distinct literal values from 2 to 256 the weight shape
`redistribute_weights(distribute_weights(n), ⌊log₂ n⌋ + 2)` is computed without a panic, has `n`
weights, all at least 1, ascending (the rarest symbol gets the smallest weight), `Σ 2^(w−1)` is a
power of two `2^m`, and `m ≤ 11`, so every code length `m + 1 − w` is between 1 and 11. -/
theorem shape_valid (n : Nat) (h1 : 2 ≤ n) (h2 : n ≤ 256) :
    ∃ ws, shape n = .ok ws ∧ ws.length = n ∧ (∀ w ∈ ws, 1 ≤ w) ∧ isSortedAsc ws = true ∧ ws.head? = some 1 ∧
      isPow2 (weightSum ws) = true ∧ Nat.log2 (weightSum ws) ≤ 11 := by
  have h := shapeOk_all n h1 h2
  unfold shapeOk at h
  cases hs : shape n with
  | error f => rw [hs] at h; cases h
  | ok ws =>
    rw [hs] at h
    simp only [Bool.and_eq_true, beq_iff_eq, decide_eq_true_eq] at h
    obtain ⟨⟨⟨⟨⟨a, b⟩, c⟩, c'⟩, d⟩, e⟩ := h
    refine ⟨ws, rfl, a, ?_, c, c', d, e⟩
    clear a c c' d e hs
    induction ws with
    | nil => intro w hw; cases hw
    | cons x xs ih =>
      simp only [allGe1, Bool.and_eq_true, decide_eq_true_eq] at b
      intro w hw
      rcases List.mem_cons.mp hw with rfl | hw
      · exact b.1
      · exact ih b.2 w hw

/-- The code shape depends only on the number of symbols and on the rank order of the counts:
`build_from_counts` is a function of `counts.len()` and of the list of symbol indices in stable
ascending count order, each with the flag "does not occur". -/
theorem shape_depends_on_rank (c1 c2 : List Nat) (hlen : c1.length = c2.length)
    (hrank : rankOrder c1 = rankOrder c2) : buildFromCounts c1 = buildFromCounts c2 := by
  unfold buildFromCounts
  rw [hlen, hrank]

/-- … and the shape of the code itself only on the number of symbols that occur. -/
theorem shape_depends_on_n (len : Nat) (order : List (Nat × Bool)) (ws wd : List Nat)
    (hlen : len ≤ 256) (hs : shape (len - (order.filter (·.2)).length) = .ok ws)
    (hsc : scatter order ws (List.replicate len 0) = .ok wd) :
    buildFromRank len order = buildFromWeights wd := by
  unfold buildFromRank
  have : Gen.hufCountsLenOk len Gen.hufMaxCounts = true := by
    simp only [Gen.hufCountsLenOk, Gen.hufMaxCounts]; exact decide_eq_true hlen
  simp [this, hs, hsc]

/-! ## the decoder's table -/

/-- the weights the Spec accepts are the weights the model's checks accept -/
theorem spec_complete_iff (ws : List Nat) (m : Nat) (all : List Nat) :
    Spec.Huffman.completeWeights ws = some (m, all) ↔
      GoodWeights ws ∧ m = maxBitsOf ws ∧ all = ws ++ [lastWeightOf ws] := by
  have hsum : (ws.map Spec.Huffman.weightMass).sum = weightSum ws := by
    induction ws with
    | nil => rfl
    | cons w ws ih =>
      simp only [List.map_cons, List.sum_cons, weightSum, ih, Spec.Huffman.weightMass]
      by_cases h : w = 0
      · simp [h]
      · have : w > 0 := by omega
        simp [h, this]
  have hany : ws.any (fun w => decide (w > Spec.Huffman.maxBitsLimit)) = true ↔ ¬ ∀ w ∈ ws, w ≤ Gen.hufMaxNumBits := by
    rw [List.any_eq_true]
    have : Spec.Huffman.maxBitsLimit = Gen.hufMaxNumBits := rfl
    constructor
    · rintro ⟨w, hw, h⟩ hall
      have := hall w hw
      simp only [decide_eq_true_eq, this] at h
      omega
    · intro h
      by_cases h' : ∃ w, w ∈ ws ∧ w > Gen.hufMaxNumBits
      · obtain ⟨w, hw, hgt⟩ := h'
        exact ⟨w, hw, by simp only [decide_eq_true_eq, this]; exact hgt⟩
      · exfalso; apply h; intro w hw
        by_cases hle : w ≤ Gen.hufMaxNumBits
        · exact hle
        · exact absurd ⟨w, hw, by omega⟩ h'
  have hpow : ∀ n, Spec.Huffman.isPow2 n = isPow2 n := fun _ => rfl
  unfold Spec.Huffman.completeWeights
  by_cases hle : ∀ w ∈ ws, w ≤ Gen.hufMaxNumBits
  · have : ¬ (ws.any (fun w => decide (w > Spec.Huffman.maxBitsLimit)) = true) := by rw [hany]; simpa using hle
    rw [if_neg this]
    simp only [hsum, hpow]
    by_cases h0 : weightSum ws = 0
    · rw [if_pos h0]
      constructor
      · intro h; cases h
      · intro ⟨g, _, _⟩; exact absurd h0 g.pos
    · rw [if_neg h0]
      by_cases hp : isPow2 (2 ^ (Nat.log2 (weightSum ws) + 1) - weightSum ws) = true
      · simp only [hp, Bool.not_true, Bool.false_eq_true, if_false]
        by_cases hm : Nat.log2 (weightSum ws) + 1 > Spec.Huffman.maxBitsLimit
        · rw [if_pos hm]
          constructor
          · intro h; cases h
          · intro ⟨g, _, _⟩
            have := g.maxBits
            have e : Spec.Huffman.maxBitsLimit = Gen.hufMaxNumBits := rfl
            omega
        · rw [if_neg hm]
          have e : Spec.Huffman.maxBitsLimit = Gen.hufMaxNumBits := rfl
          constructor
          · intro h
            simp only [Option.some.injEq, Prod.mk.injEq] at h
            exact ⟨⟨hle, h0, hp, by omega⟩, h.1.symm, h.2.symm⟩
          · intro ⟨_, h1, h2⟩
            rw [h1, h2]; rfl
      · have hp' : isPow2 (2 ^ (Nat.log2 (weightSum ws) + 1) - weightSum ws) = false := by simpa using hp
        simp only [hp', Bool.not_false, if_true]
        constructor
        · intro h; cases h
        · intro ⟨g, _, _⟩; exact absurd g.pow hp
  · have : ws.any (fun w => decide (w > Spec.Huffman.maxBitsLimit)) = true := by rw [hany]; exact hle
    rw [if_pos this]
    constructor
    · intro h; cases h
    · intro ⟨g, _, _⟩; exact absurd g.le11 hle

/-- **The rank-index construction of `build_table_from_weights` yields the canonical table of the
RFC** (shared with C01).  Whenever the specification assigns a table `T` to the transmitted
weights, the model of the decoder builds — without error or panic, whatever the previous state of
the table object — a table with the same `Max_Number_of_Bits` whose cells are, one by one, the
cells of `T`; its `bits` are the code lengths `maxBits + 1 − w` including the inferred last one. -/
theorem huf_table_eq_canonical (t : DecTable) (T : Spec.Huffman.Table)
    (hspec : Spec.Huffman.tableOfWeights t.weights = some T) :
    ∃ t', buildTableFromWeights t = (t', .ok ()) ∧ t'.maxNumBits = T.maxBits ∧ t'.weights = t.weights ∧
      t'.bits = allBitsOf t.weights ∧
      t'.decode.toList.map (fun e => (e.symbol, e.numBits)) = T.entries.toList.map (fun e => (e.symbol, e.nbBits)) := by
  unfold Spec.Huffman.tableOfWeights at hspec
  cases hc : Spec.Huffman.completeWeights t.weights with
  | none => rw [hc] at hspec; cases hspec
  | some p =>
    obtain ⟨m, all⟩ := p
    rw [hc] at hspec
    simp only at hspec
    obtain ⟨g, hm, hall⟩ := (spec_complete_iff _ _ _).mp hc
    by_cases hl : all.length > 256
    · rw [if_pos hl] at hspec; cases hspec
    · rw [if_neg hl] at hspec
      simp only [Option.some.injEq] at hspec
      subst hspec
      have hlen : t.weights.length ≤ 257 := by
        rw [hall] at hl; simp at hl; omega
      obtain ⟨ri, dec, hbuild, hinv⟩ := buildTable_good t hlen g
      obtain ⟨_, _, _, _, hsum, hallle⟩ := good_facts g
      refine ⟨_, hbuild, ?_, rfl, rfl, ?_⟩
      · simp [Spec.Huffman.buildTable, hm]
      · rw [spec_entries_eq, hm, hall]
        apply table_eq_canonical (maxBitsOf t.weights) (t.weights ++ [lastWeightOf t.weights])
          (by rw [← hall]; omega) hallle ri dec hinv
        rw [← riSum_eq_specOff _ hallle _ (Nat.le_refl _), riSum_total, bitMass_bitsOf _ hallle, hsum]

/-- **Weights that cannot form a complete code are rejected, never with a panic**: a weight above
11, no weight at all, a leftover that is not a power of two, or more than 11 bits each make
`build_table_from_weights` return the corresponding error variant. -/
theorem bad_weights_rejected (t : DecTable) (hlen : t.weights.length ≤ 257)
    (hbad : (∃ w ∈ t.weights, w > 11) ∨ weightSum t.weights = 0 ∨
      isPow2 (2 ^ maxBitsOf t.weights - weightSum t.weights) = false ∨ maxBitsOf t.weights > 11) :
    ∃ e, (buildTableFromWeights t).2 = .error (.err e) := by
  have : ¬ GoodWeights t.weights := by
    intro g
    rcases hbad with ⟨w, hw, h⟩ | h | h | h
    · have := g.le11 w hw
      have e : Gen.hufMaxNumBits = 11 := rfl
      omega
    · exact g.pos h
    · have := g.pow; simp only [maxBitsOf] at h; rw [h] at this; cases this
    · have := g.maxBits
      have e : Gen.hufMaxNumBits = 11 := rfl
      simp only [maxBitsOf] at h; omega
  obtain ⟨e, he, _⟩ := buildTable_bad t hlen this
  exact ⟨e, he⟩

/-- in Spec terms: what the specification rejects, the decoder rejects -/
theorem spec_rejected_is_rejected (t : DecTable) (hlen : t.weights.length ≤ 257)
    (hspec : Spec.Huffman.completeWeights t.weights = none) :
    ∃ e, (buildTableFromWeights t).2 = .error (.err e) := by
  have : ¬ GoodWeights t.weights := by
    intro g
    have := (spec_complete_iff t.weights (maxBitsOf t.weights) (t.weights ++ [lastWeightOf t.weights])).mpr ⟨g, rfl, rfl⟩
    rw [hspec] at this; cases this
  obtain ⟨e, he, _⟩ := buildTable_bad t hlen this
  exact ⟨e, he⟩

/-- `build_table_from_weights` never panics (≤ 257 weights is what `read_weights` can deliver):
the `assert!(rank_indexes[0] == decode.len())`, the index expressions and the `u32` sum are safe
for every weight list. -/
theorem build_table_never_panics (t : DecTable) (hlen : t.weights.length ≤ 257) (f : Fault) :
    (buildTableFromWeights t).2 ≠ .error (.fault f) := by
  by_cases g : GoodWeights t.weights
  · obtain ⟨_, _, h, _⟩ := buildTable_good t hlen g
    rw [h]; intro h'; cases h'
  · obtain ⟨e, he, _⟩ := buildTable_bad t hlen g
    rw [he]; intro h'; cases h'

/-! ## the encoder's codes -/

/-- **Kraft-complete weights give a complete prefix-free code** (general, no bound on the alphabet
other than `u8` symbols): if `Σ 2^(w−1) = 2^m` over at most 256 weights, each at most `m ≤ 32`
(so that codes fit the `u32` the table stores), then `build_from_weights` does not panic, symbols
of weight 0 get no code, a symbol of weight `w` gets a code of `m + 1 − w` bits that fits its
length, and no code is a prefix of another one (`code2 >> (len2 − len1) ≠ code1`, the test of the
unit test `weights`).  Completeness is the hypothesis itself: `Σ 2^(m − len) = Σ 2^(w−1) = 2^m`. -/
theorem codes_prefix_free (ws : List Nat) (m : Nat) (hlen : ws.length ≤ 256) (hm : m ≤ 32)
    (hle : ∀ w ∈ ws, w ≤ m) (hk : weightSum ws = 2 ^ m) :
    ∃ t, buildFromWeights ws = .ok t ∧ CodesOk ws m t.codes :=
  buildFromWeights_ok ws m hlen hm hle hk

/-- non-vacuity of `codes_prefix_free`: the weights of the unit test `huffman` -/
example : ∃ t, buildFromWeights [4, 3, 2, 0, 1, 1] = .ok t ∧ CodesOk [4, 3, 2, 0, 1, 1] 4 t.codes :=
  codes_prefix_free _ 4 (by decide) (by decide) (by decide) (by decide)

/-- **Every table the compressor builds is a complete prefix-free code of depth at most 11.**
For every histogram with at most 256 entries of which 2 to 256 are non-zero (the number of zero
entries is what `build_from_counts` counts: the "does not occur" flags of the rank order),
`build_from_counts` does not panic and returns the code of a weight vector `wd` (the shape weights
scattered over the symbols) with `Σ 2^(w−1) = 2^m`, `m ≤ 11`: every code length `m + 1 − w` is at
most 11, the codes are prefix-free and complete. -/
theorem compressor_table_valid (counts : List Nat) (hlen : counts.length ≤ 256)
    (hn : 2 ≤ counts.length - ((rankOrder counts).filter (·.2)).length) :
    ∃ t wd m, buildFromCounts counts = .ok t ∧ m ≤ 11 ∧ wd.length = counts.length ∧
      weightSum wd = 2 ^ m ∧ (∀ w ∈ wd, w ≤ m) ∧ CodesOk wd m t.codes := by
  obtain ⟨ws, hs, hwl, hge1, _, hhead, hpow, hlog⟩ :=
    shape_valid (counts.length - ((rankOrder counts).filter (·.2)).length) hn (by omega)
  obtain ⟨p1, p2, p3⟩ := rankOrder_props counts
  have hsum : weightSum ws = 2 ^ Nat.log2 (weightSum ws) := ((isPow2_iff.mp hpow).2).symm
  obtain ⟨wd, s1, s2, s3, s4⟩ := scatter_spec (rankOrder counts) ws (List.replicate counts.length 0) p1
    (fun p hp => by
      have := p2 p hp
      exact ⟨by simpa using this, by simp [this]⟩)
    (by rw [filter_not_length, p3, hwl])
  rw [weightSum_replicate_zero, Nat.zero_add] at s3
  have hwdle : ∀ w ∈ wd, w ≤ Nat.log2 (weightSum ws) := by
    intro w hw
    rcases s4 w hw with h | h | h
    · have := List.eq_of_mem_replicate h; omega
    · have h1 := weightSum_ge_of_mem hge1 h
      have : 2 ^ (w - 1) < 2 ^ Nat.log2 (weightSum ws) := by omega
      have := (Nat.pow_lt_pow_iff_right (by omega : 1 < 2)).mp this
      omega
    · omega
  obtain ⟨t, b1, b2⟩ := buildFromWeights_ok wd (Nat.log2 (weightSum ws)) (by rw [s2]; simpa using hlen)
    (by omega) hwdle (by rw [s3]; exact hsum)
  refine ⟨t, wd, Nat.log2 (weightSum ws), ?_, hlog, by rw [s2]; simp, by rw [s3]; exact hsum, hwdle, b2⟩
  unfold buildFromCounts
  rw [shape_depends_on_n counts.length (rankOrder counts) ws wd hlen hs s1, b1]

/-- The table `build_from_counts` returns for a histogram whose last entry is non-zero (as in
`build_from_data`: `counts[..=max]`) is a complete code in the sense the description round trips
need (`KraftTable`): at least two symbols, depth `M ≤ 11`, a symbol of length `M`, the last symbol
used, Kraft sum `2^M`. -/
theorem compressor_table_kraft (counts : List Nat) (hlen : counts.length ≤ 256)
    (hn : 2 ≤ counts.length - ((rankOrder counts).filter (·.2)).length)
    (hlast : ∀ c, counts.getLast? = some c → c ≠ 0) :
    ∃ t M, buildFromCounts counts = .ok t ∧ KraftTable t M := by
  obtain ⟨ws, hs, hwl, hge1, _, hhead, hpow, hlog⟩ :=
    shape_valid (counts.length - ((rankOrder counts).filter (·.2)).length) hn (by omega)
  obtain ⟨p1, p2, p3⟩ := rankOrder_props counts
  have hsum : weightSum ws = 2 ^ Nat.log2 (weightSum ws) := ((isPow2_iff.mp hpow).2).symm
  have hcnt : ((rankOrder counts).filter (fun p => !p.2)).length = ws.length := by rw [filter_not_length, p3, hwl]
  obtain ⟨wd, s1, s2, s3, s4⟩ := scatter_spec (rankOrder counts) ws (List.replicate counts.length 0) p1
    (fun p hp => by
      have := p2 p hp
      exact ⟨by simpa using this, by simp [this]⟩) hcnt
  obtain ⟨w1, w2, w3, _⟩ := scatter_where (rankOrder counts) ws (List.replicate counts.length 0) p1
    (fun p hp => by simpa using p2 p hp) hcnt wd s1
  rw [weightSum_replicate_zero, Nat.zero_add] at s3
  have hone : 1 ∈ ws := List.mem_of_mem_head? (by rw [hhead]; rfl)
  have hm1 : 1 ≤ Nat.log2 (weightSum ws) := by
    have h1 := weightSum_ge_of_mem hge1 hone
    rcases Nat.eq_zero_or_pos (Nat.log2 (weightSum ws)) with h0 | h0
    · rw [h0] at hsum; omega
    · exact h0
  have hwdle : ∀ w ∈ wd, w ≤ Nat.log2 (weightSum ws) := by
    intro w hw
    rcases s4 w hw with h | h | h
    · have := List.eq_of_mem_replicate h; omega
    · have h1 := weightSum_ge_of_mem hge1 h
      have : 2 ^ (w - 1) < 2 ^ Nat.log2 (weightSum ws) := by omega
      have := (Nat.pow_lt_pow_iff_right (by omega : 1 < 2)).mp this
      omega
    · omega
  have hwdlen : wd.length = counts.length := by rw [s2]; simp
  obtain ⟨t, b1, b2⟩ := buildFromWeights_ok wd (Nat.log2 (weightSum ws)) (by omega)
    (by omega) hwdle (by rw [s3]; exact hsum)
  have hbuild : buildFromCounts counts = .ok t := by
    unfold buildFromCounts
    rw [shape_depends_on_n counts.length (rankOrder counts) ws wd hlen hs s1, b1]
  refine ⟨t, Nat.log2 (weightSum ws), hbuild, ?_⟩
  -- every code in terms of the weight of its symbol
  have hcode : ∀ (s : Nat) (c : Nat × Nat), t.codes[s]? = some c →
      ∃ w, wd[s]? = some w ∧ c.2 = (if w = 0 then 0 else Nat.log2 (weightSum ws) + 1 - w) := by
    intro s c hc
    have hs' : s < wd.length := by
      rcases Nat.lt_or_ge s t.codes.length with h | h
      · rw [b2.len] at h; exact h
      · rw [List.getElem?_eq_none h] at hc; cases hc
    refine ⟨wd[s], List.getElem?_eq_getElem hs', ?_⟩
    by_cases h0 : wd[s] = 0
    · rw [b2.unused s hs' h0] at hc
      simp only [Option.some.injEq] at hc
      rw [← hc]; simp [h0]
    · obtain ⟨c', q1, _⟩ := b2.used s hs' (by omega)
      rw [q1] at hc
      simp only [Option.some.injEq] at hc
      rw [← hc]; simp [h0]
  refine ⟨by rw [b2.len]; omega, by rw [b2.len]; omega, ?_, ?_, hm1, hlog, ?_, ?_⟩
  · intro c hc
    obtain ⟨s, hs'⟩ := List.mem_iff_getElem?.mp hc
    obtain ⟨w, _, q⟩ := hcode s c hs'
    rw [q]; split <;> omega
  · obtain ⟨s, hs'⟩ := List.mem_iff_getElem?.mp (w3 1 hone)
    have hs'' : s < wd.length := by
      rcases Nat.lt_or_ge s wd.length with h | h
      · exact h
      · rw [List.getElem?_eq_none h] at hs'; cases hs'
    have hw1 : wd[s] = 1 := by rw [List.getElem?_eq_getElem hs''] at hs'; simpa using hs'
    obtain ⟨c', q1, _⟩ := b2.used s hs'' (by omega)
    refine ⟨_, List.mem_iff_getElem?.mpr ⟨s, q1⟩, ?_⟩
    simp only [hw1]; omega
  · intro c hc
    rw [List.getLast?_eq_getElem?, b2.len, hwdlen] at hc
    obtain ⟨w, q1, q2⟩ := hcode _ c hc
    -- the last symbol occurs, so it received a shape weight
    have hL : counts.length - 1 < counts.length := by omega
    have hmem := rankOrder_mem counts (counts.length - 1) hL
    have hne : counts[counts.length - 1] ≠ 0 := by
      apply hlast
      rw [List.getLast?_eq_getElem?, List.getElem?_eq_getElem hL]
    have hflag : (counts[counts.length - 1] == 0) = false := by simpa using hne
    obtain ⟨x, hx, hx'⟩ := w2 _ hmem hflag
    simp only at hx'
    rw [hx'] at q1
    simp only [Option.some.injEq] at q1
    subst q1
    have := hge1 x hx
    have := hwdle x (List.mem_iff_getElem?.mpr ⟨_, hx'⟩)
    rw [q2, if_neg (by omega)]; omega
  · have : (t.codes.map fun c => if c.2 = 0 then 0 else Nat.log2 (weightSum ws) - c.2 + 1) = wd := by
      apply List.ext_getElem?
      intro s
      rw [List.getElem?_map]
      rcases Nat.lt_or_ge s wd.length with h | h
      · have hc : s < t.codes.length := by rw [b2.len]; exact h
        rw [List.getElem?_eq_getElem hc, List.getElem?_eq_getElem h]
        obtain ⟨w, q1, q2⟩ := hcode s t.codes[s] (List.getElem?_eq_getElem hc)
        rw [List.getElem?_eq_getElem h] at q1
        simp only [Option.some.injEq] at q1
        subst q1
        simp only [Option.map_some, Option.some.injEq, q2]
        have := hwdle wd[s] (List.getElem_mem _)
        by_cases h0 : wd[s] = 0
        · simp [h0]
        · rw [if_neg h0, if_neg (by omega)]; omega
      · rw [List.getElem?_eq_none (by rw [b2.len]; exact h), List.getElem?_eq_none h]; rfl
    rw [this, s3]; exact hsum

/-! ## weight descriptions -/

/-- **Direct weight description round trip** (at most 16 transmitted weights): for a complete
encoder table of depth `M ≤ 11` (`KraftTable`) `write_table` does not panic; the decoder, whatever
state its table object was in, reads the description back, consumes exactly its bytes and ends up
with the encoder's code lengths — the dropped last weight is re-inferred correctly — and with
`max_num_bits = M`.  (Nibble order, the odd remainder and the header byte are the source's, through
`Zstd.Gen.Huf`.) -/
theorem weights_roundtrip_direct (fseEnc : List Nat → Except Fault (List Nat)) (t : EncTable) (M : Nat)
    (k : KraftTable t M) (hdirect : t.codes.length - 1 ≤ 16) (st : DecTable) (tail : List Nat) :
    ∃ desc, writeTable fseEnc t = .ok desc ∧
      ∃ st', buildDecoder st (desc ++ tail) = (st', .ok desc.length) ∧
        st'.bits = t.codes.map (·.2) ∧ st'.maxNumBits = M :=
  direct_roundtrip fseEnc t M k hdirect st tail

/-- **FSE-compressed weight description round trip** (more than 16 transmitted weights), under the
explicit hypothesis `FseWeightsContract` (C12: `write_read_table`, `enc_table_eq_dec_table`,
`encode_decode_interleaved`): when the FSE encoder returns fewer than 128 bytes, `write_table`
writes size byte + payload and the decoder ends up with the encoder's code lengths. -/
theorem weights_roundtrip_fse (fseEnc : List Nat → Except Fault (List Nat)) (hfse : FseWeightsContract fseEnc)
    (t : EncTable) (M : Nat) (k : KraftTable t M) (hfseform : t.codes.length - 1 > 16)
    (bytes : List Nat) (henc : fseEnc (encWeights t M).dropLast = .ok bytes) (hsmall : bytes.length < 128)
    (st : DecTable) (tail : List Nat) :
    writeTable fseEnc t = .ok (bytes.length :: bytes) ∧
      ∃ st', buildDecoder st ((bytes.length :: bytes) ++ tail) = (st', .ok (bytes.length :: bytes).length) ∧
        st'.bits = t.codes.map (·.2) ∧ st'.maxNumBits = M :=
  fse_roundtrip fseEnc hfse t M k hfseform bytes henc hsmall st tail

/-- `fse_weights_lt_128`, the part that is a theorem about the model: the
`assert!(encoded_len < 128)` of `write_table` fires exactly when the FSE encoder returns 128 bytes
or more.  That it never does for the compressor's tables is `fse_weights_lt_128_full` below. -/
theorem fse_weights_lt_128_partial (fseEnc : List Nat → Except Fault (List Nat)) (t : EncTable) (M : Nat)
    (k : KraftTable t M) (hfseform : t.codes.length - 1 > 16)
    (bytes : List Nat) (henc : fseEnc (encWeights t M).dropLast = .ok bytes) :
    writeTable fseEnc t = .error (.assert "huff0_encoder.rs:write_table:encoded_len<128") ↔ 128 ≤ bytes.length :=
  writeTable_assert_iff fseEnc t M k hfseform bytes henc

/-- Full strength of `fse_weights_lt_128` (NOT proved here): for the production FSE encoder
`fseEncProd` (the model of `build_table_from_data(ws, 6, true)` + `write_table` +
`encode_interleaved`, part of the C12 slice) every table `build_from_counts` returns has a weight
description that `write_table` writes without hitting the assertion.  What is missing is a bound on
the FSE payload in terms of the normalised distribution; the correspondence run sweeps every
alphabet size with every number of unused symbols through the real encoder instead (engine `huf`,
statistic `desc_fse_maxlen`; the largest description observed is far below 128 bytes). -/
def fse_weights_lt_128_full (fseEncProd : List Nat → Except Fault (List Nat)) : Prop :=
  ∀ counts t, counts.length ≤ 256 → buildFromCounts counts = .ok t →
    ∃ desc, writeTable fseEncProd t = .ok desc

/-- a Compressed literals section header -/
def compressedSection (regen csize streams : Nat) : LitSection :=
  { lsType := LitType.compressed, regeneratedSize := regen, compressedSize := some csize, numStreams := some streams }

/-- Full strength of the stream round trips (NOT proved here; tied by the correspondence run and the
implementation-only round-trip oracle through the real `decode_literals`): one stream … -/
def encode_decode_1stream_full : Prop :=
  ∀ (fseEnc : List Nat → Except Fault (List Nat)) (t : EncTable) (M : Nat), KraftTable t M →
    (∀ (s : Nat) (c : Nat × Nat), t.codes[s]? = some c → c.2 > 0 → c.1 < 2 ^ c.2) →
    ∀ (data : List Nat), (∀ s ∈ data, ∃ c : Nat × Nat, t.codes[s]? = some c ∧ c.2 > 0) →
    ∀ desc, writeTable fseEnc t = .ok desc → (∀ st tail, ∃ st', buildDecoder st (desc ++ tail) = (st', .ok desc.length)) →
    ∃ bytes, encode fseEnc t data true = .ok bytes ∧
      ∀ st tail, (decodeLiterals (compressedSection data.length bytes.length 1) st (bytes ++ tail) []).2
        = .ok (data, bytes.length)

/-- … and four streams, any length the compressor uses (≥ 6; the model faults for 5 and below 4
exactly like the code) -/
def encode_decode_4streams_full : Prop :=
  ∀ (fseEnc : List Nat → Except Fault (List Nat)) (t : EncTable) (M : Nat), KraftTable t M →
    (∀ (s : Nat) (c : Nat × Nat), t.codes[s]? = some c → c.2 > 0 → c.1 < 2 ^ c.2) →
    ∀ (data : List Nat), 6 ≤ data.length → (∀ s ∈ data, ∃ c : Nat × Nat, t.codes[s]? = some c ∧ c.2 > 0) →
    ∀ desc, writeTable fseEnc t = .ok desc → (∀ st tail, ∃ st', buildDecoder st (desc ++ tail) = (st', .ok desc.length)) →
    ∃ bytes, encode4x fseEnc t data true = .ok bytes ∧
      ∀ st tail, (decodeLiterals (compressedSection data.length bytes.length 4) st (bytes ++ tail) []).2
        = .ok (data, bytes.length)

/-- The 4-stream splitter: `encode4x` panics for fewer than 4 literals (the `assert!`) and for
exactly 5 (`&data[split*2..split*3]` with `split = 2`), and for no other length because of the
split — `compress_literals` uses it from 6 literals on. -/
theorem encode4x_split_faults (fseEnc : List Nat → Except Fault (List Nat)) (t : EncTable) (data : List Nat)
    (h : data.length < 4 ∨ data.length = 5) : ∃ f, encode4x fseEnc t data false = .error f := by
  unfold encode4x
  by_cases h4 : data.length < 4
  · have : Gen.hufEnc4LenOk data.length Gen.hufEnc4MinLen = false := by
      simp only [Gen.hufEnc4LenOk, Gen.hufEnc4MinLen]; exact decide_eq_false (by omega)
    simp only [this, Bool.not_false, if_true]
    exact ⟨_, rfl⟩
  · have h5 : data.length = 5 := by omega
    have : Gen.hufEnc4LenOk data.length Gen.hufEnc4MinLen = true := by
      simp only [Gen.hufEnc4LenOk, Gen.hufEnc4MinLen]; exact decide_eq_true (by omega)
    simp only [this, Bool.not_true, Bool.false_eq_true, if_false]
    rw [if_pos (by rw [h5]; decide)]
    exact ⟨_, rfl⟩

/-! ## F10 (filed under C16; outside C13's quantifier 2..256) -/

/-- A single distinct literal value makes `build_from_data` panic: `distribute_weights(1)` fails
`assert!(amount >= 2)`.  Reachable through `compress_literals` only with a custom matcher that
yields more than 1024 literals of one value in a block that is not constant (`fixes/F10.diff`). -/
theorem single_value_faults (counts : List Nat)
    (h : counts.length - ((rankOrder counts).filter (·.2)).length = 1) :
    ∃ f, buildFromCounts counts = .error f := by
  unfold buildFromCounts buildFromRank
  by_cases hl : Gen.hufCountsLenOk counts.length Gen.hufMaxCounts = true
  · simp only [hl, Bool.not_true, Bool.false_eq_true, if_false, h]
    exact ⟨_, rfl⟩
  · have : Gen.hufCountsLenOk counts.length Gen.hufMaxCounts = false := by simpa using hl
    simp only [this, Bool.not_false, if_true]
    exact ⟨_, rfl⟩

/-- the witness: the histogram of 2000 literals of value 7 (`counts[..=7]`) -/
example : buildFromCounts [0, 0, 0, 0, 0, 0, 0, 2000]
    = .error (.assert "huff0_encoder.rs:distribute_weights:amount>=2") := by decide

/-- non-vacuity of `huf_table_eq_canonical`: the Spec assigns a table to the weights 2,1,0,3 -/
example : (Spec.Huffman.tableOfWeights [2, 1, 0, 3]).isSome = true := by decide

/-- non-vacuity of `compressor_table_valid` / `compressor_table_kraft` and of the `KraftTable`
hypothesis of the description round trips: the histogram of the unit test `counts` -/
example : ∃ t M, buildFromCounts [3, 0, 4, 1, 5] = .ok t ∧ KraftTable t M :=
  compressor_table_kraft _ (by decide) (by decide) (by decide)

/-- the conclusion of `FseWeightsContract` on a description the real encoder produced (14 symbols
of weight 1 alternating with unused ones; payload `10 3f 22 aa aa 82 14` from the engine `huf`):
the model's FSE branch of `read_weights` returns exactly these weights -/
example : readWeights DecTable.empty (7 :: [0x10, 0x3f, 0x22, 0xaa, 0xaa, 0x82, 0x14, 0xAB])
    = ({ DecTable.empty with weights := [1,0,1,0,1,0,1,0,1,0,1,0,1,0,1,0,1,0,1,0,1,0,1,0,1,0,1,0] }, .ok 8) := by
  decide +kernel

/-- non-vacuity: the description `83 21 03` of the RFC-style example (weights 2,1,0,3 → last 1) -/
example : (buildDecoder DecTable.empty [131, 0x21, 0x03]).2 = .ok 3 := by decide

end Zstd.Props.C13
