import Zstd.Proofs.HufShape
import Zstd.Proofs.HufCanon
import Zstd.Proofs.HufDesc
import Zstd.Proofs.HufCounts
import Zstd.Proofs.HufRoundtripFse
import Zstd.Proofs.HufLt128Lift
/-
C13 — Huffman tables are valid and literal coding round-trips for every distribution.

Property theorems only; helper lemmas live in `Zstd/Proofs/Huf*.lean`, the finite shape table in
`Zstd/Proofs/HufShape/B??.lean` (kernel evaluation, one module per block of alphabet sizes).
-/
namespace Zstd.Props.C13
open Zstd Zstd.Model.Huf Zstd.Proofs.Huf Zstd.Proofs.HufShape

/-! ## the weight shapes the compressor uses -/

/-- For every number `n` of distinct literal values from 2 to 256 the weight shape
`redistribute_weights(distribute_weights(n), ⌊log₂ n⌋ + 2)` is computed without a panic, has `n`
weights, all at least 1, ascending (the rarest symbol gets the smallest weight), `Σ 2^(w−1)` is a
power of two `2^m`, and `m ≤ 11`, so every code length `m + 1 − w` is between 1 and 11. -/
theorem shape_valid (n : Nat) (h1 : 2 ≤ n) (h2 : n ≤ 256) :
    ∃ ws, shape n = .ok ws ∧ ws.length = n ∧ (∀ w ∈ ws, 1 ≤ w) ∧ isSortedAsc ws = true ∧ ws.head? = some 1 ∧
      isPow2 (weightSum ws) = true ∧ Nat.log2 (weightSum ws) ≤ 11 := by
  have h := shapeOk_all n h1 h2
  unfold shapeOk at h
  cases hs : shape n with
  | error f => rw [hs] at h; cases h
  | ok ws =>
    rw [hs] at h
    simp only [Bool.and_eq_true, beq_iff_eq, decide_eq_true_eq] at h
    obtain ⟨⟨⟨⟨⟨a, b⟩, c⟩, c'⟩, d⟩, e⟩ := h
    refine ⟨ws, rfl, a, ?_, c, c', d, e⟩
    clear a c c' d e hs
    induction ws with
    | nil => intro w hw; cases hw
    | cons x xs ih =>
      simp only [allGe1, Bool.and_eq_true, decide_eq_true_eq] at b
      intro w hw
      rcases List.mem_cons.mp hw with rfl | hw
      · exact b.1
      · exact ih b.2 w hw

/-- The code shape depends only on the number of symbols and on the rank order of the counts:
`build_from_counts` is a function of `counts.len()` and of the list of symbol indices in stable
ascending count order, each with the flag "does not occur". -/
theorem shape_depends_on_rank (c1 c2 : List Nat) (hlen : c1.length = c2.length)
    (hrank : rankOrder c1 = rankOrder c2) : buildFromCounts c1 = buildFromCounts c2 := by
  unfold buildFromCounts
  rw [hlen, hrank]

/-- … and the shape of the code itself only on the number of symbols that occur. -/
theorem shape_depends_on_n (len : Nat) (order : List (Nat × Bool)) (ws wd : List Nat)
    (hlen : len ≤ 256) (hs : shape (len - (order.filter (·.2)).length) = .ok ws)
    (hsc : scatter order ws (List.replicate len 0) = .ok wd) :
    buildFromRank len order = buildFromWeights wd := by
  unfold buildFromRank
  have : Gen.hufCountsLenOk len Gen.hufMaxCounts = true := by
    simp only [Gen.hufCountsLenOk, Gen.hufMaxCounts]; exact decide_eq_true hlen
  simp [this, hs, hsc]

/-! ## the decoder's table -/

/-- the weights the Spec accepts are the weights the model's checks accept -/
theorem spec_complete_iff (ws : List Nat) (m : Nat) (all : List Nat) :
    Spec.Huffman.completeWeights ws = some (m, all) ↔
      GoodWeights ws ∧ m = maxBitsOf ws ∧ all = ws ++ [lastWeightOf ws] := by
  have hsum : (ws.map Spec.Huffman.weightMass).sum = weightSum ws := by
    induction ws with
    | nil => rfl
    | cons w ws ih =>
      simp only [List.map_cons, List.sum_cons, weightSum, ih, Spec.Huffman.weightMass]
      by_cases h : w = 0
      · simp [h]
      · have : w > 0 := by omega
        simp [h, this]
  have hany : ws.any (fun w => decide (w > Spec.Huffman.maxBitsLimit)) = true ↔ ¬ ∀ w ∈ ws, w ≤ Gen.hufMaxNumBits := by
    rw [List.any_eq_true]
    have : Spec.Huffman.maxBitsLimit = Gen.hufMaxNumBits := rfl
    constructor
    · rintro ⟨w, hw, h⟩ hall
      have := hall w hw
      simp only [decide_eq_true_eq, this] at h
      omega
    · intro h
      by_cases h' : ∃ w, w ∈ ws ∧ w > Gen.hufMaxNumBits
      · obtain ⟨w, hw, hgt⟩ := h'
        exact ⟨w, hw, by simp only [decide_eq_true_eq, this]; exact hgt⟩
      · exfalso; apply h; intro w hw
        by_cases hle : w ≤ Gen.hufMaxNumBits
        · exact hle
        · exact absurd ⟨w, hw, by omega⟩ h'
  have hpow : ∀ n, Spec.Huffman.isPow2 n = isPow2 n := fun _ => rfl
  unfold Spec.Huffman.completeWeights
  by_cases hle : ∀ w ∈ ws, w ≤ Gen.hufMaxNumBits
  · have : ¬ (ws.any (fun w => decide (w > Spec.Huffman.maxBitsLimit)) = true) := by rw [hany]; simpa using hle
    rw [if_neg this]
    simp only [hsum, hpow]
    by_cases h0 : weightSum ws = 0
    · rw [if_pos h0]
      constructor
      · intro h; cases h
      · intro ⟨g, _, _⟩; exact absurd h0 g.pos
    · rw [if_neg h0]
      by_cases hp : isPow2 (2 ^ (Nat.log2 (weightSum ws) + 1) - weightSum ws) = true
      · simp only [hp, Bool.not_true, Bool.false_eq_true, if_false]
        by_cases hm : Nat.log2 (weightSum ws) + 1 > Spec.Huffman.maxBitsLimit
        · rw [if_pos hm]
          constructor
          · intro h; cases h
          · intro ⟨g, _, _⟩
            have := g.maxBits
            have e : Spec.Huffman.maxBitsLimit = Gen.hufMaxNumBits := rfl
            omega
        · rw [if_neg hm]
          have e : Spec.Huffman.maxBitsLimit = Gen.hufMaxNumBits := rfl
          constructor
          · intro h
            simp only [Option.some.injEq, Prod.mk.injEq] at h
            exact ⟨⟨hle, h0, hp, by omega⟩, h.1.symm, h.2.symm⟩
          · intro ⟨_, h1, h2⟩
            rw [h1, h2]; rfl
      · have hp' : isPow2 (2 ^ (Nat.log2 (weightSum ws) + 1) - weightSum ws) = false := by simpa using hp
        simp only [hp', Bool.not_false, if_true]
        constructor
        · intro h; cases h
        · intro ⟨g, _, _⟩; exact absurd g.pow hp
  · have : ws.any (fun w => decide (w > Spec.Huffman.maxBitsLimit)) = true := by rw [hany]; exact hle
    rw [if_pos this]
    constructor
    · intro h; cases h
    · intro ⟨g, _, _⟩; exact absurd g.le11 hle

/-- **The rank-index construction of `build_table_from_weights` yields the canonical table of the
RFC** (shared with C01).  Whenever the specification assigns a table `T` to the transmitted
weights, the model of the decoder builds — without error or panic, whatever the previous state of
the table object — a table with the same `Max_Number_of_Bits` whose cells are, one by one, the
cells of `T`; its `bits` are the code lengths `maxBits + 1 − w` including the inferred last one. -/
theorem huf_table_eq_canonical (t : DecTable) (T : Spec.Huffman.Table)
    (hspec : Spec.Huffman.tableOfWeights t.weights = some T) :
    ∃ t', buildTableFromWeights t = (t', .ok ()) ∧ t'.maxNumBits = T.maxBits ∧ t'.weights = t.weights ∧
      t'.bits = allBitsOf t.weights ∧
      t'.decode.toList.map (fun e => (e.symbol, e.numBits)) = T.entries.toList.map (fun e => (e.symbol, e.nbBits)) := by
  unfold Spec.Huffman.tableOfWeights at hspec
  cases hc : Spec.Huffman.completeWeights t.weights with
  | none => rw [hc] at hspec; cases hspec
  | some p =>
    obtain ⟨m, all⟩ := p
    rw [hc] at hspec
    simp only at hspec
    obtain ⟨g, hm, hall⟩ := (spec_complete_iff _ _ _).mp hc
    by_cases hl : all.length > 256
    · rw [if_pos hl] at hspec; cases hspec
    · rw [if_neg hl] at hspec
      simp only [Option.some.injEq] at hspec
      subst hspec
      have hlen : t.weights.length ≤ 257 := by
        rw [hall] at hl; simp at hl; omega
      obtain ⟨ri, dec, hbuild, hinv⟩ := buildTable_good t hlen g
      obtain ⟨_, _, _, _, hsum, hallle⟩ := good_facts g
      refine ⟨_, hbuild, ?_, rfl, rfl, ?_⟩
      · simp [Spec.Huffman.buildTable, hm]
      · rw [spec_entries_eq, hm, hall]
        apply table_eq_canonical (maxBitsOf t.weights) (t.weights ++ [lastWeightOf t.weights])
          (by rw [← hall]; omega) hallle ri dec hinv
        rw [← riSum_eq_specOff _ hallle _ (Nat.le_refl _), riSum_total, bitMass_bitsOf _ hallle, hsum]

/-- **Weights that cannot form a complete code are rejected, never with a panic**: a weight above
11, no weight at all, a leftover that is not a power of two, or more than 11 bits each make
`build_table_from_weights` return the corresponding error variant. -/
theorem bad_weights_rejected (t : DecTable) (hlen : t.weights.length ≤ 257)
    (hbad : (∃ w ∈ t.weights, w > 11) ∨ weightSum t.weights = 0 ∨
      isPow2 (2 ^ maxBitsOf t.weights - weightSum t.weights) = false ∨ maxBitsOf t.weights > 11) :
    ∃ e, (buildTableFromWeights t).2 = .error (.err e) := by
  have : ¬ GoodWeights t.weights := by
    intro g
    rcases hbad with ⟨w, hw, h⟩ | h | h | h
    · have := g.le11 w hw
      have e : Gen.hufMaxNumBits = 11 := rfl
      omega
    · exact g.pos h
    · have := g.pow; simp only [maxBitsOf] at h; rw [h] at this; cases this
    · have := g.maxBits
      have e : Gen.hufMaxNumBits = 11 := rfl
      simp only [maxBitsOf] at h; omega
  obtain ⟨e, he, _⟩ := buildTable_bad t hlen this
  exact ⟨e, he⟩

/-- in Spec terms: what the specification rejects, the decoder rejects -/
theorem spec_rejected_is_rejected (t : DecTable) (hlen : t.weights.length ≤ 257)
    (hspec : Spec.Huffman.completeWeights t.weights = none) :
    ∃ e, (buildTableFromWeights t).2 = .error (.err e) := by
  have : ¬ GoodWeights t.weights := by
    intro g
    have := (spec_complete_iff t.weights (maxBitsOf t.weights) (t.weights ++ [lastWeightOf t.weights])).mpr ⟨g, rfl, rfl⟩
    rw [hspec] at this; cases this
  obtain ⟨e, he, _⟩ := buildTable_bad t hlen this
  exact ⟨e, he⟩

/-- `build_table_from_weights` never panics (≤ 257 weights is what `read_weights` can deliver):
the `assert!(rank_indexes[0] == decode.len())`, the index expressions and the `u32` sum are safe
for every weight list. -/
theorem build_table_never_panics (t : DecTable) (hlen : t.weights.length ≤ 257) (f : Fault) :
    (buildTableFromWeights t).2 ≠ .error (.fault f) := by
  by_cases g : GoodWeights t.weights
  · obtain ⟨_, _, h, _⟩ := buildTable_good t hlen g
    rw [h]; intro h'; cases h'
  · obtain ⟨e, he, _⟩ := buildTable_bad t hlen g
    rw [he]; intro h'; cases h'

/-! ## the encoder's codes -/

/-- **Kraft-complete weights give a complete prefix-free code** (general, no bound on the alphabet
other than `u8` symbols): if `Σ 2^(w−1) = 2^m` over at most 256 weights, each at most `m ≤ 32`
(so that codes fit the `u32` the table stores), then `build_from_weights` does not panic, symbols
of weight 0 get no code, a symbol of weight `w` gets a code of `m + 1 − w` bits that fits its
length, and no code is a prefix of another one (`code2 >> (len2 − len1) ≠ code1`, the test of the
unit test `weights`).  Completeness is the hypothesis itself: `Σ 2^(m − len) = Σ 2^(w−1) = 2^m`. -/
theorem codes_prefix_free (ws : List Nat) (m : Nat) (hlen : ws.length ≤ 256) (hm : m ≤ 32)
    (hle : ∀ w ∈ ws, w ≤ m) (hk : weightSum ws = 2 ^ m) :
    ∃ t, buildFromWeights ws = .ok t ∧ CodesOk ws m t.codes :=
  buildFromWeights_ok ws m hlen hm hle hk

/-- non-vacuity of `codes_prefix_free`: the weights of the unit test `huffman` -/
example : ∃ t, buildFromWeights [4, 3, 2, 0, 1, 1] = .ok t ∧ CodesOk [4, 3, 2, 0, 1, 1] 4 t.codes :=
  codes_prefix_free _ 4 (by decide) (by decide) (by decide) (by decide)

/-- **Every table the compressor builds is a complete prefix-free code of depth at most 11.**
For every histogram with at most 256 entries of which 2 to 256 are non-zero (the number of zero
entries is what `build_from_counts` counts: the "does not occur" flags of the rank order),
`build_from_counts` does not panic and returns the code of a weight vector `wd` (the shape weights
scattered over the symbols) with `Σ 2^(w−1) = 2^m`, `m ≤ 11`: every code length `m + 1 − w` is at
most 11, the codes are prefix-free and complete. -/
theorem compressor_table_valid (counts : List Nat) (hlen : counts.length ≤ 256)
    (hn : 2 ≤ counts.length - ((rankOrder counts).filter (·.2)).length) :
    ∃ t wd m, buildFromCounts counts = .ok t ∧ m ≤ 11 ∧ wd.length = counts.length ∧
      weightSum wd = 2 ^ m ∧ (∀ w ∈ wd, w ≤ m) ∧ CodesOk wd m t.codes := by
  obtain ⟨ws, hs, hwl, hge1, _, hhead, hpow, hlog⟩ :=
    shape_valid (counts.length - ((rankOrder counts).filter (·.2)).length) hn (by omega)
  obtain ⟨p1, p2, p3⟩ := rankOrder_props counts
  have hsum : weightSum ws = 2 ^ Nat.log2 (weightSum ws) := ((isPow2_iff.mp hpow).2).symm
  obtain ⟨wd, s1, s2, s3, s4⟩ := scatter_spec (rankOrder counts) ws (List.replicate counts.length 0) p1
    (fun p hp => by
      have := p2 p hp
      exact ⟨by simpa using this, by simp [this]⟩)
    (by rw [filter_not_length, p3, hwl])
  rw [weightSum_replicate_zero, Nat.zero_add] at s3
  have hwdle : ∀ w ∈ wd, w ≤ Nat.log2 (weightSum ws) := by
    intro w hw
    rcases s4 w hw with h | h | h
    · have := List.eq_of_mem_replicate h; omega
    · have h1 := weightSum_ge_of_mem hge1 h
      have : 2 ^ (w - 1) < 2 ^ Nat.log2 (weightSum ws) := by omega
      have := (Nat.pow_lt_pow_iff_right (by omega : 1 < 2)).mp this
      omega
    · omega
  obtain ⟨t, b1, b2⟩ := buildFromWeights_ok wd (Nat.log2 (weightSum ws)) (by rw [s2]; simpa using hlen)
    (by omega) hwdle (by rw [s3]; exact hsum)
  refine ⟨t, wd, Nat.log2 (weightSum ws), ?_, hlog, by rw [s2]; simp, by rw [s3]; exact hsum, hwdle, b2⟩
  unfold buildFromCounts
  rw [shape_depends_on_n counts.length (rankOrder counts) ws wd hlen hs s1, b1]

/-- **The table `build_from_counts` returns is canonical** (`CanonTable`): for a histogram with at
most 256 entries, 2 … 256 of them non-zero, the last one non-zero (as in `build_from_data`:
`counts[..=max]`), it is `build_from_weights` of a weight vector `wd` with Kraft sum `2^m`, `m ≤ 11`,
containing the weight 1, whose last weight is not zero.  Everything below (descriptions, streams) is
proved for canonical tables. -/
theorem compressor_table_canon (counts : List Nat) (hlen : counts.length ≤ 256)
    (hn : 2 ≤ counts.length - ((rankOrder counts).filter (·.2)).length)
    (hlast : ∀ c, counts.getLast? = some c → c ≠ 0) :
    ∃ t wd m, buildFromCounts counts = .ok t ∧ CanonTable t wd m ∧ wd.length = counts.length ∧
      (∀ s (h : s < counts.length), counts[s] ≠ 0 → ∃ h' : s < wd.length, wd[s] > 0) := by
  obtain ⟨ws, hs, hwl, hge1, _, hhead, hpow, hlog⟩ :=
    shape_valid (counts.length - ((rankOrder counts).filter (·.2)).length) hn (by omega)
  obtain ⟨p1, p2, p3⟩ := rankOrder_props counts
  have hsum : weightSum ws = 2 ^ Nat.log2 (weightSum ws) := ((isPow2_iff.mp hpow).2).symm
  have hcnt : ((rankOrder counts).filter (fun p => !p.2)).length = ws.length := by rw [filter_not_length, p3, hwl]
  obtain ⟨wd, s1, s2, s3, s4⟩ := scatter_spec (rankOrder counts) ws (List.replicate counts.length 0) p1
    (fun p hp => by
      have := p2 p hp
      exact ⟨by simpa using this, by simp [this]⟩) hcnt
  obtain ⟨w1, w2, w3, _⟩ := scatter_where (rankOrder counts) ws (List.replicate counts.length 0) p1
    (fun p hp => by simpa using p2 p hp) hcnt wd s1
  rw [weightSum_replicate_zero, Nat.zero_add] at s3
  have hone : 1 ∈ ws := List.mem_of_mem_head? (by rw [hhead]; rfl)
  have hm1 : 1 ≤ Nat.log2 (weightSum ws) := by
    have h1 := weightSum_ge_of_mem hge1 hone
    rcases Nat.eq_zero_or_pos (Nat.log2 (weightSum ws)) with h0 | h0
    · rw [h0] at hsum; omega
    · exact h0
  have hwdle : ∀ w ∈ wd, w ≤ Nat.log2 (weightSum ws) := by
    intro w hw
    rcases s4 w hw with h | h | h
    · have := List.eq_of_mem_replicate h; omega
    · have h1 := weightSum_ge_of_mem hge1 h
      have : 2 ^ (w - 1) < 2 ^ Nat.log2 (weightSum ws) := by omega
      have := (Nat.pow_lt_pow_iff_right (by omega : 1 < 2)).mp this
      omega
    · omega
  have hwdlen : wd.length = counts.length := by rw [s2]; simp
  obtain ⟨t, b1, _⟩ := buildFromWeights_ok wd (Nat.log2 (weightSum ws)) (by omega)
    (by omega) hwdle (by rw [s3]; exact hsum)
  have hbuild : buildFromCounts counts = .ok t := by
    unfold buildFromCounts
    rw [shape_depends_on_n counts.length (rankOrder counts) ws wd hlen hs s1, b1]
  refine ⟨t, wd, Nat.log2 (weightSum ws), hbuild,
    ⟨b1, by omega, by omega, hm1, hlog, hwdle, by rw [s3]; exact hsum, w3 1 hone, ?_⟩, hwdlen, ?_⟩
  rotate_left
  · intro s hsc hne
    have hflag : (counts[s] == 0) = false := by simpa using hne
    obtain ⟨x, hx, hx'⟩ := w2 _ (rankOrder_mem counts s hsc) hflag
    simp only at hx'
    have hs' : s < wd.length := by omega
    refine ⟨hs', ?_⟩
    rw [List.getElem?_eq_getElem hs'] at hx'
    simp only [Option.some.injEq] at hx'
    rw [hx']; exact hge1 x hx
  intro w hw
  rw [List.getLast?_eq_getElem?, hwdlen] at hw
  have hL : counts.length - 1 < counts.length := by omega
  have hmem := rankOrder_mem counts (counts.length - 1) hL
  have hne : counts[counts.length - 1] ≠ 0 := by
    apply hlast
    rw [List.getLast?_eq_getElem?, List.getElem?_eq_getElem hL]
  have hflag : (counts[counts.length - 1] == 0) = false := by simpa using hne
  obtain ⟨x, hx, hx'⟩ := w2 _ hmem hflag
  simp only at hx'
  rw [hx'] at hw
  simp only [Option.some.injEq] at hw
  subst hw
  exact hge1 x hx

/-- … in particular a complete code in the sense of the description round trips (`KraftTable`) -/
theorem compressor_table_kraft (counts : List Nat) (hlen : counts.length ≤ 256)
    (hn : 2 ≤ counts.length - ((rankOrder counts).filter (·.2)).length)
    (hlast : ∀ c, counts.getLast? = some c → c ≠ 0) :
    ∃ t M, buildFromCounts counts = .ok t ∧ KraftTable t M := by
  obtain ⟨t, wd, m, h1, c, _, _⟩ := compressor_table_canon counts hlen hn hlast
  exact ⟨t, m, h1, c.kraft⟩

/-! ## weight descriptions -/

/-- **Direct weight description round trip** (at most 16 transmitted weights): for a complete
encoder table of depth `M ≤ 11` (`KraftTable`) `write_table` does not panic; the decoder, whatever
state its table object was in, reads the description back, consumes exactly its bytes and ends up
with the encoder's code lengths — the dropped last weight is re-inferred correctly — and with
`max_num_bits = M`.  (Nibble order, the odd remainder and the header byte are the source's, through
`Zstd.Gen.Huf`.) -/
theorem weights_roundtrip_direct (fseEnc : List Nat → Except Fault (List Nat)) (t : EncTable) (M : Nat)
    (k : KraftTable t M) (hdirect : t.codes.length - 1 ≤ 16) (st : DecTable) (tail : List Nat) :
    ∃ desc, writeTable fseEnc t = .ok desc ∧
      ∃ st', buildDecoder st (desc ++ tail) = (st', .ok desc.length) ∧
        st'.bits = t.codes.map (·.2) ∧ st'.maxNumBits = M :=
  direct_roundtrip fseEnc t M k hdirect st tail

/-- **FSE-compressed weight description round trip** (more than 16 transmitted weights),
UNCONDITIONAL for the real FSE coder with the production parameters (`Model.Enc.fseWeights`: normaliser
with max log 6 and zero-bit avoidance, `write_table`, `encode_interleaved` — composition of the C12
theorems in `Proofs/HufFseContract.lean`): for every canonical table the FSE coder does not panic on
the transmitted weights; if it returns fewer than 128 bytes, `write_table` writes size byte + payload
and the decoder — from any table state, with any bytes after the description — ends up with the
encoder's code lengths, the dropped last weight re-inferred, the description exactly consumed, and a
table that decodes the encoder's code; if it returns 128 bytes or more `write_table` panics at its
`assert!` (that this never happens is `fse_weights_lt_128_full`). -/
theorem weights_roundtrip_fse {t : EncTable} {wd : List Nat} {m : Nat} (c : CanonTable t wd m)
    (hfseform : wd.length - 1 > 16) :
    ∃ bytes, Model.Enc.fseWeights wd.dropLast = .ok bytes ∧
      (bytes.length < 128 →
        writeTable Model.Enc.fseWeights t = .ok (bytes.length :: bytes) ∧
        ∀ (st : DecTable) (tail : List Nat), (∀ b ∈ tail, b < 256) →
          ∃ st', buildDecoder st ((bytes.length :: bytes) ++ tail) = (st', .ok (bytes.length :: bytes).length) ∧
            st'.bits = t.codes.map (·.2) ∧ st'.maxNumBits = m ∧ DecodesCode st' t m) ∧
      (128 ≤ bytes.length →
        writeTable Model.Enc.fseWeights t = .error (.assert "huff0_encoder.rs:write_table:encoded_len<128")) := by
  obtain ⟨bytes, h1, h2, h3⟩ := descReads_fse c hfseform
  refine ⟨bytes, h1, ?_, h3⟩
  intro hsmall
  obtain ⟨hw, hr⟩ := h2 hsmall
  refine ⟨hw, ?_⟩
  intro st tail htail
  obtain ⟨st', q1, q2, q3⟩ := buildDecoder_of_reads c _ hr st tail htail
  exact ⟨st', q1, q3, q2.mb, q2⟩

/-- the contract form (kept for users that are parametric in the FSE coder): the production coder
satisfies `FseWeightsContract` on every weight vector `write_table` can pass to it -/
theorem fse_contract_production (ws bytes : List Nat) (h4 : 4 ≤ ws.length) (h257 : ws.length ≤ 257)
    (hle : ∀ w ∈ ws, w ≤ 11) (hpos : ∃ w ∈ ws, 1 ≤ w)
    (henc : Model.Enc.fseWeights ws = .ok bytes) (hsmall : bytes.length < 128) :
    ∀ (st : DecTable) (tail : List Nat), (∀ b ∈ tail, b < 256) →
      readWeights st (bytes.length :: (bytes ++ tail)) = ({ st with weights := ws }, .ok (1 + bytes.length)) :=
  fseWeights_contract_on ws bytes h4 h257 hle hpos henc hsmall

/-- `fse_weights_lt_128`, the part that is a theorem about the model: the
`assert!(encoded_len < 128)` of `write_table` fires exactly when the FSE encoder returns 128 bytes
or more.  That it never does for the compressor's tables is `fse_weights_lt_128_full` below. -/
theorem fse_weights_lt_128_partial (fseEnc : List Nat → Except Fault (List Nat)) (t : EncTable) (M : Nat)
    (k : KraftTable t M) (hfseform : t.codes.length - 1 > 16)
    (bytes : List Nat) (henc : fseEnc (encWeights t M).dropLast = .ok bytes) :
    writeTable fseEnc t = .error (.assert "huff0_encoder.rs:write_table:encoded_len<128") ↔ 128 ≤ bytes.length :=
  writeTable_assert_iff fseEnc t M k hfseform bytes henc

/-- Full strength of `fse_weights_lt_128`: every table `build_from_counts` returns has a weight
description that `write_table`, with the real FSE coder (`Enc.fseWeights`: normaliser with max log 6
and zero-bit avoidance, `write_table`, `encode_interleaved`), writes without hitting
`assert!(encoded_len < 128)` or any other panic site.  PROVED: `fse_weights_lt_128_full_holds`. -/
def fse_weights_lt_128_full : Prop :=
  ∀ counts t, counts.length ≤ 256 → buildFromCounts counts = .ok t →
    ∃ desc, writeTable Model.Enc.fseWeights t = .ok desc

/-- what is proved of it: for canonical tables `write_table` succeeds unless the FSE coder returns 128
bytes or more — no other panic site of `write_table`, the normaliser, the FSE table builder or the
interleaved coder is reachable -/
theorem fse_weights_lt_128_canon_partial {t : EncTable} {wd : List Nat} {m : Nat} (c : CanonTable t wd m) :
    (∃ desc, writeTable Model.Enc.fseWeights t = .ok desc) ∨
      (∃ bytes, Model.Enc.fseWeights wd.dropLast = .ok bytes ∧ 128 ≤ bytes.length ∧
        writeTable Model.Enc.fseWeights t = .error (.assert "huff0_encoder.rs:write_table:encoded_len<128")) := by
  by_cases hform : wd.length - 1 ≤ 16
  · obtain ⟨desc, h, _⟩ := descReads_direct Model.Enc.fseWeights c hform
    exact Or.inl ⟨desc, h⟩
  · obtain ⟨bytes, h1, h2, h3⟩ := descReads_fse c (by omega)
    by_cases hs : bytes.length < 128
    · exact Or.inl ⟨_, (h2 hs).1⟩
    · exact Or.inr ⟨bytes, h1, by omega, h3 (by omega)⟩

/-- **`write_table` is TOTAL on the compressor's tables** (`fse_weights_lt_128`, full): for every
histogram with at most 256 entries for which `build_from_counts` returns a table, `write_table` with
the real FSE coder returns a description.  Proof (`Proofs/HufLt128*.lean`):
(1) analytic size bound — every step of `encode_interleaved` for a symbol `x` writes the bits of a
state of `x`, at most `AL − ⌊log₂ p_x⌋` by the closed form of the table (C12 `fse_dec_table_char`), then
`2·AL` bits of final states and at most 8 bits of end mark; the table description takes at most
`4 + (AL+3)·#symbols + 7` bits; so `8·|fseWeights ws| ≤ boundOf (histogram ws)`, a function of the
NORMALISED DISTRIBUTION only (`fseWeights_size`);
(2) the weights of a compressor table are `shape n` spread over the used symbols plus `z` zeros, and
the transmitted vector drops one of them (`scatter_count`, `histogram_eq_trim`);
(3) finite table, evaluated by the kernel in 91 generated modules (`tools/gen_huf_lt128.py`): for every
`n = 2..256`, every `z = 0..256−n` and every value of the dropped weight (118 664 runs of the
13-symbol normaliser, no encoder run) the bound is at most 1023 bits (the largest is 632). -/
theorem write_table_total_on_compressor_tables (counts : List Nat) (t : EncTable) (hlen : counts.length ≤ 256)
    (hb : buildFromCounts counts = .ok t) : ∃ desc, writeTable Model.Enc.fseWeights t = .ok desc :=
  writeTable_total counts t hlen hb

theorem fse_weights_lt_128_full_holds : fse_weights_lt_128_full :=
  fun counts t hlen hb => writeTable_total counts t hlen hb

/-- … and what it writes is read back: for a histogram as `build_from_data` makes it (last entry not
zero, 2 … 256 non-zero entries) `write_table` returns a description from which the decoder — any table
state, any following bytes — recovers exactly the transmitted weights, consuming exactly the
description (direct or FSE-compressed form) -/
theorem write_table_total_and_read_back (counts : List Nat) (hlen : counts.length ≤ 256)
    (hn : 2 ≤ counts.length - ((rankOrder counts).filter (·.2)).length)
    (hlast : ∀ c, counts.getLast? = some c → c ≠ 0) :
    ∃ t wd m desc, buildFromCounts counts = .ok t ∧ CanonTable t wd m ∧
      writeTable Model.Enc.fseWeights t = .ok desc ∧ DescReads desc wd.dropLast := by
  obtain ⟨t, wd, m, hb, c, _, _⟩ := compressor_table_canon counts hlen hn hlast
  obtain ⟨desc, hdesc⟩ := writeTable_total counts t hlen hb
  refine ⟨t, wd, m, desc, hb, c, hdesc, ?_⟩
  by_cases hform : wd.length - 1 ≤ 16
  · obtain ⟨desc', h1, h2⟩ := descReads_direct Model.Enc.fseWeights c hform
    rw [hdesc] at h1; simp only [Except.ok.injEq] at h1; subst h1; exact h2
  · obtain ⟨bytes, _, h2, h3⟩ := descReads_fse c (by omega)
    by_cases hs : bytes.length < 128
    · obtain ⟨h1, h2'⟩ := h2 hs
      rw [hdesc] at h1; simp only [Except.ok.injEq] at h1; subst h1; exact h2'
    · rw [h3 (by omega)] at hdesc; cases hdesc

/-! ## the streams -/

/-- **One stream** (`HuffmanEncoder::encode` with the table, then `decode_literals` on a Compressed
section with one stream).  For every canonical table (in particular every table the compressor builds,
`compressor_table_canon`), every literal string over symbols that have a code, and the description
`write_table` wrote — provided the decoder reads that description back (`DescReads`: proved for the
direct form, and for the FSE form by `weights_roundtrip_fse`): `encode` does not panic, and
`decode_literals`, from any table state, with any bytes after the section and any literals already in
the target, appends exactly the literals, reports exactly the section's bytes as read, and leaves a
table that decodes the code (so a following Treeless section works).
What the one-stream path checks: only the total number of regenerated literals; it does NOT verify
`bits_remaining == -max_num_bits` (the four-stream path does) — `one_stream_exact` states that the
stream is nevertheless exactly consumed. -/
theorem encode_decode_1stream (fseEnc : List Nat → Except Fault (List Nat)) {t : EncTable} {wd : List Nat} {m : Nat}
    (c : CanonTable t wd m) (data : List Nat) (hdata : Encodable wd data)
    (desc : List Nat) (hdesc : writeTable fseEnc t = .ok desc) (hr : DescReads desc wd.dropLast) :
    ∃ bytes, encode fseEnc t data true = .ok bytes ∧
      ∀ (st : DecTable) (tail target : List Nat), ∃ st',
        decodeLiterals (litSection .compressed (target.length + data.length) bytes.length 1) st (bytes ++ tail) target
          = (st', .ok (target ++ data, bytes.length)) ∧ DecodesCode st' t m :=
  roundtrip_1stream fseEnc c data hdata desc hdesc hr

/-- every stream is exactly consumed: after the symbols have been regenerated the reader stands at
`bits_remaining = -max_num_bits`, whether or not the caller checks it (`check` = the four-stream
variant that does) -/
theorem one_stream_exact (tbl : DecTable) (t : EncTable) (m : Nat) (dc : DecodesCode tbl t m)
    (data stream : List Nat) (henc : encodeStream t data = .ok stream) (check : Bool) (outRev : List Nat) :
    decodeOneStream tbl stream check outRev = .ok (data.reverse ++ outRev) :=
  decodeOneStream_encodeStream tbl t m dc data stream henc check outRev

/-- one stream, Treeless (`with_table = false`): against any decoder table that decodes the code -/
theorem encode_decode_1stream_treeless (fseEnc : List Nat → Except Fault (List Nat)) {t : EncTable} {wd : List Nat}
    {m : Nat} (c : CanonTable t wd m) (data : List Nat) (hdata : Encodable wd data) :
    ∃ bytes, encode fseEnc t data false = .ok bytes ∧
      ∀ (st : DecTable) (tail target : List Nat), DecodesCode st t m →
        decodeLiterals (litSection .treeless (target.length + data.length) bytes.length 1) st (bytes ++ tail) target
          = (st, .ok (target ++ data, bytes.length)) :=
  roundtrip_1stream_treeless fseEnc c data hdata

/-- **Four streams** (`encode4x`: split `⌈len/4⌉`, jump table; then `decode_literals` with four
streams, each of which must end at `bits_remaining == -max_num_bits`): for every canonical table and
every literal string over coded symbols of any length the compressor uses — at least 4 and not 5
(`encode4x_split_faults`; `compress_literals` switches to four streams at 6), at most 128 KiB (so that
the three jump-table entries fit `u16`, which `encode4x` asserts). -/
theorem encode_decode_4streams (fseEnc : List Nat → Except Fault (List Nat)) {t : EncTable} {wd : List Nat} {m : Nat}
    (c : CanonTable t wd m) (data : List Nat) (hdata : Encodable wd data)
    (hlen : 4 ≤ data.length) (h5 : data.length ≠ 5) (hmax : data.length ≤ 131072)
    (desc : List Nat) (hdesc : writeTable fseEnc t = .ok desc) (hr : DescReads desc wd.dropLast) :
    ∃ bytes, encode4x fseEnc t data true = .ok bytes ∧
      ∀ (st : DecTable) (tail target : List Nat), ∃ st',
        decodeLiterals (litSection .compressed (target.length + data.length) bytes.length 4) st (bytes ++ tail) target
          = (st', .ok (target ++ data, bytes.length)) ∧ DecodesCode st' t m :=
  roundtrip_4streams fseEnc c data hdata hlen h5 hmax desc hdesc hr

theorem encode_decode_4streams_treeless (fseEnc : List Nat → Except Fault (List Nat)) {t : EncTable} {wd : List Nat}
    {m : Nat} (c : CanonTable t wd m) (data : List Nat) (hdata : Encodable wd data)
    (hlen : 4 ≤ data.length) (h5 : data.length ≠ 5) (hmax : data.length ≤ 131072) :
    ∃ bytes, encode4x fseEnc t data false = .ok bytes ∧
      ∀ (st : DecTable) (tail target : List Nat), DecodesCode st t m →
        decodeLiterals (litSection .treeless (target.length + data.length) bytes.length 4) st (bytes ++ tail) target
          = (st, .ok (target ++ data, bytes.length)) :=
  roundtrip_4streams_treeless fseEnc c data hdata hlen h5 hmax

/-- **The compressor's path, end to end, with the real FSE coder**: histogram → table → description
(direct or FSE-compressed) → four streams → `decode_literals`.  For every literal string of 6 … 128 KiB
bytes with at least two distinct values nothing panics — in particular not the
`assert!(encoded_len < 128)` of `write_table` (`write_table_total_on_compressor_tables`) — and the
literals come back. -/
theorem literals_roundtrip_compressor (counts : List Nat) (hlen : counts.length ≤ 256)
    (hn : 2 ≤ counts.length - ((rankOrder counts).filter (·.2)).length)
    (hlast : ∀ c, counts.getLast? = some c → c ≠ 0)
    (data : List Nat) (hd : ∀ s ∈ data, ∃ h : s < counts.length, counts[s] ≠ 0)
    (h6 : 6 ≤ data.length) (hmax : data.length ≤ 131072) :
    ∃ t bytes, buildFromCounts counts = .ok t ∧ encode4x Model.Enc.fseWeights t data true = .ok bytes ∧
      ∀ (st : DecTable) (tail target : List Nat), ∃ st',
        decodeLiterals (litSection .compressed (target.length + data.length) bytes.length 4) st (bytes ++ tail) target
          = (st', .ok (target ++ data, bytes.length)) := by
  obtain ⟨t, wd, m, hb, c, hwdlen, hused⟩ := compressor_table_canon counts hlen hn hlast
  obtain ⟨t', wd', m', desc, hb', c', hdesc, hr⟩ := write_table_total_and_read_back counts hlen hn hlast
  rw [hb] at hb'
  simp only [Except.ok.injEq] at hb'
  subst hb'
  -- the two weight vectors build the same table; use the one that comes with the description
  have henc : Encodable wd' data := by
    intro s hsd
    obtain ⟨hsc, hne⟩ := hd s hsd
    obtain ⟨hs1, hpos1⟩ := hused s hsc hne
    -- `t.codes[s]` has a non-zero length, so `wd'[s]` is not zero either
    obtain ⟨cd, q1, _⟩ := c.codesOk.used s hs1 hpos1
    have hwm : wd[s] ≤ m := c.le _ (List.getElem_mem _)
    obtain ⟨hs2, q2⟩ := c'.code s _ q1
    refine ⟨hs2, ?_⟩
    simp only at q2
    by_cases h0 : wd'[s] = 0
    · rw [if_pos h0] at q2; omega
    · omega
  obtain ⟨bytes, q1, q2⟩ := roundtrip_4streams Model.Enc.fseWeights c' data henc (by omega) (by omega) hmax desc hdesc hr
  refine ⟨t, bytes, hb, q1, ?_⟩
  intro st tail target
  obtain ⟨st', q, _⟩ := q2 st tail target
  exact ⟨st', q⟩

/-- The 4-stream splitter: `encode4x` panics for fewer than 4 literals (the `assert!`) and for
exactly 5 (`&data[split*2..split*3]` with `split = 2`), and for no other length because of the
split — `compress_literals` uses it from 6 literals on. -/
theorem encode4x_split_faults (fseEnc : List Nat → Except Fault (List Nat)) (t : EncTable) (data : List Nat)
    (h : data.length < 4 ∨ data.length = 5) : ∃ f, encode4x fseEnc t data false = .error f := by
  unfold encode4x
  by_cases h4 : data.length < 4
  · have : Gen.hufEnc4LenOk data.length Gen.hufEnc4MinLen = false := by
      simp only [Gen.hufEnc4LenOk, Gen.hufEnc4MinLen]; exact decide_eq_false (by omega)
    simp only [this, Bool.not_false, if_true]
    exact ⟨_, rfl⟩
  · have h5 : data.length = 5 := by omega
    have : Gen.hufEnc4LenOk data.length Gen.hufEnc4MinLen = true := by
      simp only [Gen.hufEnc4LenOk, Gen.hufEnc4MinLen]; exact decide_eq_true (by omega)
    simp only [this, Bool.not_true, Bool.false_eq_true, if_false]
    rw [if_pos (by rw [h5]; decide)]
    exact ⟨_, rfl⟩

/-! ## F10 (filed under C16; outside C13's quantifier 2..256) -/

/-- A single distinct literal value makes `build_from_data` panic: `distribute_weights(1)` fails
`assert!(amount >= 2)`.  Reachable through `compress_literals` only with a custom matcher that
yields more than 1024 literals of one value in a block that is not constant (`fixes/F10.diff`). -/
theorem single_value_faults (counts : List Nat)
    (h : counts.length - ((rankOrder counts).filter (·.2)).length = 1) :
    ∃ f, buildFromCounts counts = .error f := by
  unfold buildFromCounts buildFromRank
  by_cases hl : Gen.hufCountsLenOk counts.length Gen.hufMaxCounts = true
  · simp only [hl, Bool.not_true, Bool.false_eq_true, if_false, h]
    exact ⟨_, rfl⟩
  · have : Gen.hufCountsLenOk counts.length Gen.hufMaxCounts = false := by simpa using hl
    simp only [this, Bool.not_false, if_true]
    exact ⟨_, rfl⟩

/-- the witness: the histogram of 2000 literals of value 7 (`counts[..=7]`) -/
example : buildFromCounts [0, 0, 0, 0, 0, 0, 0, 2000]
    = .error (.assert "huff0_encoder.rs:distribute_weights:amount>=2") := by decide

/-- non-vacuity of `huf_table_eq_canonical`: the Spec assigns a table to the weights 2,1,0,3 -/
example : (Spec.Huffman.tableOfWeights [2, 1, 0, 3]).isSome = true := by decide

/-- non-vacuity of the whole chain (`compressor_table_canon`, `CanonTable`, `Encodable`, `DescReads`,
the stream theorems, totality of `write_table`): the histogram and the literals of the unit test
`from_data` -/
example : ∃ t bytes, buildFromCounts [3, 0, 4, 1, 5] = .ok t ∧
    encode4x Model.Enc.fseWeights t [0, 2, 4, 4, 0, 3, 2, 2, 0, 2] true = .ok bytes ∧
      ∀ (st : DecTable) (tail target : List Nat), ∃ st',
        decodeLiterals (litSection .compressed (target.length + 10) bytes.length 4) st (bytes ++ tail) target
          = (st', .ok (target ++ [0, 2, 4, 4, 0, 3, 2, 2, 0, 2], bytes.length)) :=
  literals_roundtrip_compressor [3, 0, 4, 1, 5] (by decide) (by decide) (by decide)
    [0, 2, 4, 4, 0, 3, 2, 2, 0, 2] (by decide) (by decide) (by decide)

/-- non-vacuity of `compressor_table_valid` / `compressor_table_kraft` and of the `KraftTable`
hypothesis of the description round trips: the histogram of the unit test `counts` -/
example : ∃ t M, buildFromCounts [3, 0, 4, 1, 5] = .ok t ∧ KraftTable t M :=
  compressor_table_kraft _ (by decide) (by decide) (by decide)

/-- the conclusion of `FseWeightsContract` on a description the real encoder produced (14 symbols
of weight 1 alternating with unused ones; payload `10 3f 22 aa aa 82 14` from the engine `huf`):
the model's FSE branch of `read_weights` returns exactly these weights -/
example : readWeights DecTable.empty (7 :: [0x10, 0x3f, 0x22, 0xaa, 0xaa, 0x82, 0x14, 0xAB])
    = ({ DecTable.empty with weights := [1,0,1,0,1,0,1,0,1,0,1,0,1,0,1,0,1,0,1,0,1,0,1,0,1,0,1,0] }, .ok 8) := by
  decide +kernel

/-- non-vacuity: the description `83 21 03` of the RFC-style example (weights 2,1,0,3 → last 1) -/
example : (buildDecoder DecTable.empty [131, 0x21, 0x03]).2 = .ok 3 := by decide

end Zstd.Props.C13
