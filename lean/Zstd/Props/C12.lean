import Zstd.Model.BitIO
import Zstd.Model.Fse
import Zstd.Spec.Bits
import Zstd.Spec.Fse
import Zstd.Spec.Tables
import Zstd.Proofs.BitIO
import Zstd.Proofs.FseFin
import Zstd.Proofs.FseNormalize
import Zstd.Proofs.FseStream
import Zstd.Proofs.FseDecTable
import Zstd.Proofs.FseStreamInter
import Zstd.Proofs.FseReadDesc
import Zstd.Proofs.FseEncTable
import Zstd.Proofs.FseTableDesc
import Zstd.Proofs.FseCoupled
import Zstd.Proofs.FseEndToEnd
import Zstd.Proofs.SeqSection
import Zstd.Proofs.SeqSectionBlk
/-
C12 — FSE tables equal the specification's; FSE encoder and decoder are exact inverses.
(+ the bit-level I/O models everything else builds on.)

Property theorems only; helper lemmas live in `Zstd/Proofs/{BitIO,FseFin*,FseNormalize,FseStream,…}`.
Model side: `Zstd/Model/{BitIO,FseCore,Fse}.lean` (hand-written mirrors of the Rust code, tied to it by
the correspondence engines `bits` and `fse`); every constant/distribution/step parameter is taken
from `Zstd.Gen.{Consts,Dists,Fse}`, regenerated from the source text on every run.
-/
namespace Zstd.Props.C12
open Zstd Zstd.Spec Zstd.Model.BitIO Zstd.Model.Fse Zstd.Proofs.BitIO

/-! ## Part 1 — bit-level I/O -/

/-- **forward reader = `Spec.readLE` on `Spec.bitsLE`.**  For every byte string, every position, every
`n ≤ 64`: `get_bits(n)` returns the little-endian `n`-bit field at the current bit position and
advances by `n`, or `NotEnoughRemainingBits` exactly when fewer than `n` bits remain.
(Side condition: `get_bits(0)` exactly at the end of the source indexes out of bounds in the Rust
code — `bitReader_getBits_zero_at_end_faults`; no caller requests 0 bits.) -/
theorem bitReader_refines (r : BitReader) (n : Nat) (hb : Bytes r.src.toList)
    (hidx : r.idx ≤ 8 * r.src.size) (hn : n ≤ 64) (h0 : 0 < n ∨ r.idx < 8 * r.src.size) :
    r.getBits n =
      (match readLE n ((bitsLE r.src.toList).drop r.idx) with
       | some (v, _) => .ok (v, { r with idx := r.idx + n })
       | none => .error (.notEnoughRemainingBits n (8 * r.src.size - r.idx))) :=
  Proofs.BitIO.bitReader_refines r n hb hidx hn h0

theorem bitReader_getBits_zero_at_end_faults (r : BitReader) (h : r.idx = 8 * r.src.size) :
    r.getBits 0 = .error (.fault (.index "bit_reader.rs:48:get_bits")) :=
  Proofs.BitIO.bitReader_getBits_zero_at_end_faults r h

/-- whole request sequences (`get n` / `return n`) of the forward reader against the abstract position -/
theorem bitReader_refines_seq (src : Array Nat) (hb : Bytes src.toList) (ops : List FwdOp)
    (idx : Nat) (hidx : idx ≤ 8 * src.size) :
    runFwd { src := src, idx := idx } ops =
      (match runFwdSpec (bitsLE src.toList) idx ops with
       | .error e => .error e
       | .ok (vs, pos) => .ok (vs, { src := src, idx := pos })) :=
  Proofs.BitIO.runFwd_refines src hb ops idx hidx

/-- **reversed reader = `Spec.readBEPad` on the reversed bit string.**  `RevInv src r pos` = "`r` is a
reachable state over `src` that has consumed `pos` bits"; it holds initially (`bitReaderRev_init`), is
preserved by every read, and determines `bits_remaining` (`bitReaderRev_bitsRemaining`).  For every
source, every reachable state and every `n ≤ 56` (what the code supports in every state; `57..63`
work only when the container happens to be aligned, `n ≥ 64` always panics: see
`Proofs.BitIO.bitReaderRev_getBits_wide_faults`, `_ge64_faults`): no fault, the value is the
big-endian field at `pos` with zero fill past the beginning of the source. -/
theorem bitReaderRev_refines {src : Array Nat} {r : BitReaderRev} {pos n : Nat}
    (h : RevInv src r pos) (hn : n ≤ 56) :
    ∃ r', r.getBits n = .ok ((readBEPad n ((stream src).drop pos)).1, r') ∧ RevInv src r' (pos + n) :=
  Proofs.BitIO.bitReaderRev_refines h hn

theorem bitReaderRev_init {src : Array Nat} (hb : Bytes src.toList) : RevInv src (BitReaderRev.new src) 0 :=
  RevInv_new hb

/-- `bits_remaining = 8·len − consumed`, as an `Int` that goes negative past the start -/
theorem bitReaderRev_bitsRemaining {src : Array Nat} {r : BitReaderRev} {pos : Nat} (h : RevInv src r pos) :
    r.bitsRemaining = 8 * (src.size : Int) - pos :=
  RevInv_bitsRemaining h

/-- every request sequence with all `n ≤ 56` on a fresh reader -/
theorem bitReaderRev_refines_seq {src : Array Nat} (hb : Bytes src.toList) {ns : List Nat}
    (hn : ∀ n ∈ ns, n ≤ 56) :
    ∃ r', runRev (BitReaderRev.new src) ns = .ok (runRevSpec (stream src) 0 ns, r') ∧
      r'.bitsRemaining = 8 * (src.size : Int) - ns.sum :=
  runRev_new hb hn

/-- **`get_bits_triple` = three `get_bits`** (fast path: one refill, one consume; slow path: three reads),
same values, same abstract position afterwards -/
theorem getBitsTriple_eq_three_gets {src : Array Nat} {r : BitReaderRev} {pos n1 n2 n3 : Nat}
    (h : RevInv src r pos) (h1 : n1 ≤ 56) (h2 : n2 ≤ 56) (h3 : n3 ≤ 56) :
    ∃ r', r.getBitsTriple n1 n2 n3
        = .ok (((readBEPad n1 ((stream src).drop pos)).1,
                (readBEPad n2 ((stream src).drop (pos + n1))).1,
                (readBEPad n3 ((stream src).drop (pos + n1 + n2))).1), r') ∧
      RevInv src r' (pos + n1 + n2 + n3) :=
  Proofs.BitIO.getBitsTriple_eq_three_gets h h1 h2 h3

/-- skipping the padding of a backward stream with single-bit reads leaves `Spec.backwardStream` -/
theorem bitReaderRev_backwardStream {src : Array Nat} (hb : Bytes src.toList) {last : Nat}
    (hl : src.toList.getLast? = some last) (h0 : last ≠ 0) :
    ∃ r' k, k ≤ 8 ∧ Proofs.BitIO.skipPadding 8 (BitReaderRev.new src) = .ok (some r') ∧ RevInv src r' k ∧
      backwardStream src.toList = some ((stream src).drop k) :=
  skipPadding_backwardStream hb hl h0

/-- **writer = appending little-endian bit fields.**  `WInv w L` = "the writer holds exactly the bit
string `L`" (output bytes followed by the partial buffer).  `write_bits(v, n)` with `v < 2^n`, `n ≤ 63`
appends the `n` little-endian bits of `v` (`n = 64` panics iff the partial buffer is empty:
`bitWriter_write64_empty_faults`). -/
theorem bitWriter_refines {w : BitWriter} {L : List Bool} {v n : Nat} (h : WInv w L) (hv : v < 2 ^ n)
    (hn : n ≤ 63) : ∃ w', w.writeBits v n = .ok w' ∧ WInv w' (L ++ bitsOfLE n v) :=
  Proofs.BitIO.bitWriter_refines h hv hn

theorem bitWriter_init : WInv BitWriter.new [] := WInv_new

/-- `dump` = the bytes of that bit string -/
theorem bitWriter_dump {w : BitWriter} {L : List Bool} (h : WInv w L) (hal : L.length % 8 = 0) :
    ∃ out, w.dump = .ok out ∧ bitsLE out.toList = L ∧ Bytes out.toList :=
  Proofs.BitIO.bitWriter_dump h hal

theorem bitWriter_index {w : BitWriter} {L : List Bool} (h : WInv w L) :
    w.index = L.length ∧ w.misaligned = (8 - L.length % 8) % 8 :=
  ⟨WInv_index h, WInv_misaligned h⟩

theorem bitWriter_appendBytes {w : BitWriter} {L : List Bool} {data : List Nat} (h : WInv w L)
    (hal : L.length % 8 = 0) (hd : Bytes data) :
    ∃ w', w.appendBytes data = .ok w' ∧ WInv w' (L ++ bitsLE data) :=
  Proofs.BitIO.bitWriter_appendBytes h hal hd

theorem bitWriter_resetTo {w : BitWriter} {L : List Bool} {index : Nat} (h : WInv w L)
    (hi : index % 8 = 0) (hle : index ≤ 8 * w.output.size) :
    ∃ w', w.resetTo index = .ok w' ∧ WInv w' (L.take index) :=
  Proofs.BitIO.bitWriter_resetTo h hi hle

/-- `change_bits(idx, v, n)` overwrites bits `[idx, idx+n)` (byte-aligned writer, asserted preconditions) -/
theorem bitWriter_changeBits {w : BitWriter} {L : List Bool} {idx v n : Nat} (h : WInv w L)
    (hal : L.length % 8 = 0) (hv : v < 2 ^ n) (hlt : idx + n < L.length)
    (hfirst : idx % 8 = 0 ∨ 8 - idx % 8 ≤ n) :
    ∃ w', w.changeBits idx v n = .ok w' ∧ WInv w' (L.take idx ++ bitsOfLE n v ++ L.drop (idx + n)) :=
  Proofs.BitIO.bitWriter_changeBits h hal hv hlt hfirst

/-- **the forward reader inverts the writer** -/
theorem reader_inverts_writer_fwd {fs : List (Nat × Nat)} {w' : BitWriter} {out : Array Nat}
    (hf : ∀ f ∈ fs, f.1 < 2 ^ f.2 ∧ 0 < f.2 ∧ f.2 ≤ 63)
    (hw : writeAll BitWriter.new fs = .ok w') (hd : w'.dump = .ok out) :
    runFwd (BitReader.new out) (fs.map (fun f => FwdOp.get f.2))
      = .ok (fs.map (·.1), { src := out, idx := 8 * out.size }) :=
  Proofs.BitIO.reader_inverts_writer_fwd hf hw hd

/-- **the reversed reader inverts the writer**: the fields come back in reverse order and exactly all
bits are consumed -/
theorem reader_inverts_writer_rev {fs : List (Nat × Nat)} {w' : BitWriter} {out : Array Nat}
    (hf : ∀ f ∈ fs, f.1 < 2 ^ f.2 ∧ f.2 ≤ 56)
    (hw : writeAll BitWriter.new fs = .ok w') (hd : w'.dump = .ok out) :
    ∃ r', runRev (BitReaderRev.new out) (fs.reverse.map (·.2)) = .ok (fs.reverse.map (·.1), r') ∧
      r'.bitsRemaining = 0 :=
  Proofs.BitIO.reader_inverts_writer_rev hf hw hd

/-! ## Part 2 — FSE tables -/

open Zstd.Proofs.FseFin in
/-- **`calc_baseline_and_numbits` = the RFC procedure** (`next = p + k`, `nbBits = AL − ⌊log₂ next⌋`,
`baseline = (next << nbBits) − 2^AL`, i.e. what `Spec.Fse.buildTable` computes from its `next`
counter) for every accuracy log `AL ≤ 9`, every probability `1 ≤ p ≤ 2^AL`, every state number `k < p`.
Finite table, evaluated by the kernel in `Zstd/Proofs/FseFin/*` (one module per AL / range). -/
theorem fse_closedForm_eq_rfc {al p k : Nat} (hal : al ≤ 9) (hp1 : 1 ≤ p) (hp : p ≤ 2 ^ al) (hk : k < p) :
    calcBaselineAndNumbits (2 ^ al) p k
      = .ok ((p + k) * 2 ^ (al - Spec.Fse.log2 (p + k)) - 2 ^ al, al - Spec.Fse.log2 (p + k)) :=
  closedForm hal hp1 hp hk

open Zstd.Proofs.FseFin in
/-- the spreading walk of the model (the Rust `next_position` + `while position >= negative_idx`)
visits each of the `neg` free cells exactly once, stays below `neg`, never runs out of fuel
(= the Rust loop terminates) and is back at position 0 at the end, for `5 ≤ AL ≤ 9`, every `neg ≤ 2^AL` -/
theorem fse_walk_permutation {al neg : Nat} (h5 : 5 ≤ al) (h9 : al ≤ 9) (hneg : neg ≤ 2 ^ al) :
    ∃ l, walk (2 ^ al) neg neg 0 = .ok (l, 0) ∧ l.length = neg ∧ l.Nodup ∧ ∀ p ∈ l, p < neg :=
  walk_perm h5 h9 hneg

open Zstd.Proofs.FseFin in
/-- **ranges partition, per symbol (function level)**: the `p` states of a symbol with probability `p`
have pairwise disjoint intervals `[baseline, baseline + 2^bits)` that lie inside and cover `[0, 2^AL)` -/
theorem fse_ranges_partition_fn {al p : Nat} (hal : al ≤ 9) (hp1 : 1 ≤ p) (hp : p ≤ 2 ^ al) :
    (∀ x, x < 2 ^ al → ∃ k, k < p ∧ (interval al p k).1 ≤ x ∧ x < (interval al p k).1 + (interval al p k).2) ∧
    (∀ k k', k < p → k' < p → k ≠ k' →
      (interval al p k).1 + (interval al p k).2 ≤ (interval al p k').1 ∨
      (interval al p k').1 + (interval al p k').2 ≤ (interval al p k).1) ∧
    (∀ k, k < p → (interval al p k).1 + (interval al p k).2 ≤ 2 ^ al) :=
  ⟨fun _ hx => interval_cover hal hp1 hp hx,
   fun _ _ hk hk' hne => interval_disjoint hal hp1 hp hk hk' hne,
   fun _ hk => (interval_within hal hp1 hp hk).1⟩

/-! ### predefined tables -/

export Zstd.Proofs.FseDecTable (toSpecEntry ValidDist mass nStates rank)

/-- the decoder table the model builds, as a Spec table (`none` on any error/fault) -/
def decTableOf (al : Nat) (probs : List Int) (maxSym : Nat) : Option Spec.Fse.Table :=
  match buildDecodingTableCore al probs.toArray maxSym with
  | .ok (dec, _) => some { accLog := al, entries := dec.map toSpecEntry }
  | .error _ => none

/-- `check_tables` of `fse/mod.rs` as a decidable predicate: every decoder entry has an encoder state
of its symbol with that index, the same baseline and bit count, and a consistent `last_index` -/
def tablesAgree (et : ETable) (dec : Array DEntry) : Bool :=
  dec.toList.zipIdx.all fun (e, i) =>
    match et.states[e.symbol]? with
    | none => false
    | some ss => ss.states.toList.any fun st =>
        st.index == i && st.baseline == e.baseLine && st.numBits == e.numBits &&
        st.lastIndex == st.baseline + 2 ^ st.numBits - 1

def encAgreesDec (e : Except Fault ETable) (al : Nat) (probs : List Int) (maxSym : Nat) : Bool :=
  match e, buildDecodingTableCore al probs.toArray maxSym with
  | .ok et, .ok (dec, _) => et.tableSize == 2 ^ al && tablesAgree et dec
  | _, _ => false

/-- **predefined distributions**: decoder-side arrays = encoder-side arrays = RFC 8878 (§3.1.1.3.2.2),
accuracy logs included -/
theorem predefined_dists_eq_rfc :
    Gen.llDistDec = Gen.llDistEnc ∧ Gen.llDistDec = Spec.llDefaultDist ∧
    Gen.mlDistDec = Gen.mlDistEnc ∧ Gen.mlDistDec = Spec.mlDefaultDist ∧
    Gen.ofDistDec = Gen.ofDistEnc ∧ Gen.ofDistDec = Spec.ofDefaultDist ∧
    Gen.llDefaultAccLog = Spec.llDefaultLog ∧ Gen.llDefaultLogEnc = Spec.llDefaultLog ∧
    Gen.mlDefaultAccLog = Spec.mlDefaultLog ∧ Gen.mlDefaultLogEnc = Spec.mlDefaultLog ∧
    Gen.ofDefaultAccLog = Spec.ofDefaultLog ∧ Gen.ofDefaultLogEnc = Spec.ofDefaultLog := by
  decide

/-- **predefined tables**: the three decoder tables the code builds (with the decoder's max symbols)
are the tables the Spec builds from the RFC's distributions, entry for entry -/
theorem predefined_eq_rfc :
    decTableOf Gen.llDefaultAccLog Gen.llDistDec Gen.maxLiteralLengthCode
      = Spec.Fse.buildTable Spec.llDefaultLog Spec.llDefaultDist ∧
    decTableOf Gen.mlDefaultAccLog Gen.mlDistDec Gen.maxMatchLengthCode
      = Spec.Fse.buildTable Spec.mlDefaultLog Spec.mlDefaultDist ∧
    decTableOf Gen.ofDefaultAccLog Gen.ofDistDec Gen.maxOffsetCode
      = Spec.Fse.buildTable Spec.ofDefaultLog Spec.ofDefaultDist ∧
    (Spec.Fse.buildTable Spec.llDefaultLog Spec.llDefaultDist).isSome ∧
    (Spec.Fse.buildTable Spec.mlDefaultLog Spec.mlDefaultDist).isSome ∧
    (Spec.Fse.buildTable Spec.ofDefaultLog Spec.ofDefaultDist).isSome := by
  decide +kernel

/-- the encoder's three default tables agree with the decoder's (`check_tables` on the real defaults) -/
theorem predefined_enc_eq_dec :
    encAgreesDec defaultLlTable Gen.llDefaultAccLog Gen.llDistDec Gen.maxLiteralLengthCode = true ∧
    encAgreesDec defaultMlTable Gen.mlDefaultAccLog Gen.mlDistDec Gen.maxMatchLengthCode = true ∧
    encAgreesDec defaultOfTable Gen.ofDefaultAccLog Gen.ofDistDec Gen.maxOffsetCode = true := by
  decide +kernel

/-- both builders use the same spreading step (a change of one side's constants breaks this) -/
theorem enc_dec_same_step : ∀ p size, nextPositionEnc p size = nextPosition p size := by
  intro p size; rfl

/-! ### every valid distribution -/

/-- **`fse_build_refines`: the decoder's table is the Spec's table, entry for entry (symbol, bit count,
baseline of every state), for every valid normalised distribution** (`ValidDist`: `5 ≤ AL ≤ 9`, at most
256 symbols, every probability `≥ −1`, mass `2^AL` — including "less than one" probabilities and zero
runs) and every `max_symbol` that admits it; in particular the model reaches no panic site and the Spec
accepts the distribution (its walk ends at position 0). -/
theorem fse_build_refines (al : Nat) (probs : List Int) (maxSymbol : Nat)
    (hv : ValidDist al probs) (hms : probs.length ≤ maxSymbol + 1) :
    ∃ dec ctr, buildDecodingTableCore al probs.toArray maxSymbol = .ok (dec, ctr) ∧
      Spec.Fse.buildTable al probs = some { accLog := al, entries := dec.map toSpecEntry } :=
  Proofs.FseDecTable.fse_build_refines al probs maxSymbol hv hms

/-- **`fse_ranges_partition`**: in the table built from any valid distribution, for every symbol with a
non-zero probability the intervals `[baseline, baseline + 2^bits)` of its states are pairwise disjoint
and cover `[0, 2^AL)` -/
theorem fse_ranges_partition (al : Nat) (probs : List Int) (maxSymbol : Nat)
    (hv : ValidDist al probs) (hms : probs.length ≤ maxSymbol + 1)
    (dec : Array DEntry) (ctr : Array Nat)
    (hb : buildDecodingTableCore al probs.toArray maxSymbol = .ok (dec, ctr)) :
    ∀ s, s < probs.length → probs.getD s 0 ≠ 0 →
      (∀ x, x < 2 ^ al → ∃ i, i < 2 ^ al ∧ (dec.getD i {}).symbol = s ∧
        (dec.getD i {}).baseLine ≤ x ∧ x < (dec.getD i {}).baseLine + 2 ^ (dec.getD i {}).numBits) ∧
      (∀ i j, i < 2 ^ al → j < 2 ^ al → i ≠ j → (dec.getD i {}).symbol = s → (dec.getD j {}).symbol = s →
        (dec.getD i {}).baseLine + 2 ^ (dec.getD i {}).numBits ≤ (dec.getD j {}).baseLine ∨
        (dec.getD j {}).baseLine + 2 ^ (dec.getD j {}).numBits ≤ (dec.getD i {}).baseLine) :=
  Proofs.FseDecTable.fse_ranges_partition al probs maxSymbol hv hms dec ctr hb

/-- the built table in closed form: size, every cell's symbol has a non-zero probability, symbol `s` owns
exactly `nStates s` cells, and the `k`-th cell of a symbol (in table order) carries the RFC entry
`next = nStates + k` -/
theorem fse_dec_table_char (al : Nat) (probs : List Int) (maxSymbol : Nat)
    (hv : ValidDist al probs) (hms : probs.length ≤ maxSymbol + 1)
    (dec : Array DEntry) (ctr : Array Nat)
    (hb : buildDecodingTableCore al probs.toArray maxSymbol = .ok (dec, ctr)) :
    dec.size = 2 ^ al ∧
    (∀ i, i < 2 ^ al → (dec.getD i {}).symbol < probs.length ∧ probs.getD (dec.getD i {}).symbol 0 ≠ 0) ∧
    (∀ s, s < probs.length → (dec.toList.filter (·.symbol = s)).length = nStates probs s) ∧
    (∀ i, i < 2 ^ al → ((dec.getD i {}).baseLine, (dec.getD i {}).numBits)
        = Proofs.FseFin.rfcEntry al (nStates probs (dec.getD i {}).symbol) (rank dec i)) ∧
    (∀ i, i < 2 ^ al → rank dec i < nStates probs (dec.getD i {}).symbol) :=
  Proofs.FseDecTable.dec_table_char al probs maxSymbol hv hms dec ctr hb

/-- **`fse_readProbabilities_refines`: `read_probabilities` = `Spec.Fse.readDescription`** (RFC 8878 §4.1.1)
in the direction Spec ok ⇒ Model ok with the same accuracy log, probabilities and byte count.  The
leniencies of the code relative to the Spec are all differences of form (list at the top of
`Zstd/Proofs/FseReadDesc.lean`): the converse `fse_readProbabilities_complete` holds without extra
hypotheses, so the real reader accepts exactly the descriptions the Spec accepts. -/
theorem fse_readProbabilities_refines (src : Array Nat) (hb : Bytes src.toList) (t : DTable)
    (maxLog maxSymbol : Nat) (hms : t.maxSymbol = maxSymbol)
    {al : Nat} {probs : List Int} {used : Nat}
    (hs : Spec.Fse.readDescription src.toList maxLog maxSymbol = some (al, probs, used)) :
    t.readProbabilities src maxLog = ({ t with probs := probs.toArray, accuracyLog := al }, .ok used) :=
  Proofs.FseReadDesc.fse_readProbabilities_refines src hb t maxLog maxSymbol hms hs

theorem fse_readProbabilities_complete (src : Array Nat) (hb : Bytes src.toList) (t : DTable)
    (maxLog : Nat) {t' : DTable} {used : Nat}
    (hm : t.readProbabilities src maxLog = (t', .ok used)) :
    Spec.Fse.readDescription src.toList maxLog t.maxSymbol = some (t'.accuracyLog, t'.probs.toList, used) :=
  Proofs.FseReadDesc.fse_readProbabilities_complete src hb t maxLog hm

/-- the encoder-side builder additionally needs one cell that is not a "less than one" cell: with `2^AL`
entries equal to −1 (a valid distribution that the decoder accepts) `build_table_from_probabilities`
underflows `negative_idx -= 1` (debug-build panic; `Proofs.FseEncTable` has the `example`).  The encoder
only ever builds tables from the normaliser (no −1 at all) and from the three predefined distributions. -/
def EncBuildable (al : Nat) (probs : List Int) : Prop :=
  ValidDist al probs ∧ (probs.filter (· = -1)).length < 2 ^ al

/-- **`enc_table_eq_dec_table`** (the unit test `check_tables`, for EVERY valid distribution): both builders
succeed, and for every index the encoder has a state of the decoder entry's symbol with that index, the
same baseline and bit count (and `last_index = baseline + 2^bits − 1`); conversely every encoder state
is such a decoder entry; the encoder records the distribution itself (`probability`) and has exactly
`|p|` states per symbol. -/
theorem enc_table_eq_dec_table {al : Nat} {probs : List Int} {maxSymbol : Nat}
    (hb : EncBuildable al probs) (hms : probs.length ≤ maxSymbol + 1) :
    ∃ et dec ctr, buildTableFromProbabilities probs al = .ok et ∧
      buildDecodingTableCore al probs.toArray maxSymbol = .ok (dec, ctr) ∧
      et.tableSize = 2 ^ al ∧ et.states.size = 256 ∧ dec.size = 2 ^ al ∧
      (∀ i, i < 2 ^ al → ∃ st ∈ (et.states.getD (dec.getD i {}).symbol {}).states.toList,
          st.index = i ∧ st.baseline = (dec.getD i {}).baseLine ∧ st.numBits = (dec.getD i {}).numBits ∧
          st.lastIndex = st.baseline + 2 ^ st.numBits - 1) ∧
      (∀ s, ∀ st ∈ (et.states.getD s {}).states.toList,
          st.index < 2 ^ al ∧ (dec.getD st.index {}).symbol = s ∧
          st.baseline = (dec.getD st.index {}).baseLine ∧ st.numBits = (dec.getD st.index {}).numBits ∧
          st.lastIndex = st.baseline + 2 ^ st.numBits - 1) ∧
      (∀ s, (et.states.getD s {}).probability = probs.getD s 0) ∧
      (∀ s, (et.states.getD s {}).states.size = if probs.getD s 0 = -1 then 1 else (probs.getD s 0).toNat) :=
  Proofs.FseEncTable.enc_table_eq_dec_table hb hms

/-- **`enc_next_state_total`**: the `.unwrap()` in `SymbolStates::get` cannot fail — for every symbol with a
non-zero probability and every table index the search (which starts at `idx·len/size`) finds a state
that contains the index; the search start never skips it -/
theorem enc_next_state_total {al : Nat} {probs : List Int} (hb : EncBuildable al probs) {et : ETable}
    (het : buildTableFromProbabilities probs al = .ok et) {s idx : Nat}
    (hs : probs.getD s 0 ≠ 0) (hidx : idx < 2 ^ al) :
    ∃ st, et.nextState s idx = .ok st ∧ st.contains idx = true ∧ st ∈ (et.states.getD s {}).states.toList :=
  Proofs.FseEncTable.enc_next_state_total hb het hs hidx

/-- `start_state` never indexes out of bounds for an occurring symbol; it is the state with baseline 0 -/
theorem enc_start_state_total {al : Nat} {probs : List Int} (hb : EncBuildable al probs) {et : ETable}
    (het : buildTableFromProbabilities probs al = .ok et) {s : Nat} (hs : probs.getD s 0 ≠ 0) :
    ∃ st, et.startState s = .ok st ∧ st.baseline = 0 :=
  let ⟨st, h1, _, h3, _⟩ := Proofs.FseEncTable.enc_start_state hb het hs
  ⟨st, h1, h3⟩

/-- the three predefined distributions are buildable on the encoder side -/
theorem predefined_buildable :
    EncBuildable Gen.llDefaultLogEnc Gen.llDistEnc ∧ EncBuildable Gen.mlDefaultLogEnc Gen.mlDistEnc ∧
    EncBuildable Gen.ofDefaultLogEnc Gen.ofDistEnc :=
  ⟨Proofs.FseEncTable.ll_default_buildable, Proofs.FseEncTable.ml_default_buildable,
   Proofs.FseEncTable.of_default_buildable⟩

/-! ### table descriptions -/

open Zstd.Proofs.FseTableDesc in
/-- **`write_read_table`**: `read_probabilities (write_table d) = Ok(d)` with the exact byte count, for every
valid distribution whose last symbol has a non-zero probability, whatever follows the description
(`rest`) — with ONE side condition: if the last probability is −1, something must follow the description.
`Carries et al probs` is what `enc_table_eq_dec_table` establishes for the built encoder table. -/
theorem write_read_table_partial (et : ETable) (al : Nat) (probs : List Int)
    (hal5 : 5 ≤ al) (hal : al ≤ 20)
    (hlen : probs.length ≤ 256) (hge : ∀ p ∈ probs, -1 ≤ p) (hmass : mass probs = 2 ^ al)
    (hlast : probs.getLast? ≠ some 0) (hc : Carries et al probs)
    {w : BitWriter} {L : List Bool} (hw : WInv w L) (hL : L.length % 8 = 0) :
    ∃ w' D, et.writeTable w = .ok w' ∧ WInv w' (L ++ D) ∧ D.length % 8 = 0 ∧
      ∀ (src : Array Nat) (rest : List Bool) (t : DTable) (maxLog : Nat),
        Bytes src.toList → bitsLE src.toList = D ++ rest → al ≤ maxLog → probs.length ≤ t.maxSymbol + 1 →
        (probs.getLast? = some (-1) → rest ≠ []) →
        t.readProbabilities src maxLog
          = ({ t with probs := probs.toArray, accuracyLog := al }, .ok (D.length / 8)) :=
  Proofs.FseTableDesc.write_read_table et al probs hal5 hal hlen hge hmass hlast hc hw hL

/-- the statement without the side condition is FALSE for the code as it is: the valid distribution
`[1, 30, −1]` (AL 5) is described in exactly two bytes `20 3e`; `read_probabilities` on those two bytes
alone answers `NotEnoughRemainingBits{requested 2, remaining 1}` (the reader always fetches the long form
of a value and gives one bit back), with any following byte it succeeds.  Not a violation of the
property: inside a frame a description is always followed by at least one byte, and the compressor's
normaliser never emits −1 (`write_read_table_normalised`). -/
theorem write_read_table_full_false : ¬ Proofs.FseTableDesc.write_read_table_full :=
  Proofs.FseTableDesc.write_read_table_full_false

open Zstd.Proofs.FseTableDesc in
/-- for what the compressor writes (normaliser output: no −1 anywhere) there is no side condition -/
theorem write_read_table_normalised (et : ETable) (al : Nat) (probs : List Int)
    (hal5 : 5 ≤ al) (hal : al ≤ 20)
    (hlen : probs.length ≤ 256) (hge : ∀ p ∈ probs, 0 ≤ p) (hmass : mass probs = 2 ^ al)
    (hlast : probs.getLast? ≠ some 0) (hc : Carries et al probs)
    {w : BitWriter} {L : List Bool} (hw : WInv w L) (hL : L.length % 8 = 0) :
    ∃ w' D, et.writeTable w = .ok w' ∧ WInv w' (L ++ D) ∧ D.length % 8 = 0 ∧
      ∀ (src : Array Nat) (rest : List Bool) (t : DTable) (maxLog : Nat),
        Bytes src.toList → bitsLE src.toList = D ++ rest → al ≤ maxLog → probs.length ≤ t.maxSymbol + 1 →
        t.readProbabilities src maxLog
          = ({ t with probs := probs.toArray, accuracyLog := al }, .ok (D.length / 8)) := by
  obtain ⟨w', D, h1, h2, h3, h4⟩ := Proofs.FseTableDesc.write_read_table et al probs hal5 hal hlen
    (fun p hp => by have := hge p hp; omega) hmass hlast hc hw hL
  refine ⟨w', D, h1, h2, h3, ?_⟩
  intro src rest t maxLog hb hbits hml hms
  refine h4 src rest t maxLog hb hbits hml hms ?_
  intro hl
  have := hge (-1) (List.mem_of_getLast? hl)
  omega

/-- non-vacuity: the predefined offset distribution is a valid distribution -/
example : ValidDist 5 Gen.ofDistDec := by
  refine ⟨by decide, by decide, by decide, by decide, by decide⟩

/-! ## Part 3 — the normaliser (production parameters) -/

open Zstd.Proofs.FseNormalize in
/-- **`normalize_valid`, with exactly the exclusion of finding F4.**  Every histogram with at least two
entries (`build_table_from_data` passes `counts[..=max_symbol]`, so this is "some symbol other than 0
occurs"), at least one occurring symbol and not more entries than `2^maxLog`: the normaliser reaches no
panic site and returns `(probs, AL)` with `5 ≤ AL ≤ maxLog`, `Σ probs = 2^AL`, all `probs ≥ 0`, every
occurring symbol `≥ 1`, and with zero-bit avoidance on every `probs ≤ 2^(AL−1)`.
Production: `maxLog` 9/9/8 for LL/ML/OF (36/53/32 symbols) and 6 for Huffman weights (≤ 13 symbols),
see `normalize_valid_production`. -/
theorem normalize_valid_partial (counts : List Nat) (maxLog : Nat) (avoid0 : Bool)
    (hlog : Gen.normLogMin ≤ maxLog)
    (hlen2 : 2 ≤ counts.length) (hlen : counts.length ≤ 256) (hlen' : counts.length ≤ 2 ^ maxLog)
    (hpos : ∃ c ∈ counts, c > 0) :
    ∃ probs al, normalize counts maxLog avoid0 = .ok (probs, al) ∧ NormOk counts maxLog avoid0 probs al :=
  Proofs.FseNormalize.normalize_valid_partial counts maxLog avoid0 hlog hlen2 hlen hlen' hpos

/-- the full-strength statement (no exclusion) — FALSE for the code as it is: `normalize_valid_full_false` -/
def normalize_valid_full : Prop :=
  ∀ (counts : List Nat) (maxLog : Nat) (avoid0 : Bool), Gen.normLogMin ≤ maxLog →
    1 ≤ counts.length → counts.length ≤ 256 → counts.length ≤ 2 ^ maxLog → (∃ c ∈ counts, c > 0) →
    ∃ probs al, normalize counts maxLog avoid0 = .ok (probs, al) ∧
      Proofs.FseNormalize.NormOk counts maxLog avoid0 probs al

/-- **finding F4**: only symbol 0 occurs (all literal lengths 0, or all match lengths 3) and zero-bit
avoidance is on (production): the model reaches the `unwrap` of `fse_encoder.rs:304`, where the real
code panics (reproduced on the real code; fix in `fixes/F4.diff`) -/
theorem normalise_panics_on_single_zero (n maxLog : Nat) (hn : 0 < n) (hlog : Gen.normLogMin ≤ maxLog) :
    normalize [n] maxLog true = .error (.unwrap "fse_encoder.rs:304:build_table_from_counts") :=
  Proofs.FseNormalize.normalize_single_zero_faults n maxLog hn hlog

theorem normalize_valid_full_false : ¬ normalize_valid_full := by
  intro h
  obtain ⟨probs, al, hok, _⟩ := h [1] 9 true (by decide) (by decide) (by decide) (by decide) ⟨1, by simp, by decide⟩
  rw [normalise_panics_on_single_zero 1 9 (by decide) (by decide)] at hok
  cases hok

open Zstd.Proofs.FseNormalize in
/-- the production parameter sets satisfy the hypotheses of `normalize_valid_partial` -/
theorem normalize_valid_production (counts : List Nat) (maxLog : Nat)
    (hprod : (maxLog = Gen.llEncMaxLog ∧ counts.length ≤ Gen.maxLiteralLengthCode + 1) ∨
             (maxLog = Gen.mlEncMaxLog ∧ counts.length ≤ Gen.maxMatchLengthCode + 1) ∨
             (maxLog = Gen.ofEncMaxLog ∧ counts.length ≤ Gen.maxOffsetCode + 1) ∨
             (maxLog = Gen.hufWeightsEncMaxLog ∧ counts.length ≤ 13))
    (hlen2 : 2 ≤ counts.length) (hpos : ∃ c ∈ counts, c > 0) :
    ∃ probs al, normalize counts maxLog Gen.seqEncAvoidZeroBits = .ok (probs, al) ∧
      NormOk counts maxLog Gen.seqEncAvoidZeroBits probs al := by
  have h : Gen.normLogMin ≤ maxLog ∧ counts.length ≤ 256 ∧ counts.length ≤ 2 ^ maxLog := by
    simp only [Gen.llEncMaxLog, Gen.mlEncMaxLog, Gen.ofEncMaxLog, Gen.hufWeightsEncMaxLog,
      Gen.maxLiteralLengthCode, Gen.maxMatchLengthCode, Gen.maxOffsetCode, Gen.normLogMin] at hprod ⊢
    rcases hprod with ⟨rfl, h⟩ | ⟨rfl, h⟩ | ⟨rfl, h⟩ | ⟨rfl, h⟩ <;> omega
  exact Proofs.FseNormalize.normalize_valid_partial counts maxLog _ h.1 hlen2 h.2.1 h.2.2 hpos

/-- **the compressor never asks for an accuracy log the decoder would reject**: the `max_log` arguments of the three
`choose_table` calls in `compress_block` and of the Huffman-weight coder (extracted from the source on every run) are
within the maxima the decoder enforces (`LL_MAX_LOG`/`ML_MAX_LOG`/`OF_MAX_LOG`, 6 for the weights) — a table description
with a larger `Accuracy_Log` is written without complaint and rejected by every decoder (`AccLogTooBig`) -/
theorem enc_max_logs_within_dec :
    Gen.llEncMaxLog ≤ Gen.llMaxLog ∧ Gen.mlEncMaxLog ≤ Gen.mlMaxLog ∧ Gen.ofEncMaxLog ≤ Gen.ofMaxLog ∧
      Gen.hufWeightsEncMaxLog ≤ Gen.hufWeightsDecMaxLog := by decide

/-- the Huffman-weight coder uses the same avoidance flag -/
theorem huf_weights_same_avoidance : Gen.hufWeightsEncAvoidZeroBits = Gen.seqEncAvoidZeroBits := by decide

/-! ## Part 4 — streams -/

open Zstd.Proofs.FseStream in
/-- **`encode_decode_single`, stream part** (for any encoder/decoder table pair that is `Coupled`, which
`enc_table_eq_dec_table`/`enc_next_state_total` establish for the tables built from one valid
distribution): `FSEEncoder::encode`'s stream, written after any byte-aligned prefix, is decoded by the
single-state loop to exactly the input, and `bits_remaining = 0` at the end. -/
theorem encode_decode_single_stream {et : ETable} {dt : DTable} {al : Nat} {usable : Nat → Prop}
    (hc : Coupled et dt al usable) (data : List Nat) (hne : data ≠ [])
    (hu : ∀ x ∈ data, usable x) {w : BitWriter} {L : List Bool} (hw : WInv w L) :
    ∃ w' S, encodeStream et w data = .ok w' ∧ WInv w' (L ++ S) ∧ (L.length + S.length) % 8 = 0 ∧
      ∀ (src : Array Nat), Bytes src.toList → bitsLE src.toList = S →
        ∃ br br', skipEndMark (BitReaderRev.new src) = .ok (some br) ∧
          decodeStream dt data.length br = .ok (data, br') ∧ br'.bitsRemaining = 0 :=
  encode_decode_stream hc data hne hu hw


open Zstd.Proofs.FseStream Zstd.Proofs.FseStreamInter in
/-- **`encode_decode_interleaved`, stream part** (`Coupled2` = `Coupled` + the decoder table has `2^AL`
entries + zero-bit avoidance for start states, which the production flag guarantees): the two-state
encoder's stream for every symbol string of length 4 … 257 is decoded by the two-state loop of the
Huffman weight reader to exactly that string; the loop stops by over-reading (`bits_remaining ≤ −1`,
precisely `−numBits` of the start state of the last-but-one symbol), i.e. all bits of the stream had been
consumed.  (258 or more symbols: the encoder still accepts, the reader answers `TooManyWeights` —
`Proofs.FseStreamInter.encode_decode_interleaved_stream_tooMany`; without zero-bit avoidance the loop
silently appends garbage symbols: evidence of engine `fse`, stat `dec2_mismatch_without_avoid0`.) -/
theorem encode_decode_interleaved_stream {et : ETable} {dt : DTable} {al : Nat} {usable : Nat → Prop}
    (hc : Coupled2 et dt al usable) (data : List Nat)
    (h4 : 4 ≤ data.length) (hlen : data.length ≤ 257) (hu : ∀ x ∈ data, usable x)
    {w : BitWriter} {L : List Bool} (hw : WInv w L) :
    ∃ w' S, encodeInterleavedStream et w data = .ok w' ∧ WInv w' (L ++ S) ∧ (L.length + S.length) % 8 = 0 ∧
      ∀ (src : Array Nat), Bytes src.toList → bitsLE src.toList = S →
        ∃ br br', skipEndMark (BitReaderRev.new src) = .ok (some br) ∧
          decodeInterleavedStream dt br = .ok (some data, br') ∧ br'.bitsRemaining ≤ -1 :=
  Proofs.FseStreamInter.encode_decode_interleaved_stream hc data h4 hlen hu hw


open Zstd.Proofs.FseStream Zstd.Proofs.FseCoupled in
/-- **`encode_decode_single`**: for EVERY encoder-buildable valid distribution, the tables the two builders
produce from it, every non-empty symbol string over symbols with a non-zero probability: the stream
`FSEEncoder::encode` writes (after any byte-aligned prefix such as the table description) decodes to
exactly that string and `bits_remaining = 0` at the end.  (`dt` is any decoder table object that holds
the built entries and accuracy log — `fse_build_refines`/`write_read_table_partial` say that this is what
`build_decoder` produces from the description.) -/
theorem encode_decode_single {al : Nat} {probs : List Int} {maxSymbol : Nat} {et : ETable}
    {dec : Array DEntry} {ctr : Array Nat} {dt : DTable}
    (hb : EncBuildable al probs) (hms : probs.length ≤ maxSymbol + 1)
    (het : buildTableFromProbabilities probs al = .ok et)
    (hdec : buildDecodingTableCore al probs.toArray maxSymbol = .ok (dec, ctr))
    (hdt : dt.decode = dec) (hal : dt.accuracyLog = al)
    (data : List Nat) (hne : data ≠ []) (hu : ∀ x ∈ data, probs.getD x 0 ≠ 0)
    {w : BitWriter} {L : List Bool} (hw : WInv w L) :
    ∃ w' S, encodeStream et w data = .ok w' ∧ WInv w' (L ++ S) ∧ (L.length + S.length) % 8 = 0 ∧
      ∀ (src : Array Nat), Bytes src.toList → bitsLE src.toList = S →
        ∃ br br', skipEndMark (BitReaderRev.new src) = .ok (some br) ∧
          decodeStream dt data.length br = .ok (data, br') ∧ br'.bitsRemaining = 0 :=
  encode_decode_stream (coupled_of_buildable hb hms het hdec hdt hal) data hne hu hw

open Zstd.Proofs.FseStream Zstd.Proofs.FseStreamInter Zstd.Proofs.FseCoupled in
/-- **`encode_decode_interleaved`**: the same for the two-state coder, for distributions with zero-bit
avoidance (every probability `≤ 2^(AL−1)`, what `normalize_valid_partial` guarantees with the production
flag) and strings of 4 … 257 symbols: decoded exactly, and the loop ends by over-reading
(`bits_remaining ≤ −1`) right after all bits were consumed. -/
theorem encode_decode_interleaved {al : Nat} {probs : List Int} {maxSymbol : Nat} {et : ETable}
    {dec : Array DEntry} {ctr : Array Nat} {dt : DTable}
    (hb : EncBuildable al probs) (hms : probs.length ≤ maxSymbol + 1)
    (hav : ∀ p ∈ probs, p ≤ ((2 ^ (al - 1) : Nat) : Int))
    (het : buildTableFromProbabilities probs al = .ok et)
    (hdec : buildDecodingTableCore al probs.toArray maxSymbol = .ok (dec, ctr))
    (hdt : dt.decode = dec) (hal : dt.accuracyLog = al)
    (data : List Nat) (h4 : 4 ≤ data.length) (hlen : data.length ≤ 257) (hu : ∀ x ∈ data, probs.getD x 0 ≠ 0)
    {w : BitWriter} {L : List Bool} (hw : WInv w L) :
    ∃ w' S, encodeInterleavedStream et w data = .ok w' ∧ WInv w' (L ++ S) ∧ (L.length + S.length) % 8 = 0 ∧
      ∀ (src : Array Nat), Bytes src.toList → bitsLE src.toList = S →
        ∃ br br', skipEndMark (BitReaderRev.new src) = .ok (some br) ∧
          decodeInterleavedStream dt br = .ok (some data, br') ∧ br'.bitsRemaining ≤ -1 :=
  Proofs.FseStreamInter.encode_decode_interleaved_stream
    (coupled2_of_buildable hb hms hav het hdec hdt hal) data h4 hlen hu hw

/-- **`encode_decode_single`, end to end** (proved: `encode_decode_single_full_holds`).  For every
encoder-buildable distribution (`EncBuildable`: `5 ≤ al ≤ 9`, at most 256 symbols, every probability `≥ -1`,
mass `2^al`, fewer than `2^al` "less than one" symbols) whose last probability is not `0` (a description
cannot express trailing zeros), every `maxLog ≥ al`, and every non-empty symbol string over symbols with a
non-zero probability: `FSEEncoder::encode` into a fresh writer succeeds and `dump` yields bytes `out`;
`FSETable::build_decoder(out, maxLog)` on a fresh table (`max_symbol = 255`) succeeds and returns the byte
count of the description; the reversed reader over the remaining bytes finds the end mark, the single-state
decode loop returns exactly the input, and `bits_remaining = 0` at the end.

Composition (`Zstd/Proofs/FseEndToEnd.lean`): `encode` = `write_table` followed by the stream;
`build_decoder` on the resulting bytes = `read_probabilities` (`write_read_table`: same probabilities, byte
count `= |description| / 8`; its side condition "something follows a final `-1`" holds because the stream is
never empty — it contains the end mark) then `build_decoding_table` (`enc_table_eq_dec_table` /
`coupled_of_buildable`: the coupled table); `bitsLE (bytes.drop n) = (bitsLE bytes).drop (8 n)`, so the
reversed reader over the remaining bytes sees exactly the stream bits (`encode_decode_stream`). -/
def encode_decode_single_full : Prop :=
  ∀ (al : Nat) (probs : List Int) (maxLog : Nat) (et : ETable), EncBuildable al probs → al ≤ maxLog →
    probs.getLast? ≠ some 0 → buildTableFromProbabilities probs al = .ok et →
    ∀ (data : List Nat), data ≠ [] → (∀ x ∈ data, probs.getD x 0 ≠ 0) →
    ∃ w out, encode et BitWriter.new data = .ok w ∧ w.dump = .ok out ∧
      ∃ t used br br', (DTable.new 255).buildDecoder out maxLog = (t, .ok used) ∧
        skipEndMark (BitReaderRev.new (out.extract used out.size)) = .ok (some br) ∧
        decodeStream t data.length br = .ok (data, br') ∧ br'.bitsRemaining = 0

theorem encode_decode_single_full_holds : encode_decode_single_full :=
  fun _ _ _ _ hb hml hlast het data hne hu =>
    Proofs.FseEndToEnd.encode_decode_single_full hb hml hlast het data hne hu


/-! ## Part 5 — the sequences section (three tables, extra bits) -/

open Zstd.Model Zstd.Model.Enc Zstd.Proofs.SeqSection in
/-- **`encode_decode_sequences`.**  For every non-empty list of sequences with in-range values (literal
length ≤ 131071, 3 ≤ match length ≤ 131074, 1 ≤ offset value < 2^32; at most 98 047 of them): the three
code mappings succeed, `build_table_from_data(codes, 9/9/8, true)` builds the three tables, and the
bytes the compressor writes for the section — `encode_seqnum`, the modes byte, the LL / OF / ML table
descriptions (`write_table`) and the three-state bitstream of `encode_sequences` (extra bits in LL, ML,
OF order, state transitions OF, ML, LL, final states ML, OF, LL, end mark) — are decoded by the STRICT
`Spec.decodeSequences` (RFC 8878 §3.1.1.3.2: `readDescription`/`buildTable` per table, states
initialised LL, OF, ML, extra bits read OF, ML, LL, updates LL, ML, OF, stream exactly consumed) to
exactly those sequences, with the three tables as the tables now in force.  No fault on the way. -/
theorem encode_decode_sequences (rseqs : List RSeq) (hne : rseqs ≠ []) (hn : rseqs.length ≤ 0xFFFF + 0x7F00)
    (hr : ∀ r ∈ rseqs, InRange r) (e : Spec.Entropy) :
    ∃ lls mls ofs cnt body LL OF ML,
      mapMExcept (fun s : RSeq => encodeLL s.ll) rseqs = .ok lls ∧
      mapMExcept (fun s : RSeq => encodeML s.ml) rseqs = .ok mls ∧
      mapMExcept (fun s : RSeq => encodeOffset s.of) rseqs = .ok ofs ∧
      encodeSeqnum rseqs.length = .ok cnt ∧
      encodeSeqSectionReal ((lls.zip (mls.zip ofs)).map (fun (a, b, c) => CodedSeq.mk a b c)) = .ok body ∧
      Bytes (cnt ++ body) ∧
      Spec.decodeSequences (cnt ++ body) e
        = some (rseqs.map specSeq, { e with ll := some LL, of := some OF, ml := some ML }) :=
  Proofs.SeqSection.encode_decode_sequences rseqs hne hn hr e

open Zstd.Model Zstd.Model.Enc Zstd.Proofs.SeqSection in
/-- **the same against the FAITHFUL mirror of the real decoder** (`Blk.decodeSequences`,
Model/BlockDecode.lean: `maybe_update_fse_tables` with `build_decoder` on the real `FSETable` objects,
`BitReaderReversed`, the padding loop, `init_state` ×3, `get_bits_triple`, `update_state`s, the
`bits_remaining` checks): whatever the three table objects of the scratch held before (only their
`max_symbol`s matter), the section is decoded to exactly the sequences, `bits_remaining = 0` at the end,
no error or panic site of the decoder is reached, and the scratch afterwards holds the three new tables
with all RLE options cleared (so the theorem applies block after block). -/
theorem encode_decode_sequences_blk (rseqs : List RSeq) (hne : rseqs ≠ []) (hr : ∀ r ∈ rseqs, InRange r)
    (s : Blk.FseScratch)
    (hs : s.literalLengths.maxSymbol = Gen.maxLiteralLengthCode ∧ s.offsets.maxSymbol = Gen.maxOffsetCode ∧
          s.matchLengths.maxSymbol = Gen.maxMatchLengthCode) :
    ∃ lls mls ofs rest dtL dtO dtM,
      mapMExcept (fun s : RSeq => encodeLL s.ll) rseqs = .ok lls ∧
      mapMExcept (fun s : RSeq => encodeML s.ml) rseqs = .ok mls ∧
      mapMExcept (fun s : RSeq => encodeOffset s.of) rseqs = .ok ofs ∧
      encodeSeqSectionReal ((lls.zip (mls.zip ofs)).map (fun (a, b, c) => CodedSeq.mk a b c)) = .ok (168 :: rest) ∧
      Bytes rest ∧
      (dtL.maxSymbol = Gen.maxLiteralLengthCode ∧ dtO.maxSymbol = Gen.maxOffsetCode ∧
        dtM.maxSymbol = Gen.maxMatchLengthCode) ∧
      Blk.decodeSequences rseqs.length (some 168) rest s
        = (Proofs.SeqSectionBlk.installed dtL dtO dtM, .ok (rseqs.map specSeq)) :=
  Proofs.SeqSectionBlk.encode_decode_sequences_blk_rust rseqs hne hr s hs

open Zstd.Model Zstd.Model.Enc in
/-- non-vacuity: two sequences, evaluated by the kernel through the real coders and the strict Spec -/
example :
    (match encodeSeqnum 2, encodeSeqSectionReal [⟨(3, 0, 0), (9, 0, 0), (4, 3, 4)⟩, ⟨(16, 1, 1), (0, 0, 0), (10, 77, 10)⟩] with
     | .ok cnt, .ok body => (Spec.decodeSequences (cnt ++ body) {}).map (·.1)
     | _, _ => none) = some [⟨3, 12, 19⟩, ⟨17, 3, 1101⟩] := by
  decide +kernel

/-! ### non-vacuity -/

example : normalize [0, 5] 9 true = .ok ([16, 16], 5) := by decide
example : normalize [3, 1000, 2] 9 true = .ok ([15, 16, 1], 5) := by decide
example : ∃ l, Zstd.Proofs.FseFin.walk 32 27 27 0 = .ok (l, 0) ∧ l.length = 27 :=
  let ⟨l, h, hl, _⟩ := fse_walk_permutation (al := 5) (neg := 27) (by decide) (by decide) (by decide)
  ⟨l, h, hl⟩
example : calcBaselineAndNumbits 64 3 1 = .ok (0, 4) := by decide

end Zstd.Props.C12
