import Zstd.Proofs.FrameDecoderStandIn
import Zstd.Proofs.DictParse
import Zstd.Proofs.FrameFaithful
import Zstd.Props.C15
/-
C08 — Content checksums are computed over exactly the delivered bytes (decoder side).

Property theorems only; helper lemmas live in `Zstd/Proofs/FrameDecoder*.lean`.  The model's hasher
state is "the bytes fed so far" (`DBuf.hashed`); `Decoder.calculatedChecksum` is
`Spec.Xxh64.checksum32` of it.  `applyDrain d op` runs a drain operation (collect | read n |
collect_to_writer with ANY sink script and ANY ring split) and returns the bytes handed to the caller;
`applyOp`/`runOps` run arbitrary interleavings of drain operations, `decode_blocks`, `decode_from_to`
and `StreamingDecoder::read`, each with an arbitrary source argument.  No bound on anything.
-/
set_option linter.unusedSectionVars false
namespace Zstd.Props.C08
open Zstd Zstd.Model

variable {σ : Type} [BlockDec σ] [BlockContract σ]

/-- every drain path feeds the hasher exactly the bytes it hands out — for every state, every
operation, every sink behaviour and every ring split (`hash skipped on the second ring segment` or
`hash of bytes the sink did not accept` would break this) -/
theorem drain_hashes_delivered (d : Decoder σ) (op : DrainOp) :
    (applyDrain d op).1.hashed = d.hashed ++ (applyDrain d op).2 :=
  (applyDrain_dstep d op).hashed

/-- … and those bytes are the front of the buffer, the rest stays: nothing lost, nothing duplicated -/
theorem drain_delivers_front (d : Decoder σ) (op : DrainOp) :
    (applyDrain d op).2 ++ (applyDrain d op).1.content = d.content := by
  rcases applyDrain_take d op with ⟨hn, he⟩ | ⟨st, k, hs, hk, he⟩
  · rw [he]; simp
  · rw [he]; simp only [Decoder.content, hs]; exact DBuf.take_partition st.buf k

/-- decoding one block never touches the hasher (on any path, errors included) -/
theorem block_does_not_hash (st : FState σ) (s : Src) : (decodeOneBlock st s).1.buf.hashed = st.buf.hashed := by
  obtain ⟨x, hx, -⟩ := (decodeOneBlock_step st s).appends
  exact hx.hashed

/-- `decode_blocks` never touches the hasher, for every strategy and source -/
theorem blocks_do_not_hash (d : Decoder σ) (s : Src) (strat : Strategy) :
    (d.decodeBlocks s strat).1.hashed = d.hashed := by
  simpa using (Decoder.decodeBlocks_dstep d s strat).hashed

/-- `reset`/`init` either fails without touching the decoder or re-seeds the hasher -/
theorem reset_clears_hash (d : Decoder σ) (s : Src) :
    (∃ e, d.reset s = (d, .err e)) ∨ (d.reset s).1.hashed = #[] := by
  rcases Decoder.reset_cases d s with h | ⟨st, o, h, hr⟩
  · exact Or.inl h
  · right; rw [h]; exact (resetCore_replace _ _ _ _ _ hr).2.2.2.1

theorem reset_ok_clears_hash (d d' : Decoder σ) (s rest : Src) (h : d.reset s = (d', .ok rest)) :
    d'.hashed = #[] := by
  rcases reset_clears_hash d s with ⟨e, he⟩ | h2
  · rw [he] at h; cases h
  · rw [h] at h2; exact h2

/-- `decode_from_to` (incl. its implicit `init` on a fresh decoder and the deferred-checksum call):
hasher advanced by exactly the bytes written to the target -/
theorem decode_from_to_hashes_delivered (d : Decoder σ) (s : Src) (n : Nat) :
    (d.decodeFromTo s n).1.hashed = d.hashed ++ (d.decodeFromTo s n).2.delivered (·.2) :=
  Decoder.decodeFromTo_hashed d s n

/-- `StreamingDecoder::read`: hasher advanced by exactly the bytes returned -/
theorem streaming_read_hashes_delivered (d : Decoder σ) (s : Src) (n : Nat) :
    (streamingRead d s n).1.hashed = d.hashed ++ (streamingRead d s n).2.delivered (·.2) :=
  (streamingRead_dstep d s n).hashed

/-- any interleaving of operations: the hasher has seen exactly the concatenation of everything
delivered, in order -/
theorem hashed_eq_delivered (d : Decoder σ) (ops : List Op) :
    (runOps d ops).1.hashed = d.hashed ++ (runOps d ops).2 :=
  runOps_hashed d ops

/-- … in particular, counted from a successful `reset`: hasher input = bytes delivered since -/
theorem hashed_eq_delivered_since_reset (d d0 : Decoder σ) (s rest : Src) (ops : List Op)
    (h : d.reset s = (d0, .ok rest)) : (runOps d0 ops).1.hashed = (runOps d0 ops).2 := by
  rw [runOps_hashed, reset_ok_clears_hash d d0 s rest h]; simp

/-- `get_calculated_checksum()` = low 32 bits of XXH64(seed 0) of exactly the bytes handed out since
the reset, in order, for every driver program -/
theorem checksum_is_hash_of_delivered (d d0 : Decoder σ) (s rest : Src) (ops : List Op)
    (h : d.reset s = (d0, .ok rest)) :
    (runOps d0 ops).1.calculatedChecksum = some (Spec.Xxh64.checksum32 (runOps d0 ops).2.toList) ∨
    (runOps d0 ops).1.state = none := by
  cases hs : (runOps d0 ops).1.state with
  | none => exact Or.inr rfl
  | some st =>
    left
    have := hashed_eq_delivered_since_reset d d0 s rest ops h
    simp only [Decoder.hashed, hs] at this
    simp [Decoder.calculatedChecksum, hs, this]

/-- "once all output has been taken": whatever the schedule, delivered ++ still-buffered is the byte
stream the decode operations produced; with an empty buffer the hasher has seen all of it -/
theorem delivered_and_buffered_is_stream (d : Decoder σ) (op : Op) (st st' : FState σ)
    (h : d.state = some st) (h' : (applyOp d op).1.state = some st') (hfresh : ∀ s n, op ≠ .fromTo s n) :
    ∃ x, st'.buf.hashed ++ st'.buf.content = st.buf.hashed ++ st.buf.content ++ x := by
  have key : ∀ d' dl, DStep d d' dl → d'.state = some st' →
      ∃ x, st'.buf.hashed ++ st'.buf.content = st.buf.hashed ++ st.buf.content ++ x := by
    intro d' dl hd hs'
    rcases hd.2.2 with ⟨hn, -, -⟩ | ⟨a, b, ha, hb, hs⟩
    · rw [h] at hn; cases hn
    · rw [h] at ha; cases ha; rw [hs'] at hb; cases hb
      obtain ⟨x, hx⟩ := hs.stream
      exact ⟨x, by rw [hs.hashed, Array.append_assoc, hx, Array.append_assoc]⟩
  cases op with
  | drain o => exact key _ _ (applyDrain_dstep d o) h'
  | blocks s strat => exact key _ _ (Decoder.decodeBlocks_dstep d s strat) h'
  | fromTo s n => exact absurd rfl (hfresh s n)
  | sread s n => exact key _ _ (streamingRead_dstep d s n) h'
  | setMax w =>
    simp only [applyOp, Decoder.setMaxWindowSize] at h'
    rw [h] at h'; cases h'; exact ⟨#[], by simp⟩

/-- "For every valid frame that carries a checksum this equals the checksum stored in the frame": for
every frame the Spec accepts and every documented driver program that finishes the frame and takes all
output, `get_calculated_checksum()` = `low32(XXH64(content))` = `get_checksum_from_data()` (when the
frame carries one) — whatever the drain schedule.  (Model with entropy stand-ins, as in C01.) -/
theorem valid_frame_checksums_agree [RefinesSpec σ] (d : Decoder σ) (sdicts : List Spec.Dict)
    (hdc : DictsCoupled d.dicts sdicts) (f : List Nat) (hb : ∀ x ∈ f, x < 256) (r : Spec.FrameResult)
    (hs : Spec.decodeFrame f sdicts = some r) (hlim : r.header.window ≤ d.maxWindow)
    (ops : List SOp) :
    ∃ d0 rest, d.reset f = (d0, .ok rest) ∧ (DocOk d0 rest ops →
      ∀ st, (runSched d0 rest ops).1.state = some st → st.finished = true → st.buf.content = #[] →
        (runSched d0 rest ops).1.calculatedChecksum = some (Spec.Xxh64.checksum32 r.content) ∧
        (st.checksum = none ∨ st.checksum = (runSched d0 rest ops).1.calculatedChecksum)) := by
  obtain ⟨d0, rest, hres, h⟩ := Model.valid_frame_any_schedule d sdicts hdc f hb r hs hlim ops
  refine ⟨d0, rest, hres, fun hdoc st hst hfin hempty => ?_⟩
  obtain ⟨-, st', tail, hst', hh, hc, hf⟩ := h hdoc
  rw [hst] at hst'; cases hst'
  obtain ⟨ht, -, -, -, hck⟩ := hf hfin
  have hcontent : r.content = st.buf.hashed.toList := by rw [hc, ht, hempty]; simp
  have hcalc : (runSched d0 rest ops).1.calculatedChecksum = some (Spec.Xxh64.checksum32 r.content) := by
    simp [Decoder.calculatedChecksum, hst, hcontent]
  refine ⟨hcalc, ?_⟩
  rcases decodeFrame_checksum f _ r hs with h0 | h1
  · left; rw [hck, h0]
  · right; rw [hck, h1, hcalc]

/-! ### `H`-abstractness: only the streaming law of the hash is used -/

/-- a streaming hash: feeding `a` then `b` is feeding `a ++ b` -/
structure StreamHash (τ : Type) where
  init : τ
  update : τ → Array Nat → τ
  update_empty : ∀ s, update s #[] = s
  law : ∀ s a b, update (update s a) b = update s (a ++ b)

/-- for ANY streaming hash `H`: feeding it the delivered chunks one drain at a time (as the code
does, per ring segment and per call) gives the state of feeding it the whole delivered stream once -/
theorem streaming_law_chunks {τ} (H : StreamHash τ) (s : τ) (chunks : List (Array Nat)) :
    chunks.foldl H.update s = H.update s (chunks.foldl (· ++ ·) #[]) := by
  have gen : ∀ (acc : Array Nat) (s : τ), chunks.foldl H.update (H.update s acc)
      = H.update s (chunks.foldl (· ++ ·) acc) := by
    induction chunks with
    | nil => intro acc s; rfl
    | cons c cs ih => intro acc s; simp only [List.foldl_cons]; rw [H.law]; exact ih _ _
  have := gen #[] s
  rwa [H.update_empty] at this

/-- every drain operation, seen through ANY streaming hash: new state = old state updated with the
delivered bytes (`H (hash s) delivered`) -/
theorem drain_hash_abstract {τ} (H : StreamHash τ) (d : Decoder σ) (op : DrainOp) :
    H.update H.init (applyDrain d op).1.hashed = H.update (H.update H.init d.hashed) (applyDrain d op).2 := by
  rw [drain_hashes_delivered, H.law]

/-- the model's accumulator is the free streaming hash … -/
def bytesSoFar : StreamHash (Array Nat) :=
  { init := #[], update := (· ++ ·), update_empty := fun s => by simp, law := fun s a b => by simp [Array.append_assoc] }

/-- … and XXH64 is applied to the concatenation: the checksum after feeding chunks `a`, `b` is the
one-shot checksum of `a ++ b` -/
theorem xxh64_of_concatenation (a b : Array Nat) :
    Spec.Xxh64.checksum32 (bytesSoFar.update (bytesSoFar.update bytesSoFar.init a) b).toList
      = Spec.Xxh64.checksum32 (a.toList ++ b.toList) := by
  simp [bytesSoFar]

/-! ### non-vacuity -/

/-- a checksummed single-segment frame holding the raw block "abc" followed by 4 checksum bytes -/
def demoFrame : List Nat := [0x28, 0xB5, 0x2F, 0xFD, 0x24, 3, 0x19, 0, 0, 97, 98, 99, 1, 2, 3, 4]

/-- the hypothesis `d.reset s = (d0, .ok rest)` is satisfiable … -/
example : ∃ d0 rest, ({} : DecA).reset demoFrame = (d0, .ok rest) := by
  have h : (({} : DecA).reset demoFrame).2.isOk = true := by decide +kernel
  generalize ({} : DecA).reset demoFrame = r at h
  obtain ⟨d0, o⟩ := r
  cases o <;> simp [Out.isOk] at h
  exact ⟨_, _, rfl⟩

/-- … and programs do deliver bytes (block, then a partial read, then collect) -/
example : (runOps (({} : DecA).reset demoFrame).1
    [.blocks (demoFrame.drop 6) .all, .drain (.read 2), .drain .collect]).2 = #[97, 98, 99] := by
  decide +kernel

/-- a sink that takes one byte and then fails: exactly that byte is delivered (and hashed) -/
example : (applyDrain (runOps (({} : DecA).reset demoFrame).1 [.blocks (demoFrame.drop 6) .all]).1
    (.toWriter 2 [.accept 1, .fail])).2 = #[97] := by decide +kernel

example : (applyDrain (runOps (({} : DecA).reset demoFrame).1 [.blocks (demoFrame.drop 6) .all]).1
    (.toWriter 2 [.accept 1, .fail])).1.hashed = #[97] := by decide +kernel

/-! ## Compressor side

"every frame written by the compressor (hashing enabled) ends with the correct checksum of its input, also when the
compressor is reused": the compressor state `c` below is ARBITRARY — any level, any remembered Huffman table, any
hasher state left by earlier frames (`c.hasher`), any matcher position — so the statement covers every reuse history.
It rests on the two source facts `Gen.frameReseedsHasher` (`compress()` re-seeds the hasher before it reads) and
`Gen.hashesInputBlock` (what is hashed is exactly each block read), both extracted from `frame_compressor.rs` on
every run; moving the re-seed elsewhere or hashing another slice makes `Gen` change and this proof fail. -/

open Zstd.Model.Enc Zstd.Proofs.Enc in
/-- the four bytes after the last block are the little-endian low 32 bits of XXH64 (seed 0) of exactly the input, for
every input, fragmentation of the source, block encoder, matcher and compressor state (fresh or reused) -/
theorem compressor_checksum_of_input {H : Type} (enc : BlockEnc H) (c : Compressor H) (w : Nat)
    (script : Nat → MBlock) (data : List Byte) (frags : List Nat) (hm : Props.C15.SaneMatcher w script)
    (frame : List Byte) (c' : Compressor H)
    (hrun : compressFrame true enc c w script data frags = .ok (frame, c')) :
    ∃ recs, walkBlocks frame.length (frame.drop 6) = some (recs, leBytes 4 (Spec.Xxh64.checksum32 data)) := by
  simpa using Props.C15.nothing_after_last_but_checksum true enc c w script data frags hm frame c' hrun

open Zstd.Model.Enc Zstd.Proofs.Enc in
/-- the header announces the checksum exactly when hashing is enabled (Content_Checksum_flag = bit 2 of the descriptor) -/
theorem compressor_checksum_flag (hash : Bool) : (frameDescriptor hash / 4) % 2 = (if hash then 1 else 0) := by
  cases hash <;> decide


/-! ### instance B: the decoder the drivers run (faithful block decoder, Model/FrameFaithful.lean) -/

theorem checksum_is_hash_of_delivered_faithful (d d0 : DecB) (s rest : Src) (ops : List Op)
    (h : d.reset s = (d0, .ok rest)) :
    (runOps d0 ops).1.calculatedChecksum = some (Spec.Xxh64.checksum32 (runOps d0 ops).2.toList) ∨
    (runOps d0 ops).1.state = none :=
  checksum_is_hash_of_delivered d d0 s rest ops h

/-- `valid_frame_checksums_agree` for the faithful decoder (no hypotheses: `instRefinesSpecFaithful`) -/
theorem valid_frame_checksums_agree_faithful (d : DecB) (sdicts : List Spec.Dict)
    (hdc : DictsCoupled d.dicts sdicts) (f : List Nat) (hb : ∀ x ∈ f, x < 256) (r : Spec.FrameResult)
    (hs : Spec.decodeFrame f sdicts = some r) (hlim : r.header.window ≤ d.maxWindow)
    (ops : List SOp) :
    ∃ d0 rest, d.reset f = (d0, .ok rest) ∧ (DocOk d0 rest ops →
      ∀ st, (runSched d0 rest ops).1.state = some st → st.finished = true → st.buf.content = #[] →
        (runSched d0 rest ops).1.calculatedChecksum = some (Spec.Xxh64.checksum32 r.content) ∧
        (st.checksum = none ∨ st.checksum = (runSched d0 rest ops).1.calculatedChecksum)) :=
  valid_frame_checksums_agree d sdicts hdc f hb r hs hlim ops


/-- `valid_frame_checksums_agree` for decoders whose dictionaries were registered through `add_dict` of
parsed bytes: no coupling hypothesis (`registerDicts_coupled`) -/
theorem valid_frame_checksums_agree_parsed_dicts (raws : List (List Nat))
    (hraws : ∀ raw ∈ raws, (∀ x ∈ raw, x < 256) ∧ (Spec.parseDict raw).isSome = true)
    (f : List Nat) (hb : ∀ x ∈ f, x < 256) (r : Spec.FrameResult)
    (hs : Spec.decodeFrame f (specRegisterDicts [] raws) = some r) (hlim : r.header.window ≤ ({} : DecB).maxWindow)
    (ops : List SOp) :
    ∃ d0 rest, (registerDicts {} raws).reset f = (d0, .ok rest) ∧ (DocOk d0 rest ops →
      ∀ st, (runSched d0 rest ops).1.state = some st → st.finished = true → st.buf.content = #[] →
        (runSched d0 rest ops).1.calculatedChecksum = some (Spec.Xxh64.checksum32 r.content) ∧
        (st.checksum = none ∨ st.checksum = (runSched d0 rest ops).1.calculatedChecksum)) := by
  have hdc := registerDicts_coupled ({} : DecB) [] raws (fun raw h => (hraws raw h).1) (fun raw h => (hraws raw h).2) .nil
  have hmw : (registerDicts ({} : DecB) raws).maxWindow = ({} : DecB).maxWindow := (registerDicts_state _ raws).2
  exact valid_frame_checksums_agree _ _ hdc f hb r hs (by rw [hmw]; exact hlim) ops

end Zstd.Props.C08
