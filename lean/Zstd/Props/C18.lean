import Zstd.Proofs.Io
/-
C18 — Behaviour is the same with and without the std I/O layer and the hash feature.

What a theorem can say here: (1) the hand-written `no_std` helpers (`io_nostd.rs`) meet the
`std::io` contract for EVERY reader/writer script, so code written against `crate::io` sees the
same results in both builds; (2) the `hash` feature's footprint is exactly: one descriptor bit,
four trailer bytes, one hasher field.  That the four real builds behave alike is observed by the
`io` engine (harness built four times), not proved.

`srcCfg`/`srcHashCfg` are read off the source text on every run (`Zstd.Gen.Io`).
-/
namespace Zstd.Props.C18
open Zstd Zstd.Model.Io

/-- every arm of `read_exact`, `Take::read`, `write_all`, and the slice/vec impls in `io_nostd.rs`
is, today, the arm the std contract needs (a changed arm makes this — and everything below — fail) -/
theorem src_arms_are_std : srcCfg = Cfg.std := by decide

/-- `read_exact` of the no_std layer = the std contract, for every script, stream and buffer size -/
theorem nostd_read_exact (script : List Resp) (src : List Byte) (need : Nat) :
    readExact srcCfg script src need = Spec.Io.readExact script src need := by
  rw [src_arms_are_std]; exact Proofs.Io.readExact_std script src need

/-- … in words: success ⇔ the buffer holds exactly the next `need` bytes and the reader advanced by
exactly `need`; it never hangs and never reports `Interrupted` -/
theorem nostd_read_exact_fills (script : List Resp) (src : List Byte) (need : Nat) :
    (∀ bs r, readExact srcCfg script src need = (.ok bs, r) →
        bs = src.take need ∧ bs.length = need ∧ r.src = src.drop need) ∧
    (Resp.error .interrupted ∉ script →
        (readExact srcCfg script src need).1 ≠ .hang ∧ (readExact srcCfg script src need).1 ≠ .err .interrupted) := by
  rw [nostd_read_exact]
  exact ⟨fun bs r h => Proofs.Io.spec_readExact_ok script src need bs r h,
         fun hs => Proofs.Io.spec_readExact_total script src need hs⟩

example : readExact srcCfg [.interrupted, .data 2, .eof] [1, 2, 3] 3 = (.err .unexpectedEof, ⟨[3], []⟩) := by decide
example : readExact srcCfg [.data 2, .interrupted, .data 5] [1, 2, 3, 4] 3 = (.ok [1, 2, 3], ⟨[4], []⟩) := by decide

/-- `read_to_end` of the no_std layer = the std contract on every script WITHOUT `Interrupted` -/
theorem nostd_read_to_end_partial (script : List Resp) (src : List Byte) (h : Resp.interrupted ∉ script) :
    readToEnd srcCfg script src = Spec.Io.readToEnd 16384 script src := by
  rw [src_arms_are_std]; exact Proofs.Io.readToEnd_std script src h

/-- full strength would be: for every script.  It is FALSE: std retries `Interrupted`, the no_std
helper returns it (`let bytes = self.read(&mut buf)?`).  No codec path calls `read_to_end` on a
user-supplied reader in a no_std build (`grep`: only `dictionary/`, which needs `std`), and
`StreamingDecoder::read` never returns `Interrupted`, so no frame or decoded byte depends on it. -/
def nostd_read_to_end_full : Prop :=
  ∀ script src, readToEnd srcCfg script src = Spec.Io.readToEnd 16384 script src

theorem nostd_read_to_end_interrupted_differs : ¬ nostd_read_to_end_full := by
  intro h
  have := h [.interrupted, .data 3] [7, 8, 9]
  revert this
  decide

/-- `Take::read` on a 64-bit target = the std contract (inner results passed through, request
clamped to the limit, inner reader untouched once the limit is 0), and no arithmetic fault -/
theorem nostd_take (t : Take) (req : Nat) (hl : t.limit < 2 ^ 64) :
    Take.read srcCfg 64 t req = .ok (Spec.Io.takeRead t req) := by
  rw [src_arms_are_std]; exact Proofs.Io.take_std t req hl

/-- `Take` never yields more than the limit -/
theorem nostd_take_le_limit (t : Take) (req : Nat) (hl : t.limit < 2 ^ 64) (bs : List Byte) (t' : Take)
    (h : Take.read srcCfg 64 t req = .ok (.ok bs, t')) :
    bs.length ≤ t.limit ∧ bs.length ≤ req ∧ t'.limit = t.limit - bs.length := by
  rw [nostd_take t req hl] at h
  exact Proofs.Io.spec_take_le t req bs t' (by injection h)

example : Take.read srcCfg 64 ⟨⟨[1, 2, 3, 4], [.data 9]⟩, 3⟩ 10 = .ok (.ok [1, 2, 3], ⟨⟨[4], []⟩, 0⟩) := by decide

/-- on a 32-bit target `(self.limit as usize)` truncates: with `limit = 2^32` the request is
clamped to 0 bytes and the caller sees `Ok(0)` = end of input although data is there (std computes
the minimum in `u64`).  Outside the trusted base's "usize = u64"; recorded, not a C18 violation. -/
theorem nostd_take_32bit_differs :
    ∃ t req, t.limit < 2 ^ 64 ∧ Take.read srcCfg 32 t req ≠ .ok (Spec.Io.takeRead t req) :=
  ⟨⟨⟨[1, 2, 3], [.data 3]⟩, 2 ^ 32⟩, 3, by decide, by decide⟩

/-- `write_all` of the no_std layer = the std contract, for every script -/
theorem nostd_write_all (script : List Resp) (sink buf : List Byte) :
    writeAll srcCfg script sink buf = Spec.Io.writeAll script sink buf := by
  rw [src_arms_are_std]; exact Proofs.Io.writeAll_std script sink buf

/-- … in words: the sink has received a prefix of the buffer, all of it on success; it never hangs -/
theorem nostd_write_all_prefix (script : List Resp) (sink buf : List Byte) :
    (∃ n, (writeAll srcCfg script sink buf).2.sink = sink ++ buf.take n) ∧
    ((writeAll srcCfg script sink buf).1 = .ok () → (writeAll srcCfg script sink buf).2.sink = sink ++ buf) ∧
    (writeAll srcCfg script sink buf).1 ≠ .hang := by
  rw [nostd_write_all]; exact Proofs.Io.spec_writeAll_prefix script sink buf

example : writeAll srcCfg [.data 1, .interrupted, .eof] [] [5, 6] = (.err .writeZero, ⟨[5], []⟩) := by decide

theorem slice_read (slice : List Byte) (req : Nat) : sliceRead srcCfg slice req = Spec.Io.sliceRead slice req := by
  rw [src_arms_are_std]; simp [sliceRead, Spec.Io.sliceRead, Nat.min_comm]

theorem slice_write (room : Nat) (data : List Byte) : sliceWrite srcCfg room data = Spec.Io.sliceWrite room data := by
  rw [src_arms_are_std]; simp [sliceWrite, Spec.Io.sliceWrite, Nat.min_comm]

theorem vec_write (v data : List Byte) : vecWrite srcCfg v data = Spec.Io.vecWrite v data := by
  rw [src_arms_are_std]; simp [vecWrite, Spec.Io.vecWrite]

/-! ### the `hash` feature -/

/-- the feature's footprint in the source is the expected one (flag from `cfg!`, trailer last,
encoder and decoder agree on the bit, decoder items only concern the hasher) -/
theorem src_hash_footprint : srcHashCfg = HashCfg.good := by decide

/-- frame without the feature = frame with the feature, minus the descriptor bit, minus the last
four bytes — for every input and every (feature-independent) block encoder -/
theorem hash_off_frame (magic : List Byte) (desc0 : Nat) (wd : List Byte) (enc : List Byte → List Byte)
    (digest : List Byte → Nat) (d : List Byte) (hm : magic.length = 4) (hd : desc0 / 4 % 2 = 0) :
    frame srcHashCfg false magic desc0 wd enc digest d =
      clearBitAt 4 2 (dropLast 4 (frame srcHashCfg true magic desc0 wd enc digest d)) := by
  rw [src_hash_footprint]
  simp only [frame, HashCfg.good, Bool.false_and, Bool.true_and, if_true, dropLast, clearBitAt]
  have hlen : (magic ++ [desc0 + 2 ^ 2] ++ wd ++ enc d ++ leBytes 4 (digest d % 2 ^ 32)).length - 4
      = (magic ++ [desc0 + 2 ^ 2] ++ wd ++ enc d).length := by simp; omega
  rw [hlen, List.take_left']
  · have h4 : (magic ++ [desc0 + 2 ^ 2] ++ wd ++ enc d) = magic ++ ((desc0 + 2 ^ 2) :: (wd ++ enc d)) := by simp
    rw [h4, ← hm, List.take_left', List.drop_left']
    · simp; omega
    · rfl
    · rfl
  · rfl

/-- the decoded bytes, the stored checksum and the consumed input do not depend on the feature —
for every frame (valid or not) and every block decoder -/
theorem hash_off_decode (hdrLen : Nat) (dec : List Byte → Option (List Byte × List Byte))
    (digest : List Byte → Nat) (fr : List Byte) :
    (decodeFrame srcHashCfg true hdrLen dec digest fr).map (fun o => (o.out, o.checksumFromData, o.rest)) =
    (decodeFrame srcHashCfg false hdrLen dec digest fr).map (fun o => (o.out, o.checksumFromData, o.rest)) := by
  rw [src_hash_footprint]
  unfold decodeFrame
  split
  · rfl
  · split
    · rfl
    · simp only [HashCfg.good, Bool.true_or, Bool.and_true, if_true]
      split
      · split <;> rfl
      · rfl

/-- all four (compressor build × decoder build) combinations round-trip and consume the whole frame:
what a hash build writes, a no-hash build decodes to the same bytes, and vice versa -/
theorem hash_roundtrip (hashEnc hashDec : Bool) (magic : List Byte) (desc0 : Nat) (wd : List Byte)
    (enc : List Byte → List Byte) (dec : List Byte → Option (List Byte × List Byte))
    (digest : List Byte → Nat) (d : List Byte)
    (hm : magic.length = 4) (hd : desc0 / 4 % 2 = 0)
    (hinv : ∀ rest, dec (enc d ++ rest) = some (d, rest)) :
    decodeFrame srcHashCfg hashDec (5 + wd.length) dec digest (frame srcHashCfg hashEnc magic desc0 wd enc digest d) =
      some { out := d,
             checksumFromData := if hashEnc then some (digest d % 2 ^ 32) else none,
             calculated := if hashDec then some (digest d % 2 ^ 32) else none,
             rest := [] } := by
  rw [src_hash_footprint]
  have hle : leNat (leBytes 4 (digest d % 2 ^ 32)) = digest d % 2 ^ 32 := by
    rw [leNat_leBytes]; omega
  -- the decoder on a frame of the shape the compressor writes
  have shape : ∀ x tl, decodeFrame HashCfg.good hashDec (5 + wd.length) dec digest (magic ++ [x] ++ wd ++ enc d ++ tl) =
      if x / 4 % 2 = 1 then
        (if tl.length < 4 then none else
          some (DecOut.mk d (some (leNat (tl.take 4))) (if hashDec then some (digest d % 2 ^ 32) else none) (tl.drop 4)))
      else some (DecOut.mk d none (if hashDec then some (digest d % 2 ^ 32) else none) tl) := by
    intro x tl
    have h1 : (magic ++ [x] ++ wd ++ enc d ++ tl).drop 4 = x :: (wd ++ enc d ++ tl) := by
      have : magic ++ [x] ++ wd ++ enc d ++ tl = magic ++ (x :: (wd ++ enc d ++ tl)) := by simp
      rw [this, ← hm, List.drop_left']; rfl
    have h2 : (magic ++ [x] ++ wd ++ enc d ++ tl).drop (5 + wd.length) = enc d ++ tl := by
      have : magic ++ [x] ++ wd ++ enc d ++ tl = (magic ++ [x] ++ wd) ++ (enc d ++ tl) := by simp
      rw [this, List.drop_left']; simp [hm]; omega
    unfold decodeFrame
    rw [h1, h2, hinv]
    simp [checksumFlag, HashCfg.good]
  cases hashEnc
  · have : frame HashCfg.good false magic desc0 wd enc digest d = magic ++ [desc0] ++ wd ++ enc d ++ [] := by
      simp [frame]
    rw [this, shape]; simp [hd]
  · have : frame HashCfg.good true magic desc0 wd enc digest d = magic ++ [desc0 + 4] ++ wd ++ enc d ++ leBytes 4 (digest d % 2 ^ 32) := by
      simp [frame, HashCfg.good]
    have hb' : (desc0 / 4 + 1) % 2 = 1 := by omega
    have ht : ∀ v, List.take 4 (leBytes 4 v) = leBytes 4 v := fun v => List.take_of_length_le (by simp)
    have hdp : ∀ v, List.drop 4 (leBytes 4 v) = [] := fun v => List.drop_of_length_le (by simp)
    have hle' : leNat (leBytes 4 (digest d % 4294967296)) = digest d % 4294967296 := by simpa using hle
    rw [this, shape]; simp [hb', ht, hdp, hle']

end Zstd.Props.C18
