import Zstd.Proofs.FrameDecoderStandIn
import Zstd.Proofs.DictParse
import Zstd.Proofs.FrameFaithful
import Zstd.Proofs.FrameDecoderToVec
/-
C10 — exact frame boundaries: consumption, multi-frame decoding, truncation detection.

Property theorems only; helper lemmas in `Zstd/Proofs/FrameDecoder*.lean`.  The source is the list of
bytes not yet read (`impl Read for &[u8]`); `s.take k` is the source truncated after `k` bytes.  All
statements hold for ALL states, sources, strategies, cut points (no bound).
-/
set_option linter.unusedSectionVars false
namespace Zstd.Props.C10
open Zstd Zstd.Model

variable {σ : Type} [BlockDec σ] [BlockContract σ]

/-! ### exact-size reads -/

/-- `read_exact(n)` succeeds iff `n` bytes are there, returns exactly the first `n` and leaves the rest -/
theorem readExact_exact (n : Nat) (s : Src) (t r : List Nat) :
    readExact n s = some (t, r) ↔ n ≤ s.length ∧ t = s.take n ∧ r = s.drop n :=
  readExact_eq_some

/-- `readExact_take` (`prefix_reader_lemma`, one read): on a truncated source a read behaves as on the
full one when it fits in front of the cut (the rest is cut at the same absolute position) and fails
with `UnexpectedEof` as soon as it crosses the cut -/
theorem readExact_take (n k : Nat) (s : Src) :
    readExact n (s.take k) =
      if n ≤ k then (readExact n s).map (fun p => (p.1, p.2.take (k - n))) else none :=
  Model.readExact_take n k s

/-! ### one block -/

/-- a successful block consumed exactly `3 + content_size` bytes from the front; the rest is untouched;
`bytes_read_counter` and `block_counter` say so -/
theorem block_consumed_exact (st st' : FState σ) (s s1 : Src) (bh : BHeader)
    (h : decodeOneBlock st s = (st', .ok (bh, s1))) :
    3 + bh.contentSize ≤ s.length ∧ s1 = s.drop (3 + bh.contentSize) ∧
    st'.bytesRead = st.bytesRead + (3 + bh.contentSize) ∧ st'.blockCounter = st.blockCounter + 1 := by
  have := decodeOneBlock_ok st st' s s1 bh h
  exact ⟨this.1, this.2.1, this.2.2.2.2.1, this.2.2.2.2.2⟩

/-- `decodeOneBlock_prefix`: on `s.take k`, a block that fits entirely in the first `k` bytes is decoded
exactly as on `s`, the rest of the source being truncated; a block cut anywhere fails with
`UnexpectedEof` at the header (nothing counted) or at the body (3 bytes counted), with nothing decoded -/
theorem decodeOneBlock_prefix (st st' : FState σ) (s s1 : Src) (bh : BHeader) (k : Nat)
    (h : decodeOneBlock st s = (st', .ok (bh, s1))) :
    decodeOneBlock st (s.take k) =
      if 3 + bh.contentSize ≤ k then (st', .ok (bh, s1.take (k - (3 + bh.contentSize))))
      else if k < 3 then (st, .err .blockHeaderRead)
      else ({ st with bytesRead := st.bytesRead + 3 }, .err .blockBodyRead) := by
  split
  · exact decodeOneBlock_take_fits st st' s s1 bh k h ‹_›
  · exact decodeOneBlock_take_cut st st' s s1 bh k h (by omega)

/-! ### the frame's blocks -/

/-- `consumed_exact`: `decode_blocks` hands back the source minus exactly the bytes it counted — a
suffix of what it was given; following data is untouched -/
theorem consumed_exact (d d' : Decoder σ) (s rest : Src) (strat : Strategy) (fin : Bool)
    (h : d.decodeBlocks s strat = (d', .ok (rest, fin))) :
    ∃ n, rest = s.drop n ∧ n ≤ s.length ∧ d'.bytesRead = d.bytesRead + n ∧ n = s.length - rest.length := by
  obtain ⟨h3, n, hl, hn, hb⟩ := Decoder.decodeBlocks_ok_consumes d d' s rest strat fin h
  exact ⟨n, hn, hl, hb, by rw [hn, List.length_drop]; omega⟩

/-- … from the frame header on: after `reset` on `s` and `decode_blocks` to the end of the frame,
`bytes_read_from_source()` is the length of the frame (header through optional checksum) and the
source left over is `s` minus exactly that many bytes -/
theorem frame_consumed_exact (d d0 d' : Decoder σ) (s s1 rest : Src) (strat : Strategy) (fin : Bool)
    (hr : d.reset s = (d0, .ok s1)) (h : d0.decodeBlocks s1 strat = (d', .ok (rest, fin))) :
    rest = s.drop d'.bytesRead ∧ d'.bytesRead ≤ s.length := by
  rcases Decoder.reset_cases d s with ⟨e, he⟩ | ⟨st, o, he, hrc⟩
  · rw [he] at hr; cases hr
  · rw [he] at hr
    simp only [Prod.mk.injEq] at hr
    obtain ⟨rfl, rfl⟩ := hr
    have hc := resetCore_replace _ _ _ _ _ hrc
    have hs1 := hc.2.2.2.2.2.2.2.2.1 s1 rfl
    obtain ⟨n, hn, hl, hb, -⟩ := consumed_exact _ _ _ _ _ _ h
    simp only [Decoder.bytesRead] at hb
    have hlen : s1.length = s.length - st.bytesRead := by rw [hs1, List.length_drop]
    have := hc.2.2.2.2.2.2.2.1
    refine ⟨?_, ?_⟩
    · show rest = s.drop d'.bytesRead
      rw [show d'.bytesRead = st.bytesRead + n from hb, hn, hs1, List.drop_drop]
    · show d'.bytesRead ≤ s.length
      rw [show d'.bytesRead = st.bytesRead + n from hb]; omega

/-- `decodeBlocks_prefix` (`prefix_errors`): if `decode_blocks` on `s` completes the frame (last block
and, when flagged, the checksum) leaving `rest`, then for EVERY cut `k` strictly inside the consumed
part the run on `s.take k` ends in an error of a reader site — block header, block body or checksum —
the decoder does NOT report the frame finished, at most `k` bytes are counted, and what is buffered at
that point is a prefix of what the full run buffers (so everything delivered before the error is a
prefix of the true content).  Precondition: the frame's last block was not in yet (the documented
loop only calls `decode_blocks` while `is_finished()` is false). -/
theorem decodeBlocks_prefix (d d' : Decoder σ) (st : FState σ) (s rest : Src) (strat : Strategy)
    (hst : d.state = some st) (hnf : st.finished = false) (hcs : st.checksum = none)
    (h : d.decodeBlocks s strat = (d', .ok (rest, true))) (k : Nat) (hk : k < s.length - rest.length) :
    ∃ d'' e, d.decodeBlocks (s.take k) strat = (d'', .err e) ∧
      (e = .blockHeaderRead ∨ e = .blockBodyRead ∨ e = .checksumRead) ∧
      d''.isFinished = false ∧ IsPrefix d''.content d'.content ∧
      d.bytesRead ≤ d''.bytesRead ∧ d''.bytesRead ≤ d.bytesRead + k := by
  rw [Decoder.decodeBlocks_some d st s strat hst] at h
  rw [Decoder.decodeBlocks_some d st (s.take k) strat hst]
  cases hl : decodeBlocksLoop strat st.buf.content.size st.blockCounter (s.length + 1) st s with
  | mk st' o =>
    rw [hl] at h
    cases o with
    | err e => cases h
    | fault f => cases h
    | ok r =>
      simp only [Prod.mk.injEq, Out.ok.injEq] at h
      obtain ⟨rfl, rfl, hfin⟩ := h
      have hklen : (s.take k).length = k := by rw [List.length_take]; omega
      obtain ⟨st'', e, h1, h2, h3, h4, h5, h6, h7⟩ :=
        decodeBlocksLoop_take strat _ _ (s.length + 1) ((s.take k).length + 1) st st' s r k hl hfin hnf hcs hk (by omega)
      rw [h1]
      refine ⟨_, e, rfl, h2, ?_, ?_, ?_, ?_⟩
      · simpa [Decoder.isFinished] using h5
      · simpa [Decoder.content] using h3
      · simpa [Decoder.bytesRead, hst] using h6
      · simpa [Decoder.bytesRead, hst] using h7

/-- a fresh `reset` establishes the precondition of `decodeBlocks_prefix` -/
theorem reset_establishes_unfinished (d d0 : Decoder σ) (s s1 : Src) (hr : d.reset s = (d0, .ok s1)) :
    ∃ st, d0.state = some st ∧ st.finished = false ∧ st.checksum = none := by
  rcases Decoder.reset_cases d s with ⟨e, he⟩ | ⟨st, o, he, hrc⟩
  · rw [he] at hr; cases hr
  · rw [he] at hr
    simp only [Prod.mk.injEq] at hr
    obtain ⟨rfl, rfl⟩ := hr
    have hc := resetCore_replace _ _ _ _ _ hrc
    exact ⟨st, rfl, hc.1, hc.2.1⟩

/-- `valid_frame_prefix_errors`: for EVERY frame the Spec accepts (`Spec.decodeFrame f = some r`) and EVERY
cut point `k` behind the frame header and strictly inside the frame (`header ≤ k < r.consumed`): `reset`
on the truncated input succeeds exactly as on the full one, and `decode_blocks(All)` then ends in an
error at a reader site (block header, block body or checksum) — never `Ok`, never `is_finished()` —
with at most the bytes before the cut counted, and everything buffered at that point (hence everything
a caller can have been handed) a prefix of the frame's true content `r.content`.  (Cuts inside the
frame header make `reset` itself fail: `header_cut_errors`.) -/
theorem valid_frame_prefix_errors [RefinesSpec σ] (d : Decoder σ) (sdicts : List Spec.Dict)
    (hdc : DictsCoupled d.dicts sdicts) (f : List Nat) (hb : ∀ x ∈ f, x < 256) (r : Spec.FrameResult)
    (hs : Spec.decodeFrame f sdicts = some r) (hlim : r.header.window ≤ d.maxWindow)
    (k : Nat) (hk : k < r.consumed) :
    ∃ d0 rest, d.reset f = (d0, .ok rest) ∧
      (d0.bytesRead ≤ k →
        d.reset (f.take k) = (d0, .ok (rest.take (k - d0.bytesRead))) ∧
        ∃ d'' e, d0.decodeBlocks (rest.take (k - d0.bytesRead)) .all = (d'', .err e) ∧
          (e = .blockHeaderRead ∨ e = .blockBodyRead ∨ e = .checksumRead) ∧ d''.isFinished = false ∧
          d''.bytesRead ≤ k ∧ ∃ tail, r.content = (d''.content ++ tail).toList) := by
  obtain ⟨d0, d1, rest, st1, hres, hdb, hst1, hcont, hfin, hbr1, hck1, hh1, hcl⟩ := decodeFrame_refines d sdicts hdc f hb r hs hlim
  refine ⟨d0, rest, hres, fun hk0 => ⟨Decoder.reset_take_fits d d0 f rest k hres hk0, ?_⟩⟩
  obtain ⟨st0, hst0, hnf, hcs⟩ := reset_establishes_unfinished d d0 f rest hres
  -- where the source stands after the header
  have hrest : rest = f.drop d0.bytesRead ∧ d0.bytesRead ≤ f.length := by
    rcases Decoder.reset_cases d f with ⟨e, he⟩ | ⟨st, o, he, hrc⟩
    · rw [he] at hres; cases hres
    · rw [he] at hres
      simp only [Prod.mk.injEq] at hres
      obtain ⟨rfl, rfl⟩ := hres
      have hc := resetCore_replace _ _ _ _ _ hrc
      exact ⟨hc.2.2.2.2.2.2.2.2.1 rest rfl, hc.2.2.2.2.2.2.2.1⟩
  have hcut : k - d0.bytesRead < rest.length - (f.drop r.consumed).length := by
    rw [hrest.1, List.length_drop, List.length_drop]; omega
  obtain ⟨d'', e, h1, h2, h3, h4, h5, h6⟩ :=
    decodeBlocks_prefix d0 d1 st0 rest (f.drop r.consumed) .all hst0 hnf hcs hdb (k - d0.bytesRead) hcut
  refine ⟨d'', e, h1, h2, h3, by omega, ?_⟩
  obtain ⟨tail, ht⟩ := h4
  refine ⟨tail, ?_⟩
  rw [← hcont]
  simp only [Decoder.content, hst1] at ht
  rw [ht]
  rfl


/-- `header_cut_errors`: a cut inside the frame header makes `reset` fail (never `Ok`) -/
theorem header_cut_errors (d d0 : Decoder σ) (f rest : Src) (k : Nat) (h : d.reset f = (d0, .ok rest))
    (hk : k < d0.bytesRead) : ∀ rest', (d.reset (f.take k)).2 ≠ .ok rest' := by
  intro rest' hok
  rcases Decoder.reset_cases d f with ⟨e, he⟩ | ⟨st, o, he, hrc⟩
  · rw [he] at h; cases h
  · rw [he] at h
    simp only [Prod.mk.injEq] at h
    obtain ⟨rfl, rfl⟩ := h
    rcases Decoder.reset_cases d (f.take k) with ⟨e, he'⟩ | ⟨st', o', he', hrc'⟩
    · rw [he'] at hok; cases hok
    · rw [he'] at hok
      simp only at hok
      subst hok
      have hc' := resetCore_replace _ _ _ _ _ hrc'
      have happ := resetCore_append d.dicts d.maxWindow (f.take k) (f.drop k) st' rest' hrc'
      rw [List.take_append_drop, hrc] at happ
      simp only [ResetResult.replace.injEq] at happ
      have hlen := hc'.2.2.2.2.2.2.2.1
      rw [List.length_take] at hlen
      simp only [Decoder.bytesRead] at hk
      rw [happ.1] at hk
      omega

/-! ### multi-frame decoding -/

/-- `decode_all` never writes more than `output.len()` bytes -/
theorem decode_all_within_target (d d' : Decoder σ) (s : Src) (room : Nat) (out : Array Nat)
    (h : d.decodeAll s room = (d', .ok out)) : out.size ≤ room := by
  obtain ⟨x, hx, hs⟩ := decodeAllLoop_ok _ _ _ _ _ _ _ h
  rw [hx]; simpa using hs

/-- `target_too_small`: when the target cannot take everything a frame produced, the call fails — a
frame is only ever reported done when it is finished AND drained completely into the target -/
theorem target_too_small (fuel : Nat) (d d1 : Decoder σ) (s s1 : Src) (room : Nat) (out : Array Nat) (fin : Bool)
    (hb : d.decodeBlocks s (.uptoBytes (1024 * 1024)) = (d1, .ok (s1, fin)))
    (hc : (d1.read room).1.canCollect ≠ 0) :
    decodeAllFrame (fuel + 1) d s room out = ((d1.read room).1, .err .targetTooSmall) := by
  rw [decodeAllFrame, hb]
  simp only [hc, ne_eq, not_false_eq_true, if_true]

theorem no_silent_truncation (d d' : Decoder σ) (s s' : Src) (room room' : Nat) (out out' : Array Nat)
    (h : decodeAllFrame (s.length + 2) d s room out = (d', .ok (s', room', out'))) :
    d'.isFinished = true ∧ d'.canCollect = 0 ∧ ∃ x, out' = out ++ x ∧ x.size ≤ room ∧ room' = room - x.size := by
  obtain ⟨h1, h2, x, h3, h4, h5, -⟩ := decodeAllFrame_ok _ _ _ _ _ _ _ _ _ (by omega) h
  exact ⟨h1, h2, x, h3, h4, h5⟩

/-- `truncated_skippable`: a skippable frame that claims more bytes than are left is an error
(`FailedToSkipFrame`), never a silent stop -/
theorem truncated_skippable (d : Decoder σ) (s : Src) (room : Nat)
    (h8 : 8 ≤ s.length) (hm : Gen.skipMagicLo ≤ leNat (s.take 4) ∧ leNat (s.take 4) ≤ Gen.skipMagicHi)
    (hlen : s.length - 8 < leNat ((s.drop 4).take 4)) :
    d.decodeAll s room = (d, .err .failedToSkipFrame) :=
  decodeAllLoop_truncated_skippable s.length d s room #[] h8 hm hlen

/-- a complete skippable frame is skipped exactly (8 + length bytes), writes nothing, leaves the
decoder as it was -/
theorem skippable_skipped_exactly (fuel : Nat) (d : Decoder σ) (s : Src) (room : Nat) (out : Array Nat)
    (h8 : 8 ≤ s.length) (hm : Gen.skipMagicLo ≤ leNat (s.take 4) ∧ leNat (s.take 4) ≤ Gen.skipMagicHi)
    (hlen : leNat ((s.drop 4).take 4) ≤ s.length - 8) :
    decodeAllLoop (fuel + 1) d s room out = decodeAllLoop fuel d (s.drop (8 + leNat ((s.drop 4).take 4))) room out :=
  decodeAllLoop_skip fuel d s room out h8 hm hlen

/-- `trailing_garbage`: bytes after the last frame that are shorter than a magic number, or start with
neither magic number, make `decode_all` fail (at whatever point of the input they are reached) -/
theorem trailing_garbage (fuel : Nat) (d : Decoder σ) (s : Src) (room : Nat) (out : Array Nat) (hne : s ≠ [])
    (h : s.length < 4 ∨ (leNat (s.take 4) ≠ Gen.magicNum ∧
          ¬ (Gen.skipMagicLo ≤ leNat (s.take 4) ∧ leNat (s.take 4) ≤ Gen.skipMagicHi))) :
    decodeAllLoop (fuel + 1) d s room out =
      (d, .err (if s.length < 4 then .magicRead else .badMagic (leNat (s.take 4)))) := by
  apply decodeAllLoop_garbage fuel d d s room out _ hne (Decoder.reset_garbage d s h)
  intro m l; split <;> simp

/-- frame boundaries are exact: a frame header / a block / a whole `decode_blocks` run read from
`s ++ x` behaves exactly as on `s` alone and leaves `x` untouched behind the rest -/
theorem following_data_untouched (d d' : Decoder σ) (s rest x : Src) (strat : Strategy) (fin : Bool)
    (h : d.decodeBlocks s strat = (d', .ok (rest, fin))) :
    d.decodeBlocks (s ++ x) strat = (d', .ok (rest ++ x, fin)) :=
  Decoder.decodeBlocks_append d d' s rest x strat fin h

theorem header_following_data_untouched (s x : Src) (h : FHeader) (n : Nat) (rest : Src)
    (hr : readFrameHeader s = .ok (h, n, rest)) : readFrameHeader (s ++ x) = .ok (h, n, rest ++ x) :=
  readFrameHeader_append s x h n rest hr

/-- leading skippable frames (any number) are transparent to `decode_all` -/
theorem decodeAll_skips (segs : List (List Nat)) (hs : ∀ seg ∈ segs, IsSkippable seg) (d : Decoder σ)
    (rest : Src) (room : Nat) : d.decodeAll (segs.flatten ++ rest) room = d.decodeAll rest room :=
  Decoder.decodeAll_skips segs hs d rest room

/-- `decodeAll_concat`: for ANY list of segments — frames and skippable frames in any number and
order — each frame being valid in the sense that the per-frame loop of `decode_all`, run on that
frame ALONE after `init`, consumes all of it and delivers its content (`Segment.Valid`; for skippable
frames: magic in range and declared length = actual length), `decode_all` on the concatenation returns
exactly the concatenation of the contents (hence the exact total), for every target at least that
large, with the whole input consumed.  Induction over the segment list, not a fixed shape.
(Tying `Segment.Valid` of a frame to `Spec.decodeFrame` is C01's composition.) -/
theorem decodeAll_concat (segs : List Segment) (d : Decoder σ)
    (hv : ∀ sg ∈ segs, sg.Valid d.dicts d.maxWindow) (room : Nat) (hroom : (totalContent segs).size ≤ room) :
    ∃ d', d.decodeAll (totalBytes segs) room = (d', .ok (totalContent segs)) :=
  Decoder.decodeAll_concat segs d hv room hroom

/-! ### `decode_all_to_vec`

Model: `Decoder.decodeAllToVec` (resize to capacity, `decode_all` into the spare capacity, truncate back
on BOTH paths); engine `dec` compares it with the real function (`dec allvec` lines: outcome, bytes
appended, vector length, the bytes in front). -/

/-- the call IS `decode_all` with the spare capacity as target: same decoder afterwards, same outcome -/
theorem decode_all_to_vec_is_decode_all (d : Decoder σ) (s : Src) (vec : Array Nat) (room : Nat) :
    (d.decodeAllToVec s vec room).1 = (d.decodeAll s room).1 ∧
    (∀ e, (d.decodeAllToVec s vec room).2.2 = .err e ↔ (d.decodeAll s room).2 = .err e) ∧
    ((d.decodeAllToVec s vec room).2.2 = .ok () ↔ ∃ out, (d.decodeAll s room).2 = .ok out) := by
  rw [Decoder.decodeAllToVec_eq]
  cases h : d.decodeAll s room with
  | mk d' o => cases o <;> simp

/-- "The length is not changed if an error occurs" — more: the vector is UNCHANGED on every failure
(error or panic path), whatever was written into the spare capacity before the failure -/
theorem decode_all_to_vec_unchanged_on_failure (d : Decoder σ) (s : Src) (vec : Array Nat) (room : Nat)
    (h : (d.decodeAllToVec s vec room).2.2 ≠ .ok ()) : (d.decodeAllToVec s vec room).2.1 = vec := by
  rw [Decoder.decodeAllToVec_eq] at h ⊢
  cases hd : d.decodeAll s room with
  | mk d' o => cases o <;> simp_all

/-- the bytes already in the vector are never touched, on any path -/
theorem decode_all_to_vec_prefix_untouched (d : Decoder σ) (s : Src) (vec : Array Nat) (room : Nat) :
    (d.decodeAllToVec s vec room).2.1.extract 0 vec.size = vec := by
  rw [Decoder.decodeAllToVec_eq]
  cases hd : d.decodeAll s room with
  | mk d' o => cases o <;> simp [Array.extract_append]

/-- on success exactly the bytes `decode_all` reports are appended — never more than the spare
capacity, so the vector is not reallocated and `min(len + n, cap)` never cuts anything off -/
theorem decode_all_to_vec_appends_exactly (d : Decoder σ) (s : Src) (vec : Array Nat) (room : Nat)
    (h : (d.decodeAllToVec s vec room).2.2 = .ok ()) :
    ∃ d' out, d.decodeAll s room = (d', .ok out) ∧ out.size ≤ room ∧
      d.decodeAllToVec s vec room = (d', vec ++ out, .ok ()) := by
  rw [Decoder.decodeAllToVec_eq] at h ⊢
  cases hd : d.decodeAll s room with
  | mk d' o =>
    rw [hd] at h
    cases o with
    | ok out => exact ⟨d', out, rfl, decode_all_within_target d d' s room out hd, rfl⟩
    | err e => cases h
    | fault f => cases h

/-- `decodeAll_concat` through the vector front end: any list of valid frames and skippable frames,
spare capacity at least the total content ⇒ `Ok`, and the vector is its old content followed by exactly
the concatenated contents -/
theorem decode_all_to_vec_concat (segs : List Segment) (d : Decoder σ) (vec : Array Nat)
    (hv : ∀ sg ∈ segs, sg.Valid d.dicts d.maxWindow) (room : Nat) (hroom : (totalContent segs).size ≤ room) :
    ∃ d', d.decodeAllToVec (totalBytes segs) vec room = (d', vec ++ totalContent segs, .ok ()) := by
  obtain ⟨d', hd⟩ := Decoder.decodeAll_concat segs d hv room hroom
  exact ⟨d', by rw [Decoder.decodeAllToVec_eq, hd]⟩

/-- an undersized spare capacity fails (`decode_all` does: `target_too_small`) and leaves the vector as
it was: no silent truncation through this front end either -/
theorem decode_all_to_vec_no_silent_truncation (d : Decoder σ) (s : Src) (vec : Array Nat) (room : Nat) (e : DErr)
    (h : (d.decodeAll s room).2 = .err e) :
    (d.decodeAllToVec s vec room).2 = (vec, .err e) := by
  rw [Decoder.decodeAllToVec_eq]
  cases hd : d.decodeAll s room with
  | mk d' o => rw [hd] at h; simp only at h; subst h; rfl

/-! ### fuel: the loops terminate -/

/-- `fuel_suffices`, `decode_blocks`: each iteration consumes ≥ 3 source bytes or returns, so any fuel
above `|s|` gives the same result — the fuel `|s| + 1` in `Decoder.decodeBlocks` is never exhausted -/
theorem fuel_suffices_decodeBlocks (strat : Strategy) (a c f : Nat) (st : FState σ) (s : Src) (h : s.length < f) :
    decodeBlocksLoop strat a c f st s = decodeBlocksLoop strat a c (s.length + 1) st s :=
  decodeBlocksLoop_fuel strat a c f (s.length + 1) st s h (Nat.lt_succ_self _)

theorem fuel_suffices_decodeFromTo (f : Nat) (st : FState σ) (s : Src) (h : s.length < f) :
    decodeFromToLoop f st s = decodeFromToLoop (s.length + 1) st s :=
  decodeFromToLoop_fuel f (s.length + 1) st s h (Nat.lt_succ_self _)

theorem fuel_suffices_streamingRead (f : Nat) (d : Decoder σ) (s : Src) (n : Nat) (h : s.length < f) :
    streamingFill f d s n = streamingFill (s.length + 2) d s n :=
  streamingFill_fuel f (s.length + 2) d s n h (by omega)

theorem fuel_suffices_decodeAllFrame (f : Nat) (d : Decoder σ) (s : Src) (room : Nat) (out : Array Nat)
    (h : s.length < f) : decodeAllFrame f d s room out = decodeAllFrame (s.length + 2) d s room out :=
  decodeAllFrame_fuel f (s.length + 2) d s room out h (by omega)

theorem fuel_suffices_decodeAll (f : Nat) (d : Decoder σ) (s : Src) (room : Nat) (out : Array Nat)
    (h : s.length < f) : decodeAllLoop f d s room out = decodeAllLoop (s.length + 1) d s room out :=
  decodeAllLoop_fuel f (s.length + 1) d s room out h (Nat.lt_succ_self _)

/-- `write_all_bytes`: at most `len − written` iterations make progress, plus one -/
theorem fuel_suffices_writeAllBytes (f extra : Nat) (sc : List SinkResp) (len w : Nat) (h : len - w < f) :
    writeAllBytes (f + extra) sc len w = writeAllBytes f sc len w :=
  writeAllBytes_fuel f extra sc len w h

/-! ### non-vacuity -/

def demoFrame : List Nat := [0x28, 0xB5, 0x2F, 0xFD, 0x24, 3, 0x19, 0, 0, 97, 98, 99, 1, 2, 3, 4]
def demoSkip : List Nat := [0x50, 0x2A, 0x4D, 0x18, 2, 0, 0, 0, 7, 7]

/-- the hypotheses of `decodeBlocks_prefix` are satisfiable: the demo frame decodes to the end … -/
example : ((({} : DecA).reset demoFrame).1.decodeBlocks (demoFrame.drop 6) .all).2.isOk = true := by decide +kernel
/-- … and cut after 11 of its 16 bytes the body read fails, cut after 14 the checksum read fails -/
example : (((({} : DecA).reset demoFrame).1.decodeBlocks ((demoFrame.drop 6).take 5) .all).2.isOk) = false := by
  decide +kernel
example : (((({} : DecA).reset demoFrame).1.decodeBlocks ((demoFrame.drop 6).take 8) .all).1.isFinished) = false := by
  decide +kernel
/-- frame, skippable frame, frame: concatenated contents -/
example : ((({} : DecA).decodeAll (demoFrame ++ demoSkip ++ demoFrame) 6).2.delivered id) = #[97, 98, 99, 97, 98, 99] := by
  decide +kernel
/-- `Segment.Valid` is satisfiable for both kinds of segment -/
example : (Segment.skip demoSkip).Valid ([] : List (Dict Spec.Entropy)) Gen.defaultMaxWindowSize :=
  Segment.valid_of_validB _ _ _ (by decide +kernel)
example : (Segment.frame demoFrame #[97, 98, 99]).Valid ([] : List (Dict Spec.Entropy)) Gen.defaultMaxWindowSize :=
  Segment.valid_of_validB _ _ _ (by decide +kernel)
/-- target one byte too small / truncated skippable frame / trailing garbage: errors -/
example : ((({} : DecA).decodeAll (demoFrame ++ demoSkip ++ demoFrame) 5).2.isOk) = false := by decide +kernel
example : ((({} : DecA).decodeAll (demoFrame ++ demoSkip.take 9) 6).2.isOk) = false := by decide +kernel
example : ((({} : DecA).decodeAll (demoFrame ++ [0]) 6).2.isOk) = false := by decide +kernel


/-! ### instance B: the decoder the drivers run (faithful block decoder, Model/FrameFaithful.lean) -/

theorem frame_consumed_exact_faithful (d d0 d' : DecB) (s s1 rest : Src) (strat : Strategy) (fin : Bool)
    (hr : d.reset s = (d0, .ok s1)) (h : d0.decodeBlocks s1 strat = (d', .ok (rest, fin))) :
    rest = s.drop d'.bytesRead ∧ d'.bytesRead ≤ s.length :=
  frame_consumed_exact d d0 d' s s1 rest strat fin hr h

theorem no_silent_truncation_faithful (d d' : DecB) (s s' : Src) (room room' : Nat) (out out' : Array Nat)
    (h : decodeAllFrame (s.length + 2) d s room out = (d', .ok (s', room', out'))) :
    d'.isFinished = true ∧ d'.canCollect = 0 ∧ ∃ x, out' = out ++ x ∧ x.size ≤ room ∧ room' = room - x.size :=
  no_silent_truncation d d' s s' room room' out out' h

/-- `valid_frame_prefix_errors` for the faithful decoder (no hypotheses: `instRefinesSpecFaithful`) -/
theorem valid_frame_prefix_errors_faithful (d : DecB) (sdicts : List Spec.Dict)
    (hdc : DictsCoupled d.dicts sdicts) (f : List Nat) (hb : ∀ x ∈ f, x < 256) (r : Spec.FrameResult)
    (hs : Spec.decodeFrame f sdicts = some r) (hlim : r.header.window ≤ d.maxWindow)
    (k : Nat) (hk : k < r.consumed) :
    ∃ d0 rest, d.reset f = (d0, .ok rest) ∧
      (d0.bytesRead ≤ k →
        d.reset (f.take k) = (d0, .ok (rest.take (k - d0.bytesRead))) ∧
        ∃ d'' e, d0.decodeBlocks (rest.take (k - d0.bytesRead)) .all = (d'', .err e) ∧
          (e = .blockHeaderRead ∨ e = .blockBodyRead ∨ e = .checksumRead) ∧ d''.isFinished = false ∧
          d''.bytesRead ≤ k ∧ ∃ tail, r.content = (d''.content ++ tail).toList) :=
  valid_frame_prefix_errors d sdicts hdc f hb r hs hlim k hk

/-- non-vacuity of the `decode_all_to_vec` theorems on the executable instance: enough spare capacity —
the content is appended behind `[1, 2]`; one byte short — `TargetTooSmall` and the vector as it was -/
example : (({} : DecB).decodeAllToVec demoFrame #[1, 2] 3).2.1 = #[1, 2, 97, 98, 99] := by decide +kernel
example : (({} : DecB).decodeAllToVec demoFrame #[1, 2] 2).2.1 = #[1, 2] ∧
    (match (({} : DecB).decodeAllToVec demoFrame #[1, 2] 2).2.2 with | .err .targetTooSmall => true | _ => false) = true := by
  decide +kernel


/-- `valid_frame_prefix_errors` for decoders whose dictionaries were registered through `add_dict` of
parsed bytes: no coupling hypothesis (`registerDicts_coupled`) -/
theorem valid_frame_prefix_errors_parsed_dicts (raws : List (List Nat))
    (hraws : ∀ raw ∈ raws, (∀ x ∈ raw, x < 256) ∧ (Spec.parseDict raw).isSome = true)
    (f : List Nat) (hb : ∀ x ∈ f, x < 256) (r : Spec.FrameResult)
    (hs : Spec.decodeFrame f (specRegisterDicts [] raws) = some r) (hlim : r.header.window ≤ ({} : DecB).maxWindow)
    (k : Nat) (hk : k < r.consumed) :
    ∃ d0 rest, (registerDicts {} raws).reset f = (d0, .ok rest) ∧
      (d0.bytesRead ≤ k →
        (registerDicts {} raws).reset (f.take k) = (d0, .ok (rest.take (k - d0.bytesRead))) ∧
        ∃ d'' e, d0.decodeBlocks (rest.take (k - d0.bytesRead)) .all = (d'', .err e) ∧
          (e = .blockHeaderRead ∨ e = .blockBodyRead ∨ e = .checksumRead) ∧ d''.isFinished = false ∧
          d''.bytesRead ≤ k ∧ ∃ tail, r.content = (d''.content ++ tail).toList) := by
  have hdc := registerDicts_coupled ({} : DecB) [] raws (fun raw h => (hraws raw h).1) (fun raw h => (hraws raw h).2) .nil
  have hmw : (registerDicts ({} : DecB) raws).maxWindow = ({} : DecB).maxWindow := (registerDicts_state _ raws).2
  exact valid_frame_prefix_errors _ _ hdc f hb r hs (by rw [hmw]; exact hlim) k hk

end Zstd.Props.C10
