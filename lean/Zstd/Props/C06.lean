import Zstd.Proofs.FrameDecoderStandIn
import Zstd.Proofs.FrameFaithful
import Zstd.Proofs.FrameDecoderFull
import Zstd.Proofs.DictParse
/-
C06 — the decoded stream is independent of how the caller drives the decoder.

Property theorems only; helper lemmas in `Zstd/Proofs/FrameDecoder*.lean`.  Everything is stated for
ALL states, sources, budgets, sink scripts and ring splits (no bound).
-/
set_option linter.unusedSectionVars false
namespace Zstd.Props.C06
open Zstd Zstd.Model

variable {σ : Type} [BlockDec σ] [BlockContract σ]

/-! ### drain exactness -/

/-- `take_exact`: a drain of `n` bytes hands out exactly the first `n` buffered bytes and keeps
exactly the rest -/
theorem take_exact (b : DBuf) (n : Nat) :
    (b.take n).1 = b.content.extract 0 n ∧ (b.take n).2.content = b.content.extract n b.content.size ∧
    (b.take n).1 ++ (b.take n).2.content = b.content :=
  ⟨rfl, rfl, DBuf.take_partition b n⟩

/-- `drainToSink_exact` (`drain_to` with its `DrainGuard`): for EVERY sink script (partial writes,
`Ok(0)`, errors at any call) and EVERY split of the ring into two segments: the sink accepted
`written ≤ amount` bytes; they are the first `written` bytes of the buffer; exactly those were hashed
and dropped — also when the sink failed (`ok = false`); the rest is still buffered; no byte lost or
duplicated. -/
theorem drainToSink_exact (b : DBuf) (amount seg1 : Nat) (sc : List SinkResp) :
    let r := b.drainToSink amount seg1 sc
    let written := r.2.1
    written ≤ amount ∧ written ≤ b.content.size ∧
    r.1.content = b.content.extract written b.content.size ∧
    r.1.hashed = b.hashed ++ b.content.extract 0 written ∧
    b.content.extract 0 written ++ r.1.content = b.content ∧
    r.1.window = b.window ∧ r.1.dict = b.dict ∧ r.1.totalOut = b.totalOut := by
  have h := DBuf.drainToSink_take b amount seg1 sc
  simp only
  rw [h.1]
  exact ⟨h.2.1, h.2.2, rfl, rfl, DBuf.take_partition b _, rfl, rfl, rfl⟩

/-- the second ring segment is only offered to the sink when the first was accepted completely:
after a partial first write the outcome (bytes, status, position in the sink's script) is the first
call's outcome -/
theorem second_segment_only_after_full_first (b : DBuf) (amount seg1 : Nat) (sc : List SinkResp)
    (h0 : amount ≠ 0) (h1 : min (min seg1 b.content.size) amount ≠ 0)
    (hp : (writeAllBytes (min (min seg1 b.content.size) amount + 1) sc (min (min seg1 b.content.size) amount) 0).1
            < min (min seg1 b.content.size) amount) :
    b.drainToSink amount seg1 sc =
      let r := writeAllBytes (min (min seg1 b.content.size) amount + 1) sc (min (min seg1 b.content.size) amount) 0
      ((b.take r.1).2, r.1, r.2.1, r.2.2) :=
  DBuf.drainToSink_first_partial b amount seg1 sc h0 h1 hp

/-- `cumulativeSink_independent_of_segments`: for a sink that accepts a total of `B` more bytes and then
answers `Ok(0)` or fails, the outcome `(written, ok)` is a function of `B`, the mode and
`min(amount, len)` only — it does not depend on how the ring splits the data (`seg1`).  (`hseg`: a
ring's first segment is empty only if the ring is empty — C04.) -/
theorem cumulativeSink_independent_of_segments (b : DBuf) (amount seg1 B : Nat) (failAfter : Bool)
    (hseg : 0 < seg1 ∨ b.content.size = 0) :
    ((b.drainToSink amount seg1 (budgetScript B failAfter)).2.1,
     (b.drainToSink amount seg1 (budgetScript B failAfter)).2.2.1)
      = budgetOutcome B failAfter (min amount b.content.size) :=
  DBuf.drainToSink_budget b amount seg1 B failAfter hseg

/-- … and the script the `dec` engine's model side uses (one `accept B`, whole content as first
segment) yields that same outcome, so comparing it with the real sink over the real ring is sound -/
theorem driver_sink_script_sound (b : DBuf) (amount B : Nat) (failAfter : Bool) :
    ((b.drainToSink amount b.content.size
        ((if B > 0 then [SinkResp.accept B] else []) ++ [if failAfter then SinkResp.fail else .accept 0])).2.1,
     (b.drainToSink amount b.content.size
        ((if B > 0 then [SinkResp.accept B] else []) ++ [if failAfter then SinkResp.fail else .accept 0])).2.2.1)
      = budgetOutcome B failAfter (min amount b.content.size) :=
  DBuf.drainToSink_driverScript b amount B failAfter

/-- every drain operation of the API delivers a front piece of the buffer and keeps the rest -/
theorem drain_delivers_front (d : Decoder σ) (op : DrainOp) :
    (applyDrain d op).2 ++ (applyDrain d op).1.content = d.content := by
  rcases applyDrain_take d op with ⟨hn, he⟩ | ⟨st, k, hs, hk, he⟩
  · rw [he]; simp
  · rw [he]; simp only [Decoder.content, hs]; exact DBuf.take_partition st.buf k

/-- `retained_window`: while the last block is not in, every drain operation leaves at least
`window_size` bytes (or everything there was) in the buffer — window retention is never off by one -/
theorem retained_window (d : Decoder σ) (op : DrainOp) (h : d.blocksDone = false) :
    min d.window d.content.size ≤ (applyDrain d op).1.content.size ∧
    (applyDrain d op).1.window = d.window ∧ (applyDrain d op).1.blocksDone = false :=
  applyDrain_retains d op h

/-! ### the window suffices -/

/-- `window_suffices` for one match: bytes in front of the retained part `k` do not influence what an
overlapping copy with `offset ≤ |k|` appends -/
theorem copyWithin_drop (n off : Nat) (d k : Array Nat) (h : off ≤ k.size) :
    copyWithin n off (d ++ k) = d ++ copyWithin n off k :=
  Model.copyWithin_drop n off d k h

/-- `repeat_drop`: `DecodeBuffer::repeat` with an offset inside the retained part behaves the same with
or without the drained bytes `d` in front, never consults the dictionary or `total_output_counter`,
and cannot fail -/
theorem repeat_drop (b : DBuf) (d k : Array Nat) (off ml : Nat) (h : off ≤ k.size) :
    ({ b with content := d ++ k } : DBuf).repeat off ml
      = .ok { b with content := d ++ copyWithin ml off k, totalOut := b.totalOut + ml } ∧
    ({ b with content := k } : DBuf).repeat off ml
      = .ok { b with content := copyWithin ml off k, totalOut := b.totalOut + ml } :=
  DBuf.repeat_drop b d k off ml h

/-- `executeSequences_drop` (`block_effect_local`): if every offset the block resolves to is ≤ `W` and
at least `W` bytes are retained, then the bytes a block appends, the offset history, the counter and
the outcome (errors included) do not depend on what was drained earlier (`d`).  How `totalOut` /
dictionary reach-back enters: not at all under these hypotheses — the dictionary path is only taken
for offsets beyond the buffer, which `offset ≤ W ≤ retained` excludes; when nothing has been drained
(`d = #[]`, the only situation with fewer than `W` bytes retained, by `retained_window`) the two
buffers are identical, dictionary reach-back included. -/
theorem executeSequences_drop (W : Nat) (d : Array Nat) (seqs : List Spec.Seq) (lits : List Nat)
    (h : Nat × Nat × Nat) (q : Nat) (b : DBuf)
    (hW : W ≤ b.content.size) (hoff : ∀ o ∈ resolvedOffsets seqs h, o ≤ W) :
    executeSequences seqs lits h q (b.prepend d) =
      ((((executeSequences seqs lits h q b).1.1).prepend d, (executeSequences seqs lits h q b).1.2),
        (executeSequences seqs lits h q b).2) :=
  Model.executeSequences_drop W d seqs lits h q b hW hoff

theorem executeSequences_nothing_drained (seqs : List Spec.Seq) (lits : List Nat) (h : Nat × Nat × Nat)
    (q : Nat) (b : DBuf) : executeSequences seqs lits h q (b.prepend #[]) = executeSequences seqs lits h q b := by
  simp [DBuf.prepend]

/-! ### schedule independence -/

/-- `block_effect_local` for a whole block: the block at the front of `s` is decoded identically on
the drained state `st` and on its never-drained twin (`d` = the bytes already handed out still in
front; hasher field arbitrary): same outcome (errors included), same source left, same bytes appended,
same entropy tables / offset history / counters — provided its offsets are ≤ `W ≤` retained bytes -/
theorem decodeOneBlock_twin (W : Nat) (d x : Array Nat) (st : FState σ) (s : Src)
    (hW : W ≤ st.buf.content.size) (hoff : ∀ o ∈ nextBlockOffsets st s, o ≤ W) :
    decodeOneBlock (st.twin d x) s = ((decodeOneBlock st s).1.twin d x, (decodeOneBlock st s).2) :=
  Model.decodeOneBlock_twin W d x st s hW hoff

/-- drains never change the never-drained twin … -/
theorem drain_keeps_twin (dD dF : Decoder σ) (h : IsTwin dD dF) (op : DrainOp) : IsTwin (applyDrain dD op).1 dF :=
  h.drain op

/-- … and keep the retention invariant (nothing drained yet, or ≥ window retained) while the last
block is not in -/
theorem drain_keeps_retention (d : Decoder σ) (h : Retains d) (op : DrainOp) (hnd : d.blocksDone = false) :
    Retains (applyDrain d op).1 :=
  h.drain op hnd

/-- `decode_blocks` with ANY strategy on a drained decoder and on its twin: same result value / error,
same source left; the resulting decoders are twins again and retention still holds -/
theorem decodeBlocks_twin (dD dF : Decoder σ) (h : IsTwin dD dF) (hr : Retains dD) (s : Src) (strat : Strategy)
    (hoff : ∀ st, dD.state = some st →
      LoopOffsetsOk st.buf.window strat st.buf.content.size st.blockCounter (s.length + 1) st s) :
    (dF.decodeBlocks s strat).2 = (dD.decodeBlocks s strat).2 ∧
    IsTwin (dD.decodeBlocks s strat).1 (dF.decodeBlocks s strat).1 ∧ Retains (dD.decodeBlocks s strat).1 :=
  h.decodeBlocks hr s strat hoff

/-- `driver_prefix` + `driver_complete` for EVERY frame the Spec accepts (`Spec.decodeFrame f = some r` IS
"f is a conforming encoding of r.content"; dictionaries registered with the decoder; window within its
limit; bytes < 256) and EVERY documented program of drain calls (collect | read n | collect_to_writer
with any sink script and ring split) and `decode_blocks` calls (any strategies and budgets), after
`reset` — `DocOk`: `decode_blocks` only while the last block is not in:
* no call fails;
* the bytes handed out, in order, are exactly the hasher's input and — followed by what is still
  buffered — a prefix of the frame's content: nothing lost, duplicated or reordered, whatever the schedule;
* once the last block is in, delivered ++ buffered IS the content, `is_finished()` holds, the source
  left over is the input minus exactly the frame (`r.consumed` bytes), `bytes_read_from_source()` is the
  frame's length and the stored checksum is the frame's.
`StreamingDecoder::read` is such a program (`streamingRead_is_program`).  For EVERY block decoder that
satisfies `BlockContract` and `RefinesSpec` (the stand-in does: `valid_frame_any_schedule_standIn`). -/
theorem valid_frame_any_schedule [RefinesSpec σ] (d : Decoder σ) (sdicts : List Spec.Dict)
    (hdc : DictsCoupled d.dicts sdicts) (f : List Nat) (hb : ∀ x ∈ f, x < 256) (r : Spec.FrameResult)
    (hs : Spec.decodeFrame f sdicts = some r) (hlim : r.header.window ≤ d.maxWindow)
    (ops : List SOp) :
    ∃ d0 rest, d.reset f = (d0, .ok rest) ∧ (DocOk d0 rest ops →
      (runSched d0 rest ops).2.2.2 = none ∧
      ∃ st tail, (runSched d0 rest ops).1.state = some st ∧
        st.buf.hashed = (runSched d0 rest ops).2.2.1 ∧
        r.content = (st.buf.hashed ++ st.buf.content ++ tail).toList ∧
        (st.finished = true → tail = #[] ∧ (runSched d0 rest ops).1.isFinished = true ∧
          (runSched d0 rest ops).2.1 = f.drop r.consumed ∧ st.bytesRead = r.consumed ∧ st.checksum = r.checksum)) :=
  Model.valid_frame_any_schedule d sdicts hdc f hb r hs hlim ops

/-- … in the form stated before the parametrisation: the stand-in decoder with its own dictionaries -/
theorem valid_frame_any_schedule_standIn (d : DecA) (f : List Nat) (hb : ∀ x ∈ f, x < 256) (r : Spec.FrameResult)
    (hs : Spec.decodeFrame f (d.dicts.map Dict.toSpec) = some r) (hlim : r.header.window ≤ d.maxWindow)
    (ops : List SOp) :
    ∃ d0 rest, d.reset f = (d0, .ok rest) ∧ (DocOk d0 rest ops →
      (runSched d0 rest ops).2.2.2 = none ∧
      ∃ st tail, (runSched d0 rest ops).1.state = some st ∧
        st.buf.hashed = (runSched d0 rest ops).2.2.1 ∧
        r.content = (st.buf.hashed ++ st.buf.content ++ tail).toList ∧
        (st.finished = true → tail = #[] ∧ (runSched d0 rest ops).1.isFinished = true ∧
          (runSched d0 rest ops).2.1 = f.drop r.consumed ∧ st.bytesRead = r.consumed ∧ st.checksum = r.checksum)) :=
  Model.valid_frame_any_schedule d _ (dictsCoupled_standIn d.dicts) f hb r hs hlim ops

/-- one block on a decoder drained in ANY way that follows a Spec run keeps following it -/
theorem decodeOneBlock_follows [RefinesSpec σ] (bytes : List Nat) (hb : ∀ x ∈ bytes, x < 256) (e : Spec.Entropy) (st : FState σ)
    (out out1 : Array Nat) (e1 : Spec.Entropy) (n : Nat) (last : Bool) (hf : Follows st e out)
    (hs : specBlockStep st.buf.window st.buf.dict bytes e out = some (out1, e1, n, last)) :
    ∃ st1 bh, decodeOneBlock st bytes = (st1, .ok (bh, bytes.drop n)) ∧ bh.last = last ∧ 3 ≤ n ∧ n ≤ bytes.length ∧
      Follows st1 e1 out1 ∧ FollowStep st st1 n :=
  Model.decodeOneBlock_follows bytes hb e st out out1 e1 n last hf hs

/-- **the full statement of `driver_prefix` / `driver_complete` over EVERY operation of the API, on the
EXECUTABLE model** (`DecB`, the faithful block decoder): for every frame the Spec accepts — with any
dictionaries coupled to the decoder's (`DictsCoupled`: none, or registered from parsed bytes,
`registerDicts_coupled`) —, the input being exactly the frame, and EVERY documented program (`FullDocOk`)
over the whole driver grammar `FOp` — the three drains with any sink, `decode_blocks` with any strategy,
`StreamingDecoder::read(buf)`, `decode_from_to(&src[..chunk], target[..n])` with ANY chunking, the caller
advancing by the reported count — after `reset`:
no call fails; the bytes handed out, in order, are exactly what the hasher has seen and, followed by
what is still buffered, a prefix of the frame's content (nothing lost, duplicated, reordered); once
`is_finished()`: delivered ++ buffered IS the content, the source is used up, `bytes_read_from_source()`
is the frame's length.
"Documented" excludes exactly one thing (necessarily: `checksum_taken_for_a_block` below): calling
`decode_blocks` — directly or through `StreamingDecoder::read` — after the frame's last block is in; in
particular in the state "all blocks in, checksum still in the source", which only a `decode_from_to`
call given a chunk that ends right before the checksum leaves behind and only `decode_from_to` continues
from correctly.  Proved: `schedule_independent_full_holds`. -/
def schedule_independent_full : Prop :=
  ∀ (d : DecB) (sdicts : List Spec.Dict), DictsCoupled d.dicts sdicts →
    ∀ (f : List Nat) (r : Spec.FrameResult), (∀ x ∈ f, x < 256) →
    Spec.decodeFrame f sdicts = some r → r.header.window ≤ d.maxWindow → r.consumed = f.length →
    ∀ (ops : List FOp), ∃ d0 rest, d.reset f = (d0, .ok rest) ∧ (FullDocOk d0 rest ops →
      (runFull d0 rest ops).2.2.2 = none ∧
      (runFull d0 rest ops).1.hashed = (runFull d0 rest ops).2.2.1 ∧
      ∃ tail, r.content = ((runFull d0 rest ops).2.2.1 ++ (runFull d0 rest ops).1.content ++ tail).toList ∧
        ((runFull d0 rest ops).1.isFinished = true → tail = #[] ∧ (runFull d0 rest ops).2.1 = [] ∧
          (runFull d0 rest ops).1.bytesRead = r.consumed))

/-- `schedule_independent_partial` (`driver_prefix`): for every program of drain calls (collect | read n
| collect_to_writer with any sink script and ring split) and `decode_blocks` calls (any strategies,
source threaded) that is a documented use (`SchedOk`: `decode_blocks` only while the last block is not
in; every decoded block keeps its offsets within the frame's window — true of every valid frame), the
run with drains and the run of the same `decode_blocks` calls with NO drain at all end in the same
error or none, leave the same source, and are twins: delivered ++ still buffered = what the drain-free
run has buffered.  Nothing lost, duplicated or reordered, whatever the schedule.
`StreamingDecoder::read` is such a program (`streamingRead_is_program`); `decode_from_to` is covered
call by call by `decodeFromTo_twin`.  (This is the statement for ARBITRARY sources, under the explicit
offset condition `SchedOk`; for frames the Spec accepts nothing is left open: `schedule_independent_full`.) -/
theorem schedule_independent_partial (dD dF : Decoder σ) (s : Src) (ops : List SOp)
    (htw : IsTwin dD dF) (hret : Retains dD ∨ dD.blocksDone = true) (hok : SchedOk dD s ops) :
    IsTwin (runSched dD s ops).1 (runSched dF s (blocksOnly ops)).1 ∧
    (runSched dD s ops).2.1 = (runSched dF s (blocksOnly ops)).2.1 ∧
    (runSched dD s ops).2.2.2 = (runSched dF s (blocksOnly ops)).2.2.2 ∧
    (runSched dF s (blocksOnly ops)).2.2.1 = #[] :=
  runSched_twin dD dF s ops htw hret hok

/-- `StreamingDecoder::read(buf)` IS a driver program of `decode_blocks(UptoBytes(k))` calls followed by
one `read(buf)` (or the empty program when it returns 0 at once): same decoder, same source left, same
bytes, same error — so `schedule_independent_partial` covers the streaming front end -/
theorem streamingRead_is_program (d : Decoder σ) (s : Src) (n : Nat) :
    ∃ prog sE, runSched d s prog =
      match streamingRead d s n with
      | (d1, .ok (s1, out)) => (d1, s1, out, none)
      | (d1, .err e) => (d1, sE, #[], some e)
      | (d1, .fault _) => (d1, sE, #[], none) :=
  Model.streamingRead_is_program d s n

/-- slice-to-slice decoding with ANY chunking: `decode_from_to(chunk, target)` on a decoder drained in
any way and `decode_from_to(chunk, &mut [])` on its never-drained twin report the same consumed count
(or the same error) and leave twins again — chunk by chunk, so the bytes written to the targets,
followed by what is still buffered, are what the never-draining run has buffered -/
theorem decodeFromTo_twin (dD dF : Decoder σ) (h : IsTwin dD dF) (hr : Retains dD) (s : Src) (n : Nat)
    (st : FState σ) (hst : dD.state = some st) (hoff : FromToOffsetsOk st.buf.window (s.length + 1) st s) :
    IsTwin (dD.decodeFromTo s n).1 (dF.decodeFromTo s 0).1 ∧
    (dD.decodeFromTo s n).2.mapOk (·.1) = (dF.decodeFromTo s 0).2.mapOk (·.1) :=
  h.decodeFromTo hr s n st hst hoff

/-- … and retention survives the call (or the last block is in, after which it is not needed) -/
theorem decodeFromTo_retains (d : Decoder σ) (h : Retains d) (s : Src) (n : Nat) (st : FState σ) (hst : d.state = some st) :
    Retains (d.decodeFromTo s n).1 ∨ (d.decodeFromTo s n).1.blocksDone = true :=
  h.decodeFromTo s n st hst

/-- `delivered_is_prefix_of_decoded_partial`: starting from a freshly reset frame, after any documented
program the bytes handed out so far (= the hasher input, C08) followed by the bytes still buffered are
exactly the buffer of the drain-free run of the same decode calls — so the delivered bytes are a
prefix of what `decode_blocks(All); collect()` delivers -/
theorem delivered_is_prefix_of_decoded_partial (d0 : Decoder σ) (s : Src) (ops : List SOp)
    (hfresh : d0.hashed = #[]) (hok : SchedOk d0 s ops) (st stF : FState σ)
    (hD : (runSched d0 s ops).1.state = some st) (hF : (runSched d0 s (blocksOnly ops)).1.state = some stF) :
    st.buf.hashed ++ st.buf.content = stF.buf.content :=
  delivered_prefix_of_undrained d0 s ops hfresh hok st stF hD hF

/-! ### `decode_from_to` accounting -/

/-- `decode_from_to_accounting` (where F2 lived): the reported source count is ≤ the bytes given,
equals the advance of `bytes_read_from_source()` exactly, and the bytes written fit the target — for
every state, in particular for the call that finds only the checksum outstanding and is given 0–3
bytes (reports 0), 4 or more (reports 4), and for the call that has to `init` first -/
theorem decode_from_to_accounting (d d' : Decoder σ) (s : Src) (n r : Nat) (out : Array Nat)
    (h : d.decodeFromTo s n = (d', .ok (r, out))) :
    r ≤ s.length ∧ out.size ≤ n ∧ d'.bytesRead = d.bytesRead + r :=
  Decoder.decodeFromTo_accounting d d' s n r out h

/-- `decode_blocks` accounting: the source handed back is the source given minus exactly the bytes
counted (`bytes_read_from_source` advance) -/
theorem decode_blocks_accounting (d d' : Decoder σ) (s rest : Src) (strat : Strategy) (fin : Bool)
    (h : d.decodeBlocks s strat = (d', .ok (rest, fin))) :
    ∃ n, n ≤ s.length ∧ rest = s.drop n ∧ d'.bytesRead = d.bytesRead + n := by
  cases hst : d.state with
  | none => simp [Decoder.decodeBlocks, hst] at h
  | some st =>
    rw [Decoder.decodeBlocks_some d st s strat hst] at h
    cases hl : decodeBlocksLoop strat st.buf.content.size st.blockCounter (s.length + 1) st s with
    | mk st' o =>
      rw [hl] at h
      cases o with
      | err e => cases h
      | fault f => cases h
      | ok r =>
        simp only [Prod.mk.injEq, Out.ok.injEq] at h
        obtain ⟨rfl, rfl, rfl⟩ := h
        obtain ⟨n, h1, h2, h3⟩ := decodeBlocksLoop_ok _ _ _ _ _ _ _ _ hl
        exact ⟨n, h1, h2, by simp [Decoder.bytesRead, hst, h3]⟩

/-! ### non-vacuity -/

def demoFrame : List Nat := [0x28, 0xB5, 0x2F, 0xFD, 0x24, 3, 0x19, 0, 0, 97, 98, 99, 1, 2, 3, 4]

/-- F2's scenario on the repaired code: everything but the checksum first, then 3 bytes (0 reported),
then all 4 (4 reported) -/
example : ((({} : DecA).decodeFromTo (demoFrame.take 12) 10).2.delivered (·.2)) = #[97, 98, 99] := by decide +kernel
example : (((({} : DecA).decodeFromTo (demoFrame.take 12) 10).1.decodeFromTo [1, 2, 3] 10).2.delivered
    (fun p => #[p.1])) = #[0] := by decide +kernel
example : (((({} : DecA).decodeFromTo (demoFrame.take 12) 10).1.decodeFromTo [1, 2, 3, 4] 10).2.delivered
    (fun p => #[p.1])) = #[4] := by decide +kernel

/-- a sink taking 2 of 3 bytes over a ring split after the first byte -/
example : (({ content := #[1, 2, 3] } : DBuf).drainToSink 3 1 [.accept 1, .accept 1, .fail]).2.1 = 2 := by decide +kernel

/-- `DocOk` is satisfiable (drain-only programs trivially; and see the evaluated programs below) -/
example (d : DecA) (s : Src) : DocOk d s [.drain .collect, .drain (.read 3)] := by simp [DocOk]

/-- a two-block frame (window 1 KiB is irrelevant: single segment, 6 bytes): raw "abc", raw last "def";
block / read 1 / block / collect is a documented program (`SchedOk` is satisfiable) … -/
def twoBlocks : List Nat := [0x28, 0xB5, 0x2F, 0xFD, 0x20, 6, 0x18, 0, 0, 97, 98, 99, 0x19, 0, 0, 100, 101, 102]
example : ((runSched (({} : DecA).reset twoBlocks).1 (twoBlocks.drop 6)
    [.blocks (.uptoBlocks 1), .drain (.read 1), .blocks .all, .drain .collect]).2.2.1) = #[97, 98, 99, 100, 101, 102] := by
  decide +kernel
/-- … and delivers what the drain-free run buffers -/
example : ((runSched (({} : DecA).reset twoBlocks).1 (twoBlocks.drop 6)
    (blocksOnly [.blocks (.uptoBlocks 1), .drain (.read 1), .blocks .all, .drain .collect])).1.content)
      = #[97, 98, 99, 100, 101, 102] := by
  decide +kernel

/-- an overlapping match with offset 2 over a buffer with 3 drained bytes in front -/
example : Model.copyWithin 5 2 (#[9, 9, 9] ++ #[1, 2]) = #[9, 9, 9] ++ #[1, 2, 1, 2, 1, 2, 1] := by decide +kernel


/-! ### instance B: the decoder the drivers run

`DecB` = the frame-level model over the faithful block decoder (Model/FrameFaithful.lean); its
`BlockContract` holds without hypotheses, so the schedule-independence theorems above hold for it as
they stand.  The theorems about frames THE SPEC ACCEPTS additionally use the block-level refinement
(`instRefinesSpecFaithful`, Proofs/FrameFaithful.lean, from `decompressBlock_refines_full_proved` of
Proofs/BlkLitFull.lean): they too hold for `DecB` without hypotheses. -/

theorem schedule_independent_partial_faithful (dD dF : DecB) (s : Src) (ops : List SOp)
    (htw : IsTwin dD dF) (hret : Retains dD ∨ dD.blocksDone = true) (hok : SchedOk dD s ops) :
    IsTwin (runSched dD s ops).1 (runSched dF s (blocksOnly ops)).1 ∧
    (runSched dD s ops).2.1 = (runSched dF s (blocksOnly ops)).2.1 ∧
    (runSched dD s ops).2.2.2 = (runSched dF s (blocksOnly ops)).2.2.2 ∧
    (runSched dF s (blocksOnly ops)).2.2.1 = #[] :=
  schedule_independent_partial dD dF s ops htw hret hok

theorem delivered_is_prefix_of_decoded_partial_faithful (d0 : DecB) (s : Src) (ops : List SOp)
    (hfresh : d0.hashed = #[]) (hok : SchedOk d0 s ops) (st stF : FState Blk.Scratch)
    (hD : (runSched d0 s ops).1.state = some st) (hF : (runSched d0 s (blocksOnly ops)).1.state = some stF) :
    st.buf.hashed ++ st.buf.content = stF.buf.content :=
  delivered_is_prefix_of_decoded_partial d0 s ops hfresh hok st stF hD hF

/-- `valid_frame_any_schedule` for the faithful decoder (dictionaries: any list the Spec's are coupled
with, in particular none) -/
theorem valid_frame_any_schedule_faithful (d : DecB) (sdicts : List Spec.Dict)
    (hdc : DictsCoupled d.dicts sdicts) (f : List Nat) (hb : ∀ x ∈ f, x < 256) (r : Spec.FrameResult)
    (hs : Spec.decodeFrame f sdicts = some r) (hlim : r.header.window ≤ d.maxWindow)
    (ops : List SOp) :
    ∃ d0 rest, d.reset f = (d0, .ok rest) ∧ (DocOk d0 rest ops →
      (runSched d0 rest ops).2.2.2 = none ∧
      ∃ st tail, (runSched d0 rest ops).1.state = some st ∧
        st.buf.hashed = (runSched d0 rest ops).2.2.1 ∧
        r.content = (st.buf.hashed ++ st.buf.content ++ tail).toList ∧
        (st.finished = true → tail = #[] ∧ (runSched d0 rest ops).1.isFinished = true ∧
          (runSched d0 rest ops).2.1 = f.drop r.consumed ∧ st.bytesRead = r.consumed ∧ st.checksum = r.checksum)) :=
  Model.valid_frame_any_schedule d sdicts hdc f hb r hs hlim ops

/-- `schedule_independent_full` for EVERY block decoder satisfying the contracts -/
theorem valid_frame_full_schedule [RefinesSpec σ] (d : Decoder σ) (sdicts : List Spec.Dict)
    (hdc : DictsCoupled d.dicts sdicts) (f : List Nat) (hb : ∀ x ∈ f, x < 256) (r : Spec.FrameResult)
    (hs : Spec.decodeFrame f sdicts = some r) (hlim : r.header.window ≤ d.maxWindow) (hcons : r.consumed = f.length)
    (ops : List FOp) :
    ∃ d0 rest, d.reset f = (d0, .ok rest) ∧ (FullDocOk d0 rest ops →
      (runFull d0 rest ops).2.2.2 = none ∧
      (runFull d0 rest ops).1.hashed = (runFull d0 rest ops).2.2.1 ∧
      ∃ tail, r.content = ((runFull d0 rest ops).2.2.1 ++ (runFull d0 rest ops).1.content ++ tail).toList ∧
        ((runFull d0 rest ops).1.isFinished = true → tail = #[] ∧ (runFull d0 rest ops).2.1 = [] ∧
          (runFull d0 rest ops).1.bytesRead = r.consumed)) :=
  Model.valid_frame_full_schedule d sdicts hdc f hb r hs hlim hcons ops

/-- **`schedule_independent_full` holds.** -/
theorem schedule_independent_full_holds : schedule_independent_full :=
  fun d sdicts hdc f r hb hs hlim hcons ops => Model.valid_frame_full_schedule d sdicts hdc f hb r hs hlim hcons ops

/-- … for decoders whose dictionaries were registered through `add_dict` of parsed bytes: no coupling
hypothesis -/
theorem schedule_independent_full_parsed_dicts (raws : List (List Nat))
    (hraws : ∀ raw ∈ raws, (∀ x ∈ raw, x < 256) ∧ (Spec.parseDict raw).isSome = true)
    (f : List Nat) (r : Spec.FrameResult) (hb : ∀ x ∈ f, x < 256)
    (hs : Spec.decodeFrame f (specRegisterDicts [] raws) = some r)
    (hlim : r.header.window ≤ ({} : DecB).maxWindow) (hcons : r.consumed = f.length) (ops : List FOp) :
    ∃ d0 rest, (registerDicts {} raws).reset f = (d0, .ok rest) ∧ (FullDocOk d0 rest ops →
      (runFull d0 rest ops).2.2.2 = none ∧
      (runFull d0 rest ops).1.hashed = (runFull d0 rest ops).2.2.1 ∧
      ∃ tail, r.content = ((runFull d0 rest ops).2.2.1 ++ (runFull d0 rest ops).1.content ++ tail).toList ∧
        ((runFull d0 rest ops).1.isFinished = true → tail = #[] ∧ (runFull d0 rest ops).2.1 = [] ∧
          (runFull d0 rest ops).1.bytesRead = r.consumed)) := by
  have hdc := registerDicts_coupled ({} : DecB) [] raws (fun raw h => (hraws raw h).1) (fun raw h => (hraws raw h).2) .nil
  have hmw : (registerDicts ({} : DecB) raws).maxWindow = ({} : DecB).maxWindow := (registerDicts_state _ raws).2
  exact Model.valid_frame_full_schedule _ _ hdc f hb r hs (by rw [hmw]; exact hlim) hcons ops

/-- the statement over the Spec stand-in (instance A), as it read before (plus `FullDocOk`) -/
theorem schedule_independent_full_standIn (d : DecA) (f : List Nat) (r : Spec.FrameResult) (hb : ∀ x ∈ f, x < 256)
    (hs : Spec.decodeFrame f (d.dicts.map Dict.toSpec) = some r) (hlim : r.header.window ≤ d.maxWindow)
    (hcons : r.consumed = f.length) (ops : List FOp) :
    ∃ d0 rest, d.reset f = (d0, .ok rest) ∧ (FullDocOk d0 rest ops →
      ∃ tail, r.content = ((runFull d0 rest ops).2.2.1 ++ tail).toList) := by
  obtain ⟨d0, rest, h1, h2⟩ := Model.valid_frame_full_schedule d _ (dictsCoupled_standIn d.dicts) f hb r hs hlim hcons ops
  refine ⟨d0, rest, h1, fun hdoc => ?_⟩
  obtain ⟨-, -, tail, ht, -⟩ := h2 hdoc
  exact ⟨(runFull d0 rest ops).1.content ++ tail, by rw [ht, Array.append_assoc]⟩

/-- why `FullDocOk` excludes `decode_blocks` in the state "all blocks in, checksum still in the source":
a VALID frame — one raw block `[0x8B, 0x29]`, checksum `low32(XXH64) = 0x4B0000AB`, stored as
`AB 00 00 4B` —, fed to `decode_from_to` without its last four bytes (which decodes the block and
delivers `8B 29`), then `decode_blocks` on the four checksum bytes: they parse as a last RLE block
header of 21 × `0x4B`, which is what gets buffered (and `collect()` would hand out) before the call
fails with `FailedToReadChecksum`.  The real decoder does the same (replayed through
`bin/check C06 --replay`; also with the 1-byte content `A2`, whose checksum reads as 10936 × `0x3E`):
the checksum must be taken by `decode_from_to` itself, as its documentation says of the whole frame. -/
def pendingFrame : List Nat := [0x28, 0xB5, 0x2F, 0xFD, 0x24, 0x02, 0x11, 0x00, 0x00, 0x8B, 0x29, 0xAB, 0x00, 0x00, 0x4B]

theorem checksum_taken_for_a_block :
    (Spec.decodeFrame pendingFrame []).map (·.content) = some [0x8B, 0x29] ∧
    ((({} : DecB).decodeFromTo (pendingFrame.take 11) 100).2.delivered (·.2)) = #[0x8B, 0x29] ∧
    (((({} : DecB).decodeFromTo (pendingFrame.take 11) 100).1.decodeBlocks (pendingFrame.drop 11) .all).1.content) =
      Array.replicate 21 0x4B ∧
    (match ((({} : DecB).decodeFromTo (pendingFrame.take 11) 100).1.decodeBlocks (pendingFrame.drop 11) .all).2 with
      | .err .checksumRead => true | _ => false) = true := by
  decide +kernel

end Zstd.Props.C06
