import Zstd.Gen.Reset
import Zstd.Model.FrameDecoder
import Zstd.Proofs.FrameDecoderStandIn
import Zstd.Proofs.FrameFaithful
/-
C07 — a reused decoder behaves exactly like a fresh one.

Two layers:
* `reset_covers_*`: the field lists of every struct that carries decoder state and the set of
  fields each `reset` touches are EXTRACTED from the source text (`Zstd.Gen.Reset`); the theorems
  say no field is left out (the only exemptions are construction-time constants, named below).
  Dropping `self.fse.ll_rle = None` from `DecoderScratch::reset`, or adding a field nobody resets,
  changes `Gen` and breaks these theorems.
* model level: `Decoder.reset` leaves a state that does not depend on the previous state, and every
  operation is a function of (state, dictionaries, limit) — hence any history followed by a
  successful reset is indistinguishable from a fresh decoder with the same dictionaries
  (`reuse_eq_fresh`), for every history and every later driver program.
That each Rust statement really clears what the model says it clears is tied by the harness
(engines `reuse`, `hostile`: hook state dump after reset on reused vs fresh decoders, and full
transcripts of probe frames that need a clean state).
-/
set_option linter.unusedSectionVars false
namespace Zstd.Props.C07
open Zstd Zstd.Model

variable {σ : Type} [BlockDec σ] [BlockContract σ]

def covers (fields reset exempt : List String) : Bool :=
  fields.all fun f => reset.contains f || exempt.contains f

theorem reset_covers_frameState : covers Gen.frameStateFields Gen.frameStateReset [] = true := by decide
theorem reset_covers_scratch : covers Gen.scratchFields Gen.scratchReset [] = true := by decide
theorem reset_covers_fseScratch : covers Gen.fseScratchFields Gen.fseScratchReset [] = true := by decide
theorem reset_covers_hufScratch : covers Gen.hufScratchFields Gen.hufScratchReset [] = true := by decide
theorem reset_covers_decodeBuffer : covers Gen.decodeBufferFields Gen.decodeBufferReset [] = true := by decide
/-- `max_symbol` is set at construction (35 / 52 / 31 / 255) and never changes: fresh = reused -/
theorem reset_covers_fseTable : covers Gen.fseTableFields Gen.fseTableReset ["max_symbol"] = true := by decide
theorem reset_covers_hufTable : covers Gen.hufTableFields Gen.hufTableReset [] = true := by decide
/-- `buf`/`cap` (the allocation) survive `clear`; they are unobservable through the queue (C04) -/
theorem clear_covers_ring : covers Gen.ringFields Gen.ringClear ["buf", "cap"] = true := by decide
/-- `new` and `reset` install the same initial repeat offsets, the RFC's (1, 4, 8) -/
theorem offset_hist_init : Gen.offsetHistNew = [1, 4, 8] ∧ Gen.offsetHistReset = [1, 4, 8] := by decide
/-- a dictionary seeds exactly: the three FSE tables (+ RLE symbols), the Huffman table, the repeat
offsets, the dictionary content -/
theorem dict_seeds : Gen.dictSeeds = ["fse", "huf.table", "offset_hist", "buffer.dict_content"] := by decide

/-- the state `reset` leaves does not depend on the state it started from: whenever `reset`
replaces the state at all (success, or a missing dictionary) it installs the value computed by
`resetCore` from the source, the dictionaries and the limit alone -/
theorem reset_independent_of_state (d : Decoder σ) (st : Option (FState σ)) (s : Src) :
    ({ d with state := st }.reset s).2 = (d.reset s).2 ∧
    (∀ st' o, resetCore d.dicts d.maxWindow s = .replace st' o →
      ({ d with state := st }.reset s).1 = (d.reset s).1) := by
  unfold Decoder.reset
  cases h : resetCore d.dicts d.maxWindow s with
  | keep e => simp [h]
  | replace st' o => simp [h]

/-- `reset` reports `.ok` only when it replaced the state -/
theorem reset_ok_replaces (d : Decoder σ) (s rest : Src) (h : (d.reset s).2 = .ok rest) :
    ∃ st', resetCore d.dicts d.maxWindow s = .replace st' (.ok rest) := by
  unfold Decoder.reset at h
  cases hc : resetCore d.dicts d.maxWindow s with
  | keep e => simp [hc] at h
  | replace st' o => simp [hc] at h; exact ⟨st', by rw [h]⟩

/-- on every path where `reset` reports success the new state is the one a decoder that was never
used would have -/
theorem reset_eq_fresh (d : Decoder σ) (s : Src) (rest : Src) (h : (d.reset s).2 = .ok rest) :
    (d.reset s).1 = (({ dicts := d.dicts, maxWindow := d.maxWindow } : Decoder σ).reset s).1 ∧
    (({ dicts := d.dicts, maxWindow := d.maxWindow } : Decoder σ).reset s).2 = .ok rest := by
  obtain ⟨st', hc⟩ := reset_ok_replaces d s rest h
  unfold Decoder.reset
  simp only [hc]
  cases d; simp

/-- operations never change the registered dictionaries or the limit (so "the same dictionaries
registered" is a property of the decoder object, not of its history) -/
theorem decodeBlocks_keeps_config (d : Decoder σ) (s : Src) (strat : Strategy) :
    (d.decodeBlocks s strat).1.dicts = d.dicts ∧ (d.decodeBlocks s strat).1.maxWindow = d.maxWindow := by
  unfold Decoder.decodeBlocks
  cases d.state with
  | none => simp
  | some st => simp only []; split <;> simp

theorem collect_keeps_config (d : Decoder σ) : d.collect.1.dicts = d.dicts ∧ d.collect.1.maxWindow = d.maxWindow := by
  unfold Decoder.collect
  cases d.state with
  | none => simp
  | some st => simp only []; split <;> (try split) <;> simp

theorem read_keeps_config (d : Decoder σ) (n : Nat) : (d.read n).1.dicts = d.dicts ∧ (d.read n).1.maxWindow = d.maxWindow := by
  unfold Decoder.read
  cases d.state with
  | none => simp
  | some st => simp

theorem reset_keeps_config (d : Decoder σ) (s : Src) : (d.reset s).1.dicts = d.dicts ∧ (d.reset s).1.maxWindow = d.maxWindow := by
  unfold Decoder.reset
  cases resetCore d.dicts d.maxWindow s <;> simp

/-- history operations (what a caller may have done to the decoder before) -/
inductive HistOp where
  | reset (s : Src)
  | blocks (s : Src) (strat : Strategy)
  | collect
  | read (n : Nat)

def applyHist (d : Decoder σ) : HistOp → Decoder σ
  | .reset s => (d.reset s).1
  | .blocks s strat => (d.decodeBlocks s strat).1
  | .collect => d.collect.1
  | .read n => (d.read n).1

theorem applyHist_keeps_config (d : Decoder σ) (op : HistOp) :
    (applyHist d op).dicts = d.dicts ∧ (applyHist d op).maxWindow = d.maxWindow := by
  cases op with
  | reset s => exact reset_keeps_config d s
  | blocks s strat => exact decodeBlocks_keeps_config d s strat
  | collect => exact collect_keeps_config d
  | read n => exact read_keeps_config d n

theorem history_keeps_config (d : Decoder σ) (h : List HistOp) :
    (h.foldl applyHist d).dicts = d.dicts ∧ (h.foldl applyHist d).maxWindow = d.maxWindow := by
  induction h generalizing d with
  | nil => simp
  | cons op ops ih =>
    simp only [List.foldl_cons]
    have := applyHist_keeps_config d op
    rw [(ih (applyHist d op)).1, (ih (applyHist d op)).2, this.1, this.2]
    exact ⟨rfl, rfl⟩

/-- **C07**: after ANY history — frames completed, abandoned midway, failed at any point, with or
without dictionaries, larger or smaller windows — a successful `reset` on the next frame yields
exactly the decoder a fresh object with the same dictionaries and limit would be in; since every
later operation is a function of the decoder value, everything observable afterwards (bytes,
checksums, consumed count, success or error) is identical. -/
theorem reuse_eq_fresh (d0 : Decoder σ) (hist : List HistOp) (probe rest : Src)
    (h : ((hist.foldl applyHist d0).reset probe).2 = .ok rest) :
    ((hist.foldl applyHist d0).reset probe).1 =
      (({ dicts := d0.dicts, maxWindow := d0.maxWindow } : Decoder σ).reset probe).1 ∧
    (({ dicts := d0.dicts, maxWindow := d0.maxWindow } : Decoder σ).reset probe).2 = .ok rest := by
  have cfg := history_keeps_config d0 hist
  have := reset_eq_fresh (hist.foldl applyHist d0) probe rest h
  rw [cfg.1, cfg.2] at this
  exact this

/-- a frame that names a dictionary the decoder was not given: the error, and the (dictionary-less)
state left behind, are again independent of the history -/
theorem missing_dict_independent_of_history (d0 : Decoder σ) (hist : List HistOp) (probe : Src) (id : Nat)
    (h : ((hist.foldl applyHist d0).reset probe).2 = .err (.dictNotProvided id)) :
    (({ dicts := d0.dicts, maxWindow := d0.maxWindow } : Decoder σ).reset probe).2 = .err (.dictNotProvided id) := by
  have cfg := history_keeps_config d0 hist
  unfold Decoder.reset at h ⊢
  rw [cfg.1, cfg.2] at h
  simp only []
  cases hc : resetCore d0.dicts d0.maxWindow probe with
  | keep e => simp [hc] at h ⊢; exact h
  | replace st' o => simp [hc] at h ⊢; exact h

/-- non-vacuity: a real 13-byte frame (raw block "abcd") resets successfully on a fresh decoder -/
example : (({} : DecA).reset [0x28, 0xB5, 0x2F, 0xFD, 0x00, 0x00, 0x21, 0, 0, 97, 98, 99, 100]).2.isOk = true := by decide


/-! ### instance B: the decoder the drivers run (faithful block decoder, Model/FrameFaithful.lean)

The frame-level model starts every frame from `BlockDec.fresh` (= `DecoderScratch::new`, `{}` for
instance B); the code calls `DecoderScratch::reset` on the scratch it has (`Blk.Scratch.reset`).  The
two agree on every scratch whose three FSE tables still have the alphabets `FSETable::new` gave them —
`max_symbol` is the one field `FSETable::reset` keeps (`reset_covers_fseTable` above) and no decoding
step writes it (`Blk.decompressBlock_alphabets`, Proofs/BlockNoFault.lean). -/

theorem faithful_reset_eq_fresh (s : Blk.Scratch)
    (h1 : s.fse.offsets.maxSymbol = Gen.maxOffsetCode)
    (h2 : s.fse.literalLengths.maxSymbol = Gen.maxLiteralLengthCode)
    (h3 : s.fse.matchLengths.maxSymbol = Gen.maxMatchLengthCode) :
    s.reset = (BlockDec.fresh : Blk.Scratch) := by
  simp only [Blk.Scratch.reset, Fse.DTable.reset, h1, h2, h3]
  rfl

theorem reuse_eq_fresh_faithful (d0 : DecB) (hist : List HistOp) (probe rest : Src)
    (h : ((hist.foldl applyHist d0).reset probe).2 = .ok rest) :
    ((hist.foldl applyHist d0).reset probe).1 =
      (({ dicts := d0.dicts, maxWindow := d0.maxWindow } : DecB).reset probe).1 ∧
    (({ dicts := d0.dicts, maxWindow := d0.maxWindow } : DecB).reset probe).2 = .ok rest :=
  reuse_eq_fresh d0 hist probe rest h

end Zstd.Props.C07
