import Zstd.Proofs.RingDead
/-
C04 — The unsafe output window behaves as a byte queue and never leaves its allocation.

Property theorems only.  Definitions: `Zstd/Model/{RingBuffer,DecodeBuffer}.lean` (the mirror of the Rust
code), `Zstd/Proofs/RingSpec.lean` (`Inv`, `abs`, `Queue`, `overlapCopy`, operation sequences),
`CboPre`/`Copied` in `Zstd/Proofs/RingCbo.lean`, `ClosureOk`/`AcceptsAll` in
`Zstd/Proofs/DecodeBufDrain.lean`; helper lemmas in `Zstd/Proofs/{Ring*,OverlapCopy,DecodeBuf*}.lean`.

How to read `= .ok r'`: the model touches memory only through `Mem.rd` / `Mem.wr`, which return
`Fault.oob` outside the current allocation and `Fault.uninit` on a cell never written since that
allocation; every `debug_assert!`, unguarded `usize` subtraction and `% cap` is a `Fault` too.  So
"the operation returns `.ok`" IS the memory-safety claim, the over-copy of
`copy_bytes_overshooting` included.  `Inv` is literally invariants 1–4 of `ringbuffer.rs:5-21`
(`alloc`: the memory is an allocation of exactly `cap` cells — there are no cells outside it to write;
`init`: the occupied region is initialised; `bounds`: `head`, `tail < cap`, plus the `cap = 0` state of
`new()` which the documented invariant 3 forgets).  Everything is for every capacity, head, tail,
memory content, operand and chunk size `C > 0` (16 on this target) — no bound anywhere.
-/
namespace Zstd.Props.C04
open Zstd Zstd.Model Zstd.Model.RingBuffer

/-! ## 1. Ring buffer: the invariant holds initially; each operation refines the queue -/

theorem inv_new : RingBuffer.new.Inv ∧ RingBuffer.new.abs = [] :=
  ⟨RingBuffer.inv_new, RingBuffer.abs_new⟩

/-- `len()` and `free()` as executed (with their `usize` subtractions) never fault under the invariant
and are the queue's length and `cap - 1 - len`: one cell always stays free -/
theorem len_free_refine (r : RingBuffer) (hI : r.Inv) :
    r.lenC = .ok r.abs.length ∧ r.freeC = .ok r.free ∧ (0 < r.cap → r.abs.length + r.free + 1 = r.cap) := by
  refine ⟨by rw [hI.lenC_eq, abs_length], hI.freeC_eq, fun hc => ?_⟩
  rw [abs_length]; exact hI.len_free hc

/-- `reserve`: content unchanged, enough room afterwards, capacity never shrinks -/
theorem reserve_refines (r : RingBuffer) (n : Nat) (hI : r.Inv) :
    ∃ r', r.reserve n = .ok r' ∧ r'.Inv ∧ r'.abs = r.abs ∧ n ≤ r'.free ∧ r.cap ≤ r'.cap := by
  obtain ⟨r', h, hR⟩ := reserve_ok hI n
  exact ⟨r', h, hR.inv, hR.abs, hR.free, hR.capMono⟩

/-- `reserve(n)` either allocates nothing or the new capacity is at most `2·(len + n) + 2` (for C05) -/
theorem cap_bound (r r' : RingBuffer) (n : Nat) (hI : r.Inv) (h : r.reserve n = .ok r') :
    r'.cap = r.cap ∨ r'.cap ≤ 2 * (r.len + n) + 2 := by
  obtain ⟨r'', h', hR⟩ := reserve_ok hI n
  rw [h] at h'; cases h'; exact hR.capBound

theorem extend_refines (r : RingBuffer) (data : List Byte) (hI : r.Inv) :
    ∃ r', r.extend data = .ok r' ∧ r'.Inv ∧ r'.abs = Queue.append r.abs data := by
  obtain ⟨r', h, hI', ha, _⟩ := extend_ok hI data
  exact ⟨r', h, hI', ha⟩

theorem pushBack_refines (r : RingBuffer) (b : Byte) (hI : r.Inv) :
    ∃ r', r.pushBack b = .ok r' ∧ r'.Inv ∧ r'.abs = Queue.append r.abs [b] := by
  obtain ⟨r', h, hI', ha, _⟩ := pushBack_ok hI b
  exact ⟨r', h, hI', ha⟩

theorem extendAndFill_refines (r : RingBuffer) (b : Byte) (n : Nat) (hI : r.Inv) :
    ∃ r', r.extendAndFill b n = .ok r' ∧ r'.Inv ∧ r'.abs = Queue.fill r.abs b n := by
  obtain ⟨r', h, hI', ha, _⟩ := extendAndFill_ok hI b n
  exact ⟨r', h, hI', ha⟩

/-- `extend_from_reader(reader, n)` for every reader content: on success the `n` bytes are appended; on a
short reader (`Err`) the content is unchanged — the zero-filled / partially filled cells stay in the
free region because `tail` is not advanced — and the invariant holds either way -/
theorem extendFromReader_refines (r : RingBuffer) (avail : List Byte) (n : Nat) (hI : r.Inv) :
    ∃ r' ok rest, r.extendFromReader avail n = .ok (r', ok, rest) ∧ r'.Inv ∧
      (n ≤ avail.length → ok = true ∧ r'.abs = Queue.append r.abs (avail.take n) ∧ rest = avail.drop n) ∧
      (avail.length < n → ok = false ∧ r'.abs = r.abs) := by
  obtain ⟨r', ok, rest, e, hI', h1, h2, _⟩ := extendFromReader_ok hI avail n
  exact ⟨r', ok, rest, e, hI', h1, h2⟩

theorem clear_refines (r : RingBuffer) (hI : r.Inv) : r.clear.Inv ∧ r.clear.abs = Queue.clear r.abs :=
  ⟨(clear_ok hI).1, (clear_ok hI).2.1⟩

/-- `drop_first_n(amount)` with `amount ≤ len()` on an allocated buffer -/
theorem dropFirstN_refines (r : RingBuffer) (n : Nat) (hI : r.Inv) (hc : 0 < r.cap) (hn : n ≤ r.len) :
    ∃ r', r.dropFirstN n = .ok r' ∧ r'.Inv ∧ r'.abs = Queue.dropFront r.abs n := by
  obtain ⟨r', h, hI', ha, _⟩ := dropFirstN_ok hI hc hn
  exact ⟨r', h, hI', ha⟩

/-- `get(idx)` is the queue's indexing (memory is only read) -/
theorem get_refines (r : RingBuffer) (idx : Nat) (hI : r.Inv) :
    ∃ r', r.get idx = .ok (r.abs[idx]?, r') ∧ r'.mem = r.mem ∧ r'.cap = r.cap ∧ r'.head = r.head ∧
      r'.tail = r.tail := by
  obtain ⟨r', h, h1, h2, h3, h4⟩ := get_ok hI idx
  exact ⟨r', h, h4, h1, h2, h3⟩

/-- `as_slices()` are two initialised regions whose concatenation is the queue content -/
theorem asSlices_refines (r : RingBuffer) (hI : r.Inv) :
    ∃ a b r', r.asSlices = .ok ((a, b), r') ∧ a ++ b = r.abs ∧ r'.mem = r.mem ∧ r'.cap = r.cap ∧
      r'.head = r.head ∧ r'.tail = r.tail := by
  obtain ⟨a, b, r', h, hab, _, h1, h2, h3, h4⟩ := asSlices_ok hI
  exact ⟨a, b, r', h, hab, h4, h1, h2, h3⟩

/-! ## 2. Copy-from-within: the historically buggy part -/

/-- `copy_bytes_overshooting` under the contract its callers owe it (`CboPre`: `src` initialised on
its first `min srcLen dstLen` bytes — nothing else is assumed of the memory, in particular every other
cell may be uninitialised —, `dst` inside the allocation, `src`/`dst` disjoint, `n ≤ srcLen, dstLen`):
it does not fault on any of its three paths, hence reads only initialised bytes of the source region
and writes only inside the destination region; it moves `k` bytes with `n ≤ k ≤ min srcLen dstLen`;
every cell outside `[dstOff, dstOff + k)` is unchanged; the trailing `debug_assert_eq!` holds. -/
theorem overshoot_confined (C : Nat) (hC : 0 < C) (m : Mem) (c : CboCall) (h : CboPre m c) :
    ∃ m' k, cbo C m c = .ok m' ∧ c.n ≤ k ∧ k ≤ min c.srcLen c.dstLen ∧ m'.size = m.size ∧
      (∀ j, ¬ (c.dstOff ≤ j ∧ j < c.dstOff + k) → m'.cell j = m.cell j) ∧
      (∀ i, i < k → m'.cell (c.dstOff + i) = m.cell (c.srcOff + i)) := by
  obtain ⟨m', k, h1, hk1, hk2, hk3, hcp⟩ := cbo_ok hC h
  refine ⟨m', k, h1, hk1, by omega, hcp.1, fun j hj => hcp.outside hj, ?_⟩
  intro i hi
  rw [hcp.inside (by omega)]
  congr 1; omega

/-- the read side made explicit: make every cell uninitialised except the first `min srcLen dstLen`
bytes of the source region — the routine still succeeds, on all three paths.  A raw read of any other
cell would have been `Fault.uninit`, so it reads nothing outside the source region handed to it. -/
theorem overshoot_reads_confined (C : Nat) (hC : 0 < C) (m : Mem) (c : CboCall) (h : CboPre m c) :
    ∃ m', cbo C (m.eraseOutside c.srcOff (min c.srcLen c.dstLen)) c = .ok m' :=
  cbo_reads_confined hC h

/-- `extend_from_within_unchecked(start, len)` under exactly the two requirements of its `SAFETY`
comment — `start + len ≤ len()` and `len ≤ free()` — on an allocated buffer, in all three geometric
cases: no fault (all five `copy_bytes_overshooting` call sites satisfy `CboPre`), the invariant is
kept, and the abstract content is the old content followed by the copied range (so the over-copy is
invisible: `abs` outside the appended range is unchanged). -/
theorem extendFromWithinUnchecked_refines (C : Nat) (hC : 0 < C) (r : RingBuffer) (start len : Nat)
    (hI : r.Inv) (hc : 0 < r.cap) (h1 : start + len ≤ r.len) (h2 : len ≤ r.free) :
    ∃ r', r.extendFromWithinUnchecked C start len = .ok r' ∧ r'.Inv ∧
      r'.abs = Queue.copyWithin r.abs start len := by
  obtain ⟨r', h, hI', ha, _⟩ := efwu_ok hC hI hc h1 h2
  exact ⟨r', h, hI', ha⟩

/-- the five call sites, explicitly.  Under the `SAFETY` requirements the `copy_bytes_overshooting` calls
the model executes (its ghost trace) are exactly `efwuCalls r start len` — the (src offset, src len, dst
offset, dst len, copy_at_least) tuples the Rust code computes in its three geometric cases — … -/
theorem call_sites_are_efwuCalls (C : Nat) (hC : 0 < C) (r : RingBuffer) (start len : Nat)
    (hI : r.Inv) (hc : 0 < r.cap) (h1 : start + len ≤ r.len) (h2 : len ≤ r.free) :
    ∃ r', r.extendFromWithinUnchecked C start len = .ok r' ∧
      r'.log = ((efwuCalls r start len).flatMap (cboEvents C)).reverse ++ r.log := by
  obtain ⟨r', h, _, _, _, _, hl⟩ := efwu_ok hC hI hc h1 h2
  exact ⟨r', h, hl⟩

/-- … and every one of them hands over regions with the right geometry (`CallGeom`): each source byte the
routine may read is an occupied (initialised) cell, the WHOLE destination region — not just the part
that is meant to be filled — consists of free cells inside the allocation (hence source and
destination are disjoint and the over-copy can only hit free cells), and the requested length fits
both.  A miscalculated region length, the historical bug, is a violation of exactly this. -/
theorem call_sites_geometry (r : RingBuffer) (start len : Nat) (hI : r.Inv) (hc : 0 < r.cap)
    (h1 : start + len ≤ r.len) (h2 : len ≤ r.free) :
    ∀ c, c ∈ efwuCalls r start len → CallGeom r c :=
  efwuCalls_geom hI hc h1 h2

/-- conversely, the model (debug assertions on) faults when a `SAFETY` requirement is violated, so
`.ok` at a call site means the caller established the requirements -/
theorem extendFromWithinUnchecked_pre_of_ok (C : Nat) (r r' : RingBuffer) (start len : Nat) (hI : r.Inv)
    (h : r.extendFromWithinUnchecked C start len = .ok r') : start + len ≤ r.len ∧ len ≤ r.free :=
  efwu_pre_of_ok hI h

/-- the checked `extend_from_within` establishes the requirements itself (`reserve` first) … -/
theorem extendFromWithin_refines (C : Nat) (hC : 0 < C) (r : RingBuffer) (start len : Nat)
    (hI : r.Inv) (h1 : start + len ≤ r.len) (hne : 0 < r.len) :
    ∃ r', r.extendFromWithin C start len = .ok r' ∧ r'.Inv ∧ r'.abs = Queue.copyWithin r.abs start len := by
  obtain ⟨r', h, hI', ha, _⟩ := extendFromWithin_ok hC hI h1 hne
  exact ⟨r', h, hI', ha⟩

/-- … and panics (as documented) when the range is not inside the buffer -/
theorem extendFromWithin_panics (C : Nat) (r : RingBuffer) (start len : Nat) (hI : r.Inv)
    (h1 : ¬ start + len ≤ r.len) : ∃ f, r.extendFromWithin C start len = .error f :=
  RingBuffer.extendFromWithin_panics hI h1

/-! ## 3. Every operation sequence -/

/-- whatever the operations and operands (inside or outside their contracts): a sequence that does not
panic ends in a state satisfying the invariant -/
theorem reachable_inv (C : Nat) (hC : 0 < C) (ops : List RingOp) (r : RingBuffer)
    (h : runRing C ops RingBuffer.new = .ok r) : r.Inv :=
  runRing_inv hC ops RingBuffer.inv_new h

/-- every sequence of operations inside their contracts (`runQueue … = some q`: ranges inside the
content, `drop_first_n`/copy-from-within only on a buffer that holds data — see `RingOp.applyQ`) runs
without fault on the ring buffer and leaves exactly the content of the byte queue; the allocation
never exceeds `2·peak + 2` cells, `peak` = the largest `len + requested` seen along the way -/
theorem reachable_refines (C : Nat) (hC : 0 < C) (ops : List RingOp) (q : List Byte)
    (h : runQueue ops [] = some q) :
    ∃ r, runRing C ops RingBuffer.new = .ok r ∧ r.Inv ∧ r.abs = q ∧ r.cap ≤ 2 * peakQueue ops [] + 2 := by
  obtain ⟨r, e, hI, ha, hc⟩ := runRing_refines hC ops RingBuffer.inv_new
    (q := q) (by rw [RingBuffer.abs_new]; exact h)
  rw [RingBuffer.abs_new] at hc
  have : RingBuffer.new.cap = 0 := rfl
  exact ⟨r, e, hI, ha, by omega⟩

/-! ## 4. DecodeBuffer: callers establish the preconditions -/

/-- `repeat` for every `offset > 0` (what `execute_sequences` guarantees; any `match_length`, content,
dictionary, window size, counter): never a `Fault`.  Since the model's unchecked copy faults exactly when
a `SAFETY` requirement is violated (`extendFromWithinUnchecked_pre_of_ok`), every call `repeat`,
`repeat_in_chunks` and `repeat_from_dict` (incl. its recursive continuation) make satisfies them. -/
theorem decodeBuffer_pre_established (C : Nat) (hC : 0 < C) (d : DecodeBuffer) (offset ml : Nat)
    (hI : d.Inv) (ho : 0 < offset) :
    ∃ d' res, d.repeat C offset ml = .ok (d', res) ∧ d'.Inv ∧ (res ≠ .ok () → d' = d) := by
  obtain ⟨d', res, e, hI', h, _⟩ := DecodeBuffer.repeat_noFault hC hI ho ml
  exact ⟨d', res, e, hI', h⟩

/-- any sequence of `DecodeBuffer` calls (`reset`, dictionary assignment, `push`, `repeat` with
`offset > 0`, `extend_and_fill`, `extend_from_reader`, all six draining functions under every sink
script / target size) starting from `DecodeBuffer::new(ws)`: no `Fault`, invariant kept, and the
allocation never exceeds `2·peak + 2` cells, `peak` = the largest `len + requested` seen (for C05) -/
theorem decodeBuffer_noFault (C : Nat) (hC : 0 < C) (ws : Nat) (ops : List DbOp)
    (hops : ∀ op, op ∈ ops → op.fromDecoder) :
    ∃ d, runDb C ops (DecodeBuffer.new ws) = .ok d ∧ d.Inv ∧
      d.buffer.cap ≤ 2 * peakDb C ops (DecodeBuffer.new ws) + 2 := by
  obtain ⟨d, e, hI, hc⟩ := runDb_ok hC ops (DecodeBuffer.inv_new ws).1 hops
  have : (DecodeBuffer.new ws).buffer.cap = 0 := rfl
  exact ⟨d, e, hI, by omega⟩

/-- one step of that bound: a call that asks for `n` more bytes either keeps the allocation or the new
one has at most `2·(len + n) + 2` cells, and it never shrinks (`CapStep`) -/
theorem decodeBuffer_cap_step (C : Nat) (hC : 0 < C) (d : DecodeBuffer) (op : DbOp) (hI : d.Inv)
    (hop : op.fromDecoder) :
    ∃ d', op.apply C d = .ok d' ∧ d'.Inv ∧ d.buffer.cap ≤ d'.buffer.cap ∧
      (d'.buffer.cap = d.buffer.cap ∨ d'.buffer.cap ≤ 2 * (d.abs.length + op.request) + 2) := by
  obtain ⟨d', e, hI', hcs⟩ := op.apply_ok hC hI hop
  have : d.abs.length = d.buffer.len := abs_length
  exact ⟨d', e, hI', hcs.mono, by rw [this]; exact hcs.bound⟩

theorem push_refines (d : DecodeBuffer) (data : List Byte) (hI : d.Inv) :
    ∃ d', d.push data = .ok d' ∧ d'.Inv ∧ d'.abs = d.abs ++ data ∧ d'.total = d.total + data.length :=  by
  obtain ⟨d', e, hI', ha, ht, _⟩ := DecodeBuffer.push_ok hI data
  exact ⟨d', e, hI', ha, ht⟩

theorem reset_refines (d : DecodeBuffer) (ws : Nat) (hI : d.Inv) :
    ∃ d', d.reset ws = .ok d' ∧ d'.Inv ∧ d'.abs = [] ∧ d'.dict = [] ∧ d'.windowSize = ws ∧
      d'.total = 0 ∧ d'.hash = [] ∧ ws ≤ d'.buffer.free := by
  obtain ⟨d', e, h1, h2, h3, h4, h5, h6, h7, _⟩ := DecodeBuffer.reset_ok hI ws
  exact ⟨d', e, h1, h2, h3, h4, h5, h6, h7⟩

/-- `repeat(offset, n)` with `0 < offset ≤ len` appends the byte-by-byte overlapping copy, whether it
goes through one unchecked copy (`n ≤ offset`) or through `repeat_in_chunks` -/
theorem repeat_eq_overlapCopy (C : Nat) (hC : 0 < C) (d : DecodeBuffer) (offset n : Nat) (hI : d.Inv)
    (ho : 0 < offset) (hol : offset ≤ d.abs.length) :
    ∃ d', d.repeat C offset n = .ok (d', .ok ()) ∧ d'.Inv ∧ d'.abs = overlapCopy d.abs offset n ∧
      d'.total = d.total + n ∧ d'.hash = d.hash := by
  obtain ⟨d', e, hI', ha, ht, _, _, hh, _⟩ := DecodeBuffer.repeat_ok hC hI ho
    (by rw [← abs_length (r := d.buffer)]; exact hol) (ml := n)
  exact ⟨d', e, hI', ha, ht, hh⟩

/-- the dictionary variant (`offset > len`, counter within the window, enough dictionary): the same copy
over `dict ++ content`; the counter is advanced only when the match continues into the buffer —
exactly as written in `repeat_from_dict` -/
theorem repeat_dict_eq_overlapCopy (C : Nat) (hC : 0 < C) (d : DecodeBuffer) (offset n : Nat)
    (hI : d.Inv) (hol : offset > d.abs.length) (ht : d.total ≤ d.windowSize)
    (hb : offset - d.abs.length ≤ d.dict.length) :
    ∃ d', d.repeat C offset n = .ok (d', .ok ()) ∧ d'.Inv ∧
      d'.abs = (overlapCopy (d.dict ++ d.abs) offset n).drop d.dict.length ∧
      d'.total = (if offset - d.abs.length < n then d.total + n else d.total) := by
  have hl : d.abs.length = d.buffer.len := abs_length
  obtain ⟨d', e, hI', ha, ht', _⟩ := DecodeBuffer.repeat_dict_ok hC hI (offset := offset) (ml := n)
    (by omega) ht (by omega)
  exact ⟨d', e, hI', ha, by rw [ht', hl]⟩

/-- the two error arms: `OffsetTooBig` when the counter is beyond the window, `NotEnoughBytesInDictionary`
otherwise; the buffer is untouched -/
theorem repeat_errors (C : Nat) (d : DecodeBuffer) (offset n : Nat) (hI : d.Inv)
    (hol : offset > d.abs.length) :
    (d.total > d.windowSize →
      d.repeat C offset n = .ok (d, .error (.offsetTooBig offset d.abs.length))) ∧
    (d.total ≤ d.windowSize → offset - d.abs.length > d.dict.length →
      d.repeat C offset n =
        .ok (d, .error (.notEnoughBytesInDictionary d.dict.length (offset - d.abs.length)))) := by
  have hl : d.abs.length = d.buffer.len := abs_length
  rw [hl]
  exact DecodeBuffer.repeat_dict_err hI (by omega)

/-- a prefix the offset cannot reach does not matter: the window suffices (for C06) -/
theorem overlapCopy_window_suffices (dropped kept : List Byte) (offset n : Nat) (h : offset ≤ kept.length) :
    overlapCopy (dropped ++ kept) offset n = dropped ++ overlapCopy kept offset n :=
  overlapCopy_append_left dropped kept offset h n

/-! ## 5. Draining: delivered = dropped = hashed, for every sink -/

/-- `drain_to(amount, write_bytes)` with its `DrainGuard`, for every amount and every closure that honours
the `std::io` contract (`ClosureOk`): whatever the closure does — partial acceptance of the first ring
segment (then the second is not attempted), `Ok(0)`, an error after a partial write — exactly the first
`k ≤ amount` bytes were handed over, dropped from the buffer and fed to the hasher, in order; `Ok(n)`
reports `n = k`; a closure that takes everything drains exactly `min amount len`. -/
theorem drain_exact {σ : Type} (wb : σ → List Byte → Except Fault (Nat × Option IoErr × σ))
    (delivered : σ → List Byte) (hwb : DecodeBuffer.ClosureOk wb delivered) (d d' : DecodeBuffer)
    (amount : Nat) (s s' : σ) (res : Except IoErr Nat) (hI : d.Inv)
    (h : d.drainTo amount wb s = .ok (d', s', res)) :
    ∃ k, k ≤ amount ∧ k ≤ d.abs.length ∧ delivered s' = delivered s ++ d.abs.take k ∧
      d'.abs = d.abs.drop k ∧ d'.hash = d.hash ++ d.abs.take k ∧ d'.Inv ∧
      (∀ n, res = .ok n → n = k) ∧
      (DecodeBuffer.AcceptsAll wb → k = min amount d.abs.length ∧ res = .ok k) := by
  obtain ⟨k, h1, h2, h3, h4, h5, h6, h7, h8, _⟩ := DecodeBuffer.drainTo_exact hwb hI h
  exact ⟨k, h1, h2, h3, h4, h5, h6, h7, h8⟩

/-- `write_all_bytes` for every sink script: at most what was offered, and the sink got that prefix -/
theorem sinkWriteAll_exact (sink : Sink) (buf : List Byte) :
    (sinkWriteAll sink buf).1 ≤ buf.length ∧
    (sinkWriteAll sink buf).2.2.got = sink.got ++ buf.take (sinkWriteAll sink buf).1 :=
  sinkWriteAll_spec sink buf

/-- `drain_to_writer(sink)` never panics and is exact for every sink script -/
theorem drainToWriter_exact (d : DecodeBuffer) (sink : Sink) (hI : d.Inv) :
    ∃ d' sink' res k, d.drainToWriter sink = .ok (d', sink', res) ∧ k ≤ d.abs.length ∧
      sink'.got = sink.got ++ d.abs.take k ∧ d'.abs = d.abs.drop k ∧
      d'.hash = d.hash ++ d.abs.take k ∧ d'.Inv ∧ (∀ n, res = .ok n → n = k) ∧
      d'.buffer.cap = d.buffer.cap :=
  DecodeBuffer.drainToWriter_ok hI sink

/-- `drain_to_window_size_writer(sink)`: same, and never more than `len - window_size` -/
theorem drainToWindowSizeWriter_exact (d : DecodeBuffer) (sink : Sink) (hI : d.Inv) :
    ∃ d' sink' res k, d.drainToWindowSizeWriter sink = .ok (d', sink', res) ∧
      k ≤ d.abs.length - d.windowSize ∧
      sink'.got = sink.got ++ d.abs.take k ∧ d'.abs = d.abs.drop k ∧
      d'.hash = d.hash ++ d.abs.take k ∧ d'.Inv ∧ (∀ n, res = .ok n → n = k) ∧
      d'.buffer.cap = d.buffer.cap :=
  DecodeBuffer.drainToWindowSizeWriter_ok hI sink

/-- `read(target)`: exactly `min (len - window_size) target.len()` bytes, the window is retained -/
theorem read_exact (d : DecodeBuffer) (targetLen : Nat) (hI : d.Inv) :
    ∃ d', d.read targetLen = .ok (d', d.abs.take (min (d.abs.length - d.windowSize) targetLen),
        .ok (min (d.abs.length - d.windowSize) targetLen)) ∧ d'.Inv ∧
      d'.abs = d.abs.drop (min (d.abs.length - d.windowSize) targetLen) ∧
      d'.hash = d.hash ++ d.abs.take (min (d.abs.length - d.windowSize) targetLen) := by
  obtain ⟨d', e, hI', ha, hh, _⟩ := DecodeBuffer.read_ok hI targetLen
  exact ⟨d', e, hI', ha, hh⟩

/-- `read_all(target)`: exactly `min len target.len()` bytes -/
theorem readAll_exact (d : DecodeBuffer) (targetLen : Nat) (hI : d.Inv) :
    ∃ d', d.readAll targetLen = .ok (d', d.abs.take (min d.abs.length targetLen),
        .ok (min d.abs.length targetLen)) ∧ d'.Inv ∧
      d'.abs = d.abs.drop (min d.abs.length targetLen) ∧
      d'.hash = d.hash ++ d.abs.take (min d.abs.length targetLen) := by
  obtain ⟨d', e, hI', ha, hh, _⟩ := DecodeBuffer.readAll_ok hI targetLen
  exact ⟨d', e, hI', ha, hh⟩

/-- `drain()`: everything, hashed, buffer empty afterwards -/
theorem drain_all (d : DecodeBuffer) (hI : d.Inv) :
    ∃ d', d.drain = .ok (d', d.abs) ∧ d'.Inv ∧ d'.abs = [] ∧ d'.hash = d.hash ++ d.abs := by
  obtain ⟨d', e, hI', ha, hh, _⟩ := DecodeBuffer.drain_ok hI
  exact ⟨d', e, hI', ha, hh⟩

/-- `drain_to_window_size()`: `None` when nothing exceeds the window, else exactly the excess -/
theorem drainToWindowSize_exact (d : DecodeBuffer) (hI : d.Inv) :
    (d.abs.length ≤ d.windowSize → d.drainToWindowSize = .ok (d, none)) ∧
    (d.abs.length > d.windowSize → ∃ d', d.drainToWindowSize =
        .ok (d', some (d.abs.take (d.abs.length - d.windowSize))) ∧ d'.Inv ∧
      d'.abs = d.abs.drop (d.abs.length - d.windowSize) ∧
      d'.hash = d.hash ++ d.abs.take (d.abs.length - d.windowSize) ∧
      d'.buffer.cap = d.buffer.cap) :=
  DecodeBuffer.drainToWindowSize_ok hI

/-! ## 6. Outside the decoder's contract (kept visible; none is reachable from `execute_sequences`)

Three operations end in `% self.cap` without reserving anything first.  On a never-allocated buffer
(`cap = 0`) they divide by zero; `repeat` with `offset = 0` and a non-zero length never terminates.
The decoder cannot reach them (`ZeroOffset` is rejected before `repeat`; `DrainGuard` only drops when
`amount ≠ 0`), which is exactly why the theorems above carry `0 < offset` / `0 < len`. -/

/-- `drop_first_n(n)` on a never-allocated buffer panics for every `n` -/
theorem dropFirstN_unallocated_panics (r : RingBuffer) (n : Nat) (hI : r.Inv) (hc : r.cap = 0) :
    ∃ f, r.dropFirstN n = .error f :=
  RingBuffer.dropFirstN_unallocated hI hc n

/-- so does the unchecked copy (hence `extend_from_within(0, 0)` and `repeat(0, 0)` on a fresh buffer) -/
theorem extendFromWithinUnchecked_unallocated_panics (C : Nat) (r : RingBuffer) (start len : Nat)
    (hI : r.Inv) (hc : r.cap = 0) : ∃ f, r.extendFromWithinUnchecked C start len = .error f :=
  RingBuffer.efwu_unallocated hI hc start len

theorem new_extendFromWithin_zero_divZero :
    (RingBuffer.new.extendFromWithin 16 0 0 >>= fun r => pure r.cap) =
      .error (.divZero "ringbuffer.rs:extend_from_within_unchecked:%cap") := by decide +kernel

theorem new_repeat_zero_zero_divZero :
    ((DecodeBuffer.new 8).repeat 16 0 0 >>= fun r => pure r.1.abs) =
      .error (.divZero "ringbuffer.rs:extend_from_within_unchecked:%cap") := by decide +kernel

/-- `repeat(0, n)` with `n > 0` spins forever in `repeat_in_chunks` (chunk size 0, every zero-length copy
succeeds); the model reports it as the `hang` fault after `n` iterations without progress — for every
buffer state.  This is why the `ZeroOffset` rejection in `execute_sequences` is load-bearing. -/
theorem repeat_offset_zero_hangs (C : Nat) (hC : 0 < C) (d : DecodeBuffer) (n : Nat) (hI : d.Inv)
    (hn : 0 < n) : d.repeat C 0 n = .error (hang "decode_buffer.rs:repeat_in_chunks") :=
  DecodeBuffer.repeat_offset_zero_hangs hC hI hn

/-! ## 6b. Dead code (`#[allow(dead_code)]`, referenced by nothing): complete characterisation

`extend_from_within_unchecked_branchless` + `copy_with_checks`, under the same `SAFETY` requirements. -/

/-- when the copy stays strictly before the end of the allocation's first free section it is memory-safe
and refines the queue like the live variant … -/
theorem branchless_refines (r : RingBuffer) (start len : Nat) (hI : r.Inv) (hc : 0 < r.cap)
    (h1 : start + len ≤ r.len) (h2 : len ≤ r.free)
    (hend : ¬ (r.head ≤ r.tail ∧ r.cap - r.tail ≤ len)) :
    ∃ r', r.extendFromWithinUncheckedBranchless start len = .ok r' ∧ r'.Inv ∧
      r'.abs = Queue.copyWithin r.abs start len :=
  RingBuffer.efwub_ok hI hc h1 h2 hend

/-- … and in exactly the remaining case it trips its own over-strict `debug_assert!` (`>` where `>=` is
meant): with debug assertions on, the code that writes into the second free section can never run.
A defect of dead code only; the live `extend_from_within_unchecked` has no such assertion. -/
theorem branchless_overstrict_assert (r : RingBuffer) (start len : Nat) (hI : r.Inv) (hc : 0 < r.cap)
    (h1 : start + len ≤ r.len) (h2 : len ≤ r.free) (hend : r.head ≤ r.tail ∧ r.cap - r.tail ≤ len) :
    ∃ s, r.extendFromWithinUncheckedBranchless start len = .error (.assert s) :=
  ⟨_, RingBuffer.efwub_overstrict_assert hI hc h1 h2 hend⟩

/-! ## 7. Non-vacuity: concrete wrapped, (nearly) full states for each geometric case, `C = 16`, `cap = 33` -/

private def exBytes (n k : Nat) : List Nat := (List.range n).map (fun i => (i * 7 + k) % 256)

private def obs (r : Except Fault RingBuffer) : Except Fault (Nat × Nat × Nat × Nat × List Byte) :=
  r >>= fun r => pure (r.cap, r.head, r.tail, r.free, r.abs)

/-- state A: `cap 33, head 10, tail 30` (`head < tail`), 12 cells free -/
private def exA : List RingOp := [.reserve 32, .extend (exBytes 30 1), .dropFirstN 10]
/-- state B: `cap 33, head 20, tail 9` (wrapped), 10 cells free -/
private def exB : List RingOp := [.reserve 32, .extend (exBytes 32 1), .dropFirstN 20, .extend (exBytes 10 3)]

example : obs (runRing 16 exA .new) = .ok (33, 10, 30, 12, (exBytes 30 1).drop 10) := by decide +kernel
example : obs (runRing 16 exB .new) = .ok (33, 20, 9, 10, (exBytes 32 1).drop 20 ++ exBytes 10 3) := by
  decide +kernel

/-- case 1 (`head < tail`), destination wraps (3 cells after `tail`, 9 at the front), exact fill:
the buffer is full afterwards (`free = 0`) and `tail` has wrapped to 9 -/
example : obs (runRing 16 (exA ++ [.reserveThenUnchecked 0 12]) .new) =
    .ok (33, 10, 9, 0, (exBytes 30 1).drop 10 ++ ((exBytes 30 1).drop 10).take 12) := by decide +kernel

/-- case 2 (`tail ≤ head`, `head + start > cap`): source and destination both below `head` -/
example : obs (runRing 16 (exB ++ [.reserveThenUnchecked 14 8]) .new) =
    .ok (33, 20, 17, 2, ((exBytes 32 1).drop 20 ++ exBytes 10 3) ++
      (((exBytes 32 1).drop 20 ++ exBytes 10 3).drop 14).take 8) := by decide +kernel

/-- case 3 (`tail ≤ head`, `head + start ≤ cap`), source wraps (8 bytes before the end, 2 at the
front), exact fill: full afterwards -/
example : obs (runRing 16 (exB ++ [.reserveThenUnchecked 5 10]) .new) =
    .ok (33, 20, 19, 0, ((exBytes 32 1).drop 20 ++ exBytes 10 3) ++
      (((exBytes 32 1).drop 20 ++ exBytes 10 3).drop 5).take 10) := by decide +kernel

/-- the calls of the case-1 example above: 3 bytes to the end of the allocation, 9 at the front -/
example : efwuCalls { cap := 33, head := 10, tail := 30 } 0 12 =
    [⟨10, 20, 30, 3, 3⟩, ⟨13, 17, 0, 10, 9⟩] := by decide

/-- the one-chunk fast path overshoots: 3 bytes requested, 16 moved, still inside the free region -/
example : cboPath 16 ⟨0, 20, 20, 20, 3⟩ = (1, 16) := by decide

/-- `repeat` with overlap (offset 2, length 5) and from the dictionary -/
example : (((DecodeBuffer.new 8).push [1, 2, 3]) >>= fun d => d.repeat 16 2 5 >>= fun r => pure r.1.abs) =
    .ok [1, 2, 3, 2, 3, 2, 3, 2] := by decide +kernel
example : overlapCopy [1, 2, 3] 2 5 = [1, 2, 3, 2, 3, 2, 3, 2] := by decide
example : ((pure { DecodeBuffer.new 8 with dict := [7, 8, 9] } : Except Fault DecodeBuffer) >>= fun d =>
    d.push [1] >>= fun d => d.repeat 16 3 6 >>= fun r => pure (r.1.abs, r.2)) =
    .ok ([1, 8, 9, 1, 8, 9, 1], .ok ()) := by decide +kernel

/-- a sink that takes 2 bytes, then fails: 2 bytes delivered, dropped and hashed, `Err` returned -/
example : ((DecodeBuffer.new 0).push [1, 2, 3, 4] >>= fun d =>
    d.drainToWriter { script := [.accept 2, .err 5] } >>= fun r =>
    pure (r.1.abs, r.1.hash, r.2.1.got, r.2.2)) = .ok ([3, 4], [1, 2], [1, 2], .error 5) := by
  decide +kernel

/-- the hypotheses of `drain_exact` are satisfiable: the three closures the code uses honour the contract -/
example : DecodeBuffer.ClosureOk DecodeBuffer.sinkClosure Sink.got := DecodeBuffer.sinkClosure_ok
example : DecodeBuffer.ClosureOk DecodeBuffer.vecClosure id := DecodeBuffer.vecClosure_ok
example : DecodeBuffer.ClosureOk DecodeBuffer.targetClosure (fun st => st.2) := DecodeBuffer.targetClosure_ok

/-- dead code: the same geometry (`cap 17, head 2, tail 12`), a copy that ends one cell before the end of
the allocation succeeds, one that ends exactly there trips the over-strict assertion -/
private def exC : List RingOp := [.reserve 16, .extend (exBytes 12 1), .dropFirstN 2]
example : obs (runRing 16 exC .new >>= fun r => r.extendFromWithinUncheckedBranchless 0 4) =
    .ok (17, 2, 16, 2, (exBytes 12 1).drop 2 ++ ((exBytes 12 1).drop 2).take 4) := by decide +kernel
example : obs (runRing 16 exC .new >>= fun r => r.extendFromWithinUncheckedBranchless 0 5) =
    .error (.assert "ringbuffer.rs:extend_from_within_unchecked_branchless:debug_assert(buf+cap>f1_ptr+..)") := by
  decide +kernel

end Zstd.Props.C04
