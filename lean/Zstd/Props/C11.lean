import Zstd.Model.Window
import Zstd.Spec.Tables
import Zstd.Spec.Headers
import Zstd.Proofs.Window
/-
C11 — Frames declaring a window above the configured limit are rejected up front.

Property theorems only.  The model (`Zstd/Model/Window.lean`) takes the comparison operator of
`check_window_size`, the order "read header → window_size()? → check → (re)allocate scratch", the
clamp in the setter, the default limit, which limit each path passes, and what the error reports
from `Zstd.Gen.Guards` / `Zstd.Gen.Consts`, i.e. from the current source text: changing `>` to
`>=`, dropping the check on one path, moving the allocation before the check or removing the clamp
changes a `Gen` constant and these theorems are re-checked against it.

All theorems are for EVERY decoder value `d` — any history of earlier frames, any set of
dictionaries, any limit — both for the first-use path (`d.state = none`, `FrameDecoderState::new`)
and the reuse path (`d.state = some _`, `FrameDecoderState::reset`).
-/
set_option linter.unusedSimpArgs false
set_option linter.unusedVariables false
namespace Zstd.Props.C11
open Zstd Zstd.Model Zstd.Model.Hdr Zstd.Proofs.Window

/-- RFC 8878: the window a frame header asks for, when the format allows it.  Single-segment
frames: Frame_Content_Size (no range restriction).  Otherwise Window_Size from the
Window_Descriptor, which must lie in [1 KiB, (1<<41) + 7·(1<<38)]. -/
def legalWindow (h : DecFrameHeader) : Option Nat :=
  if (Spec.parseFrameDesc h.desc).singleSegment then some h.fcs
  else
    let w := Spec.windowSize h.windowDescriptor
    if Spec.windowMin ≤ w ∧ w ≤ Spec.windowMax then some w else none

/-- "`reset`/`init` got past the window check": it succeeded, or it failed only afterwards because
the frame's dictionary was not registered -/
def PastWindowCheck (r : Except FrameDecErr Unit) : Prop :=
  r = .ok () ∨ ∃ id, r = .error (.dictNotProvided id)

/-- header fields that came out of `read_frame_header` on a byte source -/
def ByteHeader (h : DecFrameHeader) : Prop := h.desc < 256 ∧ h.windowDescriptor < 256

theorem readFrameHeader_byteHeader (src : List Nat) (h : DecFrameHeader) (n : Nat) (rest : List Nat)
    (hb : ∀ b ∈ src, b < 256) (hsrc : readFrameHeader src = .ok (h, n, rest)) : ByteHeader h := by
  simp only [readFrameHeader] at hsrc
  split at hsrc
  · cases hsrc
  · rename_i mb s1 hre
    have hs1 : ∀ b ∈ s1, b < 256 := by
      simp only [readExact] at hre
      split at hre
      · cases hre
      · injection hre with hre; injection hre with _ h2; subst h2
        exact fun b hb' => hb b (List.mem_of_mem_drop hb')
    split at hsrc
    · split at hsrc <;> cases hsrc
    · split at hsrc
      · cases hsrc
      · split at hsrc
        · cases hsrc
        · rename_i d s2
          have hd : d < 256 := hs1 d (by simp)
          split at hsrc
          · cases hsrc
          · rename_i wd nw s3 hwin
            have hwd : wd < 256 := by
              split at hwin
              · injection hwin with hwin; injection hwin with hw _; omega
              · split at hwin
                · cases hwin
                · rename_i w s3'
                  injection hwin with hwin; injection hwin with hw _
                  subst hw; exact hs1 w (by simp)
            split at hsrc
            · cases hsrc
            · split at hsrc
              · cases hsrc
              · split at hsrc
                · cases hsrc
                · split at hsrc
                  · cases hsrc
                  · injection hsrc with hsrc
                    injection hsrc with hh _
                    subst hh
                    exact ⟨hd, hwd⟩

/-- what the code computes as the window is the RFC's legal window, for every byte header -/
theorem windowSize_legal (h : DecFrameHeader) (hb : ByteHeader h) :
    ∃ w, h.windowSize = .ok w ∧ legalWindow h = some w := by
  obtain ⟨hd, hwd⟩ := hb
  have hs := Zstd.Proofs.Headers.fd_single h.desc hd
  cases hss : (Spec.parseFrameDesc h.desc).singleSegment
  · refine ⟨Spec.windowSize h.windowDescriptor, ?_, ?_⟩
    · simp only [DecFrameHeader.windowSize, hs, hss, Bool.false_eq_true, if_false]
      exact Zstd.Proofs.Headers.window_check _ hwd
    · have := Zstd.Proofs.Headers.window_range _ hwd
      simp only [legalWindow, hss, Bool.false_eq_true, if_false, this, and_self, if_true]
  · exact ⟨h.fcs, by simp only [DecFrameHeader.windowSize, hs, hss, if_true], by simp only [legalWindow, hss, if_true]⟩

/-! ## the limit -/

/-- a new decoder's limit is 128 MiB -/
theorem default_limit : FrameDecoder.new.maxWindow = 128 * 1024 * 1024 := by decide

/-- the setter stores `min(requested, format maximum)`, for every requested value and decoder -/
theorem setter_clamps : ∀ (d : FrameDecoder) m, (d.setMaxWindowSize m).maxWindow = min m Spec.windowMax ∧
    (d.setMaxWindowSize m).maxWindow ≤ Spec.windowMax ∧
    (d.setMaxWindowSize m).state = d.state ∧ (d.setMaxWindowSize m).log = d.log := by
  intro d m
  have e : Gen.maxWindowSize = Spec.windowMax := by decide
  have h1 : (d.setMaxWindowSize m).maxWindow = min m Spec.windowMax := by
    simp only [FrameDecoder.setMaxWindowSize, Gen.setMaxWindowClamps, if_true, e]
  exact ⟨h1, by rw [h1]; exact Nat.min_le_right _ _, rfl, rfl⟩

/-- `reset` never changes the limit or the registered dictionaries -/
theorem reset_keeps_limit : ∀ (d : FrameDecoder) src, (d.reset src).1.maxWindow = d.maxWindow ∧ (d.reset src).1.dicts = d.dicts := by
  intro d src
  cases hsrc : readFrameHeader src with
  | error e => rw [reset_header_error d src e hsrc]; exact ⟨rfl, rfl⟩
  | ok r =>
    obtain ⟨h, n, rest⟩ := r
    cases hw : h.windowSize with
    | error e => rw [reset_window_error d src h n rest e hsrc hw]; exact ⟨rfl, rfl⟩
    | ok w =>
      rw [reset_eq d src h n rest w hsrc hw]
      by_cases hgt : w > d.maxWindow
      · rw [if_pos hgt]; exact ⟨rfl, rfl⟩
      · rw [if_neg hgt]
        cases h.dictId with
        | none => exact ⟨rfl, rfl⟩
        | some id =>
          by_cases hid : id ∈ d.dicts
          · simp only [hid, if_true]; exact ⟨trivial, trivial⟩
          · simp only [hid, if_false]; exact ⟨trivial, trivial⟩

/-- decoders that the public API can produce: the limit is always at or below the format maximum -/
inductive Reachable : FrameDecoder → Prop where
  | new : Reachable FrameDecoder.new
  | set (d m) : Reachable d → Reachable (d.setMaxWindowSize m)
  | reset (d src) : Reachable d → Reachable (d.reset src).1
  | addDict (d : FrameDecoder) (id : Nat) : Reachable d → Reachable { d with dicts := id :: d.dicts }

theorem limit_le_format_max : ∀ d, Reachable d → d.maxWindow ≤ Spec.windowMax := by
  intro d hd
  induction hd with
  | new => decide
  | set d m _ _ => exact (setter_clamps d m).2.1
  | reset d src _ ih => rw [(reset_keeps_limit d src).1]; exact ih
  | addDict d id _ ih => exact ih

/-! ## acceptance -/

/-- MAIN THEOREM, both paths at once: for every decoder (fresh or reused, any history) and every
source whose header can be read, `reset` gets past the window check IFF the header's window is
legal and at or below the decoder's limit -/
theorem accept_iff : ∀ (d : FrameDecoder) src h n rest, (∀ b ∈ src, b < 256) → readFrameHeader src = .ok (h, n, rest) →
    (PastWindowCheck (d.reset src).2 ↔ ∃ w, legalWindow h = some w ∧ w ≤ d.maxWindow) := by
  intro d src h n rest hb hsrc
  obtain ⟨w, hw, hl⟩ := windowSize_legal h (readFrameHeader_byteHeader src h n rest hb hsrc)
  rw [reset_eq d src h n rest w hsrc hw]
  by_cases hgt : w > d.maxWindow
  · simp only [hgt, if_true, PastWindowCheck]
    constructor
    · intro hp
      rcases hp with hp | ⟨id, hp⟩ <;> cases hp
    · intro ⟨w', h1, h2⟩
      rw [hl] at h1; injection h1 with h1; omega
  · simp only [hgt, if_false]
    constructor
    · intro _; exact ⟨w, hl, by omega⟩
    · intro _
      cases h.dictId with
      | none => exact Or.inl rfl
      | some id =>
        by_cases hid : id ∈ d.dicts
        · simp only [hid, if_true]; exact Or.inl rfl
        · simp only [hid, if_false]; exact Or.inr ⟨id, rfl⟩

/-- first-use path (`FrameDecoderState::new`) — the path the changelog says was once missing -/
theorem accept_iff_first : ∀ (d : FrameDecoder) src h n rest, d.state = none → (∀ b ∈ src, b < 256) →
    readFrameHeader src = .ok (h, n, rest) →
    (PastWindowCheck (d.reset src).2 ↔ ∃ w, legalWindow h = some w ∧ w ≤ d.maxWindow) :=
  fun d src h n rest _ hb hsrc => accept_iff d src h n rest hb hsrc

/-- reuse path (`FrameDecoderState::reset`), after any earlier frame -/
theorem accept_iff_reuse : ∀ (d : FrameDecoder) s src h n rest, d.state = some s → (∀ b ∈ src, b < 256) →
    readFrameHeader src = .ok (h, n, rest) →
    (PastWindowCheck (d.reset src).2 ↔ ∃ w, legalWindow h = some w ∧ w ≤ d.maxWindow) :=
  fun d _ src h n rest _ hb hsrc => accept_iff d src h n rest hb hsrc

/-- with a caller-supplied limit: accept ⇔ legal ∧ window ≤ min(limit, format maximum) -/
theorem accept_iff_limit : ∀ (d : FrameDecoder) limit src h n rest, (∀ b ∈ src, b < 256) →
    readFrameHeader src = .ok (h, n, rest) →
    (PastWindowCheck ((d.setMaxWindowSize limit).reset src).2 ↔
      ∃ w, legalWindow h = some w ∧ w ≤ min limit Spec.windowMax) := by
  intro d limit src h n rest hb hsrc
  rw [accept_iff _ src h n rest hb hsrc, (setter_clamps d limit).1]

/-- with the default limit: accept ⇔ legal ∧ window ≤ 128 MiB -/
theorem accept_iff_default : ∀ src h n rest, (∀ b ∈ src, b < 256) → readFrameHeader src = .ok (h, n, rest) →
    (PastWindowCheck (FrameDecoder.new.reset src).2 ↔ ∃ w, legalWindow h = some w ∧ w ≤ 128 * 1024 * 1024) := by
  intro src h n rest hb hsrc
  rw [accept_iff _ src h n rest hb hsrc, default_limit]

/-- single-segment frames: the window is the content size; there is NO lower bound — content
sizes below 1 KiB (0 included) are accepted by every limit at or above them -/
theorem accept_iff_single_segment : ∀ (d : FrameDecoder) src h n rest, (∀ b ∈ src, b < 256) →
    readFrameHeader src = .ok (h, n, rest) → (Spec.parseFrameDesc h.desc).singleSegment = true →
    (PastWindowCheck (d.reset src).2 ↔ h.fcs ≤ d.maxWindow) := by
  intro d src h n rest hb hsrc hss
  rw [accept_iff d src h n rest hb hsrc]
  simp only [legalWindow, hss, if_true, Option.some.injEq]
  constructor
  · intro ⟨w, h1, h2⟩; omega
  · intro h1; exact ⟨h.fcs, rfl, h1⟩

-- the theorems are not vacuous: a descriptor-0x88 frame (128 MiB) is accepted by default, 0x89 is not
example : (FrameDecoder.new.reset [0x28, 0xB5, 0x2F, 0xFD, 0x00, 0x88]).2 = .ok () := by decide
example : (FrameDecoder.new.reset [0x28, 0xB5, 0x2F, 0xFD, 0x00, 0x89]).2 =
    .error (.windowSizeTooBig 150994944 134217728) := by decide
example : ((FrameDecoder.new.setMaxWindowSize (2 ^ 64 - 1)).reset [0x28, 0xB5, 0x2F, 0xFD, 0x00, 0xFF]).2 = .ok () := by decide

/-! ## rejection happens before any allocation, and says why -/

/-- if `reset` does not get past the window check — unreadable header, illegal window, window
above the limit — the allocation log, the state and the limit are exactly as before: nothing was
allocated, reset or overwritten.  Both paths, every decoder, EVERY source (no hypothesis). -/
theorem reject_before_alloc : ∀ (d : FrameDecoder) src, ¬ PastWindowCheck (d.reset src).2 → (d.reset src).1 = d := by
  intro d src hnp
  cases hsrc : readFrameHeader src with
  | error e => rw [reset_header_error d src e hsrc]
  | ok r =>
    obtain ⟨h, n, rest⟩ := r
    cases hw : h.windowSize with
    | error e => rw [reset_window_error d src h n rest e hsrc hw]
    | ok w =>
      rw [reset_eq d src h n rest w hsrc hw] at hnp ⊢
      by_cases hgt : w > d.maxWindow
      · simp only [hgt, if_true]
      · exfalso; apply hnp
        simp only [hgt, if_false]
        cases h.dictId with
        | none => exact Or.inl rfl
        | some id =>
          by_cases hid : id ∈ d.dicts
          · simp only [hid, if_true]; exact Or.inl rfl
          · simp only [hid, if_false]; exact Or.inr ⟨id, rfl⟩

/-- in particular the allocation log is unchanged at the point of rejection -/
theorem reject_log_empty : ∀ (d : FrameDecoder) src, ¬ PastWindowCheck (d.reset src).2 → (d.reset src).1.log = d.log := by
  intro d src h; rw [reject_before_alloc d src h]

/-- an accepted frame logs exactly one scratch event carrying the accepted window: `scratchNew w`
on the first-use path (the ring buffer stays unallocated), `scratchReset w` plus at most one ring
allocation on the reuse path -/
theorem accept_allocates_window : ∀ (d : FrameDecoder) src h n rest w, readFrameHeader src = .ok (h, n, rest) →
    h.windowSize = .ok w → w ≤ d.maxWindow →
    (d.reset src).1.log = d.log ++ (match d.state with
      | none => [.scratchNew w]
      | some s => .scratchReset w :: (ringReserve s.ringCap w).2) := by
  intro d src h n rest w hsrc hw hle
  rw [reset_eq d src h n rest w hsrc hw]
  have hgt : ¬ w > d.maxWindow := by omega
  simp only [hgt, if_false]
  have hacc : (acceptedState d h n w).2 = (match d.state with
      | none => [.scratchNew w]
      | some s => .scratchReset w :: (ringReserve s.ringCap w).2) := by
    unfold acceptedState; cases d.state <;> rfl
  cases h.dictId with
  | none => simp only [hacc]
  | some id => by_cases hid : id ∈ d.dicts <;> simp only [hid, if_true, if_false, hacc]

/-- the error of an over-limit frame reports the requested window and the EFFECTIVE limit -/
theorem reject_reports : ∀ (d : FrameDecoder) src h n rest w, (∀ b ∈ src, b < 256) →
    readFrameHeader src = .ok (h, n, rest) → legalWindow h = some w → w > d.maxWindow →
    (d.reset src).2 = .error (.windowSizeTooBig w d.maxWindow) := by
  intro d src h n rest w hb hsrc hl hgt
  obtain ⟨w', hw, hl'⟩ := windowSize_legal h (readFrameHeader_byteHeader src h n rest hb hsrc)
  rw [hl] at hl'; injection hl' with hl'; subst hl'
  rw [reset_eq d src h n rest w hsrc hw]
  simp only [hgt, if_true]

/-- … which after `set_max_window_size(limit)` is `min(limit, format maximum)`, not the raw request -/
theorem reject_reports_effective_limit : ∀ (d : FrameDecoder) limit src h n rest w, (∀ b ∈ src, b < 256) →
    readFrameHeader src = .ok (h, n, rest) → legalWindow h = some w → w > min limit Spec.windowMax →
    ((d.setMaxWindowSize limit).reset src).2 = .error (.windowSizeTooBig w (min limit Spec.windowMax)) := by
  intro d limit src h n rest w hb hsrc hl hgt
  have := reject_reports (d.setMaxWindowSize limit) src h n rest w hb hsrc hl (by rw [(setter_clamps d limit).1]; exact hgt)
  rw [(setter_clamps d limit).1] at this
  exact this

/-- windows the format does not allow are refused by the header's own range check, whatever the limit -/
theorem illegal_window_refused : ∀ (d : FrameDecoder) src h n rest e, readFrameHeader src = .ok (h, n, rest) →
    h.windowSize = .error e → d.reset src = (d, .error (.headerErr e)) :=
  fun d src h n rest e hsrc hw => reset_window_error d src h n rest e hsrc hw

/-! ## the other front ends -/

/-- `StreamingDecoder::new_with_max_window_size(source, limit)` applies the limit BEFORE `init` -/
theorem streaming_accept_iff : ∀ limit src h n rest, (∀ b ∈ src, b < 256) → readFrameHeader src = .ok (h, n, rest) →
    (PastWindowCheck (streamingNewWithMax src limit).2 ↔ ∃ w, legalWindow h = some w ∧ w ≤ min limit Spec.windowMax) := by
  intro limit src h n rest hb hsrc
  simp only [streamingNewWithMax, Gen.streamingSetsLimitBeforeInit, if_true]
  exact accept_iff_limit FrameDecoder.new limit src h n rest hb hsrc

/-- `StreamingDecoder::new(source)`: the default limit -/
theorem streaming_default_accept_iff : ∀ src h n rest, (∀ b ∈ src, b < 256) → readFrameHeader src = .ok (h, n, rest) →
    (PastWindowCheck (streamingNew src).2 ↔ ∃ w, legalWindow h = some w ∧ w ≤ 128 * 1024 * 1024) :=
  fun src h n rest hb hsrc => accept_iff_default src h n rest hb hsrc

/-- `StreamingDecoder::new_with_decoder(source, decoder)` is `decoder.init(source)`: a reused decoder
keeps its limit and takes the reuse path -/
theorem streaming_with_decoder : ∀ (d : FrameDecoder) src, streamingNewWithDecoder d src = d.reset src := fun _ _ => rfl

/-- `decode_all`: EVERY frame of a multi-frame input goes through `init` on the same decoder — a
frame that is rejected ends the call with that error and the decoder as `init` left it (untouched,
by `reject_before_alloc`) … -/
theorem decodeAll_frame_rejected : ∀ (d d' : FrameDecoder) input fuel k e, input ≠ [] → d.reset input = (d', .error e) →
    (∀ m l, e ≠ .readHeader (.skipFrame m l)) →
    d.decodeAllMin input (fuel + 1) k = (d', .error e) := by
  intro d d' input fuel k e hne hr hskip
  have : input.isEmpty = false := by cases input <;> simp_all
  simp only [FrameDecoder.decodeAllMin, this, Bool.false_eq_true, if_false, hr]

/-- … and a frame that is accepted (empty body) hands the SAME decoder, now on the reuse path, to the
next frame -/
theorem decodeAll_frame_accepted : ∀ (d d' : FrameDecoder) (s : FDState) input tail fuel k, input ≠ [] →
    d.reset input = (d', .ok ()) → d'.state = some s →
    input.drop s.bytesRead = 1 :: 0 :: 0 :: tail → Gen.fdChecksum s.header.desc = false →
    d.decodeAllMin input (fuel + 1) k = d'.decodeAllMin tail fuel (k + 1) := by
  intro d d' s input tail fuel k hne hr hs hbody hck
  have : input.isEmpty = false := by cases input <;> simp_all
  simp only [FrameDecoder.decodeAllMin, this, Bool.false_eq_true, if_false, hr, hs, hbody, hck, List.length_nil,
    Nat.not_lt_zero, List.drop_zero]

/-- skippable frames never reach the window check and never touch the decoder -/
theorem decodeAll_skips : ∀ (d : FrameDecoder) input m l fuel k, input ≠ [] →
    readFrameHeader input = .error (.skipFrame m l) → ¬ ((input.drop 8).length < l) →
    d.decodeAllMin input (fuel + 1) k = d.decodeAllMin ((input.drop 8).drop l) fuel k := by
  intro d input m l fuel k hne hsrc hlen
  have : input.isEmpty = false := by cases input <;> simp_all
  simp only [FrameDecoder.decodeAllMin, this, Bool.false_eq_true, if_false, reset_header_error d input _ hsrc, hlen]

end Zstd.Props.C11
