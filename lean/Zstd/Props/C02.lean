import Zstd.Proofs.EncContracts
import Zstd.Model.EncCoders
import Zstd.Proofs.MatchValid
import Zstd.Proofs.LitCoderFrame
/-
C02 — compress then decompress returns the input, and the frame is valid Zstandard.

"Valid Zstandard / decodes to the input" is `Spec.decodeFrame frame = some ⟨data, frame.length, …⟩`
(the strict RFC 8878 transcription, validated against libzstd on every run): the whole frame is
consumed, the content is the input, the checksum verifies.

Quantifiers: `data` any byte string, `frags` any read-fragmentation script, `c` ANY state of the
compressor object (so: any history of frames pushed through it, including frames that panicked),
`hash` both settings of the cargo feature, `enc` any block encoder (it is not called at the
Uncompressed level), and — for the general statements — any matcher script.
-/
namespace Zstd.Props.C02
open Zstd Zstd.Model Zstd.Model.Enc Zstd.Proofs.Enc

/-- the spaces the matcher hands out are non-empty and at most 128 KiB (the trait's documented
maximum).  Since the repair of F13 the declared window is at least 128 KiB whatever
`window_size()` says, so nothing relates the spaces to the window any more. -/
def GoodSpaces (script : Nat → MBlock) : Prop :=
  ∀ i, 0 < (script i).space ∧ (script i).space ≤ Gen.maxBlockSize

theorem builtin_window_le : builtinWindow ≤ 2 ^ 41 := by decide
theorem builtin_declared : declaredWindow builtinWindow = 131072 := by decide +kernel
theorem builtin_good_spaces (parse : Nat → Parse) : GoodSpaces (builtinScript parse) := by
  intro i
  refine ⟨?_, ?_⟩
  · show 0 < Gen.prodSliceSize
    decide
  · show Gen.prodSliceSize ≤ Gen.maxBlockSize
    decide

/-- **Uncompressed level, any matcher with good spaces**: `compress` does not panic and the frame
decodes (strict Spec) to exactly the input: header + raw blocks + checksum; covers the empty input,
exact multiples of the space size (extra empty last block), multi-block inputs, any fragmentation,
any prior state of the compressor object. -/
theorem compress_uncompressed_roundtrip_any_matcher {H : Type} (hash : Bool) (enc : BlockEnc H)
    (c : Compressor H) (hc : c.level = .uncompressed) (w : Nat) (script : Nat → MBlock)
    (hw : w ≤ 2 ^ 41) (hsp : GoodSpaces script) (data : List Byte) (frags : List Nat) :
    ∃ frame c', compressFrame hash enc c w script data frags = .ok (frame, c') ∧
      Spec.decodeFrame frame = some (specResult hash w data frame) := by
  have hspace : ∀ i, 0 < (script i).space := fun i => (hsp i).1
  obtain ⟨frame, c', hrun⟩ := compressFrame_no_fault hash enc c w script data frags hw hspace (by
    intro last blk i st _ hlen
    have := (hsp i).2
    simp only [maxBlockSize_eq] at this
    have hlt : ¬ blk.length ≥ 2 ^ 32 := by omega
    rw [hc]
    simp only [emitBlock, hlt, ↓reduceIte]
    exact ⟨_, rfl⟩)
  refine ⟨frame, c', hrun, ?_⟩
  apply compressFrame_decodes hash enc c w script data frags (fun _ _ => True)
    (fun _ blk _ => blk.length ≤ min (declaredWindow w) Gen.maxBlockSize) hw hspace
    (by rw [hc]; exact emit_uncompressed_decodes _ _ enc) (fun _ => trivial) _ frame c' hrun
  intro i _
  rw [min_declared_block w hw]
  exact Nat.le_trans (List.length_take_le _ _) (hsp i).2

/-- **C02, Uncompressed level, built-in matcher** (`compress`, `compress_to_vec`,
`FrameCompressor::new`): for every input, fragmentation and prior state of the compressor,
compression completes and the frame is valid Zstandard that decodes to the input. -/
theorem compress_uncompressed_roundtrip {H : Type} (hash : Bool) (enc : BlockEnc H) (parse : Nat → Parse)
    (c : Compressor H) (hc : c.level = .uncompressed) (data : List Byte) (frags : List Nat) :
    ∃ frame c', compressFrame hash enc c builtinWindow (builtinScript parse) data frags = .ok (frame, c') ∧
      Spec.decodeFrame frame = some (specResult hash builtinWindow data frame) :=
  compress_uncompressed_roundtrip_any_matcher hash enc c hc builtinWindow (builtinScript parse)
    builtin_window_le (builtin_good_spaces parse) data frags

/-- **A reused compressor emits the same bytes as a fresh one, given the same matcher behaviour**
(`last_huff_table := None`, hasher re-seeded, matcher asked from its first space again): for EVERY
state `c` of the object, every level and block encoder.  The matcher's behaviour after `reset()` is
the parameter `script`.  For the BUILT-IN matcher that behaviour is NOT history independent at the
byte level: `MatchGeneratorDriver::reset` recycles suffix stores, a recycled store can be larger than
a fresh one, hash collisions differ, and so do the parses (observed by the byte-identical
correspondence: a reused compressor emitted 1455 bytes where a fresh one emits 1454).  Correctness
is not affected — the round-trip theorems hold for every valid script — and the correspondence run
threads the matcher model (`builtinFrame`) through the frames of a history. -/
theorem compress_reuse_independent {H : Type} (hash : Bool) (enc : BlockEnc H) (c : Compressor H)
    (w : Nat) (script : Nat → MBlock) (data : List Byte) (frags : List Nat) :
    (compressFrame hash enc c w script data frags).map (·.1) = compress hash enc c.level w script data frags := by
  unfold compress compressFrame Compressor.fresh
  simp only [frameResetsMatcher_eq, frameResetsHuff_eq, frameReseedsHasher_eq, ↓reduceIte]

/-- the same, spelled with an explicit history of frames (of any levels, some of which may have
panicked and left the object in any state `after _`) -/
theorem compress_reuse_independent_history {H : Type} (hash : Bool) (enc : BlockEnc H)
    (after : Compressor H → Compressor H) (history : List Job) (c0 : Compressor H) (lvl : Level)
    (w : Nat) (script : Nat → MBlock) (data : List Byte) (frags : List Nat) :
    (compressFrame hash enc ((runHistory hash enc after history c0).setLevel lvl) w script data frags).map (·.1)
      = compress hash enc lvl w script data frags :=
  compress_reuse_independent hash enc _ w script data frags

/-- **Fastest level, partial**: for every block encoder that satisfies the contract `BlockEncCorrect`
(what C16 proves of `compress_block` over the entropy coders) and does not panic on this matcher's parses,
and every matcher whose spaces are good and whose parses are valid (C17 for the built-in one):
compression completes and the frame decodes to the input.  RLE blocks, raw-fallback blocks, the
`last_huff_table` bookkeeping around the fallback (F5) and all frame plumbing are proved here;
the hypothesis is used only for blocks KEPT as compressed blocks. -/
theorem compress_fastest_roundtrip_partial {H : Type} (R : H → Spec.Huffman.Table → Prop) (hash : Bool)
    (enc : BlockEnc H) (c : Compressor H) (hc : c.level = .fastest) (w : Nat) (script : Nat → MBlock)
    (data : List Byte) (frags : List Nat) (hm : ValidMatcher w script data)
    (henc : BlockEncCorrect R w (declaredWindow w) enc)
    (htotal : ∀ i st, ∃ r, enc (script i).parse st = .ok r) :
    ∃ frame c', compressFrame hash enc c w script data frags = .ok (frame, c') ∧
      Spec.decodeFrame frame = some (specResult hash w data frame) := by
  obtain ⟨frame, c', hrun⟩ := compressFrame_no_fault hash enc c w script data frags hm.window_le hm.space_pos (by
    intro last blk i st hne _
    rw [hc]
    obtain ⟨⟨bytes, st1⟩, hr⟩ := htotal i st
    cases blk with
    | nil => exact absurd rfl hne
    | cons b t =>
      simp only [emitBlock, compressFastest, hr]
      split
      · exact ⟨_, rfl⟩
      · split <;> exact ⟨_, rfl⟩)
  refine ⟨frame, c', hrun, ?_⟩
  apply compressFrame_decodes hash enc c w script data frags (Tracks R)
    (FastPre w (declaredWindow w)) hm.window_le hm.space_pos
    (by rw [hc]; exact emit_fastest_decodes R w _ enc henc) (fun st => tracks_none R st {}) _ frame c' hrun
  intro i _
  exact ⟨by rw [min_declared_block w hm.window_le]; exact Nat.le_trans (List.length_take_le _ _) (hm.space_le i), hm.parse_ok i⟩

/-- C02 at full strength for `Fastest`, now a CLOSED statement: the real block encoder
(`compressBlockReal` = `compressBlock` over the merged FSE / Huffman models) and the real built-in
matcher in any state `d` (`builtinFrame`, the merged C17 model driven as `compress_fastest` drives
it).  The executable model of exactly this statement is compared byte for byte with the code on
every run.  NOT proved: it needs (1) `BlockEncCorrect` for `compressBlockReal` (Huffman / FSE
encode → strict Spec decode: `encode_decode_*_full` of C12 / C13 are open), (2) `ValidMatcher` for
the script `builtinFrame` computes (C17: `replay_reconstructs_block`, `prod_offset_le`, lifted to the
block loop), (3) no fault of the coders on those parses. -/
def compress_fastest_roundtrip_full : Prop :=
  ∀ (hash : Bool) (d : MG.Driver) (c : Compressor Huf.EncTable), c.level = .fastest →
    ∀ (data : List Byte) (frags : List Nat),
    ∃ d' arr frame c', builtinFrame .fastest d data = .ok (d', arr) ∧
      compressFrame hash compressBlockReal c builtinWindow (scriptOfArray arr Gen.prodSliceSize) data frags
        = .ok (frame, c') ∧
      Spec.decodeFrame frame = some (specResult hash builtinWindow data frame)

/-- the closed statement follows from the three named obligations (nothing else is missing) -/
theorem compress_fastest_roundtrip_full_of (R : Huf.EncTable → Spec.Huffman.Table → Prop)
    (henc : BlockEncCorrect R builtinWindow (declaredWindow builtinWindow) compressBlockReal)
    (hmatcher : ∀ (d : MG.Driver) (data : List Byte), ∃ d' arr, builtinFrame .fastest d data = .ok (d', arr) ∧
      ValidMatcher builtinWindow (scriptOfArray arr Gen.prodSliceSize) data ∧
      ∀ i st, ∃ r, compressBlockReal (scriptOfArray arr Gen.prodSliceSize i).parse st = .ok r) :
    compress_fastest_roundtrip_full := by
  intro hash d c hc data frags
  obtain ⟨d', arr, hf, hv, ht⟩ := hmatcher d data
  obtain ⟨frame, c', h1, h2⟩ := compress_fastest_roundtrip_partial R hash compressBlockReal c hc builtinWindow _ data frags hv henc ht
  exact ⟨d', arr, frame, c', hf, h1, h2⟩

/-! ### obligation (2) of `compress_fastest_roundtrip_full_of` discharged by C17

`hmatcher` above quantifies over EVERY value of the type `MG.Driver`.  That is more than a compressor
can ever hold and it is not satisfiable (`hmatcher_unsatisfiable`: a driver with `slice_size = 0`
hands out empty spaces), and for the same reason `compress_fastest_roundtrip_full` as worded is too
strong.  The matcher of a real compressor is always in a `BuiltinState`: created by
`MatchGeneratorDriver::new(128 KiB, 1)` and driven only through the calls `compress` makes (C17:
`builtin_state_fresh`, `builtin_no_fault`, `builtin_state_history`).  For those states C17 proves the
matcher part — `builtinFrame` does not fault and its script is a `ValidMatcher` — for every input;
read fragmentation does not reach the matcher, and the history of the compressor only enters through
the state (recycled suffix stores change the PARSE, hence the bytes, never its validity). -/

/-- the states the built-in matcher of a compressor can be in (production constants) -/
abbrev BuiltinState (d : MG.Driver) : Prop := Zstd.Proofs.MG.BuiltinState Gen.prodSliceSize Gen.prodMaxSlices d

/-- the matcher half of `hmatcher` cannot hold for all values of `MG.Driver` -/
theorem hmatcher_unsatisfiable :
    ¬ (∀ (d : MG.Driver) (data : List Byte), ∃ d' arr, builtinFrame .fastest d data = .ok (d', arr) ∧
        ValidMatcher builtinWindow (scriptOfArray arr Gen.prodSliceSize) data) := by
  intro h
  obtain ⟨d', arr, hrun, hv⟩ := h (MG.Driver.new 0 0) [1]
  have hrun' : builtinFrame .fastest (MG.Driver.new 0 0) [1] = .ok (MG.Driver.new 0 0, #[⟨0, {}⟩]) := by rfl
  rw [hrun'] at hrun
  simp only [Except.ok.injEq, Prod.mk.injEq] at hrun
  obtain ⟨_, rfl⟩ := hrun
  have := hv.space_pos 0
  simp [scriptOfArray] at this

/-- … and `compress_fastest_roundtrip_full` as worded (every value of `MG.Driver`) is FALSE — not
because of the code but because of the quantifier: a driver value with `slice_size = 0` (which no
compressor can hold) hands out an empty space, `compress` then frames the empty string, and the frame
does not decode to the input `[1]`.  `compress_fastest_roundtrip_builtin` below is the statement
over the states a compressor can be in. -/
theorem compress_fastest_roundtrip_full_false : ¬ compress_fastest_roundtrip_full := by
  intro h
  obtain ⟨d', arr, frame, c', h1, h2, h3⟩ := h false (MG.Driver.new 0 0) (Compressor.fresh .fastest) rfl [1] []
  have hrun' : builtinFrame .fastest (MG.Driver.new 0 0) [1] = .ok (MG.Driver.new 0 0, #[⟨0, {}⟩]) := by rfl
  rw [hrun'] at h1
  simp only [Except.ok.injEq, Prod.mk.injEq] at h1
  obtain ⟨_, rfl⟩ := h1
  have hf : (compressFrame false compressBlockReal (Compressor.fresh .fastest) builtinWindow
      (scriptOfArray #[⟨0, {}⟩] Gen.prodSliceSize) [1] []).map (·.1) = .ok [40, 181, 47, 253, 0, 56, 1, 0, 0] := by
    decide +kernel
  rw [h2] at hf
  simp only [Except.map, Except.ok.injEq] at hf
  subst hf
  have hd : (Spec.decodeFrame [40, 181, 47, 253, 0, 56, 1, 0, 0]).map (·.content) = some [] := by decide +kernel
  rw [h3] at hd
  simp [specResult] at hd

/-- **the built-in matcher satisfies `ValidMatcher`** for every input and every state the compressor's
protocol can produce; the state afterwards is such a state again -/
theorem builtin_matcher_valid (d : MG.Driver) (hd : BuiltinState d) (data : List Byte) :
    ∃ d' arr, builtinFrame .fastest d data = .ok (d', arr) ∧ BuiltinState d' ∧
      ValidMatcher builtinWindow (scriptOfArray arr Gen.prodSliceSize) data :=
  Zstd.Proofs.MG.builtinFrame_fastest_valid Gen.prodSliceSize Gen.prodMaxSlices (by decide) (by decide) (by decide)
    (by decide) d hd data

/-- C02 for `Fastest` over the states a compressor can be in, PREVIOUS WORDING (kept as the conclusion of
`compress_fastest_roundtrip_builtin_of`): `data : List Byte` ranges over all lists of `Nat` (`Byte` is an
abbreviation of `Nat`).  For a list with an element `≥ 256` and more than 1024 literals in a block the
literal coder has no code for that element and panics (`Props.C16.compress_with_matcher_correct_full_false`
refutes the analogous wording for user matchers), so this wording is too strong; the theorem
`compress_fastest_roundtrip_builtin` below is the statement for byte strings. -/
def compress_fastest_roundtrip_builtin_full : Prop :=
  ∀ (hash : Bool) (d : MG.Driver) (c : Compressor Huf.EncTable), BuiltinState d → c.level = .fastest →
    ∀ (data : List Byte) (frags : List Nat),
    ∃ d' arr frame c', builtinFrame .fastest d data = .ok (d', arr) ∧ BuiltinState d' ∧
      compressFrame hash compressBlockReal c builtinWindow (scriptOfArray arr Gen.prodSliceSize) data frags
        = .ok (frame, c') ∧
      Spec.decodeFrame frame = some (specResult hash builtinWindow data frame)

/-- … follows from the TWO remaining obligations: the block-encoder contract (C16 over C12/C13) and
"the real coders do not fault on the parses of the built-in matcher".  The matcher obligation is
discharged by C17. -/
theorem compress_fastest_roundtrip_builtin_of (R : Huf.EncTable → Spec.Huffman.Table → Prop)
    (henc : BlockEncCorrect R builtinWindow (declaredWindow builtinWindow) compressBlockReal)
    (hcoders : ∀ (d : MG.Driver) (data : List Byte) d' arr, BuiltinState d →
      builtinFrame .fastest d data = .ok (d', arr) →
      ∀ i st, ∃ r, compressBlockReal (scriptOfArray arr Gen.prodSliceSize i).parse st = .ok r) :
    compress_fastest_roundtrip_builtin_full := by
  intro hash d c hd hc data frags
  obtain ⟨d', arr, hf, hd', hv⟩ := builtin_matcher_valid d hd data
  obtain ⟨frame, c', h1, h2⟩ := compress_fastest_roundtrip_partial R hash compressBlockReal c hc builtinWindow _ data
    frags hv henc (hcoders d data d' arr hd hf)
  exact ⟨d', arr, frame, c', hf, hd', h1, h2⟩

/-- a new compressor, and a compressor after any history of frames, is in a `BuiltinState` -/
theorem builtin_state_of_history (jobs : List (Level × List Byte)) :
    BuiltinState (Zstd.Proofs.MG.builtinHistory jobs (MG.Driver.new Gen.prodSliceSize Gen.prodMaxSlices)) :=
  Zstd.Proofs.MG.builtinHistory_state _ _ (by decide) (by decide) jobs _ (Zstd.Proofs.MG.builtinState_new _ _)

/-! ### both remaining obligations discharged (`Proofs/LitCoder*.lean`, `Proofs/Seq*.lean`)

The block-encoder contract holds for the real `compress_block` (`Props.C16.block_encoder_contract_real`:
sequences half by C12, literals half — RLE, raw, Huffman with new table in direct or FSE-compressed form,
Treeless, one and four streams — against the STRICT Spec by `Props.C16.lit_coder_correct`), and the real
coders do not panic on the built-in matcher's parses of byte strings from any reachable encoder state
(the last candidate, `assert!(encoded_len < 128)` of `write_table`, is excluded by
`C13.fse_weights_lt_128_full_holds`). -/

open Zstd.Proofs.LitCoder

theorem builtin_window_u32 : builtinWindow + 3 < 2 ^ 32 := by decide

/-- **C02, `Fastest`, built-in matcher, without the finite evaluation behind `fse_weights_lt_128`**: for every
byte string, every fragmentation, every state of the compressor object and of its matcher that a history of
frames can produce, both settings of `hash`: the matcher does not panic, and `compress` either completes with
a frame that the strict Spec decodes to exactly the input (whole frame consumed, checksum verified), or panics
at `assert!(encoded_len < 128)` in `HuffmanEncoder::write_table`.  No other panic site is reachable. -/
theorem compress_fastest_roundtrip_builtin_or_assert (hash : Bool) (d : MG.Driver) (c : Compressor Huf.EncTable)
    (hd : BuiltinState d) (hc : c.level = .fastest) (data : List Byte) (frags : List Nat)
    (hbytes : ∀ b ∈ data, b < 256) :
    ∃ d' arr, builtinFrame .fastest d data = .ok (d', arr) ∧ BuiltinState d' ∧
      ((∃ frame c', compressFrame hash compressBlockReal c builtinWindow (scriptOfArray arr Gen.prodSliceSize) data frags
            = .ok (frame, c') ∧
          Spec.decodeFrame frame = some (specResult hash builtinWindow data frame)) ∨
        (∃ f, compressFrame hash compressBlockReal c builtinWindow (scriptOfArray arr Gen.prodSliceSize) data frags
            = .error f ∧ WriteTableAssert f)) := by
  obtain ⟨d', arr, hf, hd', hv⟩ := builtin_matcher_valid d hd data
  exact ⟨d', arr, hf, hd', compress_real_correct_or_assert hash c hc builtinWindow _ data frags hv builtin_window_u32 hbytes⟩

/-- **C02, `Fastest`, built-in matcher, partial correctness** (no hypothesis on the coders, none on the
bytes): whenever `compress` returns, the frame decodes to exactly the input -/
theorem compress_fastest_roundtrip_builtin_decodes (hash : Bool) (d : MG.Driver) (c : Compressor Huf.EncTable)
    (hd : BuiltinState d) (hc : c.level = .fastest) (data : List Byte) (frags : List Nat) :
    ∃ d' arr, builtinFrame .fastest d data = .ok (d', arr) ∧ BuiltinState d' ∧
      ∀ frame c', compressFrame hash compressBlockReal c builtinWindow (scriptOfArray arr Gen.prodSliceSize) data frags
          = .ok (frame, c') →
        Spec.decodeFrame frame = some (specResult hash builtinWindow data frame) := by
  obtain ⟨d', arr, hf, hd', hv⟩ := builtin_matcher_valid d hd data
  exact ⟨d', arr, hf, hd', fun frame c' hrun =>
    compress_real_decodes hash c hc builtinWindow _ data frags hv builtin_window_u32 frame c' hrun⟩

/-- **C02 at full strength for `Fastest`, no obligation left** (corrected wording: byte strings): for every
input, fragmentation, reuse history (any state of the compressor object; any matcher state the protocol can
produce) and both settings of `hash`, compression with the built-in matcher and the real coders completes —
neither the matcher nor a coder panics — and the frame is valid Zstandard that decodes to the input (strict
Spec: whole frame consumed, content equal, checksum verified); the matcher is again in a protocol state. -/
theorem compress_fastest_roundtrip_builtin (hash : Bool) (d : MG.Driver)
    (c : Compressor Huf.EncTable) (hd : BuiltinState d) (hc : c.level = .fastest) (data : List Byte)
    (frags : List Nat) (hbytes : ∀ b ∈ data, b < 256) :
    ∃ d' arr frame c', builtinFrame .fastest d data = .ok (d', arr) ∧ BuiltinState d' ∧
      compressFrame hash compressBlockReal c builtinWindow (scriptOfArray arr Gen.prodSliceSize) data frags
        = .ok (frame, c') ∧
      Spec.decodeFrame frame = some (specResult hash builtinWindow data frame) := by
  obtain ⟨d', arr, hf, hd', hv⟩ := builtin_matcher_valid d hd data
  obtain ⟨frame, c', h1, h2⟩ :=
    compress_real_correct (fseWeightsLt128_of_full Zstd.Props.C13.fse_weights_lt_128_full_holds) hash c hc builtinWindow _ data frags hv builtin_window_u32 hbytes
  exact ⟨d', arr, frame, c', hf, hd', h1, h2⟩

/-- … for a compressor after ANY history of frames (levels and inputs arbitrary), spelled out -/
theorem compress_fastest_roundtrip_builtin_history (hash : Bool)
    (jobs : List (Level × List Byte)) (c : Compressor Huf.EncTable) (hc : c.level = .fastest) (data : List Byte)
    (frags : List Nat) (hbytes : ∀ b ∈ data, b < 256) :
    ∃ d' arr frame c',
      builtinFrame .fastest (Zstd.Proofs.MG.builtinHistory jobs (MG.Driver.new Gen.prodSliceSize Gen.prodMaxSlices)) data
        = .ok (d', arr) ∧ BuiltinState d' ∧
      compressFrame hash compressBlockReal c builtinWindow (scriptOfArray arr Gen.prodSliceSize) data frags
        = .ok (frame, c') ∧
      Spec.decodeFrame frame = some (specResult hash builtinWindow data frame) :=
  compress_fastest_roundtrip_builtin hash _ c (builtin_state_of_history jobs) hc data frags hbytes

/-- a fresh compressor (`FrameCompressor::new(Fastest)`, `compress_to_vec`) on any byte string -/
theorem compress_fastest_roundtrip_fresh (hash : Bool) (data : List Byte) (frags : List Nat)
    (hbytes : ∀ b ∈ data, b < 256) :
    ∃ d' arr frame c',
      builtinFrame .fastest (MG.Driver.new Gen.prodSliceSize Gen.prodMaxSlices) data = .ok (d', arr) ∧
      compressFrame hash compressBlockReal (Compressor.fresh .fastest) builtinWindow
        (scriptOfArray arr Gen.prodSliceSize) data frags = .ok (frame, c') ∧
      Spec.decodeFrame frame = some (specResult hash builtinWindow data frame) := by
  obtain ⟨d', arr, frame, c', h1, _, h2, h3⟩ :=
    compress_fastest_roundtrip_builtin_history hash [] (Compressor.fresh .fastest) rfl data frags hbytes
  exact ⟨d', arr, frame, c', h1, h2, h3⟩

/-- unimplemented levels: an empty input is framed before the level is looked at (no panic, valid
frame of the empty string) … -/
theorem unimplemented_level_empty_input {H : Type} (hash : Bool) (enc : BlockEnc H) (c : Compressor H)
    (w : Nat) (script : Nat → MBlock) (hw : w ≤ 2 ^ 41) (hsp : GoodSpaces script) (frags : List Nat) :
    ∃ frame c', compressFrame hash enc c w script [] frags = .ok (frame, c') ∧
      Spec.decodeFrame frame = some (specResult hash w [] frame) := by
  have hspace : ∀ i, 0 < (script i).space := fun i => (hsp i).1
  obtain ⟨e, _, _, hwd, _, _⟩ := headerDescriptor_spec w hw
  obtain ⟨frags', hs⟩ := compressLoop_step (emitBlock c.level enc) script 0 0 ({ c.st with lastHuff := none }) [] [] frags (hspace 0)
  have hrun : ∃ frame c', compressFrame hash enc c w script [] frags = .ok (frame, c') := by
    unfold compressFrame
    simp only [frameHeader, hwd, frameResetsMatcher_eq, frameResetsHuff_eq, frameReseedsHasher_eq, ↓reduceIte,
      List.length_nil, Nat.zero_add, hs]
    simp
  obtain ⟨frame, c', hrun⟩ := hrun
  refine ⟨frame, c', hrun, ?_⟩
  apply compressFrame_decodes hash enc c w script [] frags (fun _ _ => True) (fun _ _ _ => False) hw hspace
    (by intro last blk p st st' bytes e pre _ hF; exact hF.elim) (fun _ => trivial) _ frame c' hrun
  intro i hne
  simp [blockAt] at hne

/-- … and any other input panics with `unimplemented!()` -/
theorem unimplemented_level_panics {H : Type} (hash : Bool) (enc : BlockEnc H) (c : Compressor H)
    (hc : c.level ≠ .uncompressed ∧ c.level ≠ .fastest)
    (w : Nat) (script : Nat → MBlock) (hw : w ≤ 2 ^ 41) (hsp : GoodSpaces script)
    (data : List Byte) (hd : data ≠ []) (frags : List Nat) :
    compressFrame hash enc c w script data frags = .error (.unimplemented "frame_compressor.rs:compress:level") := by
  have hspace : ∀ i, 0 < (script i).space := fun i => (hsp i).1
  obtain ⟨e, _, _, hwd, _, _⟩ := headerDescriptor_spec w hw
  obtain ⟨frags', hs⟩ := compressLoop_step (emitBlock c.level enc) script data.length 0 ({ c.st with lastHuff := none }) [] data frags (hspace 0)
  have hne : (data.take (script 0).space).isEmpty = false := by
    cases data with
    | nil => exact absurd rfl hd
    | cons a as =>
      have := hspace 0
      cases hspc : (script 0).space with
      | zero => omega
      | succ n => simp
  have hemit : ∀ last blk p st, emitBlock c.level enc last blk p st = .error (.unimplemented "frame_compressor.rs:compress:level") := by
    intro last blk p st
    cases hl : c.level with
    | uncompressed => exact absurd hl hc.1
    | fastest => exact absurd hl hc.2
    | default => rfl
    | better => rfl
    | best => rfl
  unfold compressFrame
  simp only [frameHeader, hwd, frameResetsMatcher_eq, frameResetsHuff_eq, frameReseedsHasher_eq, ↓reduceIte, hs, hne,
    hemit, Bool.false_eq_true]

/-- non-vacuity: a concrete two-block frame (space 4, data of 6 bytes read in fragments of 1 and 3) at
the Uncompressed level, decoded by the strict Spec -/
example :
    (compress (H := Unit) true (fun _ st => .ok ([], st)) .uncompressed 4096 (fun _ => ⟨4, {}⟩) [1, 2, 3, 4, 5, 6] [1, 3]).toOption
      = some [40, 181, 47, 253, 4, 56, 32, 0, 0, 1, 2, 3, 4, 17, 0, 0, 5, 6, 156, 208, 232, 69] := by
  decide +kernel

end Zstd.Props.C02
